(* Model of the mage:import scanner and of what a tagged import exposes
   (parse/parse.go: getImportPathFromCommentGroup, getImportPath, setImports, getNamedImports,
   getImportFrom, Function.TargetName; internal/run.go: OutputDebugIn).  Executable definitions only.

   Input is what go/parser hands to mage: per file the import declarations (ast.GenDecl with
   Tok == IMPORT) with their Doc group, whether they are parenthesised (Lparen) and their specs
   (ast.ImportSpec: Doc group, Comment group, path).  A comment group is the list of the
   ast.Comment.Text strings, comment markers included ("// x", "/* x */"); a nil group is None.
   The go tool (`go list` run in a directory, then Package() of the directory it names) is the
   parameter [golist]; its actual values are fed in by the harness.

   Library functions: strings.ToLower, strings.Fields are modelled for ASCII (the generator stays
   ASCII); s[2:] on a comment text drops the two marker bytes.

   The CURRENT code is modelled (get_import_path, set_imports).  The behaviour of the tree before
   each repair is kept as a separate instance of the same generic definitions, for the
   ..._before_repair_refuted witnesses: from_group_pinned (73941a1: length test == 9),
   set_imports_start_dir (b79c739: lookup in the start directory), lit_ok_before_48f17db /
   set_imports_before_48f17db (raw path literals not scanned), map_set / set_imports_path_keyed
   (5f65f03: importNames keyed by the path alone), root_append / set_imports_roots_appended
   (4a102aa: a package imported bare by several specs was imported several times). *)
From Mage Require Import Base.Strs.

(* ---------------------------------------------------------------- strings *)
Definition lower_ascii (c : ascii) : ascii :=
  let n := nat_of_ascii c in
  if Nat.leb 65 n && Nat.leb n 90 then ascii_of_nat (n + 32) else c.

Fixpoint to_lower (s : string) : string :=
  match s with
  | EmptyString => EmptyString
  | String c r => String (lower_ascii c) (to_lower r)
  end.

(* strings.Fields' asciiSpace table: \t \n \v \f \r and the blank *)
Definition is_space (c : ascii) : bool :=
  let n := nat_of_ascii c in Nat.eqb n 32 || (Nat.leb 9 n && Nat.leb n 13).

Definition is_empty (s : string) : bool := match s with EmptyString => true | _ => false end.

(* cur: the field being read *)
Fixpoint fields_from (s : string) (cur : string) : list string :=
  match s with
  | EmptyString => if is_empty cur then [] else [cur]
  | String c r =>
      if is_space c
      then (if is_empty cur then fields_from r EmptyString else cur :: fields_from r EmptyString)
      else fields_from r (cur ++ String c EmptyString)%string
  end.
Definition fields (s : string) : list string := fields_from s EmptyString.

(* s[2:] *)
Definition drop2 (s : string) : string :=
  match s with String _ (String _ r) => r | _ => EmptyString end.

Definition import_tag : string := "mage:import".

(* ---------------------------------------------------------------- syntax handed over by go/parser *)
Definition group := option (list string).            (* *ast.CommentGroup; Some l = its List *)

(* is_path: the value of the path literal (strconv.Unquote, which is what lit2string is since fix
   48f17db); is_raw: the literal is written with back quotes (`import \`x\``), for which the
   lit2string of the tree before that fix answered !ok *)
Record impspec := { is_doc : group; is_comment : group; is_path : string; is_raw : bool }.
Record gendecl := { gd_doc : group; gd_lparen : bool; gd_specs : list impspec }.
Definition file := list gendecl.                     (* the import declarations of one file, in order *)

(* ---------------------------------------------------------------- getImportPathFromCommentGroup
   [len_test]: the length test of the first line.  Current code: len(comments.List) == 0.
   Tree before fix 73941a1: len(comments.List) == 9. *)
Definition from_group_gen (len_test : nat -> bool) (comments : group) : list string :=
  match comments with
  | None => []
  | Some l =>
      if len_test (length l) then []
      else
        (* import is always the last comment *)
        let s := last l EmptyString in
        let vals := fields (to_lower (drop2 s)) in
        match vals with
        | [] => []
        | v0 :: _ => if String.eqb v0 import_tag then vals else []
        end
  end.

Definition from_group : group -> list string := from_group_gen (Nat.eqb 0).
Definition from_group_pinned : group -> list string := from_group_gen (Nat.eqb 9).

(* ---------------------------------------------------------------- getImportPath : (path, alias, ok) *)
(* [lit_ok]: does lit2string accept the path literal.  Current code: strconv.Unquote of a literal
   the parser accepted - always.  Tree before fix 48f17db: only literals in double quotes. *)
Definition lit_ok_now (imp : impspec) : bool := true.
Definition lit_ok_before_48f17db (imp : impspec) : bool := negb (is_raw imp).

Definition get_import_path_gen (fg : group -> list string) (lit_ok : impspec -> bool) (imp : impspec) : option (string * string) :=
  let leadingVals := fg (is_doc imp) in
  let trailingVals := fg (is_comment imp) in
  let vals :=
    match leadingVals with
    | _ :: _ => Some leadingVals                       (* both present: warning, picking first *)
    | [] => match trailingVals with
            | _ :: _ => Some trailingVals
            | [] => None
            end
    end in
  match vals with
  | None => None
  | Some vals =>
      if negb (lit_ok imp) then None else              (* path, ok = lit2string(imp.Path); if !ok { return } *)
      let path := is_path imp in
      match vals with
      | [_] => Some (path, EmptyString)                (* just the import tag, this is a root import *)
      | [_; a] => Some (path, a)                       (* also has an alias *)
      | _ => None                                      (* warning: ignoring malformed mage:import *)
      end
  end.

Definition get_import_path : impspec -> option (string * string) := get_import_path_gen from_group lit_ok_now.
Definition get_import_path_pinned : impspec -> option (string * string) := get_import_path_gen from_group_pinned lit_ok_now.
Definition get_import_path_before_48f17db : impspec -> option (string * string) :=
  get_import_path_gen from_group lit_ok_before_48f17db.

(* the tag of a spec as the scanner sees it: None = not tagged, Some None = root import,
   Some (Some a) = imported under alias a *)
Definition tag_of (r : option (string * string)) : option (option string) :=
  match r with
  | None => None
  | Some (_, a) => if is_empty a then Some None else Some (Some a)
  end.
Definition tagged (imp : impspec) : option (option string) := tag_of (get_import_path imp).
Definition tagged_pinned (imp : impspec) : option (option string) := tag_of (get_import_path_pinned imp).
Definition tagged_before_48f17db (imp : impspec) : option (option string) := tag_of (get_import_path_before_48f17db imp).

(* ---------------------------------------------------------------- setImports, scanning part *)
Definition is_none {A} (o : option A) : bool := match o with None => true | Some _ => false end.

(* if len(gen.Specs) == 1 && gen.Lparen == token.NoPos && impspec.Doc == nil { impspec.Doc = gen.Doc } *)
Definition eff_spec (gen : gendecl) (s : impspec) : impspec :=
  if Nat.eqb (length (gd_specs gen)) 1 && negb (gd_lparen gen) && is_none (is_doc s)
  then {| is_doc := gd_doc gen; is_comment := is_comment s; is_path := is_path s; is_raw := is_raw s |}
  else s.

(* importNames.  Current code (fix 5f65f03): a Go map used as a SET of (path, alias) pairs
   (`importNames[namedImport{name, alias}] = true`); getNamedImports collects the keys and sorts them
   by (path, alias).  Here: the list of distinct keys ([set_put]: put if absent) and an insertion
   sort ([sort_pairs]); the sorted list of distinct keys does not depend on Go's iteration order. *)
Definition pair_eqb (a b : string * string) : bool := String.eqb (fst a) (fst b) && String.eqb (snd a) (snd b).
Definition set_put (path alias : string) (m : list (string * string)) : list (string * string) :=
  if existsb (pair_eqb (path, alias)) m then m else m ++ [(path, alias)].

(* named[i].path != named[j].path ? path < path : alias < alias *)
Definition pair_compare (a b : string * string) : comparison :=
  match String.compare (fst a) (fst b) with
  | Eq => String.compare (snd a) (snd b)
  | c => c
  end.
Fixpoint insert_sorted (k : string * string) (m : list (string * string)) : list (string * string) :=
  match m with
  | [] => [k]
  | k' :: r => match pair_compare k k' with
               | Gt => k' :: insert_sorted k r
               | _ => k :: m
               end
  end.
Definition sort_pairs (l : list (string * string)) : list (string * string) := fold_right insert_sorted [] l.

(* Tree before fix 5f65f03: a Go map keyed by the import PATH (`importNames[name] = alias`), read
   back in sorted key order: an association list sorted by key; assignment replaces. *)
Fixpoint map_set (k v : string) (m : list (string * string)) : list (string * string) :=
  match m with
  | [] => [(k, v)]
  | (k', v') :: r =>
      match String.compare k k' with
      | Eq => (k, v) :: r
      | Lt => (k, v) :: m
      | Gt => (k', v') :: map_set k v r
      end
  end.

Definition scan_acc := (list (string * string) * list string)%type.    (* importNames, rootImports *)

(* rootImports.  Current code (fix 4a102aa): `dup := false; for _, r := range rootImports { if r == name
   { dup = true; break } }; if !dup { rootImports = append(rootImports, name) }` - the same package
   imported bare by several specs is one import.  Tree before that fix: a plain append. *)
Definition root_put (name : string) (roots : list string) : list string :=
  if existsb (String.eqb name) roots then roots else roots ++ [name].
Definition root_append (name : string) (roots : list string) : list string := roots ++ [name].

(* [put]: the assignment to importNames; [rput]: the append to rootImports *)
Definition scan_step (gip : impspec -> option (string * string))
           (put : string -> string -> list (string * string) -> list (string * string))
           (rput : string -> list string -> list string)
           (acc : scan_acc) (s : impspec) : scan_acc :=
  match gip s with
  | None => acc
  | Some (name, alias) =>
      if is_empty alias then (fst acc, rput name (snd acc))
      else (put name alias (fst acc), snd acc)
  end.

Definition scan_decl gip put rput (acc : scan_acc) (gen : gendecl) : scan_acc :=
  fold_left (fun a s => scan_step gip put rput a (eff_spec gen s)) (gd_specs gen) acc.
Definition scan_file gip put rput (acc : scan_acc) (f : file) : scan_acc := fold_left (scan_decl gip put rput) f acc.
(* files in sorted file-name order, as setImports walks them *)
Definition scan gip put rput (files : list file) : scan_acc := fold_left (scan_file gip put rput) files ([], []).

(* ---------------------------------------------------------------- the imported package *)
(* parse.Function, the four fields TargetName and ID read *)
Record func := { f_alias : string; f_path : string; f_recv : string; f_name : string }.

(* what Package(dir, files) yields for a directory: package name and its targets (PkgAlias and
   ImportPath empty).  [pk_default] / [pk_aliases] are the package's own `var Default` and
   `var Aliases` declarations: they are in the source that is read, PrimaryPackage would turn them
   into DefaultFunc / Aliases, Package() does not. *)
Record pkginfo := { pk_name : string; pk_funcs : list func;
                    pk_default : option string; pk_aliases : list (string * string) }.

Record import := { imp_alias : string; imp_name : string; imp_path : string; imp_funcs : list func }.

Section GoTool.
(* golist d p: `go list` for import path p run with Cmd.Dir = d ("" = the directory mage was started
   in, see OutputDebugIn) followed by Package() of the directory found; None = an error *)
Variable golist : string -> string -> option pkginfo.

Definition stamp (alias importpath : string) (f : func) : func :=
  {| f_alias := alias; f_path := importpath; f_recv := f_recv f; f_name := f_name f |}.

(* getImportFrom(magefileDir, gocmd, importpath, alias) *)
Definition get_import_from (magefileDir importpath alias : string) : option import :=
  match golist magefileDir importpath with
  | None => None
  | Some info =>
      Some {| imp_alias := alias; imp_name := pk_name info; imp_path := importpath;
              imp_funcs := map (stamp alias importpath) (pk_funcs info) |}
  end.

(* a loop with `return nil, err` on the first error *)
Fixpoint collect {A} (f : A -> option import) (l : list A) : option (list import) :=
  match l with
  | [] => Some []
  | x :: r => match f x with
              | None => None
              | Some i => match collect f r with None => None | Some is => Some (i :: is) end
              end
  end.

(* setImports(gocmd, dir, pi): named imports in sorted key order (getNamedImports), then the root imports.
   [put]/[order]: the assignment to importNames and the order its keys are visited in;
   [rput]: the append to rootImports.
   [lookup_dir]: the directory handed to getImportFrom; current code: dir (the magefile directory);
   tree before fix b79c739: "" (getImport), i.e. the start directory. *)
Definition set_imports_gen gip put rput (order : list (string * string) -> list (string * string))
           (lookup_dir : string -> string) (dir : string) (files : list file) : option (list import) :=
  let '(importNames, rootImports) := scan gip put rput files in
  match collect (fun pa => get_import_from (lookup_dir dir) (fst pa) (snd pa)) (order importNames) with
  | None => None
  | Some named =>
      match collect (fun s => get_import_from (lookup_dir dir) s EmptyString) rootImports with
      | None => None
      | Some roots => Some (named ++ roots)
      end
  end.

Definition set_imports : string -> list file -> option (list import) :=
  set_imports_gen get_import_path set_put root_put sort_pairs (fun d => d).
(* before fix b79c739 (lookup in the start directory) *)
Definition set_imports_start_dir : string -> list file -> option (list import) :=
  set_imports_gen get_import_path set_put root_put sort_pairs (fun _ => EmptyString).
(* before fix 5f65f03 (importNames keyed by the path alone) *)
Definition set_imports_path_keyed : string -> list file -> option (list import) :=
  set_imports_gen get_import_path map_set root_put (fun m => m) (fun d => d).
(* before fix 48f17db (raw path literals not scanned) *)
Definition set_imports_before_48f17db : string -> list file -> option (list import) :=
  set_imports_gen get_import_path_before_48f17db set_put root_put sort_pairs (fun d => d).
(* before fix 4a102aa (every bare spec appended: the same package bare twice = two imports of it) *)
Definition set_imports_roots_appended : string -> list file -> option (list import) :=
  set_imports_gen get_import_path set_put root_append sort_pairs (fun d => d).
End GoTool.

(* ---------------------------------------------------------------- names *)
(* Function.TargetName: the non-empty ones of PkgAlias, Receiver, Name joined by ":" *)
Definition target_name (f : func) : string :=
  String.concat ":" (filter (fun s => negb (is_empty s)) [f_alias f; f_recv f; f_name f]).

(* the targets the imports add to the listing / the dispatch switch (template.go: range .Imports,
   range .Info.Funcs) *)
Definition exposed (imps : list import) : list func := flat_map imp_funcs imps.

(* `case "{{lower .TargetName}}"` *)
Definition dispatch_name (f : func) : string := to_lower (target_name f).
