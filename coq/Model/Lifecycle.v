(* Model of the life cycle of the generated main file (mage/main.go: Invoke 314-468,
   removeStaleMainfile 470-478, GenerateMainfile 609-644, Compile 583-607, generateInit 689-702,
   removeContents 758-779, the command switch of ParseAndRun 136-178).  Executable definitions only.

   One directory is an association list name -> entry.  [invoke_dir] is Invoke from the point
   where inv.Dir is decided: a straight-line program, written as the list [all_steps] of its
   external steps IN THE ORDER THE CODE PERFORMS THEM and one function [exec] that says what each
   step does to the state (the directory, "has the deferred removal been registered", "is an
   existing executable reused", the go commands started so far).  A step either continues or
   makes Invoke return (early exit).  [faults : step -> bool] is the adversary: which external
   steps fail.  The deferred [os.RemoveAll(main)] is explicit: [finish] runs it on every return
   that happens after it was registered and on no other.  A crash (SIGKILL) after n steps is the
   same program cut after n steps WITHOUT [finish] ([crash_dir]).

   External behaviour is a field of [world], fed with measured values by the harness:
   what go/build says about a directory that contains something named mage_output_file.go
   ([w_lists_ok]), the bytes the template produces ([w_gen]), what a failed write leaves
   ([w_partial]), whether GOCACHE is set, whether the hashed executable exists, how many
   mage:import packages there are, the exit status of the compiled binary.  [w_fixed] = false is
   the code before commit d5ea0c0 (no removeStaleMainfile); [w_cleanup] = false is the
   code before commit 1372a21 (a failed write of the generated file left it behind).

   Not modelled: os.Remove / os.RemoveAll failing (the code ignores these errors; the property's
   quantifier does not list them), what a target does to the directory, a chain of symbolic
   links.  A symbolic link target is a sibling name. *)
From Mage Require Import Base.Strs.

Definition bytes := string.

Inductive entry :=
| File (b : bytes)
| Dir (es : list (string * entry))
| Link (target : string).

Definition fs := list (string * entry).

Definition mainfile : string := "mage_output_file.go".   (* main.go:66 *)
Definition initFile : string := "magefile.go".            (* main.go:67 *)
Definition magefilesDir : string := "magefiles".          (* MagefilesDirName *)

Fixpoint lookup (d : fs) (n : string) : option entry :=
  match d with
  | [] => None
  | (n', e) :: r => if String.eqb n n' then Some e else lookup r n
  end.

(* os.Remove / os.RemoveAll of one name *)
Definition remove (n : string) (d : fs) : fs :=
  filter (fun p => negb (String.eqb n (fst p))) d.

(* create or replace the entry of one name *)
Fixpoint set (n : string) (e : entry) (d : fs) : fs :=
  match d with
  | [] => [(n, e)]
  | (n', e') :: r => if String.eqb n n' then (n, e) :: r else (n', e') :: set n e r
  end.

Definition is_dir (e : entry) : bool := match e with Dir _ => true | _ => false end.

(* removeStaleMainfile: Lstat, remove only a REGULAR file *)
Definition remove_stale (d : fs) : fs :=
  match lookup d mainfile with
  | Some (File _) => remove mainfile d
  | _ => d
  end.

(* ------------------------------------------------------------------------------------------ *)
(* Invoke                                                                                      *)

Inductive step :=
| RemoveStale      (* removeStaleMainfile(inv.Dir) *)
| ListMage         (* Magefiles: listGoFiles(tag mage) -- go/build reads every .go file of the directory *)
| ListNonMage      (* Magefiles: listGoFiles(no tag), not for a magefiles directory *)
| CheckFiles       (* len(files) == 0 *)
| HashFiles        (* ExeName: hashFile of every magefile (not with -compile) *)
| GoVersion        (* ExeName: go version (not with -compile) *)
| GoEnvGocache     (* go env GOCACHE unless MAGEFILE_HASHFAST *)
| StatExe          (* os.Stat(exePath) when the go cache is not relied on *)
| Parse            (* parse.Package: go/parser, checkDupeTargets *)
| GoListDir        (* setImports: go list -f {{.Dir}}||{{.Name}} *)
| GoListFiles      (* setImports: go list -f {{join .GoFiles}} *)
| Dupes            (* checkDupes *)
| CreateMain       (* GenerateMainfile: os.Create = O_CREATE|O_TRUNC, follows a symbolic link *)
| WriteMain        (* template.Execute into the file *)
| CloseMain        (* f.Close *)
| Chtimes          (* os.Chtimes *)
| RegisterDefer    (* if !inv.Keep { defer os.RemoveAll(main) } *)
| DbgVersion       (* Compile, -debug only: go version, error ignored *)
| DbgEnv           (* Compile, -debug only: go env, error ignored *)
| GoBuild          (* go build -o exe files... mage_output_file.go *)
| RemoveMain       (* the explicit os.RemoveAll(main) unless -keep *)
| CompileExit      (* if inv.CompileOut != "" { return 0 } *)
| ExecBinary       (* RunCompiled: starting the binary *)
| TargetOutcome.   (* the exit status of the binary *)

Definition all_steps : list step :=
  [RemoveStale; ListMage; ListNonMage; CheckFiles; HashFiles; GoVersion; GoEnvGocache; StatExe;
   Parse; GoListDir; GoListFiles; Dupes; CreateMain; WriteMain; CloseMain; Chtimes; RegisterDefer;
   DbgVersion; DbgEnv; GoBuild; RemoveMain; CompileExit; ExecBinary; TargetOutcome].

Definition step_idx (s : step) : nat :=
  match s with
  | RemoveStale => 0 | ListMage => 1 | ListNonMage => 2 | CheckFiles => 3 | HashFiles => 4
  | GoVersion => 5 | GoEnvGocache => 6 | StatExe => 7 | Parse => 8 | GoListDir => 9
  | GoListFiles => 10 | Dupes => 11 | CreateMain => 12 | WriteMain => 13 | CloseMain => 14
  | Chtimes => 15 | RegisterDefer => 16 | DbgVersion => 17 | DbgEnv => 18 | GoBuild => 19
  | RemoveMain => 20 | CompileExit => 21 | ExecBinary => 22 | TargetOutcome => 23
  end.
Definition step_eqb (a b : step) : bool := Nat.eqb (step_idx a) (step_idx b).

(* the go commands mage starts, as the fake go tool sees them *)
Inductive gocall := GVersion | GEnvGocache | GEnv | GList | GBuild.

Record world := {
  w_fixed : bool;               (* removeStaleMainfile present (commit d5ea0c0) *)
  w_cleanup : bool;             (* GenerateMainfile removes the file on its write/close/chtimes error paths (commit 1372a21) *)
  w_gen : bytes;                (* what the template writes for this package *)
  w_partial : bytes;            (* what a failing write leaves in the file *)
  w_lists_ok : entry -> bool;   (* go/build accepts the directory with this entry named mage_output_file.go *)
  w_gocache : bool;             (* go env GOCACHE prints a non-empty string *)
  w_exe_cached : bool;          (* the hashed executable exists in the cache directory *)
  w_imports : nat;              (* number of mage:import packages *)
  w_tcode : nat                 (* exit status of the binary when the target fails *)
}.

Record flags := {
  f_keep : bool;                (* -keep *)
  f_force : bool;               (* -f (Parse sets it for -compile) *)
  f_hashfast : bool;            (* MAGEFILE_HASHFAST *)
  f_compile : bool;             (* -compile <path> *)
  f_debug : bool;               (* -debug *)
  f_mfdir : bool                (* inv.UsesMagefiles(): the directory is named magefiles *)
}.

Record state := {
  s_fs : fs;
  s_defer : bool;               (* defer os.RemoveAll(main) registered *)
  s_reuse : bool;               (* "Running existing exe": nothing is generated or compiled *)
  s_fd : option string;         (* the name the open generated file resolves to *)
  s_gen : bool;                 (* GenerateMainfile returned nil *)
  s_calls : list gocall         (* go commands started, latest first *)
}.

Definition init_state (d : fs) : state :=
  {| s_fs := d; s_defer := false; s_reuse := false; s_fd := None; s_gen := false; s_calls := [] |}.

Definition with_fs (s : state) (d : fs) : state :=
  {| s_fs := d; s_defer := s_defer s; s_reuse := s_reuse s; s_fd := s_fd s; s_gen := s_gen s; s_calls := s_calls s |}.
Definition with_defer (s : state) : state :=
  {| s_fs := s_fs s; s_defer := true; s_reuse := s_reuse s; s_fd := s_fd s; s_gen := s_gen s; s_calls := s_calls s |}.
Definition with_reuse (s : state) : state :=
  {| s_fs := s_fs s; s_defer := s_defer s; s_reuse := true; s_fd := s_fd s; s_gen := s_gen s; s_calls := s_calls s |}.
Definition with_fd (s : state) (o : option string) : state :=
  {| s_fs := s_fs s; s_defer := s_defer s; s_reuse := s_reuse s; s_fd := o; s_gen := s_gen s; s_calls := s_calls s |}.
Definition with_gen (s : state) : state :=
  {| s_fs := s_fs s; s_defer := s_defer s; s_reuse := s_reuse s; s_fd := s_fd s; s_gen := true; s_calls := s_calls s |}.
Definition call (c : gocall) (s : state) : state :=
  {| s_fs := s_fs s; s_defer := s_defer s; s_reuse := s_reuse s; s_fd := s_fd s; s_gen := s_gen s; s_calls := c :: s_calls s |}.
Fixpoint calls (c : gocall) (n : nat) (s : state) : state :=
  match n with O => s | S k => calls c k (call c s) end.

Inductive res := Cont (s : state) | Exit (code : nat) (s : state).

(* what go/build makes of something named mage_output_file.go in the directory *)
Definition leftover_lists_ok (w : world) (d : fs) : bool :=
  match lookup d mainfile with
  | Some e => w_lists_ok w e
  | None => true
  end.

Section Invoke.
Variable w : world.
Variable faults : step -> bool.
Variable fl : flags.

(* a fallible step that touches nothing *)
Definition fallible (st : step) (s : state) : res := if faults st then Exit 1 s else Cont s.

(* GenerateMainfile's three error paths after os.Create succeeded (template.Execute, f.Close,
   os.Chtimes): since commit 1372a21 each of them does os.Remove(path) before returning, whether
   or not -keep is given ([w_cleanup] = true).  Before that commit the file stayed, because Invoke
   returns on this error before the deferred removal is registered ([w_cleanup] = false).
   A failing os.Create leaves nothing new and removes nothing. *)
Definition cleanup (s : state) : state :=
  if w_cleanup w then with_fs s (remove mainfile (s_fs s)) else s.

Definition exec (st : step) (s : state) : res :=
  let d := s_fs s in
  match st with
  | RemoveStale => Cont (if w_fixed w then with_fs s (remove_stale d) else s)
  | ListMage => if faults ListMage || negb (leftover_lists_ok w d) then Exit 1 s else Cont s
  | ListNonMage => if f_mfdir fl then Cont s else fallible ListNonMage s
  | CheckFiles => fallible CheckFiles s
  | HashFiles => if f_compile fl then Cont s else fallible HashFiles s
  | GoVersion => if f_compile fl then Cont s else fallible GoVersion (call GVersion s)
  | GoEnvGocache => if f_hashfast fl then Cont s else fallible GoEnvGocache (call GEnvGocache s)
  | StatExe =>
      let useCache := negb (f_hashfast fl) && w_gocache w in
      if useCache then Cont s
      else if w_exe_cached w && negb (f_force fl) then Cont (with_reuse s) else Cont s
  | Parse => if s_reuse s then Cont s else fallible Parse s
  | GoListDir =>
      if s_reuse s then Cont s
      else match w_imports w with O => Cont s | S _ => fallible GoListDir (call GList s) end
  | GoListFiles =>
      if s_reuse s then Cont s
      else match w_imports w with
           | O => Cont s
           | S k => match fallible GoListFiles (call GList s) with
                    | Cont s' => Cont (calls GList (2 * k) s')
                    | r => r
                    end
           end
  | Dupes => if s_reuse s then Cont s else fallible Dupes s
  | CreateMain =>
      if s_reuse s then Cont s
      else match lookup d mainfile with
           | Some (Dir _) => Exit 1 s                                   (* EISDIR *)
           | Some (Link t) =>
               if faults CreateMain then Exit 1 s
               else match lookup d t with
                    | Some (Dir _) => Exit 1 s
                    | Some (Link _) => Exit 1 s                         (* chains are not modelled *)
                    | _ => Cont (with_fd (with_fs s (set t (File "") d)) (Some t))
                    end
           | _ => if faults CreateMain then Exit 1 s
                  else Cont (with_fd (with_fs s (set mainfile (File "") d)) (Some mainfile))
           end
  | WriteMain =>
      match s_fd s with
      | None => Cont s
      | Some n => if faults WriteMain then Exit 1 (cleanup (with_fs s (set n (File (w_partial w)) d)))
                  else Cont (with_fs s (set n (File (w_gen w)) d))
      end
  | CloseMain =>
      match s_fd s with
      | None => Cont s
      | Some _ => if faults CloseMain then Exit 1 (cleanup (with_fd s None)) else Cont (with_fd s None)
      end
  | Chtimes => if s_reuse s then Cont s else if faults Chtimes then Exit 1 (cleanup s) else Cont (with_gen s)
  | RegisterDefer => if s_reuse s || f_keep fl then Cont s else Cont (with_defer s)
  | DbgVersion => if s_reuse s || negb (f_debug fl) then Cont s else Cont (call GVersion s)
  | DbgEnv => if s_reuse s || negb (f_debug fl) then Cont s else Cont (call GEnv s)
  | GoBuild => if s_reuse s then Cont s else fallible GoBuild (call GBuild s)
  | RemoveMain => if s_reuse s || f_keep fl then Cont s else Cont (with_fs s (remove mainfile d))
  | CompileExit => if negb (s_reuse s) && f_compile fl then Exit 0 s else Cont s
  | ExecBinary => fallible ExecBinary s
  | TargetOutcome => Exit (if faults TargetOutcome then w_tcode w else 0) s
  end.

(* run the steps in order until one makes Invoke return *)
Fixpoint run (l : list step) (s : state) : state * option (step * nat) :=
  match l with
  | [] => (s, None)
  | st :: r => match exec st s with
               | Cont s' => run r s'
               | Exit c s' => (s', Some (st, c))
               end
  end.

(* deferred calls run when Invoke returns *)
Definition finish (s : state) : fs := if s_defer s then remove mainfile (s_fs s) else s_fs s.

Record outcome := { o_fs : fs; o_exit : nat; o_at : option step; o_generated : bool; o_calls : list gocall }.

Definition invoke_dir_full (d : fs) : outcome :=
  let '(s, r) := run all_steps (init_state d) in
  {| o_fs := finish s;
     o_exit := match r with Some (_, c) => c | None => 0 end;
     o_at := match r with Some (st, _) => Some st | None => None end;
     o_generated := s_gen s;
     o_calls := rev (s_calls s) |}.

(* the directory afterwards and the exit status *)
Definition invoke_dir (d : fs) : fs * nat :=
  let o := invoke_dir_full d in (o_fs o, o_exit o).

(* the process is killed after n steps: no deferred call runs *)
Definition crash_dir (n : nat) (d : fs) : fs :=
  s_fs (fst (run (firstn n all_steps) (init_state d))).

End Invoke.

(* Invoke from its first line: inv.Dir is "." unless a magefiles directory exists and "." has no
   magefiles of its own.  [orig_faulty] / [orig_has_files]: the outcome of Magefiles(originalDir). *)
Definition rs (w : world) (d : fs) : fs := if w_fixed w then remove_stale d else d.

Definition with_mfdir (fl : flags) (b : bool) : flags :=
  {| f_keep := f_keep fl; f_force := f_force fl; f_hashfast := f_hashfast fl; f_compile := f_compile fl;
     f_debug := f_debug fl; f_mfdir := b |}.

(* [top_named]: the directory Invoke is given is itself called "magefiles" (mage -d magefiles):
   inv.UsesMagefiles() = (filepath.Base(inv.Dir) == "magefiles") is what Magefiles() gets as
   isMagefilesDirectory, so the "files without the mage tag" listing pass is not made there either. *)
Definition invoke_named (w : world) (faults : step -> bool) (fl : flags) (top_named orig_has_files : bool) (d : fs)
  : fs * nat :=
  let d1 := rs w d in                                               (* removeStaleMainfile(inv.Dir) *)
  match lookup d1 magefilesDir with
  | Some (Dir sub) =>
      if orig_has_files
      then invoke_dir w faults (with_mfdir fl top_named) d1       (* warning, inv.Dir = originalDir: magefiles/ is not touched *)
      else let sub1 := rs w sub in                                  (* removeStaleMainfile(inv.Dir/magefiles), since 62b109f only here *)
           let '(sub2, c) := invoke_dir w faults (with_mfdir fl true) sub1 in
           (set magefilesDir (Dir sub2) d1, c)
  | _ => invoke_dir w faults (with_mfdir fl top_named) d1
  end.

(* the usual case, the directory is not called magefiles: [invoke_named] with top_named = false
   (Lifecycle_facts.invoke_is_named), kept with its own body for the files that unfold it *)
Definition invoke (w : world) (faults : step -> bool) (fl : flags) (orig_has_files : bool) (d : fs) : fs * nat :=
  let d1 := rs w d in                                               (* removeStaleMainfile(".") *)
  match lookup d1 magefilesDir with
  | Some (Dir sub) =>
      if orig_has_files
      then invoke_dir w faults (with_mfdir fl false) d1           (* warning, inv.Dir = originalDir *)
      else let sub1 := rs w sub in                                  (* removeStaleMainfile("magefiles") *)
           let '(sub2, c) := invoke_dir w faults (with_mfdir fl true) sub1 in
           (set magefilesDir (Dir sub2) d1, c)
  | _ => invoke_dir w faults (with_mfdir fl false) d1
  end.

(* Invoke before commit 62b109f: the stale file in magefiles/ was removed as soon as that directory
   existed, also when the invocation then went on in the directory it was given *)
Definition invoke_named_before_62b109f (w : world) (faults : step -> bool) (fl : flags) (top_named orig_has_files : bool)
  (d : fs) : fs * nat :=
  let d1 := rs w d in
  match lookup d1 magefilesDir with
  | Some (Dir sub) =>
      let sub1 := rs w sub in
      let d2 := set magefilesDir (Dir sub1) d1 in
      if orig_has_files
      then invoke_dir w faults (with_mfdir fl top_named) d2
      else let '(sub2, c) := invoke_dir w faults (with_mfdir fl true) sub1 in
           (set magefilesDir (Dir sub2) d1, c)
  | _ => invoke_dir w faults (with_mfdir fl top_named) d1
  end.

(* ------------------------------------------------------------------------------------------ *)
(* -compile <out>: the output file                                                             *)

(* `go build -o <out>` when the build succeeds, as observed with go 1.23: nothing there, a regular
   file or a symbolic link (the LINK is replaced, not written through) -> the binary; a directory
   -> the binary is put inside it under the name [inner].  A failing build leaves <out> alone, and
   Invoke itself never touches exePath (main.go:450-453 only prints the error). *)
Definition install (bin : bytes) (inner : string) (e : option entry) : entry :=
  match e with
  | Some (Dir es) => Dir (set inner (File bin) es)
  | _ => File bin
  end.

(* the -compile run got as far as `return 0` after the build (main.go:463) *)
Definition compiled (fl : flags) (o : outcome) : bool :=
  f_compile fl && match o_at o with Some CompileExit => true | _ => false end.

(* what is at the output path afterwards, wherever that path is *)
Definition output_after (fl : flags) (o : outcome) (bin : bytes) (inner : string) (e : option entry) : option entry :=
  if compiled fl o then Some (install bin inner e) else e.

(* Invoke when the output path is the entry [out] of the magefile directory itself (a relative
   path is resolved by the go tool, which runs in inv.Dir).  Modelled at the level of complete
   runs: the output is written by the GoBuild step iff that step succeeds, and after a successful
   build a -compile run cannot fail any more. *)
Definition invoke_compile (w : world) (faults : step -> bool) (fl : flags) (out : string) (bin : bytes) (inner : string)
  (d : fs) : fs * nat :=
  let o := invoke_dir_full w faults fl d in
  (match output_after fl o bin inner (lookup (o_fs o) out) with
   | Some e => if compiled fl o then set out e (o_fs o) else o_fs o
   | None => o_fs o
   end, o_exit o).

(* ------------------------------------------------------------------------------------------ *)
(* -init : generateInit, O_WRONLY|O_CREATE|O_EXCL                                              *)

Definition init_cmd (open_fault write_fault : bool) (tpl partial : bytes) (d : fs) : fs * nat :=
  match lookup d initFile with
  | Some _ => (d, 1)                                      (* EEXIST, whatever kind of entry it is *)
  | None =>
      if open_fault then (d, 1)
      else if write_fault then (set initFile (File partial) d, 1)
      else (set initFile (File tpl) d, 0)
  end.

(* ------------------------------------------------------------------------------------------ *)
(* -clean : removeContents(cacheDir)                                                           *)

(* ReadDir order; IsDir of a directory entry comes from Lstat: a link to a directory is not a
   directory.  The first os.Remove that fails ends the loop. *)
Fixpoint clean_entries (rmfault : string -> bool) (es : fs) : fs * bool :=
  match es with
  | [] => ([], true)
  | (n, e) :: r =>
      if is_dir e then let '(r', ok) := clean_entries rmfault r in ((n, e) :: r', ok)
      else if rmfault n then ((n, e) :: r, false)
      else clean_entries rmfault r
  end.

(* root: the directory that contains the cache directory under the name [cache] *)
Definition clean_cmd (readfault : bool) (rmfault : string -> bool) (cache : string) (root : fs) : fs * nat :=
  match lookup root cache with
  | None => (root, 0)                                     (* os.IsNotExist: nothing to do *)
  | Some (Dir es) =>
      if readfault then (root, 1)
      else let '(es', ok) := clean_entries rmfault es in
           (set cache (Dir es') root, if ok then 0 else 1)
  | Some _ => (root, 1)                                   (* ReadDir of a non-directory *)
  end.

(* what os.Lstat sees at a path: the kind and, for a file, its bytes *)
Inductive node := NFile (b : bytes) | NDir | NLink (target : string).
Definition node_of (e : entry) : node :=
  match e with File b => NFile b | Dir _ => NDir | Link t => NLink t end.

Fixpoint stat_path (d : fs) (p : list string) : option node :=
  match p with
  | [] => None
  | n :: rest =>
      match rest with
      | [] => option_map node_of (lookup d n)
      | _ => match lookup d n with
             | Some (Dir es) => stat_path es rest
             | _ => None
             end
      end
  end.
