(* Model of package target (target/target.go, target/newer.go).  Executable definitions only.

   A file tree, path lookup, filepath.Walk in lexical order with error propagation, the three
   *Newer functions with their early exits, the two scans, and Path/Glob/Dir with the
   missing-destination shortcut and the directory-destination rule.  Times are Z nanoseconds.
   filepath.Glob is a parameter ([globf]); its actual values come from the Go standard library. *)
From Mage Require Import Base.Strs Base.Expand.

Inductive tree :=
| File (mtime : Z)
| Dir (mtime : Z) (entries : list (string * tree)).      (* entries in lexical order, as Walk reads them *)

Definition mtime_of (t : tree) : Z := match t with File m => m | Dir m _ => m end.

Fixpoint assoc (n : string) (l : list (string * tree)) : option tree :=
  match l with
  | [] => None
  | (n', t) :: r => if String.eqb n n' then Some t else assoc n r
  end.

(* os.Stat's three outcomes that matter: found, ENOENT, ENOTDIR (a path through a regular file) *)
Inductive st := Found (t : tree) | Missing | NotDir.

Fixpoint lookup (t : tree) (path : list string) : st :=
  match path with
  | [] => Found t
  | n :: rest =>
      match t with
      | Dir _ es => match assoc n es with Some t' => lookup t' rest | None => Missing end
      | File _ => NotDir
      end
  end.

(* split on '/' ; empty components and "." are dropped (paths are relative to the root) *)
Fixpoint split_go (s : list ascii) (cur : list ascii) : list string :=
  match s with
  | [] => match cur with [] => [] | _ => [str_of (rev cur)] end
  | c :: r => if is_c c 47
              then match cur with [] => split_go r [] | _ => str_of (rev cur) :: split_go r [] end
              else split_go r (c :: cur)
  end.
Definition split_path (s : string) : list string :=
  filter (fun n => negb (String.eqb n ".")) (split_go (chars s) []).

(* all nodes beneath t, t included, in filepath.Walk order *)
Fixpoint nodes (t : tree) : list Z :=
  match t with
  | File m => [m]
  | Dir m es => m :: (fix go (l : list (string * tree)) : list Z :=
                        match l with [] => [] | (_, c) :: r => nodes c ++ go r end) es
  end.

Inductive ans := Yes | No | Error.

(* time.Time.After / Before are strict *)
Definition after (a b : Z) : bool := Z.ltb b a.
Definition before (a b : Z) : bool := Z.ltb a b.

Section World.
Variable root : tree.                            (* the directory the functions run in *)
Variable env : list (string * string).           (* the process environment *)
Variable globf : string -> option (list string). (* filepath.Glob: None = bad pattern *)

Definition ends_with_slash (s : string) : bool :=
  match rev (chars s) with c :: _ => is_c c 47 | [] => false end.

(* os.Stat relative to the root: "" is ENOENT; "file/" is ENOTDIR *)
Definition stat (s : string) : st :=
  if String.eqb s "" then Missing
  else match lookup root (split_path s) with
       | Found (File m) => if ends_with_slash s then NotDir else Found (File m)
       | r => r
       end.
Definition statx (s : string) : st := stat (expand_env env s).   (* after os.ExpandEnv *)

(* newer.go PathNewer: stop at the first newer source; a missing source is an error when reached *)
Fixpoint pathNewer (target : Z) (sources : list string) : ans :=
  match sources with
  | [] => No
  | s :: r => match statx s with
              | Found t => if after (mtime_of t) target then Yes else pathNewer target r
              | _ => Error
              end
  end.

(* newer.go GlobNewer *)
Fixpoint globNewer (target : Z) (globs : list string) : ans :=
  match globs with
  | [] => No
  | g :: r => match globf g with
              | None => Error
              | Some [] => Error                              (* glob didn't match any files *)
              | Some files => match pathNewer target files with
                              | Error => Error
                              | Yes => Yes
                              | No => globNewer target r
                              end
              end
  end.

(* the walk function of DirNewer over one source: errNewer as soon as a node is newer *)
Definition walkNewer (target : Z) (t : tree) : bool := existsb (fun m => after m target) (nodes t).

(* newer.go DirNewer *)
Fixpoint dirNewer (target : Z) (sources : list string) : ans :=
  match sources with
  | [] => No
  | s :: r => match statx s with
              | Found t => if walkNewer target t then Yes else dirNewer target r
              | _ => Error                                    (* Walk reports the lstat error to walkFn *)
              end
  end.

(* time.Time{} : January 1, year 1 *)
Definition zero_time : Z := (-62135596800 * 1000000000)%Z.

(* newer.go NewestModTime / OldestModTime: no ExpandEnv here *)
Fixpoint newest (t : Z) (targets : list string) : Z * bool (* error *) :=
  match targets with
  | [] => (t, false)
  | s :: r => match stat s with
              | Found tr => newest (fold_left (fun acc m => if after m acc then m else acc) (nodes tr) t) r
              | _ => (t, true)
              end
  end.
Definition newestModTime (targets : list string) : Z * bool := newest zero_time targets.

Fixpoint oldest (t : Z) (targets : list string) : Z * bool :=
  match targets with
  | [] => (t, false)
  | s :: r => match stat s with
              | Found tr => oldest (fold_left (fun acc m => if before m acc then m else acc) (nodes tr) t) r
              | _ => (t, true)
              end
  end.
(* [seed] = time.Now() + 100000h *)
Definition oldestModTime (seed : Z) (targets : list string) : Z * bool := oldest seed targets.

(* target.go *)
Definition path_ (dst : string) (sources : list string) : ans :=
  match statx dst with
  | Missing => Yes                       (* os.IsNotExist *)
  | NotDir => Error                      (* any other stat error *)
  | Found d => pathNewer (mtime_of d) sources
  end.

Definition glob_ (dst : string) (globs : list string) : ans :=
  match statx dst with
  | Missing => Yes
  | NotDir => Error
  | Found d => globNewer (mtime_of d) globs
  end.

Definition dir_ (dst : string) (sources : list string) : ans :=
  match statx dst with
  | Missing => Yes
  | NotDir => Error
  | Found d =>
      let destTime := match d with
                      | File m => m
                      | Dir _ _ => fst (newest zero_time [expand_env env dst])   (* NewestModTime(dst), dst already expanded *)
                      end in
      dirNewer destTime sources
  end.
End World.

(* the time Dir compares with: the file's own stamp, or the newest entry beneath a directory *)
Definition dest_time (d : tree) : Z :=
  match d with
  | File m => m
  | Dir _ _ => fold_left (fun acc m => if after m acc then m else acc) (nodes d) zero_time
  end.
