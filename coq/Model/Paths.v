(* Model of the path algebra behind mage's cache directory (mage/main.go Invoke 316-357,
   Compile 608-619, RunCompiled 726-735, mg/runtime.go CacheDir).  Executable definitions only.

   A path is a flag "rooted" plus its components; filepath.Clean / Join / Abs are transcribed on
   that representation (lexical processing of "." and "..", symlink-free).  The kernel's
   resolution of a relative name against a process's working directory is the same function as
   filepath.Abs with that directory. *)
From Mage Require Import Base.Strs Base.Expand.

Record path := { p_abs : bool; p_comps : list string }.

(* split on '/', empty components dropped *)
Fixpoint split_slash (s : list ascii) (cur : list ascii) : list string :=
  match s with
  | [] => match cur with [] => [] | _ => [str_of (rev cur)] end
  | c :: r => if is_c c 47
              then match cur with [] => split_slash r [] | _ => str_of (rev cur) :: split_slash r [] end
              else split_slash r (c :: cur)
  end.

Definition parse_path (s : string) : path :=
  {| p_abs := match chars s with c :: _ => is_c c 47 | [] => false end;
     p_comps := split_slash (chars s) [] |}.

(* filepath.Clean: drop ".", let ".." cancel the preceding real component, drop ".." at the root,
   keep leading ".." of a relative path *)
Fixpoint clean_go (abs : bool) (stack : list string) (cs : list string) : list string :=
  match cs with
  | [] => rev stack
  | c :: r =>
      if String.eqb c "." then clean_go abs stack r
      else if String.eqb c ".." then
        match stack with
        | t :: s' => if String.eqb t ".." then clean_go abs (c :: stack) r else clean_go abs s' r
        | [] => if abs then clean_go abs [] r else clean_go abs [c] r
        end
      else clean_go abs (c :: stack) r
  end.
Definition clean (p : path) : path := {| p_abs := p_abs p; p_comps := clean_go (p_abs p) [] (p_comps p) |}.

(* filepath.Join(a, b) = Clean(a + "/" + b) *)
Definition join2 (a b : path) : path := clean {| p_abs := p_abs a; p_comps := p_comps a ++ p_comps b |}.

(* filepath.Abs with the working directory [wd]; also: what the kernel does with name [p] in a
   process whose working directory is [wd] *)
Definition abs_path (wd p : path) : path := if p_abs p then clean p else join2 wd p.

Fixpoint intercalate (l : list string) : string :=
  match l with
  | [] => EmptyString
  | [x] => x
  | x :: r => (x ++ "/" ++ intercalate r)%string
  end.
Definition show (p : path) : string :=
  if p_abs p then ("/" ++ intercalate (p_comps p))%string
  else match p_comps p with [] => "." | _ => intercalate (p_comps p) end.

(* one invocation, as far as directories go *)
Record layout := {
  l_start : path;         (* the directory mage was started in (absolute) *)
  l_d : string;           (* -d, "" when absent *)
  l_w : string;           (* -w, "" when absent *)
  l_mfdir : bool;         (* <Dir>/magefiles is a directory *)
  l_plain : bool;         (* Dir itself also holds magefiles (then the magefiles directory is not used) *)
  l_cache_env : string;   (* MAGEFILE_CACHE, "" when unset *)
  l_home : string;        (* HOME, "" when unset or empty (os.Getenv) *)
  l_tmp : string }.       (* os.TempDir(): $TMPDIR, "/tmp" when that is unset or empty *)

(* Invoke 319-347 *)
Definition dir0 (l : layout) : path := parse_path (if String.eqb (l_d l) "" then "." else l_d l).
Definition workdir (l : layout) : path := if String.eqb (l_w l) "" then dir0 l else parse_path (l_w l).
Definition magefiles_dir (l : layout) : path := join2 (dir0 l) (parse_path "magefiles").
Definition mage_dir (l : layout) : path :=
  if l_mfdir l then (if l_plain l then dir0 l else magefiles_dir l) else dir0 l.

(* mg.CacheDir (runtime.go:102-122, not windows) *)
Definition cache_dir_env (l : layout) : path :=
  if String.eqb (l_cache_env l) "" then
    (* MAGEFILE_CACHE unset OR EMPTY (os.Getenv cannot tell): the default directory *)
    if String.eqb (l_home l) "" then join2 (parse_path (l_tmp l)) (parse_path ".magefile")     (* since commit 293a481 *)
    else join2 (parse_path (l_home l)) (parse_path ".magefile")
  else parse_path (l_cache_env l).

(* Invoke 349-357.  [fixed = false] is the tree before commit b55412e (no filepath.Abs) *)
Definition cache_dir (fixed : bool) (l : layout) : path :=
  if fixed then abs_path (l_start l) (cache_dir_env l) else cache_dir_env l.

(* ExeName: filepath.Join(cacheDir, filename) *)
Definition exe_path (fixed : bool) (l : layout) (name : string) : path :=
  join2 (cache_dir fixed l) (parse_path name).

(* the three uses of exePath, each resolved by the process that uses it:
   os.Stat in mage itself (working directory = start); `go build -o exePath` with c.Dir = inv.Dir;
   exec of exePath with c.Dir = inv.WorkDir (RunCompiled: c.Dir = inv.Dir unless WorkDir differs,
   which is WorkDir either way) *)
Definition stat_path (fixed : bool) (l : layout) (name : string) : path :=
  abs_path (l_start l) (exe_path fixed l name).
Definition build_path (fixed : bool) (l : layout) (name : string) : path :=
  abs_path (abs_path (l_start l) (mage_dir l)) (exe_path fixed l name).
Definition exec_path (fixed : bool) (l : layout) (name : string) : path :=
  abs_path (abs_path (l_start l) (workdir l)) (exe_path fixed l name).

(* working directory of the compiled magefile *)
Definition run_cwd (l : layout) : path := abs_path (l_start l) (workdir l).
