(* Model of concurrent mage invocations over one file system: mage/main.go:65-68 (fixed name of the
   generated file), 314-478 (Invoke, removeStaleMainfile), 593-627 (Compile), 630-664
   (GenerateMainfile), 668-693 (ExeName), 727-772 (RunCompiled).  Executable definitions only.
   DESIGN.md section 4 "C20".

   One ATOMIC step per file-system operation of one invocation, in the order of the code:
     PStale      327      removeStaleMainfile(inv.Dir): Lstat + Remove of D/mage_output_file.go
     PList       359-368  Magefiles(inv.Dir): go/build reads the header of every .go file of D
                          (a present but not completely written generated file makes it fail),
                          then the "no magefiles" exit
     PHash       372      ExeName: read and hash every magefile -> <cache>/<name>
     PStat       380-414  cache mode: `go env GOCACHE` non-empty and not MAGEFILE_HASHFAST => always
                          rebuild, else os.Stat(exePath): present and not -f => run it
     PParse      425      parse.PrimaryPackage reads the magefiles (-> the text to generate)
     PCreate     633      os.Create(D/mage_output_file.go): O_CREAT|O_TRUNC - TRUNCATES an existing file
     PWrite      651-656  template.Execute(f) + Close: writes through the descriptor (the inode it opened)
     PChtimes    664      os.Chtimes(path): fails when the path is gone (and then removes the path, fix 1372a21)
     PBuild      450      `go build -o <cache>/<name> <magefiles> mage_output_file.go` run in D: reads D's
                          magefiles and D/mage_output_file.go AT THAT MOMENT, installs the binary
     PFailRm     447      deferred os.RemoveAll(main) after a failed build
     PRemove     458      os.RemoveAll(main)
     PExec       467      RunCompiled: exec <cache>/<name>
     PDeferRm    447      deferred os.RemoveAll(main) when Invoke returns
     PExecCached 406      RunCompiled of the existing binary (hash mode; no generated file, no defer)
   The system is an arbitrary interleaving of n such step lists: a schedule is a list of process
   indices; "for all overlaps" = for all schedules.

   ASSUMPTIONS of the model (trusted base): `go build -o` installs the binary atomically (rename);
   what it builds is a function of the bytes it reads ([compile]); each of the steps above is atomic.
   The commands -compile, -clean and -init are in the general system ([ginv], [gstep], [grun]) further down.
   NOT modelled: the go tool's own "target is up to date" shortcut, which READS the -o target (twice)
   before deciding to relink - see finding C20-go-build-uptodate-race in tools/notes/C20.md. *)
From Mage Require Import Base.Strs.

Definition dir := nat.
Definition contents := string.     (* the bytes of all magefiles of a directory ("" = none) *)
Definition envid := string.        (* everything else `go build` run in the directory reads: go.mod, imported packages *)
Definition gentext := string.      (* text of the generated main file *)
Definition program := string.
Definition ename := string.        (* file name inside the cache directory *)
Definition args := string.         (* the command line words handed to the compiled program *)
Definition result := (string * Z)%type.   (* (stdout, exit status) *)
Definition fail : result := ("", 1%Z).    (* mage's own failures: nothing on stdout, exit 1 *)

Inductive mstate := Partial | Full (g : gentext).

(* the shared file system: magefiles and module context (never written by mage), the generated
   file of each directory as (inode, state), the cache directory *)
Record fsys := {
  f_mf : dir -> contents;
  f_env : dir -> envid;
  f_main : dir -> option (nat * mstate);
  f_cache : ename -> option program;
  f_out : dir -> option program }.      (* the output file of `mage -compile <out>` in a directory *)

Definition upd_main (fs : fsys) (d : dir) (v : option (nat * mstate)) : fsys :=
  {| f_mf := f_mf fs; f_env := f_env fs;
     f_main := fun x => if Nat.eqb x d then v else f_main fs x;
     f_cache := f_cache fs; f_out := f_out fs |}.
Definition upd_cache (fs : fsys) (e : ename) (v : option program) : fsys :=
  {| f_mf := f_mf fs; f_env := f_env fs; f_main := f_main fs;
     f_cache := fun x => if String.eqb x e then v else f_cache fs x; f_out := f_out fs |}.
Definition upd_out (fs : fsys) (d : dir) (v : option program) : fsys :=
  {| f_mf := f_mf fs; f_env := f_env fs; f_main := f_main fs; f_cache := f_cache fs;
     f_out := fun x => if Nat.eqb x d then v else f_out fs x |}.
(* mage -clean: removeContents(cacheDir) - taken as ONE step (really ReadDir + one Remove per file) *)
Definition clear_cache (fs : fsys) : fsys :=
  {| f_mf := f_mf fs; f_env := f_env fs; f_main := f_main fs; f_cache := fun _ => None; f_out := f_out fs |}.

(* one invocation: `mage [-f] args` started in directory i_dir with MAGEFILE_HASHFAST = i_hashfast,
   where `go env GOCACHE` is non-empty iff i_gocache *)
Record inv := { i_dir : dir; i_hashfast : bool; i_gocache : bool; i_force : bool; i_args : args }.

Inductive pc := PStale | PList | PHash | PStat | PParse | PCreate | PWrite | PChtimes | PBuild
              | PFailRm | PRemove | PExec | PDeferRm | PExecCached | PDone.

Record proc := { p_pc : pc; p_exe : ename; p_gen : gentext; p_fd : nat; p_res : result }.
Definition proc0 : proc := {| p_pc := PStale; p_exe := ""; p_gen := ""; p_fd := 0; p_res := fail |}.

Definition goto (p : proc) (c : pc) : proc :=
  {| p_pc := c; p_exe := p_exe p; p_gen := p_gen p; p_fd := p_fd p; p_res := p_res p |}.
Definition with_res (p : proc) (c : pc) (r : result) : proc :=
  {| p_pc := c; p_exe := p_exe p; p_gen := p_gen p; p_fd := p_fd p; p_res := r |}.

Section Model.
Variable name : contents -> ename.                                   (* ExeName *)
Variable gen : contents -> option gentext.                           (* parse + template; None = parse error *)
Variable compile : envid -> contents -> gentext -> option program.   (* go build; None = compile error *)
Variable behave : program -> dir -> args -> result.                  (* running a compiled magefile *)

Definition exec_result (fs : fsys) (e : ename) (D : dir) (a : args) : result :=
  match f_cache fs e with
  | Some q => behave q D a
  | None => fail                     (* exec of a missing file: sh.ExitStatus = 1 *)
  end.

(* process number i (its fresh inode is numbered S i) takes one step *)
Definition step (i : nat) (iv : inv) (fs : fsys) (p : proc) : fsys * proc :=
  let D := i_dir iv in
  match p_pc p with
  | PStale =>
      (match f_main fs D with Some _ => upd_main fs D None | None => fs end, goto p PList)
  | PList =>
      match f_main fs D with
      | Some (_, Partial) => (fs, with_res p PDone fail)          (* "Error determining list of magefiles" *)
      | _ => if String.eqb (f_mf fs D) "" then (fs, with_res p PDone fail)   (* "No .go files marked ..." *)
             else (fs, goto p PHash)
      end
  | PHash =>
      (fs, {| p_pc := PStat; p_exe := name (f_mf fs D); p_gen := p_gen p; p_fd := p_fd p; p_res := p_res p |})
  | PStat =>
      let useCache := if i_hashfast iv then false else i_gocache iv in
      if useCache then (fs, goto p PParse)
      else match f_cache fs (p_exe p) with
           | Some _ => if i_force iv then (fs, goto p PParse) else (fs, goto p PExecCached)
           | None => (fs, goto p PParse)
           end
  | PParse =>
      match gen (f_mf fs D) with
      | None => (fs, with_res p PDone fail)                        (* "Error parsing magefiles" *)
      | Some g => (fs, {| p_pc := PCreate; p_exe := p_exe p; p_gen := g; p_fd := p_fd p; p_res := p_res p |})
      end
  | PCreate =>
      let ino := match f_main fs D with Some (n, _) => n | None => S i end in
      (upd_main fs D (Some (ino, Partial)),
       {| p_pc := PWrite; p_exe := p_exe p; p_gen := p_gen p; p_fd := ino; p_res := p_res p |})
  | PWrite =>
      match f_main fs D with
      | Some (n, _) => if Nat.eqb n (p_fd p) then (upd_main fs D (Some (n, Full (p_gen p))), goto p PChtimes)
                       else (fs, goto p PChtimes)                  (* written into an unlinked inode *)
      | None => (fs, goto p PChtimes)
      end
  | PChtimes =>
      match f_main fs D with
      | Some _ => (fs, goto p PBuild)
      | None => (upd_main fs D None, with_res p PDone fail)        (* "error setting old modtime": os.Remove(path) (fix 1372a21), no defer yet *)
      end
  | PBuild =>
      match f_main fs D with
      | Some (_, Full g) =>
          match compile (f_env fs D) (f_mf fs D) g with
          | Some q => (upd_cache fs (p_exe p) (Some q), goto p PRemove)
          | None => (fs, with_res p PFailRm fail)
          end
      | _ => (fs, with_res p PFailRm fail)                         (* missing or truncated generated file *)
      end
  | PFailRm => (upd_main fs D None, goto p PDone)
  | PRemove => (upd_main fs D None, goto p PExec)
  | PExec => (fs, with_res p PDeferRm (exec_result fs (p_exe p) D (i_args iv)))
  | PDeferRm => (upd_main fs D None, goto p PDone)
  | PExecCached => (fs, with_res p PDone (exec_result fs (p_exe p) D (i_args iv)))
  | PDone => (fs, p)
  end.

Record sys := { s_fs : fsys; s_procs : list proc }.

Fixpoint set_nth {A} (l : list A) (i : nat) (x : A) : list A :=
  match l, i with
  | [], _ => []
  | _ :: r, 0 => x :: r
  | y :: r, S j => y :: set_nth r j x
  end.

Definition sys_step (invs : list inv) (s : sys) (i : nat) : sys :=
  match nth_error invs i, nth_error (s_procs s) i with
  | Some iv, Some p =>
      let '(fs', p') := step i iv (s_fs s) p in
      {| s_fs := fs'; s_procs := set_nth (s_procs s) i p' |}
  | _, _ => s
  end.

Definition init (invs : list inv) (fs0 : fsys) : sys :=
  {| s_fs := fs0; s_procs := map (fun _ => proc0) invs |}.

Definition run_from (invs : list inv) (s : sys) (sched : list nat) : sys :=
  fold_left (sys_step invs) sched s.
Definition run (invs : list inv) (fs0 : fsys) (sched : list nat) : sys :=
  run_from invs (init invs fs0) sched.

(* (stdout, exit status) of invocation i once it has finished *)
Definition result_of (s : sys) (i : nat) : option result :=
  match nth_error (s_procs s) i with
  | Some p => match p_pc p with PDone => Some (p_res p) | _ => None end
  | None => None
  end.

(* the longest path: Stale List Hash Stat Parse Create Write Chtimes Build Remove Exec DeferRm *)
Definition fuel : nat := 12.

(* invocation i run alone: nobody else takes a step *)
Definition alone (invs : list inv) (fs0 : fsys) (i : nat) : option result :=
  result_of (run invs fs0 (repeat i fuel)) i.

(* `mage -compile <out>`: the same Invoke with exePath = <out> inside the directory: no ExeName, the stat of
   lines 398-414 looks at <out> (and RUNS it when it exists, hash mode, no -f), the build installs <out>, and
   after the build mage returns 0 without running anything (line 463).  [behave q D ""]: <out> run without words. *)
Definition step_compile (i : nat) (iv : inv) (fs : fsys) (p : proc) : fsys * proc :=
  let D := i_dir iv in
  match p_pc p with
  | PStale =>
      (match f_main fs D with Some _ => upd_main fs D None | None => fs end, goto p PList)
  | PList =>
      match f_main fs D with
      | Some (_, Partial) => (fs, with_res p PDone fail)
      | _ => if String.eqb (f_mf fs D) "" then (fs, with_res p PDone fail) else (fs, goto p PHash)
      end
  | PHash => (fs, goto p PStat)
  | PStat =>
      let useCache := if i_hashfast iv then false else i_gocache iv in
      if useCache then (fs, goto p PParse)
      else match f_out fs D with
           | Some q => if i_force iv then (fs, goto p PParse) else (fs, with_res p PDone (behave q D ""))
           | None => (fs, goto p PParse)
           end
  | PParse =>
      match gen (f_mf fs D) with
      | None => (fs, with_res p PDone fail)
      | Some g => (fs, {| p_pc := PCreate; p_exe := p_exe p; p_gen := g; p_fd := p_fd p; p_res := p_res p |})
      end
  | PCreate =>
      let ino := match f_main fs D with Some (n, _) => n | None => S i end in
      (upd_main fs D (Some (ino, Partial)),
       {| p_pc := PWrite; p_exe := p_exe p; p_gen := p_gen p; p_fd := ino; p_res := p_res p |})
  | PWrite =>
      match f_main fs D with
      | Some (n, _) => if Nat.eqb n (p_fd p) then (upd_main fs D (Some (n, Full (p_gen p))), goto p PChtimes)
                       else (fs, goto p PChtimes)
      | None => (fs, goto p PChtimes)
      end
  | PChtimes =>
      match f_main fs D with
      | Some _ => (fs, goto p PBuild)
      | None => (upd_main fs D None, with_res p PDone fail)
      end
  | PBuild =>
      match f_main fs D with
      | Some (_, Full g) =>
          match compile (f_env fs D) (f_mf fs D) g with
          | Some q => (upd_out fs D (Some q), goto p PRemove)
          | None => (fs, with_res p PFailRm fail)
          end
      | _ => (fs, with_res p PFailRm fail)
      end
  | PFailRm => (upd_main fs D None, goto p PDone)
  | PRemove => (upd_main fs D None, with_res p PDeferRm ("", 0%Z))      (* return 0: nothing is run *)
  | PDeferRm => (upd_main fs D None, goto p PDone)
  | PExec | PExecCached | PDone => (fs, goto p PDone)
  end.


(* ---- every command (mage/main.go:152-176 ParseAndRun) ----
     CRun      `mage [-f] [-l | -h] words...`: Invoke ([step]); -l / -h only change what is handed to the compiled magefile
     CCompile  `mage -compile <out>`: Invoke with CompileOut ([step_compile])
     CClean    `mage -clean`: removeContents(cacheDir)
     CInit     `mage -init`: creates magefile.go in the directory (O_EXCL), nothing shared is touched
   The run-only system above ([inv], [step], [run], [alone]) is the restriction of this one to CRun. *)
Inductive cmd := CRun | CCompile | CClean | CInit.
(* [g_sub] is a SWITCH for the code before fix 62b109f: [Some d] = the directory <dir>/magefiles, whose generated file
   Invoke then removed at start-up (removeStaleMainfile(<dir>/magefiles) BEFORE deciding which of the two directories
   to use) even when it went on to work in <dir>.  The current tree removes only in the directory it uses: [None]
   (the harness always passes None; Some is kept for the witness C20_magefiles_subdir_before_repair_refuted). *)
Record ginv := { g_inv : inv; g_cmd : cmd; g_sub : option dir }.
Definition as_run (iv : inv) : ginv := {| g_inv := iv; g_cmd := CRun; g_sub := None |}.
Definition remove_sub (g : ginv) (p : proc) (r : fsys * proc) : fsys * proc :=
  match p_pc p, g_sub g with
  | PStale, Some d => (match f_main (fst r) d with Some _ => upd_main (fst r) d None | None => fst r end, snd r)
  | _, _ => r
  end.

(* what mage itself prints when a command that runs nothing succeeds ("<cache> cleaned", "magefile.go created") is,
   like every other output, a value the harness supplies: [behave "" D args], the "program" being none *)
Definition gstep (i : nat) (g : ginv) (fs : fsys) (p : proc) : fsys * proc :=
  let iv := g_inv g in
  match g_cmd g with
  | CRun => remove_sub g p (step i iv fs p)
  | CCompile => remove_sub g p (step_compile i iv fs p)
  | CClean =>
      match p_pc p with
      | PDone => (fs, p)
      | _ => (clear_cache fs, with_res p PDone (behave "" (i_dir iv) (i_args iv)))
      end
  | CInit =>
      match p_pc p with
      | PDone => (fs, p)
      | _ => (fs, with_res p PDone (if String.eqb (f_mf fs (i_dir iv)) "" then behave "" (i_dir iv) (i_args iv) else fail))
      end
  end.

Definition gsys_step (ginvs : list ginv) (s : sys) (i : nat) : sys :=
  match nth_error ginvs i, nth_error (s_procs s) i with
  | Some g, Some p =>
      let '(fs', p') := gstep i g (s_fs s) p in
      {| s_fs := fs'; s_procs := set_nth (s_procs s) i p' |}
  | _, _ => s
  end.
Definition ginit (ginvs : list ginv) (fs0 : fsys) : sys :=
  {| s_fs := fs0; s_procs := map (fun _ => proc0) ginvs |}.
Definition grun (ginvs : list ginv) (fs0 : fsys) (sched : list nat) : sys :=
  fold_left (gsys_step ginvs) sched (ginit ginvs fs0).
Definition galone (ginvs : list ginv) (fs0 : fsys) (i : nat) : option result :=
  result_of (grun ginvs fs0 (repeat i fuel)) i.

(* ---- the declarative side ---- *)

(* the program of a directory: what `go build` makes of its magefiles, their generated main file
   and the module context *)
Definition prog_of (fs : fsys) (D : dir) : option program :=
  match gen (f_mf fs D) with
  | Some g => compile (f_env fs D) (f_mf fs D) g
  | None => None
  end.

(* what an invocation produces: the behaviour of its own directory's program *)
Definition spec_result (fs : fsys) (iv : inv) : result :=
  if String.eqb (f_mf fs (i_dir iv)) "" then fail
  else match prog_of fs (i_dir iv) with
       | Some q => behave q (i_dir iv) (i_args iv)
       | None => fail
       end.

(* cache entries are content addressed: invocations that use the same entry have the same program *)
Definition content_addressed (invs : list inv) (fs : fsys) : Prop :=
  forall i j ivi ivj, nth_error invs i = Some ivi -> nth_error invs j = Some ivj ->
    name (f_mf fs (i_dir ivi)) = name (f_mf fs (i_dir ivj)) ->
    prog_of fs (i_dir ivi) = prog_of fs (i_dir ivj).

(* an entry already in the cache holds the program of the contents it is named after *)
Definition cache_sound (invs : list inv) (fs : fsys) : Prop :=
  forall i iv q, nth_error invs i = Some iv ->
    f_cache fs (name (f_mf fs (i_dir iv))) = Some q -> prog_of fs (i_dir iv) = Some q.

(* an invocation that has not started or has finished *)
Definition quiescent (p : proc) : Prop := p_pc p = PStale \/ p_pc p = PDone.

(* invocations that share a directory never overlap in time: whenever one takes a step, every
   other invocation in the same directory has not started or has finished *)
Fixpoint no_overlap (invs : list inv) (s : sys) (sched : list nat) : Prop :=
  match sched with
  | [] => True
  | i :: r =>
      (forall j ivi ivj pj, j <> i -> nth_error invs i = Some ivi -> nth_error invs j = Some ivj ->
         i_dir ivi = i_dir ivj -> nth_error (s_procs s) j = Some pj -> quiescent pj)
      /\ no_overlap invs (sys_step invs s i) r
  end.

End Model.
