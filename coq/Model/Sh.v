(* Model of package sh's command runners (sh/cmd.go) and of mg.ExitStatus / mg.Fatalf
   (mg/errors.go).  Executable definitions only.

   Transcribed (mage code): Exec (expansion closure: env map first, then os.Getenv; expansion of
   cmd and of every arg; the three-way construction of the result from run's (ran, code, err)),
   run (c.Env = os.Environ() followed by the map entries "k=v"; Stderr/Stdout/Stdin wiring;
   CmdRan(err), ExitStatus(err), err), CmdRan, ExitStatus, mg.ExitStatus, the six wrappers
   (verbose gating of stdout for Run/RunWith, os.Stdout for the V variants, a buffer and
   strings.TrimSuffix(.,"\n") for the Output functions).

   Modelled standard library / OS (validated by the correspondence run, not verified):
   os.Expand (Base/Expand.v), os/exec's de-duplication of c.Env (last occurrence of a key wins,
   order kept), what Cmd.Run returns for a child that exited k / was killed by a signal / could
   not be started, syscall.WaitStatus.ExitStatus, strconv.ParseBool.

   The child process is a PARAMETER: [child argv envp] says what the OS and the program do with
   the argument vector and environment the model computed. *)
From Mage Require Import Base.Strs Base.Expand.

Definition envlist := list (string * string).

(* ---------------------------------------------------------------- environments *)

(* a Go map[string]string given as its entries (keys distinct, any iteration order): m[k] *)
Fixpoint map_get (m : envlist) (k : string) : option string :=
  match m with
  | [] => None
  | (k', v) :: r => if String.eqb k k' then Some v else map_get r k
  end.

(* os.Getenv on the process environment (entries with distinct keys) *)
Definition getenv (penv : envlist) (k : string) : string :=
  match map_get penv k with Some v => v | None => EmptyString end.

(* k+"="+v *)
Definition entry_str (kv : string * string) : string :=
  String.append (fst kv) (String (ch 61) (snd kv)).

(* os.Environ() *)
Definition environ (penv : envlist) : list string := map entry_str penv.

(* split "k=v" at the first '=' (strings.Index(kv, "=")) *)
Fixpoint cut_eq (s : string) : option (string * string) :=
  match s with
  | EmptyString => None
  | String c r =>
      if is_c c 61 then Some (EmptyString, r)
      else match cut_eq r with
           | Some (k, v) => Some (String c k, v)
           | None => None
           end
  end.

Definition mem_str (k : string) (l : list string) : bool := existsb (String.eqb k) l.

(* os/exec dedupEnv: walk the environment from its END, keep an entry unless its key was already
   seen, entries without '=' are kept (empty ones dropped); the result is in the original order.
   [l] is the reversed environment, [out] accumulates by consing, i.e. already re-reversed. *)
Fixpoint dedup_from_end (l : list string) (saw : list string) (out : list string) : list string :=
  match l with
  | [] => out
  | kv :: r =>
      match cut_eq kv with
      | None => if String.eqb kv EmptyString then dedup_from_end r saw out
                else dedup_from_end r saw (kv :: out)
      | Some (k, _) =>
          if mem_str k saw then dedup_from_end r saw out
          else dedup_from_end r (k :: saw) (kv :: out)
      end
  end.
Definition dedup_env (env : list string) : list string := dedup_from_end (rev env) [] [].

(* getenv as the child performs it on its environment block: first entry with that key *)
Fixpoint first_get (l : list string) (k : string) : option string :=
  match l with
  | [] => None
  | kv :: r =>
      match cut_eq kv with
      | Some (k', v) => if String.eqb k k' then Some v else first_get r k
      | None => first_get r k
      end
  end.
Definition child_getenv (envp : list string) (k : string) : option string := first_get envp k.

(* ---------------------------------------------------------------- errors *)

(* syscall.WaitStatus of a finished child *)
Inductive waitstatus := WExited (k : Z) | WSignaled (sig : Z).
Definition ws_exited (w : waitstatus) : bool := match w with WExited _ => true | WSignaled _ => false end.
(* WaitStatus.ExitStatus(): the code if exited, else -1 *)
Definition ws_exitstatus (w : waitstatus) : Z := match w with WExited k => k | WSignaled _ => (-1)%Z end.

(* the dynamic types of error values the code distinguishes *)
Inductive err :=
| ENil
| EExitError (w : waitstatus)     (* *exec.ExitError *)
| EFatal (code : Z)               (* has a method ExitStatus() int: mg.Fatal / mg.Fatalf values *)
| EOther.                         (* anything else: *exec.Error, *os.PathError, fmt.Errorf(...) *)

(* sh.CmdRan, cmd.go:165-174 *)
Definition sh_CmdRan (e : err) : bool :=
  match e with
  | ENil => true
  | EExitError w => ws_exited w
  | _ => false
  end.

(* sh.ExitStatus, cmd.go:183-196: nil; the exitStatus interface; *exec.ExitError through Sys(); 1 *)
Definition sh_ExitStatus (e : err) : Z :=
  match e with
  | ENil => 0%Z
  | EFatal c => c
  | EExitError w => ws_exitstatus w
  | EOther => 1%Z
  end.

(* mg.ExitStatus, errors.go:42-51: nil; not an exitStatus -> 1; else its ExitStatus() *)
Definition mg_ExitStatus (e : err) : Z :=
  match e with
  | ENil => 0%Z
  | EFatal c => c
  | _ => 1%Z
  end.

(* ---------------------------------------------------------------- the child *)

(* [out] / [errout] are EVERYTHING written to the stream the child was given until that stream is
   closed by its last holder - late writes of descendants that outlive the child included: with a
   non-file writer Cmd.Run returns only when the pipe is closed (no WaitDelay is set), with a file
   the descendant writes to the caller's file directly.  [k] is the exit code of the child itself,
   whatever its descendants do afterwards. *)
Inductive child_result :=
| Started (k : Z) (out errout : string)        (* ran, wrote out / errout, exited with code k *)
| Signaled (sig : Z) (out errout : string)     (* ran, wrote out / errout, was killed by a signal *)
| NotStarted.                                  (* LookPath / fork / exec failed *)

Definition child_out (r : child_result) : string :=
  match r with Started _ o _ => o | Signaled _ o _ => o | NotStarted => EmptyString end.
Definition child_err (r : child_result) : string :=
  match r with Started _ _ e => e | Signaled _ _ e => e | NotStarted => EmptyString end.

(* os/exec: the error of Cmd.Run *)
Definition cmd_run_err (r : child_result) : err :=
  match r with
  | Started k _ _ => if Z.eqb k 0 then ENil else EExitError (WExited k)
  | Signaled s _ _ => EExitError (WSignaled s)
  | NotStarted => EOther
  end.

(* the io.Writer values in play *)
Inductive writer := WNil | WOsStdout | WOsStderr | WBuf.
Definition writer_eqb (a b : writer) : bool :=
  match a, b with
  | WNil, WNil | WOsStdout, WOsStdout | WOsStderr, WOsStderr | WBuf, WBuf => true
  | _, _ => false
  end.
(* bytes of a stream that reach destination [dst] when the stream is wired to [w] *)
Definition reaches (dst w : writer) (data : string) : string :=
  if writer_eqb dst w then data else EmptyString.

Inductive stdin_src := OsStdin | NoStdin.

(* strconv.ParseBool, true side *)
Definition parse_bool (s : string) : bool :=
  String.eqb s "1" || String.eqb s "t" || String.eqb s "T" || String.eqb s "TRUE"
  || String.eqb s "true" || String.eqb s "True".

(* strings.TrimSuffix(s, "\n"): if the last byte is '\n', s[:len(s)-1] *)
Definition trim_nl (s : string) : string :=
  match rev (chars s) with
  | c :: r => if is_c c 10 then str_of (rev r) else s
  | [] => s
  end.

(* everything observable about one call *)
Record call := {
  k_ran : bool;               (* Exec's first result *)
  k_err : err;                (* the returned error: ENil, EFatal code or EOther *)
  k_text : string;            (* first result of Output / OutputWith *)
  k_argv : list string;       (* what exec.Command was given: expanded cmd :: expanded args *)
  k_envp : list string;       (* the environment the child is started with *)
  k_stdin : stdin_src;
  k_child : child_result;     (* what the child did with them *)
  k_os_stdout : string;       (* bytes that reached the caller's os.Stdout *)
  k_os_stderr : string;       (* ... os.Stderr *)
  k_buf_out : string;         (* bytes that reached the buffer given as stdout *)
  k_buf_err : string          (* ... as stderr *)
}.

Inductive entry :=
| FRun | FRunV | FRunWith | FRunWithV | FOutput | FOutputWith
| FExec (so se : writer).

Section World.
Variable penv : envlist.                                          (* the caller's process environment *)
Variable child : list string -> list string -> child_result.      (* argv -> envp -> behaviour *)

(* mg.Verbose() *)
Definition verbose : bool := parse_bool (getenv penv "MAGEFILE_VERBOSE").

(* the closure [expand] of Exec, cmd.go:114-120 *)
Definition exec_mapping (envm : envlist) (s : string) : string :=
  match map_get envm s with
  | Some s2 => s2
  | None => getenv penv s
  end.

(* run, cmd.go:138-158: (ran, code, err) and what it started *)
Definition run_ (envm : envlist) (cmd : string) (args : list string)
  : bool * Z * err * (list string * list string * child_result) :=
  let c_env := environ penv ++ map entry_str envm in
  let argv := cmd :: args in
  let envp := dedup_env c_env in
  let r := child argv envp in
  let e := cmd_run_err r in
  (sh_CmdRan e, sh_ExitStatus e, e, (argv, envp, r)).

(* Exec, cmd.go:113-136 *)
Definition exec_ (envm : envlist) (stdout stderr : writer) (cmd : string) (args : list string) : call :=
  let expand_ := expand (exec_mapping envm) in
  let cmd := expand_ cmd in
  let args := map expand_ args in
  let '(ran, code, e, (argv, envp, r)) := run_ envm cmd args in
  let '(ran', e') :=
    match e with
    | ENil => (true, ENil)
    | _ => if ran then (ran, EFatal code) else (ran, EOther)
    end in
  {| k_ran := ran'; k_err := e'; k_text := EmptyString;
     k_argv := argv; k_envp := envp; k_stdin := OsStdin; k_child := r;
     k_os_stdout := String.append (reaches WOsStdout stdout (child_out r)) (reaches WOsStdout stderr (child_err r));
     k_os_stderr := String.append (reaches WOsStderr stdout (child_out r)) (reaches WOsStderr stderr (child_err r));
     k_buf_out := reaches WBuf stdout (child_out r);
     k_buf_err := reaches WBuf stderr (child_err r) |}.

Definition RunWith (envm : envlist) (cmd : string) (args : list string) : call :=
  let output := if verbose then WOsStdout else WNil in
  exec_ envm output WOsStderr cmd args.
Definition Run (cmd : string) (args : list string) : call := RunWith [] cmd args.
Definition RunV (cmd : string) (args : list string) : call := exec_ [] WOsStdout WOsStderr cmd args.
Definition RunWithV (envm : envlist) (cmd : string) (args : list string) : call :=
  exec_ envm WOsStdout WOsStderr cmd args.

Definition with_text (x : call) : call :=
  {| k_ran := k_ran x; k_err := k_err x; k_text := trim_nl (k_buf_out x);
     k_argv := k_argv x; k_envp := k_envp x; k_stdin := k_stdin x; k_child := k_child x;
     k_os_stdout := k_os_stdout x; k_os_stderr := k_os_stderr x;
     k_buf_out := k_buf_out x; k_buf_err := k_buf_err x |}.
Definition Output (cmd : string) (args : list string) : call :=
  with_text (exec_ [] WBuf WOsStderr cmd args).
Definition OutputWith (envm : envlist) (cmd : string) (args : list string) : call :=
  with_text (exec_ envm WBuf WOsStderr cmd args).

(* the map an entry point hands to Exec *)
Definition entry_env (f : entry) (envm : envlist) : envlist :=
  match f with
  | FRun | FRunV | FOutput => []
  | _ => envm
  end.

Definition call_entry (f : entry) (envm : envlist) (cmd : string) (args : list string) : call :=
  match f with
  | FRun => Run cmd args
  | FRunV => RunV cmd args
  | FRunWith => RunWith envm cmd args
  | FRunWithV => RunWithV envm cmd args
  | FOutput => Output cmd args
  | FOutputWith => OutputWith envm cmd args
  | FExec so se => exec_ envm so se cmd args
  end.
(* ---------------------------------------------------------------- Exec with writers that fail
   A conservative extension (nothing above changes): Exec handed caller-supplied io.Writers whose
   Write fails after n bytes.  os/exec copies a non-file writer's stream through a pipe in a
   goroutine (io.Copy); Cmd.Wait reports the process's own outcome first and the copy error only
   if that is nil.  [exec_x] is the same transcription of Exec/run as [exec_], with that error. *)
Inductive xwriter :=
| XW (w : writer)                 (* one of the writers above; never fails *)
| XFail (n : nat).                (* accepts n bytes, then every Write fails *)

(* the plain destination of an xwriter (a failing one is none of the caller's standard streams) *)
Definition xbase (w : xwriter) : writer := match w with XW w => w | XFail _ => WNil end.

(* bytes a caller-supplied writer has accepted when the stream is wired to it *)
Definition accepted (w : xwriter) (data : string) : string :=
  match w with
  | XW w => reaches WBuf w data
  | XFail n => str_of (firstn n (chars data))
  end.
(* io.Copy into the writer reports an error: a Write is attempted only if there is data *)
Definition write_fails (w : xwriter) (data : string) : bool :=
  match w with
  | XFail n => Nat.ltb n (String.length data)
  | XW _ => false
  end.
(* the error of Cmd.Run: the process's own outcome first; a copy error only if that is nil *)
Definition run_err (r : child_result) (copy_err : bool) : err :=
  match cmd_run_err r with
  | ENil => if copy_err then EOther else ENil
  | e => e
  end.

Definition run_x (envm : envlist) (stdout stderr : xwriter) (cmd : string) (args : list string)
  : bool * Z * err * (list string * list string * child_result) :=
  let c_env := environ penv ++ map entry_str envm in
  let argv := cmd :: args in
  let envp := dedup_env c_env in
  let r := child argv envp in
  let e := run_err r (write_fails stdout (child_out r) || write_fails stderr (child_err r)) in
  (sh_CmdRan e, sh_ExitStatus e, e, (argv, envp, r)).

Definition exec_x (envm : envlist) (stdout stderr : xwriter) (cmd : string) (args : list string) : call :=
  let expand_ := expand (exec_mapping envm) in
  let cmd := expand_ cmd in
  let args := map expand_ args in
  let '(ran, code, e, (argv, envp, r)) := run_x envm stdout stderr cmd args in
  let '(ran', e') :=
    match e with
    | ENil => (true, ENil)
    | _ => if ran then (ran, EFatal code) else (ran, EOther)
    end in
  {| k_ran := ran'; k_err := e'; k_text := EmptyString;
     k_argv := argv; k_envp := envp; k_stdin := OsStdin; k_child := r;
     k_os_stdout := String.append (reaches WOsStdout (xbase stdout) (child_out r)) (reaches WOsStdout (xbase stderr) (child_err r));
     k_os_stderr := String.append (reaches WOsStderr (xbase stdout) (child_out r)) (reaches WOsStderr (xbase stderr) (child_err r));
     k_buf_out := accepted stdout (child_out r);
     k_buf_err := accepted stderr (child_err r) |}.
End World.

(* ---------------------------------------------------------------- overlapping calls
   Two sh calls in flight at the same time (targets run in parallel by mg.Deps).  The only state
   they share is the process environment.  The steps of a call that touch it: the expansion
   (os.Getenv through the closure of Exec), run (os.Environ()), the end of the call.  In the code
   that exists no step WRITES it: the map entries go into c.Env only. *)
Record pcall := { pc_envm : envlist; pc_cmd : string; pc_args : list string }.
Record pobs := { po_argv : option (list string);      (* what the call handed to exec.Command *)
                 po_envp : option (list string) }.    (* the environment its child was started with *)
Inductive pstep := PExpand | PStart | PEnd.

Definition step_call (pe : envlist) (c : pcall) (o : pobs) (s : pstep) : envlist * pobs :=
  match s with
  | PExpand => (pe, {| po_argv := Some (map (expand (exec_mapping pe (pc_envm c))) (pc_cmd c :: pc_args c));
                       po_envp := po_envp o |})
  | PStart => (pe, {| po_argv := po_argv o;
                      po_envp := Some (dedup_env (environ pe ++ map entry_str (pc_envm c))) |})
  | PEnd => (pe, o)
  end.

(* a schedule: which of the two calls (true = the first) takes its next step *)
Fixpoint par_calls (sched : list (bool * pstep)) (a b : pcall) (pe : envlist) (oa ob : pobs)
  : envlist * (pobs * pobs) :=
  match sched with
  | [] => (pe, (oa, ob))
  | (true, s) :: r => let '(pe', oa') := step_call pe a oa s in par_calls r a b pe' oa' ob
  | (false, s) :: r => let '(pe', ob') := step_call pe b ob s in par_calls r a b pe' oa ob'
  end.

Definition pobs0 : pobs := {| po_argv := None; po_envp := None |}.

(* For contrast, NOT the code that exists: the design of a t.Setenv-style helper.  The call writes
   its map into the process environment, expands and starts from the process environment alone,
   and puts the previous values back when it ends. *)
Definition env_set (pe : envlist) (k v : string) : envlist :=
  (k, v) :: filter (fun kv => negb (String.eqb (fst kv) k)) pe.
Definition env_unset (pe : envlist) (k : string) : envlist :=
  filter (fun kv => negb (String.eqb (fst kv) k)) pe.
Record pobs_s := { ps_obs : pobs; ps_prev : list (string * option string) }.
Definition step_call_setenv (pe : envlist) (c : pcall) (o : pobs_s) (s : pstep) : envlist * pobs_s :=
  match s with
  | PExpand =>
      let prev := map (fun kv => (fst kv, map_get pe (fst kv))) (pc_envm c) in
      let pe' := fold_left (fun e kv => env_set e (fst kv) (snd kv)) (pc_envm c) pe in
      (pe', {| ps_obs := {| po_argv := Some (map (expand (getenv pe')) (pc_cmd c :: pc_args c));
                            po_envp := po_envp (ps_obs o) |};
               ps_prev := prev |})
  | PStart => (pe, {| ps_obs := {| po_argv := po_argv (ps_obs o); po_envp := Some (dedup_env (environ pe)) |};
                      ps_prev := ps_prev o |})
  | PEnd => (fold_left (fun e kp => match snd kp with Some v => env_set e (fst kp) v | None => env_unset e (fst kp) end)
                       (ps_prev o) pe, o)
  end.
Fixpoint par_calls_setenv (sched : list (bool * pstep)) (a b : pcall) (pe : envlist) (oa ob : pobs_s)
  : envlist * (pobs_s * pobs_s) :=
  match sched with
  | [] => (pe, (oa, ob))
  | (true, s) :: r => let '(pe', oa') := step_call_setenv pe a oa s in par_calls_setenv r a b pe' oa' ob
  | (false, s) :: r => let '(pe', ob') := step_call_setenv pe b ob s in par_calls_setenv r a b pe' oa ob'
  end.
