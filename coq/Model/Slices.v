(* Model of sh/cmd.go:15-136 (RunCmd, OutCmd, joinArgs, Run, RunV, RunWith, RunWithV, Output,
   OutputWith, Exec and the argument hand-over of run) in a small Go SLICE MEMORY, so that aliasing
   is a fact of the model and not an omission.  Executable definitions only.  DESIGN.md section 4, C16.

     heap            : array id -> list string     (an array never changes its length)
     slice           : (array id, offset, len, cap)
     prog R          : a goroutine's code as a tree of ATOMIC memory actions
                       (allocate an array | read one cell | write one cell), returning R
     step / run_seq  : one action / all actions of one goroutine
     par_run         : ANY interleaving of the actions of two goroutines over one heap
     append_         : Go's append(s, t...): writes IN PLACE behind len(s) when cap(s) allows,
                       allocates and copies otherwise
     a variadic call f(cmd, args...) passes the slice value itself (same array)

   [fixed = true] is the current tree (joinArgs builds a fresh slice, Exec expands into a fresh slice);
   [fixed = false] is the code before commit "fix: sh functions modified the caller's argument slice":
   the closures did append(args, args2...) on the captured slice and Exec assigned
   args[i] = os.Expand(args[i], expand) through the slice it was given. *)
From Mage Require Import Base.Strs Base.Expand.

Definition aid := nat.
Definition heap := list (list string).
Record slice := { s_id : aid; s_off : nat; s_len : nat; s_cap : nat }.
Definition nil_slice : slice := {| s_id := 0; s_off := 0; s_len := 0; s_cap := 0 |}.

(* l[i] = v; out of range: nothing (Go would panic; never reached with slices that lie in their arrays) *)
Fixpoint upd {A} (i : nat) (v : A) (l : list A) : list A :=
  match l, i with
  | [], _ => []
  | _ :: r, O => v :: r
  | x :: r, S i' => x :: upd i' v r
  end.

Definition arr (h : heap) (id : aid) : list string := nth id h [].
(* cells off+j .. off+j+n-1 of an array *)
Definition cells (a : list string) (off j n : nat) : list string :=
  map (fun t => nth (off + t) a "") (seq j n).
(* what a caller sees through a slice: s[0], ..., s[len-1] *)
Definition contents (h : heap) (s : slice) : list string := cells (arr h (s_id s)) (s_off s) 0 (s_len s).

(* ---- code as trees of atomic memory actions ---- *)
Inductive prog (R : Type) : Type :=
| Ret (r : R)
| Alloc (n : nat) (k : aid -> prog R)                     (* make: a new zeroed array of n cells *)
| Read (id : aid) (i : nat) (k : string -> prog R)        (* load of one cell *)
| Write (id : aid) (i : nat) (v : string) (k : prog R).   (* store to one cell *)
Arguments Ret {R} r.
Arguments Alloc {R} n k.
Arguments Read {R} id i k.
Arguments Write {R} id i v k.

Fixpoint bind {A B} (p : prog A) (f : A -> prog B) : prog B :=
  match p with
  | Ret a => f a
  | Alloc n k => Alloc n (fun id => bind (k id) f)
  | Read id i k => Read id i (fun v => bind (k v) f)
  | Write id i v k => Write id i v (bind k f)
  end.

(* one atomic action of a goroutine *)
Definition step {R} (p : prog R) (h : heap) : option (prog R * heap) :=
  match p with
  | Ret _ => None
  | Alloc n k => Some (k (length h), h ++ [repeat "" n])
  | Read id i k => Some (k (nth i (arr h id) ""), h)
  | Write id i v k => Some (k, upd id (upd i v (arr h id)) h)
  end.

(* a goroutine running alone to its end *)
Fixpoint run_seq {R} (p : prog R) (h : heap) : heap * R :=
  match p with
  | Ret r => (h, r)
  | Alloc n k => run_seq (k (length h)) (h ++ [repeat "" n])
  | Read id i k => run_seq (k (nth i (arr h id) "")) h
  | Write id i v k => run_seq k (upd id (upd i v (arr h id)) h)
  end.

(* two goroutines over one heap: every interleaving (merge) of their atomic actions *)
Inductive par_run {A B} : prog A -> prog B -> heap -> A -> B -> heap -> Prop :=
| par_done : forall a b h, par_run (Ret a) (Ret b) h a b h
| par_left : forall p q h p' h' a b hf,
    step p h = Some (p', h') -> par_run p' q h' a b hf -> par_run p q h a b hf
| par_right : forall p q h q' h' a b hf,
    step q h = Some (q', h') -> par_run p q' h' a b hf -> par_run p q h a b hf.

(* the same, driven by a schedule (true: the first goroutine moves; a finished goroutine's turn is
   skipped; when the schedule is used up the first and then the second run to their ends).
   Every bool list is a schedule and every merge is the run of some bool list. *)
Fixpoint par_exec {A B} (sched : list bool) (p : prog A) (q : prog B) (h : heap) : A * B * heap :=
  match sched with
  | [] => let '(h1, a) := run_seq p h in let '(h2, b) := run_seq q h1 in (a, b, h2)
  | true :: r => match step p h with
                 | Some (p', h') => par_exec r p' q h'
                 | None => par_exec r p q h
                 end
  | false :: r => match step q h with
                  | Some (q', h') => par_exec r p q' h'
                  | None => par_exec r p q h
                  end
  end.

(* ---- Go's slice primitives ---- *)
(* make([]string, len, cap) *)
Definition make_ (len cap : nat) : prog slice :=
  Alloc cap (fun id => Ret {| s_id := id; s_off := 0; s_len := len; s_cap := cap |}).

(* for j := j; j < j+n; j++ { dst[doff+j] = f(src[soff+j]) }   (one load and one store per element) *)
Fixpoint copy_cells (f : string -> string) (src : aid) (soff : nat) (dst : aid) (doff : nat) (j n : nat) : prog unit :=
  match n with
  | O => Ret tt
  | S n' => Read src (soff + j) (fun v => Write dst (doff + j) (f v) (copy_cells f src soff dst doff (S j) n'))
  end.

(* the loads of cells off+j .. off+j+n-1, in order *)
Fixpoint read_cells (id : aid) (off : nat) (j n : nat) : prog (list string) :=
  match n with
  | O => Ret []
  | S n' => Read id (off + j) (fun v => bind (read_cells id off (S j) n') (fun r => Ret (v :: r)))
  end.

Definition same (s : string) : string := s.

(* append(s, t...).  Enough capacity: the elements of t are stored behind s's len IN s's ARRAY and the
   result shares it.  Otherwise: a new array (Go rounds the new capacity up; nothing here appends to the
   result again, so the exact new capacity is never observed; we take len(s)+len(t)), old elements
   copied, then t's. *)
Definition append_ (s t : slice) : prog slice :=
  if Nat.leb (s_len s + s_len t) (s_cap s) then
    bind (copy_cells same (s_id t) (s_off t) (s_id s) (s_off s + s_len s) 0 (s_len t))
         (fun _ => Ret {| s_id := s_id s; s_off := s_off s; s_len := s_len s + s_len t; s_cap := s_cap s |})
  else
    Alloc (s_len s + s_len t) (fun nid =>
      bind (copy_cells same (s_id s) (s_off s) nid 0 0 (s_len s)) (fun _ =>
      bind (copy_cells same (s_id t) (s_off t) nid (s_len s) 0 (s_len t)) (fun _ =>
      Ret {| s_id := nid; s_off := 0; s_len := s_len s + s_len t; s_cap := s_len s + s_len t |}))).

(* ---- sh/cmd.go ---- *)
(* cmd.go:51-55   out := make([]string, 0, len(a)+len(b)); out = append(out, a...); return append(out, b...) *)
Definition joinArgs (a b : slice) : prog slice :=
  bind (make_ 0 (s_len a + s_len b)) (fun out =>
  bind (append_ out a) (fun out =>
  append_ out b)).

(* Go map lookup; the map is an immutable VALUE here: no action of the model can write it *)
Fixpoint map_get (m : list (string * string)) (k : string) : option string :=
  match m with
  | [] => None
  | (k', v) :: r => if String.eqb k k' then Some v else map_get r k
  end.

(* cmd.go:114-120   expand := func(s) { s2, ok := env[s]; if ok { return s2 }; return os.Getenv(s) } *)
Definition mapping (emap penv : list (string * string)) (s : string) : string :=
  match map_get emap s with
  | Some v => v
  | None => env_get penv s
  end.

(* cmd.go:128,139   run(env, stdout, stderr, cmd, args...) -> exec.Command(cmd, args...): the child's argv is
   cmd followed by the cells of args AS THEY ARE WHEN exec.Command LOADS THEM *)
Definition run_ (cmd : string) (args : slice) : prog (list string) :=
  bind (read_cells (s_id args) (s_off args) 0 (s_len args)) (fun vs => Ret (cmd :: vs)).

(* cmd.go:113-128 *)
Definition exec_ (fixed : bool) (emap penv : list (string * string)) (cmd : string) (args : slice) : prog (list string) :=
  let expand1 := expand (mapping emap penv) in
  let cmd' := expand1 cmd in                                           (* cmd = os.Expand(cmd, expand) *)
  if fixed then
    bind (make_ (s_len args) (s_len args)) (fun expanded =>            (* expanded := make([]string, len(args)) *)
    bind (copy_cells expand1 (s_id args) (s_off args) (s_id expanded) (s_off expanded) 0 (s_len args)) (fun _ =>
                                                                       (* expanded[i] = os.Expand(args[i], expand) *)
    run_ cmd' expanded))                                               (* args = expanded; run(..., cmd, args...) *)
  else
    bind (copy_cells expand1 (s_id args) (s_off args) (s_id args) (s_off args) 0 (s_len args)) (fun _ =>
                                                                       (* args[i] = os.Expand(args[i], expand) *)
    run_ cmd' args).

(* the seven entry points; all reach Exec with the SAME slice (variadic hand-over), they differ in the
   env map (nil for Run/RunV/Output) and in where the child's stdout goes *)
Inductive fnsel := FRun | FRunV | FRunWith | FRunWithV | FOutput | FOutputWith | FExec.
Definition uses_map (f : fnsel) : bool :=
  match f with FRun | FRunV | FOutput => false | _ => true end.

Inductive kind := KRun | KOut.     (* RunCmd / OutCmd *)
Record closure := { cl_kind : kind; cl_cmd : string; cl_baked : slice }.

(* cmd.go:34-46: the function returned by RunCmd/OutCmd, called with args2 = extra *)
Definition closure_call (fixed : bool) (cl : closure) (penv : list (string * string)) (extra : slice) : prog (list string) :=
  bind (if fixed then joinArgs (cl_baked cl) extra else append_ (cl_baked cl) extra) (fun args =>
  exec_ fixed [] penv (cl_cmd cl) args).

Definition direct_call (fixed : bool) (f : fnsel) (emap penv : list (string * string)) (cmd : string) (args : slice) : prog (list string) :=
  exec_ fixed (if uses_map f then emap else []) penv cmd args.

(* strings.TrimSuffix(s, "\n") *)
Fixpoint trim_nl (s : string) : string :=
  match s with
  | EmptyString => EmptyString
  | String c r => match r with
                  | EmptyString => if is_c c 10 then EmptyString else s
                  | _ => String c (trim_nl r)
                  end
  end.

(* ---- histories ---- *)
Inductive op :=
| SetEnv (k v : string)                                                   (* os.Setenv between calls *)
| MkClosure (k : kind) (cmd : string) (baked : slice)                     (* f := sh.RunCmd/OutCmd(cmd, baked...): closure number (closures so far) *)
| CallClosure (c : nat) (extra : slice)                                   (* closures[c](extra...) *)
| CallDirect (f : fnsel) (emap : list (string * string)) (cmd : string) (args : slice).

Inductive obs :=
| OSet
| OMk
| OCall (argv : list string)        (* what the child was started with *)
        (out : option string)       (* the text handed back to the caller *)
        (stdout : string)           (* the bytes that reached the process's os.Stdout during the call *)
        (status : nat)              (* sh.ExitStatus of the returned error; 0 = nil *)
| OBad.                             (* no such closure *)

(* strconv.ParseBool: the spellings of true *)
Definition parse_bool_true (s : string) : bool :=
  existsb (String.eqb s) ["1"; "t"; "T"; "TRUE"; "true"; "True"].
(* mg.Verbose(): b, _ := strconv.ParseBool(os.Getenv("MAGEFILE_VERBOSE")) - read when it is CALLED *)
Definition verbose (penv : list (string * string)) : bool := parse_bool_true (env_get penv "MAGEFILE_VERBOSE").

Section History.
(* The operating system and the child are EXTERNAL: which program the command word names (exec.LookPath through
   PATH, the file system at that moment), whether it can be started, what it prints and how it exits are
   functions of the process environment AT THE TIME OF THE CALL, of the env map the call hands to Exec (the child is
   started with both; os/exec refuses some maps) and of the argv the call hands over (argv[0] is the expanded command word) - of nothing else: not of earlier calls, not of the closure's age.
   (A child that cannot be started: empty stdout, status 1.  File-system changes are made visible to these
   functions by the harness through an epoch variable in the environment.) *)
Variable child_out : list (string * string) -> list (string * string) -> list string -> string.   (* process environment, env overlay of the call, argv *)
Variable child_exit : list (string * string) -> list (string * string) -> list string -> nat.   (* not 0: the call fails *)
Variable fixed : bool.

(* where the child's stdout goes.  RunCmd closure -> Run -> RunWith: os.Stdout if mg.Verbose() AT THE CALL, else
   nowhere; OutCmd -> Output: a buffer that is new for every call, handed back without one final newline -
   also when the child fails (cmd.go:88-92 returns the text together with the error) *)
Definition finish_closure (k : kind) (penv : list (string * string)) (argv : list string) : obs :=
  match k with
  | KRun => OCall argv None (if verbose penv then child_out penv [] argv else "") (child_exit penv [] argv)
  | KOut => OCall argv (Some (trim_nl (child_out penv [] argv))) "" (child_exit penv [] argv)
  end.
Definition finish_direct (f : fnsel) (emap penv : list (string * string)) (argv : list string) : obs :=
  let m := if uses_map f then emap else [] in
  match f with
  | FRun | FRunWith => OCall argv None (if verbose penv then child_out penv m argv else "") (child_exit penv m argv)
  | FRunV | FRunWithV => OCall argv None (child_out penv m argv) (child_exit penv m argv)
  | FOutput | FOutputWith => OCall argv (Some (trim_nl (child_out penv m argv))) "" (child_exit penv m argv)
  | FExec => OCall argv (Some (child_out penv m argv)) "" (child_exit penv m argv)   (* the caller's own writer receives the raw bytes *)
  end.

(* the code a call operation runs, and what the caller and os.Stdout get, given the child's argv *)
Definition call_prog (cls : list closure) (penv : list (string * string)) (o : op) : option (prog (list string) * (list string -> obs)) :=
  match o with
  | SetEnv _ _ => None
  | MkClosure _ _ _ => None
  | CallClosure c extra =>
      match nth_error cls c with
      | Some cl => Some (closure_call fixed cl penv extra, finish_closure (cl_kind cl) penv)
      | None => None
      end
  | CallDirect f emap cmd args => Some (direct_call fixed f emap penv cmd args, finish_direct f emap penv)
  end.

(* state: the process environment, the closures made so far, the heap *)
Definition step_op (penv : list (string * string)) (cls : list closure) (h : heap) (o : op)
  : list (string * string) * list closure * heap * obs :=
  match o with
  | SetEnv k v => ((k, v) :: penv, cls, h, OSet)
  | MkClosure k cmd baked =>                 (* cmd.go:34-46: captures cmd and the slice; reads nothing else *)
      (penv, cls ++ [{| cl_kind := k; cl_cmd := cmd; cl_baked := baked |}], h, OMk)
  | _ => match call_prog cls penv o with
         | Some (p, fin) => let '(h', argv) := run_seq p h in (penv, cls, h', fin argv)
         | None => (penv, cls, h, OBad)
         end
  end.

(* per operation: what was observed and the heap right after it *)
Fixpoint run_history (penv : list (string * string)) (cls : list closure) (h : heap) (ops : list op) : list (obs * heap) :=
  match ops with
  | [] => []
  | o :: r => let '(penv', cls', h', ob) := step_op penv cls h o in (ob, h') :: run_history penv' cls' h' r
  end.
End History.
