(* The literal data of the source that the models depend on, as the models assume it.
   harness/extract reads the CURRENT values out of /repo's source on every run and the check
   re-proves (by reflexivity, in a generated file) that they equal these expectations; the lemmas
   of Proof/Tables_facts.v tie the expectations to the functions the models actually use.
   Definitions only. *)
From Mage Require Import Base.Strs.
From Mage Require Model.Lifecycle Model.ImportTag Model.Cache Model.FnCheck Model.Classify.

(* string constants: (Go name, value the models use) *)
Definition expected_mainfile : string := Lifecycle.mainfile.                 (* mage/main.go  mainfile *)
Definition expected_initFile : string := Lifecycle.initFile.                 (* mage/main.go  initFile *)
Definition expected_MagefilesDirName : string := Lifecycle.magefilesDir.     (* mage/main.go  MagefilesDirName *)
Definition expected_importTag : string := ImportTag.import_tag.              (* parse/parse.go importTag *)
Definition expected_magicRebuildKey : string := Cache.magicRebuildKey.       (* mage/main.go  magicRebuildKey *)

(* parse.argTypes : map[string]string, keyed by fmt.Sprint of the parameter's type expression; sorted *)
Definition expected_parse_argTypes : list (string * string) :=
  [("&{time Duration}", "time.Duration"); ("bool", "bool"); ("int", "int"); ("string", "string")].

(* mg.argTypes : map[reflect.Type]bool; the keys as the identifiers of mg/fn.go; sorted *)
Definition expected_mg_argTypes : list (string * string) :=
  [("boolType", "true"); ("durType", "true"); ("intType", "true"); ("stringType", "true")].

(* which model type each table entry stands for *)
Definition classify_of_key (k : string) : option Classify.pty :=
  if String.eqb k "string" then Some Classify.TString
  else if String.eqb k "int" then Some Classify.TInt
  else if String.eqb k "bool" then Some Classify.TBool
  else if String.eqb k "&{time Duration}" then Some Classify.TDur
  else None.

Definition fncheck_of_ident (k : string) : option FnCheck.gty :=
  if String.eqb k "intType" then Some FnCheck.TInt
  else if String.eqb k "boolType" then Some FnCheck.TBool
  else if String.eqb k "stringType" then Some FnCheck.TString
  else if String.eqb k "durType" then Some FnCheck.TDur
  else None.
