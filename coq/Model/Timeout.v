(* Model of the timeout / SIGINT handling of the generated main program:
   mage/template.go:261-324 (getContext, runTarget) and the loop over the command-line targets
   (template.go: `for x := 0; x < len(args.Args); { ... ret := runTarget(...); handleError(logger, ret) }`).
   Executable definitions only.  DESIGN.md section 4 "C12".

   A discrete-event transcription in LOGICAL time (Z, nanoseconds):
     - [get_context]  : `if ctx == nil { if args.Timeout != 0 { WithTimeout(Background, Timeout) } else { WithCancel(Background) } }`
                         - created lazily by the FIRST runTarget, then shared by every later one;
     - [run_from]     : one runTarget per target, in order; the goroutine running the target; the outer
                        `select` over sigCh / ctx.Done() / completion; on SIGINT `cancel()` and the inner
                        `select` over completion / 5 s timer / second SIGINT; on completion the context
                        is NOT cancelled; handleError: a non-nil result ends the process.
   When two channels of a `select` become ready at the same logical instant Go may take either:
   the model returns the LIST OF ALL POSSIBLE RESULTS ([earliest] keeps every event of minimal time).
   A SIGINT arriving exactly when a runTarget starts may or may not be seen by its fresh channel
   ([sig_views]).  Signals are given in ascending order; the domain of the model is signals that arrive
   once the first runTarget has called signal.Notify (earlier ones kill the process: not modelled,
   they are dropped here).

   The TARGET is environment: [work] = its duration if undisturbed, [honours] = Some c: it watches
   ctx.Done() and finishes c after noticing (None: it ignores the context), [rc] / [crc] = the exit
   status handleError derives from its result when it completes undisturbed / after noticing a
   cancellation (None = nil result).  The context handed to dependencies is Model/Deps.v's business. *)
From Mage Require Import Base.Strs.
Open Scope Z_scope.

Record target := { work : Z; honours : option Z; rc : option Z; crc : option Z }.

(* the one shared context: its deadline (WithTimeout) and the time cancel() was called, if it was *)
Record cxs := { deadline : option Z; cancelled : option Z }.

Definition omin (a b : option Z) : option Z :=
  match a, b with
  | Some x, Some y => Some (Z.min x y)
  | Some x, None => Some x
  | None, _ => b
  end.

(* the instant ctx.Done() is closed *)
Definition done_at (c : cxs) : option Z := omin (deadline c) (cancelled c).

(* template.go:273-281 *)
Definition get_context (d now : Z) (cx : option cxs) : cxs :=
  match cx with
  | Some c => c
  | None => if Z.eqb d 0 then {| deadline := None; cancelled := None |}
            else {| deadline := Some (now + d); cancelled := None |}
  end.

Definition cancel_at (c : cxs) (t : Z) : cxs :=
  {| deadline := deadline c; cancelled := omin (cancelled c) (Some t) |}.

Inductive cls :=
| KOk           (* all targets done, exit 0 *)
| KDeadline     (* "Error: context deadline exceeded" *)
| KCanceled     (* "Error: context canceled" (a later target started with the context already cancelled by SIGINT) *)
| KCleanup      (* "Error: cleanup timeout exceeded" *)
| KForced       (* "Error: exit forced" *)
| KTarget.      (* the target's own error *)

(* ctx.Err() once Done: whichever of deadline / cancel() came first *)
Definition err_classes (c : cxs) : list cls :=
  match deadline c, cancelled c with
  | Some dl, Some x => if dl <? x then [KDeadline] else if x <? dl then [KCanceled] else [KDeadline; KCanceled]
  | Some _, None => [KDeadline]
  | None, Some _ => [KCanceled]
  | None, None => []
  end.

(* --- the target (environment) --- *)
(* when it notices that its context is Done (dn = the instant the context is Done, if ever) *)
Definition noticed (tg : target) (s : Z) (dn : option Z) : option Z :=
  match honours tg, dn with
  | Some _, Some x => let x' := Z.max s x in if x' <? s + work tg then Some x' else None
  | _, _ => None
  end.
(* when its goroutine sends on d *)
Definition fin_of (tg : target) (s : Z) (dn : option Z) : Z :=
  match noticed tg s dn, honours tg with
  | Some x', Some k => x' + k
  | _, _ => s + work tg
  end.
Definition err_of (tg : target) (s : Z) (dn : option Z) : option Z :=
  match noticed tg s dn with Some _ => crc tg | None => rc tg end.

(* --- what is observable of one target and of the process --- *)
Record tobs := {
  ts_start : Z;
  ts_deadline : option Z;     (* ctx.Deadline() of the context it received *)
  ts_cancel : option Z;       (* when that context was Done, if it was while the target ran and the process lived *)
  ts_end : option Z;          (* when the target returned, if it did before the process exited *)
}.
Record result := { r_exit : Z; r_time : Z; r_cls : cls; r_obs : list tobs }.

Definition seen_cancel (s : Z) (dn : option Z) (upto : Z) : option Z :=
  match dn with
  | Some x => let x' := Z.max s x in if x' <=? upto then Some x' else None
  | None => None
  end.

Definition mk_obs (s : Z) (c : cxs) (cn : option Z) (e : option Z) : tobs :=
  {| ts_start := s; ts_deadline := deadline c; ts_cancel := cn; ts_end := e |}.

Definition exit_with (code t : Z) (k : cls) (o : tobs) (acc : list tobs) : result :=
  {| r_exit := code; r_time := t; r_cls := k; r_obs := rev (o :: acc) |}.

(* --- select --- *)
Definition earliest {B} (l : list (Z * B)) : list (Z * B) :=
  filter (fun x => forallb (fun y => fst x <=? fst y) l) l.

Definition opt_ev {B} (t : option Z) (b : B) : list (Z * B) :=
  match t with Some x => [(x, b)] | None => [] end.

Inductive obr := BComplete | BDone | BSig.
Inductive ibr := IComplete | ICleanup | IForce.

Definition outer_events (f0 : Z) (dclip sig1 : option Z) : list (Z * obr) :=
  (f0, BComplete) :: opt_ev dclip BDone ++ opt_ev sig1 BSig.
Definition inner_events (f1 w : Z) (sig2 : option Z) : list (Z * ibr) :=
  (f1, IComplete) :: (w, ICleanup) :: opt_ev sig2 IForce.

Definition cleanup_window : Z := 5000000000.      (* time.After(5 * time.Second) *)

(* the signals a runTarget starting at s can receive on its fresh channel *)
Definition sig_views (s : Z) (sigs : list Z) : list (list Z) :=
  let ge := filter (fun x => s <=? x) sigs in
  let gt := filter (fun x => s <? x) sigs in
  if list_eqb Z.eqb ge gt then [ge] else [ge; gt].

Fixpoint run_from (d : Z) (tgs : list target) (now : Z) (cx : option cxs) (sigs : list Z) (acc : list tobs)
  : list result :=
  match tgs with
  | [] => [ {| r_exit := 0; r_time := now; r_cls := KOk; r_obs := rev acc |} ]
  | tg :: rest =>
    let c := get_context d now cx in                       (* ctx, cancel := getContext() *)
    let dn := done_at c in
    let f0 := fin_of tg now dn in                          (* go func() { ... d <- err }() *)
    flat_map (fun sg =>                                    (* sigCh := make(chan os.Signal, 1); signal.Notify(sigCh, SIGINT) *)
      flat_map (fun ev =>                                  (* select { *)
        let tau := fst ev in
        match snd ev with
        | BComplete =>                                     (* case err = <-d: return err  -- the context is NOT cancelled *)
            let o := mk_obs now c (seen_cancel now dn f0) (Some f0) in
            match err_of tg now dn with
            | Some code => [exit_with code f0 KTarget o acc]          (* handleError: os.Exit *)
            | None => run_from d rest f0 (Some c) sg (o :: acc)       (* next target, same context *)
            end
        | BDone =>                                         (* case <-ctx.Done(): cancel(); return ctx.Err() *)
            let o := mk_obs now c (Some tau) None in
            map (fun k => exit_with 1 tau k o acc) (err_classes c)
        | BSig =>                                          (* case <-sigCh: cancel(); cleanupCh := time.After(5s); select { *)
            let c' := cancel_at c tau in
            let dn' := done_at c' in
            let f1 := fin_of tg now dn' in
            flat_map (fun iev =>
              let tau2 := fst iev in
              match snd iev with
              | IComplete =>                               (* case err = <-d: return err *)
                  let o := mk_obs now c (seen_cancel now dn' f1) (Some f1) in
                  match err_of tg now dn' with
                  | Some code => [exit_with code f1 KTarget o acc]
                  | None => run_from d rest f1 (Some c') (tl sg) (o :: acc)
                  end
              | ICleanup =>                                (* case <-cleanupCh: "cleanup timeout exceeded" *)
                  [exit_with 1 tau2 KCleanup (mk_obs now c (seen_cancel now dn' tau2) None) acc]
              | IForce =>                                  (* case <-sigCh: "exit forced" *)
                  [exit_with 1 tau2 KForced (mk_obs now c (seen_cancel now dn' tau2) None) acc]
              end)
              (earliest (inner_events f1 (tau + cleanup_window) (hd_error (tl sg))))
        end)
        (earliest (outer_events f0 (option_map (Z.max now) dn) (hd_error sg))))
      (sig_views now sigs)
  end.

(* a whole invocation: timeout d (0 = none), the targets of the command line, the start t0 of the
   first target, the arrival times of SIGINTs (ascending, >= t0) *)
Definition run_targets (d : Z) (tgs : list target) (t0 : Z) (sigs : list Z) : list result :=
  run_from d tgs t0 None sigs [].

(* --- the declarative side used by the statements --- *)
Fixpoint total_work (tgs : list target) : Z :=
  match tgs with [] => 0 | tg :: r => work tg + total_work r end.

(* neither the deadline nor a signal interferes: the targets simply run one after the other until one
   fails; dl is what ctx.Deadline() reports to them *)
Fixpoint plain_run (dl : option Z) (tgs : list target) (now : Z) (acc : list tobs) : result :=
  match tgs with
  | [] => {| r_exit := 0; r_time := now; r_cls := KOk; r_obs := rev acc |}
  | tg :: rest =>
      let e := now + work tg in
      let o := {| ts_start := now; ts_deadline := dl; ts_cancel := None; ts_end := Some e |} in
      match rc tg with
      | Some code => {| r_exit := code; r_time := e; r_cls := KTarget; r_obs := rev (o :: acc) |}
      | None => plain_run dl rest e (o :: acc)
      end
  end.

Definition set_deadline (dl : option Z) (o : tobs) : tobs :=
  {| ts_start := ts_start o; ts_deadline := dl; ts_cancel := ts_cancel o; ts_end := ts_end o |}.
Definition with_deadline (dl : option Z) (r : result) : result :=
  {| r_exit := r_exit r; r_time := r_time r; r_cls := r_cls r; r_obs := map (set_deadline dl) (r_obs r) |}.
