(* Bridge C03 -> C05: the exit-status chain model (Model/ExitChain.v) carries its own, tree-shaped
   transcription of runDeps / SerialDeps (no schedules, no registry); the engine model (Model/Deps.v)
   is the small-step machine C01-C03 and C13 are proved about.  This file proves that the two agree on
   what a call hands to its caller: whatever the members of a call ended with in ANY reachable trace
   of the engine, ExitChain's runDeps / serialDeps applied to values that describe those results
   yields a panic carrying exactly the engine's payload status (or a normal return when the engine's
   call returned) - and ExitChain's generated main turns that into the process status.
   Definitions + proofs (nothing here is evaluated by the harness). *)
From Mage Require Import Base.Strs Model.Deps Model.ExitChain.
From Mage Require Import Proof.Deps_defs Proof.Exit_facts Proof.Deps_c03.
From Coq Require Import ZArith Lia Permutation.
Local Open Scope Z_scope.

(* [sees r b]: the ExitChain result b describes the engine result r - same way of ending (normal
   return of nil / of an error / panic) and the status runDeps would record for it *)
Definition sees (r : res) (b : bres) : Prop :=
  match r, b with
  | RNil, Returned v => v = VNil
  | RErr c _, Returned v => ExitChain.is_nil v = false /\ mg_ExitStatus v = c
  | RPanic c _, Panicked v =>
      ExitChain.is_nil v = false /\ (if is_error v then mg_ExitStatus v else 1) = c
  | _, _ => False
  end.

(* the canonical description *)
Definition to_bres (r : res) : bres :=
  match r with
  | RNil => Returned VNil
  | RErr c _ => Returned (VFatal c)
  | RPanic c _ => Panicked (VFatal c)
  end.

Lemma sees_to_bres : forall r, sees r (to_bres r).
Proof. intros [|c m|c m]; cbn; auto. Qed.

Lemma sees_not_exited : forall r b c, sees r b -> b <> Exited c.
Proof. intros r b c H E; subst b; destruct r; exact H. Qed.

Lemma first_exit_none : forall rs bs, Forall2 sees rs bs -> first_exit bs = None.
Proof.
  intros rs bs F; induction F as [|r b rs bs H _ IH]; [reflexivity|].
  cbn [first_exit]. destruct b as [v|v|c]; try exact IH. destruct r; contradiction.
Qed.

Fixpoint nfail (rs : list res) : nat :=
  match rs with [] => 0 | r :: rest => (if Deps.is_nil r then 0 else 1) + nfail rest end%nat.

Lemma dep_report_sees : forall r b a, sees r b ->
  dep_report a b = {| a_exit := changeExit (a_exit a) (status r);
                      a_nerrs := (a_nerrs a + (if Deps.is_nil r then 0 else 1))%nat |}.
Proof.
  intros r b [e n] H. destruct r as [|c m|c m]; destruct b as [v|v|x]; cbn [sees] in H; try contradiction.
  - subst v. cbn. rewrite Nat.add_0_r. reflexivity.
  - destruct H as [Hn Hc]. cbn [dep_report status Deps.is_nil a_exit a_nerrs]. rewrite Hn, Hc.
    rewrite Nat.add_1_r. reflexivity.
  - destruct H as [Hn Hc]. cbn [dep_report status Deps.is_nil a_exit a_nerrs]. rewrite Hn, Hc.
    rewrite Nat.add_1_r. reflexivity.
Qed.

Lemma fold_dep_report_sees : forall rs bs, Forall2 sees rs bs -> forall a,
  fold_left dep_report bs a =
  {| a_exit := fold_left changeExit (map status rs) (a_exit a); a_nerrs := (a_nerrs a + nfail rs)%nat |}.
Proof.
  intros rs bs F; induction F as [|r b rs bs H _ IH]; intros a.
  - cbn. rewrite Nat.add_0_r. destruct a; reflexivity.
  - cbn [fold_left map nfail]. rewrite (dep_report_sees r b a H), IH. cbn [a_exit a_nerrs].
    f_equal. lia.
Qed.

Lemma nfail_zero : forall rs, nfail rs = 0%nat <-> forallb Deps.is_nil rs = true.
Proof.
  induction rs as [|r rs IH]; cbn [nfail forallb]; [tauto|].
  destruct (Deps.is_nil r); cbn [andb]; [rewrite Nat.add_0_l; exact IH|]. split; [lia|discriminate].
Qed.

(* ExitChain's runDeps on descriptions of the engine's member results *)
Lemma runDeps_sees : forall rs bs, Forall2 sees rs bs ->
  ExitChain.runDeps bs =
  if forallb Deps.is_nil rs then Returned VNil else Panicked (VFatal (combine (map status rs))).
Proof.
  intros rs bs F. unfold ExitChain.runDeps. rewrite (first_exit_none rs bs F).
  rewrite (fold_dep_report_sees rs bs F). cbn [a_exit a_nerrs]. rewrite Nat.add_0_l.
  destruct (forallb Deps.is_nil rs) eqn:E.
  - apply nfail_zero in E. rewrite E. reflexivity.
  - destruct (nfail rs) eqn:N; [apply nfail_zero in N; congruence|]. reflexivity.
Qed.

Lemma forallb_is_nil_false : forall rs r, In r rs -> r <> RNil -> forallb Deps.is_nil rs = false.
Proof.
  intros rs r Hin Hne. destruct (forallb Deps.is_nil rs) eqn:E; [|reflexivity].
  rewrite forallb_forall in E. specialize (E r Hin). destruct r; [congruence|discriminate|discriminate].
Qed.

(* serial: the first failing member decides, the members after it are never asked *)
Lemma serialDeps_sees : forall i b rest r, sees r b -> r <> RNil ->
  ExitChain.serialDeps (repeat (Returned VNil) i ++ b :: rest) = Panicked (VFatal (combine [status r])).
Proof.
  induction i as [|i IH]; intros b rest r H Hne.
  - cbn [repeat app ExitChain.serialDeps].
    rewrite (runDeps_sees [r] [b] (Forall2_cons _ _ H (Forall2_nil _))).
    cbn [forallb]. destruct r; [congruence|reflexivity|reflexivity].
  - cbn [repeat app ExitChain.serialDeps].
    rewrite (runDeps_sees [RNil] [Returned VNil] (Forall2_cons _ _ (sees_to_bres RNil) (Forall2_nil _))).
    cbn [forallb Deps.is_nil andb]. apply IH; assumption.
Qed.

Lemma serialDeps_all_nil : forall n, ExitChain.serialDeps (repeat (Returned VNil) n) = Returned VNil.
Proof.
  induction n as [|n IH]; [reflexivity|]. cbn [repeat ExitChain.serialDeps].
  rewrite (runDeps_sees [RNil] [Returned VNil] (Forall2_cons _ _ (sees_to_bres RNil) (Forall2_nil _))).
  exact IH.
Qed.

(* ---------- what the generated main makes of it ---------- *)

Lemma handleError_sees : forall r v, r <> RNil ->
  (sees r (Returned v) \/ sees r (Panicked v)) -> handleError v = Some (status r).
Proof.
  intros r v Hne [H|H]; destruct r as [|c m|c m]; cbn [sees] in H; try contradiction; try congruence;
    destruct H as [Hn Hc]; destruct v; cbn in *; try discriminate; subst; reflexivity.
Qed.

(* a target (or the default target) whose body ended as the engine says stops the run there with
   the engine's status; a successful one lets the loop go on *)
Lemma main_status_of_engine : forall b r rest, sees r (run_body b) ->
  (r <> RNil -> halt_status (run_mentions (MRun b :: rest)) = kernel (status r) /\
                h_ran (run_mentions (MRun b :: rest)) = 1%nat) /\
  (r = RNil -> h_exit (run_mentions (MRun b :: rest)) = h_exit (run_mentions rest) /\
               h_ran (run_mentions (MRun b :: rest)) = S (h_ran (run_mentions rest))).
Proof.
  intros b r rest H. cbn [run_mentions]. split.
  - intros Hne. destruct (run_body b) as [v|v|c] eqn:E.
    + rewrite (handleError_sees r v Hne (or_introl H)). split; reflexivity.
    + rewrite (handleError_sees r v Hne (or_intror H)). split; reflexivity.
    + destruct r; contradiction.
  - intros ->. destruct (run_body b) as [v|v|c]; cbn [sees] in H; try contradiction.
    subst v. cbn [handleError]. split; reflexivity.
Qed.

(* ---------- the engine's traces ---------- *)

(* [describes tr ks ds]: the ExitChain bodies ds evaluate to descriptions of what the members ks
   ended with in the trace (a member that has not ended constrains nothing) *)
Definition describes (tr : list event) (ks : list key) (ds : list ExitChain.body) : Prop :=
  Forall2 (fun k d => forall r, In (BodyEnd k r) tr -> sees r (run_body d)) ks ds.

Lemma describes_results : forall tr ks ds rs, describes tr ks ds ->
  Forall2 (fun k rk => In (BodyEnd k rk) tr) ks rs -> Forall2 sees rs (map run_body ds).
Proof.
  intros tr ks ds rs D; revert rs. induction D as [|k d ks ds H _ IH]; intros rs F; inversion F; subst.
  - constructor.
  - cbn [map]. constructor; [apply H; assumption|apply IH; assumption].
Qed.

(* a parallel call that panics in the engine: ExitChain's mg.Deps(ds...) panics with the same status,
   and a target consisting of that call exits with it (mod 256) - for every schedule and prefix *)
Lemma par_panic_is_ExitChain : forall p s tr t pc x m c ds,
  reach true p s tr -> In (CallPanic t pc x m) tr -> nth_error (calls_of p t) pc = Some c ->
  c_style c = Par -> describes tr (c_deps c) ds ->
  run_body (BDeps false ds) = Panicked (VFatal x) /\
  forall rest, halt_status (run_mentions (MRun (BDeps false ds) :: rest)) = kernel x.
Proof.
  intros p s tr t pc x m c ds R Hp Hc Hs D.
  destruct (payload_par p s tr t pc x m c R Hp Hc Hs) as [rs [F [_ [Hx [r [Hin Hne]]]]]].
  assert (E : run_body (BDeps false ds) = Panicked (VFatal x)).
  { cbn [run_body]. rewrite (runDeps_sees rs _ (describes_results tr _ ds rs D F)).
    rewrite (forallb_is_nil_false rs r Hin Hne). rewrite Hx. reflexivity. }
  split; [exact E|]. intros rest. cbn [run_mentions]. rewrite E. reflexivity.
Qed.

Lemma Forall2_len : forall (A B : Type) (P : A -> B -> Prop) l l', Forall2 P l l' -> length l = length l'.
Proof. intros A B P l l' F; induction F as [|a b l l' _ _ IH]; [reflexivity|cbn [length]; f_equal; exact IH]. Qed.

(* a call that returns in the engine: all members succeeded, ExitChain's call returns nil *)
Lemma return_is_ExitChain : forall p s tr t pc c ds ser,
  reach true p s tr -> In (CallReturn t pc) tr -> nth_error (calls_of p t) pc = Some c ->
  describes tr (c_deps c) ds -> run_body (BDeps ser ds) = Returned VNil.
Proof.
  intros p s tr t pc c ds ser R Hr Hc D.
  assert (F : Forall2 (fun k rk => In (BodyEnd k rk) tr) (c_deps c) (repeat RNil (length (c_deps c)))).
  { assert (G : forall ks, (forall k, In k ks -> In (BodyEnd k RNil) tr) ->
                 Forall2 (fun k rk => In (BodyEnd k rk) tr) ks (repeat RNil (length ks))).
    { induction ks as [|k ks IH]; intros Hk; [constructor|]. cbn [length repeat].
      constructor; [apply Hk; left; reflexivity|apply IH; intros k' Hk'; apply Hk; right; exact Hk']. }
    apply G. intros k Hk. exact (returns_only_on_success p s tr t pc c k R Hr Hc Hk). }
  pose proof (describes_results tr _ ds _ D F) as S.
  assert (M : map run_body ds = repeat (Returned VNil) (length (c_deps c))).
  { clear -S. remember (repeat RNil (length (c_deps c))) as rs eqn:Ers.
    assert (L : length (map run_body ds) = length (c_deps c)).
    { rewrite <- (Forall2_len _ _ _ _ _ S), Ers. apply repeat_length. }
    rewrite <- L. clear L. revert Ers. generalize (length (c_deps c)) as n.
    induction S as [|r b rs bs H _ IH]; intros n Ers; [reflexivity|].
    destruct n as [|n]; [discriminate|]. cbn [repeat] in Ers. injection Ers as -> Ers.
    destruct b as [v|v|x]; cbn [sees] in H; try contradiction. subst v.
    cbn [length repeat]. f_equal. exact (IH n Ers). }
  cbn [run_body]. rewrite M. destruct ser.
  - apply serialDeps_all_nil.
  - rewrite (runDeps_sees (repeat RNil (length (c_deps c))) _
               (eq_ind_r (fun l => Forall2 sees _ l) S (eq_sym M))).
    assert (A : forallb Deps.is_nil (repeat RNil (length (c_deps c))) = true).
    { generalize (length (c_deps c)) as n. induction n as [|n IH]; [reflexivity|exact IH]. }
    rewrite A. reflexivity.
Qed.

(* a serial call that panics in the engine: the members before the failing one succeeded, the
   failing one's status is the payload, ExitChain's mg.SerialDeps(ds...) panics with it whatever
   stands behind the failing member *)
Lemma ser_panic_is_ExitChain : forall p s tr t pc x m c ds,
  reach true p s tr -> In (CallPanic t pc x m) tr -> nth_error (calls_of p t) pc = Some c ->
  c_style c = Ser -> describes tr (c_deps c) ds ->
  run_body (BDeps true ds) = Panicked (VFatal x) /\
  forall rest, halt_status (run_mentions (MRun (BDeps true ds) :: rest)) = kernel x.
Proof.
  intros p s tr t pc x m c ds R Hp Hc Hs D.
  destruct (payload_ser p s tr t pc x m c R Hp Hc Hs) as [i [k [r [Hk [He [Hne [_ [Hx Hbefore]]]]]]]].
  assert (E : run_body (BDeps true ds) = Panicked (VFatal x)).
  { cbn [run_body]. unfold describes in D. revert i Hk Hbefore.
    induction D as [|k0 d ks ds0 H _ IH]; intros i Hk Hbefore; [destruct i; discriminate|].
    destruct i as [|i].
    - cbn [nth_error] in Hk. injection Hk as ->. cbn [map].
      rewrite Hx. apply (serialDeps_sees 0 (run_body d) (map run_body ds0) r (H r He) Hne).
    - cbn [nth_error] in Hk. cbn [map ExitChain.serialDeps].
      assert (N : In (BodyEnd k0 RNil) tr) by (apply (Hbefore 0%nat k0); [lia|reflexivity]).
      pose proof (H RNil N) as S0. destruct (run_body d) as [v|v|y]; cbn [sees] in S0; try contradiction.
      subst v.
      rewrite (runDeps_sees [RNil] [Returned VNil] (Forall2_cons _ _ (sees_to_bres RNil) (Forall2_nil _))).
      cbn [forallb Deps.is_nil andb]. apply (IH i Hk).
      intros i' k' Hlt Hn. apply (Hbefore (S i') k'); [lia|exact Hn]. }
  split; [exact E|]. intros rest. cbn [run_mentions]. rewrite E. reflexivity.
Qed.

(* ---------- non-vacuity: Deps_c03's witness program (node 0 fails with status 1, node 1 depends on
   it, the root asks for node 1) against the ExitChain target  mg.Deps(func(){ mg.Deps(bad) })  ---------- *)
Definition ec_bad : ExitChain.body := BErr.
Definition ec_mid : ExitChain.body := BDeps false [ec_bad].

Lemma bridge_c03_c05_nonvacuous :
  exists p acts s tr, run true p (init p) acts = Some (s, tr) /\
    In (CallPanic (TRoot 0) 0 1 [0%nat]) tr /\
    describes tr [1%nat] [ec_mid] /\
    halt_status (run_mentions [MRun (BDeps false [ec_mid])]) = 1.
Proof.
  exists w_prog, w_sched.
  destruct (run true w_prog (init w_prog) w_sched) as [[s tr]|] eqn:E; [|vm_compute in E; discriminate].
  exists s, tr. split; [reflexivity|].
  vm_compute in E. injection E as _ <-.
  split; [cbn; tauto|]. split; [|vm_compute; reflexivity].
  unfold describes. constructor; [|constructor].
  intros r Hin. cbn in Hin.
  repeat (destruct Hin as [Hin|Hin]; [try discriminate; try (injection Hin as <-; cbn; auto)|]); try contradiction.
Qed.
