(* Bridge C04 -> C05.
   Model/ExitChain.v (C05) takes as INPUT, per command line, the list of mentions: which mention is an unknown
   target / lacks arguments / has an unconvertible argument / runs a body that does b.  Model/Dispatch.v (C04)
   models exactly the code that decides it: the generated loop over the word list (template.go:415-491 with
   parse.ExecCode).  This file defines the translation - [segment]: word list -> mention list, a re-run of
   Dispatch's own cursor arithmetic that keeps every mention and goes on past a failed body (as the C05 harness
   describes the whole line) - and [prog_of]: template data + word list -> ExitChain.cprog, and proves that the
   two models agree: same started bodies in the same order, and the process status ExitChain assigns is a function
   of Dispatch's result.

   The only shared parameter is what a body does: [outcome d vs : ExitChain.body] for declaration d called with
   the values vs.  Dispatch's parameter [fails] is DEFINED from it through ExitChain's own handleError
   ([fails_of]: the generated main stops after this body), so nothing is assumed about their agreement.
   Dispatch's modules are referred to by qualified names (both models have types called value / mention). *)
From Mage Require Import Base.Strs.
From Mage Require Model.Dispatch Model.DispatchSpec Proof.Dispatch_facts.
From Mage Require Import Model.Deps Model.ExitChain Proof.Deps_defs Proof.ExitChain_facts.
From Coq Require Import ZArith Lia.
Local Open Scope Z_scope.

Module D := Mage.Model.Dispatch.
Module DS := Mage.Model.DispatchSpec.
Module DF := Mage.Proof.Dispatch_facts.

(* ================================================================== C05 side: when the loop stops after a body *)

(* Some n: the generated main ends with os.Exit(n) after (or inside) this body; None: it goes on *)
Definition stop_code (b : body) : option Z :=
  match run_body b with
  | Exited c => Some c
  | Returned v | Panicked v => handleError v
  end.

(* the bodies run_mentions starts, in order *)
Fixpoint started (ms : list mention) : list body :=
  match ms with
  | MRun b :: r => b :: match stop_code b with Some _ => [] | None => started r end
  | _ => []
  end.

Lemma rm_cons_stop : forall b n rest, stop_code b = Some n ->
  h_exit (run_mentions (MRun b :: rest)) = Some n /\ h_ran (run_mentions (MRun b :: rest)) = 1%nat.
Proof.
  intros b n rest H. unfold stop_code in H. simpl. destruct (run_body b) as [v|v|c].
  - rewrite H. split; reflexivity.
  - rewrite H. split; reflexivity.
  - inversion H; subst. split; reflexivity.
Qed.

Lemma rm_cons_go : forall b rest, stop_code b = None ->
  h_exit (run_mentions (MRun b :: rest)) = h_exit (run_mentions rest) /\
  h_ran (run_mentions (MRun b :: rest)) = S (h_ran (run_mentions rest)).
Proof.
  intros b rest H. unfold stop_code in H. simpl. destruct (run_body b) as [v|v|c]; try discriminate;
    rewrite H; split; reflexivity.
Qed.

Lemma started_ran : forall ms, h_ran (run_mentions ms) = length (started ms).
Proof.
  induction ms as [|m ms IH]; [reflexivity|]. destruct m as [b| | |]; try reflexivity.
  simpl started. destruct (stop_code b) as [n|] eqn:E.
  - destruct (rm_cons_stop b n ms E) as [_ H]. rewrite H. reflexivity.
  - destruct (rm_cons_go b ms E) as [_ H]. rewrite H, IH. reflexivity.
Qed.

(* a prefix of bodies after which the loop goes on *)
Lemma rm_prefix : forall bs rest, Forall (fun b => stop_code b = None) bs ->
  h_exit (run_mentions (map MRun bs ++ rest)) = h_exit (run_mentions rest) /\
  h_ran (run_mentions (map MRun bs ++ rest)) = (length bs + h_ran (run_mentions rest))%nat /\
  started (map MRun bs ++ rest) = bs ++ started rest.
Proof.
  induction bs as [|b bs IH]; intros rest H; [repeat split; reflexivity|].
  inversion H as [|? ? Hb Hr]; subst. destruct (IH rest Hr) as [I1 [I2 I3]].
  destruct (rm_cons_go b (map MRun bs ++ rest) Hb) as [G1 G2].
  change (map MRun (b :: bs) ++ rest) with (MRun b :: (map MRun bs ++ rest)).
  rewrite G1, G2, I1, I2. split; [reflexivity|]. split; [simpl; lia|].
  simpl started. rewrite Hb, I3. reflexivity.
Qed.

(* under the property's quantifier the stop code is the status carried by the failure *)
Lemma stop_code_status : forall b, wf_body b ->
  (completes b /\ stop_code b = None) \/ (~ completes b /\ stop_code b = Some (status b) /\ code_ok (status b)).
Proof.
  intros b H. unfold stop_code.
  destruct (target_step b H) as [[Hc [v [Hr Hh]]]|[Hc [Hcode [[v [[Hr|Hr] Hh]]|Hr]]]]; rewrite Hr; auto.
Qed.

(* ================================================================== the translation *)
Section Bridge.
Variable conv : D.argty -> string -> option string.
Variable outcome : nat -> list D.value -> body.       (* what the body of declaration d does when called with vs *)
Variable i : D.info.

Definition body_of (c : D.callrec) : body := outcome (D.cdef c) (D.cvals c).
Definition mrun (c : D.callrec) : mention := MRun (body_of c).

(* Dispatch's [fails]: handleError (or the body itself) ends the process after this call *)
Definition fails_of (d : nat) (vs : list D.value) : bool :=
  match stop_code (outcome d vs) with Some _ => true | None => false end.

Definition misuse_of (r : D.reason) : mention :=
  match r with D.Unknown => MUnknown | D.Missing => MMissing | D.BadArg _ => MBadArg end.

(* the mention list of a word list: Dispatch.loop's own cursor arithmetic (same lookups, same arity test, same
   parse_args), one mention per iteration; it does not stop at a failing body - the mentions after it are what
   the harness would still describe and what C05_first_failure_decides calls [post] *)
Fixpoint segment (args : list string) (fuel x : nat) : list mention :=
  if (length args <=? x)%nat then [] else
  match fuel with
  | O => []
  | S fuel' =>
      let target := nth x args "" in
      let x := S x in
      let target := D.alias_switch (D.aliases i) (D.lower target) target in
      match D.target_switch (D.switch_cases i) (D.lower target) with
      | None => [MUnknown]
      | Some t =>
          let expected := (x + length (D.targs t))%nat in
          if (length args <? expected)%nat then [MMissing]
          else
            match D.parse_args conv args (D.targs t) x with
            | (inl ty, _) => [MBadArg]
            | (inr vs, x') => MRun (outcome (D.tdef t) vs) :: segment args fuel' x'
            end
      end
  end.

Definition mentions_of (words : list string) : list mention := segment words (length words) 0.

(* the compiled program ExitChain sees for this template data, MAGEFILE_IGNOREDEFAULT value and word list
   (flags parsed, no -l / -h, the listing can be written) *)
Definition prog_of (env : string) (words : list string) : cprog :=
  {| cp_flags := FlagsOk; cp_list := false; cp_help := false; cp_list_err := false;
     cp_default := match D.default i with
                   | None => NoDefault
                   | Some d => match D.targs d with [] => DefaultBody (outcome (D.tdef d) []) | _ :: _ => DefaultArgs end
                   end;
     cp_ignore_default := D.ignore_default conv env;
     cp_mentions := mentions_of words |}.

(* the process status as a function of Dispatch's result *)
Definition last_stop (cs : list D.callrec) : Z :=
  match stop_code (body_of (last cs (D.mkcall {| D.tname := ""; D.targs := []; D.tdef := 0 |} []))) with
  | Some n => n
  | None => 0
  end.
Definition status_of_result (r : list D.callrec * D.exit) : Z :=
  match snd r with
  | D.Done | D.Listed => 0
  | D.Exit2 _ => 2
  | D.Failed => kernel (last_stop (fst r))
  | D.OutOfFuel => 0            (* never produced: C04_never_out_of_fuel *)
  end.

Notation loop := (D.loop conv fails_of i).
Notation dispatch := (D.dispatch conv fails_of i).

(* how the mention list relates to Dispatch's (calls, exit) *)
Definition shape (cs : list D.callrec) (e : D.exit) (ms : list mention) : Prop :=
  match e with
  | D.Done => Forall (fun c => stop_code (body_of c) = None) cs /\ ms = map mrun cs
  | D.Exit2 r => Forall (fun c => stop_code (body_of c) = None) cs /\ ms = map mrun cs ++ [misuse_of r]
  | D.Failed => exists pre c post n, cs = pre ++ [c] /\ Forall (fun c => stop_code (body_of c) = None) pre /\
                                     stop_code (body_of c) = Some n /\ ms = map mrun pre ++ mrun c :: post
  | D.Listed => False
  | D.OutOfFuel => True
  end.

Lemma shape_cons : forall c cs e ms, stop_code (body_of c) = None -> shape cs e ms -> shape (c :: cs) e (mrun c :: ms).
Proof.
  intros c cs e ms Hc H. destruct e; simpl in *; auto.
  - destruct H as [H1 H2]. split; [constructor; auto|subst; reflexivity].
  - destruct H as [H1 H2]. split; [constructor; auto|subst; reflexivity].
  - destruct H as [pre [c' [post [n [E [F [S M]]]]]]]. exists (c :: pre), c', post, n. subst.
    repeat split; auto.
Qed.

Lemma loop_segment : forall fuel args x, shape (fst (loop args fuel x)) (snd (loop args fuel x)) (segment args fuel x).
Proof.
  induction fuel as [|fuel IH]; intros args x.
  - rewrite DF.loop_0. simpl. destruct (length args <=? x)%nat; simpl; auto.
  - rewrite DF.loop_S. cbn [segment].
    destruct (length args <=? x)%nat; [simpl; auto|].
    destruct (D.target_switch (D.switch_cases i)
                (D.lower (D.alias_switch (D.aliases i) (D.lower (nth x args "")) (nth x args "")))) as [t|];
      [|simpl; auto].
    destruct (length args <? S x + length (D.targs t))%nat; [simpl; auto|].
    destruct (D.parse_args conv args (D.targs t) (S x)) as [[ty|vs] x']; [simpl; auto|].
    destruct (fails_of (D.tdef t) vs) eqn:F; unfold fails_of in F;
      destruct (stop_code (outcome (D.tdef t) vs)) as [n|] eqn:E; try discriminate.
    + simpl. exists [], (D.mkcall t vs), (segment args fuel x'), n. repeat split; auto.
    + specialize (IH args x'). destruct (loop args fuel x') as [cs e]. cbn [fst snd] in *.
      change (MRun (outcome (D.tdef t) vs)) with (mrun (D.mkcall t vs)).
      apply shape_cons; auto.
Qed.

Lemma segment_nonempty : forall words, words <> [] -> mentions_of words <> [].
Proof.
  intros [|w ws] H; [congruence|]. unfold mentions_of. cbn [segment length].
  change (S (length ws) <=? 0)%nat with false. cbv iota.
  destruct (D.target_switch _ _) as [t|]; [|discriminate].
  destruct (_ <? _)%nat; [discriminate|].
  destruct (D.parse_args conv (w :: ws) (D.targs t) 1) as [[ty|vs] x']; discriminate.
Qed.

(* what ExitChain's loop does on a list of that shape *)
Lemma shape_run : forall cs e ms, shape cs e ms -> e <> D.OutOfFuel ->
  started ms = map body_of cs /\
  h_ran (run_mentions ms) = length cs /\
  halt_status (run_mentions ms) = status_of_result (cs, e).
Proof.
  intros cs e ms H Hf. unfold halt_status, status_of_result. cbn [fst snd].
  destruct e; simpl in H; try contradiction; try congruence.
  - (* Done *)
    destruct H as [F ->].
    assert (F' : Forall (fun b => stop_code b = None) (map body_of cs)) by (apply Forall_map; exact F).
    destruct (rm_prefix (map body_of cs) [] F') as [R1 [R2 R3]].
    rewrite map_map in R1, R2, R3. change (fun x => MRun (body_of x)) with mrun in *.
    simpl in R1, R2, R3. rewrite !app_nil_r in R1, R2, R3. rewrite R1, R2, R3, map_length.
    split; [apply app_nil_r|]. split; [lia|reflexivity].
  - (* Exit2 *)
    destruct H as [F ->].
    assert (F' : Forall (fun b => stop_code b = None) (map body_of cs)) by (apply Forall_map; exact F).
    destruct (rm_prefix (map body_of cs) [misuse_of r] F') as [R1 [R2 R3]].
    rewrite map_map in R1, R2, R3. change (fun x => MRun (body_of x)) with mrun in *.
    rewrite R1, R2, R3, map_length. destruct r; simpl; rewrite app_nil_r; repeat split; auto; lia.
  - (* Failed *)
    destruct H as [pre [c [post [n [-> [F [S ->]]]]]]].
    assert (F' : Forall (fun b => stop_code b = None) (map body_of pre)) by (apply Forall_map; exact F).
    destruct (rm_prefix (map body_of pre) (mrun c :: post) F') as [R1 [R2 R3]].
    rewrite map_map in R1, R2, R3. change (fun x => MRun (body_of x)) with mrun in *.
    destruct (rm_cons_stop (body_of c) n post S) as [C1 C2]. fold (mrun c) in C1, C2.
    rewrite R1, R2, R3, C1, C2, map_length, map_app, app_length. simpl started. rewrite S.
    unfold last_stop. rewrite last_last, S. simpl. repeat split; auto.
Qed.

(* ---------------------------------------------------------------- (1) the mentions are Dispatch's segmentation *)
Lemma mentions_are_dispatch : forall env words, words <> [] ->
  shape (fst (dispatch env words)) (snd (dispatch env words)) (mentions_of words) /\
  started (mentions_of words) = map body_of (fst (dispatch env words)) /\
  h_ran (run_mentions (mentions_of words)) = length (fst (dispatch env words)).
Proof.
  intros env words H. rewrite (DF.dispatch_nonempty conv fails_of i env words H).
  pose proof (loop_segment (length words) words 0) as S. split; [exact S|].
  assert (Hf : snd (loop words (length words) 0) <> D.OutOfFuel) by (apply DF.loop_fuel_enough; lia).
  destruct (shape_run _ _ _ S Hf) as [A [B _]]. split; assumption.
Qed.

Lemma mentions_are_Seg : forall words cs e, DS.no_collision i -> words <> [] -> DS.Seg conv fails_of i words cs e ->
  shape cs e (mentions_of words) /\ started (mentions_of words) = map body_of cs.
Proof.
  intros words cs e NC H S.
  pose proof (DF.dispatch_unique conv fails_of i "" words cs e NC H S) as U.
  destruct (mentions_are_dispatch "" words H) as [A [B _]]. rewrite U in A, B. split; assumption.
Qed.

(* ---------------------------------------------------------------- (2) the status is a function of Dispatch's result *)
Lemma status_of_dispatch : forall fixed env words,
  compiled_exit fixed (prog_of env words) = status_of_result (dispatch env words) /\
  h_ran (compiled_main fixed (prog_of env words)) = length (fst (dispatch env words)).
Proof.
  intros fixed env [|w ws].
  - (* no words: default target / listing *)
    unfold compiled_exit, compiled_main, compiled_main_gen, prog_of, mentions_of, D.dispatch, status_of_result, list_or_die.
    cbn [segment length cp_flags cp_help cp_list cp_mentions cp_default cp_ignore_default cp_list_err Nat.leb Nat.ltb andb].
    destruct (D.default i) as [d|]; [|split; reflexivity].
    destruct (D.ignore_default conv env); [destruct (D.targs d); split; reflexivity|].
    destruct (D.targs d) as [|ty tys]; [|split; reflexivity].
    unfold fails_of. cbn [fst snd].
    destruct (stop_code (outcome (D.tdef d) [])) as [n|] eqn:E.
    + destruct (rm_cons_stop _ n [] E) as [C1 C2]. unfold halt_status. rewrite C1, C2. cbn [fst snd].
      unfold last_stop. simpl last. unfold body_of. simpl. rewrite E. split; reflexivity.
    + destruct (rm_cons_go _ [] E) as [C1 C2]. unfold halt_status. rewrite C1, C2. split; reflexivity.
  - assert (H : w :: ws <> []) by discriminate.
    pose proof (segment_nonempty (w :: ws) H) as NE.
    assert (EQ : compiled_main fixed (prog_of env (w :: ws)) = run_mentions (mentions_of (w :: ws))).
    { unfold compiled_main, compiled_main_gen, prog_of. cbn [cp_flags cp_help cp_list cp_mentions andb].
      destruct (mentions_of (w :: ws)); [congruence|reflexivity]. }
    unfold compiled_exit. rewrite EQ.
    destruct (mentions_are_dispatch env (w :: ws) H) as [S [_ R]].
    assert (Hf : snd (dispatch env (w :: ws)) <> D.OutOfFuel) by apply DF.never_out_of_fuel.
    destruct (shape_run _ _ _ S Hf) as [_ [_ ST]].
    split; [|exact R]. rewrite ST. destruct (dispatch env (w :: ws)); reflexivity.
Qed.

(* with the property's guard on codes the status of a Failed run is the status carried by the failing body *)
Lemma failed_last_stops : forall env words pre c, dispatch env words = (pre ++ [c], D.Failed) ->
  stop_code (body_of c) <> None.
Proof.
  intros env [|w ws] pre c H.
  - unfold D.dispatch in H. cbn [length Nat.ltb Nat.leb] in H. destruct (D.default i) as [d|]; [|discriminate].
    destruct (D.ignore_default conv env); [discriminate|]. destruct (D.targs d); [|discriminate].
    unfold fails_of in H. destruct (stop_code (outcome (D.tdef d) [])) eqn:E; [|discriminate].
    inversion H as [[H1]]. destruct pre as [|p pre]; [|destruct pre; discriminate].
    simpl in H1. inversion H1; subst c. unfold body_of. simpl. congruence.
  - destruct (mentions_are_dispatch env (w :: ws)) as [Sh _]; [discriminate|]. rewrite H in Sh. simpl in Sh.
    destruct Sh as [pre' [c' [post [n [Ecs [_ [Sc _]]]]]]]. apply app_inj_tail in Ecs. destruct Ecs as [_ <-]. congruence.
Qed.

Lemma failed_status_carried : forall fixed env words pre c, dispatch env words = (pre ++ [c], D.Failed) ->
  wf_body (body_of c) ->
  compiled_exit fixed (prog_of env words) = status (body_of c) /\ code_ok (status (body_of c)).
Proof.
  intros fixed env words pre c H W.
  destruct (status_of_dispatch fixed env words) as [E _]. rewrite E, H. unfold status_of_result, last_stop. cbn [fst snd].
  rewrite last_last.
  pose proof (failed_last_stops env words pre c H) as S.
  destruct (stop_code_status _ W) as [[_ N]|[_ [Sm C]]]; [congruence|]. rewrite Sm. split; [apply kernel_code; exact C|exact C].
Qed.

(* through the front end: C05_front_end_transparent *)
Lemma status_through_mage : forall fixed env words sc, sc_prog sc = prog_of env words -> runs_program sc ->
  mage_status fixed sc = status_of_result (dispatch env words).
Proof.
  intros fixed env words sc Hp Hr. rewrite (transparent fixed sc Hr), Hp. apply status_of_dispatch.
Qed.

(* ---------------------------------------------------------------- (3) nothing after a failed target runs *)
Lemma nothing_after_failure_both : forall fixed env ms cs w args tail t vs n,
  DS.no_collision i -> Forall2 (DS.good conv fails_of i) ms cs ->
  DS.resolves i w t -> DS.converts conv (D.targs t) args vs -> stop_code (outcome (D.tdef t) vs) = Some n ->
  let words := DS.flatten ms ++ w :: args ++ tail in
  dispatch env words = (cs ++ [D.mkcall t vs], D.Failed) /\
  started (mentions_of words) = map body_of cs ++ [outcome (D.tdef t) vs] /\
  h_ran (compiled_main fixed (prog_of env words)) = S (length cs) /\
  compiled_exit fixed (prog_of env words) = kernel n /\
  (wf_body (outcome (D.tdef t) vs) -> n = status (outcome (D.tdef t) vs) /\ code_ok n /\ kernel n = n).
Proof.
  intros fixed env ms cs w args tail t vs n NC G R C S words.
  assert (F : fails_of (D.tdef t) vs = true) by (unfold fails_of; rewrite S; reflexivity).
  pose proof (DF.nothing_after_failure conv fails_of i env ms cs w args tail t vs NC G R C F) as DSP.
  fold words in DSP.
  assert (NE : words <> []) by (unfold words; destruct (DS.flatten ms); discriminate).
  destruct (mentions_are_dispatch env words NE) as [_ [St _]].
  destruct (status_of_dispatch fixed env words) as [E Rn].
  rewrite DSP in St, E, Rn. cbn [fst snd] in *.
  split; [exact DSP|]. split; [rewrite St, map_app; reflexivity|]. split; [rewrite Rn, app_length; simpl; lia|].
  split.
  - rewrite E. unfold status_of_result, last_stop. cbn [fst snd]. rewrite last_last. unfold body_of. simpl. rewrite S. reflexivity.
  - intros W. destruct (stop_code_status _ W) as [[_ N]|[_ [Sm Cd]]]; [congruence|].
    assert (n = status (outcome (D.tdef t) vs)) by congruence. subst n. split; [reflexivity|]. split; [exact Cd|apply kernel_code; exact Cd].
Qed.

(* what [status_of_result] is *)
Lemma status_of_result_cases : forall cs c,
  status_of_result (cs, D.Done) = 0 /\ status_of_result (cs, D.Listed) = 0 /\
  (forall r, status_of_result (cs, D.Exit2 r) = 2) /\
  status_of_result (cs ++ [c], D.Failed) = kernel (match stop_code (body_of c) with Some n => n | None => 0 end).
Proof.
  intros cs c. repeat split. unfold status_of_result, last_stop. cbn [fst snd]. rewrite last_last. reflexivity.
Qed.

Lemma fails_is_not_completes : forall d vs, wf_body (outcome d vs) ->
  (fails_of d vs = false <-> completes (outcome d vs)).
Proof.
  intros d vs W. unfold fails_of. destruct (stop_code_status _ W) as [[C N]|[C [S _]]].
  - rewrite N. tauto.
  - rewrite S. split; [discriminate|contradiction].
Qed.

End Bridge.
