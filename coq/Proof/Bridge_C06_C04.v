(* Bridge C06 -> C04: what C04's template data [targs] really is.
   C06's model (Model/Classify.v) collects, for a declaration d, a Function record f; C04's model
   (Model/Dispatch.v) runs the generated dispatcher over template targets (tname, targs, tdef).
   Here: the translation of the one into the other, and the facts that tie C04's "declaration
   order" to the DECLARATION (the abstract fdecl), not to template data.
   C = Model/Classify, CF = Proof/Classify_facts, D = Model/Dispatch, DS = Model/DispatchSpec. *)
From Mage Require Import Base.Strs.
From Mage Require Model.Classify Proof.Classify_facts Model.Dispatch Model.DispatchSpec Proof.Dispatch_facts.
Module C := Classify.
Module CF := Classify_facts.
Module D := Dispatch.
Module DS := DispatchSpec.

(* ------------------------------------------------------------------ the translation *)
Definition argty_of (a : C.aty) : D.argty :=
  match a with C.AString => D.TString | C.AInt => D.TInt | C.ABool => D.TBool | C.ADur => D.TDur end.
(* the declared (textual) type a dispatcher type stands for *)
Definition pty_back (t : D.argty) : C.pty :=
  match t with D.TString => C.TString | D.TInt => C.TInt | D.TBool => C.TBool | D.TDur => C.TDur end.

(* the types of the parameters of d after the optional leading context, one per declared NAME of a
   group, one for an unnamed group, in declaration order *)
Definition nonctx_types (d : C.fdecl) : list C.pty :=
  filter (fun t => negb (CF.is_ctx t)) (CF.flat_params (C.params d)).
(* the name the declaration is addressed by: Receiver:Name or Name *)
Definition decl_name (d : C.fdecl) : string :=
  match C.recv d with Some (tn, _) => (tn ++ ":" ++ C.fname d)%string | None => C.fname d end.

Section Bridge.
Variable def_of : C.function -> nat.        (* the harness' identifier of the declaration (D.tdef); arbitrary *)

Definition target_of (f : C.function) : D.target :=
  {| D.tname := C.targetName f; D.targs := map (fun x => argty_of (snd x)) (C.f_args f); D.tdef := def_of f |}.

(* the data the template is instantiated with for a package without mage:import *)
Definition info_of (pk : C.pkg) : D.info :=
  {| D.funcs := map target_of (C.funcs pk);
     D.imports := [];
     D.aliases := match C.setAliases pk with
                  | C.AList l => map (fun kf => (fst kf, C.targetName (snd kf))) l
                  | C.APanic => []
                  end;
     D.default := match C.setDefault pk with C.DSome f => Some (target_of f) | _ => None end |}.

(* ------------------------------------------------------------------ the two ASCII ToLower agree *)
Lemma lower_agrees : forall s, D.lower s = C.lower s.
Proof. induction s as [|c s IH]; simpl; [reflexivity|]. now rewrite IH. Qed.

(* ------------------------------------------------------------------ (1) targs are the declared types *)
Lemma pty_back_argty_of : forall a, pty_back (argty_of a) = CF.pty_of a.
Proof. intros []; reflexivity. Qed.

Lemma targs_are_declared : forall pk d f, In (d, f) (C.targets pk) ->
  map pty_back (D.targs (target_of f)) = nonctx_types d.
Proof.
  intros pk d f H. destruct (CF.target_inv _ _ _ H) as (f0 & r & F & -> & _).
  unfold nonctx_types. rewrite (CF.target_params _ _ F), filter_app, CF.filter_nonctx_pty_of.
  simpl. rewrite map_map.
  replace (filter (fun t => negb (CF.is_ctx t)) (if C.f_isctx f0 then [C.TCtx] else [])) with (@nil C.pty)
    by (destruct (C.f_isctx f0); reflexivity).
  simpl. apply map_ext. intros [n a]. apply pty_back_argty_of.
Qed.

Lemma nonempty_exported : forall s, C.exported s = true -> C.nonempty s = true.
Proof. intros [|c s]; [discriminate|reflexivity]. Qed.

Lemma tname_is_decl_name : forall pk d f, In (d, f) (C.targets pk) -> D.tname (target_of f) = decl_name d.
Proof.
  intros pk d f H.
  assert (V : CF.valid_sig pk d).
  { apply CF.exact; [|exists f; exact H].
    unfold C.targets, C.targets_ in H. apply in_app_or in H. destruct H as [H|H].
    - apply CF.in_setNamespaces in H. destruct H as (t & _ & _ & Hd & _).
      unfold C.doc_methods in Hd. apply filter_In in Hd. tauto.
    - apply CF.in_setFuncs in H. destruct H as (Hd & _).
      unfold C.doc_funcs in Hd. apply filter_In in Hd. tauto. }
  destruct V as (E & _).
  destruct (CF.target_inv _ _ _ H) as (f0 & r & F & -> & Hr).
  unfold target_of, decl_name, C.targetName. simpl.
  destruct Hr as [[-> ->]|(ptr & -> & Er)]; simpl.
  - rewrite (nonempty_exported _ E). reflexivity.
  - rewrite (nonempty_exported _ Er), (nonempty_exported _ E). reflexivity.
Qed.

Theorem gives_dispatch_args : forall pk d, In d (C.decls pk) -> CF.valid_sig pk d ->
  exists f, In (d, f) (C.targets pk) /\
    D.tname (target_of f) = decl_name d /\
    map pty_back (D.targs (target_of f)) = nonctx_types d /\
    List.length (D.targs (target_of f)) = List.length (nonctx_types d) /\
    (forall k ty, nth_error (D.targs (target_of f)) k = Some ty -> nth_error (nonctx_types d) k = Some (pty_back ty)).
Proof.
  intros pk d Hin V. destruct (proj2 (CF.exact pk d Hin) V) as [f H]. exists f.
  pose proof (targs_are_declared _ _ _ H) as T.
  split; [exact H|]. split; [now apply (tname_is_decl_name pk)|]. split; [exact T|]. split.
  - rewrite <- T. now rewrite map_length.
  - intros k ty N. rewrite <- T. rewrite nth_error_map, N. reflexivity.
Qed.

(* and conversely: every declared non-context parameter type is the image of the targs entry at its position *)
Lemma declared_type_has_targ : forall pk d f k pt, In (d, f) (C.targets pk) ->
  nth_error (nonctx_types d) k = Some pt ->
  exists ty, nth_error (D.targs (target_of f)) k = Some ty /\ pty_back ty = pt.
Proof.
  intros pk d f k pt H N. rewrite <- (targs_are_declared _ _ _ H), nth_error_map in N.
  destruct (nth_error (D.targs (target_of f)) k) as [ty|]; [|discriminate].
  simpl in N. inversion N. eauto.
Qed.

(* ------------------------------------------------------------------ (2) composed with C04 *)
Section Run.
Variable conv : D.argty -> string -> option string.
Variable fails : nat -> list D.value -> bool.
Variable env : string.

(* for ANY template data i that contains the target (also data with imports, C07's info_of ...) *)
Theorem words_converted_by_declaration : forall (i : D.info) pk d f w args rest,
  In (d, f) (C.targets pk) ->
  DS.no_collision i -> DS.resolves i w (target_of f) ->
  List.length args = List.length (nonctx_types d) ->
  (forall k ty a, nth_error (nonctx_types d) k = Some (pty_back ty) -> nth_error args k = Some a -> D.convert conv ty a <> None) ->
  exists vs cs e,
    D.dispatch conv fails i env (w :: args ++ rest) = (D.mkcall (target_of f) vs :: cs, e) /\
    List.length vs = List.length (nonctx_types d) /\
    (forall k ty a, nth_error (nonctx_types d) k = Some (pty_back ty) -> nth_error args k = Some a ->
                    nth_error vs k = D.convert conv ty a) /\
    (forall k a, nth_error (nonctx_types d) k = Some C.TString -> nth_error args k = Some a ->
                 nth_error vs k = Some (D.VStr a)).
Proof.
  intros i pk d f w args rest H NC R L Cv.
  pose proof (targs_are_declared _ _ _ H) as T.
  assert (LT : List.length (D.targs (target_of f)) = List.length (nonctx_types d))
    by (rewrite <- T; now rewrite map_length).
  assert (FW : forall k ty, nth_error (D.targs (target_of f)) k = Some ty -> nth_error (nonctx_types d) k = Some (pty_back ty))
    by (intros k ty N; rewrite <- T, nth_error_map, N; reflexivity).
  assert (BW : forall k ty, nth_error (nonctx_types d) k = Some (pty_back ty) -> nth_error (D.targs (target_of f)) k = Some ty).
  { intros k ty N. destruct (declared_type_has_targ _ _ _ _ _ H N) as (ty' & N' & E).
    rewrite N'. f_equal. destruct ty, ty'; simpl in E; congruence. }
  destruct (Dispatch_facts.args_in_declaration_order conv fails i env w args rest (target_of f) NC R)
    as (vs & cs & e & Dsp & Lv & P & S).
  - unfold DS.arity. now rewrite LT.
  - intros k ty a N A. apply (Cv k ty a); [now apply FW|exact A].
  - exists vs, cs, e. split; [exact Dsp|]. split; [unfold DS.arity in Lv; now rewrite Lv|]. split.
    + intros k ty a N A. apply P; [now apply BW|exact A].
    + intros k a N A. apply S; [now apply (BW k D.TString)|exact A].
Qed.

(* ------------------------------------------------------------------ (3) the listed name resolves *)
Theorem listed_name_resolves : forall pk d f, In (d, f) (C.targets pk) ->
  DS.resolves (info_of pk) (C.lowerFirst (C.targetName f)) (target_of f).
Proof.
  intros pk d f H. split.
  - unfold DS.targets, info_of. simpl. rewrite app_nil_r. apply in_map.
    unfold C.funcs. change f with (snd (d, f)). now apply in_map.
  - left. rewrite !lower_agrees. simpl. symmetry. apply CF.lowerFirst_lower.
Qed.

(* an alias key declared for the target resolves to it too *)
Theorem alias_resolves : forall pk d f l k g, In (d, f) (C.targets pk) ->
  C.setAliases pk = C.AList l -> In (k, g) l -> C.targetName g = C.targetName f ->
  DS.resolves (info_of pk) k (target_of f).
Proof.
  intros pk d f l k g H A I E. split.
  - unfold DS.targets, info_of. simpl. rewrite app_nil_r. apply in_map.
    unfold C.funcs. change f with (snd (d, f)). now apply in_map.
  - right. exists k, (C.targetName g). split; [|split; [reflexivity|now rewrite E]].
    unfold info_of. simpl. rewrite A. change (k, C.targetName g) with ((fun kf : string * C.function => (fst kf, C.targetName (snd kf))) (k, g)).
    now apply in_map.
Qed.

(* end to end over the package's own template data: the name as `mage -l` prints it, followed by
   one word per declared non-context parameter, runs that declaration's body with the words
   converted at the DECLARED types in declaration order *)
Theorem listed_name_runs_declaration : forall pk d f args rest,
  In (d, f) (C.targets pk) -> DS.no_collision (info_of pk) ->
  List.length args = List.length (nonctx_types d) ->
  (forall k ty a, nth_error (nonctx_types d) k = Some (pty_back ty) -> nth_error args k = Some a -> D.convert conv ty a <> None) ->
  exists vs cs e,
    D.dispatch conv fails (info_of pk) env (C.lowerFirst (C.targetName f) :: args ++ rest) =
      (D.mkcall (target_of f) vs :: cs, e) /\
    D.tname (target_of f) = decl_name d /\
    List.length vs = List.length (nonctx_types d) /\
    (forall k ty a, nth_error (nonctx_types d) k = Some (pty_back ty) -> nth_error args k = Some a ->
                    nth_error vs k = D.convert conv ty a) /\
    (forall k a, nth_error (nonctx_types d) k = Some C.TString -> nth_error args k = Some a ->
                 nth_error vs k = Some (D.VStr a)).
Proof.
  intros pk d f args rest H NC L Cv.
  destruct (words_converted_by_declaration (info_of pk) pk d f _ args rest H NC (listed_name_resolves pk d f H) L Cv)
    as (vs & cs & e & Dsp & Lv & P & S).
  exists vs, cs, e. split; [exact Dsp|]. split; [now apply (tname_is_decl_name pk)|]. auto.
Qed.
End Run.
End Bridge.

(* ------------------------------------------------------------------ a concrete instance *)
Definition ex_def (f : C.function) : nat := String.length (C.f_name f).
Definition ex_conv (ty : D.argty) (w : string) : option string :=
  match ty with
  | D.TInt => if String.eqb w "007" then Some "7" else None
  | D.TDur => if String.eqb w "90s" then Some "1m30s" else None
  | _ => None
  end.

(* Classify_facts.example_pk: func BuildAll(ctx context.Context, a, b string, int) (err error), the
   namespace method Ptr(_ time.Duration) with a pointer receiver of NS as default, five non-targets *)
Lemma nonvacuous_bridge :
  DS.no_collision (info_of ex_def CF.example_pk) /\
  map (fun t => (D.tname t, D.targs t)) (D.funcs (info_of ex_def CF.example_pk)) =
    [("NS:Ptr", [D.TDur]); ("BuildAll", [D.TString; D.TString; D.TInt])] /\
  D.dispatch ex_conv (fun _ _ => false) (info_of ex_def CF.example_pk) ""
    ["buildAll"; "x y"; "build"; "007"; "ns:ptr"; "90s"] =
    ([ {| D.cdef := 8; D.cvals := [D.VStr "x y"; D.VStr "build"; D.VConv D.TInt "7"] |};
       {| D.cdef := 3; D.cvals := [D.VConv D.TDur "1m30s"] |} ], D.Done) /\
  D.dispatch ex_conv (fun _ _ => false) (info_of ex_def CF.example_pk) "" [] =
    ([], D.Exit2 D.Missing).
Proof.
  split.
  - unfold DS.no_collision. vm_compute. repeat constructor; simpl; intuition discriminate.
  - vm_compute. repeat split.
Qed.
