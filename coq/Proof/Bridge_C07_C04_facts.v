(* Composition of C07 with C04: the template data of a package that mage accepts satisfies C04's
   [no_collision], the two models of the generated switches agree, and C04's theorems therefore
   hold for every accepted package.  Uses the THEOREMS of Props/C07.v and Props/C04.v. *)
From Mage Require Import Base.Strs.
From Coq Require Import Permutation.
From Mage Require Model.Dupes Model.Dispatch Model.DispatchSpec Model.Bridge_C07_C04.
From Mage Require Proof.Dupes_facts Props.C07 Props.C04.
Import Bridge_C07_C04.

(* ---------------------------------------------------------------- the two ASCII ToLower coincide *)
Lemma lower_eq : forall s, Dispatch.lower s = Dupes.lower s.
Proof. induction s as [|c s IH]; simpl; [reflexivity|]. now rewrite IH. Qed.

Section B.
Variable args_of : Dupes.func -> list Dispatch.argty.
Variable def_of : Dupes.func -> nat.
Notation target_of := (target_of args_of def_of).
Notation info_of := (info_of args_of def_of).

Lemma concat_map_map {A B C} (g : B -> C) (h : A -> list B) : forall l,
  concat (map (fun x => map g (h x)) l) = map g (flat_map h l).
Proof. induction l as [|x l IH]; simpl; [reflexivity|]. now rewrite IH, map_app. Qed.

(* the cases of the target switch are the functions C07 calls all_funcs, in the same order *)
Lemma targets_info_of : forall d pk,
  DispatchSpec.targets (info_of d pk) = map target_of (Dupes.all_funcs pk).
Proof.
  intros. unfold DispatchSpec.targets, info_of, Dupes.all_funcs. simpl.
  now rewrite concat_map_map, map_app.
Qed.

Lemma switch_cases_info_of : forall d pk,
  Dispatch.switch_cases (info_of d pk) = map target_of (Dupes.all_funcs pk).
Proof. exact targets_info_of. Qed.

(* C04's list of names of the generated data is C07's list of names of the package *)
Lemma names_info_of : forall d pk,
  map (fun t => Dispatch.lower (Dispatch.tname t)) (DispatchSpec.targets (info_of d pk)) ++
  map (fun a => Dispatch.lower (fst a)) (Dispatch.aliases (info_of d pk)) =
  Dupes_facts.cd_names (Dupes.all_funcs pk) (Dupes.alias_map (Dupes.aliases pk)).
Proof.
  intros. rewrite targets_info_of. unfold Dupes_facts.cd_names, info_of. simpl. rewrite !map_map.
  f_equal; apply map_ext; intro x; simpl; apply lower_eq.
Qed.

(* ---------------------------------------------------------------- C07 discharges C04's premise *)
Theorem discharges : forall d pk, Dupes.mage_accepts pk = true -> DispatchSpec.no_collision (info_of d pk).
Proof.
  intros d pk H. unfold DispatchSpec.no_collision. rewrite names_info_of.
  eapply Permutation_NoDup; [symmetry; apply Dupes_facts.runnable_lower|].
  now apply C07.C07_collision_rejected.
Qed.

(* and conversely: the data of a well-formed package is collision-free only if mage accepts it *)
Theorem discharges_conv : forall d pk, Dupes.wf_pkg pk ->
  DispatchSpec.no_collision (info_of d pk) -> Dupes.mage_accepts pk = true.
Proof.
  intros d pk W H. apply C07.C07_no_false_rejection; [exact W|].
  unfold DispatchSpec.no_collision in H. rewrite names_info_of in H.
  eapply Permutation_NoDup; [apply Dupes_facts.runnable_lower | exact H].
Qed.

(* any reordering of the cases (main.go sorts .Funcs and .Imports) keeps the premise ... *)
Lemma no_collision_perm : forall i i',
  DispatchSpec.no_collision i ->
  Permutation (DispatchSpec.targets i') (DispatchSpec.targets i) ->
  Permutation (Dispatch.aliases i') (Dispatch.aliases i) ->
  DispatchSpec.no_collision i'.
Proof.
  intros i i' H Pt Pa. unfold DispatchSpec.no_collision in *.
  eapply Permutation_NoDup; [|exact H]. symmetry.
  apply Permutation_app; apply Permutation_map; assumption.
Qed.

(* ... and the behaviour *)
Theorem any_case_order : forall conv fails env d pk i' words,
  Dupes.mage_accepts pk = true ->
  Permutation (DispatchSpec.targets i') (DispatchSpec.targets (info_of d pk)) ->
  Permutation (Dispatch.aliases i') (Dispatch.aliases (info_of d pk)) ->
  Dispatch.default i' = Dispatch.default (info_of d pk) ->
  DispatchSpec.no_collision i' /\
  Dispatch.dispatch conv fails i' env words = Dispatch.dispatch conv fails (info_of d pk) env words.
Proof.
  intros conv fails env d pk i' words H Pt Pa Hd.
  pose proof (discharges d pk H) as NC.
  pose proof (no_collision_perm _ _ NC Pt Pa) as NC'.
  split; [exact NC'|].
  apply C04.C04_case_order_irrelevant; auto.
  - intro t; split; apply Permutation_in; [exact Pt | symmetry; exact Pt].
  - intro p; split; apply Permutation_in; [exact Pa | symmetry; exact Pa].
Qed.

(* ---------------------------------------------------------------- the two models of the switches agree *)
Lemma alias_switch_agrees : forall al w,
  Dispatch.alias_switch (map (fun kf => (fst kf, Dupes.target_name (snd kf))) al) (Dispatch.lower w) w =
  Dupes.alias_switch al w.
Proof.
  intros al w. unfold Dupes.alias_switch. induction al as [|[k f] al IH]; simpl; [reflexivity|].
  change Dispatch.lower with Dupes.lower in *.
  rewrite (String.eqb_sym (Dupes.lower w)).
  destruct (String.eqb (Dupes.lower k) (Dupes.lower w)); [reflexivity | exact IH].
Qed.

Lemma target_switch_agrees : forall fs t,
  Dispatch.target_switch (map target_of fs) (Dispatch.lower t) = option_map target_of (Dupes.target_switch fs t).
Proof.
  intros fs t. unfold Dupes.target_switch. induction fs as [|f fs IH]; simpl; [reflexivity|].
  change Dispatch.lower with Dupes.lower in *.
  rewrite (String.eqb_sym (Dupes.lower t)).
  destruct (String.eqb (Dupes.lower (Dupes.target_name f)) (Dupes.lower t)); [reflexivity | exact IH].
Qed.

(* one iteration's name resolution in Dispatch.loop is Dupes.resolve, for every package and word *)
Theorem resolve_agrees : forall d pk w,
  Dispatch.target_switch (Dispatch.switch_cases (info_of d pk))
    (Dispatch.lower (Dispatch.alias_switch (Dispatch.aliases (info_of d pk)) (Dispatch.lower w) w)) =
  option_map target_of (Dupes.resolve pk w).
Proof.
  intros. rewrite switch_cases_info_of. unfold info_of; simpl.
  rewrite alias_switch_agrees. unfold Dupes.resolve. apply target_switch_agrees.
Qed.

(* every runnable name of C07 names its definition in C04's sense *)
Theorem names_resolve : forall d pk w f, In f (Dupes.all_funcs pk) ->
  (Dupes.lower (Dupes.target_name f) = Dupes.lower w \/
   exists k, In (k, f) (Dupes.alias_map (Dupes.aliases pk)) /\ Dupes.lower k = Dupes.lower w) ->
  DispatchSpec.resolves (info_of d pk) w (target_of f).
Proof.
  intros d pk w f Hf H. unfold DispatchSpec.resolves. split.
  - rewrite targets_info_of. now apply in_map.
  - destruct H as [E|[k [Hk E]]].
    + left. simpl. now rewrite !lower_eq.
    + right. exists k, (Dupes.target_name f). split; [|split].
      * unfold info_of; simpl. apply in_map_iff. exists (k, f). auto.
      * now rewrite !lower_eq.
      * reflexivity.
Qed.

(* ---------------------------------------------------------------- C04's theorems for accepted packages *)
Section Run.
Variable conv : Dispatch.argty -> string -> option string.
Variable fails : nat -> list Dispatch.value -> bool.
Variable env : string.
Variable d : option Dupes.func.
Variable pk : Dupes.pkg.
Hypothesis accepted : Dupes.mage_accepts pk = true.
Notation I := (info_of d pk).
Notation dispatch := (Dispatch.dispatch conv fails I env).

Theorem acc_dispatch_is_Seg : forall words, words <> [] ->
  DispatchSpec.Seg conv fails I words (fst (dispatch words)) (snd (dispatch words)).
Proof. intros. apply C04.C04_dispatch_is_Seg; [now apply discharges | assumption]. Qed.

Theorem acc_Seg_functional : forall words cs e, DispatchSpec.Seg conv fails I words cs e ->
  forall cs' e', DispatchSpec.Seg conv fails I words cs' e' -> cs = cs' /\ e = e'.
Proof. apply C04.C04_Seg_functional. now apply discharges. Qed.

Theorem acc_runs_left_to_right : forall ms cs, Forall2 (DispatchSpec.good conv fails I) ms cs -> ms <> [] ->
  dispatch (DispatchSpec.flatten ms) = (cs, Dispatch.Done).
Proof. intros. apply C04.C04_runs_left_to_right; auto. now apply discharges. Qed.

Theorem acc_case_insensitive : forall ms ms' w w' tail,
  DispatchSpec.same_up_to_name_case ms ms' -> DispatchSpec.well_formed I ms -> Dispatch.lower w = Dispatch.lower w' ->
  dispatch (DispatchSpec.flatten ms ++ w :: tail) = dispatch (DispatchSpec.flatten ms' ++ w' :: tail).
Proof. intros. apply C04.C04_case_insensitive; auto. now apply discharges. Qed.

Theorem acc_args_in_declaration_order : forall w args rest t, DispatchSpec.resolves I w t ->
  length args = DispatchSpec.arity t ->
  (forall k ty a, nth_error (Dispatch.targs t) k = Some ty -> nth_error args k = Some a -> Dispatch.convert conv ty a <> None) ->
  exists vs cs e, dispatch (w :: args ++ rest) = (Dispatch.mkcall t vs :: cs, e) /\
    length vs = DispatchSpec.arity t /\
    (forall k ty a, nth_error (Dispatch.targs t) k = Some ty -> nth_error args k = Some a -> nth_error vs k = Dispatch.convert conv ty a) /\
    (forall k a, nth_error (Dispatch.targs t) k = Some Dispatch.TString -> nth_error args k = Some a -> nth_error vs k = Some (Dispatch.VStr a)).
Proof. intros. apply C04.C04_args_in_declaration_order; auto. now apply discharges. Qed.

Theorem acc_exit2_before_body : forall ms cs w tail r, Forall2 (DispatchSpec.good conv fails I) ms cs ->
  DispatchSpec.stops conv I w tail r ->
  dispatch (DispatchSpec.flatten ms ++ w :: tail) = (cs, Dispatch.Exit2 r).
Proof. intros. apply C04.C04_exit2_before_body; auto. now apply discharges. Qed.

Theorem acc_nothing_after_failure : forall ms cs w args tail t vs, Forall2 (DispatchSpec.good conv fails I) ms cs ->
  DispatchSpec.resolves I w t -> DispatchSpec.converts conv (Dispatch.targs t) args vs -> fails (Dispatch.tdef t) vs = true ->
  dispatch (DispatchSpec.flatten ms ++ w :: args ++ tail) = (cs ++ [Dispatch.mkcall t vs], Dispatch.Failed).
Proof. intros. apply C04.C04_nothing_after_failure; auto. now apply discharges. Qed.

(* end to end, what the C07 harness observes: typing a runnable name (any letter case) of a
   parameterless definition whose body succeeds runs exactly that definition's body *)
Theorem acc_name_runs_its_definition : forall w f, In f (Dupes.all_funcs pk) ->
  (Dupes.lower (Dupes.target_name f) = Dupes.lower w \/
   exists k, In (k, f) (Dupes.alias_map (Dupes.aliases pk)) /\ Dupes.lower k = Dupes.lower w) ->
  args_of f = [] -> fails (def_of f) [] = false ->
  dispatch [w] = ([Dispatch.mkcall (target_of f) []], Dispatch.Done).
Proof.
  intros w f Hf Hn Ha Hok.
  change [w] with (DispatchSpec.flatten [(w, @nil string)]).
  apply acc_runs_left_to_right; [|discriminate].
  constructor; [|constructor].
  apply DispatchSpec.good_intro.
  - now apply names_resolve.
  - simpl. rewrite Ha. constructor.
  - exact Hok.
Qed.
End Run.
End B.

(* ---------------------------------------------------------------- non-vacuity *)
Definition ex_args (f : Dupes.func) : list Dispatch.argty :=
  if String.eqb (Dupes.f_name f) "Deploy" then [Dispatch.TString; Dispatch.TInt] else [].
Definition ex_def (f : Dupes.func) : nat := String.length (Dupes.fid f).
Definition ex_conv (ty : Dispatch.argty) (w : string) : option string :=
  match ty with Dispatch.TInt => if String.eqb w "7" then Some "7" else None | _ => None end.

Lemma nonvacuous_compose :
  Dupes.mage_accepts Dupes_facts.ex_ok = true /\
  DispatchSpec.no_collision (info_of ex_args ex_def None Dupes_facts.ex_ok) /\
  Dispatch.dispatch ex_conv (fun _ _ => false) (info_of ex_args ex_def None Dupes_facts.ex_ok) ""
    ["LX"; "lib:DEPLOY"; "a b"; "7"; "ns:x"; "b"] =
    ([ {| Dispatch.cdef := 11; Dispatch.cvals := [] |};
       {| Dispatch.cdef := 13; Dispatch.cvals := [Dispatch.VStr "a b"; Dispatch.VConv Dispatch.TInt "7"] |};
       {| Dispatch.cdef := 14; Dispatch.cvals := [] |};
       {| Dispatch.cdef := 15; Dispatch.cvals := [] |} ], Dispatch.Done) /\
  ~ DispatchSpec.no_collision (info_of ex_args ex_def None Dupes_facts.ex_alias).
Proof.
  split; [vm_compute; reflexivity|]. split; [apply discharges; vm_compute; reflexivity|].
  split; [vm_compute; reflexivity|].
  intro H. apply (discharges_conv ex_args ex_def None) in H; [vm_compute in H; discriminate|].
  intros f Hf. simpl in Hf. repeat (destruct Hf as [<-|Hf]; [discriminate|]). destruct Hf.
Qed.
