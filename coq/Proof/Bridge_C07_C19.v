(* Bridge C07 -> (C19, C06) -> C04.
   Proof/Bridge_C19_C06.v builds the template data of a magefile package given as DECLARATIONS
   (a Classify.pkg [lpk]) plus the tags of its import specs, the imported packages being resolved
   by [world] ([info_with_imports]); its end-to-end theorems keep C04's premise
   [DS.no_collision] as a hypothesis.  C07's model (Model/Dupes.v) decides whether mage's
   duplicate check accepts a package given as the data the parser extracted.  Here: the translation
   [dupes_of] from the former to the latter, the fact that both see the same names, and the
   discharge of the premise by acceptance.
   C, CF, D, DS, I, IF as in Proof/Bridge_C19_C06.v; U = Model/Dupes, UF = Proof/Dupes_facts. *)
From Mage Require Import Base.Strs.
From Coq Require Import Permutation.
From Mage Require Import Proof.Bridge_C06_C04 Proof.Bridge_C19_C06.
From Mage Require Model.Dupes Proof.Dupes_facts Props.C07 Proof.Bridge_C07_C04_facts Proof.Dispatch_facts.
Module U := Dupes.
Module UF := Dupes_facts.

(* ------------------------------------------------------------------ the translation *)
Definition tgt_of (f : C.function) : U.tgt := {| U.t_recv := C.f_recv f; U.t_name := C.f_name f |}.
(* a Function of the magefile package itself: PkgAlias and ImportPath empty *)
Definition dfunc_of (f : C.function) : U.func :=
  {| U.f_alias := EmptyString; U.f_path := EmptyString; U.f_recv := C.f_recv f; U.f_name := C.f_name f |}.
Definition dimport_of (ci : cimport) : U.import :=
  {| U.i_alias := ci_alias ci; U.i_path := ci_path ci; U.i_tgts := map tgt_of (C.funcs (ci_pkg ci)) |}.
(* the entries of `var Aliases` that setAliases resolved (none when it panics, as in Bridge_C06_C04.info_of) *)
Definition alias_list (lpk : C.pkg) : list (string * C.function) :=
  match C.setAliases lpk with C.AList l => l | C.APanic => [] end.

Section World.
Variable world : string -> string -> option (string * C.pkg).

(* the magefile package as mage's duplicate check sees it: its own targets, one import per distinct
   (path, alias) pair and per bare tag with the targets Classify finds in the resolved package, the
   alias entries with the Function each denotes *)
Definition dupes_of (dir : string) (lpk : C.pkg) (tags : list (string * option (option string))) : U.pkg :=
  {| U.locals := map tgt_of (C.funcs lpk);
     U.imports := map dimport_of (cimports_of world dir tags);
     U.aliases := map (fun kf => (fst kf, dfunc_of (snd kf))) (alias_list lpk) |}.

(* Go rejects a map literal with a repeated constant key; mage's parser would keep the last entry *)
Definition alias_keys_distinct (lpk : C.pkg) : Prop := NoDup (map fst (alias_list lpk)).

(* ------------------------------------------------------------------ strings: the models agree *)
Lemma tname_local : forall f, C.targetName f = U.target_name (dfunc_of f).
Proof. intros f. unfold C.targetName, U.target_name, dfunc_of; simpl. destruct (C.f_recv f), (C.f_name f); reflexivity. Qed.

Lemma tname_imported : forall a p f,
  I.target_name (I.stamp a p (func_of f)) =
  U.target_name {| U.f_alias := a; U.f_path := p; U.f_recv := C.f_recv f; U.f_name := C.f_name f |}.
Proof.
  intros a p f. unfold I.target_name, I.stamp, func_of, U.target_name; simpl.
  destruct a, (C.f_recv f), (C.f_name f); reflexivity.
Qed.

(* ------------------------------------------------------------------ (1) both constructions see the same names *)
Section Names.
Variable def_of : string -> C.function -> nat.
Variables (dir : string) (lpk : C.pkg) (tags : list (string * option (option string))).
Notation INFO := (info_with_imports world def_of dir lpk tags).
Notation DP := (dupes_of dir lpk tags).

Lemma local_funcs_dupes : U.local_funcs DP = map dfunc_of (C.funcs lpk).
Proof. unfold U.local_funcs, dupes_of; simpl. rewrite map_map. reflexivity. Qed.

Lemma import_targets_names_dupes : forall ci,
  map D.tname (import_targets def_of ci) = map U.target_name (U.import_funcs (dimport_of ci)).
Proof.
  intros ci. unfold import_targets, U.import_funcs, dimport_of; simpl. rewrite !map_map.
  apply map_ext. intro f. simpl. apply tname_imported.
Qed.

Lemma imports_names_dupes : forall l,
  map D.tname (concat (map (import_targets def_of) l)) =
  map U.target_name (flat_map U.import_funcs (map dimport_of l)).
Proof.
  induction l as [|ci l IH]; simpl; [reflexivity|].
  now rewrite !map_app, IH, import_targets_names_dupes.
Qed.

(* the cases of the target switch carry, in the same order, the TargetNames of the functions of [dupes_of] *)
Theorem target_names_commute :
  map D.tname (DS.targets INFO) =
  map U.target_name (U.local_funcs DP ++ flat_map U.import_funcs (U.imports DP)).
Proof.
  unfold DS.targets. rewrite !map_app. f_equal.
  - rewrite local_funcs_dupes. unfold info_with_imports, info_of; simpl. rewrite !map_map.
    apply map_ext. intro f. simpl. apply tname_local.
  - unfold info_with_imports, dupes_of; simpl. apply imports_names_dupes.
Qed.

(* the alias switch carries the alias entries of [dupes_of] with the TargetName of the aliased function *)
Theorem aliases_commute :
  D.aliases INFO = map (fun kf => (fst kf, U.target_name (snd kf))) (U.aliases DP).
Proof.
  unfold info_with_imports, info_of, dupes_of, alias_list; simpl.
  destruct (C.setAliases lpk) as [|l]; simpl; [reflexivity|].
  rewrite map_map. apply map_ext. intros [k f]. simpl. now rewrite tname_local.
Qed.

(* ------------------------------------------------------------------ the imports of [dupes_of] are already distinct *)
Definition ikey (i : U.import) : string * string := (U.i_path i, U.i_alias i).

Lemma same_import_key : forall a b, U.same_import a b = true <-> ikey a = ikey b.
Proof.
  intros a b. unfold U.same_import, ikey. rewrite andb_true_iff, !String.eqb_eq. split.
  - intros [-> ->]. reflexivity.
  - intro H. inversion H. auto.
Qed.

Lemma dedup_id_gen : forall l acc,
  (forall x y, In x l -> In y acc -> ikey x <> ikey y) -> NoDup (map ikey l) ->
  fold_left (fun acc x => if existsb (U.same_import x) acc then acc else acc ++ [x]) l acc = acc ++ l.
Proof.
  induction l as [|x l IH]; intros acc Hd Hn; simpl; [now rewrite app_nil_r|].
  inversion Hn as [|? ? Hx Hn']; subst.
  assert (E : existsb (U.same_import x) acc = false).
  { destruct (existsb (U.same_import x) acc) eqn:E; [|reflexivity].
    apply existsb_exists in E. destruct E as (y & Hy & S). apply same_import_key in S.
    exfalso. apply (Hd x y); simpl; auto. }
  rewrite E, IH, <- app_assoc; [reflexivity| |exact Hn'].
  intros a b Ha Hb. apply in_app_or in Hb. destruct Hb as [Hb|[<-|[]]].
  - apply Hd; simpl; auto.
  - intro K. apply Hx. rewrite <- K. now apply in_map.
Qed.

Lemma dedup_id : forall l, NoDup (map ikey l) -> U.dedup_imports l = l.
Proof. intros l H. unfold U.dedup_imports. rewrite dedup_id_gen; [reflexivity| |exact H]. intros x y _ []. Qed.

(* what one (path, alias) pair contributes *)
Definition of_pair (pa : string * string) : list cimport :=
  match world dir (fst pa) with
  | Some (_, pk) => [ {| ci_alias := snd pa; ci_path := fst pa; ci_pkg := pk |} ]
  | None => []
  end.
Definition named_keys (ps : list (string * string)) : list (string * string) :=
  map ikey (filter U.named (map dimport_of (flat_map of_pair ps))).

Lemma named_keys_cons : forall pa ps, exists pre, named_keys (pa :: ps) = pre ++ named_keys ps /\ (pre = [] \/ pre = [pa]).
Proof.
  intros [p a] ps. unfold named_keys, of_pair; simpl. destruct (world dir p) as [[n pk]|]; simpl.
  - unfold U.named at 1; simpl. destruct (negb (U.is_empty a)); simpl.
    + exists [(p, a)]. unfold ikey; simpl. auto.
    + exists []. auto.
  - exists []. auto.
Qed.

Lemma named_keys_in : forall ps k, In k (named_keys ps) -> In k ps.
Proof.
  induction ps as [|pa ps IH]; intros k H; [destruct H|].
  destruct (named_keys_cons pa ps) as (pre & E & [->| ->]); rewrite E in H; simpl in H.
  - right. auto.
  - destruct H as [<-|H]; [left; reflexivity | right; auto].
Qed.

Lemma named_keys_nodup : forall ps, NoDup ps -> NoDup (named_keys ps).
Proof.
  induction ps as [|pa ps IH]; intros H; [constructor|].
  inversion H as [|? ? Hn Hd]; subst.
  destruct (named_keys_cons pa ps) as (pre & E & [->| ->]); rewrite E; simpl; [auto|].
  constructor; [|auto]. intro K. apply Hn. now apply named_keys_in.
Qed.

Lemma named_keys_roots : forall rs, named_keys (map (fun p => (p, EmptyString)) rs) = [].
Proof.
  unfold named_keys. induction rs as [|p rs IH]; [reflexivity|].
  simpl. unfold of_pair at 1; simpl. destruct (world dir p) as [[n pk]|]; simpl; exact IH.
Qed.

Lemma named_keys_app : forall a b, named_keys (a ++ b) = named_keys a ++ named_keys b.
Proof. intros. unfold named_keys. now rewrite flat_map_app, map_app, filter_app, map_app. Qed.

Lemma dupes_named_nodup : NoDup (map ikey (filter U.named (U.imports DP))).
Proof.
  unfold dupes_of, cimports_of; simpl.
  change (NoDup (named_keys (IF.distinct (IF.named_tags tags) ++ map (fun p => (p, EmptyString)) (IF.root_tags tags)))).
  rewrite named_keys_app, named_keys_roots, app_nil_r.
  apply named_keys_nodup. unfold IF.distinct. apply NoDup_nodup.
Qed.

(* the same for the bare-tag imports (commit 4a102aa: put-if-absent by path); an alias is never the empty
   string (strings.Fields yields no empty field: [tags_aliases_nonempty] for the tags of real files) *)
Definition aliases_nonempty : Prop := forall p a, In (p, a) (IF.named_tags tags) -> a <> EmptyString.

Definition root_keys (ps : list (string * string)) : list (string * string) :=
  map ikey (filter (fun i => negb (U.named i)) (map dimport_of (flat_map of_pair ps))).

Lemma root_keys_cons : forall pa ps, exists pre, root_keys (pa :: ps) = pre ++ root_keys ps /\ (pre = [] \/ (pre = [pa] /\ snd pa = EmptyString)).
Proof.
  intros [p a] ps. unfold root_keys, of_pair; simpl. destruct (world dir p) as [[n pk]|]; simpl.
  - unfold U.named at 1; simpl. destruct (U.is_empty a) eqn:E; simpl.
    + exists [(p, a)]. unfold ikey; simpl. split; [reflexivity|]. right. split; [reflexivity|]. now apply UF.is_empty_true.
    + exists []. auto.
  - exists []. auto.
Qed.

Lemma root_keys_in : forall ps k, In k (root_keys ps) -> In k ps /\ snd k = EmptyString.
Proof.
  induction ps as [|pa ps IH]; intros k H; [destruct H|].
  destruct (root_keys_cons pa ps) as (pre & E & [->|[-> S]]); rewrite E in H; simpl in H.
  - destruct (IH k H). split; [right|]; auto.
  - destruct H as [<-|H]; [split; [left; reflexivity | exact S]|]. destruct (IH k H). split; [right|]; auto.
Qed.

Lemma root_keys_nodup : forall ps, NoDup ps -> NoDup (root_keys ps).
Proof.
  induction ps as [|pa ps IH]; intros H; [constructor|].
  inversion H as [|? ? Hn Hd]; subst.
  destruct (root_keys_cons pa ps) as (pre & E & [->|[-> _]]); rewrite E; simpl; [auto|].
  constructor; [|auto]. intro K. apply Hn. now apply root_keys_in.
Qed.

Lemma root_keys_app : forall a b, root_keys (a ++ b) = root_keys a ++ root_keys b.
Proof. intros. unfold root_keys. now rewrite flat_map_app, map_app, filter_app, map_app. Qed.

Lemma root_keys_named : aliases_nonempty -> root_keys (IF.distinct (IF.named_tags tags)) = [].
Proof.
  intro NE. destruct (root_keys (IF.distinct (IF.named_tags tags))) as [|[p a] r] eqn:E; [reflexivity|].
  assert (H : In (p, a) (root_keys (IF.distinct (IF.named_tags tags)))) by (rewrite E; now left).
  apply root_keys_in in H. destruct H as [H S]. simpl in S. subst a.
  unfold IF.distinct in H. apply nodup_In in H. exfalso. now apply (NE p EmptyString).
Qed.

Lemma dupes_roots_nodup : aliases_nonempty -> NoDup (map ikey (U.root_imports_before_4a102aa DP)).
Proof.
  intro NE. unfold U.root_imports_before_4a102aa, dupes_of, cimports_of; simpl.
  change (NoDup (root_keys (IF.distinct (IF.named_tags tags) ++ map (fun p => (p, EmptyString)) (IF.root_tags tags)))).
  rewrite root_keys_app, (root_keys_named NE). simpl. apply root_keys_nodup.
  apply FinFun.Injective_map_NoDup; [intros x y E; now inversion E|].
  unfold IF.root_tags. apply NoDup_nodup.
Qed.

Lemma effective_imports_dupes : aliases_nonempty -> Permutation (U.effective_imports DP) (U.imports DP).
Proof.
  intro NE. unfold U.effective_imports, U.named_imports, U.root_imports.
  rewrite (dedup_id _ dupes_named_nodup), (dedup_id _ (dupes_roots_nodup NE)). apply UF.filter_partition_perm.
Qed.

(* C04's list of names of the template data is a permutation of the runnable names C07 speaks about *)
Theorem names_are_runnable_names : aliases_nonempty -> alias_keys_distinct lpk ->
  Permutation (map D.tname (DS.targets INFO) ++ map fst (D.aliases INFO)) (U.runnable_names DP).
Proof.
  intros NE AK. unfold U.runnable_names. apply Permutation_app.
  - rewrite target_names_commute. apply Permutation_map. unfold U.src_funcs.
    apply Permutation_app_head, UF.flat_map_perm. symmetry. now apply effective_imports_dupes.
  - rewrite aliases_commute, map_map. simpl.
    symmetry. apply UF.alias_keys_literal.
    unfold dupes_of; simpl. rewrite map_map. exact AK.
Qed.

(* ------------------------------------------------------------------ (2) acceptance discharges C04's premise *)
Theorem accepted_no_collision_decls : aliases_nonempty -> alias_keys_distinct lpk ->
  U.mage_accepts DP = true -> DS.no_collision INFO.
Proof.
  intros NE AK H. unfold DS.no_collision.
  pose proof (C07.C07_collision_rejected _ H) as N.
  eapply Permutation_NoDup; [|exact N]. symmetry.
  replace (map (fun t => D.lower (D.tname t)) (DS.targets INFO) ++ map (fun a => D.lower (fst a)) (D.aliases INFO))
    with (map U.lower (map D.tname (DS.targets INFO) ++ map fst (D.aliases INFO))).
  - apply Permutation_map. now apply names_are_runnable_names.
  - rewrite map_app, !map_map. f_equal; apply map_ext; intro x; symmetry; apply Bridge_C07_C04_facts.lower_eq.
Qed.

(* and nothing more: for a package with non-empty function names the check rejects only data that is not collision-free *)
Theorem no_collision_decls_accepted : aliases_nonempty -> alias_keys_distinct lpk -> U.wf_pkg DP ->
  DS.no_collision INFO -> U.mage_accepts DP = true.
Proof.
  intros NE AK W H. apply C07.C07_no_false_rejection; [exact W|].
  unfold DS.no_collision in H.
  eapply Permutation_NoDup; [|exact H].
  replace (map (fun t => D.lower (D.tname t)) (DS.targets INFO) ++ map (fun a => D.lower (fst a)) (D.aliases INFO))
    with (map U.lower (map D.tname (DS.targets INFO) ++ map fst (D.aliases INFO))).
  - apply Permutation_map. now apply names_are_runnable_names.
  - rewrite map_app, !map_map. f_equal; apply map_ext; intro x; symmetry; apply Bridge_C07_C04_facts.lower_eq.
Qed.

(* ------------------------------------------------------------------ (3) every exposed name runs the declaration it names *)
(* the word w names, in the magefile package [lpk] with these import tags, the declaration d of
   package [pk]; t is the template target built from it *)
Inductive exposes (w : string) : C.pkg -> C.fdecl -> D.target -> Prop :=
| ex_own d f :                               (* Name / Namespace:Name of the magefile package itself *)
    In (d, f) (C.targets lpk) -> D.lower w = D.lower (decl_name d) ->
    exposes w lpk d (target_of (def_of EmptyString) f)
| ex_alias d f k g :                         (* a key of `var Aliases` whose value denotes it *)
    In (d, f) (C.targets lpk) -> In (k, g) (alias_list lpk) -> C.targetName g = C.targetName f ->
    D.lower w = D.lower k ->
    exposes w lpk d (target_of (def_of EmptyString) f)
| ex_imported p t n pk d f :                 (* alias:Name / alias:Namespace:Name (bare tag: no alias) of a tagged import *)
    In (p, Some t) tags -> world dir p = Some (n, pk) -> In (d, f) (C.targets pk) ->
    D.lower w = D.lower (IF.prefixed (IF.alias_str t) (decl_name d)) ->
    exposes w pk d (imp_target def_of (IF.alias_str t) p f).

Lemma own_target_in : forall d f, In (d, f) (C.targets lpk) -> In (target_of (def_of EmptyString) f) (DS.targets INFO).
Proof.
  intros d f H. unfold DS.targets. apply in_or_app. left. unfold info_with_imports, info_of; simpl.
  apply in_map. unfold C.funcs. change f with (snd (d, f)). now apply in_map.
Qed.

Theorem exposed_resolves : forall w pk d t, exposes w pk d t -> DS.resolves INFO w t.
Proof.
  intros w pk d t H. destruct H as [d f H L | d f k g H A E L | p t n pk d f Hi W H L].
  - split; [now apply (own_target_in d)|]. left. rewrite (tname_is_decl_name (def_of EmptyString) lpk d f H). now rewrite L.
  - split; [now apply (own_target_in d)|]. right. exists k, (C.targetName g). split; [|split].
    + rewrite aliases_commute. unfold dupes_of; simpl. rewrite map_map. simpl.
      apply in_map_iff. exists (k, g). split; [simpl; now rewrite tname_local | exact A].
    + now rewrite L.
    + simpl. now rewrite E.
  - now apply (imported_target_resolves world def_of dir lpk tags p t n pk d f w).
Qed.

Section Run.
Variable conv : D.argty -> string -> option string.
Variable fails : nat -> list D.value -> bool.
Variable env : string.

Theorem runs : aliases_nonempty -> alias_keys_distinct lpk -> U.mage_accepts DP = true ->
  forall w pk d t args rest, exposes w pk d t ->
  List.length args = List.length (nonctx_types d) ->
  (forall k ty x, nth_error (nonctx_types d) k = Some (pty_back ty) -> nth_error args k = Some x -> D.convert conv ty x <> None) ->
  exists vs cs e,
    D.dispatch conv fails INFO env (w :: args ++ rest) = (D.mkcall t vs :: cs, e) /\
    List.length vs = List.length (nonctx_types d) /\
    (forall k ty x, nth_error (nonctx_types d) k = Some (pty_back ty) -> nth_error args k = Some x ->
                    nth_error vs k = D.convert conv ty x).
Proof.
  intros NE AK ACC w pk d t args rest E L Cv.
  pose proof (accepted_no_collision_decls NE AK ACC) as NC.
  pose proof (exposed_resolves _ _ _ _ E) as R.
  destruct E as [d f H _ | d f k g H _ _ _ | p t n pk d f _ _ H _].
  - destruct (words_converted_by_declaration (def_of EmptyString) conv fails env INFO lpk d f w args rest H NC R L Cv)
      as (vs & cs & e & Dsp & Lv & P & _). exists vs, cs, e. auto.
  - destruct (words_converted_by_declaration (def_of EmptyString) conv fails env INFO lpk d f w args rest H NC R L Cv)
      as (vs & cs & e & Dsp & Lv & P & _). exists vs, cs, e. auto.
  - destruct (imported_target_runs def_of conv fails env INFO pk d f (IF.alias_str t) p w args rest H NC R L Cv)
      as (vs & cs & e & Dsp & _ & Lv & P). exists vs, cs, e. auto.
Qed.

(* the word at the name position in another letter case, further words after it: same run *)
Theorem runs_any_case : aliases_nonempty -> alias_keys_distinct lpk -> U.mage_accepts DP = true ->
  forall w w' tail, D.lower w = D.lower w' ->
  D.dispatch conv fails INFO env (w :: tail) = D.dispatch conv fails INFO env (w' :: tail).
Proof.
  intros NE AK ACC w w' tail L.
  pose proof (accepted_no_collision_decls NE AK ACC) as NC.
  apply (Dispatch_facts.case_insensitive conv fails INFO env [] [] w w' tail NC); [constructor | constructor | exact L].
Qed.
End Run.
End Names.
End World.

(* the tags of real import specs never carry an empty alias *)
Lemma line_shape_alias_nonempty : forall l a, IF.line_shape l = Some (Some a) -> a <> EmptyString.
Proof.
  intros l a H. unfold IF.line_shape in H. pose proof (IF.line_words_nonempty l) as NE.
  destruct (IF.line_words l) as [|w [|a' [|b r]]]; try discriminate. inversion H; subst.
  intro Z. subst. specialize (NE EmptyString). simpl in NE. discriminate NE. auto.
Qed.

Lemma tags_aliases_nonempty : forall files, aliases_nonempty (IF.tags files).
Proof.
  intros files p a H. apply IF.named_in_tags in H. unfold IF.tags in H. apply in_map_iff in H.
  destruct H as (s & E & _). injection E as _ T. unfold IF.tag_rule in T.
  destruct (IF.import_line_of (I.is_doc s)) as [l|]; [now apply (line_shape_alias_nonempty l)|].
  destruct (IF.import_line_of (I.is_comment s)) as [l|]; [now apply (line_shape_alias_nonempty l)|discriminate].
Qed.

(* ------------------------------------------------------------------ non-vacuity *)
(* the magefile package: C06's example declarations (BuildAll(ctx, a, b string, int) (err error); the
   namespace method NS.Ptr(_ time.Duration) on a pointer receiver; five non-targets) with
   var Aliases = map[string]interface{}{"ba": BuildAll, "P": NS.Ptr}; it mage:import's the package
   "ex/imp/a" (C06's example package again) under the alias Tools *)
Definition ex_lpk : C.pkg :=
  {| C.decls := C.decls CF.example_pk; C.types := C.types CF.example_pk;
     C.vars := [[ {| C.vnames := ["Aliases"]; C.vtyped := false;
                     C.vvalues := [C.VMap [("ba", C.FIdent "BuildAll"); ("P", C.FSel "NS" "Ptr")]] |} ]];
     C.pkgdoc := EmptyString |}.
Definition ex_dp : U.pkg := dupes_of ex_world "build" ex_lpk (IF.tags ex_files).
Definition ex_info7 : D.info := info_with_imports ex_world ex_def2 "build" ex_lpk (IF.tags ex_files).
(* the same, with an alias key spelled like the imported namespace method *)
Definition ex_lpk_bad : C.pkg :=
  {| C.decls := C.decls CF.example_pk; C.types := C.types CF.example_pk;
     C.vars := [[ {| C.vnames := ["Aliases"]; C.vtyped := false;
                     C.vvalues := [C.VMap [("TOOLS:ns:ptr", C.FIdent "BuildAll")]] |} ]];
     C.pkgdoc := EmptyString |}.

Lemma nonvacuous_c07_c19 :
  ex_dp = {| U.locals := [ {| U.t_recv := "NS"; U.t_name := "Ptr" |}; {| U.t_recv := ""; U.t_name := "BuildAll" |} ];
             U.imports := [ {| U.i_alias := "tools"; U.i_path := "ex/imp/a";
                               U.i_tgts := [ {| U.t_recv := "NS"; U.t_name := "Ptr" |}; {| U.t_recv := ""; U.t_name := "BuildAll" |} ] |} ];
             U.aliases := [ ("ba", {| U.f_alias := ""; U.f_path := ""; U.f_recv := ""; U.f_name := "BuildAll" |});
                            ("P", {| U.f_alias := ""; U.f_path := ""; U.f_recv := "NS"; U.f_name := "Ptr" |}) ] |} /\
  alias_keys_distinct ex_lpk /\ U.mage_accepts ex_dp = true /\ DS.no_collision ex_info7 /\
  U.runnable_names ex_dp = ["NS:Ptr"; "BuildAll"; "tools:NS:Ptr"; "tools:BuildAll"; "P"; "ba"] /\
  D.dispatch ex_conv (fun _ _ => false) ex_info7 ""
    ["p"; "90s"; "TOOLS:ns:PTR"; "90s"; "BA"; "x"; "y"; "007"; "tools:buildall"; "a"; "b"; "007"; "ns:ptr"; "90s"] =
    ([ {| D.cdef := 3; D.cvals := [D.VConv D.TDur "1m30s"] |};
       {| D.cdef := 11; D.cvals := [D.VConv D.TDur "1m30s"] |};
       {| D.cdef := 8; D.cvals := [D.VStr "x"; D.VStr "y"; D.VConv D.TInt "7"] |};
       {| D.cdef := 16; D.cvals := [D.VStr "a"; D.VStr "b"; D.VConv D.TInt "7"] |};
       {| D.cdef := 3; D.cvals := [D.VConv D.TDur "1m30s"] |} ], D.Done) /\
  U.mage_accepts (dupes_of ex_world "build" ex_lpk_bad (IF.tags ex_files)) = false /\
  ~ DS.no_collision (info_with_imports ex_world ex_def2 "build" ex_lpk_bad (IF.tags ex_files)).
Proof.
  split; [vm_compute; reflexivity|].
  assert (AK : alias_keys_distinct ex_lpk).
  { unfold alias_keys_distinct. vm_compute. repeat constructor; simpl; intuition discriminate. }
  split; [exact AK|]. split; [vm_compute; reflexivity|].
  split; [apply accepted_no_collision_decls; [apply tags_aliases_nonempty | exact AK | vm_compute; reflexivity]|].
  split; [vm_compute; reflexivity|]. split; [vm_compute; reflexivity|]. split; [vm_compute; reflexivity|].
  intro H. apply no_collision_decls_accepted in H.
  - vm_compute in H. discriminate.
  - apply tags_aliases_nonempty.
  - unfold alias_keys_distinct. vm_compute. repeat constructor; simpl; intuition discriminate.
  - intros f Hf. vm_compute in Hf. repeat (destruct Hf as [<-|Hf]; [discriminate|]). destruct Hf.
Qed.
