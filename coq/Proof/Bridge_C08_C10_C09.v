(* Bridge between C08 (Model/Cache.v: cache name, reuse decision, histories), C10
   (Model/Constraints.v: WHICH files of a directory are magefiles) and C09 (Model/Lifecycle.v: the
   step sequence of Invoke and what it does to the directory).

   C08's model takes "the magefiles of the directory" ([dir : fileset]) and "an invocation" (one
   call of [Cache.invoke]) as given.  Here the first is C10's selection applied to a directory and
   the second is tied to C09's step list.

   Vocabularies.
     C10  a directory is [list Constraints.file]: per file its name and what go/build reads from
          its head (constraint, package clause) - no bytes;
     C09  a directory is [Lifecycle.fs]: name -> File bytes | Dir | Link - no headers; whether
          the hashed executable exists is one boolean of its [world];
     C08  [fileset] = list (name, bytes) of the magefiles only; the cache is name -> program.
   Translation: a directory entry [dfile] carries BOTH the C10 record and the bytes; [recs] and
   [to_fs] project a directory to the two other models; [selected] pairs the names C10 selects
   with their bytes.  That the record is what go/build reads from those bytes is C10's own
   (harness-tied) assumption; nothing here depends on how the two are related.
   The three models' namespaces clash: Model.Cache is imported, the others are used qualified. *)
From Mage Require Import Base.Strs Model.Cache Proof.Cache_facts.
From Mage Require Model.Constraints Proof.Constraints_facts Model.Lifecycle Proof.Lifecycle_facts Model.Paths.

Module C := Constraints.
Module CF := Constraints_facts.
Module L := Lifecycle.
Module LF := Lifecycle_facts.

(* ---------------------------------------------------------------------------------------- *)
(* the directory                                                                              *)

Record dfile := { d_rec : C.file; d_bytes : string }.
Definition ddir := list dfile.
Definition d_name (x : dfile) : string := C.f_name (d_rec x).

Definition recs (d : ddir) : list C.file := map d_rec d.                        (* C10's view *)
Definition to_fs (d : ddir) : L.fs := map (fun x => (d_name x, L.File (d_bytes x))) d.   (* C09's view *)

(* the files named in [names], with their bytes, in directory order: C08's [dir] *)
Definition selected (d : ddir) (names : list string) : fileset :=
  map (fun x => (d_name x, d_bytes x)) (filter (fun x => C.mem (d_name x) names) d).

(* what ExeName is applied to in an invocation: Magefiles(...) of the directory, each path read *)
Definition hashed_files (su : C.startup) (goos goarch : string) (isdir : bool) (d : ddir) : option fileset :=
  option_map (selected d) (C.magefiles su goos goarch isdir (recs d)).

(* overwrite the bytes of the file named n (an edit that leaves name and header alone) *)
Definition edit_bytes (n b : string) (d : ddir) : ddir :=
  map (fun x => if String.eqb (d_name x) n then {| d_rec := d_rec x; d_bytes := b |} else x) d.

Lemma recs_names : forall d, map C.f_name (recs d) = map d_name d.
Proof. intros d. unfold recs. rewrite map_map. reflexivity. Qed.

Lemma recs_edit : forall n b d, recs (edit_bytes n b d) = recs d.
Proof.
  intros n b d. unfold recs, edit_bytes. rewrite map_map. apply map_ext. intros x.
  destruct (String.eqb (d_name x) n); reflexivity.
Qed.

(* C10's result is always "the names of the records that pass a test", in directory order *)
Lemma magefiles_is_filter : forall su goos goarch isdir files res,
  NoDup (map C.f_name files) -> C.magefiles su goos goarch isdir files = Some res ->
  exists P : C.file -> bool, res = map C.f_name (filter P files).
Proof.
  intros su goos goarch isdir files res N E. destruct isdir.
  - eexists. apply (CF.magefiles_dir_exact su goos goarch files res E).
  - eexists. apply (proj1 (CF.exact_iff su goos goarch files res N E)).
Qed.

Lemma selected_filter : forall (P : C.file -> bool) d, NoDup (map d_name d) ->
  selected d (map C.f_name (filter P (recs d))) = map (fun x => (d_name x, d_bytes x)) (filter (fun x => P (d_rec x)) d).
Proof.
  intros P d N. unfold selected. f_equal. apply filter_ext_in. intros x Hx.
  unfold d_name. apply CF.mem_names; [rewrite recs_names; exact N|]. unfold recs. apply in_map. exact Hx.
Qed.

Lemma map_filter_names : forall (P : C.file -> bool) d,
  map fst (map (fun x => (d_name x, d_bytes x)) (filter (fun x => P (d_rec x)) d)) = map C.f_name (filter P (recs d)).
Proof.
  intros P d. induction d as [|x d IH]; [reflexivity|]. simpl.
  destruct (P (d_rec x)); simpl; [rewrite IH; reflexivity|exact IH].
Qed.

(* (1) the file set that is hashed is exactly C10's selected set: same names, same order, each
   with the bytes the directory holds under that name *)
Lemma hashed_files_are_magefiles : forall su goos goarch isdir d names,
  NoDup (map d_name d) -> C.magefiles su goos goarch isdir (recs d) = Some names ->
  hashed_files su goos goarch isdir d = Some (selected d names) /\
  map fst (selected d names) = names /\
  (forall x, In x d -> (In (d_name x, d_bytes x) (selected d names) <-> In (d_name x) names)) /\
  (forall n b, In (n, b) (selected d names) -> In n names /\ exists x, In x d /\ d_name x = n /\ d_bytes x = b).
Proof.
  intros su goos goarch isdir d names N E.
  split; [unfold hashed_files; rewrite E; reflexivity|].
  assert (N' : NoDup (map C.f_name (recs d))) by (rewrite recs_names; exact N).
  destruct (magefiles_is_filter _ _ _ _ _ _ N' E) as [P ->].
  rewrite selected_filter by exact N. split; [apply map_filter_names|]. split.
  - intros x Hx. rewrite in_map_iff. split.
    + intros [y [Ey Hy]]. apply filter_In in Hy. destruct Hy as [Hy HP]. injection Ey as En _.
      apply in_map_iff. exists (d_rec y). split; [exact En|]. apply filter_In. split; [apply in_map; exact Hy|exact HP].
    + intros Hn. apply CF.mem_In in Hn. unfold d_name in Hn.
      rewrite CF.mem_names in Hn; [|exact N'|apply in_map; exact Hx].
      exists x. split; [reflexivity|]. apply filter_In. split; assumption.
  - intros n b Hnb. apply in_map_iff in Hnb. destruct Hnb as [x [Ex Hx]]. apply filter_In in Hx.
    destruct Hx as [Hx HP]. injection Ex as <- <-. split.
    + apply in_map_iff. exists (d_rec x). split; [reflexivity|]. apply filter_In. split; [apply in_map; exact Hx|exact HP].
    + exists x. repeat split. exact Hx.
Qed.

(* an edit of a file that C10 does not select changes nothing of what is hashed *)
Lemma selected_edit_other : forall n b d names, ~ In n names -> selected (edit_bytes n b d) names = selected d names.
Proof.
  intros n b d names Hn. unfold selected, edit_bytes. induction d as [|x d IH]; [reflexivity|].
  cbn [map filter]. destruct (String.eqb (d_name x) n) eqn:E.
  - apply String.eqb_eq in E. change (d_name {| d_rec := d_rec x; d_bytes := b |}) with (d_name x).
    assert (Hm : C.mem (d_name x) names = false).
    { destruct (C.mem (d_name x) names) eqn:Em; [|reflexivity]. apply CF.mem_In in Em. rewrite E in Em. contradiction. }
    rewrite Hm. exact IH.
  - destruct (C.mem (d_name x) names); cbn [map]; [f_equal|]; exact IH.
Qed.

Lemma non_magefile_edit_keeps_files : forall su goos goarch isdir d names n b,
  C.magefiles su goos goarch isdir (recs d) = Some names -> ~ In n names ->
  hashed_files su goos goarch isdir (edit_bytes n b d) = hashed_files su goos goarch isdir d.
Proof.
  intros su goos goarch isdir d names n b E Hn. unfold hashed_files. rewrite recs_edit, E. cbn [option_map].
  rewrite selected_edit_other by exact Hn. reflexivity.
Qed.

(* an edit of a selected file: the contents before and after, around the one that changed *)
Lemma selected_edit_split : forall n b d names x, NoDup (map d_name d) -> In x d -> d_name x = n -> In n names ->
  exists c1 c2, contents (selected d names) = c1 ++ d_bytes x :: c2 /\
                contents (selected (edit_bytes n b d) names) = c1 ++ b :: c2.
Proof.
  intros n b d names x N Hx En Hn. apply in_split in Hx. destruct Hx as [d1 [d2 ->]].
  assert (Hother : forall l, (forall y, In y l -> d_name y <> n) -> edit_bytes n b l = l).
  { intros l Hl. unfold edit_bytes. rewrite <- (map_id l) at 2. apply map_ext_in. intros y Hy.
    destruct (String.eqb (d_name y) n) eqn:E; [apply String.eqb_eq in E; exfalso; exact (Hl y Hy E)|reflexivity]. }
  rewrite map_app in N. cbn [map] in N. rewrite En in N.
  assert (H1 : forall y, In y d1 -> d_name y <> n).
  { intros y Hy E. apply NoDup_remove_2 in N. apply N. apply in_or_app. left. rewrite <- E. apply in_map. exact Hy. }
  assert (H2 : forall y, In y d2 -> d_name y <> n).
  { intros y Hy E. apply NoDup_remove_2 in N. apply N. apply in_or_app. right. rewrite <- E. apply in_map. exact Hy. }
  assert (Hm : C.mem n names = true) by (apply CF.mem_In; exact Hn).
  exists (contents (selected d1 names)), (contents (selected d2 names)).
  unfold edit_bytes. rewrite map_app. cbn [map]. fold (edit_bytes n b d1). fold (edit_bytes n b d2).
  rewrite (Hother d1 H1), (Hother d2 H2). rewrite En, String.eqb_refl.
  unfold selected, contents. rewrite !filter_app. cbn [filter].
  change (d_name {| d_rec := d_rec x; d_bytes := b |}) with (d_name x).
  rewrite En, Hm. rewrite !map_app. cbn [map snd d_bytes]. split; reflexivity.
Qed.

Section Names.
Variable H : string -> string.
Variable tpl ver : string.
Variable D : string -> Prop.
Hypothesis H_shape : forall x, digest_ok (H x).
Hypothesis H_cf : collision_free H D.

(* ... changes the cache name (the property-relevant direction) *)
Lemma magefile_edit_changes_name : forall d names n b x,
  NoDup (map d_name d) -> In x d -> d_name x = n -> In n names -> d_bytes x <> b ->
  Forall D (hashed H tpl ver (selected d names)) -> Forall D (hashed H tpl ver (selected (edit_bytes n b d) names)) ->
  exe_name H tpl ver (selected (edit_bytes n b d) names) <> exe_name H tpl ver (selected d names).
Proof.
  intros d names n b x N Hx En Hn Hb HD HD' E.
  destruct (name_inj H D H_shape H_cf _ _ _ _ _ _ HD' HD E) as [HP _].
  destruct (selected_edit_split n b d names x N Hx En Hn) as [c1 [c2 [E1 E2]]].
  rewrite E1, E2 in HP. apply Permutation_app_inv_l in HP.
  change (Permutation ([b] ++ c2) ([d_bytes x] ++ c2)) in HP. apply Permutation_app_inv_r in HP.
  apply Permutation_length_1_inv in HP. injection HP as HP. congruence.
Qed.
End Names.

(* ---------------------------------------------------------------------------------------- *)
(* the directory choice: C10's choose_dir, C09's top-level invoke, C08's Paths.mage_dir        *)

Definition has_files (o : option (list string)) : bool := match o with Some (_ :: _) => true | _ => false end.

Lemma choose_dir_is_lifecycle_branch : forall su goos goarch has_sub top,
  C.choose_dir su goos goarch has_sub top =
    (if has_sub then (if has_files (C.magefiles su goos goarch false top) then C.Top else C.Sub) else C.Top).
Proof.
  intros. unfold C.choose_dir, has_files. destruct has_sub; [|reflexivity].
  destruct (C.magefiles su goos goarch false top) as [[|a l]|]; reflexivity.
Qed.

Lemma paths_mage_dir_is_choose_dir : forall su goos goarch top l,
  Paths.l_plain l = has_files (C.magefiles su goos goarch false top) ->
  Paths.mage_dir l = match C.choose_dir su goos goarch (Paths.l_mfdir l) top with
                     | C.Sub => Paths.magefiles_dir l | C.Top => Paths.dir0 l end.
Proof.
  intros su goos goarch top l Hp. rewrite choose_dir_is_lifecycle_branch. unfold Paths.mage_dir.
  rewrite Hp. destruct (Paths.l_mfdir l); [|reflexivity].
  destruct (has_files (C.magefiles su goos goarch false top)); reflexivity.
Qed.

(* Lifecycle.invoke_named (Invoke from its first line) takes the branches C10's choose_dir names,
   with [orig_has_files] = "Magefiles(originalDir) succeeded with a non-empty list", and runs the
   chosen directory with f_mfdir = the isMagefilesDirectory argument C10's invoke_magefiles gives
   to Magefiles: [top_named] (filepath.Base(inv.Dir) = "magefiles", i.e. `mage -d .../magefiles`)
   for the directory itself, true for its magefiles sub-directory. *)
Lemma lifecycle_invoke_follows_choose_dir : forall w faults fl su goos goarch tn top sub0 (d : L.fs),
  let ohf := has_files (C.magefiles su goos goarch false top) in
  let has_sub := match L.lookup (L.rs w d) L.magefilesDir with Some (L.Dir _) => true | _ => false end in
  match C.choose_dir su goos goarch has_sub top with
  | C.Top => C.invoke_magefiles su goos goarch has_sub tn top sub0 = (C.Top, C.magefiles su goos goarch tn top) /\
             exists d', L.invoke_named w faults fl tn ohf d = L.invoke_dir w faults (L.with_mfdir fl tn) d'
  | C.Sub => C.invoke_magefiles su goos goarch has_sub tn top sub0 = (C.Sub, C.magefiles su goos goarch true sub0) /\
             exists sub, L.lookup (L.rs w d) L.magefilesDir = Some (L.Dir sub) /\
                         L.invoke_named w faults fl tn ohf d =
                           (let '(sub2, c) := L.invoke_dir w faults (L.with_mfdir fl true) (L.rs w sub) in
                            (L.set L.magefilesDir (L.Dir sub2) (L.rs w d), c))
  end.
Proof.
  intros w faults fl su goos goarch tn top sub0 d ohf has_sub. unfold C.invoke_magefiles.
  rewrite choose_dir_is_lifecycle_branch. unfold has_sub, L.invoke_named. fold ohf.
  destruct (L.lookup (L.rs w d) L.magefilesDir) as [[b|sub|t]|]; try (split; [reflexivity|eexists; reflexivity]).
  destruct ohf; [split; [reflexivity|eexists; reflexivity]|]. split; [reflexivity|]. exists sub. split; reflexivity.
Qed.

(* the same for L.invoke, which is L.invoke_named with top_named = false *)
Lemma lifecycle_invoke_is_named : forall w faults fl ohf d, L.invoke w faults fl ohf d = L.invoke_named w faults fl false ohf d.
Proof. exact LF.invoke_is_named. Qed.

(* ---------------------------------------------------------------------------------------- *)
(* (2) C09's reuse-or-build branch is C08's cache decision                                    *)

Definition is_some {A} (o : option A) : bool := match o with Some _ => true | None => false end.

Section Decision.
Variable H : string -> string.
Variable program : Type.
Variable compile : string -> string -> fileset -> program.
Variable tpl : string.
Notation cstate := (Cache.state program).
Notation cinvoke := (Cache.invoke H program compile tpl).

(* C08 decided to run the stored binary *)
Definition reuses (o : Cache.outcome program) : bool := match o with Ran _ false _ => true | _ => false end.
Definition compiles (o : Cache.outcome program) : bool := match o with Ran _ true _ => true | _ => false end.

(* an invocation of the C08 model seen by the C09 model: the two external facts C09 takes from
   its [world] are the go tool's answer and "a file exists at ExeName(current files)"; the mode
   and -f are flags.  This is where "the same exe path" lives: [w_exe_cached] is the presence of
   an entry under C08's [exe_name] of the current files. *)
Definition agrees (w : L.world) (fl : L.flags) (st : cstate) (hf force gc : bool) : Prop :=
  L.f_hashfast fl = hf /\ L.f_force fl = force /\ L.f_compile fl = false /\
  L.w_gocache w = gc /\
  L.w_exe_cached w = is_some (Cache.lookup program (exe_name H tpl (ver program st) (dir program st)) (cache program st)).

Lemma reuse_condition : forall (st : cstate) hf force gc, dir program st <> [] ->
  reuses (snd (cinvoke st hf force gc)) =
    negb (negb hf && gc) && is_some (Cache.lookup program (exe_name H tpl (ver program st) (dir program st)) (cache program st)) && negb force /\
  compiles (snd (cinvoke st hf force gc)) = negb (reuses (snd (cinvoke st hf force gc))).
Proof.
  intros st hf force gc Hd. unfold Cache.invoke. destruct (dir program st) as [|p0 l0]; [congruence|].
  destruct hf, gc, force; cbn;
    try match goal with |- context [Cache.lookup ?a ?b ?c] => destruct (Cache.lookup a b c) end; cbn; split; reflexivity.
Qed.

(* the StatExe step of Invoke sets "reuse" exactly when C08's invoke runs the stored binary *)
Lemma statexe_is_cache_decision : forall w faults fl (st : cstate) hf force gc s,
  agrees w fl st hf force gc -> dir program st <> [] ->
  L.exec w faults fl L.StatExe s = L.Cont (if reuses (snd (cinvoke st hf force gc)) then L.with_reuse s else s).
Proof.
  intros w faults fl st hf force gc s (Eh & Ef & _ & Eg & Ec) Hd.
  rewrite (proj1 (reuse_condition st hf force gc Hd)). cbn [L.exec]. rewrite Eh, Ef, Eg, Ec.
  destruct hf, gc, force,
    (is_some (Cache.lookup program (exe_name H tpl (ver program st) (dir program st)) (cache program st))); reflexivity.
Qed.

(* no other step touches the flag, and `go build` is started exactly when it is not set *)
Lemma gobuild_iff_not_reuse : forall w faults fl s, faults L.GoBuild = false ->
  L.exec w faults fl L.GoBuild s = L.Cont (if L.s_reuse s then s else L.call L.GBuild s).
Proof. intros w faults fl s Hf. cbn [L.exec]. unfold L.fallible. rewrite Hf. destruct (L.s_reuse s); reflexivity. Qed.

(* the cache after the invocation: unchanged when the binary was reused; after a build the entry
   under the name of the current files is the build of the current files - what the next
   invocation's [w_exe_cached] and C08's invariant [Inv] are about *)
Lemma cache_after : forall (st : cstate) hf force gc, dir program st <> [] ->
  let st' := fst (cinvoke st hf force gc) in
  let n := exe_name H tpl (ver program st) (dir program st) in
  dir program st' = dir program st /\ ver program st' = ver program st /\ dep program st' = dep program st /\
  (if compiles (snd (cinvoke st hf force gc))
   then cache program st' = (n, compile (ver program st) (dep program st) (dir program st)) :: cache program st
   else cache program st' = cache program st) /\
  is_some (Cache.lookup program n (cache program st')) = true.
Proof.
  intros st hf force gc Hd st' n. subst st'.
  destruct (invoke_cases H program compile tpl st hf force gc Hd) as [E|[q [_ [_ [El E]]]]]; rewrite E; cbn.
  - repeat split. fold n. rewrite String.eqb_refl. reflexivity.
  - repeat split. fold n in El. rewrite El. reflexivity.
Qed.
End Decision.

(* the whole run, nothing failing, in a directory without a leftover: `go build` is among the go
   commands started exactly when C08's invoke compiles *)
Lemma calls_no_build : forall n s, In L.GBuild (L.s_calls (L.calls L.GList n s)) <-> In L.GBuild (L.s_calls s).
Proof.
  induction n as [|k IH]; intros s; cbn [L.calls]; [tauto|]. rewrite IH. cbn. split; [intros [E|E]; [discriminate E|exact E]|tauto].
Qed.

Lemma run_builds_iff_compiles : forall H program compile tpl w fl (st : Cache.state program) hf force gc (d : L.fs),
  agrees H program tpl w fl st hf force gc -> dir program st <> [] -> L.lookup d L.mainfile = None ->
  (In L.GBuild (L.o_calls (L.invoke_dir_full w LF.no_faults fl d)) <->
   compiles program (snd (Cache.invoke H program compile tpl st hf force gc)) = true).
Proof.
  intros H program compile tpl w fl st hf force gc d Ha Hd Hl.
  rewrite (proj2 (reuse_condition H program compile tpl st hf force gc Hd)).
  rewrite (proj1 (reuse_condition H program compile tpl st hf force gc Hd)).
  destruct Ha as (Eh & Ef & Ecmp & Eg & Ec). rewrite <- Ec, <- Eh, <- Ef, <- Eg. clear Ec Eh Ef Eg.
  assert (Hrs : L.remove_stale d = d) by (unfold L.remove_stale; rewrite Hl; reflexivity).
  destruct w as [wfixed wclean wgen wpart wlists wgoc wcached wimp wt].
  destruct fl as [fkeep fforce fhash fcomp fdebug fmf]. cbn in Ecmp. subst fcomp.
  unfold L.invoke_dir_full, L.all_steps, LF.no_faults.
  cbn [L.w_gocache L.w_exe_cached L.f_hashfast L.f_force].
  (* up to the decision *)
  assert (Hpre : forall wf, L.leftover_lists_ok
            {| L.w_fixed := wf; L.w_cleanup := wclean; L.w_gen := wgen; L.w_partial := wpart; L.w_lists_ok := wlists;
               L.w_gocache := wgoc; L.w_exe_cached := wcached; L.w_imports := wimp; L.w_tcode := wt |} d = true).
  { intros wf. unfold L.leftover_lists_ok. rewrite Hl. reflexivity. }
  change [L.RemoveStale; L.ListMage; L.ListNonMage; L.CheckFiles; L.HashFiles; L.GoVersion; L.GoEnvGocache; L.StatExe;
          L.Parse; L.GoListDir; L.GoListFiles; L.Dupes; L.CreateMain; L.WriteMain; L.CloseMain; L.Chtimes; L.RegisterDefer;
          L.DbgVersion; L.DbgEnv; L.GoBuild; L.RemoveMain; L.CompileExit; L.ExecBinary; L.TargetOutcome]
    with ([L.RemoveStale; L.ListMage; L.ListNonMage] ++
          [L.CheckFiles; L.HashFiles; L.GoVersion; L.GoEnvGocache; L.StatExe;
           L.Parse; L.GoListDir; L.GoListFiles; L.Dupes; L.CreateMain; L.WriteMain; L.CloseMain; L.Chtimes; L.RegisterDefer;
           L.DbgVersion; L.DbgEnv; L.GoBuild; L.RemoveMain; L.CompileExit; L.ExecBinary; L.TargetOutcome]).
  rewrite LF.run_app.
  match goal with |- context [L.run ?ww ?ff ?fll [L.RemoveStale; L.ListMage; L.ListNonMage] (L.init_state d)] =>
    assert (Hpre3 : L.run ww ff fll [L.RemoveStale; L.ListMage; L.ListNonMage] (L.init_state d) = (L.init_state d, None))
  end.
  { destruct wfixed, fmf; cbn -[L.lookup L.remove_stale]; rewrite ?Hrs; unfold L.leftover_lists_ok;
      cbn -[L.lookup L.remove_stale]; rewrite ?Hl; reflexivity. }
  rewrite Hpre3. clear Hpre3.
  destruct fhash, wgoc, wcached, fforce, fkeep, fdebug; destruct wimp as [|k];
    cbn -[L.calls Nat.mul L.lookup L.remove_stale L.set L.remove rev];
    rewrite ?Hl; cbn -[L.calls Nat.mul L.lookup L.remove_stale L.set L.remove rev];
    repeat match goal with
    | |- context [L.calls L.GList ?n ?s] =>
        let Q := fresh "Q" in let Q2 := fresh "Q" in
        pose proof (LF.calls_fields L.GList n s) as Q; pose proof (calls_no_build n s) as Q2;
        destruct (L.calls L.GList n s); cbn -[L.lookup L.set L.remove rev] in Q, Q2; destruct Q as (? & ? & ? & ? & ?); subst
    end;
    cbn -[L.lookup L.remove_stale L.set L.remove rev]; rewrite ?Hl; cbn -[L.lookup L.remove_stale L.set L.remove rev];
    rewrite <- ?in_rev; cbn; rewrite ?in_app_iff; cbn; intuition (try discriminate; try congruence).
Qed.

(* ---------------------------------------------------------------------------------------- *)
(* histories over whole directories                                                           *)

Lemma to_fs_no_leftover : forall d, (forall x, In x d -> d_name x <> L.mainfile) -> L.lookup (to_fs d) L.mainfile = None.
Proof.
  induction d as [|x d IH]; intros Hn; [reflexivity|]. cbn [to_fs map L.lookup].
  destruct (String.eqb L.mainfile (d_name x)) eqn:E.
  - apply String.eqb_eq in E. exfalso. apply (Hn x); [left; reflexivity|symmetry; exact E].
  - apply IH. intros y Hy. apply Hn. right. exact Hy.
Qed.

Section History.
Variable H : string -> string.
Variable program : Type.
Variable compile : string -> string -> fileset -> program.
Variable tpl : string.
Variable sel : ddir -> option fileset.     (* what an invocation hashes and compiles; below: C10's [hashed_files] *)

(* the state of a history: the WHOLE directory (magefiles or not), the imported packages, the
   toolchain, the cache *)
Record cstate := { c_dir : ddir; c_dep : string; c_ver : string; c_cache : list (string * program) }.

(* any change of the directory (edit, add, remove, rename, another header: all are "the directory
   is now d"), of the imported packages, of the toolchain; an invocation *)
Inductive cop := CSetDir (d : ddir) | CSetDep (b : string) | CSetVer (v : string) | CRun (hf force gc : bool).

(* C08's state for an invocation in s: its [dir] is the selected file set *)
Definition view (s : cstate) (fs : fileset) : Cache.state program :=
  {| dir := fs; dep := c_dep s; ver := c_ver s; cache := c_cache s |}.

(* an invocation leaves the directory alone BY DEFINITION here - that is what C08's model
   assumes of it ([Cache.invoke] keeps [dir]); [fresh_and_clean] below shows, with C09, that
   the step sequence of Invoke really does *)
Definition cstep (s : cstate) (o : cop) : cstate :=
  match o with
  | CSetDir d => {| c_dir := d; c_dep := c_dep s; c_ver := c_ver s; c_cache := c_cache s |}
  | CSetDep b => {| c_dir := c_dir s; c_dep := b; c_ver := c_ver s; c_cache := c_cache s |}
  | CSetVer v => {| c_dir := c_dir s; c_dep := c_dep s; c_ver := v; c_cache := c_cache s |}
  | CRun hf force gc =>
      match sel (c_dir s) with
      | Some fs => {| c_dir := c_dir s; c_dep := c_dep s; c_ver := c_ver s;
                      c_cache := cache program (fst (Cache.invoke H program compile tpl (view s fs) hf force gc)) |}
      | None => s                                  (* "Error determining list of magefiles": exit 1 *)
      end
  end.
Definition crun_ops (ops : list cop) (s : cstate) : cstate := fold_left cstep ops s.

(* what each invocation of a history ran *)
Fixpoint coutcomes (ops : list cop) (s : cstate) : list (Cache.outcome program) :=
  match ops with
  | [] => []
  | o :: r =>
      match o with
      | CRun hf force gc =>
          match sel (c_dir s) with
          | Some fs => [snd (Cache.invoke H program compile tpl (view s fs) hf force gc)]
          | None => []
          end
      | _ => []
      end ++ coutcomes r (cstep s o)
  end.

(* every string hashed at an invocation of the history *)
Fixpoint chashed_all (ops : list cop) (s : cstate) : list string :=
  match ops with
  | [] => []
  | o :: r =>
      match o with
      | CRun _ _ _ => match sel (c_dir s) with Some fs => hashed H tpl (c_ver s) fs | None => [] end
      | _ => []
      end ++ chashed_all r (cstep s o)
  end.

Variable D : string -> Prop.

Definition CInv (s : cstate) : Prop := Inv H program compile tpl D (view s []).

Fixpoint chashed_in (ops : list cop) (s : cstate) : Prop :=
  match ops with
  | [] => True
  | o :: r =>
      match o with
      | CRun _ _ _ => match sel (c_dir s) with Some fs => Forall D (hashed H tpl (c_ver s) fs) | None => True end
      | _ => True
      end /\ chashed_in r (cstep s o)
  end.

Lemma chashed_covers : forall ops s, (forall x, In x (chashed_all ops s) -> D x) -> chashed_in ops s.
Proof.
  induction ops as [|o ops IH]; intros s HP; [exact I|]. cbn [chashed_in chashed_all] in *. split.
  - destruct o; try exact I. destruct (sel (c_dir s)); [|exact I]. apply Forall_forall. intros x Hx.
    apply HP. apply in_or_app. left. exact Hx.
  - apply IH. intros x Hx. apply HP. apply in_or_app. right. exact Hx.
Qed.

Lemma cinv_empty : forall d b v, CInv {| c_dir := d; c_dep := b; c_ver := v; c_cache := [] |}.
Proof. intros d b v n p E. discriminate E. Qed.

Lemma crun_ops_inv : forall ops s, CInv s -> chashed_in ops s -> CInv (crun_ops ops s).
Proof.
  induction ops as [|o ops IH]; intros s HI HH; [exact HI|].
  destruct HH as [HD HH]. unfold crun_ops. cbn [fold_left]. apply IH; [|exact HH].
  destruct o; try exact HI. cbn [cstep]. destruct (sel (c_dir s)) as [fs|]; [|exact HI].
  exact (invoke_inv H program compile tpl D (view s fs) hf force gc HD HI).
Qed.

Hypothesis H_shape : forall x, digest_ok (H x).
Hypothesis H_cf : collision_free H D.

(* After any history, the next invocation - any mode, any -f, and WHATEVER external step of
   Invoke fails ([faults]) - (a) runs, when it gets that far, a program compiled by the current
   toolchain from a file set with the current multiset of SELECTED contents, (b) leaves the
   directory exactly as it found it, (c) takes C09's reuse branch exactly when C08's model
   reuses, and (d) leaves, after a build, the entry the next invocation will look up. *)
Lemma fresh_and_clean : forall ops s0, CInv s0 -> chashed_in ops s0 -> forall hf force gc,
  let cur := crun_ops ops s0 in
  forall fs, sel (c_dir cur) = Some fs -> fs <> [] -> Forall D (hashed H tpl (c_ver cur) fs) ->
  forall w faults fl,
  L.w_fixed w = true -> L.w_cleanup w = true -> L.f_keep fl = false ->
  (forall x, In x (c_dir cur) -> d_name x <> L.mainfile) ->
  agrees H program tpl w fl (view cur fs) hf force gc ->
  let out := snd (Cache.invoke H program compile tpl (view cur fs) hf force gc) in
  (exists c dd fs', out = Ran program c (compile (c_ver cur) dd fs') /\
                    Permutation (contents fs') (contents fs) /\ (c = true -> fs' = fs /\ dd = c_dep cur)) /\
  fst (L.invoke_dir w faults fl (to_fs (c_dir cur))) = to_fs (c_dir cur) /\
  (forall s, L.exec w faults fl L.StatExe s = L.Cont (if reuses program out then L.with_reuse s else s)) /\
  c_dir (cstep cur (CRun hf force gc)) = c_dir cur /\
  is_some (Cache.lookup program (exe_name H tpl (c_ver cur) fs) (c_cache (cstep cur (CRun hf force gc)))) = true.
Proof.
  intros ops s0 HI HH hf force gc cur fs Es Hne HD w faults fl Hfix Hcl Hk Hnl Hag out.
  assert (HIc : Inv H program compile tpl D (view cur fs)) by exact (crun_ops_inv ops s0 HI HH).
  split; [|split; [|split; [|split]]].
  - exact (invoke_fresh H program compile tpl D H_shape H_cf (view cur fs) hf force gc HIc HD Hne).
  - apply (LF.p_clean_noleftover w faults fl Hfix Hcl); [exact Hk|]. apply to_fs_no_leftover. exact Hnl.
  - intros s. apply statexe_is_cache_decision; [exact Hag|exact Hne].
  - cbn [cstep]. rewrite Es. reflexivity.
  - cbn [cstep]. rewrite Es. cbn [c_cache].
    exact (proj2 (proj2 (proj2 (proj2 (cache_after H program compile tpl (view cur fs) hf force gc Hne))))).
Qed.
End History.

(* ---------------------------------------------------------------------------------------- *)
(* a concrete directory: a tagged, an untagged and an other-platform file                     *)

Definition ex_su : C.startup := CF.su_linux ["HOME=/root"].
Definition ex_dir : ddir :=
  [ {| d_rec := CF.mk "helper.go" C.HNone; d_bytes := "package main // helper v1" |};
    {| d_rec := CF.mk "magefile.go" (C.HBuild (C.Tag "mage")); d_bytes := "//go:build mage // v1" |};
    {| d_rec := CF.mk "tasks_windows.go" (C.HBuild (C.Tag "mage")); d_bytes := "//go:build mage // win v1" |} ].
Definition ex_sel : ddir -> option fileset := hashed_files ex_su "" "" false.
Definition ex_dir1 : ddir := edit_bytes "tasks_windows.go" "//go:build mage // win v2" (edit_bytes "helper.go" "package main // helper v2" ex_dir).
Definition ex_dir2 : ddir := edit_bytes "magefile.go" "//go:build mage // v2" ex_dir1.
Definition ex_ops : list cop :=
  [CRun true false true; CSetDir ex_dir1; CRun true false true; CSetDir ex_dir2; CRun true false true; CRun false false true].
Definition ex_s0 : cstate (string * string * list string) :=
  {| c_dir := ex_dir; c_dep := "dep1"; c_ver := "go1"; c_cache := [] |}.
Definition ex_world (cached : bool) : L.world :=
  {| L.w_fixed := true; L.w_cleanup := true; L.w_gen := "GENERATED"; L.w_partial := "GENER";
     L.w_lists_ok := fun _ => true; L.w_gocache := true; L.w_exe_cached := cached; L.w_imports := 0; L.w_tcode := 7 |}.
Definition ex_flags (hf : bool) : L.flags :=
  {| L.f_keep := false; L.f_force := false; L.f_hashfast := hf; L.f_compile := false; L.f_debug := false; L.f_mfdir := false |}.

Lemma nonvacuous_bridge_c08_c10_c09 :
  NoDup (map d_name ex_dir) /\
  C.magefiles ex_su "" "" false (recs ex_dir) = Some ["magefile.go"] /\
  ex_sel ex_dir = Some [("magefile.go", "//go:build mage // v1")] /\
  ex_sel ex_dir1 = ex_sel ex_dir /\                       (* the untagged and the other-platform file changed *)
  ex_sel ex_dir2 = Some [("magefile.go", "//go:build mage // v2")] /\
  coutcomes toy_hash _ ex_compile "T" ex_sel ex_ops ex_s0 =
    [Ran _ true ("go1", "dep1", ["//go:build mage // v1"]); Ran _ false ("go1", "dep1", ["//go:build mage // v1"]);
     Ran _ true ("go1", "dep1", ["//go:build mage // v2"]); Ran _ true ("go1", "dep1", ["//go:build mage // v2"])] /\
  (* C09's run of the second and third invocation: reuse without `go build`, then a build; the directory is untouched *)
  L.invoke_dir_full (ex_world true) LF.no_faults (ex_flags true) (to_fs ex_dir1) =
    {| L.o_fs := to_fs ex_dir1; L.o_exit := 0; L.o_at := Some L.TargetOutcome; L.o_generated := false; L.o_calls := [L.GVersion] |} /\
  L.invoke_dir_full (ex_world false) LF.no_faults (ex_flags true) (to_fs ex_dir2) =
    {| L.o_fs := to_fs ex_dir2; L.o_exit := 0; L.o_at := Some L.TargetOutcome; L.o_generated := true; L.o_calls := [L.GVersion; L.GBuild] |} /\
  fst (L.invoke_dir (ex_world false) (LF.only L.GoBuild) (ex_flags true) (to_fs ex_dir2)) = to_fs ex_dir2 /\
  (forall x, In x ex_dir2 -> d_name x <> L.mainfile) /\
  (* the hypotheses of fresh_and_clean for this history *)
  (forall x, digest_ok (toy_hash x)) /\
  collision_free toy_hash (fun x => In x (chashed_all toy_hash _ ex_compile "T" ex_sel ex_ops ex_s0)) /\
  CInv toy_hash _ ex_compile "T" (fun x => In x (chashed_all toy_hash _ ex_compile "T" ex_sel ex_ops ex_s0)) ex_s0 /\
  chashed_in toy_hash _ ex_compile "T" ex_sel (fun x => In x (chashed_all toy_hash _ ex_compile "T" ex_sel ex_ops ex_s0)) ex_ops ex_s0.
Proof.
  split; [repeat constructor; simpl; intuition discriminate|].
  split; [vm_compute; reflexivity|]. split; [vm_compute; reflexivity|]. split; [vm_compute; reflexivity|].
  split; [vm_compute; reflexivity|]. split; [vm_compute; reflexivity|]. split; [vm_compute; reflexivity|].
  split; [vm_compute; reflexivity|]. split; [vm_compute; reflexivity|].
  split; [intros x Hx; simpl in Hx; intuition (subst; discriminate)|].
  split; [exact toy_hash_shape|]. split; [apply cf_check_sound; vm_compute; reflexivity|].
  split; [apply cinv_empty|]. apply chashed_covers. intros x Hx. exact Hx.
Qed.
