(* Bridge between C08 (Model/Cache.v: the cache name) and C20 (Model/Procs.v: concurrent
   invocations).  C20's non-interference theorems assume [content_addressed]: invocations whose
   cache names coincide have the same program.  Here the cache-name function of Model/Procs.v is
   instantiated with C08's [exe_name] (current definition: template hash appended after the sorted
   file hashes) and [content_addressed] is PROVED from C08_name_inj's hypotheses plus three named
   hypotheses about the go tool and the generator.

   Adapter.  Model/Procs.v abstracts the magefiles of a directory as ONE string ([Procs.contents]);
   Model/Cache.v has a file set, [list (name * bytes)].  [dec : string -> fileset] says which file
   set a directory string denotes; nothing is assumed about it (the theorems hold for every [dec]).
   The namespaces of the two models clash (dir, contents, program, step, ...): Model.Cache is
   imported, Model.Procs is used qualified. *)
From Mage Require Import Base.Strs Model.Cache Proof.Cache_facts.
From Mage Require Model.Procs Proof.Procs_facts.

Section Bridge.
Variable H : string -> string.                 (* SHA-1 as %x *)
Variable tpl ver : string.                     (* the main-file template, the `go version` line *)
Variable dec : Procs.contents -> fileset.      (* the adapter *)
Variable gen : Procs.contents -> option Procs.gentext.
Variable compile : Procs.envid -> Procs.contents -> Procs.gentext -> option Procs.program.
Variable behave : Procs.program -> Procs.dir -> Procs.args -> Procs.result.

(* Procs' [name], instantiated: mage.ExeName of the directory's magefiles *)
Definition name_of (c : Procs.contents) : Procs.ename := exe_name H tpl ver (dec c).

(* the strings hashed by the invocations lie in D *)
Definition hashed_by (D : string -> Prop) (invs : list Procs.inv) (fs : Procs.fsys) : Prop :=
  forall i iv, nth_error invs i = Some iv ->
    Forall D (hashed H tpl ver (dec (Procs.f_mf fs (Procs.i_dir iv)))).

(* the generated main file depends on the multiset of magefile contents only *)
Definition gen_perm : Prop :=
  forall a b, Permutation (contents (dec a)) (contents (dec b)) -> gen a = gen b.

(* C08's [compile_perm], with the generated text explicit as Procs has it: for one module
   context, what go build makes of the magefiles depends on the multiset of their contents only *)
Definition compile_perm : Prop :=
  forall e a b g, Permutation (contents (dec a)) (contents (dec b)) -> compile e a g = compile e b g.

(* NOTHING OUTSIDE THE MAGEFILES DIFFERS: whatever else `go build` reads in the directories of
   the invocations (go.mod, imported packages: Procs' [f_env]) does not make its output differ
   between them.  This does not follow from anything in C08 - the cache name does not cover it. *)
Definition no_external_inputs (invs : list Procs.inv) (fs : Procs.fsys) : Prop :=
  forall i j ivi ivj, nth_error invs i = Some ivi -> nth_error invs j = Some ivj ->
    forall c g, compile (Procs.f_env fs (Procs.i_dir ivi)) c g = compile (Procs.f_env fs (Procs.i_dir ivj)) c g.

(* two sufficient conditions *)
Lemma same_env_no_external_inputs : forall invs fs,
  (forall i j ivi ivj, nth_error invs i = Some ivi -> nth_error invs j = Some ivj ->
     Procs.f_env fs (Procs.i_dir ivi) = Procs.f_env fs (Procs.i_dir ivj)) ->
  no_external_inputs invs fs.
Proof. intros invs fs He i j ivi ivj Hi Hj c g. rewrite (He i j ivi ivj Hi Hj). reflexivity. Qed.

Lemma env_blind_no_external_inputs : forall invs fs,
  (forall e e' c g, compile e c g = compile e' c g) -> no_external_inputs invs fs.
Proof. intros invs fs Hb i j ivi ivj _ _ c g. apply Hb. Qed.

Section WithD.
Variable D : string -> Prop.
Hypothesis H_shape : forall x, digest_ok (H x).
Hypothesis H_cf : collision_free H D.

Lemma gives_content_addressed : forall invs fs,
  hashed_by D invs fs -> gen_perm -> compile_perm -> no_external_inputs invs fs ->
  Procs.content_addressed name_of gen compile invs fs.
Proof.
  intros invs fs HD Hg Hc He i j ivi ivj Hi Hj En. unfold name_of in En.
  destruct (name_inj H D H_shape H_cf _ _ _ _ _ _ (HD i ivi Hi) (HD j ivj Hj) En) as [HP _].
  unfold Procs.prog_of. rewrite (Hg _ _ HP).
  destruct (gen (Procs.f_mf fs (Procs.i_dir ivj))) as [g|]; [|reflexivity].
  rewrite (He i j ivi ivj Hi Hj). apply Hc. exact HP.
Qed.

Lemma distinct_dirs_from_C08 : forall invs fs0 sched i r,
  NoDup (map Procs.i_dir invs) ->
  hashed_by D invs fs0 -> gen_perm -> compile_perm -> no_external_inputs invs fs0 ->
  Procs.cache_sound name_of gen compile invs fs0 ->
  Procs.result_of (Procs.run name_of gen compile behave invs fs0 sched) i = Some r ->
  Procs.alone name_of gen compile behave invs fs0 i = Some r.
Proof.
  intros invs fs0 sched i r Hn HD Hg Hc He Hs Hr.
  eapply Procs_facts.distinct_dirs; eauto. apply gives_content_addressed; assumption.
Qed.

Lemma distinct_dirs_total_from_C08 : forall invs fs0 sched i,
  NoDup (map Procs.i_dir invs) ->
  hashed_by D invs fs0 -> gen_perm -> compile_perm -> no_external_inputs invs fs0 ->
  Procs.cache_sound name_of gen compile invs fs0 ->
  i < length invs -> Procs.fuel <= count_occ Nat.eq_dec sched i ->
  Procs.result_of (Procs.run name_of gen compile behave invs fs0 sched) i = Procs.alone name_of gen compile behave invs fs0 i /\
  exists r, Procs.alone name_of gen compile behave invs fs0 i = Some r.
Proof.
  intros invs fs0 sched i Hn HD Hg Hc He Hs Hi Hf.
  eapply Procs_facts.distinct_dirs_total; eauto. apply gives_content_addressed; assumption.
Qed.
End WithD.
End Bridge.

(* C08's own compile (toolchain, imported packages, file set), lifted to Procs' signature: the
   module context plays the role of [dep]; the generated text is a function of the files and is
   dropped.  C08's compile_perm gives the bridge's. *)
Definition lift_compile (dec : Procs.contents -> fileset) (cmp : string -> string -> fileset -> Procs.program) (ver : string)
  : Procs.envid -> Procs.contents -> Procs.gentext -> option Procs.program :=
  fun e c _ => Some (cmp ver e (dec c)).

Lemma lift_compile_perm : forall dec cmp ver,
  (forall v d a b, Permutation (contents a) (contents b) -> cmp v d a = cmp v d b) ->
  compile_perm dec (lift_compile dec cmp ver).
Proof. intros dec cmp ver Hc e a b g HP. unfold lift_compile. f_equal. apply Hc. exact HP. Qed.

(* WITHOUT [no_external_inputs] the conclusion is false, also with C08's exe_name as the name:
   Procs' own counterexample (identical magefiles, another imported package) carried over *)
Definition one_file (c : Procs.contents) : fileset := [("magefile.go", c)].

Lemma shared_entry_refuted_with_exe_name :
  let name := name_of toy_hash "T" "go1" one_file in
  exists invs fs0 sched,
    NoDup (map Procs.i_dir invs) /\
    gen_perm one_file Procs_facts.w_gen /\ compile_perm one_file Procs_facts.w_compile /\
    ~ no_external_inputs Procs_facts.w_compile invs fs0 /\
    Procs.result_of (Procs.run name Procs_facts.w_gen Procs_facts.w_compile Procs_facts.w_behave invs fs0 sched) 0 = Some ("envB/m", 0%Z) /\
    Procs.alone name Procs_facts.w_gen Procs_facts.w_compile Procs_facts.w_behave invs fs0 0 = Some ("envA/m", 0%Z).
Proof.
  intros name. exists Procs_facts.w_ctx_invs, Procs_facts.w_ctx_fs, Procs_facts.w_ctx_sched.
  assert (Hone : forall a b, Permutation (contents (one_file a)) (contents (one_file b)) -> a = b).
  { intros a b HP. simpl in HP. apply Permutation_length_1_inv in HP. congruence. }
  split; [repeat constructor; simpl; intuition discriminate|].
  split; [intros a b HP; rewrite (Hone a b HP); reflexivity|].
  split; [intros e a b g HP; rewrite (Hone a b HP); reflexivity|].
  split.
  - intros Hn. specialize (Hn 0 1 _ _ eq_refl eq_refl "m" ""). vm_compute in Hn. discriminate Hn.
  - split; vm_compute; reflexivity.
Qed.

(* non-vacuity: Procs' three invocations in three directories (two with identical magefiles, one
   in hash mode, one module context), the name being exe_name over a digest-shaped toy hash that
   is collision free on everything hashed: every hypothesis of distinct_dirs_from_C08 holds, and
   the interleaved results are the solo results *)
Definition nv_hashed : list string :=
  hashed toy_hash "T" "go1" (one_file "m") ++ hashed toy_hash "T" "go1" (one_file "k").

Lemma nonvacuous_bridge :
  let name := name_of toy_hash "T" "go1" one_file in
  let D := fun x => In x nv_hashed in
  (forall x, digest_ok (toy_hash x)) /\ collision_free toy_hash D /\
  NoDup (map Procs.i_dir Procs_facts.w_nv_invs) /\
  hashed_by toy_hash "T" "go1" one_file D Procs_facts.w_nv_invs Procs_facts.w_nv_fs /\
  gen_perm one_file Procs_facts.w_gen /\ compile_perm one_file Procs_facts.w_compile /\
  no_external_inputs Procs_facts.w_compile Procs_facts.w_nv_invs Procs_facts.w_nv_fs /\
  Procs.cache_sound name Procs_facts.w_gen Procs_facts.w_compile Procs_facts.w_nv_invs Procs_facts.w_nv_fs /\
  name "m" <> name "k" /\
  map (Procs.result_of (Procs.run name Procs_facts.w_gen Procs_facts.w_compile Procs_facts.w_behave
                          Procs_facts.w_nv_invs Procs_facts.w_nv_fs Procs_facts.w_nv_sched)) [0; 1; 2] =
    [Some ("env/m", 0%Z); Some ("env/m", 0%Z); Some ("env/k", 0%Z)] /\
  map (Procs.alone name Procs_facts.w_gen Procs_facts.w_compile Procs_facts.w_behave Procs_facts.w_nv_invs Procs_facts.w_nv_fs) [0; 1; 2] =
    [Some ("env/m", 0%Z); Some ("env/m", 0%Z); Some ("env/k", 0%Z)].
Proof.
  intros name D.
  assert (Hone : forall a b, Permutation (contents (one_file a)) (contents (one_file b)) -> a = b).
  { intros a b HP. simpl in HP. apply Permutation_length_1_inv in HP. congruence. }
  split; [exact toy_hash_shape|].
  split; [apply cf_check_sound; vm_compute; reflexivity|].
  split; [repeat constructor; simpl; intuition discriminate|].
  split.
  { intros i iv Hi. rewrite Forall_forall. intros x Hx. unfold D, nv_hashed. apply in_or_app.
    destruct i as [|[|[|i]]]; simpl in Hi; try (destruct i; discriminate Hi);
      injection Hi as <-; [left|left|right]; exact Hx. }
  split; [intros a b HP; rewrite (Hone a b HP); reflexivity|].
  split; [intros e a b g HP; rewrite (Hone a b HP); reflexivity|].
  split; [apply same_env_no_external_inputs; intros; reflexivity|].
  split; [intros i iv q _ Hq; discriminate Hq|].
  split; [vm_compute; discriminate|].
  split; vm_compute; reflexivity.
Qed.
