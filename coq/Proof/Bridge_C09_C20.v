(* Bridge between C09 (Model/Lifecycle.v: Invoke as its 24 ordered external steps over ONE
   directory, with fault oracles) and C20 (Model/Procs.v: an invocation as a list of atomic
   file-system steps, interleaved with others over one shared file system).

   For a SOLO invocation the two models are compared on three things:
   (1) the ORDER of the file-system steps: the sequence of program points Procs goes through is the
       projection ([proj]) of the steps Lifecycle's Invoke performs, on every path (no magefiles,
       cached executable reused, parse error, build failure, success), in every cache mode;
   (2) the EFFECT on the magefile directory and the exit status;
   (3) consequence: in any interleaving of invocations in pairwise distinct directories every
       directory ends as C09_clean says.

   Adapter.  Procs sees of a directory D: the magefile bytes [f_mf D], the module context
   [f_env D] (both never written) and whether D/mage_output_file.go exists ([f_main D]).
   Lifecycle has the whole directory as name -> entry.  [mf_of], [env_of] say which strings a
   directory denotes; the only thing assumed about them is that they do not look at
   mage_output_file.go ([blind]).  Model.Procs is used qualified (step, run, ... clash). *)
From Mage Require Import Base.Strs Model.Lifecycle Proof.Lifecycle_facts.
From Mage Require Model.Procs Proof.Procs_facts.

Definition is_some {A} (o : option A) : bool := match o with Some _ => true | None => false end.

Section Bridge.
Variable name : Procs.contents -> Procs.ename.
Variable gen : Procs.contents -> option Procs.gentext.
Variable compile : Procs.envid -> Procs.contents -> Procs.gentext -> option Procs.program.
Variable behave : Procs.program -> Procs.dir -> Procs.args -> Procs.result.
Notation pstep := (Procs.step name gen compile behave).

(* ---------------------------------------------------------------------------------------- *)
(* Procs, one invocation stepping alone                                                       *)

Fixpoint iter (n i : nat) (iv : Procs.inv) (fs : Procs.fsys) (p : Procs.proc) : Procs.fsys * Procs.proc :=
  match n with
  | O => (fs, p)
  | S k => let '(fs', p') := pstep i iv fs p in iter k i iv fs' p'
  end.

(* the program points it goes through *)
Fixpoint pcs (n i : nat) (iv : Procs.inv) (fs : Procs.fsys) (p : Procs.proc) : list Procs.pc :=
  match n with
  | O => []
  | S k => match Procs.p_pc p with
           | Procs.PDone => []
           | c => c :: (let '(fs', p') := pstep i iv fs p in pcs k i iv fs' p')
           end
  end.

(* the decisions of one invocation, read off the initial file system *)
Definition mf_empty (iv : Procs.inv) (fs : Procs.fsys) : bool := String.eqb (Procs.f_mf fs (Procs.i_dir iv)) "".
Definition use_gocache (iv : Procs.inv) : bool := if Procs.i_hashfast iv then false else Procs.i_gocache iv.
Definition cached (iv : Procs.inv) (fs : Procs.fsys) : bool :=
  is_some (Procs.f_cache fs (name (Procs.f_mf fs (Procs.i_dir iv)))).
Definition reuses (iv : Procs.inv) (fs : Procs.fsys) : bool :=
  negb (use_gocache iv) && cached iv fs && negb (Procs.i_force iv).
Definition built (iv : Procs.inv) (fs : Procs.fsys) : option Procs.program :=
  Procs.prog_of gen compile fs (Procs.i_dir iv).
(* the program that gets executed, if any *)
Definition ran (iv : Procs.inv) (fs : Procs.fsys) : option Procs.program :=
  if reuses iv fs then Procs.f_cache fs (name (Procs.f_mf fs (Procs.i_dir iv))) else built iv fs.
Definition outcome (iv : Procs.inv) (fs : Procs.fsys) : Procs.result :=
  if mf_empty iv fs then Procs.fail
  else match ran iv fs with
       | Some q => behave q (Procs.i_dir iv) (Procs.i_args iv)
       | None => Procs.fail
       end.

(* the paths through Invoke, in Procs' vocabulary *)
Definition path (empty reuse genfail buildfail : bool) : list Procs.pc :=
  [Procs.PStale; Procs.PList] ++
  if empty then [] else
  [Procs.PHash; Procs.PStat] ++
  if reuse then [Procs.PExecCached] else
  [Procs.PParse] ++
  if genfail then [] else
  [Procs.PCreate; Procs.PWrite; Procs.PChtimes; Procs.PBuild] ++
  if buildfail then [Procs.PFailRm] else [Procs.PRemove; Procs.PExec; Procs.PDeferRm].

Definition genfail (iv : Procs.inv) (fs : Procs.fsys) : bool :=
  negb (is_some (gen (Procs.f_mf fs (Procs.i_dir iv)))).
Definition buildfail (iv : Procs.inv) (fs : Procs.fsys) : bool := negb (is_some (built iv fs)).

(* both at once *)
Fixpoint walk (n i : nat) (iv : Procs.inv) (fs : Procs.fsys) (p : Procs.proc) : (Procs.fsys * Procs.proc) * list Procs.pc :=
  match n with
  | O => ((fs, p), [])
  | S k => match Procs.p_pc p with
           | Procs.PDone => (iter (S k) i iv fs p, [])
           | c => let '(fs', p') := pstep i iv fs p in
                  let '(r, l) := walk k i iv fs' p' in (r, c :: l)
           end
  end.

Lemma iter_done : forall n i iv fs p, Procs.p_pc p = Procs.PDone -> iter n i iv fs p = (fs, p).
Proof.
  induction n as [|k IH]; intros i iv fs p H; [reflexivity|].
  cbn [iter]. unfold Procs.step. rewrite H. apply IH. exact H.
Qed.

Lemma walk_spec : forall n i iv fs p, walk n i iv fs p = (iter n i iv fs p, pcs n i iv fs p).
Proof.
  induction n as [|k IH]; intros i iv fs p; [reflexivity|].
  cbn [walk pcs]. destruct (Procs.p_pc p) eqn:E; try reflexivity;
    cbn [iter]; destruct (pstep i iv fs p) as [fs' p']; rewrite IH; reflexivity.
Qed.

(* what a finished invocation is compared on *)
Definition summary (D : Procs.dir) (w : (Procs.fsys * Procs.proc) * list Procs.pc) :=
  (Procs.p_pc (snd (fst w)), Procs.p_res (snd (fst w)), Procs.f_main (fst (fst w)) D, snd w).

Lemma walk_S : forall k i iv fs p,
  walk (S k) i iv fs p =
    match Procs.p_pc p with
    | Procs.PDone => (iter (S k) i iv fs p, [])
    | c => let '(fs', p') := pstep i iv fs p in
           let '(r, l) := walk k i iv fs' p' in (r, c :: l)
    end.
Proof. reflexivity. Qed.

Lemma walk_done : forall n i iv fs p, Procs.p_pc p = Procs.PDone -> walk n i iv fs p = ((fs, p), []).
Proof.
  intros n i iv fs p H. rewrite walk_spec, iter_done by exact H.
  destruct n; cbn [pcs]; [|rewrite H]; reflexivity.
Qed.

(* one step of the walk, without letting the reduction run into the (15-way) continuation *)
Ltac pone := rewrite walk_S; cbn -[walk iter String.eqb Nat.eqb];
             rewrite ?Nat.eqb_refl, ?String.eqb_refl.
Ltac pend := rewrite walk_done by reflexivity; cbn -[String.eqb Nat.eqb]; rewrite ?Nat.eqb_refl, ?String.eqb_refl.

Section Paths.
Variable i : nat.
Variable D : Procs.dir.
Variables hf gc fo : bool.
Variable a : Procs.args.
Variables (mf : Procs.dir -> Procs.contents) (env : Procs.dir -> Procs.envid)
          (main : Procs.dir -> option (nat * Procs.mstate)) (cache : Procs.ename -> option Procs.program)
          (out : Procs.dir -> option Procs.program).
Let iv := {| Procs.i_dir := D; Procs.i_hashfast := hf; Procs.i_gocache := gc; Procs.i_force := fo; Procs.i_args := a |}.
Let fs := {| Procs.f_mf := mf; Procs.f_env := env; Procs.f_main := main; Procs.f_cache := cache; Procs.f_out := out |}.
Let p1 := Procs.goto Procs.proc0 Procs.PList.
Hypothesis Em : main D = None.

Lemma from_list_empty : String.eqb (mf D) "" = true ->
  summary D (walk 11 i iv fs p1) = (Procs.PDone, Procs.fail, None, [Procs.PList]).
Proof.
  intros Ee. unfold summary, iv, fs, p1. pone. rewrite Em, Ee. pend. rewrite Em. reflexivity.
Qed.

Lemma from_list_reuse : forall q0, String.eqb (mf D) "" = false ->
  (if hf then false else gc) = false -> cache (name (mf D)) = Some q0 -> fo = false ->
  summary D (walk 11 i iv fs p1) =
    (Procs.PDone, behave q0 D a, None, [Procs.PList; Procs.PHash; Procs.PStat; Procs.PExecCached]).
Proof.
  intros q0 Ee Hu Ec Hf. unfold summary, iv, fs, p1.
  pone. rewrite Em, Ee. pone. pone. rewrite Hu, Ec, Hf. pone. unfold Procs.exec_result.
  cbn [Procs.f_cache]. rewrite Ec. pend. rewrite Em. reflexivity.
Qed.

(* the executable is not reused: cache mode, or not in the cache, or -f *)
Definition rebuilds : Prop :=
  (if hf then false else gc) = true \/ cache (name (mf D)) = None \/ fo = true.

Ltac pstat Hr :=
  match goal with
  | |- context [if (if hf then false else gc) then _ else _] =>
      destruct (if hf then false else gc) eqn:?U;
      [|destruct (cache (name (mf D))) eqn:?C;
        [destruct fo eqn:?F; [|exfalso; unfold rebuilds in Hr; destruct Hr as [Hr|[Hr|Hr]]; congruence]|]]
  end.

Lemma from_list_genfail : String.eqb (mf D) "" = false -> rebuilds -> gen (mf D) = None ->
  summary D (walk 11 i iv fs p1) =
    (Procs.PDone, Procs.fail, None, [Procs.PList; Procs.PHash; Procs.PStat; Procs.PParse]).
Proof.
  intros Ee Hr Eg. unfold summary, iv, fs, p1.
  pone. rewrite Em, Ee. pone. pone.
  pstat Hr; (pone; rewrite Eg; pend; rewrite Em; reflexivity).
Qed.

Lemma from_list_buildfail : forall g, String.eqb (mf D) "" = false -> rebuilds -> gen (mf D) = Some g ->
  compile (env D) (mf D) g = None ->
  summary D (walk 11 i iv fs p1) =
    (Procs.PDone, Procs.fail, None,
     [Procs.PList; Procs.PHash; Procs.PStat; Procs.PParse; Procs.PCreate; Procs.PWrite; Procs.PChtimes; Procs.PBuild; Procs.PFailRm]).
Proof.
  intros g Ee Hr Eg Eq. unfold summary, iv, fs, p1.
  pone. rewrite Em, Ee. pone. pone.
  pstat Hr; (pone; rewrite Eg; pone; rewrite ?Em; pone; pone; pone; rewrite Eq; pone; pend; reflexivity).
Qed.

Lemma from_list_ok : forall g q, String.eqb (mf D) "" = false -> rebuilds -> gen (mf D) = Some g ->
  compile (env D) (mf D) g = Some q ->
  summary D (walk 11 i iv fs p1) =
    (Procs.PDone, behave q D a, None,
     [Procs.PList; Procs.PHash; Procs.PStat; Procs.PParse; Procs.PCreate; Procs.PWrite; Procs.PChtimes; Procs.PBuild;
      Procs.PRemove; Procs.PExec; Procs.PDeferRm]).
Proof.
  intros g q Ee Hr Eg Eq. unfold summary, iv, fs, p1.
  pone. rewrite Em, Ee. pone. pone.
  pstat Hr; (pone; rewrite Eg; pone; rewrite ?Em; pone; pone; pone; rewrite Eq; pone; pone;
             unfold Procs.exec_result; cbn -[walk iter String.eqb Nat.eqb]; rewrite ?String.eqb_refl; pone; cbn -[String.eqb Nat.eqb]; rewrite ?Nat.eqb_refl, ?String.eqb_refl; reflexivity).
Qed.
End Paths.

Lemma summary_cons : forall D c w,
  summary D (let '(r, l) := w in (r, c :: l)) =
    (let '(x, y, z, l) := summary D w in (x, y, z, c :: l)).
Proof. intros D c [[fsf pf] l]. reflexivity. Qed.

(* one invocation alone, from any file system: where it ends, what it returns, that its
   generated file is gone, and the program points it went through *)
Lemma solo_closed : forall i iv fs0,
  summary (Procs.i_dir iv) (walk Procs.fuel i iv fs0 Procs.proc0) =
    (Procs.PDone, outcome iv fs0, None,
     path (mf_empty iv fs0) (reuses iv fs0) (genfail iv fs0) (buildfail iv fs0)).
Proof.
  intros i [D hf gc fo a] [mf env main cache out].
  unfold Procs.fuel. rewrite walk_S. cbn [Procs.p_pc Procs.proc0].
  set (main1 := fun x => if Nat.eqb x D then None else main x).
  assert (Em : main1 D = None) by (unfold main1; rewrite Nat.eqb_refl; reflexivity).
  assert (S1 : pstep i {| Procs.i_dir := D; Procs.i_hashfast := hf; Procs.i_gocache := gc; Procs.i_force := fo; Procs.i_args := a |}
                 {| Procs.f_mf := mf; Procs.f_env := env; Procs.f_main := main; Procs.f_cache := cache; Procs.f_out := out |} Procs.proc0 =
               ({| Procs.f_mf := mf; Procs.f_env := env; Procs.f_main := main1; Procs.f_cache := cache; Procs.f_out := out |},
                Procs.goto Procs.proc0 Procs.PList) \/
               exists Emain : main D = None,
               pstep i {| Procs.i_dir := D; Procs.i_hashfast := hf; Procs.i_gocache := gc; Procs.i_force := fo; Procs.i_args := a |}
                 {| Procs.f_mf := mf; Procs.f_env := env; Procs.f_main := main; Procs.f_cache := cache; Procs.f_out := out |} Procs.proc0 =
               ({| Procs.f_mf := mf; Procs.f_env := env; Procs.f_main := main; Procs.f_cache := cache; Procs.f_out := out |},
                Procs.goto Procs.proc0 Procs.PList)).
  { unfold Procs.step. cbn [Procs.p_pc Procs.proc0 Procs.i_dir Procs.f_main].
    destruct (main D) eqn:E; [left; reflexivity|right; exists eq_refl; reflexivity]. }
  assert (G : forall mainx, mainx D = None ->
            summary D (walk 11 i {| Procs.i_dir := D; Procs.i_hashfast := hf; Procs.i_gocache := gc; Procs.i_force := fo; Procs.i_args := a |}
                         {| Procs.f_mf := mf; Procs.f_env := env; Procs.f_main := mainx; Procs.f_cache := cache; Procs.f_out := out |}
                         (Procs.goto Procs.proc0 Procs.PList)) =
            (Procs.PDone,
             outcome {| Procs.i_dir := D; Procs.i_hashfast := hf; Procs.i_gocache := gc; Procs.i_force := fo; Procs.i_args := a |}
                     {| Procs.f_mf := mf; Procs.f_env := env; Procs.f_main := main; Procs.f_cache := cache; Procs.f_out := out |},
             None,
             tl (path (String.eqb (mf D) "")
                   (negb (if hf then false else gc) && is_some (cache (name (mf D))) && negb fo)
                   (negb (is_some (gen (mf D))))
                   (negb (is_some (match gen (mf D) with Some g => compile (env D) (mf D) g | None => None end)))))).
  { intros mainx Ex.
    unfold outcome, ran, built, reuses, cached, use_gocache, mf_empty, Procs.prog_of.
    cbn [Procs.i_dir Procs.i_hashfast Procs.i_gocache Procs.i_force Procs.i_args Procs.f_mf Procs.f_env Procs.f_cache].
    destruct (String.eqb (mf D) "") eqn:Ee.
    { rewrite (from_list_empty i D hf gc fo a mf env mainx cache out Ex Ee). reflexivity. }
    destruct (if hf then false else gc) eqn:U; cbn [negb andb].
    - (* the go cache is relied on: always rebuild *)
      destruct (gen (mf D)) as [g|] eqn:Eg; [destruct (compile (env D) (mf D) g) as [q|] eqn:Eq|].
      + rewrite (from_list_ok i D hf gc fo a mf env mainx cache out Ex g q Ee (or_introl U) Eg Eq). reflexivity.
      + rewrite (from_list_buildfail i D hf gc fo a mf env mainx cache out Ex g Ee (or_introl U) Eg Eq). reflexivity.
      + rewrite (from_list_genfail i D hf gc fo a mf env mainx cache out Ex Ee (or_introl U) Eg). reflexivity.
    - destruct (cache (name (mf D))) as [q0|] eqn:Ec; cbn [is_some andb]; [destruct fo eqn:Ef; cbn [negb]|].
      + destruct (gen (mf D)) as [g|] eqn:Eg; [destruct (compile (env D) (mf D) g) as [q|] eqn:Eq|].
        * rewrite (from_list_ok i D hf gc true a mf env mainx cache out Ex g q Ee (or_intror (or_intror eq_refl)) Eg Eq). reflexivity.
        * rewrite (from_list_buildfail i D hf gc true a mf env mainx cache out Ex g Ee (or_intror (or_intror eq_refl)) Eg Eq). reflexivity.
        * rewrite (from_list_genfail i D hf gc true a mf env mainx cache out Ex Ee (or_intror (or_intror eq_refl)) Eg). reflexivity.
      + rewrite (from_list_reuse i D hf gc false a mf env mainx cache out Ex q0 Ee U Ec eq_refl). reflexivity.
      + destruct (gen (mf D)) as [g|] eqn:Eg; [destruct (compile (env D) (mf D) g) as [q|] eqn:Eq|].
        * rewrite (from_list_ok i D hf gc fo a mf env mainx cache out Ex g q Ee (or_intror (or_introl Ec)) Eg Eq). reflexivity.
        * rewrite (from_list_buildfail i D hf gc fo a mf env mainx cache out Ex g Ee (or_intror (or_introl Ec)) Eg Eq). reflexivity.
        * rewrite (from_list_genfail i D hf gc fo a mf env mainx cache out Ex Ee (or_intror (or_introl Ec)) Eg). reflexivity. }
  unfold mf_empty, reuses, cached, use_gocache, genfail, buildfail, built, Procs.prog_of.
  cbn [Procs.i_dir Procs.i_hashfast Procs.i_gocache Procs.i_force Procs.f_mf Procs.f_env Procs.f_cache].
  destruct S1 as [S1|[Emain S1]]; rewrite S1, summary_cons.
  - rewrite (G main1 Em). reflexivity.
  - rewrite (G main Emain). reflexivity.
Qed.

(* the components, without the walk.  (Only rewriting with equations between variables below:
   a conversion that has to unfold [iter] on both sides does not come back.) *)
Lemma summary_pair : forall D (x : Procs.fsys * Procs.proc) (l : list Procs.pc),
  summary D (x, l) = (Procs.p_pc (snd x), Procs.p_res (snd x), Procs.f_main (fst x) D, l).
Proof. reflexivity. Qed.

Lemma tuple4_inj : forall A B C E (a a' : A) (b b' : B) (c c' : C) (e e' : E),
  (a, b, c, e) = (a', b', c', e') -> a = a' /\ b = b' /\ c = c' /\ e = e'.
Proof. intros. injection H as -> -> -> ->. repeat split. Qed.

Lemma solo_parts : forall i iv fs0,
  Procs.p_pc (snd (iter Procs.fuel i iv fs0 Procs.proc0)) = Procs.PDone /\
  Procs.p_res (snd (iter Procs.fuel i iv fs0 Procs.proc0)) = outcome iv fs0 /\
  Procs.f_main (fst (iter Procs.fuel i iv fs0 Procs.proc0)) (Procs.i_dir iv) = None /\
  pcs Procs.fuel i iv fs0 Procs.proc0 = path (mf_empty iv fs0) (reuses iv fs0) (genfail iv fs0) (buildfail iv fs0).
Proof.
  intros i iv fs0.
  pose proof (solo_closed i iv fs0) as S.
  rewrite walk_spec in S. rewrite summary_pair in S.
  exact (tuple4_inj _ _ _ _ _ _ _ _ _ _ _ _ S).
Qed.
End Bridge.

(* ------------------------------------------------------------------------------------------ *)
(* Lifecycle: the steps Invoke performs, projected to Procs' program points                    *)

(* which program point of Procs a step of Invoke is.  None: the step is part of the preceding
   program point or touches no file: ListNonMage and CheckFiles are the rest of Magefiles() and
   the "no magefiles" exit inside PList; GoVersion is inside ExeName (PHash); GoEnvGocache is the
   cache-mode decision of PStat; GoListDir/GoListFiles/Dupes are inside parse.PrimaryPackage
   (PParse); CloseMain is inside PWrite; RegisterDefer, DbgVersion, DbgEnv, CompileExit touch no
   file; TargetOutcome is the result of PExec. *)
Definition proj (reuse : bool) (st : step) : option Procs.pc :=
  match st with
  | RemoveStale => Some Procs.PStale
  | ListMage => Some Procs.PList
  | HashFiles => Some Procs.PHash
  | StatExe => Some Procs.PStat
  | Parse => Some Procs.PParse
  | CreateMain => Some Procs.PCreate
  | WriteMain => Some Procs.PWrite
  | Chtimes => Some Procs.PChtimes
  | GoBuild => Some Procs.PBuild
  | RemoveMain => Some Procs.PRemove
  | ExecBinary => Some (if reuse then Procs.PExecCached else Procs.PExec)
  | _ => None
  end.

(* is the step performed in this state, or skipped by the flags / because the existing
   executable is reused?  (a skipped step does nothing at all: [skipped_noop]) *)
Definition performed (w : world) (fl : flags) (st : step) (s : state) : bool :=
  match st with
  | RemoveStale => w_fixed w
  | ListMage | CheckFiles | StatExe | ExecBinary | TargetOutcome => true
  | ListNonMage => negb (f_mfdir fl)
  | HashFiles | GoVersion => negb (f_compile fl)
  | GoEnvGocache => negb (f_hashfast fl)
  | Parse | Dupes | CreateMain | Chtimes | GoBuild => negb (s_reuse s)
  | GoListDir | GoListFiles => negb (s_reuse s) && match w_imports w with O => false | S _ => true end
  | WriteMain | CloseMain => is_some (s_fd s)
  | RegisterDefer | RemoveMain => negb (s_reuse s || f_keep fl)
  | DbgVersion | DbgEnv => negb (s_reuse s || negb (f_debug fl))
  | CompileExit => negb (s_reuse s) && f_compile fl
  end.

Lemma skipped_noop : forall w faults fl st s, performed w fl st s = false -> exec w faults fl st s = Cont s.
Proof.
  intros w faults fl st s H. destruct st; cbn [performed] in H; cbn [exec]; try discriminate.
  - rewrite H. reflexivity.
  - apply Bool.negb_false_iff in H. rewrite H. reflexivity.
  - apply Bool.negb_false_iff in H. rewrite H. reflexivity.
  - apply Bool.negb_false_iff in H. rewrite H. reflexivity.
  - apply Bool.negb_false_iff in H. rewrite H. reflexivity.
  - apply Bool.negb_false_iff in H. rewrite H. reflexivity.
  - destruct (s_reuse s); [reflexivity|]. destruct (w_imports w); [reflexivity|discriminate].
  - destruct (s_reuse s); [reflexivity|]. destruct (w_imports w); [reflexivity|discriminate].
  - apply Bool.negb_false_iff in H. rewrite H. reflexivity.
  - apply Bool.negb_false_iff in H. rewrite H. reflexivity.
  - destruct (s_fd s); [discriminate|reflexivity].
  - destruct (s_fd s); [discriminate|reflexivity].
  - apply Bool.negb_false_iff in H. rewrite H. reflexivity.
  - apply Bool.negb_false_iff in H. rewrite H. reflexivity.
  - apply Bool.negb_false_iff in H. rewrite H. reflexivity.
  - apply Bool.negb_false_iff in H. rewrite H. reflexivity.
  - apply Bool.negb_false_iff in H. rewrite H. reflexivity.
  - apply Bool.negb_false_iff in H. rewrite H. reflexivity.
  - rewrite H. reflexivity.
Qed.

Definition here (w : world) (fl : flags) (st : step) (s : state) : list Procs.pc :=
  if performed w fl st s then match proj (s_reuse s) st with Some c => [c] | None => [] end else [].

(* Lifecycle.run, also collecting the program points *)
Fixpoint mwalk (w : world) (faults : step -> bool) (fl : flags) (l : list step) (s : state)
  : (state * option (step * nat)) * list Procs.pc :=
  match l with
  | [] => ((s, None), [])
  | st :: r =>
      match exec w faults fl st s with
      | Cont s' => let '(x, t) := mwalk w faults fl r s' in (x, here w fl st s ++ t)
      | Exit c s' => ((s', Some (st, c)), here w fl st s)
      end
  end.

Lemma mwalk_run : forall w faults fl l s, fst (mwalk w faults fl l s) = run w faults fl l s.
Proof.
  induction l as [|st r IH]; intros s; cbn [mwalk run]; [reflexivity|].
  destruct (exec w faults fl st s) as [s'|c s']; [|reflexivity].
  rewrite <- IH. destruct (mwalk w faults fl r s'). reflexivity.
Qed.

Lemma mwalk_cons : forall w faults fl st r s,
  mwalk w faults fl (st :: r) s =
    match exec w faults fl st s with
    | Cont s' => let '(x, t) := mwalk w faults fl r s' in (x, here w fl st s ++ t)
    | Exit c s' => ((s', Some (st, c)), here w fl st s)
    end.
Proof. reflexivity. Qed.

(* the deferred os.RemoveAll(main): Procs calls it PFailRm after a failed build, PDeferRm at the end *)
Definition deferred_pc (s : state) (r : option (step * nat)) : list Procs.pc :=
  if s_defer s then
    match r with
    | Some (GoBuild, _) => [Procs.PFailRm]
    | _ => [Procs.PDeferRm]
    end
  else [].

(* directory afterwards, exit status, program points *)
Definition msummary (x : (state * option (step * nat)) * list Procs.pc) : fs * nat * list Procs.pc :=
  let '((s, r), t) := x in
  (finish s, match r with Some (_, c) => c | None => 0 end, t ++ deferred_pc s r).

Definition ptrace (w : world) (faults : step -> bool) (fl : flags) (d : fs) : list Procs.pc :=
  snd (msummary (mwalk w faults fl all_steps (init_state d))).

Lemma msummary_invoke : forall w faults fl d,
  fst (msummary (mwalk w faults fl all_steps (init_state d))) = invoke_dir w faults fl d.
Proof.
  intros. unfold invoke_dir, invoke_dir_full. rewrite <- mwalk_run.
  destruct (mwalk w faults fl all_steps (init_state d)) as [[s r] t]. cbn.
  destruct r as [[st c]|]; reflexivity.
Qed.

Lemma calls_record : forall c n s,
  calls c n s = {| s_fs := s_fs s; s_defer := s_defer s; s_reuse := s_reuse s; s_fd := s_fd s; s_gen := s_gen s;
                   s_calls := repeat c n ++ s_calls s |}.
Proof.
  intros c n. induction n as [|k IH]; intros s; cbn [calls repeat app]; [destruct s; reflexivity|].
  rewrite IH. cbn [call s_fs s_defer s_reuse s_fd s_gen s_calls]. f_equal.
  change (c :: s_calls s) with ([c] ++ s_calls s). rewrite app_assoc. f_equal.
  rewrite <- repeat_cons. reflexivity.
Qed.

(* the steps whose failure Procs can express: no magefiles, parse error, build failure, failing
   target; everything else succeeds *)
Definition expressible (st : step) : bool :=
  match st with CheckFiles | Parse | GoBuild | TargetOutcome => true | _ => false end.

Section Mine.
Variable w : world.
Variable faults : step -> bool.
Variable fl : flags.
Hypothesis Hfix : w_fixed w = true.
Hypothesis K : f_keep fl = false.
Hypothesis Cm : f_compile fl = false.
Hypothesis Mfd : f_mfdir fl = false.
Hypothesis Hs : forall st, expressible st = false -> faults st = false.

Definition reuse_c : bool :=
  negb (negb (f_hashfast fl) && w_gocache w) && (w_exe_cached w && negb (f_force fl)).
Definition tc : nat := if faults TargetOutcome then w_tcode w else 0.
Definition exit_c : nat :=
  if faults CheckFiles then 1 else if reuse_c then tc
  else if faults Parse then 1 else if faults GoBuild then 1 else tc.

Definition mk (d : fs) (df ru : bool) (fd : option string) (g : bool) (cl : list gocall) : state :=
  {| s_fs := d; s_defer := df; s_reuse := ru; s_fd := fd; s_gen := g; s_calls := cl |}.

Notation mw := (mwalk w faults fl).

Lemma mwalk_app : forall l1 l2 s,
  mw (l1 ++ l2) s =
    match mw l1 s with
    | ((s', None), t1) => let '(x, t2) := mw l2 s' in (x, t1 ++ t2)
    | ((s', Some e), t1) => ((s', Some e), t1)
    end.
Proof.
  induction l1 as [|st r IH]; intros l2 s; cbn [app mwalk].
  - destruct (mw l2 s) as [x t2]. reflexivity.
  - destruct (exec w faults fl st s) as [s'|c s']; [|reflexivity].
    rewrite IH. destruct (mw r s') as [[s'' [e|]] t1]; [reflexivity|].
    destruct (mw l2 s'') as [x t2]. rewrite app_assoc. reflexivity.
Qed.

Ltac mcbn :=
  cbn [exec fallible cleanup here performed proj is_some mk
       s_fs s_defer s_reuse s_fd s_gen s_calls with_fs with_defer with_reuse with_fd with_gen call init_state
       orb andb negb app].

Ltac mrew :=
  rewrite ?Hfix, ?K, ?Cm, ?Mfd,
    ?(Hs ListMage eq_refl), ?(Hs ListNonMage eq_refl), ?(Hs HashFiles eq_refl), ?(Hs GoVersion eq_refl),
    ?(Hs GoEnvGocache eq_refl), ?(Hs GoListDir eq_refl), ?(Hs GoListFiles eq_refl), ?(Hs Dupes eq_refl),
    ?(Hs CreateMain eq_refl), ?(Hs WriteMain eq_refl), ?(Hs CloseMain eq_refl), ?(Hs Chtimes eq_refl),
    ?(Hs ExecBinary eq_refl).

Ltac mone :=
  rewrite mwalk_cons; mcbn; unfold fallible, here, performed, leftover_lists_ok;
  rewrite ?calls_record; mcbn; mrew; mcbn.

Definition seg_a : list step := [ListMage; ListNonMage; CheckFiles; HashFiles; GoVersion; GoEnvGocache; StatExe].
Definition seg_b : list step := [Parse; GoListDir; GoListFiles; Dupes].
Definition seg_c : list step :=
  [CreateMain; WriteMain; CloseMain; Chtimes; RegisterDefer; DbgVersion; DbgEnv; GoBuild; RemoveMain; CompileExit;
   ExecBinary; TargetOutcome].

Lemma all_steps_segs : all_steps = [RemoveStale] ++ seg_a ++ seg_b ++ seg_c.
Proof. reflexivity. Qed.

Section Segs.
Variable d0 : fs.
Hypothesis E : lookup d0 mainfile = None.

Lemma seg_a_spec : forall cl,
  (faults CheckFiles = true ->
     exists cl', mw seg_a (mk d0 false false None false cl) =
       ((mk d0 false false None false cl', Some (CheckFiles, 1)), [Procs.PList])) /\
  (faults CheckFiles = false ->
     exists cl', mw seg_a (mk d0 false false None false cl) =
       ((mk d0 false reuse_c None false cl', None), [Procs.PList; Procs.PHash; Procs.PStat])).
Proof.
  intros cl. unfold seg_a, reuse_c. split; intros F.
  - mone. rewrite E. mcbn. mone. mone. rewrite F. eexists. reflexivity.
  - mone. rewrite E. mcbn. mone. mone. rewrite F. mone. mone.
    destruct (f_hashfast fl) eqn:H1; mcbn.
    + mone. rewrite H1. mcbn. mone. rewrite H1. mcbn.
      destruct (w_exe_cached w && negb (f_force fl)); mcbn; cbn [mwalk]; eexists; reflexivity.
    + mone. rewrite H1. mcbn. rewrite ?(Hs GoEnvGocache eq_refl). mone. rewrite H1. mcbn.
      destruct (w_gocache w); mcbn; [cbn [mwalk]; eexists; reflexivity|].
      destruct (w_exe_cached w && negb (f_force fl)); mcbn; cbn [mwalk]; eexists; reflexivity.
Qed.

Lemma seg_b_spec : forall ru cl,
  (ru = true -> mw seg_b (mk d0 false ru None false cl) = ((mk d0 false ru None false cl, None), [])) /\
  (ru = false -> faults Parse = true ->
     mw seg_b (mk d0 false ru None false cl) = ((mk d0 false ru None false cl, Some (Parse, 1)), [Procs.PParse])) /\
  (ru = false -> faults Parse = false ->
     exists cl', mw seg_b (mk d0 false ru None false cl) = ((mk d0 false ru None false cl', None), [Procs.PParse])).
Proof.
  intros ru cl. unfold seg_b. repeat split.
  - intros ->. mone. mone. mone. mone. reflexivity.
  - intros -> F. mone. rewrite F. reflexivity.
  - intros -> F. mone. rewrite F. destruct (w_imports w) eqn:I.
    + mone. rewrite I. mone. rewrite I. mone. cbn [mwalk]. eexists. reflexivity.
    + mone. rewrite I. mcbn. rewrite ?(Hs GoListDir eq_refl). mone. rewrite I. mcbn. rewrite ?(Hs GoListFiles eq_refl).
      rewrite ?calls_record. mcbn. mone. cbn [mwalk]. eexists. reflexivity.
Qed.

Lemma seg_c_spec : forall ru cl,
  (ru = true ->
     msummary (mw seg_c (mk d0 false ru None false cl)) = (d0, tc, [Procs.PExecCached])) /\
  (ru = false ->
     msummary (mw seg_c (mk d0 false ru None false cl)) =
       (d0, (if faults GoBuild then 1 else tc),
        [Procs.PCreate; Procs.PWrite; Procs.PChtimes; Procs.PBuild] ++
        if faults GoBuild then [Procs.PFailRm] else [Procs.PRemove; Procs.PExec; Procs.PDeferRm])).
Proof.
  intros ru cl. unfold seg_c, tc. split; intros ->.
  - mone. mone. mone. mone. mone. mone. mone. mone. mone. mone. mone. mone.
    cbn [msummary finish deferred_pc mk s_fs s_defer s_reuse s_fd s_gen s_calls with_fs with_defer with_reuse with_fd with_gen call app]. reflexivity.
  - mone. rewrite E. mcbn. rewrite ?(Hs CreateMain eq_refl). mone. mone. mone. mone. mone.
    destruct (f_debug fl) eqn:Dg; mcbn;
      (mone; rewrite ?Dg; mcbn; mone;
       destruct (faults GoBuild); mcbn;
       [cbn [msummary finish deferred_pc mk s_fs s_defer s_reuse s_fd s_gen s_calls with_fs with_defer with_reuse with_fd with_gen call app];
        rewrite ?remove_set, ?set_set, ?remove_idem, ?(remove_absent d0 mainfile E); reflexivity|];
       mone; mone; mone; mone;
       cbn [msummary finish deferred_pc mk s_fs s_defer s_reuse s_fd s_gen s_calls with_fs with_defer with_reuse with_fd with_gen call app];
       rewrite ?remove_set, ?set_set, ?remove_idem, ?(remove_absent d0 mainfile E); reflexivity).
Qed.
End Segs.

Lemma msummary_pre : forall pre x,
  msummary (let '(y, t) := x in (y, pre ++ t)) = (let '(a, b, t) := msummary x in (a, b, pre ++ t)).
Proof. intros pre [[s r] t]. cbn [msummary]. rewrite app_assoc. reflexivity. Qed.

(* the complete run: directory afterwards, exit status, program points *)
Lemma mine_closed : forall d, plain d ->
  msummary (mw all_steps (init_state d)) =
    (remove_stale d, exit_c, path (faults CheckFiles) reuse_c (faults Parse) (faults GoBuild)).
Proof.
  intros d Hd.
  assert (E : lookup (remove_stale d) mainfile = None).
  { rewrite stale_lookup_main. unfold plain in Hd. destruct (lookup d mainfile) as [[b|es|t]|]; try reflexivity; contradiction. }
  set (d0 := remove_stale d) in *.
  rewrite all_steps_segs. cbn [app]. rewrite mwalk_cons. cbn [exec]. rewrite Hfix.
  unfold here. cbn [performed proj]. rewrite Hfix.
  change (with_fs (init_state d) (remove_stale (s_fs (init_state d)))) with (mk d0 false false None false []).
  rewrite (msummary_pre [Procs.PStale]).
  unfold exit_c. rewrite mwalk_app.
  destruct (seg_a_spec d0 E []) as [A1 A2].
  destruct (faults CheckFiles) eqn:F.
  - destruct (A1 eq_refl) as [cl' ->]. reflexivity.
  - destruct (A2 eq_refl) as [cl' ->]. rewrite (msummary_pre [Procs.PList; Procs.PHash; Procs.PStat]).
    rewrite mwalk_app.
    destruct (seg_b_spec d0 reuse_c cl') as (B1 & B2 & B3).
    destruct (seg_c_spec d0 E reuse_c cl') as (C1 & _).
    destruct reuse_c eqn:R.
    + rewrite (B1 eq_refl). rewrite (msummary_pre []). rewrite (C1 eq_refl). reflexivity.
    + destruct (faults Parse) eqn:P.
      * rewrite (B2 eq_refl eq_refl). reflexivity.
      * destruct (B3 eq_refl eq_refl) as [cl'' ->]. rewrite (msummary_pre [Procs.PParse]).
        destruct (seg_c_spec d0 E false cl'') as (_ & C2). rewrite (C2 eq_refl).
        destruct (faults GoBuild); reflexivity.
Qed.
End Mine.

(* ------------------------------------------------------------------------------------------ *)
(* the two models side by side                                                                 *)

Section Tie.
Variable name : Procs.contents -> Procs.ename.
Variable gen : Procs.contents -> option Procs.gentext.
Variable compile : Procs.envid -> Procs.contents -> Procs.gentext -> option Procs.program.
Variable behave : Procs.program -> Procs.dir -> Procs.args -> Procs.result.
Variable imports : nat.        (* number of mage:import packages: Procs does not distinguish *)
Variable debug : bool.         (* -debug: Procs does not distinguish *)
Notation pstep := (Procs.step name gen compile behave).
Notation prun := (Procs.run name gen compile behave).
Notation prun_from := (Procs.run_from name gen compile behave).
Notation palone := (Procs.alone name gen compile behave).
Notation outcome := (outcome name gen compile behave).
Notation reuses := (reuses name).
Notation genfail := (genfail gen).
Notation buildfail := (buildfail gen compile).

(* Lifecycle's world, faults and flags for one invocation of Procs on a file system *)
Definition world_of (iv : Procs.inv) (fs : Procs.fsys) : world :=
  {| w_fixed := true; w_cleanup := true;
     w_gen := match gen (Procs.f_mf fs (Procs.i_dir iv)) with Some g => g | None => "" end;
     w_partial := ""; w_lists_ok := fun _ => true;
     w_gocache := Procs.i_gocache iv;
     w_exe_cached := cached name iv fs;
     w_imports := imports;
     w_tcode := Z.to_nat (snd (outcome iv fs)) |}.

Definition faults_of (iv : Procs.inv) (fs : Procs.fsys) : step -> bool :=
  fun st => match st with
            | CheckFiles => mf_empty iv fs
            | Parse => genfail iv fs
            | GoBuild => buildfail iv fs
            | TargetOutcome => negb (Z.eqb (snd (outcome iv fs)) 0)
            | _ => false
            end.

Definition flags_of (iv : Procs.inv) : flags :=
  {| f_keep := false; f_force := Procs.i_force iv; f_hashfast := Procs.i_hashfast iv; f_compile := false;
     f_debug := debug; f_mfdir := false |}.

Lemma faults_of_sparse : forall iv fs st, expressible st = false -> faults_of iv fs st = false.
Proof. intros iv fs st H. destruct st; try reflexivity; discriminate. Qed.

Lemma reuse_agrees : forall iv fs, reuse_c (world_of iv fs) (flags_of iv) = reuses iv fs.
Proof.
  intros [D hf gc fo a] fs. unfold reuse_c, Bridge_C09_C20.reuses, use_gocache, world_of, flags_of.
  cbn [f_hashfast f_force w_gocache w_exe_cached Procs.i_hashfast Procs.i_gocache Procs.i_force].
  destruct hf, gc, fo, (cached name _ fs); reflexivity.
Qed.

(* (1) step-order agreement, all modes and all paths at once *)
Lemma order_agrees : forall i iv fs0 d, plain d ->
  pcs name gen compile behave Procs.fuel i iv fs0 Procs.proc0 =
  ptrace (world_of iv fs0) (faults_of iv fs0) (flags_of iv) d.
Proof.
  intros i iv fs0 d Hd.
  destruct (solo_parts name gen compile behave i iv fs0) as (_ & _ & _ & S). rewrite S.
  unfold ptrace.
  rewrite (mine_closed (world_of iv fs0) (faults_of iv fs0) (flags_of iv) eq_refl eq_refl eq_refl eq_refl
             (faults_of_sparse iv fs0) d Hd).
  cbn [snd]. rewrite reuse_agrees. reflexivity.
Qed.

(* the four paths, per mode, as concrete lists *)
Lemma order_default_mode : forall iv fs0 d, plain d ->
  Procs.i_hashfast iv = false -> Procs.i_gocache iv = true ->
  mf_empty iv fs0 = false -> genfail iv fs0 = false -> buildfail iv fs0 = false ->
  ptrace (world_of iv fs0) (faults_of iv fs0) (flags_of iv) d =
    [Procs.PStale; Procs.PList; Procs.PHash; Procs.PStat; Procs.PParse; Procs.PCreate; Procs.PWrite; Procs.PChtimes;
     Procs.PBuild; Procs.PRemove; Procs.PExec; Procs.PDeferRm].
Proof.
  intros iv fs0 d Hd H1 H2 H3 H4 H5. rewrite <- (order_agrees 0 iv fs0 d Hd).
  destruct (solo_parts name gen compile behave 0 iv fs0) as (_ & _ & _ & S). rewrite S.
  unfold Bridge_C09_C20.reuses, use_gocache. rewrite H1, H2, H3, H4, H5. reflexivity.
Qed.

Lemma order_hash_warm : forall iv fs0 d, plain d ->
  Procs.i_hashfast iv = true -> Procs.i_force iv = false -> cached name iv fs0 = true -> mf_empty iv fs0 = false ->
  ptrace (world_of iv fs0) (faults_of iv fs0) (flags_of iv) d =
    [Procs.PStale; Procs.PList; Procs.PHash; Procs.PStat; Procs.PExecCached].
Proof.
  intros iv fs0 d Hd H1 H2 H3 H4. rewrite <- (order_agrees 0 iv fs0 d Hd).
  destruct (solo_parts name gen compile behave 0 iv fs0) as (_ & _ & _ & S). rewrite S.
  unfold Bridge_C09_C20.reuses, use_gocache. rewrite H1, H2, H3, H4. reflexivity.
Qed.

Lemma order_hash_cold_or_forced : forall iv fs0 d, plain d ->
  Procs.i_hashfast iv = true -> (cached name iv fs0 = false \/ Procs.i_force iv = true) ->
  mf_empty iv fs0 = false -> genfail iv fs0 = false -> buildfail iv fs0 = false ->
  ptrace (world_of iv fs0) (faults_of iv fs0) (flags_of iv) d =
    [Procs.PStale; Procs.PList; Procs.PHash; Procs.PStat; Procs.PParse; Procs.PCreate; Procs.PWrite; Procs.PChtimes;
     Procs.PBuild; Procs.PRemove; Procs.PExec; Procs.PDeferRm].
Proof.
  intros iv fs0 d Hd H1 H2 H3 H4 H5. rewrite <- (order_agrees 0 iv fs0 d Hd).
  destruct (solo_parts name gen compile behave 0 iv fs0) as (_ & _ & _ & S). rewrite S.
  unfold Bridge_C09_C20.reuses, use_gocache. rewrite H1, H3, H4, H5.
  destruct H2 as [H2|H2]; rewrite H2; cbn [negb andb]; [reflexivity|].
  destruct (cached name iv fs0); reflexivity.
Qed.

Lemma order_build_failure : forall iv fs0 d, plain d ->
  reuses iv fs0 = false -> mf_empty iv fs0 = false -> genfail iv fs0 = false -> buildfail iv fs0 = true ->
  ptrace (world_of iv fs0) (faults_of iv fs0) (flags_of iv) d =
    [Procs.PStale; Procs.PList; Procs.PHash; Procs.PStat; Procs.PParse; Procs.PCreate; Procs.PWrite; Procs.PChtimes;
     Procs.PBuild; Procs.PFailRm].
Proof.
  intros iv fs0 d Hd H1 H3 H4 H5. rewrite <- (order_agrees 0 iv fs0 d Hd).
  destruct (solo_parts name gen compile behave 0 iv fs0) as (_ & _ & _ & S). rewrite S.
  rewrite H1, H3, H4, H5. reflexivity.
Qed.

(* ---- Procs' system run with only invocation i stepping is [iter] ---- *)
Lemma run_solo : forall invs i iv, nth_error invs i = Some iv ->
  forall n s p, nth_error (Procs.s_procs s) i = Some p ->
  Procs.s_fs (prun_from invs s (repeat i n)) = fst (iter name gen compile behave n i iv (Procs.s_fs s) p) /\
  nth_error (Procs.s_procs (prun_from invs s (repeat i n))) i = Some (snd (iter name gen compile behave n i iv (Procs.s_fs s) p)).
Proof.
  intros invs i iv Hi. induction n as [|k IH]; intros s p Hp.
  - cbn. split; [reflexivity|exact Hp].
  - cbn [repeat].
    change (prun_from invs s (i :: repeat i k)) with (prun_from invs (Procs.sys_step name gen compile behave invs s i) (repeat i k)).
    cbn [iter]. destruct (pstep i iv (Procs.s_fs s) p) as [fs' p'] eqn:Es.
    assert (S1 : Procs.sys_step name gen compile behave invs s i =
                 {| Procs.s_fs := fs'; Procs.s_procs := Procs.set_nth (Procs.s_procs s) i p' |}).
    { unfold Procs.sys_step. rewrite Hi, Hp, Es. reflexivity. }
    rewrite S1.
    apply (IH {| Procs.s_fs := fs'; Procs.s_procs := Procs.set_nth (Procs.s_procs s) i p' |} p').
    cbn [Procs.s_procs]. eapply Procs_facts.nth_error_set_nth_eq. exact Hp.
Qed.

Lemma init_nth : forall invs fs0 i iv, nth_error invs i = Some iv ->
  nth_error (Procs.s_procs (Procs.init invs fs0)) i = Some Procs.proc0.
Proof.
  intros invs fs0 i iv H. unfold Procs.init. cbn [Procs.s_procs].
  rewrite (map_nth_error (fun _ => Procs.proc0) i invs H). reflexivity.
Qed.

(* what `alone` returns, and the directory when it has returned *)
Lemma alone_outcome : forall invs fs0 i iv, nth_error invs i = Some iv ->
  palone invs fs0 i = Some (outcome iv fs0) /\
  Procs.f_main (Procs.s_fs (prun invs fs0 (repeat i Procs.fuel))) (Procs.i_dir iv) = None.
Proof.
  intros invs fs0 i iv Hi.
  destruct (run_solo invs i iv Hi Procs.fuel (Procs.init invs fs0) Procs.proc0 (init_nth invs fs0 i iv Hi)) as [R1 R2].
  destruct (solo_parts name gen compile behave i iv fs0) as (S1 & S2 & S3 & _).
  change (Procs.s_fs (Procs.init invs fs0)) with fs0 in R1, R2.
  split.
  - unfold Procs.alone, Procs.result_of, Procs.run. rewrite R2, S1, S2. reflexivity.
  - unfold Procs.run. rewrite R1. exact S3.
Qed.

(* (2b) the exit status.  Lifecycle's exit status is a natural number, Procs' an integer: the
   comparison needs the program's status to be non-negative (it is: 0..255) *)
Lemma exit_agrees : forall iv fs0 d, plain d ->
  (forall q D a, (0 <= snd (behave q D a))%Z) ->
  Z.of_nat (snd (invoke_dir (world_of iv fs0) (faults_of iv fs0) (flags_of iv) d)) = snd (outcome iv fs0).
Proof.
  intros iv fs0 d Hd Hnn.
  rewrite <- msummary_invoke.
  rewrite (mine_closed (world_of iv fs0) (faults_of iv fs0) (flags_of iv) eq_refl eq_refl eq_refl eq_refl
             (faults_of_sparse iv fs0) d Hd).
  cbn [fst snd]. unfold exit_c, tc. rewrite reuse_agrees.
  cbn [faults_of w_tcode world_of].
  unfold Bridge_C09_C20.outcome, ran, Bridge_C09_C20.genfail, Bridge_C09_C20.buildfail, built.
  destruct (mf_empty iv fs0); [reflexivity|].
  destruct (reuses iv fs0) eqn:R.
  - (* the existing executable is reused: it is in the cache *)
    assert (C : cached name iv fs0 = true).
    { unfold Bridge_C09_C20.reuses in R. destruct (negb (use_gocache iv)), (cached name iv fs0), (negb (Procs.i_force iv)); try discriminate; reflexivity. }
    unfold cached in C. destruct (Procs.f_cache fs0 (name (Procs.f_mf fs0 (Procs.i_dir iv)))) as [q|]; [|discriminate].
    specialize (Hnn q (Procs.i_dir iv) (Procs.i_args iv)).
    destruct (Z.eqb_spec (snd (behave q (Procs.i_dir iv) (Procs.i_args iv))) 0) as [Z0|Z0]; cbn [negb].
    + rewrite Z0. reflexivity.
    + apply Z2Nat.id. exact Hnn.
  - unfold Procs.prog_of.
    destruct (gen (Procs.f_mf fs0 (Procs.i_dir iv))) as [g|]; cbn [is_some negb]; [|reflexivity].
    destruct (compile (Procs.f_env fs0 (Procs.i_dir iv)) (Procs.f_mf fs0 (Procs.i_dir iv)) g) as [q|]; cbn [is_some negb]; [|reflexivity].
    specialize (Hnn q (Procs.i_dir iv) (Procs.i_args iv)).
    destruct (Z.eqb_spec (snd (behave q (Procs.i_dir iv) (Procs.i_args iv))) 0) as [Z0|Z0]; cbn [negb].
    + rewrite Z0. reflexivity.
    + apply Z2Nat.id. exact Hnn.
Qed.

(* ---- what both models see of one directory ---- *)
Record dview := { v_mf : Procs.contents; v_env : Procs.envid; v_main : bool }.

Definition procs_view (fs : Procs.fsys) (D : Procs.dir) : dview :=
  {| v_mf := Procs.f_mf fs D; v_env := Procs.f_env fs D; v_main := is_some (Procs.f_main fs D) |}.

Variable mf_of : fs -> Procs.contents.        (* the magefile bytes of a directory *)
Variable env_of : fs -> Procs.envid.          (* its module context *)
Definition dir_view (d : fs) : dview :=
  {| v_mf := mf_of d; v_env := env_of d; v_main := is_some (lookup d mainfile) |}.

(* the adapters do not look at mage_output_file.go *)
Definition blind {A} (f : fs -> A) : Prop :=
  forall d d', (forall n, n <> mainfile -> lookup d n = lookup d' n) -> f d = f d'.

Lemma view_after_clean : forall d, plain d -> blind mf_of -> blind env_of ->
  dir_view (remove_stale d) = {| v_mf := mf_of d; v_env := env_of d; v_main := false |}.
Proof.
  intros d Hd Bm Be. unfold dir_view.
  rewrite (Bm (remove_stale d) d) by (intros n Hn; apply stale_lookup_other; exact Hn).
  rewrite (Be (remove_stale d) d) by (intros n Hn; apply stale_lookup_other; exact Hn).
  rewrite stale_lookup_main. unfold plain in Hd.
  destruct (lookup d mainfile) as [[b|es|t]|]; try contradiction; reflexivity.
Qed.

(* frame: mage never writes magefiles or module context *)
Lemma run_from_frame : forall invs sched s,
  Procs.f_mf (Procs.s_fs (prun_from invs s sched)) = Procs.f_mf (Procs.s_fs s) /\
  Procs.f_env (Procs.s_fs (prun_from invs s sched)) = Procs.f_env (Procs.s_fs s).
Proof.
  intros invs. induction sched as [|i r IH]; intros s; [split; reflexivity|].
  change (prun_from invs s (i :: r)) with (prun_from invs (Procs.sys_step name gen compile behave invs s i) r).
  destruct (IH (Procs.sys_step name gen compile behave invs s i)) as [I1 I2]. rewrite I1, I2.
  unfold Procs.sys_step.
  destruct (nth_error invs i) as [iv|]; [|split; reflexivity].
  destruct (nth_error (Procs.s_procs s) i) as [p|]; [|split; reflexivity].
  destruct (pstep i iv (Procs.s_fs s) p) as [fs' p'] eqn:Es. cbn [Procs.s_fs].
  destruct (Procs_facts.step_frame name gen compile behave _ _ _ _ _ _ Es) as (F1 & F2 & _). split; assumption.
Qed.

(* (2a) effect on the directory of a solo invocation: for EVERY fault assignment of Lifecycle
   (repaired code, no -keep) both models end with the same view of the directory *)
Lemma effect_agrees_solo : forall invs fs0 i iv w faults fl d,
  nth_error invs i = Some iv ->
  w_fixed w = true -> w_cleanup w = true -> f_keep fl = false ->
  plain d -> blind mf_of -> blind env_of ->
  v_mf (procs_view fs0 (Procs.i_dir iv)) = v_mf (dir_view d) ->
  v_env (procs_view fs0 (Procs.i_dir iv)) = v_env (dir_view d) ->
  procs_view (Procs.s_fs (prun invs fs0 (repeat i Procs.fuel))) (Procs.i_dir iv) =
  dir_view (fst (invoke_dir w faults fl d)).
Proof.
  intros invs fs0 i iv w faults fl d Hi Hf Hc K Hd Bm Be V1 V2.
  rewrite (p_clean w faults fl Hf Hc d K (plain_nolink d Hd)).
  rewrite (view_after_clean d Hd Bm Be).
  destruct (alone_outcome invs fs0 i iv Hi) as [_ M].
  unfold procs_view. rewrite M.
  destruct (run_from_frame invs (repeat i Procs.fuel) (Procs.init invs fs0)) as [F1 F2].
  unfold Procs.run. rewrite F1, F2. cbn [Procs.s_fs Procs.init is_some].
  cbn [procs_view dir_view v_mf v_env] in V1, V2. rewrite V1, V2. reflexivity.
Qed.

(* ---- (3) any interleaving, pairwise distinct directories ---- *)

(* outside the window Create..Remove the generated file of the invocation's directory does not exist *)
Definition mainfree (iv : Procs.inv) (fs : Procs.fsys) (p : Procs.proc) : Prop :=
  match Procs.p_pc p with
  | Procs.PList | Procs.PHash | Procs.PStat | Procs.PParse | Procs.PCreate | Procs.PExec | Procs.PExecCached | Procs.PDone =>
      Procs.f_main fs (Procs.i_dir iv) = None
  | _ => True
  end.

Lemma upd_main_none : forall fs D, Procs.f_main (Procs.upd_main fs D None) D = None.
Proof. intros. cbn. rewrite Nat.eqb_refl. reflexivity. Qed.

Ltac brk H :=
  repeat match type of H with
         | context [match ?x with _ => _ end] => let E := fresh "E" in destruct x eqn:E
         | context [if ?x then _ else _] => let E := fresh "E" in destruct x eqn:E
         end.

Lemma mainfree_own : forall i iv fs p fs' p', mainfree iv fs p -> pstep i iv fs p = (fs', p') -> mainfree iv fs' p'.
Proof.
  intros i iv fs p fs' p' M H. unfold mainfree in *. unfold Procs.step in H.
  destruct (Procs.p_pc p) eqn:PC; brk H; inversion H; subst; clear H; cbn [Procs.p_pc Procs.goto Procs.with_res];
    try exact I; try exact M; try apply upd_main_none; try assumption; try congruence;
    try (rewrite PC; exact M).
Qed.

Lemma nodup_dirs : forall invs i j ivi ivj, NoDup (map Procs.i_dir invs) ->
  nth_error invs i = Some ivi -> nth_error invs j = Some ivj -> i <> j -> Procs.i_dir ivi <> Procs.i_dir ivj.
Proof.
  intros invs i j ivi ivj ND Hi Hj Hne Heq. apply Hne.
  apply (proj1 (NoDup_nth_error (map Procs.i_dir invs)) ND).
  - rewrite map_length. apply nth_error_Some. congruence.
  - rewrite (map_nth_error Procs.i_dir i invs Hi), (map_nth_error Procs.i_dir j invs Hj). congruence.
Qed.

Definition all_mainfree (invs : list Procs.inv) (s : Procs.sys) : Prop :=
  forall j ivj pj, nth_error invs j = Some ivj -> nth_error (Procs.s_procs s) j = Some pj -> mainfree ivj (Procs.s_fs s) pj.

Lemma all_mainfree_step : forall invs s i, NoDup (map Procs.i_dir invs) ->
  all_mainfree invs s -> all_mainfree invs (Procs.sys_step name gen compile behave invs s i).
Proof.
  intros invs s i ND J. unfold Procs.sys_step.
  destruct (nth_error invs i) as [iv|] eqn:Ei; [|exact J].
  destruct (nth_error (Procs.s_procs s) i) as [p|] eqn:Ep; [|exact J].
  destruct (pstep i iv (Procs.s_fs s) p) as [fs' p'] eqn:Es.
  intros j ivj pj Hj Hpj. cbn [Procs.s_fs Procs.s_procs] in *.
  destruct (Nat.eq_dec j i) as [->|Hne].
  - rewrite (Procs_facts.nth_error_set_nth_eq _ _ _ _ _ Ep) in Hpj. injection Hpj as <-.
    rewrite Ei in Hj. injection Hj as <-. eapply mainfree_own; [|exact Es]. exact (J i iv p Ei Ep).
  - rewrite Procs_facts.nth_error_set_nth_neq in Hpj by congruence.
    pose proof (J j ivj pj Hj Hpj) as M.
    destruct (Procs_facts.step_frame name gen compile behave _ _ _ _ _ _ Es) as (_ & _ & F3 & _).
    unfold mainfree in *. rewrite (F3 (Procs.i_dir ivj)); [exact M|].
    apply (nodup_dirs invs j i ivj iv ND Hj Ei Hne).
Qed.

Lemma all_mainfree_run : forall invs sched s, NoDup (map Procs.i_dir invs) ->
  all_mainfree invs s -> all_mainfree invs (prun_from invs s sched).
Proof.
  intros invs. induction sched as [|i r IH]; intros s ND J; [exact J|].
  change (prun_from invs s (i :: r)) with (prun_from invs (Procs.sys_step name gen compile behave invs s i) r).
  apply IH; [exact ND|]. apply all_mainfree_step; assumption.
Qed.

(* in ANY interleaving of invocations in pairwise distinct directories: once invocation i has
   returned, its generated file is gone and nothing else of its directory has changed *)
Lemma finished_dir : forall invs fs0 sched i iv r, NoDup (map Procs.i_dir invs) ->
  nth_error invs i = Some iv -> Procs.result_of (prun invs fs0 sched) i = Some r ->
  procs_view (Procs.s_fs (prun invs fs0 sched)) (Procs.i_dir iv) =
    {| v_mf := Procs.f_mf fs0 (Procs.i_dir iv); v_env := Procs.f_env fs0 (Procs.i_dir iv); v_main := false |}.
Proof.
  intros invs fs0 sched i iv r ND Hi Hr.
  assert (J : all_mainfree invs (prun invs fs0 sched)).
  { apply all_mainfree_run; [exact ND|].
    intros j ivj pj Hj Hpj. rewrite (init_nth invs fs0 j ivj Hj) in Hpj. injection Hpj as <-. exact I. }
  unfold Procs.result_of in Hr.
  destruct (nth_error (Procs.s_procs (prun invs fs0 sched)) i) as [p|] eqn:Ep; [|discriminate].
  pose proof (J i iv p Hi Ep) as M. unfold mainfree in M.
  destruct (Procs.p_pc p); try discriminate.
  destruct (run_from_frame invs sched (Procs.init invs fs0)) as [F1 F2].
  unfold procs_view. rewrite M. unfold Procs.run. rewrite F1, F2. reflexivity.
Qed.

(* (3) ... which is what C09_clean says of that directory, for every fault assignment *)
Lemma interleaved_dir_is_clean : forall invs fs0 sched i iv r w faults fl d,
  NoDup (map Procs.i_dir invs) -> nth_error invs i = Some iv ->
  Procs.result_of (prun invs fs0 sched) i = Some r ->
  w_fixed w = true -> w_cleanup w = true -> f_keep fl = false ->
  plain d -> blind mf_of -> blind env_of ->
  v_mf (procs_view fs0 (Procs.i_dir iv)) = v_mf (dir_view d) ->
  v_env (procs_view fs0 (Procs.i_dir iv)) = v_env (dir_view d) ->
  procs_view (Procs.s_fs (prun invs fs0 sched)) (Procs.i_dir iv) = dir_view (fst (invoke_dir w faults fl d)).
Proof.
  intros invs fs0 sched i iv r w faults fl d ND Hi Hr Hf Hc K Hd Bm Be V1 V2.
  rewrite (finished_dir invs fs0 sched i iv r ND Hi Hr).
  rewrite (p_clean w faults fl Hf Hc d K (plain_nolink d Hd)).
  rewrite (view_after_clean d Hd Bm Be).
  cbn [procs_view dir_view v_mf v_env] in V1, V2. rewrite V1, V2. reflexivity.
Qed.

(* ... and its result is the one Lifecycle's run of that invocation alone has (C20_distinct_dirs) *)
Lemma interleaved_result : forall invs fs0 sched i iv r d,
  NoDup (map Procs.i_dir invs) ->
  Procs.content_addressed name gen compile invs fs0 -> Procs.cache_sound name gen compile invs fs0 ->
  nth_error invs i = Some iv -> Procs.result_of (prun invs fs0 sched) i = Some r ->
  plain d -> (forall q D a, (0 <= snd (behave q D a))%Z) ->
  r = outcome iv fs0 /\
  Z.of_nat (snd (invoke_dir (world_of iv fs0) (faults_of iv fs0) (flags_of iv) d)) = snd r.
Proof.
  intros invs fs0 sched i iv r d ND Ca Cs Hi Hr Hd Hnn.
  pose proof (Procs_facts.distinct_dirs name gen compile behave invs fs0 sched i r ND Ca Cs Hr) as A.
  destruct (alone_outcome invs fs0 i iv Hi) as [A' _]. rewrite A' in A. injection A as <-.
  split; [reflexivity|]. apply exit_agrees; assumption.
Qed.
End Tie.

(* ------------------------------------------------------------------------------------------ *)
(* non-vacuity: Procs' own example invocations against Lifecycle                               *)

Definition nv_dir : fs :=
  [("magefile.go", File "m"); ("go.mod", File "env"); ("notes", Dir [("x", File "1")]); (mainfile, File "stale")].
Definition nv_mf (d : fs) : Procs.contents := match lookup d "magefile.go" with Some (File b) => b | _ => "" end.
Definition nv_env (d : fs) : Procs.envid := match lookup d "go.mod" with Some (File b) => b | _ => "" end.
Definition nv_fs : Procs.fsys :=
  {| Procs.f_mf := fun _ => "m"; Procs.f_env := fun _ => "env";
     Procs.f_main := fun D => if Nat.eqb D 0 then Some (7, Procs.Partial) else None; Procs.f_cache := fun _ => None;
     Procs.f_out := fun _ => None |}.

Lemma nv_blind : blind nv_mf /\ blind nv_env.
Proof.
  split; intros d d' H; unfold nv_mf, nv_env; rewrite (H _); try reflexivity; unfold mainfile; discriminate.
Qed.

Lemma nonvacuous_bridge :
  let iv := Procs_facts.w_inv 0 false in
  let W := world_of Procs_facts.w_name Procs_facts.w_gen Procs_facts.w_compile Procs_facts.w_behave 1 iv nv_fs in
  let F := faults_of Procs_facts.w_name Procs_facts.w_gen Procs_facts.w_compile Procs_facts.w_behave iv nv_fs in
  plain nv_dir /\
  pcs Procs_facts.w_name Procs_facts.w_gen Procs_facts.w_compile Procs_facts.w_behave Procs.fuel 0 iv nv_fs Procs.proc0 =
    [Procs.PStale; Procs.PList; Procs.PHash; Procs.PStat; Procs.PParse; Procs.PCreate; Procs.PWrite; Procs.PChtimes;
     Procs.PBuild; Procs.PRemove; Procs.PExec; Procs.PDeferRm] /\
  ptrace W F (flags_of false iv) nv_dir =
    [Procs.PStale; Procs.PList; Procs.PHash; Procs.PStat; Procs.PParse; Procs.PCreate; Procs.PWrite; Procs.PChtimes;
     Procs.PBuild; Procs.PRemove; Procs.PExec; Procs.PDeferRm] /\
  invoke_dir W F (flags_of false iv) nv_dir = (remove mainfile nv_dir, 0) /\
  Procs.alone Procs_facts.w_name Procs_facts.w_gen Procs_facts.w_compile Procs_facts.w_behave [iv] nv_fs 0 = Some ("env/m", 0%Z) /\
  procs_view (Procs.s_fs (Procs.run Procs_facts.w_name Procs_facts.w_gen Procs_facts.w_compile Procs_facts.w_behave [iv] nv_fs (repeat 0 Procs.fuel))) 0 =
    dir_view nv_mf nv_env (fst (invoke_dir W F (flags_of false iv) nv_dir)).
Proof. vm_compute. repeat split. Qed.
