(* Bridge C11 (Model/Flags.v) -> C12 (Model/Timeout.v) and C05 (Model/ExitChain.v, with C04's Dispatch through
   Proof/Bridge_C04_C05.v).

   The three units describe the same command line independently:
     - Flags.v starts AFTER Go's flag package: `flags` / `cflags` are "which options were given, with which value";
     - ExitChain.v takes the verdict of the flag package (`flagparse`: ok / -help / bad) and the number of words
       left over as INPUT data, Timeout.v takes "the timeout the program runs with" (d, 0 = none) as input.
   What is missing between them is the flag package itself.  This file adds it as the explicit translation:

     [cl_parse spec words]  a transcription of FlagSet.Parse / parseOne (Go 1.23 src/flag/flag.go:1145-1230,
                            ErrorHandling = ContinueOnError, which is what the zero-value flag.FlagSet{} of
                            mage/main.go:184 and mage/template.go:66 has) over the two flag sets [front_spec]
                            (main.go:189-212) and [gen_spec] (template.go:70-73),
     [flags_of] [cflags_of_assigns]   assignments -> Flags.flags / Flags.cflags   (the last assignment of a flag wins),
     [fargs_of] [flagparse_of]        verdict + assignments + leftover words -> ExitChain.fargs / flagparse,
     [cprog_of]                       generated-main arguments + leftover words -> ExitChain.cprog (C04's mentions),
   and composes the routes:  [direct] (the compiled binary started with the words) and [via_mage] (the front end
   parses, ExitChain.Parse decides what the command line asks for, the leftover words are handed to the compiled
   binary, WHICH PARSES THEM AGAIN with its own flag set).

   parse_dur / dur_string / join are the parameters of Flags.v (time.ParseDuration, Duration.String, filepath.Join);
   strconv.ParseBool is Flags.parse_bool. *)
From Mage Require Import Base.Strs Model.Flags Proof.FlagPkg_facts Proof.Flags_facts.
From Mage Require Model.Timeout Proof.Timeout_facts Model.ExitChain Proof.ExitChain_facts Proof.Bridge_C04_C05.
From Coq Require Import ZArith Lia.

Module EC := Mage.Model.ExitChain.
Module ECF := Mage.Proof.ExitChain_facts.
Module TM := Mage.Model.Timeout.
Module TMF := Mage.Proof.Timeout_facts.
Module B45 := Mage.Proof.Bridge_C04_C05.

Section Ext.
Variable parse_dur : string -> option Z.
Variable dur_string : Z -> string.
Variable join : string -> string -> string.
Notation parse_from := (parse_from parse_dur).
Notation cl_parse := (cl_parse parse_dur).
Notation set_value := (set_value parse_dur).
Notation consumed := (consumed parse_dur).

(* ================================================================== translations *)
(* -> Flags.v: Flags.flags_of / Flags.cflags_of_assigns (Model/Flags.v) *)
(* -> ExitChain.v *)
Definition flagparse_of (r : pres) : EC.flagparse :=
  match r with POk _ _ => EC.FlagsOk | PHelp => EC.FlagsErrHelp | PBad _ => EC.FlagsBad end.
Definition assigns_of (r : pres) : assigns := match r with POk a _ => a | PBad a => a | PHelp => [] end.
Definition rest_of (r : pres) : list string := match r with POk _ w => w | _ => [] end.
Definition given_nonempty_str (n : string) (a : assigns) : bool :=
  match get_str n a with Some s => negb (String.eqb s "") | None => false end.

Definition fargs_of (r : pres) (e : env) : EC.fargs :=
  let a := assigns_of r in
  {| EC.fa_parse := flagparse_of r;
     EC.fa_help := flag_or (get_bool "h" a) false;
     EC.fa_init := flag_or (get_bool "init" a) false;
     EC.fa_compile := given_nonempty_str "compile" a;
     EC.fa_version := flag_or (get_bool "version" a) false;
     EC.fa_clean := flag_or (get_bool "clean" a) false;
     EC.fa_goosarch := given_nonempty_str "goos" a || given_nonempty_str "goarch" a;
     EC.fa_force := flag_or (get_bool "f" a) false;
     EC.fa_hashfast := mg_bool "MAGEFILE_HASHFAST" e;
     EC.fa_nargs := length (rest_of r) |}.

(* ================================================================== the routes *)
Inductive outcome :=
| Rejected (status : Z)                  (* the flag layer (or the front end's command-line rules) refused: nothing runs *)
| HelpShown                              (* usage text, status 0, nothing runs *)
| OtherCommand (c : EC.command)          (* -version / -init / -clean / -compile: no target is run *)
| Accepted (a : arguments) (te : env) (words : list string).
    (* the generated main goes on with these arguments, targets see environment te, the dispatcher gets words *)

(* the compiled binary started with these words in environment e *)
Definition direct (words : list string) (e : env) : outcome :=
  match cl_parse gen_spec words with
  | PBad _ => Rejected 2
  | PHelp => HelpShown
  | POk a rest => let args := gm_parse parse_dur (cflags_of_assigns a) e in
                  Accepted args (gm_target_env args e) rest
  end.

(* mage started with these words in environment e *)
Definition via_mage (lay : layout) (words : list string) (e : env) : outcome :=
  let r := cl_parse front_spec words in
  match EC.Parse (fargs_of r e) with
  | (_, EC.PErrHelp) => HelpShown
  | (_, EC.PErr) => Rejected 2
  | (EC.CmdNone, EC.PNoErr) =>
      direct (rest_of r) (child_env dur_string join true lay (flags_of (assigns_of r)) e)
  | (c, EC.PNoErr) => OtherCommand c
  end.

(* ================================================================== (b) flag errors *)
Lemma flag_layer_iff : forall r e,
  (EC.fa_parse (fargs_of r e) = EC.FlagsBad <-> exists a, r = PBad a) /\
  (EC.fa_parse (fargs_of r e) = EC.FlagsErrHelp <-> r = PHelp) /\
  (EC.fa_parse (fargs_of r e) = EC.FlagsOk <-> exists a w, r = POk a w) /\
  EC.fa_nargs (fargs_of r e) = length (rest_of r).
Proof.
  intros r e. destruct r as [a w| |a]; simpl; (split; [|split; [|split; [|reflexivity]]]); split; intros H;
    try discriminate; try reflexivity; eauto;
    try (destruct H as [x H]; discriminate); try (destruct H as [x [y H]]; discriminate).
Qed.

(* route 1: the front end *)
Lemma front_rejects : forall lay words e a, cl_parse front_spec words = PBad a ->
  via_mage lay words e = Rejected 2 /\
  forall fixed sc, EC.sc_args sc = fargs_of (cl_parse front_spec words) e ->
    EC.mage_status fixed sc = 2%Z /\ EC.f_child (EC.mage_run fixed sc) = false /\ EC.f_msg (EC.mage_run fixed sc) = true.
Proof.
  intros lay words e a H. split.
  - unfold via_mage. rewrite H.
    assert (M : ECF.misuse (fargs_of (PBad a) e)).
    { split; [intros [E|[E _]]; discriminate|left; reflexivity]. }
    destruct (ECF.Parse_spec (fargs_of (PBad a) e)) as [_ [P _]]. apply P in M.
    destruct (EC.Parse (fargs_of (PBad a) e)) as [c p]. simpl in M. subst p. destruct c; reflexivity.
  - intros fixed sc E. apply ECF.flag_error_anywhere. rewrite E, H. reflexivity.
Qed.

(* route 2: the compiled binary *)
Lemma direct_rejects : forall words e,
  (direct words e = Rejected 2 <-> exists a, cl_parse gen_spec words = PBad a) /\
  forall cp, EC.cp_flags cp = flagparse_of (cl_parse gen_spec words) ->
    (exists a, cl_parse gen_spec words = PBad a) ->
    EC.compiled_exit true cp = 2%Z /\ EC.h_ran (EC.compiled_main true cp) = 0%nat /\ EC.h_msg (EC.compiled_main true cp) = true.
Proof.
  intros words e. split.
  - unfold direct. destruct (cl_parse gen_spec words); split; intros H; try discriminate; eauto;
      destruct H as [? H]; discriminate.
  - intros cp F [a H]. rewrite H in F. simpl in F.
    unfold EC.compiled_exit, EC.compiled_main, EC.compiled_main_gen. rewrite F. repeat split.
Qed.

(* route 3: through mage, the words the front end leaves over are parsed AGAIN by the compiled binary *)
Lemma via_mage_cases : forall lay words e,
  let r := cl_parse front_spec words in
  match via_mage lay words e with
  | Rejected s => s = 2%Z /\
      (ECF.misuse (fargs_of r e) \/
       (EC.Parse (fargs_of r e) = (EC.CmdNone, EC.PNoErr) /\ exists a, cl_parse gen_spec (rest_of r) = PBad a))
  | HelpShown => ECF.shows_help (fargs_of r e) \/
       (EC.Parse (fargs_of r e) = (EC.CmdNone, EC.PNoErr) /\ cl_parse gen_spec (rest_of r) = PHelp)
  | OtherCommand c => EC.Parse (fargs_of r e) = (c, EC.PNoErr) /\ c <> EC.CmdNone
  | Accepted args te ws =>
      EC.Parse (fargs_of r e) = (EC.CmdNone, EC.PNoErr) /\
      exists a rest a', r = POk a rest /\ cl_parse gen_spec rest = POk a' ws /\
        let ce := child_env dur_string join true lay (flags_of a) e in
        args = gm_parse parse_dur (cflags_of_assigns a') ce /\ te = gm_target_env args ce
  end.
Proof.
  intros lay words e r. unfold via_mage. fold r.
  destruct (ECF.Parse_spec (fargs_of r e)) as [PH [PE PN]].
  destruct (EC.Parse (fargs_of r e)) as [c p] eqn:EP. simpl in PH, PE, PN.
  destruct p.
  - (* PNoErr *)
    assert (OK : exists a rest, r = POk a rest).
    { destruct r as [a w| |a]; eauto.
      - exfalso. assert (S : ECF.shows_help (fargs_of PHelp e)) by (left; reflexivity). apply PH in S. discriminate.
      - exfalso. assert (M : ECF.misuse (fargs_of (PBad a) e)).
        { split; [intros [E|[E _]]; discriminate|left; reflexivity]. }
        apply PE in M. discriminate. }
    destruct c; try (split; [reflexivity|discriminate]).
    destruct OK as [a [rest E]]. rewrite E. simpl rest_of. simpl assigns_of. unfold direct.
    destruct (cl_parse gen_spec rest) as [a' ws| |a'] eqn:EC2.
    + split; [reflexivity|]. exists a, rest, a'. split; [reflexivity|]. split; [exact EC2|]. split; reflexivity.
    + right. split; reflexivity.
    + split; [reflexivity|]. right. split; [reflexivity|]. eauto.
  - destruct c; left; apply PH; reflexivity.
  - destruct c; (split; [reflexivity|]; left; apply PE; reflexivity).
Qed.

Lemma via_mage_child_rejects : forall lay words e a rest a',
  cl_parse front_spec words = POk a rest -> EC.Parse (fargs_of (POk a rest) e) = (EC.CmdNone, EC.PNoErr) ->
  cl_parse gen_spec rest = PBad a' ->
  via_mage lay words e = Rejected 2 /\
  forall sc, EC.sc_args sc = fargs_of (POk a rest) e -> ~ ECF.cannot_build (EC.sc_args sc) (EC.sc_build sc) ->
    EC.sc_start sc = true -> EC.cp_flags (EC.sc_prog sc) = flagparse_of (cl_parse gen_spec rest) ->
    EC.mage_status true sc = 2%Z /\ EC.h_ran (EC.compiled_main true (EC.sc_prog sc)) = 0%nat.
Proof.
  intros lay words e a rest a' H1 HP H2. split.
  - unfold via_mage. rewrite H1, HP. simpl. unfold direct. rewrite H2. reflexivity.
  - intros sc EA NB ST CF.
    destruct (ECF.Parse_spec (EC.sc_args sc)) as [PH [PE PN]]. rewrite EA, HP in PH, PE, PN. simpl in PH, PE, PN.
    assert (R : ECF.runs_program sc).
    { unfold ECF.runs_program. rewrite EA. repeat split.
      - intro S. apply PH in S. discriminate.
      - intro M. apply PE in M. discriminate.
      - symmetry. apply PN. reflexivity.
      - rewrite <- EA. exact NB.
      - exact ST. }
    rewrite (ECF.transparent true sc R). rewrite H2 in CF. simpl in CF.
    unfold EC.compiled_exit, EC.compiled_main, EC.compiled_main_gen. rewrite CF. split; reflexivity.
Qed.

(* ================================================================== (c) flags, then dispatch *)
(* the composition IS Flags.v's route: the front end's flags, the compiled binary's own flags (those it finds among
   the leftover words - only behind a consumed "--"), the words it dispatches on *)
Lemma via_mage_is_flags_route : forall lay words e a rest a' ws,
  cl_parse front_spec words = POk a rest -> EC.Parse (fargs_of (POk a rest) e) = (EC.CmdNone, EC.PNoErr) ->
  cl_parse gen_spec rest = POk a' ws ->
  via_mage lay words e =
    Accepted (mage_args parse_dur dur_string join true lay (flags_of a) (cflags_of_assigns a') e)
             (mage_target_env parse_dur dur_string join true lay (flags_of a) (cflags_of_assigns a') e) ws.
Proof.
  intros lay words e a rest a' ws H1 HP H2. unfold via_mage. rewrite H1, HP. simpl. unfold direct. rewrite H2. reflexivity.
Qed.

Lemma via_mage_plain : forall lay words e a rest,
  cl_parse front_spec words = POk a rest -> EC.Parse (fargs_of (POk a rest) e) = (EC.CmdNone, EC.PNoErr) ->
  starts_plain rest ->
  via_mage lay words e =
    Accepted (mage_args parse_dur dur_string join true lay (flags_of a) no_cflags e)
             (mage_target_env parse_dur dur_string join true lay (flags_of a) no_cflags e) rest.
Proof.
  intros lay words e a rest H1 HP SP.
  apply (via_mage_is_flags_route lay words e a rest [] rest H1 HP). unfold FlagPkg.cl_parse.
  apply (parse_plain parse_dur gen_spec rest [] SP).
Qed.

(* Model/Flags.v's own whole-command-line function agrees with the composition wherever ExitChain's Parse says
   "run the program" (the other command-line rules are ExitChain's alone) *)
Definition embed (o : Flags.outcome) : outcome :=
  match o with Flags.Rejected s => Rejected s | Flags.UsageShown => HelpShown | Flags.Runs a te ws => Accepted a te ws end.

Lemma via_mage_is_mage_cmdline : forall lay words e,
  EC.Parse (fargs_of (cl_parse front_spec words) e) = (EC.CmdNone, EC.PNoErr) ->
  via_mage lay words e = embed (mage_cmdline parse_dur dur_string join true lay words e).
Proof.
  intros lay words e HP. unfold via_mage, Flags.mage_cmdline. rewrite HP.
  destruct (ECF.Parse_spec (fargs_of (cl_parse front_spec words) e)) as [PH [PE _]]. rewrite HP in PH, PE. simpl in PH, PE.
  destruct (FlagPkg.cl_parse parse_dur front_spec words) as [a rest| |a] eqn:E.
  - simpl rest_of. simpl assigns_of.
    assert (N : flag_or (get_bool "h" a) false && match rest with [] => true | _ :: _ => false end = false).
    { destruct (flag_or (get_bool "h" a) false) eqn:Hh; [|reflexivity]. destruct rest; [|reflexivity].
      exfalso. assert (S : ECF.shows_help (fargs_of (POk a []) e)) by (right; repeat split; exact Hh).
      apply PH in S. discriminate. }
    rewrite N. unfold direct, Flags.binary_cmdline.
    destruct (FlagPkg.cl_parse parse_dur gen_spec rest); reflexivity.
  - exfalso. assert (S : ECF.shows_help (fargs_of PHelp e)) by (left; reflexivity). apply PH in S. discriminate.
  - exfalso. assert (M : ECF.misuse (fargs_of (PBad a) e)).
    { split; [intros [X|[X _]]; discriminate|left; reflexivity]. }
    apply PE in M. discriminate.
Qed.

(* the leftover words of the front end are plain unless they follow a "--" *)
Lemma front_rest_plain_or_terminated : forall words a rest, cl_parse front_spec words = POk a rest ->
  (exists pre, words = pre ++ rest /\ starts_plain rest) \/ (exists pre, words = pre ++ "--" :: rest).
Proof. intros words a rest H. eapply rest_shape. exact H. Qed.

Section Dispatch.
Variable conv : B45.D.argty -> string -> option string.
Variable outcome_of : nat -> list B45.D.value -> EC.body.
Variable i : B45.D.info.

(* the program ExitChain sees, from the arguments the generated main ended up with and the leftover words *)
Definition cprog_of (args : arguments) (te : env) (ws : list string) : EC.cprog :=
  {| EC.cp_flags := EC.FlagsOk; EC.cp_list := a_list args; EC.cp_help := a_help args; EC.cp_list_err := false;
     EC.cp_default := EC.cp_default (B45.prog_of conv outcome_of i "" ws);
     EC.cp_ignore_default := B45.D.ignore_default conv (getenv IGNOREDEFAULT te);
     EC.cp_mentions := B45.mentions_of conv outcome_of i ws |}.

Lemma cprog_is_prog_of : forall args te ws, a_list args = false -> a_help args = false ->
  cprog_of args te ws = B45.prog_of conv outcome_of i (getenv IGNOREDEFAULT te) ws.
Proof. intros args te ws L H. unfold cprog_of, B45.prog_of. rewrite L, H. reflexivity. Qed.

Lemma accepted_dispatch : forall args te ws, a_list args = false -> a_help args = false ->
  EC.compiled_exit true (cprog_of args te ws) =
    B45.status_of_result outcome_of (B45.D.dispatch conv (B45.fails_of outcome_of) i (getenv IGNOREDEFAULT te) ws) /\
  EC.h_ran (EC.compiled_main true (cprog_of args te ws)) =
    length (fst (B45.D.dispatch conv (B45.fails_of outcome_of) i (getenv IGNOREDEFAULT te) ws)).
Proof. intros args te ws L H. rewrite (cprog_is_prog_of args te ws L H). apply B45.status_of_dispatch. Qed.
End Dispatch.

(* ================================================================== (a) the timeout *)
Definition timeout_of (o : outcome) : option Z := match o with Accepted a _ _ => Some (a_timeout a) | _ => None end.

(* what the value is, route by route *)
Lemma direct_timeout : forall words e a rest, cl_parse gen_spec words = POk a rest ->
  timeout_of (direct words e) =
    Some (match get_dur "t" a with Some d => d | None => tpl_parse_duration parse_dur TIMEOUT e end).
Proof. intros words e a rest H. unfold direct. rewrite H. simpl. unfold flag_or. destruct (get_dur "t" a); reflexivity. Qed.

Lemma via_mage_timeout : forall lay words e a rest a' ws,
  cl_parse front_spec words = POk a rest -> EC.Parse (fargs_of (POk a rest) e) = (EC.CmdNone, EC.PNoErr) ->
  cl_parse gen_spec rest = POk a' ws -> roundtrip parse_dur dur_string (flags_of a) ->
  timeout_of (via_mage lay words e) =
    Some (match get_dur "t" a' with
          | Some d => d
          | None => let d := flag_or (get_dur "t" a) 0%Z in
                    if (0 <? d)%Z then d else tpl_parse_duration parse_dur TIMEOUT e
          end).
Proof.
  intros lay words e a rest a' ws H1 HP H2 RT. rewrite (via_mage_is_flags_route lay words e a rest a' ws H1 HP H2). simpl.
  assert (M := mage_effective0 parse_dur dur_string join lay (flags_of a) e RT).
  apply (f_equal e_timeout) in M. simpl in M.
  change (a_timeout (mage_args parse_dur dur_string join true lay (flags_of a) (cflags_of_assigns a') e))
    with (flag_or (get_dur "t" a') (a_timeout (mage_args parse_dur dur_string join true lay (flags_of a) no_cflags e))).
  rewrite M. unfold flag_or. destruct (get_dur "t" a'); reflexivity.
Qed.

(* the compiled binary's own -t (reachable through mage only behind "--") has the last word *)
Lemma via_mage_timeout_both : forall lay words e a rest a' ws d,
  cl_parse front_spec words = POk a rest -> EC.Parse (fargs_of (POk a rest) e) = (EC.CmdNone, EC.PNoErr) ->
  cl_parse gen_spec rest = POk a' ws -> get_dur "t" a' = Some d ->
  timeout_of (via_mage lay words e) = Some d.
Proof.
  intros lay words e a rest a' ws d H1 HP H2 G. unfold via_mage. rewrite H1, HP. simpl. unfold direct. rewrite H2. simpl.
  rewrite G. reflexivity.
Qed.

(* a malformed MAGEFILE_TIMEOUT is NOT a flag error: a warning, and the program runs without deadline *)
Lemma env_garbage_is_zero : forall e v, lookup TIMEOUT e = Some v -> parse_dur v = None ->
  tpl_parse_duration parse_dur TIMEOUT e = 0%Z.
Proof.
  intros e v L P. unfold tpl_parse_duration, getenv. rewrite L. destruct (String.eqb v ""); [reflexivity|]. rewrite P. reflexivity.
Qed.

(* the link to C12: Timeout.v runs with exactly this number *)
Lemma timeout_is_C12_parameter : forall d,
  (d = 0%Z -> forall now, TM.get_context d now None = {| TM.deadline := None; TM.cancelled := None |}) /\
  (d <> 0%Z -> forall now, TM.get_context d now None = {| TM.deadline := Some (now + d)%Z; TM.cancelled := None |}) /\
  (d <> 0%Z -> forall tgs t0 sigs r o, In r (TM.run_targets d tgs t0 sigs) -> In o (TM.r_obs r) ->
              TM.ts_deadline o = Some (t0 + d)%Z) /\
  (d = 0%Z -> forall tgs t0, Forall (fun tg => (0 <= TM.work tg)%Z) tgs ->
              TM.run_targets d tgs t0 [] = [TM.plain_run None tgs t0 []]).
Proof.
  intros d. repeat split.
  - intros -> now. reflexivity.
  - intros N now. unfold TM.get_context. destruct (Z.eqb_spec d 0); [contradiction|reflexivity].
  - intros N tgs t0 sigs r o. apply TMF.deadline_all. exact N.
  - intros -> tgs t0 F. apply TMF.no_timeout_no_signal. exact F.
Qed.
(* a malformed duration on the command line IS a flag error, on every route, wherever it stands among the flags *)
Lemma malformed_duration : forall lay e pre a s v post, parse_dur v = None -> classify s = WFlag "t" None ->
  (consumed front_spec pre a ->
     via_mage lay (pre ++ s :: v :: post) e = Rejected 2 /\
     forall fixed sc, EC.sc_args sc = fargs_of (cl_parse front_spec (pre ++ s :: v :: post)) e ->
       EC.mage_status fixed sc = 2%Z /\ EC.f_child (EC.mage_run fixed sc) = false /\ EC.f_msg (EC.mage_run fixed sc) = true) /\
  (consumed gen_spec pre a ->
     direct (pre ++ s :: v :: post) e = Rejected 2 /\
     forall cp, EC.cp_flags cp = flagparse_of (cl_parse gen_spec (pre ++ s :: v :: post)) ->
       EC.compiled_exit true cp = 2%Z /\ EC.h_ran (EC.compiled_main true cp) = 0%nat /\ EC.h_msg (EC.compiled_main true cp) = true).
Proof.
  intros lay e pre a s v post P C. split; intros Co.
  - assert (B : cl_parse front_spec (pre ++ s :: v :: post) = PBad (fail_set a "t" KDur)).
    { apply (bad_value_next parse_dur front_spec pre a s "t" KDur v post Co C); [reflexivity|discriminate|]. simpl. rewrite P. reflexivity. }
    apply (front_rejects lay _ e _ B).
  - assert (B : cl_parse gen_spec (pre ++ s :: v :: post) = PBad (fail_set a "t" KDur)).
    { apply (bad_value_next parse_dur gen_spec pre a s "t" KDur v post Co C); [reflexivity|discriminate|]. simpl. rewrite P. reflexivity. }
    split.
    + apply (direct_rejects _ e). eauto.
    + intros cp F. apply (direct_rejects (pre ++ s :: v :: post) e); eauto.
Qed.
End Ext.

(* ================================================================== examples *)
(* (Before its repair Model/Flags.v gave the compiled program no flags of its own through mage and disagreed with
   the real mage on words behind "--"; see tools/notes/Compose_C11_C12_C05.md.  Now the routes coincide:) *)
Definition toy_pd (s : string) : option Z :=
  if String.eqb s "5m" then Some 300000000000%Z else if String.eqb s "5m0s" then Some 300000000000%Z
  else if String.eqb s "1h" then Some 3600000000000%Z else None.
Definition toy_ds (d : Z) : string := "5m0s".
Definition lay0 := {| has_magefiles_dir := false; top_has_magefiles := false |}.

Lemma dashdash_example :
  let words := ["-v=false"; "-t"; "5m"; "--"; "-v"; "-t"; "1h"; "probe"] in
  exists args te,
    via_mage toy_pd toy_ds jn lay0 words [] = Accepted args te ["probe"] /\
    mage_cmdline toy_pd toy_ds jn true lay0 words [] = Flags.Runs args te ["probe"] /\
    a_verbose args = true /\ a_timeout args = 3600000000000%Z /\ mg_verbose te = true.
Proof. vm_compute. do 2 eexists. repeat split. Qed.

(* non-vacuity of the rest *)
Lemma bridge_examples :
  (* flags after the first target stay words; a target argument that looks like a flag stays an argument *)
  cl_parse toy_pd front_spec ["-v"; "say"; "-l"; "probe"] = POk [("v", VB true)] ["say"; "-l"; "probe"] /\
  cl_parse toy_pd gen_spec ["say"; "-l"; "probe"] = POk [] ["say"; "-l"; "probe"] /\
  (* "--": consumed by the front end; a second one by the compiled binary *)
  cl_parse toy_pd front_spec ["--"; "--"; "-l"] = POk [] ["--"; "-l"] /\
  cl_parse toy_pd gen_spec ["--"; "-l"] = POk [] ["-l"] /\
  via_mage toy_pd toy_ds jn lay0 ["--"; "-x"] [] = Rejected 2 /\
  (* malformed duration, unknown flag, missing value, bad syntax, bad boolean: rejected *)
  cl_parse toy_pd front_spec ["-v"; "-t"; "xyz"; "probe"] = PBad [("v", VB true)] /\
  cl_parse toy_pd gen_spec ["-t=xyz"; "probe"] = PBad [] /\
  cl_parse toy_pd front_spec ["-x"] = PBad [] /\ cl_parse toy_pd front_spec ["-t"] = PBad [] /\
  cl_parse toy_pd front_spec ["-=x"] = PBad [] /\ cl_parse toy_pd front_spec ["---v"] = PBad [] /\
  cl_parse toy_pd front_spec ["-v=maybe"; "probe"] = PBad [] /\
  cl_parse toy_pd front_spec ["-help"] = PHelp /\ cl_parse toy_pd gen_spec ["--help"] = PHelp /\
  (* "-" alone is a word; the last assignment wins *)
  cl_parse toy_pd front_spec ["-"] = POk [] ["-"] /\
  get_bool "v" [("v", VB true); ("v", VB false)] = Some false /\
  (* the three routes on an accepted line *)
  timeout_of (via_mage toy_pd toy_ds jn lay0 ["-t"; "5m"; "probe"] []) = Some 300000000000%Z /\
  timeout_of (direct toy_pd ["-t"; "5m"; "probe"] []) = Some 300000000000%Z /\
  timeout_of (via_mage toy_pd toy_ds jn lay0 ["probe"] [("MAGEFILE_TIMEOUT", "garbage")]) = Some 0%Z /\
  via_mage toy_pd toy_ds jn lay0 ["-h"] [] = HelpShown /\
  via_mage toy_pd toy_ds jn lay0 ["-version"] [] = OtherCommand EC.CmdVersion /\
  via_mage toy_pd toy_ds jn lay0 ["-h"; "a"; "b"] [] = Rejected 2.
Proof. vm_compute. repeat split. Qed.
