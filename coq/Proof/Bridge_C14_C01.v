(* Bridge C14 -> C01: the engine model numbers dependencies by [key := nat]; the harness numbers the
   distinct registry keys (function name, mg.F id) it mentions.  This file defines that numbering
   over SOURCE-LEVEL mentions (function name, argument list) and proves that, for mentions mg.F
   accepts, two mentions get the same engine key iff they name the same function with equal
   argument lists - so C01's "once per key" is "once per function and argument list".
   Definitions + proofs (nothing here is evaluated by the harness). *)
From Mage Require Import Base.Strs Model.FnCheck Model.FnSpec Model.FnId Model.Deps.
From Mage Require Import Proof.FnId_facts Proof.Deps_defs Proof.Deps_c01.

Definition mention := (string * list value)%type.          (* mg.F(f, args...) as written *)
Definition rkey := (string * string)%type.                  (* what onceMap is keyed by *)

Definition skey (m : mention) : rkey := once_key (fst m) (snd m).

Definition rkey_eqb (a b : rkey) : bool := String.eqb (fst a) (fst b) && String.eqb (snd a) (snd b).

Lemma rkey_eqb_spec a b : reflect (a = b) (rkey_eqb a b).
Proof.
  destruct a as [a1 a2], b as [b1 b2]; unfold rkey_eqb; cbn [fst snd].
  destruct (String.eqb_spec a1 b1); cbn [andb]; [|constructor; congruence].
  destruct (String.eqb_spec a2 b2); constructor; congruence.
Qed.

(* position of the first occurrence (length of the list when absent) *)
Fixpoint index_of (k : rkey) (l : list rkey) : nat :=
  match l with
  | [] => 0
  | x :: r => if rkey_eqb x k then 0 else S (index_of k r)
  end.

(* the engine key of a mention, given all mentions of the program in source order *)
Definition number (ms : list mention) (m : mention) : key := index_of (skey m) (map skey ms).

Lemma index_of_nth : forall l k, In k l -> nth_error l (index_of k l) = Some k.
Proof.
  induction l as [|x r IH]; intros k Hin; [destruct Hin|].
  cbn [index_of]. destruct (rkey_eqb_spec x k) as [->|Hne]; [reflexivity|].
  cbn [nth_error]. apply IH. destruct Hin as [H|H]; [congruence|exact H].
Qed.

Lemma index_of_lt : forall l k, In k l -> index_of k l < length l.
Proof.
  intros l k Hin. apply nth_error_Some. rewrite (index_of_nth l k Hin). discriminate.
Qed.

Lemma index_of_inj : forall l a b, In a l -> In b l -> index_of a l = index_of b l -> a = b.
Proof.
  intros l a b Ha Hb E. pose proof (index_of_nth l a Ha) as Na. pose proof (index_of_nth l b Hb) as Nb.
  rewrite E in Na. congruence.
Qed.

Lemma number_key : forall ms m1 m2, In m1 ms -> In m2 ms ->
  (number ms m1 = number ms m2 <-> skey m1 = skey m2).
Proof.
  intros ms m1 m2 H1 H2. unfold number. split.
  - apply index_of_inj; apply in_map; assumption.
  - intros ->. reflexivity.
Qed.

Section Sigs.
(* the declared signature of each named function: universally quantified *)
Variable sigof : string -> sig.

Definition accepted (m : mention) : Prop :=
  forallb wf_value (snd m) = true /\ exists hc ns, checkF (Func (sigof (fst m))) (snd m) = Good hc ns.

Lemma skey_iff : forall m1 m2, accepted m1 -> accepted m2 -> (skey m1 = skey m2 <-> m1 = m2).
Proof.
  intros [f a] [g b] [Wa [hc [ns Ha]]] [Wb [hc' [ns' Hb]]]. cbn [fst snd] in *. unfold skey; cbn [fst snd].
  split; [|intros E; injection E as -> ->; reflexivity].
  intros E. assert (f = g) as <- by (exact (f_equal fst E)).
  destruct (key_iff (sigof f) f f a b hc ns hc' ns' Wa Wb Ha Hb) as [K _].
  destruct (K E) as [_ ->]. reflexivity.
Qed.

Lemma number_iff : forall ms m1 m2, In m1 ms -> In m2 ms -> accepted m1 -> accepted m2 ->
  (number ms m1 = number ms m2 <-> m1 = m2).
Proof.
  intros ms m1 m2 H1 H2 A1 A2. rewrite (number_key ms m1 m2 H1 H2). apply skey_iff; assumption.
Qed.

(* every mention of the program is a node of the engine program *)
Lemma number_lt : forall ms m, In m ms -> number ms m < length ms.
Proof.
  intros ms m Hin. unfold number. rewrite <- (map_length skey ms). apply index_of_lt. apply in_map. exact Hin.
Qed.

(* C01 at the source level: under every schedule, the body of an accepted mention starts at most
   once, two mentions share that one execution iff they are the same function with equal
   arguments, and the start of one leaves every other (function, arguments) untouched *)
Lemma once_per_function_and_arguments : forall fixed p ms s tr m1 m2,
  reach fixed p s tr -> In m1 ms -> In m2 ms -> accepted m1 -> accepted m2 ->
  nstart (number ms m1) tr <= 1 /\
  (number ms m1 = number ms m2 <-> fst m1 = fst m2 /\ snd m1 = snd m2).
Proof.
  intros fixed p ms s tr m1 m2 Hr H1 H2 A1 A2. split; [eapply at_most_once; exact Hr|].
  rewrite (number_iff ms m1 m2 H1 H2 A1 A2). destruct m1, m2; cbn [fst snd]. split.
  - intros E; injection E as -> ->; split; reflexivity.
  - intros [-> ->]; reflexivity.
Qed.

Lemma different_arguments_run_separately : forall fixed p ms s a s' ev cx m1 m2,
  step fixed p s a = Some (s', ev) -> In m1 ms -> In m2 ms -> accepted m1 -> accepted m2 ->
  In (BodyStart (number ms m1) cx) ev -> m2 <> m1 ->
  cells s' (number ms m2) = cells s (number ms m2).
Proof.
  intros fixed p ms s a s' ev cx m1 m2 Hs H1 H2 A1 A2 Hin Hne.
  eapply distinct_keys; [exact Hs|exact Hin|].
  intros E. apply Hne. apply (number_iff ms m2 m1 H2 H1 A2 A1). exact E.
Qed.
End Sigs.

(* non-vacuity: three mentions of one variadic function, two with equal arguments *)
Definition ex_sig : string -> sig := fun _ => {| ins := [TInt; TString]; vtail := Some TDur; outs := [TErr] |}.
Definition ex_ms : list mention :=
  [("main.Build", [VInt 5; VStr "x"; VDur 1]); ("main.Build", [VInt 5; VStr "x"]); ("main.Build", [VInt 5; VStr "x"; VDur 1])].

Lemma bridge_nonvacuous :
  Forall (accepted ex_sig) ex_ms /\ map (number ex_ms) ex_ms = [0; 1; 0].
Proof.
  split; [|vm_compute; reflexivity].
  assert (A : forall m, In m ex_ms -> accepted ex_sig m).
  { intros m Hin. unfold ex_ms in Hin. cbn [In] in Hin.
    destruct Hin as [<-|[<-|[<-|[]]]]; unfold accepted; cbn [fst snd];
      (split; [vm_compute; reflexivity|do 2 eexists; vm_compute; reflexivity]). }
  apply Forall_forall. exact A.
Qed.
