(* Bridge between the two models of the same Go functions:
     Model/Sh.v        (C15: sh.Exec/run, sh.CmdRan, sh.ExitStatus, mg.ExitStatus, mg.Fatalf)
     Model/ExitChain.v (C05: its own sh_Run / sh_CmdRan / sh_ExitStatus / mg_ExitStatus, handleError, RunCompiled)
   The translation between their child-outcome and error-shape types, and the proofs that the two
   models agree on every outcome and every code in Z.  Both models are referred to by qualified
   names: S = Model.Sh, E = Model.ExitChain. *)
From Mage Require Import Base.Strs Base.Expand.
From Mage Require Model.Deps Model.Sh Model.ExitChain Proof.Sh_facts Proof.Deps_defs Proof.Exit_facts Proof.ExitChain_facts.
From Mage Require Props.C15 Props.C05.
Local Open Scope Z_scope.

Module S := Mage.Model.Sh.
Module SF := Mage.Proof.Sh_facts.
Module E := Mage.Model.ExitChain.
Module EF := Mage.Proof.ExitChain_facts.
Module P15 := Mage.Props.C15.
Module P05 := Mage.Props.C05.

(* ---------------------------------------------------------------- the translation *)

(* C05's child outcome -> C15's.  E.CExit n is "the child called exit(n)", any n in Z; the parent's
   os/exec sees the wait status n mod 256, which is what S.Started carries.  C05 does not record
   the signal number nor what the child wrote: they are free parameters of the translation. *)
Definition to_S (c : E.child) (sig : Z) (out errout : string) : S.child_result :=
  match c with
  | E.CExit n => S.Started (E.kernel n) out errout
  | E.CSignaled => S.Signaled sig out errout
  | E.CNotStarted => S.NotStarted
  end.

(* C15's child outcome -> C05's (forgets the signal number and the streams) *)
Definition to_E (r : S.child_result) : E.child :=
  match r with
  | S.Started k _ _ => E.CExit k
  | S.Signaled _ _ _ => E.CSignaled
  | S.NotStarted => E.CNotStarted
  end.

(* C15's error shapes -> C05's values that travel as errors.  A raw *exec.ExitError is, for
   mg.ExitStatus and handleError, an error without ExitStatus(): VPlain.  E.VOther (a panic value
   that is not an error) is no error shape and has no pre-image. *)
Definition err_to_E (e : S.err) : E.value :=
  match e with
  | S.ENil => E.VNil
  | S.EFatal c => E.VFatal c
  | S.EExitError _ => E.VPlain
  | S.EOther => E.VPlain
  end.

(* wait statuses the kernel can report *)
Definition in_range (r : S.child_result) : Prop :=
  match r with S.Started k _ _ => 0 <= k <= 255 | _ => True end.

Lemma kernel_small : forall k, 0 <= k <= 255 -> E.kernel k = k.
Proof. intros k H. unfold E.kernel. apply Z.mod_small. lia. Qed.

Lemma to_S_to_E : forall r, in_range r ->
  match r with
  | S.Started k o eo => to_S (to_E r) 0 o eo = r
  | S.Signaled s o eo => to_S (to_E r) s o eo = r
  | S.NotStarted => to_S (to_E r) 0 EmptyString EmptyString = r
  end.
Proof. intros [k o eo|s o eo|] H; simpl in *; [rewrite kernel_small by assumption|..]; reflexivity. Qed.

(* ---------------------------------------------------------------- (2) the raw functions agree *)

(* sh.CmdRan / sh.ExitStatus of the error of c.Run(), and "the error is nil": all three shapes
   (exited with any n in Z, signaled, not started), any signal number, any output *)
Lemma raw_agree : forall c sig out errout,
  let e := S.cmd_run_err (to_S c sig out errout) in
  E.sh_CmdRan c = S.sh_CmdRan e /\
  E.sh_ExitStatus c = S.sh_ExitStatus e /\
  (E.run_err_nil c = true <-> e = S.ENil).
Proof.
  intros [n| |] sig out errout; simpl.
  - unfold E.sh_CmdRan, E.sh_ExitStatus, E.run_err_nil.
    destruct (Z.eqb (E.kernel n) 0) eqn:K; simpl; repeat split; intros; try reflexivity; discriminate.
  - repeat split; intros; discriminate.
  - repeat split; intros; discriminate.
Qed.

(* the other direction, for the wait statuses that exist *)
Lemma raw_agree_back : forall r, in_range r ->
  E.sh_CmdRan (to_E r) = S.sh_CmdRan (S.cmd_run_err r) /\
  E.sh_ExitStatus (to_E r) = S.sh_ExitStatus (S.cmd_run_err r).
Proof.
  intros [k o eo|s o eo|] H; simpl in *.
  - unfold E.sh_CmdRan, E.sh_ExitStatus, E.run_err_nil. rewrite kernel_small by assumption.
    destruct (Z.eqb k 0) eqn:K; simpl; split; reflexivity.
  - split; reflexivity.
  - split; reflexivity.
Qed.

(* outside 0..255 the two types do not mean the same number (argument of exit() vs. wait status):
   without the range hypothesis the back translation is not an agreement *)
Lemma back_needs_range :
  E.sh_ExitStatus (to_E (S.Started 256 EmptyString EmptyString)) = 0 /\
  S.sh_ExitStatus (S.cmd_run_err (S.Started 256 EmptyString EmptyString)) = 256.
Proof. split; reflexivity. Qed.

(* mg.ExitStatus agrees on every error shape; handleError exits with mg.ExitStatus of the error *)
Lemma mg_agree : forall e, E.mg_ExitStatus (err_to_E e) = S.mg_ExitStatus e.
Proof. destruct e; reflexivity. Qed.

Lemma handle_agree : forall e,
  E.handleError (err_to_E e) = match e with S.ENil => None | _ => Some (S.mg_ExitStatus e) end.
Proof. destruct e; reflexivity. Qed.

(* RunCompiled is sh.ExitStatus / sh.CmdRan of C15 applied to the compiled binary's raw error *)
Lemma run_compiled_agree : forall ch sig out errout,
  let e := S.cmd_run_err (to_S ch sig out errout) in
  E.f_code (E.RunCompiled ch) = S.sh_ExitStatus e /\
  E.f_msg (E.RunCompiled ch) = negb (S.sh_CmdRan e) /\
  E.f_child (E.RunCompiled ch) = match to_S ch sig out errout with S.NotStarted => false | _ => true end.
Proof.
  intros ch sig out errout e. subst e.
  destruct (raw_agree ch sig out errout) as [H1 [H2 _]]. cbv zeta in H1, H2.
  unfold E.RunCompiled. simpl. rewrite H1, H2. repeat split. destruct ch; reflexivity.
Qed.

(* ---------------------------------------------------------------- (1) sh.Run agrees with Exec *)

Section W.
Variable penv : S.envlist.
Variable child : list string -> list string -> S.child_result.

(* whatever entry point, environment, map, command and arguments: if the child the call starts
   behaves as (the translation of) c, then C05's sh_Run c is the translation of the error C15's
   Exec returns; the statuses and ran / CmdRan coincide *)
Lemma run_agree : forall f envm cmd args c sig out errout,
  let x := S.call_entry penv child f envm cmd args in
  child (S.k_argv x) (S.k_envp x) = to_S c sig out errout ->
  E.sh_Run c = err_to_E (S.k_err x) /\
  E.mg_ExitStatus (E.sh_Run c) = S.mg_ExitStatus (S.k_err x) /\
  E.mg_ExitStatus (E.sh_Run c) = S.sh_ExitStatus (S.k_err x) /\
  E.sh_CmdRan c = S.k_ran x.
Proof.
  intros f envm cmd args c sig out errout x R. subst x.
  pose proof (SF.call_core penv child f envm cmd args) as H. cbv zeta in H.
  destruct H as (_ & _ & _ & _ & Hout & _).
  rewrite R in Hout.
  assert (A : E.sh_Run c = err_to_E (S.k_err (S.call_entry penv child f envm cmd args)) /\
              E.sh_CmdRan c = S.k_ran (S.call_entry penv child f envm cmd args)).
  { destruct c as [n| |]; simpl in Hout.
    - unfold E.sh_Run, E.sh_CmdRan, E.sh_ExitStatus, E.run_err_nil.
      destruct (Z.eqb (E.kernel n) 0) eqn:K; injection Hout as Hr He; rewrite Hr, He; split; reflexivity.
    - injection Hout as Hr He. rewrite Hr, He. split; reflexivity.
    - injection Hout as Hr He. rewrite Hr, He. split; reflexivity. }
  destruct A as [A1 A2]. split; [exact A1|]. rewrite A1, mg_agree.
  split; [reflexivity|]. split; [|exact A2].
  destruct (S.k_err (S.call_entry penv child f envm cmd args)) eqn:Ek; try reflexivity.
  (* Exec never returns a raw ExitError *)
  exfalso. destruct c as [n| |]; simpl in Hout.
  - destruct (Z.eqb (E.kernel n) 0); injection Hout as _ He; discriminate.
  - injection Hout as _ He; discriminate.
  - injection Hout as _ He; discriminate.
Qed.

(* ---------------------------------------------------------------- (3) the composition *)

(* A target whose body is `return sh.Run(...)` (any of the entry points) and whose command exits
   k, 1 <= k <= 255, makes the compiled magefile and mage exit k.
   C15 side: C15_status about the call in Model/Sh.v.  Bridge: the value the target returns in
   Model/ExitChain.v is the translation of that error, handleError exits with its mg.ExitStatus.
   C05 side: C05_carried / C05_front_end_transparent; and the status mage passes on is
   C15's sh.ExitStatus applied to the compiled binary's raw os/exec error. *)
Lemma sh_failure_exits_k : forall f envm cmd args k out errout,
  let x := S.call_entry penv child f envm cmd args in
  child (S.k_argv x) (S.k_envp x) = S.Started k out errout -> 1 <= k <= 255 ->
  forall fixed cp pre post,
  EF.targets_line cp (pre ++ E.MRun (E.BSh (E.CExit k)) :: post) ->
  Forall EF.wf_mention pre -> Forall EF.mention_ok pre ->
  S.k_err x = S.EFatal k /\ S.mg_ExitStatus (S.k_err x) = k /\ S.sh_ExitStatus (S.k_err x) = k /\
  E.run_body (E.BSh (E.CExit k)) = E.Returned (err_to_E (S.k_err x)) /\
  E.handleError (err_to_E (S.k_err x)) = Some (S.mg_ExitStatus (S.k_err x)) /\
  E.compiled_exit fixed cp = k /\
  (forall sc, E.sc_prog sc = cp -> EF.runs_program sc ->
     E.mage_status fixed sc = k /\
     E.mage_status fixed sc =
       E.kernel (S.sh_ExitStatus (S.cmd_run_err (to_S (E.child_of fixed cp) 0 EmptyString EmptyString)))).
Proof.
  intros f envm cmd args k out errout x R Hk fixed cp pre post HL Hwf Hok.
  assert (Hk0 : k <> 0) by lia.
  destruct (P15.C15_status penv child f envm cmd args k out errout R Hk0) as (Hmg & Hsh & _ & Herr).
  fold x in Hmg, Hsh, Herr.
  assert (Hwb : EF.wf_body (E.BSh (E.CExit k))) by (simpl; lia).
  assert (Hnc : ~ EF.completes (E.BSh (E.CExit k))) by (simpl; lia).
  destruct (P05.C05_carried fixed cp pre (E.BSh (E.CExit k)) post HL Hwf Hok Hwb Hnc) as (Hce & _ & Hmage & _).
  simpl in Hce, Hmage.
  assert (Rt : child (S.k_argv x) (S.k_envp x) = to_S (E.CExit k) 0 out errout).
  { simpl. rewrite kernel_small by lia. exact R. }
  destruct (run_agree f envm cmd args (E.CExit k) 0 out errout Rt) as (Hrun & _).
  fold x in Hrun.
  split; [exact Herr|]. split; [exact Hmg|]. split; [exact Hsh|].
  split; [simpl; rewrite Hrun; reflexivity|].
  split; [rewrite handle_agree, Herr; reflexivity|].
  split; [exact Hce|].
  intros sc Hp Hr. split; [apply Hmage; assumption|].
  rewrite (P05.C05_front_end_transparent fixed sc Hr), Hp.
  destruct (run_compiled_agree (E.child_of fixed cp) 0 EmptyString EmptyString) as (Hc & _).
  cbv zeta in Hc. rewrite <- Hc.
  unfold E.child_of, E.RunCompiled. simpl. rewrite EF.run_compiled_transparent.
  unfold E.compiled_exit. apply EF.halt_status_eq.
Qed.
End W.

(* ---------------------------------------------------------------- non-vacuity *)
Lemma nonvacuous_compose :
  let x := S.call_entry SF.nv_penv SF.nv_child S.FRunWith SF.nv_envm "$PATH/tool" ["$A"] in
  let cp := EF.line [E.MRun E.BOk; E.MRun (E.BSh (E.CExit 3)); E.MRun (E.BFatal 9)] in
  SF.nv_child (S.k_argv x) (S.k_envp x) = S.Started 3 (String.append "out" (String.append SF.nl SF.nl)) "err" /\
  EF.targets_line cp ([E.MRun E.BOk] ++ E.MRun (E.BSh (E.CExit 3)) :: [E.MRun (E.BFatal 9)]) /\
  Forall EF.wf_mention [E.MRun E.BOk] /\ Forall EF.mention_ok [E.MRun E.BOk] /\
  EF.runs_program (EF.via_mage cp) /\
  E.mage_status true (EF.via_mage cp) = 3 /\ S.mg_ExitStatus (S.k_err x) = 3.
Proof.
  cbv zeta. split; [vm_compute; reflexivity|].
  split; [unfold EF.targets_line; simpl; repeat split; discriminate|].
  split; [repeat constructor|]. split; [repeat constructor|].
  split; [|split; vm_compute; reflexivity].
  unfold EF.runs_program, EF.via_mage; simpl.
  split; [unfold EF.shows_help; simpl; intuition (try discriminate; try lia)|].
  split; [unfold EF.misuse, EF.shows_help, EF.selected; simpl; intuition (try discriminate; try congruence; try lia)|].
  split; [reflexivity|]. split; [|reflexivity].
  unfold EF.cannot_build, EF.uses_existing, EF.compiling; simpl. intuition discriminate.
Qed.
