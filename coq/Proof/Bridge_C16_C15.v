(* Bridge between the two models of the path from an sh call to the child process:
     Model/Slices.v (C16, "L"): WHAT argv the child gets and what happens to the caller's slices - code as
                                atomic memory actions over a heap, histories, interleavings
     Model/Sh.v     (C15, "S"): what comes BACK - expansion with the env overlay, the child's environment,
                                ran / error / status / captured output, stream routing
   Translation between their vocabularies and the proofs that they agree on the part they share.
   Both are referred to by qualified names (S, SF = Proof/Sh_facts; L, LF = Proof/Slices_facts). *)
From Mage Require Import Base.Strs Base.Expand.
From Mage Require Model.Sh Model.Slices Proof.Sh_facts Proof.Slices_facts.

Module S := Mage.Model.Sh.
Module SF := Mage.Proof.Sh_facts.
Module L := Mage.Model.Slices.
Module LF := Mage.Proof.Slices_facts.

(* ---------------------------------------------------------------- environments *)
(* L's process environment is a LOG: os.Setenv conses (k, v) in front and lookups take the first match
   (stale entries stay behind).  S's is a SNAPSHOT with distinct keys (os.Environ() is built from it and
   os/exec's de-duplication lets the LAST entry of a key win, so a log must not be handed to S as it is).
   [snapshot] keeps the first entry of every key. *)
Definition drop_key (k : string) (m : S.envlist) : S.envlist :=
  filter (fun kv => negb (String.eqb (fst kv) k)) m.
Fixpoint snapshot (e : list (string * string)) : S.envlist :=
  match e with
  | [] => []
  | (k, v) :: r => (k, v) :: drop_key k (snapshot r)
  end.

Lemma map_get_same : forall m k, L.map_get m k = S.map_get m k.
Proof. induction m as [|[k' v] r IH]; intros k; simpl; auto; destruct (String.eqb k k'); auto. Qed.

Lemma map_get_drop : forall m k0 k,
  S.map_get (drop_key k0 m) k = if String.eqb k k0 then None else S.map_get m k.
Proof.
  induction m as [|[k' v] r IH]; intros k0 k; simpl.
  - destruct (String.eqb k k0); reflexivity.
  - destruct (String.eqb k' k0) eqn:E0; simpl.
    + rewrite IH. destruct (String.eqb k k0) eqn:E; auto.
      destruct (String.eqb k k') eqn:E'; auto.
      apply String.eqb_eq in E', E0. subst. rewrite String.eqb_refl in E. discriminate.
    + destruct (String.eqb k k') eqn:E'.
      * apply String.eqb_eq in E'. subst k'. rewrite E0. reflexivity.
      * apply IH.
Qed.

Lemma snapshot_map_get : forall e k,
  S.map_get (snapshot e) k = match L.map_get e k with Some v => Some v | None => None end.
Proof.
  induction e as [|[k' v] r IH]; intros k; simpl; auto.
  destruct (String.eqb k k') eqn:E; auto.
  rewrite map_get_drop, E. apply IH.
Qed.

Lemma env_get_map_get : forall e k, env_get e k = match L.map_get e k with Some v => v | None => EmptyString end.
Proof. induction e as [|[k' v] r IH]; intros k; simpl; auto; destruct (String.eqb k k'); auto. Qed.

(* os.Getenv agrees: the log's first match is the snapshot's entry *)
Lemma snapshot_getenv : forall e k, S.getenv (snapshot e) k = env_get e k.
Proof.
  intros. unfold S.getenv. rewrite snapshot_map_get, env_get_map_get. destruct (L.map_get e k); reflexivity.
Qed.

Lemma drop_key_subset : forall k0 m kv, In kv (drop_key k0 m) -> In kv m.
Proof. intros k0 m kv H. unfold drop_key in H. apply filter_In in H. tauto. Qed.

Lemma drop_key_notin : forall k0 m, ~ In k0 (map fst (drop_key k0 m)).
Proof.
  intros k0 m H. apply in_map_iff in H. destruct H as ([k v] & Hk & Hin). simpl in Hk. subst k.
  unfold drop_key in Hin. apply filter_In in Hin. destruct Hin as [_ Hf]. simpl in Hf.
  rewrite String.eqb_refl in Hf. discriminate.
Qed.

Lemma drop_key_nodup : forall k0 m, NoDup (map fst m) -> NoDup (map fst (drop_key k0 m)).
Proof.
  induction m as [|[k v] r IH]; simpl; intros H; [constructor|].
  inversion H; subst. destruct (negb (String.eqb k k0)); simpl; auto.
  constructor; auto. intros Hin. apply H2.
  apply in_map_iff in Hin. destruct Hin as (kv & Hk & Hin). apply in_map_iff. exists kv. split; auto.
  eapply drop_key_subset; eauto.
Qed.

Lemma snapshot_nodup : forall e, NoDup (map fst (snapshot e)).
Proof.
  induction e as [|[k v] r IH]; simpl; constructor.
  - apply drop_key_notin.
  - apply drop_key_nodup; auto.
Qed.

Lemma snapshot_subset : forall e kv, In kv (snapshot e) -> In kv e.
Proof.
  induction e as [|[k v] r IH]; simpl; intros kv H; auto.
  destruct H as [H|H]; auto. right. apply IH. eapply drop_key_subset; eauto.
Qed.

(* the snapshot is an environment in C15's sense when no variable name contains '=' *)
Lemma snapshot_keys_ok : forall e, (forall k v, In (k, v) e -> SF.no_eq k) -> SF.keys_ok (snapshot e).
Proof.
  intros e H. split; [apply snapshot_nodup|]. intros k v Hin. eapply H. eapply snapshot_subset; eauto.
Qed.

(* ---------------------------------------------------------------- expansion *)
(* Exec's [expand] closure: both transcriptions look in the overlay first and in the process
   environment second, on every name *)
Lemma mapping_agree : forall emap e k, L.mapping emap e k = S.exec_mapping (snapshot e) emap k.
Proof.
  intros. unfold L.mapping, S.exec_mapping. rewrite map_get_same, snapshot_getenv. reflexivity.
Qed.

Lemma expansion_agree : forall emap e s,
  expand (L.mapping emap e) s = expand (S.exec_mapping (snapshot e) emap) s.
Proof. intros. apply SF.expand_ext. intros k. apply mapping_agree. Qed.

Lemma expand_env_agree : forall e s, expand_env e s = expand (S.exec_mapping (snapshot e) []) s.
Proof.
  intros. unfold expand_env. apply SF.expand_ext. intros k.
  unfold S.exec_mapping. simpl. symmetry. apply snapshot_getenv.
Qed.

(* ---------------------------------------------------------------- entry points *)
(* L's Exec is called by the harness with its own buffers for both streams *)
Definition to_entry (f : L.fnsel) : S.entry :=
  match f with
  | L.FRun => S.FRun | L.FRunV => S.FRunV | L.FRunWith => S.FRunWith | L.FRunWithV => S.FRunWithV
  | L.FOutput => S.FOutput | L.FOutputWith => S.FOutputWith
  | L.FExec => S.FExec S.WBuf S.WBuf
  end.
(* cmd.go:34-46: the function returned by RunCmd is Run(cmd, joined...), by OutCmd Output(cmd, joined...) *)
Definition kind_entry (k : L.kind) : S.entry := match k with L.KRun => S.FRun | L.KOut => S.FOutput end.

Lemma uses_map_agree : forall f emap, S.entry_env (to_entry f) emap = if L.uses_map f then emap else [].
Proof. destruct f; reflexivity. Qed.

(* the C15 call that a C16 call operation is: the args list C15's model receives is the caller's
   ORIGINAL elements - for a closure the baked-in elements followed by the call's *)
Definition S_of_op (child : list string -> list string -> S.child_result)
           (h0 : L.heap) (cls : list L.closure) (e : list (string * string)) (o : L.op) : option S.call :=
  match o with
  | L.CallClosure c extra =>
      match nth_error cls c with
      | Some cl => Some (S.call_entry (snapshot e) child (kind_entry (L.cl_kind cl)) [] (L.cl_cmd cl)
                                      (L.contents h0 (L.cl_baked cl) ++ L.contents h0 extra))
      | None => None
      end
  | L.CallDirect f emap cmd args =>
      Some (S.call_entry (snapshot e) child (to_entry f) emap cmd (L.contents h0 args))
  | _ => None
  end.

(* the argv of L's declarative spec is the argv C15's model expands and runs *)
Lemma spec_argv_is_S : forall child h0 cls e o x,
  S_of_op child h0 cls e o = Some x -> LF.spec_argv h0 cls e o = S.k_argv x.
Proof.
  intros child h0 cls e o x H. destruct o as [k v|k cmd b|c extra|f emap cmd args]; simpl in H; try discriminate.
  - destruct (nth_error cls c) as [cl|] eqn:E; [|discriminate]. inversion H; subst x; clear H.
    simpl. rewrite E.
    pose proof (SF.call_core (snapshot e) child (kind_entry (L.cl_kind cl)) [] (L.cl_cmd cl)
                  (L.contents h0 (L.cl_baked cl) ++ L.contents h0 extra)) as C.
    cbv zeta in C. destruct C as (_ & Hargv & _). rewrite Hargv.
    replace (S.entry_env (kind_entry (L.cl_kind cl)) []) with (@nil (string * string)) by (destruct (L.cl_kind cl); reflexivity).
    simpl. f_equal; [apply expand_env_agree|apply map_ext; intros s; apply expand_env_agree].
  - inversion H; subst x; clear H. simpl.
    pose proof (SF.call_core (snapshot e) child (to_entry f) emap cmd (L.contents h0 args)) as C.
    cbv zeta in C. destruct C as (_ & Hargv & _). rewrite Hargv, uses_map_agree.
    unfold LF.ex_of. simpl. f_equal; [apply expansion_agree|apply map_ext; intros s; apply expansion_agree].
Qed.

(* ---------------------------------------------------------------- (1) argv: every call of every history *)
Definition is_call (o : L.op) : Prop :=
  match o with L.CallClosure _ _ | L.CallDirect _ _ _ _ => True | _ => False end.

Section W.
Variable child_out : list (string * string) -> list (string * string) -> list string -> string.
Variable child_exit : list (string * string) -> list (string * string) -> list string -> nat.
Variable h0 : L.heap.
Variable cls0 : list L.closure.
Hypothesis closures_in_heap : LF.cls_ok h0 cls0.

Lemma child_argv_agree : forall child penv pre o post x,
  Forall (LF.op_ok h0) (pre ++ o :: post) ->
  S_of_op child h0 (LF.cls_at cls0 pre) (LF.env_at penv pre) o = Some x ->
  exists out so st h',
    nth_error (L.run_history child_out child_exit true penv cls0 h0 (pre ++ o :: post)) (length pre)
    = Some (L.OCall (S.k_argv x) out so st, h').
Proof.
  intros child penv pre o post x Hok Hx.
  destruct (LF.history_nth child_out child_exit h0 pre penv cls0 h0 o post closures_in_heap (firstn_all h0) Hok) as (h' & H & _).
  pose proof (spec_argv_is_S _ _ _ _ _ _ Hx) as Ha.
  rewrite H.
  destruct o as [k v|k cmd b|c extra|f emap cmd args]; simpl in Hx; try discriminate.
  - unfold LF.spec_obs. destruct (nth_error (LF.cls_at cls0 pre) c) as [cl|] eqn:E; [|discriminate].
    rewrite Ha. unfold L.finish_closure. destruct (L.cl_kind cl); do 4 eexists; reflexivity.
  - unfold LF.spec_obs. rewrite Ha. unfold L.finish_direct. destruct f; do 4 eexists; reflexivity.
Qed.

(* ... and of every interleaving of two calls *)
Lemma concurrent_argv_agree : forall child penv oA oB pA fA pB fB xA xB,
  LF.op_ok h0 oA -> LF.op_ok h0 oB ->
  L.call_prog child_out child_exit true cls0 penv oA = Some (pA, fA) ->
  L.call_prog child_out child_exit true cls0 penv oB = Some (pB, fB) ->
  S_of_op child h0 cls0 penv oA = Some xA -> S_of_op child h0 cls0 penv oB = Some xB ->
  forall h a b hf, firstn (length h0) h = h0 -> L.par_run pA pB h a b hf ->
  a = S.k_argv xA /\ b = S.k_argv xB.
Proof.
  intros child penv oA oB pA fA pB fB xA xB HA HB EA EB XA XB h a b hf Hpre Hrun.
  destruct (LF.concurrent_calls child_out child_exit h0 cls0 penv oA oB pA fA pB fB closures_in_heap HA HB EA EB h a b hf Hpre Hrun) as (Ha & Hb & _).
  rewrite Ha, Hb. split; eapply spec_argv_is_S; eauto.
Qed.
End W.

(* ---------------------------------------------------------------- (2) repeatable in outcome *)
(* what C15 says comes back from a call *)
Record outcome := { o_ran : bool; o_status : Z; o_mg_status : Z; o_text : string; o_captured : string; o_child : S.child_result }.
Definition outcome_of (x : S.call) : outcome :=
  {| o_ran := S.k_ran x; o_status := S.sh_ExitStatus (S.k_err x); o_mg_status := S.mg_ExitStatus (S.k_err x);
     o_text := S.k_text x; o_captured := S.k_buf_out x; o_child := S.k_child x |}.

(* C15's [child] is a Coq function, i.e. ONE deterministic child.  A child that may answer differently
   from call to call is a family [child_n i] (its behaviour at the i-th call); it is deterministic when
   all members are the same function of (argv, envp). *)
Definition deterministic (child_n : nat -> list string -> list string -> S.child_result) : Prop :=
  forall i j argv envp, child_n i argv envp = child_n j argv envp.

Lemma call_entry_child_ext : forall penv ch1 ch2 f envm cmd args,
  (forall a e, ch1 a e = ch2 a e) ->
  S.call_entry penv ch1 f envm cmd args = S.call_entry penv ch2 f envm cmd args.
Proof.
  intros penv ch1 ch2 f envm cmd args H.
  assert (E : forall m so se c a, S.exec_ penv ch1 m so se c a = S.exec_ penv ch2 m so se c a).
  { intros. unfold S.exec_, S.run_. rewrite H. reflexivity. }
  destruct f; simpl; unfold S.Run, S.RunV, S.RunWith, S.RunWithV, S.Output, S.OutputWith; rewrite ?E; reflexivity.
Qed.

(* the C15 call of a closure call, given the environment log and the elements *)
Definition S_closure (child : list string -> list string -> S.child_result) (h0 : L.heap)
           (e : list (string * string)) (cl : L.closure) (extra : L.slice) : S.call :=
  S.call_entry (snapshot e) child (kind_entry (L.cl_kind cl)) [] (L.cl_cmd cl)
               (L.contents h0 (L.cl_baked cl) ++ L.contents h0 extra).

Section R.
Variable child_out : list (string * string) -> list (string * string) -> list string -> string.
Variable child_exit : list (string * string) -> list (string * string) -> list string -> nat.
Variable h0 : L.heap.
Variable cls0 : list L.closure.
Hypothesis closures_in_heap : LF.cls_ok h0 cls0.
Variable child_n : nat -> list string -> list string -> S.child_result.
Hypothesis Hdet : deterministic child_n.

(* two calls of one closure anywhere in one history or in two histories (first or later, whatever ran in
   between, any other slices and capacities), same call-time elements, same environment: L hands both
   children the argv C15 runs, and C15's outcome of the two is the same *)
Lemma repeatable_in_outcome : forall penv1 pre1 extra1 post1 penv2 pre2 extra2 post2 c cl,
  Forall (LF.op_ok h0) (pre1 ++ L.CallClosure c extra1 :: post1) ->
  Forall (LF.op_ok h0) (pre2 ++ L.CallClosure c extra2 :: post2) ->
  nth_error (LF.cls_at cls0 pre1) c = Some cl -> nth_error (LF.cls_at cls0 pre2) c = Some cl ->
  L.contents h0 extra1 = L.contents h0 extra2 ->
  snapshot (LF.env_at penv1 pre1) = snapshot (LF.env_at penv2 pre2) ->
  let x1 := S_closure (child_n (length pre1)) h0 (LF.env_at penv1 pre1) cl extra1 in
  let x2 := S_closure (child_n (length pre2)) h0 (LF.env_at penv2 pre2) cl extra2 in
  (exists out so st h', nth_error (L.run_history child_out child_exit true penv1 cls0 h0 (pre1 ++ L.CallClosure c extra1 :: post1)) (length pre1)
                        = Some (L.OCall (S.k_argv x1) out so st, h')) /\
  (exists out so st h', nth_error (L.run_history child_out child_exit true penv2 cls0 h0 (pre2 ++ L.CallClosure c extra2 :: post2)) (length pre2)
                        = Some (L.OCall (S.k_argv x2) out so st, h')) /\
  x1 = x2 /\ outcome_of x1 = outcome_of x2.
Proof.
  intros penv1 pre1 extra1 post1 penv2 pre2 extra2 post2 c cl Hok1 Hok2 Hc1 Hc2 Hcont Henv x1 x2.
  split; [|split].
  - eapply child_argv_agree; eauto. simpl. rewrite Hc1. reflexivity.
  - eapply child_argv_agree; eauto. simpl. rewrite Hc2. reflexivity.
  - assert (E : x1 = x2).
    { unfold x1, x2, S_closure. rewrite Henv, Hcont. apply call_entry_child_ext. intros; apply Hdet. }
    split; [exact E|rewrite E; reflexivity].
Qed.

(* the same for EVERY interleaving of two overlapping calls of the closure *)
Lemma repeatable_concurrent : forall penv c cl extraA extraB pA fA pB fB,
  LF.op_ok h0 (L.CallClosure c extraA) -> LF.op_ok h0 (L.CallClosure c extraB) ->
  nth_error cls0 c = Some cl ->
  L.call_prog child_out child_exit true cls0 penv (L.CallClosure c extraA) = Some (pA, fA) ->
  L.call_prog child_out child_exit true cls0 penv (L.CallClosure c extraB) = Some (pB, fB) ->
  L.contents h0 extraA = L.contents h0 extraB ->
  forall h a b hf, firstn (length h0) h = h0 -> L.par_run pA pB h a b hf ->
  let xA := S_closure (child_n 0) h0 penv cl extraA in
  let xB := S_closure (child_n 1) h0 penv cl extraB in
  a = S.k_argv xA /\ b = S.k_argv xB /\ xA = xB /\ outcome_of xA = outcome_of xB.
Proof.
  intros penv c cl extraA extraB pA fA pB fB HA HB Hc EA EB Hcont h a b hf Hpre Hrun xA xB.
  assert (XA : S_of_op (child_n 0) h0 cls0 penv (L.CallClosure c extraA) = Some xA) by (simpl; rewrite Hc; reflexivity).
  assert (XB : S_of_op (child_n 1) h0 cls0 penv (L.CallClosure c extraB) = Some xB) by (simpl; rewrite Hc; reflexivity).
  destruct (LF.concurrent_calls child_out child_exit h0 cls0 penv _ _ pA fA pB fB closures_in_heap HA HB EA EB h a b hf Hpre Hrun) as (Ha & Hb & _).
  assert (E : xA = xB).
  { unfold xA, xB, S_closure. rewrite Hcont. apply call_entry_child_ext. intros; apply Hdet. }
  split; [rewrite Ha; eapply spec_argv_is_S; eauto|].
  split; [rewrite Hb; eapply spec_argv_is_S; eauto|].
  split; [exact E|rewrite E; reflexivity].
Qed.
End R.

(* ---------------------------------------------------------------- what comes back: the two models' observations *)
(* strconv.ParseBool / mg.Verbose() *)
Lemma parse_bool_agree : forall s, L.parse_bool_true s = S.parse_bool s.
Proof.
  intros s. unfold L.parse_bool_true, S.parse_bool. simpl.
  destruct (String.eqb s "1"), (String.eqb s "t"), (String.eqb s "T"), (String.eqb s "TRUE"),
           (String.eqb s "true"), (String.eqb s "True"); reflexivity.
Qed.

Lemma verbose_agree : forall e, L.verbose e = S.verbose (snapshot e).
Proof. intros. unfold L.verbose, S.verbose. rewrite snapshot_getenv. apply parse_bool_agree. Qed.

(* strings.TrimSuffix(s, "\n"): two different programs, one function *)
Lemma L_trim_spec : forall s, SF.one_newline_removed s (L.trim_nl s).
Proof.
  induction s as [|c r IH]; [right; split; [reflexivity|]|].
  - intros [p Hp]. destruct p; discriminate.
  - simpl. destruct r as [|c' r'].
    + destruct (is_c c 10) eqn:E.
      * left. apply SF.is_c_true in E; [|lia]. subst c. reflexivity.
      * right. split; [reflexivity|]. intros [p Hp]. destruct p as [|d p].
        -- simpl in Hp. inversion Hp; subst. rewrite SF.is_c_ch in E by lia. discriminate.
        -- simpl in Hp. inversion Hp. destruct p; discriminate.
    + destruct IH as [IH|[IH N]].
      * left. simpl in *. rewrite IH at 1. reflexivity.
      * right. split.
        -- simpl in *. rewrite <- IH. reflexivity.
        -- intros [p Hp]. destruct p as [|d p].
           ++ simpl in Hp. inversion Hp.
           ++ simpl in Hp. inversion Hp. apply N. exists p. assumption.
Qed.

Lemma trim_agree : forall s, L.trim_nl s = S.trim_nl s.
Proof. intros. eapply SF.one_newline_removed_unique; [apply L_trim_spec|apply SF.trim_nl_spec]. Qed.

(* L's child is a function of the process environment at the call and of its argv (PATH lookup, file system
   epoch); C15's is a function of (argv, envp).  For a child that does not look at its environment, L's two parameters are projections
   of C15's one. *)
Definition env_blind (child : list string -> list string -> S.child_result) : Prop :=
  forall a e e', child a e = child a e'.
Definition L_out (child : list string -> list string -> S.child_result) (_ _ : list (string * string)) (argv : list string) : string :=
  S.child_out (child argv []).
Definition L_exit (child : list string -> list string -> S.child_result) (_ _ : list (string * string)) (argv : list string) : nat :=
  Z.to_nat (S.sh_ExitStatus (snd (SF.outcome (child argv [])))).

(* C15's record, seen through L's observation *)
Definition obs_of_call (f : S.entry) (x : S.call) : L.obs :=
  L.OCall (S.k_argv x)
          (match f with
           | S.FOutput | S.FOutputWith => Some (S.k_text x)
           | S.FExec _ _ => Some (S.k_buf_out x)
           | _ => None
           end)
          (S.k_os_stdout x)
          (Z.to_nat (S.sh_ExitStatus (S.k_err x))).

Lemma call_facts : forall child e f envm cmd argsl, env_blind child ->
  let x := S.call_entry (snapshot e) child f envm cmd argsl in
  let r := child (S.k_argv x) [] in
  (forall m, L_out child e m (S.k_argv x) = S.child_out r) /\
  (forall m, L_exit child e m (S.k_argv x) = Z.to_nat (S.sh_ExitStatus (S.k_err x))) /\
  S.k_text x = (if SF.is_output f then S.trim_nl (S.child_out r) else EmptyString) /\
  S.k_os_stdout x = String.append (S.reaches S.WOsStdout (SF.entry_so (snapshot e) f) (S.child_out r))
                                  (S.reaches S.WOsStdout (SF.entry_se f) (S.child_err r)) /\
  S.k_buf_out x = S.reaches S.WBuf (SF.entry_so (snapshot e) f) (S.child_out r).
Proof.
  intros child e f envm cmd argsl Hb x r.
  pose proof (SF.call_core (snapshot e) child f envm cmd argsl) as C. cbv zeta in C. fold x in C.
  destruct C as (Hchild & Hargv & Henvp & Hstdin & Hout & Htext & Hso & Hse & Hbo & Hbe).
  assert (Hr : child (S.k_argv x) (S.k_envp x) = r) by apply Hb.
  rewrite Hr in *.
  split; [reflexivity|]. split.
  - unfold L_exit. fold r. rewrite <- Hout. reflexivity.
  - auto.
Qed.

Lemma finish_direct_agree : forall child e f emap cmd argsl, env_blind child ->
  let x := S.call_entry (snapshot e) child (to_entry f) emap cmd argsl in
  L.finish_direct (L_out child) (L_exit child) f emap e (S.k_argv x) = obs_of_call (to_entry f) x.
Proof.
  intros child e f emap cmd argsl Hb x.
  destruct (call_facts child e (to_entry f) emap cmd argsl Hb) as (Ho & Hx & Ht & Hs & Hbo). fold x in Ho, Hx, Ht, Hs, Hbo.
  unfold L.finish_direct, obs_of_call. rewrite Ho, Hx, Hs, ?Ht, ?Hbo.
  destruct f; simpl; rewrite ?verbose_agree, ?trim_agree, ?SF.append_nil_r; try reflexivity;
    destruct (S.verbose (snapshot e)); simpl; rewrite ?SF.append_nil_r; reflexivity.
Qed.

Lemma finish_closure_agree : forall child h0 e cl extra, env_blind child ->
  let x := S_closure child h0 e cl extra in
  L.finish_closure (L_out child) (L_exit child) (L.cl_kind cl) e (S.k_argv x) = obs_of_call (kind_entry (L.cl_kind cl)) x.
Proof.
  intros child h0 e cl extra Hb x. unfold x, S_closure.
  destruct (call_facts child e (kind_entry (L.cl_kind cl)) [] (L.cl_cmd cl)
              (L.contents h0 (L.cl_baked cl) ++ L.contents h0 extra) Hb) as (Ho & Hx & Ht & Hs & Hbo).
  unfold L.finish_closure, obs_of_call. rewrite Ho, Hx, Hs, ?Ht.
  destruct (L.cl_kind cl); simpl; rewrite ?verbose_agree, ?trim_agree, ?SF.append_nil_r; try reflexivity;
    destruct (S.verbose (snapshot e)); simpl; rewrite ?SF.append_nil_r; reflexivity.
Qed.

(* every call of every history: L's whole observation is C15's record seen through [obs_of_call] *)
Lemma observation_agree : forall child h0 cls0 penv pre o post x, env_blind child ->
  LF.cls_ok h0 cls0 -> Forall (LF.op_ok h0) (pre ++ o :: post) ->
  S_of_op child h0 (LF.cls_at cls0 pre) (LF.env_at penv pre) o = Some x ->
  exists f h', nth_error (L.run_history (L_out child) (L_exit child) true penv cls0 h0 (pre ++ o :: post)) (length pre)
               = Some (obs_of_call f x, h') /\
               match o with
               | L.CallClosure c _ => exists cl, nth_error (LF.cls_at cls0 pre) c = Some cl /\ f = kind_entry (L.cl_kind cl)
               | L.CallDirect g _ _ _ => f = to_entry g
               | _ => False
               end.
Proof.
  intros child h0 cls0 penv pre o post x Hb Hcls Hok Hx.
  destruct (LF.history_nth (L_out child) (L_exit child) h0 pre penv cls0 h0 o post Hcls (firstn_all h0) Hok) as (h' & H & _).
  pose proof (spec_argv_is_S _ _ _ _ _ _ Hx) as Ha.
  destruct o as [k v|k cmd b|c extra|g emap cmd args]; simpl in Hx; try discriminate.
  - destruct (nth_error (LF.cls_at cls0 pre) c) as [cl|] eqn:E; [|discriminate]. inversion Hx; subst x; clear Hx.
    exists (kind_entry (L.cl_kind cl)), h'. split; [|exists cl; auto].
    rewrite H. unfold LF.spec_obs. rewrite E, Ha. f_equal. f_equal.
    apply (finish_closure_agree child h0 (LF.env_at penv pre) cl extra Hb).
  - inversion Hx; subst x; clear Hx. exists (to_entry g), h'. split; [|reflexivity].
    rewrite H. unfold LF.spec_obs. rewrite Ha. f_equal. f_equal.
    apply finish_direct_agree; auto.
Qed.

(* the environment the C15 child is started with answers every lookup as the expansion did *)
Lemma child_env_agree : forall child e f emap cmd argsl,
  SF.keys_ok (snapshot e) -> SF.keys_ok emap ->
  let x := S.call_entry (snapshot e) child (to_entry f) emap cmd argsl in
  forall k, SF.or_empty (S.child_getenv (S.k_envp x) k) = L.mapping (if L.uses_map f then emap else []) e k.
Proof.
  intros child e f emap cmd argsl Hp Hm x k.
  destruct (SF.env_override (snapshot e) child (to_entry f) emap cmd argsl Hp Hm) as (Hsees & _).
  fold x in Hsees. rewrite Hsees, mapping_agree.
  unfold S.exec_mapping, S.getenv, SF.or_empty.
  destruct f; simpl;
    try (destruct (S.map_get emap k); [reflexivity|]);
    destruct (S.map_get (snapshot e) k); reflexivity.
Qed.

(* a log handed to C15's model WITHOUT the translation would start the child with a stale value: the
   translation is needed, it is not a convenience *)
Lemma log_is_not_a_snapshot :
  let log := [("A", "new"); ("A", "old")] in
  S.getenv log "A" = "new" /\
  S.child_getenv (S.dedup_env (S.environ log)) "A" = Some "old" /\
  S.child_getenv (S.dedup_env (S.environ (snapshot log))) "A" = Some "new" /\ env_get log "A" = "new".
Proof. vm_compute. repeat split. Qed.

(* ---------------------------------------------------------------- non-vacuity *)
Definition nv_h0 : L.heap := [ ["-n"; "$A"; "${A}x"]; ["tail"] ].
Definition nv_log : list (string * string) := [("A", "one")].
Definition nv_cl : L.closure := {| L.cl_kind := L.KOut; L.cl_cmd := "echo"; L.cl_baked := LF.sl 0 0 2 3 |}.
Definition nv_ops : list L.op :=
  [L.MkClosure L.KOut "echo" (LF.sl 0 0 2 3);
   L.CallClosure 0 (LF.sl 1 0 1 1);                                   (* echo -n $A tail *)
   L.CallDirect L.FOutputWith [("A", "over")] "echo" (LF.sl 0 0 3 3); (* overlay redefines A; this child fails *)
   L.SetEnv "B" "unrelated"; L.SetEnv "A" "one";
   L.CallClosure 0 (LF.sl 1 0 1 1)].                                  (* the same call again *)
(* an echo that exits 3 when it is given "overx"; it does not look at its environment *)
Definition nv_child (argv envp : list string) : S.child_result :=
  S.Started (if existsb (String.eqb "overx") argv then 3 else 0)
            (String.append (String.concat " " (tl argv)) SF.nl) EmptyString.

Lemma nonvacuous_compose :
  env_blind nv_child /\ deterministic (fun _ => nv_child) /\ Forall (LF.op_ok nv_h0) nv_ops /\
  (* L: what the children are started with, and what comes back in L's vocabulary *)
  map fst (L.run_history (L_out nv_child) (L_exit nv_child) true nv_log [] nv_h0 nv_ops) =
    [L.OMk; L.OCall ["echo"; "-n"; "one"; "tail"] (Some "-n one tail") "" 0;
     L.OCall ["echo"; "-n"; "over"; "overx"] (Some "-n over overx") "" 3;
     L.OSet; L.OSet; L.OCall ["echo"; "-n"; "one"; "tail"] (Some "-n one tail") "" 0] /\
  (* C15 on the translated calls: same argv, the overlay wins in expansion AND in the child's environment *)
  let x1 := S_closure nv_child nv_h0 nv_log nv_cl (LF.sl 1 0 1 1) in
  let x2 := S_closure nv_child nv_h0 (("A", "one") :: ("B", "unrelated") :: nv_log) nv_cl (LF.sl 1 0 1 1) in
  let y := S.call_entry (snapshot nv_log) nv_child S.FOutputWith [("A", "over")] "echo" ["-n"; "$A"; "${A}x"] in
  S.k_argv x1 = ["echo"; "-n"; "one"; "tail"] /\ S.k_text x1 = "-n one tail" /\ S.k_err x1 = S.ENil /\
  S.k_argv y = ["echo"; "-n"; "over"; "overx"] /\ S.k_text y = "-n over overx" /\ S.k_err y = S.EFatal 3 /\ S.k_ran y = true /\
  S.child_getenv (S.k_envp y) "A" = Some "over" /\ S.child_getenv (S.k_envp x1) "A" = Some "one" /\
  S.k_argv x2 = S.k_argv x1 /\ outcome_of x2 = outcome_of x1 /\ S.k_envp x2 <> S.k_envp x1.
Proof.
  split; [intros a e e'; reflexivity|]. split; [intros i j a e; reflexivity|].
  split; [repeat constructor|]. split; [vm_compute; reflexivity|].
  cbv zeta. repeat split; try (vm_compute; reflexivity). vm_compute. discriminate.
Qed.
