(* Bridge: the three independent transcriptions of parse.setImports / getNamedImports
     Model/Gen.v        (C18)  collect / named_order / set_imports
     Model/Dupes.v      (C07)  named_imports / root_imports / ordered_imports / effective_imports
     Model/ImportTag.v  (C19)  scan / set_put / sort_pairs / set_imports
   agree on the COLLECTION: the list of (path, alias) pairs in the order the imports are fetched
   (named part: distinct pairs sorted by path, then alias; root part: visiting order, a path imported bare several times
   kept once - fix 4a102aa).  Common projection: the tagged import specs of the package as (path, alias) pairs in
   visiting order (files in sorted file-name order, specs in source order), alias "" = root import.
   What each model abstracts:
     Gen        starts from getImportPath's result per spec; has files with names (sorts them) and an
                adversarial range over the importNames set;
     Dupes      has no files: [imports pk] is already the visiting-order list, each entry with the
                targets of the package; the go tool is not modelled;
     ImportTag  has the comment scanner [gip] and go/parser's declarations; its file list is already
                in visiting order (no names); the go tool is a parameter.
   [core] below is the reference reading; each model's collection is proved EQUAL (as a list) to
   [core] of its own spec list, by induction; hence the three are equal whenever the spec lists are. *)
From Mage Require Import Base.Strs Model.Gen Proof.SortPerm Proof.Gen_facts.
From Mage Require Model.Dupes Model.ImportTag.
From Coq Require Import Sorting.Permutation.

(* ---------------------------------------------------------------- the reference *)
Definition is_named (pa : string * string) : bool := negb (String.eqb (snd pa) "").
Definition is_root (pa : string * string) : bool := String.eqb (snd pa) "".

(* importNames after all specs were visited: put-if-absent, insertion order *)
Definition name_set (l : list (string * string)) (acc : list (string * string)) : list (string * string) :=
  fold_left (fun s x => sadd x s) l acc.

Definition core_unsorted (l : list (string * string)) : list (string * string) :=
  name_set (filter is_named l) [] ++ name_set (filter is_root l) [].
Definition core (l : list (string * string)) : list (string * string) :=
  sort_le pair_leb (name_set (filter is_named l) []) ++ name_set (filter is_root l) [].

(* ---------------------------------------------------------------- put-if-absent, three spellings *)
Lemma sadd_existsb x : forall s, sadd x s = if existsb (pair_eqb x) s then s else s ++ [x].
Proof.
  induction s as [|y r IH]; simpl; auto.
  destruct (pair_eqb x y); simpl; auto. rewrite IH. now destruct (existsb (pair_eqb x) r).
Qed.

Lemma set_put_sadd p a m : ImportTag.set_put p a m = sadd (p, a) m.
Proof. rewrite sadd_existsb. reflexivity. Qed.

(* ---------------------------------------------------------------- the order, three spellings *)
Lemma leb_not_gt a b : String.leb a b = match String.compare a b with Gt => false | _ => true end.
Proof. reflexivity. Qed.

Lemma ltb_flip a b : String.ltb b a = negb (String.leb a b).
Proof.
  unfold String.ltb, String.leb. rewrite (String.compare_antisym a b).
  now destruct (String.compare b a).
Qed.

Lemma scmp_neq a b : a <> b -> String.compare a b <> Eq.
Proof. intros H E. apply H. now apply String.compare_eq_iff. Qed.

(* ImportTag: insert before the first element that is not smaller *)
Lemma pair_compare_leb x y :
  pair_leb x y = match ImportTag.pair_compare x y with Gt => false | _ => true end.
Proof.
  unfold pair_leb, ImportTag.pair_compare.
  destruct (String.eqb (fst x) (fst y)) eqn:E.
  - apply String.eqb_eq in E. rewrite E, scmp_refl. reflexivity.
  - apply String.eqb_neq in E. apply scmp_neq in E. rewrite leb_not_gt.
    destruct (String.compare (fst x) (fst y)); auto. congruence.
Qed.

Lemma insert_sorted_le k : forall m, ImportTag.insert_sorted k m = insert_le pair_leb k m.
Proof.
  induction m as [|k' r IH]; simpl; auto.
  rewrite pair_compare_leb. destruct (ImportTag.pair_compare k k'); auto. now rewrite IH.
Qed.

Lemma sort_pairs_le l : ImportTag.sort_pairs l = sort_le pair_leb l.
Proof.
  unfold ImportTag.sort_pairs, sort_le. induction l as [|x l IH]; simpl; auto.
  now rewrite IH, insert_sorted_le.
Qed.

(* Dupes: a strict comparison, walked from the other side *)
Definition dpa (i : Dupes.import) : string * string := (Dupes.i_path i, Dupes.i_alias i).

Lemma import_ltb_leb x y : Dupes.import_ltb y x = negb (pair_leb (dpa x) (dpa y)).
Proof.
  unfold Dupes.import_ltb, pair_leb, dpa. simpl.
  rewrite (String.eqb_sym (Dupes.i_path y) (Dupes.i_path x)).
  destruct (String.eqb (Dupes.i_path x) (Dupes.i_path y)); apply ltb_flip.
Qed.

Lemma dupes_insert x : forall l,
  map dpa (Dupes.insert_by Dupes.import_ltb x l) = insert_le pair_leb (dpa x) (map dpa l).
Proof.
  induction l as [|y r IH]; simpl; auto.
  rewrite import_ltb_leb. destruct (pair_leb (dpa x) (dpa y)); simpl; auto. now rewrite IH.
Qed.

Lemma dupes_isort l : map dpa (Dupes.isort Dupes.import_ltb l) = sort_le pair_leb (map dpa l).
Proof.
  unfold Dupes.isort, sort_le. induction l as [|x l IH]; simpl; auto.
  now rewrite dupes_insert, IH.
Qed.

(* ---------------------------------------------------------------- Gen *)
Definition spa (s : ispec) : string * string := (sp_path s, sp_alias s).
(* the tagged specs in visiting order *)
Definition gen_specs (files : list Gen.file) : list (string * string) :=
  map spa (flat_map f_specs (sort_by f_name files)).
(* the list set_imports hands to get_all *)
Definition gen_collection (rng : list (string * string) -> list (string * string)) (files : list Gen.file)
  : list (string * string) :=
  let '(names, roots) := Gen.collect (files_visited true files) in
  named_order true rng names ++ map (fun p => (p, "")) roots.

Lemma gen_set_imports_unfold env rng files :
  set_imports env true rng files = option_map (assign []) (get_all env (gen_collection rng files)).
Proof.
  unfold set_imports, gen_collection. destruct (Gen.collect (files_visited true files)) as [names roots].
  now destruct (get_all env _).
Qed.

Lemma visit_files_flat : forall files acc,
  fold_left visit_file files acc = fold_left visit_spec (flat_map f_specs files) acc.
Proof.
  induction files as [|f r IH]; simpl; intros acc; auto.
  rewrite fold_left_app. apply IH.
Qed.

(* rootImports: append if not there yet (4a102aa), on paths; the same on (path, "") pairs *)
Definition rput (p : string) (r : list string) : list string :=
  if existsb (String.eqb p) r then r else r ++ [p].
Definition bare (p : string) : string * string := (p, "").

Lemma rput_existsb p : forall r, existsb (String.eqb p) r = existsb (pair_eqb (bare p)) (map bare r).
Proof.
  induction r as [|q r IH]; simpl; auto. unfold pair_eqb at 1. simpl. now rewrite Bool.andb_true_r, IH.
Qed.

Lemma rput_sadd p r : map bare (rput p r) = sadd (bare p) (map bare r).
Proof.
  unfold rput. rewrite sadd_existsb, <- rput_existsb.
  destruct (existsb (String.eqb p) r); auto. now rewrite map_app.
Qed.

Lemma roots_set : forall ps r, map bare (fold_left (fun r p => rput p r) ps r) = name_set (map bare ps) (map bare r).
Proof.
  unfold name_set. induction ps as [|p ps IH]; simpl; intros r; auto. now rewrite IH, rput_sadd.
Qed.

Lemma visit_specs_core : forall specs names roots,
  fold_left visit_spec specs (names, roots) =
  (name_set (filter is_named (map spa specs)) names,
   fold_left (fun r p => rput p r) (map fst (filter is_root (map spa specs))) roots).
Proof.
  induction specs as [|s r IH]; simpl; intros names roots; auto.
  unfold is_named, is_root, spa at 1 3. simpl.
  destruct (String.eqb (sp_alias s) "") eqn:E; simpl; now rewrite IH.
Qed.

Lemma roots_back : forall l, map bare (map fst (filter is_root l)) = filter is_root l.
Proof.
  induction l as [|[p a] r IH]; simpl; auto.
  destruct (is_root (p, a)) eqn:E; simpl; auto.
  unfold is_root in E. simpl in E. apply String.eqb_eq in E. subst. unfold bare at 1. now rewrite IH.
Qed.

Lemma gen_core rng files : is_range rng -> gen_collection rng files = core (gen_specs files).
Proof.
  intros R. unfold gen_collection, Gen.collect, files_visited, gen_specs, core.
  rewrite visit_files_flat, visit_specs_core. simpl. unfold named_order.
  change (fun p : string => (p, "")) with bare. rewrite roots_set, roots_back. simpl. f_equal.
  apply sort_pairs_canonical. apply R.
Qed.

Definition gpa (i : Gen.import) : string * string := (i_path i, i_alias i).

Lemma get_all_pairs env : forall l imps, get_all env l = Some imps -> map gpa imps = l.
Proof.
  induction l as [|[p a] r IH]; simpl; intros imps H.
  - injection H as <-. reflexivity.
  - unfold get_import in H. destruct (env p) as [[name pfs]|]; [|discriminate].
    destruct (get_all env r) as [is_|]; [|discriminate]. injection H as <-. simpl. now rewrite (IH is_ eq_refl).
Qed.

Lemma assign_pairs : forall imps used, map gpa (assign used imps) = map gpa imps.
Proof. induction imps as [|i r IH]; intros used; simpl; auto. now rewrite IH. Qed.

Lemma gen_imports_are_collection env rng files imps :
  set_imports env true rng files = Some imps -> map gpa imps = gen_collection rng files.
Proof.
  rewrite gen_set_imports_unfold. destruct (get_all env (gen_collection rng files)) as [l|] eqn:E; [|discriminate].
  simpl. intros H. injection H as <-. rewrite assign_pairs. now apply (get_all_pairs env).
Qed.

(* ---------------------------------------------------------------- Dupes *)
Lemma dupes_existsb x : forall acc,
  existsb (Dupes.same_import x) acc = existsb (pair_eqb (dpa x)) (map dpa acc).
Proof. induction acc as [|y r IH]; simpl; auto. now rewrite IH. Qed.

Lemma dupes_dedup : forall l acc,
  map dpa (fold_left (fun acc x => if existsb (Dupes.same_import x) acc then acc else acc ++ [x]) l acc) =
  name_set (map dpa l) (map dpa acc).
Proof.
  induction l as [|x r IH]; simpl; intros acc; auto.
  rewrite sadd_existsb, <- dupes_existsb.
  destruct (existsb (Dupes.same_import x) acc); rewrite IH; auto. now rewrite map_app.
Qed.

Lemma dupes_named x : Dupes.named x = is_named (dpa x).
Proof. reflexivity. Qed.

Lemma dupes_filter_named l : map dpa (filter Dupes.named l) = filter is_named (map dpa l).
Proof.
  induction l as [|x r IH]; simpl; auto. rewrite <- dupes_named.
  destruct (Dupes.named x); simpl; now rewrite IH.
Qed.

Lemma dupes_filter_root l :
  map dpa (filter (fun i => negb (Dupes.named i)) l) = filter is_root (map dpa l).
Proof.
  induction l as [|x r IH]; simpl; auto.
  assert (E : is_root (dpa x) = negb (Dupes.named x)).
  { unfold Dupes.named, Dupes.is_empty, is_root, dpa. simpl. now rewrite Bool.negb_involutive. }
  rewrite E. destruct (negb (Dupes.named x)); simpl; now rewrite IH.
Qed.

Lemma dupes_core pk : map dpa (Dupes.ordered_imports pk) = core (map dpa (Dupes.imports pk)).
Proof.
  unfold Dupes.ordered_imports, Dupes.named_imports, Dupes.root_imports, Dupes.root_imports_before_4a102aa, Dupes.dedup_imports, core.
  rewrite map_app, dupes_isort, !dupes_dedup, dupes_filter_named, dupes_filter_root. reflexivity.
Qed.

Lemma dupes_effective_core pk :
  map dpa (Dupes.effective_imports pk) = core_unsorted (map dpa (Dupes.imports pk)).
Proof.
  unfold Dupes.effective_imports, Dupes.named_imports, Dupes.root_imports, Dupes.root_imports_before_4a102aa, Dupes.dedup_imports, core_unsorted.
  rewrite map_app, !dupes_dedup, dupes_filter_named, dupes_filter_root. reflexivity.
Qed.

(* ---------------------------------------------------------------- ImportTag *)
(* the specs as the scanner sees them, in visiting order *)
Definition it_specs (files : list ImportTag.file) : list ImportTag.impspec :=
  flat_map (fun f => flat_map (fun gen => map (ImportTag.eff_spec gen) (ImportTag.gd_specs gen)) f) files.
Fixpoint keep_some {A B} (g : A -> option B) (l : list A) : list B :=
  match l with
  | [] => []
  | x :: r => match g x with Some y => y :: keep_some g r | None => keep_some g r end
  end.
Definition it_pairs gip (files : list ImportTag.file) : list (string * string) := keep_some gip (it_specs files).
Definition it_collection gip (files : list ImportTag.file) : list (string * string) :=
  let '(names, roots) := ImportTag.scan gip ImportTag.set_put ImportTag.root_put files in
  ImportTag.sort_pairs names ++ map (fun s => (s, "")) roots.

Lemma fold_left_map {A B C} (f : A -> C -> A) (g : B -> C) : forall l acc,
  fold_left (fun a s => f a (g s)) l acc = fold_left f (map g l) acc.
Proof. induction l as [|s r IH]; simpl; intros acc; auto. Qed.

Lemma it_scan_decl gip put rp gen : forall acc,
  ImportTag.scan_decl gip put rp acc gen =
  fold_left (ImportTag.scan_step gip put rp) (map (ImportTag.eff_spec gen) (ImportTag.gd_specs gen)) acc.
Proof. intros acc. unfold ImportTag.scan_decl. apply fold_left_map. Qed.

Lemma it_scan_file gip put rp : forall f acc,
  ImportTag.scan_file gip put rp acc f =
  fold_left (ImportTag.scan_step gip put rp) (flat_map (fun gen => map (ImportTag.eff_spec gen) (ImportTag.gd_specs gen)) f) acc.
Proof.
  unfold ImportTag.scan_file. induction f as [|gen r IH]; simpl; intros acc; auto.
  rewrite fold_left_app, <- it_scan_decl. apply IH.
Qed.

Lemma it_scan_flat gip put rp : forall files acc,
  fold_left (ImportTag.scan_file gip put rp) files acc = fold_left (ImportTag.scan_step gip put rp) (it_specs files) acc.
Proof.
  unfold it_specs. induction files as [|f r IH]; simpl; intros acc; auto.
  rewrite fold_left_app, <- it_scan_file. apply IH.
Qed.

Lemma it_is_empty a : ImportTag.is_empty a = String.eqb a "".
Proof. now destruct a. Qed.

Lemma it_steps_core gip : forall specs names roots,
  fold_left (ImportTag.scan_step gip ImportTag.set_put ImportTag.root_put) specs (names, roots) =
  (name_set (filter is_named (keep_some gip specs)) names,
   fold_left (fun r p => rput p r) (map fst (filter is_root (keep_some gip specs))) roots).
Proof.
  induction specs as [|s r IH]; simpl; intros names roots; auto.
  unfold ImportTag.scan_step at 2. destruct (gip s) as [[p a]|]; simpl; [|apply IH].
  rewrite it_is_empty. unfold is_named at 1, is_root at 1. simpl.
  destruct (String.eqb a "") eqn:E; simpl; rewrite IH.
  - reflexivity.
  - now rewrite set_put_sadd.
Qed.

Lemma it_core gip files : it_collection gip files = core (it_pairs gip files).
Proof.
  unfold it_collection, ImportTag.scan, it_pairs, core.
  rewrite it_scan_flat, it_steps_core. simpl.
  change (fun s : string => (s, "")) with bare. now rewrite roots_set, roots_back, sort_pairs_le.
Qed.

Definition ipa (i : ImportTag.import) : string * string := (ImportTag.imp_path i, ImportTag.imp_alias i).

Lemma it_collect_pairs golist d : forall l imps,
  ImportTag.collect (fun pa => ImportTag.get_import_from golist d (fst pa) (snd pa)) l = Some imps -> map ipa imps = l.
Proof.
  induction l as [|[p a] r IH]; simpl; intros imps H.
  - injection H as <-. reflexivity.
  - unfold ImportTag.get_import_from in H at 1. simpl in H. destruct (golist d p); [|discriminate].
    destruct (ImportTag.collect _ r) as [is_|]; [|discriminate]. injection H as <-. simpl. now rewrite (IH is_ eq_refl).
Qed.

Lemma it_collect_roots golist d : forall l imps,
  ImportTag.collect (fun s => ImportTag.get_import_from golist d s EmptyString) l = Some imps ->
  map ipa imps = map (fun s => (s, "")) l.
Proof.
  induction l as [|p r IH]; simpl; intros imps H.
  - injection H as <-. reflexivity.
  - unfold ImportTag.get_import_from in H at 1. destruct (golist d p); [|discriminate].
    destruct (ImportTag.collect _ r) as [is_|]; [|discriminate]. injection H as <-. simpl. now rewrite (IH is_ eq_refl).
Qed.

Lemma it_imports_are_collection golist dir files imps :
  ImportTag.set_imports golist dir files = Some imps ->
  map ipa imps = it_collection ImportTag.get_import_path files.
Proof.
  unfold ImportTag.set_imports, ImportTag.set_imports_gen, it_collection.
  destruct (ImportTag.scan ImportTag.get_import_path ImportTag.set_put ImportTag.root_put files) as [names roots].
  destruct (ImportTag.collect _ (ImportTag.sort_pairs names)) as [named|] eqn:E1; [|discriminate].
  destruct (ImportTag.collect _ roots) as [rs|] eqn:E2; [|discriminate].
  intros H. injection H as <-. rewrite map_app.
  now rewrite (it_collect_pairs _ _ _ _ E1), (it_collect_roots _ _ _ _ E2).
Qed.

(* ---------------------------------------------------------------- the three agree *)
Lemma three_agree rng gfiles pk gip ifiles :
  is_range rng ->
  gen_specs gfiles = map dpa (Dupes.imports pk) ->
  gen_specs gfiles = it_pairs gip ifiles ->
  gen_collection rng gfiles = map dpa (Dupes.ordered_imports pk) /\
  gen_collection rng gfiles = it_collection gip ifiles.
Proof.
  intros R E1 E2. rewrite (gen_core rng gfiles R), dupes_core, it_core, <- E1, <- E2. auto.
Qed.

(* ---------------------------------------------------------------- a concrete package in all three *)
Definition ex_gen_files : list Gen.file :=
  [ {| f_name := "b.go"; f_doc := None;
       f_specs := [{| sp_path := "x/t"; sp_alias := "two" |}; {| sp_path := "x/r"; sp_alias := "" |}] |};
    {| f_name := "a.go"; f_doc := None;
       f_specs := [{| sp_path := "x/z"; sp_alias := "aa" |}; {| sp_path := "x/t"; sp_alias := "two" |};
                   {| sp_path := "x/r"; sp_alias := "" |}; {| sp_path := "x/t"; sp_alias := "one" |}] |} ].

Definition ex_dupes_pkg : Dupes.pkg :=
  let mk p a := {| Dupes.i_alias := a; Dupes.i_path := p; Dupes.i_tgts := [] |} in
  {| Dupes.locals := []; Dupes.aliases := [];
     Dupes.imports := [mk "x/z" "aa"; mk "x/t" "two"; mk "x/r" ""; mk "x/t" "one"; mk "x/t" "two"; mk "x/r" ""] |}.

Definition ex_it_files : list ImportTag.file :=
  let sp (tag : string) (p : string) := {| ImportTag.is_doc := Some [tag]; ImportTag.is_comment := None;
                                            ImportTag.is_path := p; ImportTag.is_raw := false |} in
  [ [ {| ImportTag.gd_doc := None; ImportTag.gd_lparen := true;
         ImportTag.gd_specs := [sp "// mage:import aa" "x/z"; sp "// mage:import two" "x/t"; sp "//mage:import" "x/r";
                                sp "// mage:import one" "x/t"] |} ];
    [ {| ImportTag.gd_doc := None; ImportTag.gd_lparen := true;
         ImportTag.gd_specs := [sp "// mage:import two" "x/t"; sp "// mage:import" "x/r"] |} ] ].

Lemma example_agree :
  let want := [("x/t", "one"); ("x/t", "two"); ("x/z", "aa"); ("x/r", "")] in
  gen_specs ex_gen_files = map dpa (Dupes.imports ex_dupes_pkg) /\
  gen_specs ex_gen_files = it_pairs ImportTag.get_import_path ex_it_files /\
  gen_collection (@rev _) ex_gen_files = want /\
  map dpa (Dupes.ordered_imports ex_dupes_pkg) = want /\
  it_collection ImportTag.get_import_path ex_it_files = want.
Proof. vm_compute. repeat split. Qed.
