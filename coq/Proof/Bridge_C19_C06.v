(* Bridge C19 -> C06 -> C04.
   C19's model (Model/ImportTag.v) takes "the targets of an imported package" as data: the go tool's
   answer [golist dir path : option pkginfo] with [pk_funcs] a list of (receiver, name).  C06's
   model (Model/Classify.v) DECIDES the targets of any package given as abstract declarations
   ([C.targets pk]), and C04's model (Model/Dispatch.v, Model/DispatchSpec.v) decides how the words of
   a command line resolve to template targets.  Here: [pk_funcs] instantiated with Classify's
   targets of the imported package, the names a tagged import exposes expressed through C06's
   [valid_sig], and the template targets of the imports resolved in C04's vocabulary.
   C, CF, D, DS as in Proof/Bridge_C06_C04.v; I = Model/ImportTag, IF = Proof/ImportTag_facts. *)
From Mage Require Import Base.Strs.
From Coq Require Import Permutation.
From Mage Require Import Proof.Bridge_C06_C04.
From Mage Require Model.ImportTag Proof.ImportTag_facts Proof.Dispatch_facts.
Module I := ImportTag.
Module IF := ImportTag_facts.

(* ------------------------------------------------------------------ the translation C06 -> C19 *)
(* a Function of C06 as the record C19's model stamps alias and import path on *)
Definition func_of (f : C.function) : I.func :=
  {| I.f_alias := EmptyString; I.f_path := EmptyString; I.f_recv := C.f_recv f; I.f_name := C.f_name f |}.

(* what Package(dir, files) yields for an imported package given as abstract declarations: its
   targets are Classify's; its own Default / Aliases declarations are carried along (and ignored) *)
Definition pkginfo_of (name : string) (pk : C.pkg) : I.pkginfo :=
  {| I.pk_name := name;
     I.pk_funcs := map func_of (C.funcs pk);
     I.pk_default := match C.setDefault pk with C.DSome f => Some (C.f_name f) | _ => None end;
     I.pk_aliases := match C.setAliases pk with
                     | C.AList l => map (fun kf => (fst kf, C.f_name (snd kf))) l
                     | C.APanic => []
                     end |}.

Section World.
(* the go tool: directory it runs in -> import path -> (package name, the package's declarations) *)
Variable world : string -> string -> option (string * C.pkg).
Definition golist_of (d p : string) : option I.pkginfo :=
  match world d p with Some (n, pk) => Some (pkginfo_of n pk) | None => None end.

(* ------------------------------------------------------------------ strings: the models agree *)
Lemma to_lower_agrees : forall s, I.to_lower s = D.lower s.
Proof. induction s as [|c s IH]; simpl; [reflexivity|]. now rewrite IH. Qed.

Lemma target_valid : forall pk d f, In (d, f) (C.targets pk) -> In d (C.decls pk) /\ CF.valid_sig pk d.
Proof.
  intros pk d f H.
  assert (Hin : In d (C.decls pk)).
  { unfold C.targets, C.targets_ in H. apply in_app_or in H. destruct H as [H|H].
    - apply CF.in_setNamespaces in H. destruct H as (t & _ & _ & Hd & _).
      unfold C.doc_methods in Hd. apply filter_In in Hd. tauto.
    - apply CF.in_setFuncs in H. destruct H as (Hd & _).
      unfold C.doc_funcs in Hd. apply filter_In in Hd. tauto. }
  split; [exact Hin|]. apply CF.exact; [exact Hin|]. exists f; exact H.
Qed.

Lemma exported_nonempty_str : forall s, C.exported s = true -> s <> EmptyString.
Proof. intros [|c s]; [discriminate|discriminate]. Qed.

(* Receiver:Name / Name of a Classify target, in both vocabularies *)
Lemma own_name_is_decl_name : forall pk d f, In (d, f) (C.targets pk) ->
  IF.own_name (func_of f) = decl_name d /\ I.f_name (func_of f) <> EmptyString.
Proof.
  intros pk d f H.
  destruct (target_valid _ _ _ H) as (_ & E & _).
  pose proof (exported_nonempty_str _ E) as NE.
  destruct (CF.target_inv _ _ _ H) as (f0 & r & F & -> & Hr).
  unfold IF.own_name, func_of, decl_name, C.mkfn; simpl. split; [|exact NE].
  destruct Hr as [[-> ->]|(ptr & -> & Er)]; simpl; [reflexivity|].
  destruct r as [|c r]; [discriminate|reflexivity].
Qed.

(* TargetName of a stamped Classify target: alias:Receiver:Name, Receiver:Name for a bare tag *)
Lemma stamped_name : forall pk d f a p, In (d, f) (C.targets pk) ->
  I.target_name (I.stamp a p (func_of f)) = IF.prefixed a (decl_name d).
Proof.
  intros pk d f a p H. destruct (own_name_is_decl_name _ _ _ H) as (O & NE).
  rewrite IF.target_name_prefixed by exact NE. now rewrite O.
Qed.

(* ------------------------------------------------------------------ (1) what a tagged import exposes *)
Lemma contrib_unfold : forall dir p t n pk, world dir p = Some (n, pk) ->
  IF.contrib golist_of dir (p, Some t) =
  map (fun df => I.stamp (IF.alias_str t) p (func_of (snd df))) (C.targets pk).
Proof.
  intros dir p t n pk W. unfold IF.contrib, IF.contribN, golist_of; simpl. rewrite W. simpl.
  unfold C.funcs. now rewrite !map_map.
Qed.

Theorem exposed_names_are_targets : forall dir p t n pk, world dir p = Some (n, pk) ->
  map I.target_name (IF.contrib golist_of dir (p, Some t)) =
  map (fun df => IF.prefixed (IF.alias_str t) (decl_name (fst df))) (C.targets pk).
Proof.
  intros dir p t n pk W. rewrite (contrib_unfold _ _ _ _ _ W), map_map.
  apply map_ext_in. intros [d f] H. simpl. now apply (stamped_name pk).
Qed.

Theorem exposes_valid_targets : forall dir p t n pk, world dir p = Some (n, pk) ->
  forall name,
  In name (map I.target_name (IF.contrib golist_of dir (p, Some t))) <->
  exists d, In d (C.decls pk) /\ CF.valid_sig pk d /\ name = IF.prefixed (IF.alias_str t) (decl_name d).
Proof.
  intros dir p t n pk W name. rewrite (exposed_names_are_targets _ _ _ _ _ W), in_map_iff. split.
  - intros ([d f] & <- & H). exists d. destruct (target_valid _ _ _ H). auto.
  - intros (d & Hin & V & ->). destruct (proj2 (CF.exact pk d Hin) V) as [f H].
    exists (d, f); auto.
Qed.

(* untagged: nothing, whatever the package declares *)
Theorem untagged_exposes_nothing : forall dir p, IF.contrib golist_of dir (p, None) = [].
Proof. reflexivity. Qed.

(* the whole magefile package: set_imports succeeds and the exposed names are exactly the
   alias-prefixed names of the valid declarations of the tagged packages *)
Lemma in_contributions : forall dir l x,
  In x (IF.contributions golist_of dir l) <-> exists p t, In (p, Some t) l /\ In x (IF.contrib golist_of dir (p, Some t)).
Proof.
  intros dir l x. unfold IF.contributions. rewrite in_app_iff, !in_flat_map. split.
  - intros [((p, a) & Hi & Hx)|(p & Hi & Hx)].
    + unfold IF.distinct in Hi. apply nodup_In in Hi. apply IF.named_in_tags in Hi.
      exists p, (Some a). split; [exact Hi|exact Hx].
    + apply IF.root_in_tags in Hi. exists p, None. split; [exact Hi|exact Hx].
  - intros (p & [a|] & Hi & Hx).
    + left. exists (p, a). split; [|exact Hx]. unfold IF.distinct. apply nodup_In. now apply IF.in_named_tags.
    + right. exists p. split; [now apply IF.in_root_tags|exact Hx].
Qed.

Theorem package_exposes_valid_targets : forall dir files,
  (forall p t, In (p, Some t) (IF.tags files) -> world dir p <> None) ->
  exists imps, I.set_imports golist_of dir files = Some imps /\
    forall name, In name (map I.target_name (I.exposed imps)) <->
      exists p t n pk d, In (p, Some t) (IF.tags files) /\ world dir p = Some (n, pk) /\
                         In d (C.decls pk) /\ CF.valid_sig pk d /\
                         name = IF.prefixed (IF.alias_str t) (decl_name d).
Proof.
  intros dir files RES.
  destruct (IF.exposes_exactly golist_of dir files) as (imps & E & P).
  { intros p t Hi. specialize (RES p t Hi). unfold golist_of. destruct (world dir p) as [[n pk]|]; congruence. }
  exists imps. split; [exact E|]. intros name.
  assert (PM : Permutation (map I.target_name (I.exposed imps)) (map I.target_name (IF.contributions golist_of dir (IF.tags files))))
    by now apply Permutation_map.
  split.
  - intros H. apply (Permutation_in _ PM) in H. apply in_map_iff in H. destruct H as (x & <- & Hx).
    apply in_contributions in Hx. destruct Hx as (p & t & Hi & Hx).
    destruct (world dir p) as [[n pk]|] eqn:W; [|exfalso; now apply (RES p t Hi)].
    destruct (proj1 (exposes_valid_targets dir p t n pk W (I.target_name x))) as (d & Hd & V & N).
    { now apply in_map. }
    exists p, t, n, pk, d. auto.
  - intros (p & t & n & pk & d & Hi & W & Hd & V & ->).
    apply (Permutation_in _ (Permutation_sym PM)).
    pose proof (proj2 (exposes_valid_targets dir p t n pk W _) (ex_intro _ d (conj Hd (conj V eq_refl)))) as H.
    apply in_map_iff in H. destruct H as (x & <- & Hx). apply in_map.
    apply in_contributions. exists p, t. auto.
Qed.

(* ------------------------------------------------------------------ (2) the template data with imports *)
Variable def_of : string -> C.function -> nat.     (* the harness' identifier of a declaration: (import path, function); arbitrary *)

(* the template target built from a declaration of an imported package with its alias:
   .TargetName with PkgAlias set, the declared parameter types (C06), the declaration's identifier *)
Definition imp_target (alias path : string) (f : C.function) : D.target :=
  {| D.tname := I.target_name (I.stamp alias path (func_of f));
     D.targs := D.targs (target_of (def_of path) f);
     D.tdef := def_of path f |}.

Record cimport := { ci_alias : string; ci_path : string; ci_pkg : C.pkg }.
Definition import_targets (ci : cimport) : list D.target :=
  map (imp_target (ci_alias ci) (ci_path ci)) (C.funcs (ci_pkg ci)).

(* the imports of a magefile package, from the tags of its specs: every distinct named
   (path, alias) pair, then every root import (what set_imports visits, C19_exposes_exactly) *)
Definition cimports_of (dir : string) (tags : list (string * option (option string))) : list cimport :=
  flat_map (fun pa => match world dir (fst pa) with
                      | Some (_, pk) => [ {| ci_alias := snd pa; ci_path := fst pa; ci_pkg := pk |} ]
                      | None => []
                      end)
           (IF.distinct (IF.named_tags tags) ++ map (fun p => (p, EmptyString)) (IF.root_tags tags)).

(* template data of a magefile package [lpk] whose import specs carry [tags] *)
Definition info_with_imports (dir : string) (lpk : C.pkg) (tags : list (string * option (option string))) : D.info :=
  {| D.funcs := D.funcs (info_of (def_of EmptyString) lpk);
     D.imports := map import_targets (cimports_of dir tags);
     D.aliases := D.aliases (info_of (def_of EmptyString) lpk);
     D.default := D.default (info_of (def_of EmptyString) lpk) |}.

Lemma import_targets_names : forall dir pa,
  map D.tname (concat (map import_targets
     (match world dir (fst pa) with
      | Some (_, pk) => [ {| ci_alias := snd pa; ci_path := fst pa; ci_pkg := pk |} ]
      | None => []
      end))) = map I.target_name (IF.contribN golist_of dir pa).
Proof.
  intros dir [p a]. unfold IF.contribN, golist_of; simpl.
  destruct (world dir p) as [[n pk]|]; simpl; [|reflexivity].
  rewrite app_nil_r. unfold import_targets; simpl. now rewrite !map_map.
Qed.

(* the names in the template data are the names C19's model exposes *)
Lemma template_names_contributions : forall dir tags,
  map D.tname (concat (map import_targets (cimports_of dir tags))) =
  map I.target_name (IF.contributions golist_of dir tags).
Proof.
  intros dir tags. unfold cimports_of, IF.contributions.
  rewrite flat_map_app, map_app, concat_app, !map_app. f_equal.
  - induction (IF.distinct (IF.named_tags tags)) as [|pa l IH]; [reflexivity|].
    simpl flat_map. rewrite !map_app, concat_app, map_app, IH. f_equal. apply import_targets_names.
  - induction (IF.root_tags tags) as [|p l IH]; [reflexivity|].
    simpl map. simpl flat_map. rewrite !map_app, concat_app, map_app, IH. f_equal.
    apply (import_targets_names dir (p, EmptyString)).
Qed.

Theorem template_names_are_exposed : forall dir lpk files,
  (forall p t, In (p, Some t) (IF.tags files) -> world dir p <> None) ->
  exists imps, I.set_imports golist_of dir files = Some imps /\
    Permutation (map D.tname (concat (D.imports (info_with_imports dir lpk (IF.tags files)))))
                (map I.target_name (I.exposed imps)).
Proof.
  intros dir lpk files RES.
  destruct (IF.exposes_exactly golist_of dir files) as (imps & E & P).
  { intros p t Hi. specialize (RES p t Hi). unfold golist_of. destruct (world dir p) as [[n pk]|]; congruence. }
  exists imps. split; [exact E|]. simpl. rewrite template_names_contributions.
  apply Permutation_sym. now apply Permutation_map.
Qed.

Lemma in_cimports : forall dir tags p t n pk, In (p, Some t) tags -> world dir p = Some (n, pk) ->
  In {| ci_alias := IF.alias_str t; ci_path := p; ci_pkg := pk |} (cimports_of dir tags).
Proof.
  intros dir tags p t n pk Hi W. unfold cimports_of. apply in_flat_map.
  exists (p, IF.alias_str t). split.
  - apply in_or_app. destruct t as [a|]; simpl.
    + left. unfold IF.distinct. apply nodup_In. now apply IF.in_named_tags.
    + right. change (p, EmptyString) with ((fun q : string => (q, EmptyString)) p). apply in_map. now apply IF.in_root_tags.
  - simpl. rewrite W. left; reflexivity.
Qed.

(* every exposed name, typed in any letter case, resolves to the template target built from the
   declaration with its alias *)
Theorem imported_target_resolves : forall dir lpk tags p t n pk d f w,
  In (p, Some t) tags -> world dir p = Some (n, pk) -> In (d, f) (C.targets pk) ->
  D.lower w = D.lower (IF.prefixed (IF.alias_str t) (decl_name d)) ->
  DS.resolves (info_with_imports dir lpk tags) w (imp_target (IF.alias_str t) p f).
Proof.
  intros dir lpk tags p t n pk d f w Hi W H L. split.
  - unfold DS.targets. apply in_or_app. right. apply in_concat.
    exists (import_targets {| ci_alias := IF.alias_str t; ci_path := p; ci_pkg := pk |}). split.
    + simpl. apply in_map. now apply (in_cimports dir tags p t n pk).
    + unfold import_targets; simpl. apply in_map. unfold C.funcs. change f with (snd (d, f)). now apply in_map.
  - left. simpl. rewrite (stamped_name pk d f _ _ H). now rewrite L.
Qed.

(* ------------------------------------------------------------------ ... and runs that body (C04) *)
Section Run.
Variable conv : D.argty -> string -> option string.
Variable fails : nat -> list D.value -> bool.
Variable env : string.

Theorem imported_target_runs : forall (i : D.info) pk d f a p w args rest,
  In (d, f) (C.targets pk) ->
  DS.no_collision i -> DS.resolves i w (imp_target a p f) ->
  List.length args = List.length (nonctx_types d) ->
  (forall k ty x, nth_error (nonctx_types d) k = Some (pty_back ty) -> nth_error args k = Some x -> D.convert conv ty x <> None) ->
  exists vs cs e,
    D.dispatch conv fails i env (w :: args ++ rest) = (D.mkcall (imp_target a p f) vs :: cs, e) /\
    D.tname (imp_target a p f) = IF.prefixed a (decl_name d) /\
    List.length vs = List.length (nonctx_types d) /\
    (forall k ty x, nth_error (nonctx_types d) k = Some (pty_back ty) -> nth_error args k = Some x ->
                    nth_error vs k = D.convert conv ty x).
Proof.
  intros i pk d f a p w args rest H NC R L Cv.
  pose proof (targs_are_declared (def_of p) _ _ _ H) as T.
  change (D.targs (target_of (def_of p) f)) with (D.targs (imp_target a p f)) in T.
  assert (LT : List.length (D.targs (imp_target a p f)) = List.length (nonctx_types d))
    by (rewrite <- T; now rewrite map_length).
  assert (FW : forall k ty, nth_error (D.targs (imp_target a p f)) k = Some ty -> nth_error (nonctx_types d) k = Some (pty_back ty))
    by (intros k ty N; rewrite <- T, nth_error_map, N; reflexivity).
  assert (BW : forall k ty, nth_error (nonctx_types d) k = Some (pty_back ty) -> nth_error (D.targs (imp_target a p f)) k = Some ty).
  { intros k ty N. destruct (declared_type_has_targ (def_of p) _ _ _ _ _ H N) as (ty' & N' & E).
    change (D.targs (target_of (def_of p) f)) with (D.targs (imp_target a p f)) in N'.
    rewrite N'. f_equal. destruct ty, ty'; simpl in E; congruence. }
  destruct (Dispatch_facts.args_in_declaration_order conv fails i env w args rest (imp_target a p f) NC R)
    as (vs & cs & e & Dsp & Lv & P & S).
  - unfold DS.arity. now rewrite LT.
  - intros k ty x N A. apply (Cv k ty x); [now apply FW|exact A].
  - exists vs, cs, e. split; [exact Dsp|]. split; [simpl; now apply (stamped_name pk)|].
    split; [unfold DS.arity in Lv; now rewrite Lv|].
    intros k ty x N A. apply P; [now apply BW|exact A].
Qed.

(* end to end over the template data of a magefile package with imports; what remains a
   hypothesis is C04's premise no_collision (C07's acceptance establishes it for Dupes.pkg, whose
   translation to this data is not formalised here) *)
Theorem imported_name_runs_declaration : forall dir lpk tags p t n pk d f w args rest,
  In (p, Some t) tags -> world dir p = Some (n, pk) -> In (d, f) (C.targets pk) ->
  D.lower w = D.lower (IF.prefixed (IF.alias_str t) (decl_name d)) ->
  DS.no_collision (info_with_imports dir lpk tags) ->
  List.length args = List.length (nonctx_types d) ->
  (forall k ty x, nth_error (nonctx_types d) k = Some (pty_back ty) -> nth_error args k = Some x -> D.convert conv ty x <> None) ->
  exists vs cs e,
    D.dispatch conv fails (info_with_imports dir lpk tags) env (w :: args ++ rest) =
      (D.mkcall (imp_target (IF.alias_str t) p f) vs :: cs, e) /\
    D.tdef (imp_target (IF.alias_str t) p f) = def_of p f /\
    List.length vs = List.length (nonctx_types d) /\
    (forall k ty x, nth_error (nonctx_types d) k = Some (pty_back ty) -> nth_error args k = Some x ->
                    nth_error vs k = D.convert conv ty x).
Proof.
  intros dir lpk tags p t n pk d f w args rest Hi W H L NC La Cv.
  destruct (imported_target_runs (info_with_imports dir lpk tags) pk d f (IF.alias_str t) p w args rest H NC
              (imported_target_resolves dir lpk tags p t n pk d f w Hi W H L) La Cv)
    as (vs & cs & e & Dsp & _ & Lv & P).
  exists vs, cs, e. auto.
Qed.
End Run.
End World.

(* ------------------------------------------------------------------ non-vacuity *)
(* C06's example package (BuildAll(ctx, a, b string, int) (err error); a namespace method Ptr on a
   pointer receiver, the default; five non-targets) is mage:import'ed under the alias Tools by a
   magefile package that declares the same things itself *)
Definition ex_world (d p : string) : option (string * C.pkg) :=
  if String.eqb d "build" && String.eqb p "ex/imp/a" then Some ("a", CF.example_pk) else None.
Definition ex_files : list I.file :=
  [ [ {| I.gd_doc := Some ["// c"; "// mage:import Tools"]; I.gd_lparen := false;
         I.gd_specs := [ {| I.is_doc := None; I.is_comment := None; I.is_path := "ex/imp/a"; I.is_raw := false |} ] |} ] ].
Definition ex_def2 (p : string) (f : C.function) : nat := String.length p + String.length (C.f_name f).
Definition ex_info : D.info := info_with_imports ex_world ex_def2 "build" CF.example_pk (IF.tags ex_files).

Lemma nonvacuous_c19_c06 :
  IF.tags ex_files = [("ex/imp/a", Some (Some "tools"))] /\
  option_map (fun imps => map I.target_name (I.exposed imps)) (I.set_imports (golist_of ex_world) "build" ex_files) =
    Some ["tools:NS:Ptr"; "tools:BuildAll"] /\
  map (fun t => (D.tname t, D.targs t, D.tdef t)) (DS.targets ex_info) =
    [("NS:Ptr", [D.TDur], 3); ("BuildAll", [D.TString; D.TString; D.TInt], 8);
     ("tools:NS:Ptr", [D.TDur], 11); ("tools:BuildAll", [D.TString; D.TString; D.TInt], 16)] /\
  DS.no_collision ex_info /\
  D.dispatch ex_conv (fun _ _ => false) ex_info "" ["TOOLS:ns:PTR"; "90s"; "tools:buildall"; "x"; "y"; "007"; "buildall"; "a"; "b"; "007"] =
    ([ {| D.cdef := 11; D.cvals := [D.VConv D.TDur "1m30s"] |};
       {| D.cdef := 16; D.cvals := [D.VStr "x"; D.VStr "y"; D.VConv D.TInt "7"] |};
       {| D.cdef := 8; D.cvals := [D.VStr "a"; D.VStr "b"; D.VConv D.TInt "7"] |} ], D.Done).
Proof.
  split; [vm_compute; reflexivity|]. split; [vm_compute; reflexivity|]. split; [vm_compute; reflexivity|].
  split; [|vm_compute; reflexivity].
  unfold DS.no_collision. vm_compute. repeat constructor; simpl; intuition discriminate.
Qed.
