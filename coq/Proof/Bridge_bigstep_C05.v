(* Bridge big-step engine -> C05, GLOBAL: the exit-status chain model (Model/ExitChain.v) evaluates a
   target as a TREE (run_body: no registry, no once, a dependency mentioned twice is evaluated
   twice); the engine (Model/Deps.v) memoises and interleaves.  For engine programs inside
   ExitChain's fragment, ExitChain's evaluation of the UNFOLDED tree describes ([sees]) what the
   big-step evaluator [ev] of Proof/Deps_bigstep.v gives, hence (Engine_bigstep_agrees) what the
   engine produces under every schedule - and mage's process status for a target is one number,
   [halt_status (run_mentions [MRun tree])], whatever the schedule.
   Definitions + proofs; statements are restated in Props/Compose_bigstep_C05.v. *)
From Mage Require Import Base.Strs Model.Deps Model.ExitChain.
From Mage Require Import Proof.Deps_defs Proof.Deps_inv Proof.Exit_facts Proof.Deps_c03.
From Mage Require Import Proof.Deps_progress Proof.Bridge_C03_C05 Proof.Deps_bigstep.
From Coq Require Import ZArith Lia Permutation.

(* ================= 1. the fragment and the unfolding ================= *)

(* a body without calls: what it returns / panics with.  The message is not in ExitChain. *)
Definition leaf_of (o : outcome) : ExitChain.body :=
  match o with
  | Ok => BOk
  | Err c _ => BFatal c             (* return mg.Fatal(c, ..) *)
  | PanicErr c _ => BPanicFatal c   (* panic(mg.Fatal(c, ..)) *)
  | PanicVal _ => BPanicVal         (* panic("..") *)
  end.

Fixpoint all_some {A} (l : list (option A)) : option (list A) :=
  match l with
  | [] => Some []
  | None :: _ => None
  | Some a :: rest => match all_some rest with Some r => Some (a :: r) | None => None end
  end.

Definition is_ser (c : call) : bool := match c_style c with Ser => true | Par => false end.

(* the target body "mg.Deps(members...)" / "mg.SerialDeps(members...)" of a call *)
Definition call_tree (u : key -> option ExitChain.body) (c : call) : option ExitChain.body :=
  match all_some (map u (c_deps c)) with
  | Some ds => Some (BDeps (is_ser c) ds)
  | None => None
  end.

(* key k is expressible: no calls (any result), or exactly one unguarded call and result Ok, with
   expressible members.  A member named twice is unfolded twice. *)
Fixpoint unfold_fuel (p : prog) (n : nat) (k : key) : option ExitChain.body :=
  match n with
  | O => None
  | S n' =>
      match b_calls (bodies p k), b_result (bodies p k) with
      | [], o => Some (leaf_of o)
      | [c], Ok => if c_guarded c then None else call_tree (unfold_fuel p n') c
      | _, _ => None
      end
  end.

Definition unfold (p : prog) (k : key) : option ExitChain.body := unfold_fuel p (S k) k.

(* a root (a target named on the command line) in the fragment: one unguarded call *)
Definition root_unfold (p : prog) (n : nat) : option ExitChain.body :=
  match nth_error (roots p) n with
  | Some ([c], _) => if c_guarded c then None else call_tree (unfold p) c
  | _ => None
  end.

(* ---- list facts ---- *)

Lemma all_some_Forall2 : forall {A B} (g : A -> option B) l ds,
  all_some (map g l) = Some ds -> Forall2 (fun a d => g a = Some d) l ds.
Proof.
  intros A B g l. induction l as [|a l IH]; intros ds H; simpl in H.
  - inversion H; subst. constructor.
  - destruct (g a) as [d|] eqn:E; [|discriminate].
    destruct (all_some (map g l)) as [r|] eqn:E2; [|discriminate].
    inversion H; subst. constructor; [exact E|apply IH; reflexivity].
Qed.

Lemma all_some_ext : forall {A B} (g h : A -> option B) l,
  (forall a, In a l -> g a = h a) -> all_some (map g l) = all_some (map h l).
Proof. intros A B g h l H. rewrite (map_ext_in g h l H). reflexivity. Qed.

Lemma Forall2_map_both : forall {A B C D} (P : A -> B -> Prop) (Q : C -> D -> Prop) (f : A -> C) (g : B -> D) l l',
  Forall2 P l l' -> (forall a b, In a l -> P a b -> Q (f a) (g b)) -> Forall2 Q (map f l) (map g l').
Proof.
  intros A B C D P Q f g l l' H. induction H as [|a b l l' Hab H IH]; intros HQ; simpl; constructor.
  - apply HQ; [left; reflexivity|exact Hab].
  - apply IH. intros a' b' Ha'. apply HQ. right; exact Ha'.
Qed.

(* ---- the unfolding does not depend on the fuel ---- *)

Lemma unfold_fuel_stable : forall p, acyclic p ->
  forall n k m1 m2, k < n -> k < m1 -> k < m2 -> unfold_fuel p m1 k = unfold_fuel p m2 k.
Proof.
  intros p Hac. induction n as [|n IH]; intros k m1 m2 Hn H1 H2; [lia|].
  destruct m1 as [|m1]; [lia|]. destruct m2 as [|m2]; [lia|]. simpl.
  destruct (b_calls (bodies p k)) as [|c [|c' cs]] eqn:Hcalls; try reflexivity.
  destruct (b_result (bodies p k)); try reflexivity.
  destruct (c_guarded c); [reflexivity|]. unfold call_tree.
  rewrite (all_some_ext (unfold_fuel p m1) (unfold_fuel p m2) (c_deps c)); [reflexivity|].
  intros d Hd.
  assert (Hlt : d < k).
  { apply (body_dep_smaller p k c d Hac); [rewrite Hcalls; left; reflexivity|exact Hd]. }
  apply IH; lia.
Qed.

Lemma unfold_eq : forall p k, acyclic p ->
  unfold p k =
  match b_calls (bodies p k), b_result (bodies p k) with
  | [], o => Some (leaf_of o)
  | [c], Ok => if c_guarded c then None else call_tree (unfold p) c
  | _, _ => None
  end.
Proof.
  intros p k Hac. unfold unfold at 1. simpl.
  destruct (b_calls (bodies p k)) as [|c [|c' cs]] eqn:Hcalls; try reflexivity.
  destruct (b_result (bodies p k)); try reflexivity.
  destruct (c_guarded c); [reflexivity|]. unfold call_tree.
  rewrite (all_some_ext (unfold_fuel p k) (unfold p) (c_deps c)); [reflexivity|].
  intros d Hd.
  assert (Hlt : d < k).
  { apply (body_dep_smaller p k c d Hac); [rewrite Hcalls; left; reflexivity|exact Hd]. }
  unfold unfold. apply (unfold_fuel_stable p Hac (S d)); lia.
Qed.

(* ================= 2. ExitChain on the unfolded tree describes the big-step outcome ================= *)

Lemma leaf_sees : forall o, sees (res_of o) (run_body (leaf_of o)).
Proof. intros [|c m|c m|m]; cbn; auto. Qed.

(* ExitChain's SerialDeps on descriptions of the members: the first failing one decides *)
Lemma serialDeps_find : forall rs bs, Forall2 sees rs bs ->
  ExitChain.serialDeps bs =
  match find nonnil rs with
  | None => Returned VNil
  | Some r => Panicked (VFatal (combine [status r]))
  end.
Proof.
  intros rs bs F. induction F as [|r b rs bs H _ IH]; [reflexivity|].
  cbn [ExitChain.serialDeps find].
  rewrite (runDeps_sees [r] [b] (Forall2_cons _ _ H (Forall2_nil _))).
  cbn [forallb]. unfold nonnil at 1. destruct (Deps.is_nil r); cbn [andb negb].
  - exact IH.
  - reflexivity.
Qed.

(* one call: the target body mg.Deps(ds...) / mg.SerialDeps(ds...) ends as [call_res] says *)
Lemma call_res_ExitChain : forall f c ds,
  Forall2 sees (map f (c_deps c)) (map run_body ds) ->
  run_body (BDeps (is_ser c) ds) =
  match call_res f c with CRet => Returned VNil | CPan x _ => Panicked (VFatal x) end.
Proof.
  intros f c ds F. unfold call_res, is_ser. destruct (c_style c); cbn [run_body].
  - rewrite (runDeps_sees _ _ F). destruct (forallb Deps.is_nil (map f (c_deps c))); reflexivity.
  - rewrite (serialDeps_find _ _ F). destruct (find nonnil (map f (c_deps c))); reflexivity.
Qed.

Lemma call_tree_sees : forall (f : key -> res) (u : key -> option ExitChain.body) c b,
  (forall d bd, In d (c_deps c) -> u d = Some bd -> sees (f d) (run_body bd)) ->
  call_tree u c = Some b ->
  run_body b = match call_res f c with CRet => Returned VNil | CPan x _ => Panicked (VFatal x) end.
Proof.
  intros f u c b Hu H. unfold call_tree in H.
  destruct (all_some (map u (c_deps c))) as [ds|] eqn:E; [|discriminate].
  inversion H; subst b. apply call_res_ExitChain.
  apply (Forall2_map_both (fun d bd => u d = Some bd) sees f run_body (c_deps c) ds).
  - apply all_some_Forall2. exact E.
  - intros d bd Hd Hbd. exact (Hu d bd Hd Hbd).
Qed.

Lemma unfold_fuel_sees : forall p, acyclic p ->
  forall n k b, unfold_fuel p n k = Some b -> sees (ev p k) (run_body b).
Proof.
  intros p Hac. induction n as [|n IH]; intros k b H; [discriminate|].
  simpl in H. rewrite (ev_unfold p k Hac). cbn [calls_of own_result].
  destruct (b_calls (bodies p k)) as [|c [|c' cs]] eqn:Hcalls.
  - inversion H; subst b. cbn [body_res]. apply leaf_sees.
  - destruct (b_result (bodies p k)) eqn:Hres; try discriminate.
    destruct (c_guarded c) eqn:Hg; [discriminate|].
    rewrite (call_tree_sees (ev p) (unfold_fuel p n) c b (fun d bd _ Hbd => IH d bd Hbd) H).
    cbn [body_res res_of]. destruct (call_res (ev p) c) as [|x m]; [reflexivity|].
    rewrite Hg. cbn. auto.
  - destruct (b_result (bodies p k)); discriminate.
Qed.

Theorem unfold_sees : forall p k b, acyclic p -> unfold p k = Some b -> sees (ev p k) (run_body b).
Proof. intros p k b Hac H. exact (unfold_fuel_sees p Hac (S k) k b H). Qed.

(* the same for a call whose members are expressible *)
Theorem call_tree_is_call_res : forall p c b, acyclic p -> call_tree (unfold p) c = Some b ->
  run_body b = match call_res (ev p) c with CRet => Returned VNil | CPan x _ => Panicked (VFatal x) end.
Proof.
  intros p c b Hac H. apply (call_tree_sees (ev p) (unfold p) c b); [|exact H].
  intros d bd _ Hbd. exact (unfold_sees p d bd Hac Hbd).
Qed.

(* ================= 3. every schedule ================= *)

(* [sees] only looks at the kind and the status *)
Lemma sees_agrees : forall r r' b, agrees r r' -> sees r' b -> sees r b.
Proof.
  intros r r' b (Hk & Hs & _) H. destruct r, r'; simpl in Hk; try contradiction; simpl in Hs; subst; exact H.
Qed.

(* (a) what the body of an expressible key ends with, under every schedule, is described by
   ExitChain's evaluation of its tree: same way of ending, same status *)
Theorem body_end_sees : forall p s tr k r b,
  acyclic p -> reach true p s tr -> In (BodyEnd k r) tr -> unfold p k = Some b -> sees r (run_body b).
Proof.
  intros p s tr k r b Hac R Hend Hb.
  apply (sees_agrees r (ev p k)); [|exact (unfold_sees p k b Hac Hb)].
  exact (bigstep_agrees p s tr k r Hac R Hend).
Qed.

(* so the premise [describes] of the local bridge (Bridge_C03_C05) always holds in the fragment *)
Theorem unfold_describes : forall p s tr ks ds,
  acyclic p -> reach true p s tr -> all_some (map (unfold p) ks) = Some ds -> describes tr ks ds.
Proof.
  intros p s tr ks ds Hac R H. unfold describes.
  pose proof (all_some_Forall2 (unfold p) ks ds H) as F.
  clear H. induction F as [|k d ks ds Hk _ IH]; [constructor|]. constructor; [|exact IH].
  intros r Hend. exact (body_end_sees p s tr k r d Hac R Hend Hk).
Qed.

(* (b) any call with expressible members, of any task: when it panics in the engine, the ExitChain
   target consisting of that call panics with Fatal(the same status) and the generated main exits
   with it, having run one target; when it returns, the main loop goes on *)
Theorem call_panic_is_tree : forall p s tr t pc c b x m,
  acyclic p -> reach true p s tr -> nth_error (calls_of p t) pc = Some c ->
  call_tree (unfold p) c = Some b -> In (CallPanic t pc x m) tr ->
  run_body b = Panicked (VFatal x) /\
  forall rest, halt_status (run_mentions (MRun b :: rest)) = kernel x /\
               h_ran (run_mentions (MRun b :: rest)) = 1.
Proof.
  intros p s tr t pc c b x m Hac R Hc Hb Hpan.
  assert (E : run_body b = Panicked (VFatal x)).
  { rewrite (call_tree_is_call_res p c b Hac Hb).
    destruct (call_panic_agrees p s tr t pc c x m Hac R Hpan Hc) as (m' & Hres & _).
    rewrite Hres. reflexivity. }
  split; [exact E|]. intros rest. cbn [run_mentions]. rewrite E. cbn. split; reflexivity.
Qed.

Theorem call_return_is_tree : forall p s tr t pc c b,
  acyclic p -> reach true p s tr -> nth_error (calls_of p t) pc = Some c ->
  call_tree (unfold p) c = Some b -> In (CallReturn t pc) tr ->
  run_body b = Returned VNil /\
  forall rest, h_exit (run_mentions (MRun b :: rest)) = h_exit (run_mentions rest) /\
               h_ran (run_mentions (MRun b :: rest)) = S (h_ran (run_mentions rest)).
Proof.
  intros p s tr t pc c b Hac R Hc Hb Hret.
  assert (E : run_body b = Returned VNil).
  { rewrite (call_tree_is_call_res p c b Hac Hb).
    rewrite (call_return_agrees p s tr t pc c Hac R Hret Hc). reflexivity. }
  split; [exact E|]. intros rest. cbn [run_mentions]. rewrite E. cbn. split; reflexivity.
Qed.

(* ---- roots ---- *)

Lemma root_unfold_inv : forall p n b, root_unfold p n = Some b ->
  exists c cx, nth_error (roots p) n = Some ([c], cx) /\ c_guarded c = false /\
               call_tree (unfold p) c = Some b /\ nth_error (calls_of p (TRoot n)) 0 = Some c.
Proof.
  intros p n b H. unfold root_unfold in H.
  destruct (nth_error (roots p) n) as [[[|c [|c' cs]] cx]|] eqn:E; try discriminate.
  destruct (c_guarded c) eqn:Hg; [discriminate|].
  exists c, cx. split; [reflexivity|]. split; [exact Hg|]. split; [exact H|].
  simpl. rewrite E. reflexivity.
Qed.

(* how the engine's execution of target n ended: its call panicked with Fatal(x, _), or returned (0) *)
Definition root_outcome (tr : list event) (n : nat) (x : Z) : Prop :=
  (exists m, In (CallPanic (TRoot n) 0 x m) tr) \/ (x = 0%Z /\ In (CallReturn (TRoot n) 0) tr).

(* the process status of `mage <target n>` according to ExitChain's generated main *)
Definition tree_status (b : ExitChain.body) : Z := halt_status (run_mentions [MRun b]).

Theorem root_panic_status : forall p s tr n b x m,
  acyclic p -> reach true p s tr -> root_unfold p n = Some b -> In (CallPanic (TRoot n) 0 x m) tr ->
  run_body b = Panicked (VFatal x) /\ mg_ExitStatus (VFatal x) = x /\
  forall rest, halt_status (run_mentions (MRun b :: rest)) = kernel x /\
               h_ran (run_mentions (MRun b :: rest)) = 1.
Proof.
  intros p s tr n b x m Hac R Hb Hpan.
  destruct (root_unfold_inv p n b Hb) as (c & cx & _ & _ & Ht & Hc).
  destruct (call_panic_is_tree p s tr (TRoot n) 0 c b x m Hac R Hc Ht Hpan) as [E H].
  split; [exact E|]. split; [reflexivity|exact H].
Qed.

Theorem root_return_goes_on : forall p s tr n b,
  acyclic p -> reach true p s tr -> root_unfold p n = Some b -> In (CallReturn (TRoot n) 0) tr ->
  run_body b = Returned VNil /\
  forall rest, h_exit (run_mentions (MRun b :: rest)) = h_exit (run_mentions rest) /\
               h_ran (run_mentions (MRun b :: rest)) = S (h_ran (run_mentions rest)).
Proof.
  intros p s tr n b Hac R Hb Hret.
  destruct (root_unfold_inv p n b Hb) as (c & cx & _ & _ & Ht & Hc).
  exact (call_return_is_tree p s tr (TRoot n) 0 c b Hac R Hc Ht Hret).
Qed.

(* in whatever way the engine's target ended, ExitChain's process status is that status mod 256 *)
Theorem root_outcome_status : forall p s tr n b x,
  acyclic p -> reach true p s tr -> root_unfold p n = Some b -> root_outcome tr n x ->
  tree_status b = kernel x.
Proof.
  intros p s tr n b x Hac R Hb [(m & Hpan)|(Hx & Hret)]; unfold tree_status.
  - destruct (root_panic_status p s tr n b x m Hac R Hb Hpan) as (_ & _ & H). exact (proj1 (H [])).
  - subst x. destruct (root_return_goes_on p s tr n b Hac R Hb Hret) as (_ & H).
    unfold halt_status. rewrite (proj1 (H [])). reflexivity.
Qed.

(* when nothing can move any more the target has ended, in exactly one way *)
Theorem root_ends_in_final : forall p s tr n b,
  reach true p s tr -> final s -> root_unfold p n = Some b ->
  exists x, root_outcome tr n x /\ forall x', root_outcome tr n x' -> x' = x.
Proof.
  intros p s tr n b R Hfin Hb.
  destruct (root_unfold_inv p n b Hb) as (c & cx & Hn & _ & _ & Hc).
  destruct (reach_inv _ _ _ _ R) as [HA [HB HC]].
  destruct (root_task_exists true p s tr n [c] cx R Hn) as (tk & Htk).
  assert (Hpc : 0 < t_pc tk).
  { destruct (c_fin true p s tr HC (TRoot n) tk Htk (Hfin _ _ Htk)) as [(Hlen & _)|(pc & _ & _ & _ & Hpc & _)].
    - assert (0 < length (calls_of p (TRoot n))) by (apply nth_error_Some; rewrite Hc; discriminate). lia.
    - lia. }
  destruct (c_end_once true p s tr HC (TRoot n) 0) as [Hexcl Hsame].
  destruct (c_past true p s tr HC (TRoot n) tk 0 c Htk Hpc Hc) as [_ [Hret|(x & m & Hpan)]].
  - exists 0%Z. split; [right; split; [reflexivity|exact Hret]|].
    intros x' [(m' & Hpan')|(Hx' & _)]; [|exact Hx']. exfalso. exact (Hexcl Hret x' m' Hpan').
  - exists x. split; [left; exists m; exact Hpan|].
    intros x' [(m' & Hpan')|(_ & Hret')].
    + exact (proj1 (Hsame x' m' x m Hpan' Hpan)).
    + exfalso. exact (Hexcl Hret' x m Hpan).
Qed.

(* (c) two arbitrary maximal schedules: the target ends the same way with the same status, and that
   status is [mg_ExitStatus] of what ExitChain's tree panics with (0 and a nil return otherwise) *)
Theorem exit_status_schedule_independent : forall p n b s1 tr1 s2 tr2,
  acyclic p -> root_unfold p n = Some b ->
  reach true p s1 tr1 -> final s1 -> reach true p s2 tr2 -> final s2 ->
  (In (CallReturn (TRoot n) 0) tr1 /\ In (CallReturn (TRoot n) 0) tr2 /\ run_body b = Returned VNil /\
   tree_status b = 0%Z)
  \/
  (exists x m1 m2 v, In (CallPanic (TRoot n) 0 x m1) tr1 /\ In (CallPanic (TRoot n) 0 x m2) tr2 /\
                     Permutation m1 m2 /\ run_body b = Panicked v /\ mg_ExitStatus v = x /\
                     tree_status b = kernel x).
Proof.
  intros p n b s1 tr1 s2 tr2 Hac Hb R1 F1 R2 F2.
  destruct (root_unfold_inv p n b Hb) as (c & cx & _ & _ & _ & Hc).
  destruct (call_outcome_schedule_independent p s1 tr1 s2 tr2 (TRoot n) 0 c Hac R1 R2 Hc) as [Hrp Hpp].
  destruct (call_outcome_schedule_independent p s2 tr2 s1 tr1 (TRoot n) 0 c Hac R2 R1 Hc) as [Hrp' _].
  destruct (root_ends_in_final p s1 tr1 n b R1 F1 Hb) as (x1 & [(m1 & P1)|(E1 & Ret1)] & _);
  destruct (root_ends_in_final p s2 tr2 n b R2 F2 Hb) as (x2 & [(m2 & P2)|(E2 & Ret2)] & _).
  - right. destruct (Hpp x1 m1 x2 m2 P1 P2) as [Ex Pm]. subst x2.
    destruct (root_panic_status p s1 tr1 n b x1 m1 Hac R1 Hb P1) as (Eb & Hst & H).
    exists x1, m1, m2, (VFatal x1). split; [exact P1|]. split; [exact P2|]. split; [exact Pm|].
    split; [exact Eb|]. split; [exact Hst|]. exact (proj1 (H [])).
  - exfalso. exact (Hrp' Ret2 x1 m1 P1).
  - exfalso. exact (Hrp Ret1 x2 m2 P2).
  - left. split; [exact Ret1|]. split; [exact Ret2|].
    destruct (root_return_goes_on p s1 tr1 n b Hac R1 Hb Ret1) as (Eb & _). split; [exact Eb|].
    apply (root_outcome_status p s1 tr1 n b 0%Z Hac R1 Hb). right. split; [reflexivity|exact Ret1].
Qed.

(* the same as one sentence: in every maximal run of the engine from the start, the outcome of
   target n is the status ExitChain computes from the tree - one number per program and target *)
Theorem process_status_every_schedule : forall p n b acts s tr,
  acyclic p -> root_unfold p n = Some b ->
  run true p (init p) acts = Some (s, tr) -> (forall a, step true p s a = None) ->
  exists x, root_outcome tr n x /\ (forall x', root_outcome tr n x' -> x' = x) /\ tree_status b = kernel x.
Proof.
  intros p n b acts s tr Hac Hb Hrun Hst.
  pose proof (run_reach true p acts (init p) [] s tr (reach_init true p) Hrun) as R. simpl in R.
  pose proof (maximal_run_final true p (init p) [] acts s tr Hac (reach_init true p) Hrun Hst) as Hfin.
  destruct (root_ends_in_final p s tr n b R Hfin Hb) as (x & Hx & Huniq).
  exists x. split; [exact Hx|]. split; [exact Huniq|].
  exact (root_outcome_status p s tr n b x Hac R Hb Hx).
Qed.

(* ... and such a run exists from every reachable configuration (Deps_progress.terminates) *)
Theorem process_status_is_reached : forall p n b s tr,
  acyclic p -> root_unfold p n = Some b -> reach true p s tr ->
  exists acts s' tr' x, run true p s acts = Some (s', tr') /\ final s' /\
                        root_outcome (tr ++ tr') n x /\ tree_status b = kernel x.
Proof.
  intros p n b s tr Hac Hb R.
  destruct (terminates true p s tr Hac R) as (acts & s' & tr' & Hrun & Hfin).
  pose proof (run_reach _ _ _ _ _ _ _ R Hrun) as R'.
  destruct (root_ends_in_final p s' (tr ++ tr') n b R' Hfin Hb) as (x & Hx & _).
  exists acts, s', tr', x. split; [exact Hrun|]. split; [exact Hfin|]. split; [exact Hx|].
  exact (root_outcome_status p s' (tr ++ tr') n b x Hac R' Hb Hx).
Qed.

(* ================= 4. non-vacuity ================= *)

(* inside the fragment: 0 returns Fatal(2), 1 panics with Fatal(3), 2 succeeds, 6 returns Fatal(7);
   3 = mg.Deps(2, 0) and 4 = mg.Deps(2, 1) are the middle of a diamond over 2 and fail with 2 and 3;
   5 = mg.Deps(3, 4) fails with changeExit(2, 3) = 1.
   Target 0 = mg.Deps(5); target 1 = mg.SerialDeps(2, 6, 5): the middle member fails with 7. *)
Definition bx_prog : prog :=
  {| nodes := [ {| b_calls := []; b_result := Err 2 [7]; b_name := 0 |};
                {| b_calls := []; b_result := PanicErr 3 [8]; b_name := 1 |};
                {| b_calls := []; b_result := Ok; b_name := 2 |};
                {| b_calls := [mkcall Par false [2; 0]]; b_result := Ok; b_name := 3 |};
                {| b_calls := [mkcall Par false [2; 1]]; b_result := Ok; b_name := 4 |};
                {| b_calls := [mkcall Par false [3; 4]]; b_result := Ok; b_name := 5 |};
                {| b_calls := []; b_result := Err 7 [9]; b_name := 6 |} ];
     roots := [ ([mkcall Par false [5]], CBg); ([mkcall Ser false [2; 6; 5]], CBg) ];
     verbose := false |}.

Lemma bx_acyclic : acyclic bx_prog.
Proof. apply acyclicb_sound. vm_compute. reflexivity. Qed.

(* the unfolded trees: dependency 2 stands three times in the second one *)
Lemma bx_trees :
  root_unfold bx_prog 0 =
    Some (BDeps false [BDeps false [BDeps false [BOk; BFatal 2]; BDeps false [BOk; BPanicFatal 3]]]) /\
  root_unfold bx_prog 1 =
    Some (BDeps true [BOk; BFatal 7;
                      BDeps false [BDeps false [BOk; BFatal 2]; BDeps false [BOk; BPanicFatal 3]]]).
Proof. vm_compute. split; reflexivity. Qed.

Lemma bx_status :
  option_map tree_status (root_unfold bx_prog 0) = Some 1%Z /\
  option_map tree_status (root_unfold bx_prog 1) = Some 7%Z /\
  map (fun k => status (ev bx_prog k)) [3; 4; 5; 6] = [2; 3; 1; 7]%Z.
Proof. vm_compute. repeat split; reflexivity. Qed.

(* one concrete maximal schedule: target 0 to its end, then target 1 *)
Definition bx_sched : list action :=
  [ATask (TRoot 0); ATask (TRoot 0); AGo (TRoot 0) 0;
   ATask (TBody 5); ATask (TBody 5); ATask (TBody 5);
   AGo (TBody 5) 1; ATask (TBody 4); ATask (TBody 4);
   ATask (TBody 4); AGo (TBody 4) 1; ATask (TBody 1);
   AGo (TBody 4) 1; AGo (TBody 4) 1; AGo (TBody 4) 0;
   ATask (TBody 2); AGo (TBody 4) 0; AGo (TBody 4) 0;
   ATask (TBody 4); ATask (TBody 4); AGo (TBody 5) 1;
   AGo (TBody 5) 1; AGo (TBody 5) 0; ATask (TBody 3);
   ATask (TBody 3); ATask (TBody 3); AGo (TBody 3) 1;
   ATask (TBody 0); AGo (TBody 3) 1; AGo (TBody 3) 1;
   AGo (TBody 3) 0; AGo (TBody 3) 0; ATask (TBody 3);
   ATask (TBody 3); AGo (TBody 5) 0; AGo (TBody 5) 0;
   ATask (TBody 5); ATask (TBody 5); AGo (TRoot 0) 0;
   AGo (TRoot 0) 0; ATask (TRoot 0); ATask (TRoot 0);
   ATask (TRoot 1); ATask (TRoot 1); AGo (TRoot 1) 0;
   AGo (TRoot 1) 0; ATask (TRoot 1); ATask (TRoot 1);
   AGo (TRoot 1) 0; ATask (TBody 6); AGo (TRoot 1) 0;
   AGo (TRoot 1) 0; ATask (TRoot 1); ATask (TRoot 1)].

Lemma bx_sched_driven : drive bx_prog (prio_rev bx_prog) (bound bx_prog) (init bx_prog) = bx_sched.
Proof. vm_compute. reflexivity. Qed.

Definition bx_end : cfg * list event :=
  match run true bx_prog (init bx_prog) bx_sched with Some x => x | None => (init bx_prog, []) end.

(* its trace: both targets panic with the status of their trees (the message of target 0 lists 8
   before 7, [ev] the other way round: only the status is in ExitChain); dependency 2 ran ONCE *)
Lemma bx_run_agrees : exists s tr,
  run true bx_prog (init bx_prog) bx_sched = Some (s, tr) /\ final s /\
  In (CallPanic (TRoot 0) 0 1 [8; 7]) tr /\ In (CallPanic (TRoot 1) 0 7 [9]) tr /\
  root_outcome tr 0 1 /\ root_outcome tr 1 7 /\ nstart 2 tr = 1 /\
  map (fun kr => status (snd kr)) (ends tr) = map (fun kr => status (ev bx_prog (fst kr))) (ends tr).
Proof.
  exists (fst bx_end), (snd bx_end). split; [vm_compute; reflexivity|].
  split.
  { intros t tk H.
    destruct t as [[|[|[|n]]]|[|[|[|[|[|[|[|k]]]]]]]]; vm_compute in H; try discriminate;
      inversion H; subst; reflexivity. }
  split; [vm_compute; tauto|]. split; [vm_compute; tauto|].
  split; [left; exists [8; 7]; vm_compute; tauto|]. split; [left; exists [9]; vm_compute; tauto|].
  split; vm_compute; reflexivity.
Qed.
