(* Proofs for C08 (Props/C08.v): the model of mage's binary cache in Model/Cache.v and of the
   cache-directory path algebra in Model/Paths.v. *)
From Mage Require Import Base.Strs Base.Expand Model.Cache Model.Paths.
From Coq Require Export Permutation Sorted.

Local Notation "a +++ b" := (String.append a b) (at level 60, right associativity).

(* ---------------------------------------------------------------------------------------- *)
(* the byte-wise order of strings                                                             *)

Definition sle (a b : string) : Prop := String.leb a b = true.

Lemma leb_iff : forall a b, String.leb a b = true <-> String.compare a b <> Gt.
Proof. intros a b. unfold String.leb. destruct (String.compare a b); split; congruence. Qed.

Lemma compare_trans_le : forall a b c,
  String.compare a b <> Gt -> String.compare b c <> Gt -> String.compare a c <> Gt.
Proof.
  induction a as [|x a IH]; intros [|y b] [|z c]; simpl; intros H1 H2; try congruence.
  destruct (Ascii.compare x y) eqn:E1; try congruence.
  - apply Ascii.compare_eq_iff in E1; subst y.
    destruct (Ascii.compare x z) eqn:E2; try congruence. eapply IH; eauto.
  - destruct (Ascii.compare y z) eqn:E2; try congruence.
    + apply Ascii.compare_eq_iff in E2; subst z. rewrite E1. congruence.
    + assert (E3 : Ascii.compare x z = Lt).
      { unfold Ascii.compare in *. rewrite N.compare_lt_iff in *. lia. }
      rewrite E3. congruence.
Qed.

Lemma sle_trans : forall a b c, sle a b -> sle b c -> sle a c.
Proof. unfold sle. intros a b c. rewrite !leb_iff. apply compare_trans_le. Qed.
Lemma sle_antisym : forall a b, sle a b -> sle b a -> a = b.
Proof. exact String.leb_antisym. Qed.
Lemma sle_total : forall a b, sle a b \/ sle b a.
Proof. exact String.leb_total. Qed.

(* ---------------------------------------------------------------------------------------- *)
(* sort_strings is a sort                                                                     *)

Lemma Forall_perm {A} (P : A -> Prop) : forall l l', Permutation l l' -> Forall P l -> Forall P l'.
Proof.
  intros l l' HP HF. rewrite Forall_forall in *. intros x Hx. apply HF.
  eapply Permutation_in; [apply Permutation_sym; exact HP|exact Hx].
Qed.

Lemma insert_perm : forall x l, Permutation (insert x l) (x :: l).
Proof.
  intros x l; induction l as [|y r IH]; simpl; [apply Permutation_refl|].
  destruct (String.leb x y); [apply Permutation_refl|].
  eapply perm_trans; [apply perm_skip; exact IH|apply perm_swap].
Qed.

Lemma sort_perm : forall l, Permutation (sort_strings l) l.
Proof.
  induction l as [|x l IH]; simpl; [constructor|].
  eapply perm_trans; [apply insert_perm|apply perm_skip; exact IH].
Qed.

Lemma insert_sorted : forall x l, StronglySorted sle l -> StronglySorted sle (insert x l).
Proof.
  intros x l; induction l as [|y r IH]; simpl; intros HS.
  - constructor; constructor.
  - apply StronglySorted_inv in HS. destruct HS as [HSr HF].
    destruct (String.leb x y) eqn:E.
    + constructor; [constructor; assumption|].
      constructor; [exact E|].
      rewrite Forall_forall in *. intros z Hz. eapply sle_trans; [exact E|apply HF; exact Hz].
    + constructor; [apply IH; exact HSr|].
      eapply Forall_perm; [apply Permutation_sym; apply insert_perm|].
      constructor; [|exact HF].
      destruct (sle_total x y) as [Hxy|Hyx]; [unfold sle in Hxy; congruence|exact Hyx].
Qed.

Lemma sort_sorted : forall l, StronglySorted sle (sort_strings l).
Proof. induction l as [|x l IH]; simpl; [constructor|apply insert_sorted; exact IH]. Qed.

(* a sorted permutation is unique *)
Lemma sorted_perm_eq : forall l l',
  StronglySorted sle l -> StronglySorted sle l' -> Permutation l l' -> l = l'.
Proof.
  induction l as [|a l IH]; intros l' HS HS' HP.
  - apply Permutation_nil in HP. congruence.
  - destruct l' as [|b l']; [apply Permutation_sym, Permutation_nil in HP; discriminate|].
    apply StronglySorted_inv in HS. destruct HS as [HSl HFa].
    apply StronglySorted_inv in HS'. destruct HS' as [HSl' HFb].
    assert (Hab : a = b).
    { assert (Ha : In a (b :: l')) by (eapply Permutation_in; [exact HP|left; reflexivity]).
      assert (Hb : In b (a :: l)) by (eapply Permutation_in; [apply Permutation_sym; exact HP|left; reflexivity]).
      rewrite Forall_forall in HFa, HFb.
      destruct Ha as [Ha|Ha]; [congruence|].
      destruct Hb as [Hb|Hb]; [congruence|].
      apply sle_antisym; [apply HFa; exact Hb|apply HFb; exact Ha]. }
    subst b. f_equal. apply IH; try assumption.
    eapply Permutation_cons_inv; exact HP.
Qed.

Lemma sort_perm_eq : forall l l', Permutation l l' -> sort_strings l = sort_strings l'.
Proof.
  intros l l' HP. apply sorted_perm_eq; try apply sort_sorted.
  eapply perm_trans; [apply sort_perm|].
  eapply perm_trans; [exact HP|apply Permutation_sym, sort_perm].
Qed.

(* ---------------------------------------------------------------------------------------- *)
(* strings                                                                                    *)

Lemma sapp_assoc : forall a b c, (a +++ b) +++ c = a +++ (b +++ c).
Proof. induction a as [|x a IH]; intros b c; simpl; [reflexivity|rewrite IH; reflexivity]. Qed.

Lemma sapp_cancel_l : forall a b c, a +++ b = a +++ c -> b = c.
Proof. induction a as [|x a IH]; simpl; intros b c E; [exact E|injection E; apply IH]. Qed.

Lemma sapp_same_len : forall a b r r',
  String.length a = String.length b -> a +++ r = b +++ r' -> a = b /\ r = r'.
Proof.
  induction a as [|x a IH]; intros [|y b] r r'; simpl; intros HL E; try discriminate.
  - split; [reflexivity|exact E].
  - injection E as Exy E. injection HL as HL. destruct (IH b r r' HL E) as [-> ->]. subst y. split; reflexivity.
Qed.

(* ---------------------------------------------------------------------------------------- *)
(* the shape of a digest: 40 characters, each one of 0-9a-f                                   *)

Definition is_hex (c : ascii) : bool :=
  let n := nat_of_ascii c in (Nat.leb 48 n && Nat.leb n 57) || (Nat.leb 97 n && Nat.leb n 102).

Definition digest_ok (d : string) : Prop :=
  String.length d = 40 /\ Forall (fun c => is_hex c = true) (chars d).

(* join (a list of digests) followed by a key that starts with a non-hex character and anything
   else parses in one way only *)
Lemma parse_unique : forall k0 kr, is_hex k0 = false ->
  forall a b v v', Forall digest_ok a -> Forall digest_ok b ->
  join a +++ String k0 kr +++ v = join b +++ String k0 kr +++ v' -> a = b /\ v = v'.
Proof.
  intros k0 kr Hk.
  assert (Hhead : forall y r s, digest_ok y -> String k0 s <> y +++ r).
  { intros y r s [HL HF] E. destruct y as [|c y]; [discriminate HL|].
    simpl in E. injection E as Ec _. subst c. simpl in HF. inversion HF; congruence. }
  induction a as [|x a IH]; intros [|y b] v v' Ha Hb E; simpl in E.
  - injection E as E. apply sapp_cancel_l in E. split; [reflexivity|exact E].
  - exfalso. inversion Hb; subst. rewrite sapp_assoc in E. eapply Hhead; eauto.
  - exfalso. inversion Ha; subst. rewrite sapp_assoc in E. symmetry in E. eapply Hhead; eauto.
  - inversion Ha as [|? ? Hx Ha']; inversion Hb as [|? ? Hy Hb']; subst.
    rewrite !sapp_assoc in E.
    apply sapp_same_len in E; [|destruct Hx as [-> _]; destruct Hy as [-> _]; reflexivity].
    destruct E as [-> E]. destruct (IH b v v' Ha' Hb' E) as [-> ->]. split; reflexivity.
Qed.

Lemma key_head : exists k0 kr, magicRebuildKey = String k0 kr /\ is_hex k0 = false.
Proof. eexists; eexists; split; [reflexivity|reflexivity]. Qed.

Lemma map_inj_on {A B} (f : A -> B) : forall l l',
  (forall x y, In x l -> In y l' -> f x = f y -> x = y) -> map f l = map f l' -> l = l'.
Proof.
  induction l as [|x l IH]; intros [|y l'] Hf E; simpl in E; try discriminate; [reflexivity|].
  injection E as E1 E2. f_equal; [apply Hf; [left; reflexivity|left; reflexivity|exact E1]|].
  apply IH; [|exact E2]. intros a b Ha Hb. apply Hf; right; assumption.
Qed.

Lemma perm_map_inj_on {A B} (f : A -> B) : forall l l',
  (forall x y, In x l -> In y l' -> f x = f y -> x = y) ->
  Permutation (map f l) (map f l') -> Permutation l l'.
Proof.
  intros l l' Hf HP. destruct (Permutation_map_inv _ _ HP) as [l3 [E HP3]].
  apply map_inj_on in E.
  - subst l3. apply Permutation_sym. exact HP3.
  - intros x y Hx Hy. apply Hf; [exact Hx|]. eapply Permutation_in; [apply Permutation_sym; exact HP3|exact Hy].
Qed.

(* no two different strings of the set D have the same hash *)
Definition collision_free (H : string -> string) (D : string -> Prop) : Prop :=
  forall x y, D x -> D y -> H x = H y -> x = y.

(* ---------------------------------------------------------------------------------------- *)
(* the cache name                                                                             *)

Section Names.
Variable H : string -> string.

Lemma file_hashes_eq : forall fs, file_hashes H fs = map H (contents fs).
Proof. intros. unfold file_hashes, contents. rewrite map_map. reflexivity. Qed.

(* order and names of the files are irrelevant *)
Lemma name_perm : forall key tpl ver fs fs',
  Permutation (contents fs) (contents fs') -> exe_name_k H key tpl ver fs = exe_name_k H key tpl ver fs'.
Proof.
  intros key tpl ver fs fs' HP. unfold exe_name_k, name_input, name_input_f, hash_list. do 4 f_equal.
  apply sort_perm_eq. rewrite !file_hashes_eq. apply Permutation_map. exact HP.
Qed.

(* before db4aa20: template and file contents entered the name through the same sorted list *)
Lemma name_tpl_swap_old : forall ver f a b,
  exe_name_old H a ver [(f, b)] = exe_name_old H b ver [(f, a)].
Proof.
  intros. unfold exe_name_old, name_input_f, hash_list. do 3 f_equal. apply sort_perm_eq.
  unfold file_hashes. simpl. apply perm_swap.
Qed.

Lemma name_inj_old_refuted : exists tpl tpl' ver fs fs',
  exe_name_old H tpl ver fs = exe_name_old H tpl' ver fs' /\ tpl <> tpl' /\ ~ Permutation (contents fs) (contents fs').
Proof.
  exists "A", "B", "go", [("f.go", "B")], [("f.go", "A")].
  split; [apply name_tpl_swap_old|]. split; [discriminate|].
  simpl. intros HP. apply Permutation_length_1_inv in HP. discriminate HP.
Qed.

Variable D : string -> Prop.
Hypothesis H_shape : forall x, digest_ok (H x).
Hypothesis H_cf : collision_free H D.

(* the name determines the multiset of contents, the template and the version *)
Lemma name_inj : forall tpl ver fs tpl' ver' fs',
  Forall D (hashed H tpl ver fs) -> Forall D (hashed H tpl' ver' fs') ->
  exe_name H tpl ver fs = exe_name H tpl' ver' fs' ->
  Permutation (contents fs) (contents fs') /\ tpl = tpl' /\ ver = ver'.
Proof.
  intros tpl ver fs tpl' ver' fs' HD HD' E. unfold exe_name, exe_name_k in E.
  unfold hashed in HD, HD'. inversion HD as [|? ? HDn HDr]; inversion HD' as [|? ? HDn' HDr']; subst.
  apply H_cf in E; [|assumption|assumption]. unfold name_input, name_input_f, hash_list in E.
  destruct key_head as [k0 [kr [Ek Hk]]]. rewrite Ek in E.
  assert (HF : forall t g, Forall digest_ok (sort_strings (file_hashes H g) ++ [H t])).
  { intros t g. apply Forall_app. split; [|constructor; [apply H_shape|constructor]].
    eapply Forall_perm; [apply Permutation_sym, sort_perm|].
    rewrite file_hashes_eq. rewrite Forall_forall. intros d Hd. apply in_map_iff in Hd.
    destruct Hd as [x [<- _]]. apply H_shape. }
  destruct (parse_unique k0 kr Hk _ _ _ _ (HF tpl fs) (HF tpl' fs') E) as [Es Ev].
  apply app_inj_tail in Es. destruct Es as [Es Et].
  pose proof (Forall_inv HDr) as HDt. pose proof (Forall_inv_tail HDr) as HDc.
  pose proof (Forall_inv HDr') as HDt'. pose proof (Forall_inv_tail HDr') as HDc'.
  split; [|split; [apply H_cf; assumption|exact Ev]].
  assert (HP : Permutation (file_hashes H fs) (file_hashes H fs')).
  { eapply perm_trans; [apply Permutation_sym, sort_perm|]. rewrite Es. apply sort_perm. }
  rewrite !file_hashes_eq in HP. apply perm_map_inj_on in HP; [exact HP|].
  rewrite Forall_forall in HDc, HDc'. intros x y Hx Hy. apply H_cf; [apply HDc; exact Hx|apply HDc'; exact Hy].
Qed.

Lemma name_inj_same_tpl : forall tpl ver fs ver' fs',
  Forall D (hashed H tpl ver fs) -> Forall D (hashed H tpl ver' fs') ->
  exe_name H tpl ver fs = exe_name H tpl ver' fs' ->
  Permutation (contents fs) (contents fs') /\ ver = ver'.
Proof.
  intros tpl ver fs ver' fs' HD HD' E. destruct (name_inj _ _ _ _ _ _ HD HD' E) as [HP [_ Ev]].
  split; assumption.
Qed.
End Names.

(* ---------------------------------------------------------------------------------------- *)
(* histories                                                                                  *)

Section Hist.
Variable H : string -> string.
Variable program : Type.
Variable compile : string -> string -> fileset -> program.
Variable tpl : string.

Notation state := (state program).
Notation invoke := (invoke H program compile tpl).
Notation step := (step H program compile tpl).
Notation run_ops := (run_ops H program compile tpl).

(* the strings mage hashes when invoked in state st *)
Definition hashed_now (st : state) : list string := hashed H tpl (ver program st) (dir program st).

Section WithD.
Variable D : string -> Prop.

(* content addressing: every binary in the cache was compiled from a file set (and toolchain)
   whose cache name is the name it is stored under (and what was hashed then lies in D) *)
Definition Inv (st : state) : Prop :=
  forall n p, lookup program n (cache program st) = Some p ->
              exists v d fs, p = compile v d fs /\ exe_name H tpl v fs = n /\ Forall D (hashed H tpl v fs).

(* at every invocation of the history, what is hashed lies in D *)
Fixpoint hashed_in (ops : list op) (st : state) : Prop :=
  match ops with
  | [] => True
  | o :: r => match o with Run _ _ _ | RunRaced _ _ _ _ _ => Forall D (hashed_now st) | _ => True end /\ hashed_in r (fst (step st o))
  end.

Lemma Inv_empty : forall d b v, Inv {| dir := d; dep := b; ver := v; cache := [] |}.
Proof. intros d b v n p E. discriminate E. Qed.

Lemma invoke_cases : forall (st : state) hf force gc,
  dir program st <> [] ->
  let n := exe_name H tpl (ver program st) (dir program st) in
  let p := compile (ver program st) (dep program st) (dir program st) in
  invoke st hf force gc =
    ({| dir := dir program st; dep := dep program st; ver := ver program st; cache := (n, p) :: cache program st |}, Ran program true p)
  \/ (exists q, hf || negb gc = true /\ force = false /\ lookup program n (cache program st) = Some q /\
                invoke st hf force gc = (st, Ran program false q)).
Proof.
  intros st hf force gc Hd n p. unfold Cache.invoke.
  destruct (dir program st) eqn:Ed; [congruence|]. fold n. fold p.
  destruct hf; simpl.
  - destruct (lookup program n (cache program st)) eqn:El; [|left; reflexivity].
    destruct force; [left; reflexivity|]. right. eexists. repeat split; reflexivity.
  - destruct gc; simpl; [left; reflexivity|].
    destruct (lookup program n (cache program st)) eqn:El; [|left; reflexivity].
    destruct force; [left; reflexivity|]. right. eexists. repeat split; reflexivity.
Qed.

Lemma invoke_inv : forall st hf force gc, Forall D (hashed_now st) -> Inv st -> Inv (fst (invoke st hf force gc)).
Proof.
  intros st hf force gc HD HI.
  destruct (dir program st) eqn:Ed.
  - unfold Cache.invoke. rewrite Ed. exact HI.
  - destruct (invoke_cases st hf force gc) as [E|[q [_ [_ [_ E]]]]]; [congruence| |]; rewrite E; simpl; [|exact HI].
    intros n0 p0. simpl. destruct (String.eqb n0 _) eqn:En.
    + apply String.eqb_eq in En. intros Ep. injection Ep as <-.
      eexists; eexists; eexists; split; [reflexivity|split; [symmetry; exact En|exact HD]].
    + apply HI.
Qed.

(* ---- invocations raced by an edit ---- *)

(* a raced build whose compiler saw the EDITED magefiles stores their program under the name of
   the contents that were hashed: that name is tainted *)
Definition taints (o : op) : bool := match o with RunRaced _ _ _ (REdit _ _) true => true | _ => false end.
Fixpoint tainted (ops : list op) (st : state) : list string :=
  match ops with
  | [] => []
  | o :: r => (if taints o then [exe_name H tpl (ver program st) (dir program st)] else []) ++ tainted r (fst (step st o))
  end.

(* content addressing except under the names in T *)
Definition InvT (T : string -> Prop) (st : state) : Prop :=
  forall n p, lookup program n (cache program st) = Some p -> ~ T n ->
              exists v d fs, p = compile v d fs /\ exe_name H tpl v fs = n /\ Forall D (hashed H tpl v fs).

Lemma Inv_InvT : forall st, Inv st -> InvT (fun _ => False) st.
Proof. intros st HI n p E _. exact (HI n p E). Qed.

Lemma InvT_Inv : forall st, InvT (fun _ => False) st -> Inv st.
Proof. intros st HI n p E. apply (HI n p E). intros F; exact F. Qed.

Lemma InvT_mono : forall (T T' : string -> Prop) st, (forall n, T n -> T' n) -> InvT T st -> InvT T' st.
Proof. intros T T' st HT HI n p E Hn. apply (HI n p E). intros Ht. apply Hn. apply HT. exact Ht. Qed.

Lemma InvT_cache : forall T st st', cache program st' = cache program st -> InvT T st -> InvT T st'.
Proof. intros T st st' E HI n p El. rewrite E in El. exact (HI n p El). Qed.

Lemma InvT_cons : forall (T : string -> Prop) st st' n0 p0,
  cache program st' = (n0, p0) :: cache program st -> InvT T st ->
  (~ T n0 -> exists v d fs, p0 = compile v d fs /\ exe_name H tpl v fs = n0 /\ Forall D (hashed H tpl v fs)) ->
  InvT T st'.
Proof.
  intros T st st' n0 p0 E HI Hnew n p El Hn. rewrite E in El. cbn [lookup] in El.
  destruct (String.eqb n n0) eqn:En.
  - apply String.eqb_eq in En. subst n. injection El as <-. apply Hnew. exact Hn.
  - exact (HI n p El Hn).
Qed.

Lemma apply_race_cache : forall st e, cache program (apply_race program st e) = cache program st.
Proof. intros st e. destruct e; reflexivity. Qed.

(* what a raced invocation does to the cache *)
Lemma raced_cache : forall (st : state) hf force gc e (sn : bool),
  let n := exe_name H tpl (ver program st) (dir program st) in
  let src := if sn then apply_race program st e else st in
  cache program (fst (invoke_raced H program compile tpl st hf force gc e sn)) = cache program st \/
  cache program (fst (invoke_raced H program compile tpl st hf force gc e sn)) =
    (n, compile (ver program st) (dep program src) (dir program src)) :: cache program st.
Proof.
  intros st hf force gc e sn n src. unfold invoke_raced, invoke_raced_f. fold n.
  destruct (dir program st) eqn:Ed; [left; apply apply_race_cache|].
  destruct hf, gc; cbn [negb]; try (right; reflexivity);
    destruct (lookup program n (cache program st)); try (right; reflexivity);
    destruct force; try (right; reflexivity); left; apply apply_race_cache.
Qed.

Lemma step_invT : forall (T : string -> Prop) st o,
  match o with Run _ _ _ | RunRaced _ _ _ _ _ => Forall D (hashed_now st) | _ => True end -> InvT T st ->
  InvT (fun n => T n \/ (taints o = true /\ n = exe_name H tpl (ver program st) (dir program st))) (fst (step st o)).
Proof.
  intros T st o HD HI.
  assert (HI' : InvT (fun n => T n \/ (taints o = true /\ n = exe_name H tpl (ver program st) (dir program st))) st)
    by (eapply InvT_mono; [|exact HI]; intros n Hn; left; exact Hn).
  destruct o as [hf force gc e sn| | | | | | | |hf force gc]; try (eapply InvT_cache; [|exact HI']; reflexivity).
  - (* RunRaced *)
    cbn [Cache.step]. destruct (raced_cache st hf force gc e sn) as [E|E].
    + eapply InvT_cache; [exact E|exact HI'].
    + eapply InvT_cons; [exact E|exact HI'|]. intros Hn.
      destruct sn.
      * destruct e as [f b|b].
        -- exfalso. apply Hn. right. split; reflexivity.
        -- eexists; eexists; eexists. split; [reflexivity|]. split; [reflexivity|exact HD].
      * eexists; eexists; eexists. split; [reflexivity|]. split; [reflexivity|exact HD].
  - (* Run *)
    cbn [Cache.step].
    destruct (dir program st) eqn:Ed.
    + unfold Cache.invoke. rewrite Ed. exact HI'.
    + destruct (invoke_cases st hf force gc) as [E|[q [_ [_ [_ E]]]]]; [congruence| |]; rewrite E; [|exact HI'].
      eapply InvT_cons; [reflexivity|exact HI'|]. intros _.
      eexists; eexists; eexists. split; [reflexivity|]. split; [reflexivity|exact HD].
Qed.

Lemma run_ops_invT : forall ops (T : string -> Prop) st, InvT T st -> hashed_in ops st ->
  InvT (fun n => T n \/ In n (tainted ops st)) (run_ops ops st).
Proof.
  induction ops as [|o ops IH]; intros T st HI HH.
  - eapply InvT_mono; [|exact HI]. intros n Hn. left. exact Hn.
  - destruct HH as [HD HH]. unfold Cache.run_ops. cbn [fold_left]. fold (run_ops ops (fst (step st o))).
    eapply InvT_mono; [|apply (IH _ _ (step_invT T st o HD HI) HH)].
    intros n [[Hn|[Ht En]]|Hn]; [left; exact Hn| |right; cbn [tainted]; apply in_or_app; right; exact Hn].
    right. cbn [tainted]. rewrite Ht. left. symmetry. exact En.
Qed.

(* without a raced build that saw other magefiles, the plain invariant is kept *)
Lemma run_ops_inv : forall ops st, tainted ops st = [] -> Inv st -> hashed_in ops st -> Inv (run_ops ops st).
Proof.
  intros ops st Ht HI HH. apply InvT_Inv. eapply InvT_mono; [|apply (run_ops_invT ops _ st (Inv_InvT st HI) HH)].
  intros n [F|Hn]; [exact F|]. rewrite Ht in Hn. exact Hn.
Qed.
End WithD.

(* -f always recompiles *)
Lemma force_compiles : forall st hf gc, dir program st <> [] ->
  snd (invoke st hf true gc) = Ran program true (compile (ver program st) (dep program st) (dir program st)).
Proof.
  intros st hf gc Hd. destruct (invoke_cases st hf true gc Hd) as [E|[q [_ [Ef _]]]]; [|discriminate].
  rewrite E. reflexivity.
Qed.

(* without MAGEFILE_HASHFAST (and a go tool that has a build cache) every invocation recompiles *)
Lemma default_mode_compiles : forall st force, dir program st <> [] ->
  snd (invoke st false force true) = Ran program true (compile (ver program st) (dep program st) (dir program st)).
Proof.
  intros st force Hd. destruct (invoke_cases st false force true Hd) as [E|[q [Ef _]]]; [|discriminate].
  rewrite E. reflexivity.
Qed.

(* -compile: whatever lies at the output path, in every mode, with or without -f: the current files
   are compiled (current toolchain, current imported packages), nothing is run, directory and
   cache stay as they are *)
Lemma compile_always_current : forall st o hf uf gc, dir program st <> [] ->
  step st (CompileOut o hf uf gc) = (st, Built program (compile (ver program st) (dep program st) (dir program st))).
Proof.
  intros st o hf uf gc Hd. cbn [Cache.step]. unfold invoke_compile, invoke_compile_f.
  destruct (dir program st) eqn:Ed; [congruence|]. destruct hf, gc, o; reflexivity.
Qed.

Lemma compile_after_history : forall ops st o hf uf gc,
  let cur := run_ops ops st in
  dir program cur <> [] ->
  snd (step cur (CompileOut o hf uf gc)) = Built program (compile (ver program cur) (dep program cur) (dir program cur)) /\
  fst (step cur (CompileOut o hf uf gc)) = cur.
Proof. intros ops st o hf uf gc cur Hd. rewrite (compile_always_current cur o hf uf gc Hd). split; reflexivity. Qed.

(* a Parse that does not set Force for -compile: in hash mode an existing output file is RUN *)
Lemma compile_without_parse_force_refuted : forall st, dir program st <> [] ->
  invoke_compile_f program compile false st OOld true false true = RanOutput program /\
  invoke_compile_f program compile false st OOther true false true = RanOutput program.
Proof. intros st Hd. unfold invoke_compile_f. destruct (dir program st); [congruence|]. split; reflexivity. Qed.

(* hash mode does reuse: the invocation after any invocation, with nothing changed and no -f,
   runs the same binary without compiling *)
Lemma hash_mode_reuses : forall st hf force gc gc', dir program st <> [] ->
  exists c p, snd (invoke st hf force gc) = Ran program c p /\
              snd (invoke (fst (invoke st hf force gc)) true false gc') = Ran program false p.
Proof.
  intros st hf force gc gc' Hd.
  destruct (invoke_cases st hf force gc Hd) as [E|[q [_ [_ [El E]]]]]; rewrite E; simpl.
  - eexists; eexists. split; [reflexivity|]. unfold Cache.invoke. simpl.
    destruct (dir program st); [congruence|]. rewrite String.eqb_refl. reflexivity.
  - exists false, q. split; [reflexivity|]. unfold Cache.invoke.
    destruct (dir program st) eqn:Ed; [congruence|]. simpl. rewrite El. reflexivity.
Qed.

Variable D : string -> Prop.
Hypothesis H_shape : forall x, digest_ok (H x).
Hypothesis H_cf : collision_free H D.

(* whatever is run was compiled, by the current toolchain, from a file set with the current
   multiset of contents; when it was compiled now, from the current files themselves *)
Lemma invoke_fresh : forall st hf force gc, Inv D st -> Forall D (hashed_now st) -> dir program st <> [] ->
  exists c d fs, snd (invoke st hf force gc) = Ran program c (compile (ver program st) d fs) /\
               Permutation (contents fs) (contents (dir program st)) /\
               (c = true -> fs = dir program st /\ d = dep program st).
Proof.
  intros st hf force gc HI HD Hd.
  destruct (invoke_cases st hf force gc Hd) as [E|[q [_ [_ [El E]]]]]; rewrite E; simpl.
  - exists true, (dep program st), (dir program st). repeat split. apply Permutation_refl.
  - destruct (HI _ _ El) as [v [d [fs [-> [En HDs]]]]].
    apply (name_inj_same_tpl H D H_shape H_cf) in En; [|exact HDs|exact HD]. destruct En as [HP ->].
    exists false, d, fs. split; [reflexivity|]. split; [exact HP|discriminate].
Qed.

(* the same under the invariant with tainted names, for a name that is not tainted *)
Lemma invoke_freshT : forall (T : string -> Prop) st hf force gc, InvT D T st ->
  ~ T (exe_name H tpl (ver program st) (dir program st)) -> Forall D (hashed_now st) -> dir program st <> [] ->
  exists c d fs, snd (invoke st hf force gc) = Ran program c (compile (ver program st) d fs) /\
               Permutation (contents fs) (contents (dir program st)) /\
               (c = true -> fs = dir program st /\ d = dep program st).
Proof.
  intros T st hf force gc HI HT HD Hd.
  destruct (invoke_cases st hf force gc Hd) as [E|[q [_ [_ [El E]]]]]; rewrite E; simpl.
  - exists true, (dep program st), (dir program st). repeat split. apply Permutation_refl.
  - destruct (HI _ _ El HT) as [v [d [fs [-> [En HDs]]]]].
    apply (name_inj_same_tpl H D H_shape H_cf) in En; [|exact HDs|exact HD]. destruct En as [HP ->].
    exists false, d, fs. split; [reflexivity|]. split; [exact HP|discriminate].
Qed.

(* histories may contain invocations raced by edits ([RunRaced]); the conclusion holds for every
   later invocation whose cache name is not one under which a raced build stored the program of
   other magefiles ([tainted]) *)
Lemma fresh : forall ops st, Inv D st -> hashed_in D ops st -> forall hf force gc,
  let cur := run_ops ops st in
  ~ In (exe_name H tpl (ver program cur) (dir program cur)) (tainted ops st) ->
  Forall D (hashed_now cur) -> dir program cur <> [] ->
  exists c d fs, snd (step cur (Run hf force gc)) = Ran program c (compile (ver program cur) d fs) /\
               Permutation (contents fs) (contents (dir program cur)) /\
               (c = true -> fs = dir program cur /\ d = dep program cur).
Proof.
  intros ops st HI HH hf force gc cur HT HD Hd. simpl.
  apply (invoke_freshT (fun n => False \/ In n (tainted ops st))); [|intros [F|F]; [exact F|exact (HT F)]|exact HD|exact Hd].
  apply run_ops_invT; [apply Inv_InvT; exact HI|exact HH].
Qed.

(* with a go tool whose output depends on the contents only *)
Lemma fresh_exact : (forall v d a b, Permutation (contents a) (contents b) -> compile v d a = compile v d b) ->
  forall ops st, Inv D st -> hashed_in D ops st -> forall hf force gc,
  let cur := run_ops ops st in
  ~ In (exe_name H tpl (ver program cur) (dir program cur)) (tainted ops st) ->
  Forall D (hashed_now cur) -> dir program cur <> [] ->
  exists c d, snd (step cur (Run hf force gc)) = Ran program c (compile (ver program cur) d (dir program cur)) /\
              (c = true -> d = dep program cur).
Proof.
  intros Hc ops st HI HH hf force gc cur HT HD Hd.
  destruct (fresh ops st HI HH hf force gc HT HD Hd) as [c [d [fs [E [HP Hcur]]]]].
  exists c, d. fold cur in E. rewrite E. split; [f_equal; apply Hc; exact HP|].
  intros Ec. apply Hcur. exact Ec.
Qed.

(* no raced build that saw other magefiles: nothing is tainted *)
Lemma tainted_nil : forall ops st, (forall o, In o ops -> taints o = false) -> tainted ops st = [].
Proof.
  induction ops as [|o ops IH]; intros st Hn; [reflexivity|]. cbn [tainted].
  rewrite (Hn o (or_introl eq_refl)). cbn [app]. apply IH. intros o' Ho. apply Hn. right. exact Ho.
Qed.

(* the invocation right after one that was raced by an edit of a magefile: it has the NEW contents,
   whose name is another one - whatever the compiler of the raced build saw, it is fresh *)
Lemma next_after_raced_edit_fresh : forall st, Inv D st -> forall hf force gc f b sn hf' force' gc',
  let st1 := fst (step st (RunRaced hf force gc (REdit f b) sn)) in
  Forall D (hashed_now st) -> Forall D (hashed_now st1) -> dir program st1 <> [] ->
  ~ Permutation (contents (dir program st1)) (contents (dir program st)) ->
  exists c d fs, snd (step st1 (Run hf' force' gc')) = Ran program c (compile (ver program st1) d fs) /\
               Permutation (contents fs) (contents (dir program st1)) /\
               (c = true -> fs = dir program st1 /\ d = dep program st1).
Proof.
  intros st HI hf force gc f b sn hf' force' gc' st1 HD HD1 Hd1 Hnp.
  pose proof (fresh [RunRaced hf force gc (REdit f b) sn] st HI (conj HD I) hf' force' gc') as F.
  change (run_ops [RunRaced hf force gc (REdit f b) sn] st) with st1 in F. cbv zeta in F.
  apply F; [|exact HD1|exact Hd1]. clear F.
  cbn [tainted]. rewrite app_nil_r. destruct (taints _); [|intros F; exact F].
  intros [E|F]; [|exact F].
  assert (Ev : ver program st1 = ver program st).
  { subst st1. cbn [Cache.step]. unfold invoke_raced, invoke_raced_f. destruct (dir program st); [reflexivity|].
    destruct hf, gc; cbn [negb]; try reflexivity; destruct (lookup program _ (cache program st)); try reflexivity;
      destruct force; reflexivity. }
  rewrite Ev in E. symmetry in E. unfold hashed_now in HD, HD1. rewrite Ev in HD1.
  apply (name_inj_same_tpl H D H_shape H_cf) in E; [|exact HD1|exact HD]. apply Hnp. exact (proj1 E).
Qed.

(* every string hashed in any state of a history *)
Fixpoint all_hashed (ops : list op) (st : state) : list string :=
  hashed_now st ++ match ops with [] => [] | o :: r => all_hashed r (fst (step st o)) end.

Lemma all_hashed_covers : forall (P : string -> Prop) ops st, (forall x, In x (all_hashed ops st) -> P x) ->
  hashed_in P ops st /\ Forall P (hashed_now (run_ops ops st)).
Proof.
  intros P; induction ops as [|o ops IH]; intros st HP.
  - split; [exact I|]. rewrite Forall_forall. intros x Hx. apply HP. simpl. rewrite app_nil_r. exact Hx.
  - change (all_hashed (o :: ops) st) with (hashed_now st ++ all_hashed ops (fst (step st o))) in HP.
    destruct (IH (fst (step st o))) as [H1 H2].
    { intros x Hx. apply HP. apply in_or_app. right. exact Hx. }
    split; [|exact H2]. split; [|exact H1].
    destruct o; try exact I; rewrite Forall_forall; intros x Hx; apply HP; apply in_or_app; left; exact Hx.
Qed.

(* a design that files a raced build under the name of the contents on disk AFTER the build
   ([settle = true], seeded change C08-8A): when the compiler had read the OLD magefiles, the very
   next hash-mode invocation - of the new contents - runs the old program *)
Lemma settle_refuted : forall (st : state) force gc f b gc', dir program st <> [] ->
  lookup program (exe_name H tpl (ver program st) (dir program st)) (cache program st) = None ->
  let st1 := fst (invoke_raced_f H program compile tpl true st true force gc (REdit f b) false) in
  dir program st1 = set_file f b (dir program st) /\
  snd (invoke st1 true false gc') = Ran program false (compile (ver program st) (dep program st) (dir program st)).
Proof.
  intros st force gc f b gc' Hd Hl st1. subst st1. unfold invoke_raced_f.
  destruct (dir program st) as [|x l] eqn:Ed; [congruence|]. cbn [negb]. rewrite Hl. cbn [fst apply_race with_dir Cache.dir Cache.dep Cache.ver].
  split; [rewrite Ed; reflexivity|].
  unfold Cache.invoke. cbn [Cache.dir Cache.ver Cache.cache Cache.dep]. rewrite Ed.
  destruct (set_file f b (x :: l)) eqn:Es; [cbn in Es; destruct (String.eqb (fst x) f); discriminate Es|].
  cbn [negb lookup]. rewrite String.eqb_refl. reflexivity.
Qed.
End Hist.

(* ---------------------------------------------------------------------------------------- *)
(* the cache directory                                                                        *)

Lemma abs_path_abs : forall wd p, p_abs wd = true -> p_abs (abs_path wd p) = true.
Proof. intros wd p Hw. unfold abs_path. destruct (p_abs p) eqn:E; simpl; [exact E|exact Hw]. Qed.

Lemma abs_path_of_abs : forall wd p, p_abs p = true -> abs_path wd p = clean p.
Proof. intros wd p Hp. unfold abs_path. rewrite Hp. reflexivity. Qed.

Lemma one_cache_dir : forall l name, p_abs (l_start l) = true ->
  let e := exe_path true l name in
  e = join2 (abs_path (l_start l) (cache_dir_env l)) (parse_path name) /\
  p_abs e = true /\
  stat_path true l name = clean e /\ build_path true l name = clean e /\ exec_path true l name = clean e.
Proof.
  intros l name Hs e.
  assert (He : p_abs e = true).
  { unfold e, exe_path, join2, clean, cache_dir. simpl. apply abs_path_abs. exact Hs. }
  split; [reflexivity|]. split; [exact He|].
  unfold stat_path, build_path, exec_path. fold e. rewrite !abs_path_of_abs by exact He. repeat split.
Qed.

(* -d, -w and the magefiles directory do not matter *)
Lemma one_cache_dir_indep : forall l l' name,
  p_abs (l_start l) = true -> l_start l = l_start l' -> l_cache_env l = l_cache_env l' -> l_home l = l_home l' -> l_tmp l = l_tmp l' ->
  build_path true l name = exec_path true l' name /\ stat_path true l name = stat_path true l' name.
Proof.
  intros l l' name Hs E1 E2 E3 E4.
  assert (Hs' : p_abs (l_start l') = true) by (rewrite <- E1; exact Hs).
  destruct (one_cache_dir l name Hs) as [Ee [_ [Es [Eb _]]]].
  destruct (one_cache_dir l' name Hs') as [Ee' [_ [Es' [_ Ex']]]].
  assert (E : exe_path true l name = exe_path true l' name).
  { rewrite Ee, Ee'. unfold cache_dir_env. rewrite E1, E2, E3, E4. reflexivity. }
  rewrite Eb, Ex', Es, Es', E. split; reflexivity.
Qed.

(* the default directory: MAGEFILE_CACHE unset or empty -> $HOME/.magefile, wherever mage is started *)
Lemma default_cache_dir : forall l, l_cache_env l = "" -> l_home l <> "" -> p_abs (parse_path (l_home l)) = true ->
  cache_dir true l = clean (join2 (parse_path (l_home l)) (parse_path ".magefile")) /\
  p_abs (cache_dir true l) = true.
Proof.
  intros l Ec Eh Ha. unfold cache_dir, cache_dir_env. rewrite Ec. cbn [String.eqb].
  destruct (String.eqb (l_home l) "") eqn:E; [apply String.eqb_eq in E; contradiction|].
  assert (Hj : p_abs (join2 (parse_path (l_home l)) (parse_path ".magefile")) = true)
    by (unfold join2, clean; cbn [p_abs]; exact Ha).
  unfold abs_path. rewrite Hj. split; [reflexivity|]. unfold clean at 1. cbn [p_abs]. exact Hj.
Qed.

Definition layout_dw : layout :=
  {| l_start := parse_path "/s"; l_d := "proj"; l_w := "work"; l_mfdir := false; l_plain := true;
     l_cache_env := "relcache"; l_home := "/home/u"; l_tmp := "/tmp" |}.
Definition layout_mfdir : layout :=
  {| l_start := parse_path "/s"; l_d := ""; l_w := ""; l_mfdir := true; l_plain := false;
     l_cache_env := "relcache"; l_home := "/home/u"; l_tmp := "/tmp" |}.

Lemma relative_cache_prefix_refuted :
  (exists l name, p_abs (l_start l) = true /\ l_mfdir l = false /\ build_path false l name <> exec_path false l name) /\
  (exists l name, p_abs (l_start l) = true /\ l_d l = "" /\ l_w l = "" /\ build_path false l name <> exec_path false l name).
Proof.
  split.
  - exists layout_dw, "n". repeat split. vm_compute. discriminate.
  - exists layout_mfdir, "n". repeat split. vm_compute. discriminate.
Qed.

(* ---------------------------------------------------------------------------------------- *)
(* a concrete instance                                                                        *)

(* the stand-in for the go tool in examples: a "program" is its toolchain and its sorted contents *)
Definition ex_compile (v d : string) (fs : fileset) : string * string * list string := (v, d, sort_strings (contents fs)).

(* a toy hash with the shape of a digest (40 hex characters), for the non-vacuity example *)
Definition hexdigits : list ascii := chars "0123456789abcdef".
Definition hexdigit (n : N) : ascii := nth (N.to_nat (n mod 16)) hexdigits "0"%char.
Fixpoint hexn (k : nat) (n : N) : string :=
  match k with O => EmptyString | S k' => String (hexdigit n) (hexn k' (n / 16)) end.
Definition poly (s : string) : N :=
  fold_left (fun acc c => (acc * 257 + N_of_ascii c + 1) mod (16 ^ 40))%N (chars s) 7%N.
Definition toy_hash (s : string) : string := hexn 40 (poly s).

Lemma hexdigit_hex : forall n, is_hex (hexdigit n) = true.
Proof.
  intros n. unfold hexdigit. generalize (N.to_nat (n mod 16)). intros i.
  do 16 (destruct i as [|i]; [reflexivity|]). destruct i; reflexivity.
Qed.

Lemma hexn_ok : forall k n, String.length (hexn k n) = k /\ Forall (fun c => is_hex c = true) (chars (hexn k n)).
Proof.
  induction k as [|k IH]; intros n; simpl; [split; constructor|].
  destruct (IH (n / 16)%N) as [HL HF]. split; [rewrite HL; reflexivity|].
  constructor; [apply hexdigit_hex|exact HF].
Qed.

Lemma toy_hash_shape : forall x, digest_ok (toy_hash x).
Proof. intros x. apply hexn_ok. Qed.

(* collision-freeness on a finite list is decidable *)
Definition cf_check (H : string -> string) (l : list string) : bool :=
  let hl := map (fun x => (x, H x)) l in
  forallb (fun a => forallb (fun b => implb (String.eqb (snd a) (snd b)) (String.eqb (fst a) (fst b))) hl) hl.

Lemma cf_check_sound : forall H l, cf_check H l = true -> collision_free H (fun x => In x l).
Proof.
  intros H l Hc x y Hx Hy E. unfold cf_check in Hc. cbv zeta in Hc.
  rewrite forallb_forall in Hc. specialize (Hc (x, H x) (in_map (fun x => (x, H x)) l x Hx)).
  rewrite forallb_forall in Hc. specialize (Hc (y, H y) (in_map (fun x => (x, H x)) l y Hy)).
  simpl in Hc. rewrite E, String.eqb_refl in Hc. simpl in Hc. apply String.eqb_eq. exact Hc.
Qed.

Lemma nonvacuous_c08 :
  let H := toy_hash in
  let st0 := {| dir := [("a.go", "A1"); ("b.go", "B1")]; dep := "d1"; ver := "go1"; cache := @nil (string * (string * string * list string)) |} in
  let ops := [Run true false true; Edit "a.go" "A2"; Run true false true; Edit "a.go" "A1"; Rename "b.go" "c.go"; EditDep "d2";
              Run true false true; Run false false true; Run true true true] in
  let D := fun x => In x (all_hashed H _ ex_compile "T" ops st0) in
  (forall x, digest_ok (H x)) /\ collision_free H D /\
  Inv H _ ex_compile "T" D st0 /\ hashed_in H _ ex_compile "T" D ops st0 /\
  Forall D (hashed_now H _ "T" (run_ops H _ ex_compile "T" ops st0)) /\
  dir _ (run_ops H _ ex_compile "T" ops st0) <> [] /\
  outcomes H _ ex_compile "T" ops st0 =
    [Ran _ true ("go1", "d1", ["A1"; "B1"]); NoRun _; Ran _ true ("go1", "d1", ["A2"; "B1"]); NoRun _; NoRun _; NoRun _;
     Ran _ false ("go1", "d1", ["A1"; "B1"]); Ran _ true ("go1", "d2", ["A1"; "B1"]); Ran _ true ("go1", "d2", ["A1"; "B1"])] /\
  classes (names_along H _ ex_compile "T" ops st0) = [0; 0; 2; 2; 0; 0; 0; 0; 0; 0]%nat /\
  show (stat_path true layout_dw "n") = "/s/relcache/n" /\ show (exec_path true layout_mfdir "n") = "/s/relcache/n" /\
  show (build_path false layout_dw "n") = "/s/proj/relcache/n" /\ show (exec_path false layout_dw "n") = "/s/work/relcache/n".
Proof.
  intros H st0 ops D.
  split; [exact toy_hash_shape|].
  split. { apply cf_check_sound. vm_compute. reflexivity. }
  split; [apply Inv_empty|].
  destruct (all_hashed_covers H _ ex_compile "T" D ops st0 (fun x Hx => Hx)) as [H1 H2].
  split; [exact H1|]. split; [exact H2|].
  split. { vm_compute. discriminate. }
  vm_compute. repeat split.
Qed.
