(* Lemmas about Model/Classify.v (C06). *)
From Mage Require Import Base.Strs Model.Classify.

(* ------------------------------------------------------------------ strings *)
Lemma lower_c_idem : forall c, lower_c (lower_c c) = lower_c c.
Proof. intros c. destruct c as [[] [] [] [] [] [] [] []]; reflexivity. Qed.

Lemma lower_idem : forall s, lower (lower s) = lower s.
Proof. induction s as [|c r IH]; simpl; [reflexivity|]. now rewrite lower_c_idem, IH. Qed.

Lemma lower_app : forall a b, lower (a ++ b)%string = (lower a ++ lower b)%string.
Proof. induction a as [|c r IH]; intros b; simpl; [reflexivity|]. now rewrite IH. Qed.

Lemma str_app_assoc : forall a b c, ((a ++ b) ++ c)%string = (a ++ b ++ c)%string.
Proof. induction a as [|x r IH]; intros b c; simpl; [reflexivity|]. now rewrite IH. Qed.

Lemma span_app : forall p s a b, span p s = (a, b) -> s = (a ++ b)%string.
Proof.
  induction s as [|c r IH]; simpl; intros a b H.
  - inversion H; reflexivity.
  - destruct (p c).
    + destruct (span p r) as [a' b'] eqn:E. inversion H; subst. simpl. f_equal. now apply IH.
    + inversion H; subst. reflexivity.
Qed.

Lemma but_last_app : forall s a b, but_last s = (a, b) -> s = (a ++ b)%string.
Proof.
  induction s as [|c r IH]; simpl; intros a b H.
  - inversion H; reflexivity.
  - destruct r as [|c' r'].
    + inversion H; subst. reflexivity.
    + destruct (but_last (String c' r')) as [a' b'] eqn:E. inversion H; subst. simpl. f_equal. now apply IH.
Qed.

Lemma lowerFirstWord_lower : forall s, lower (lowerFirstWord s) = lower s.
Proof.
  intros s. unfold lowerFirstWord. destruct s as [|c r]; [reflexivity|].
  destruct (is_upper c); [|apply lower_idem].
  destruct (span (fun x => negb (is_upper x)) r) as [nu rest] eqn:E1.
  destruct (nonempty nu && nonempty rest).
  - apply span_app in E1. subst r.
    rewrite lower_app, lower_idem. change (String c (nu ++ rest)) with (String c nu ++ rest)%string.
    now rewrite lower_app.
  - destruct (span is_upper (String c r)) as [us rest2] eqn:E2.
    destruct (nonempty rest2 && Nat.leb 2 (String.length us)); [|apply lower_idem].
    destruct (but_last us) as [a b] eqn:E3.
    apply span_app in E2. apply but_last_app in E3. rewrite E2, E3.
    rewrite !lower_app, lower_idem. now rewrite str_app_assoc.
Qed.

Lemma lower_join : forall sep l, lower (join sep l) = join (lower sep) (map lower l).
Proof.
  intros sep. induction l as [|x r IH]; [reflexivity|].
  destruct r as [|y r']; [reflexivity|].
  change (join sep (x :: y :: r')) with (x ++ sep ++ join sep (y :: r'))%string.
  change (map lower (x :: y :: r')) with (lower x :: lower y :: map lower r').
  change (join (lower sep) (lower x :: lower y :: map lower r'))
    with (lower x ++ lower sep ++ join (lower sep) (map lower (y :: r')))%string.
  now rewrite !lower_app, IH.
Qed.

Lemma split_on_nonnil : forall sep s, split_on sep s <> [].
Proof.
  intros sep s. destruct s as [|c r]; simpl; [discriminate|].
  destruct (Ascii.eqb c sep); [discriminate|]. destruct (split_on sep r); discriminate.
Qed.

Lemma join_split : forall sep s, join (String sep EmptyString) (split_on sep s) = s.
Proof.
  intros sep. induction s as [|c r IH]; [reflexivity|]. simpl split_on.
  destruct (Ascii.eqb c sep) eqn:E.
  - apply Ascii.eqb_eq in E. subst c.
    destruct (split_on sep r) as [|h t] eqn:S; [now apply split_on_nonnil in S|].
    change (join (String sep "") ("" :: h :: t)) with ("" ++ String sep "" ++ join (String sep "") (h :: t))%string.
    rewrite IH. reflexivity.
  - destruct (split_on sep r) as [|h t] eqn:S; [now apply split_on_nonnil in S|].
    rewrite <- IH. destruct t; reflexivity.
Qed.

(* the listed spelling of a name and the name itself are the same word for the dispatcher *)
Lemma lowerFirst_lower : forall s, lower (lowerFirst s) = lower s.
Proof.
  intros s. unfold lowerFirst. rewrite lower_join, map_map.
  rewrite (map_ext _ lower (fun x => lowerFirstWord_lower x)).
  rewrite <- lower_join. change ":"%string with (String ":"%char EmptyString). now rewrite join_split.
Qed.

Lemma length_app_str : forall a b, String.length (a ++ b)%string = String.length a + String.length b.
Proof. induction a as [|c r IH]; intros b; simpl; [reflexivity|]. now rewrite IH. Qed.

Lemma app_star_neq : forall s, (s ++ "*")%string <> s.
Proof. intros s H. apply (f_equal String.length) in H. rewrite length_app_str in H. simpl in H. lia. Qed.

Lemma app_empty_r : forall s, (s ++ "")%string = s.
Proof. induction s as [|c r IH]; simpl; [reflexivity|]. now rewrite IH. Qed.

(* ------------------------------------------------------------------ the declarative side *)
Definition supported (t : pty) : Prop := t = TString \/ t = TInt \/ t = TBool \/ t = TDur.

(* an optional leading single context.Context followed only by the four supported types *)
Definition params_ok (ps : list pgroup) : Prop :=
  (forall g, In g ps -> supported (pty_ g)) \/
  (exists c rest, ps = c :: rest /\ pty_ c = TCtx /\ List.length (pnames c) <= 1 /\
                  forall g, In g rest -> supported (pty_ g)).

(* nothing or a single error *)
Definition res_ok (rs : list rgroup) : Prop :=
  rs = [] \/ exists n, n <= 1 /\ rs = [{| rnames := n; rkind_ := RKError |}].

(* no receiver, or a receiver of an (exported, non-generic) type declared as mg.Namespace *)
Definition recv_ok (pk : pkg) (d : fdecl) : Prop :=
  recv d = None \/
  exists tn ptr t, recv d = Some (tn, ptr) /\ In t (types pk) /\ tname t = tn /\
                   is_namespace t = true /\ tgeneric t = false /\ exported tn = true.

Definition valid_sig (pk : pkg) (d : fdecl) : Prop :=
  exported (fname d) = true /\ tparams d = false /\ recv_ok pk d /\ params_ok (params d) /\ res_ok (res d).

Definition is_target (pk : pkg) (d : fdecl) : Prop := exists f, In (d, f) (targets pk).

(* ------------------------------------------------------------------ funcType *)
Lemma argType_supported : forall t, (exists a, argType t = Some a) <-> supported t.
Proof.
  intros t; split.
  - intros [a H]. unfold supported. destruct t; simpl in H; try discriminate; auto.
  - intros [H|[H|[H|H]]]; subst; simpl; eauto.
Qed.

(* the arguments contributed by the groups ps when i arguments have been collected before *)
Definition group_names (fixed : bool) (i : nat) (g : pgroup) : list string :=
  match pnames g with
  | [] => if fixed then [("arg" ++ dec i)%string] else []
  | ns => ns
  end.
Fixpoint args_from (fixed : bool) (i : nat) (ps : list pgroup) : option (list (string * aty)) :=
  match ps with
  | [] => Some []
  | p :: r =>
      match argType (pty_ p) with
      | None => None
      | Some t =>
          let ns := group_names fixed i p in
          match args_from fixed (i + List.length ns) r with
          | None => None
          | Some l => Some (map (fun n => (n, t)) ns ++ l)
          end
      end
  end.

Lemma args_loop_from : forall fixed ps acc,
  args_loop fixed ps acc = match args_from fixed (List.length acc) ps with Some l => Some (acc ++ l) | None => None end.
Proof.
  intros fixed. induction ps as [|p r IH]; intros acc; simpl.
  - now rewrite app_nil_r.
  - destruct (argType (pty_ p)) as [t|]; [|reflexivity].
    rewrite IH. unfold group_names.
    destruct (pnames p) as [|n ns] eqn:E; simpl.
    + rewrite app_nil_r. destruct fixed; simpl.
      * rewrite app_length. simpl.
        destruct (args_from true (List.length acc + 1) r); [|reflexivity]. now rewrite <- app_assoc.
      * rewrite Nat.add_0_r. destruct (args_from false (List.length acc) r); reflexivity.
    + rewrite andb_false_r. rewrite app_length. simpl. rewrite map_length.
      destruct (args_from fixed (List.length acc + S (List.length ns)) r); [|reflexivity].
      now rewrite <- app_assoc.
Qed.

Lemma args_from_some_iff : forall fixed ps i,
  (exists l, args_from fixed i ps = Some l) <-> (forall g, In g ps -> supported (pty_ g)).
Proof.
  intros fixed. induction ps as [|p r IH]; intros i; simpl.
  - split; [intros _ g []|eauto].
  - split.
    + intros [l H] g [<-|Hg].
      * apply argType_supported. destruct (argType (pty_ p)); [eauto|discriminate].
      * destruct (argType (pty_ p)) as [t|]; [|discriminate].
        destruct (args_from fixed (i + List.length (group_names fixed i p)) r) eqn:E; [|discriminate].
        eapply IH; eauto.
    + intros H. destruct (proj2 (argType_supported (pty_ p)) (H p (or_introl eq_refl))) as [t ->].
      destruct (proj2 (IH (i + List.length (group_names fixed i p))) (fun g Hg => H g (or_intror Hg))) as [l ->].
      eauto.
Qed.

Lemma num_fields_lt1 : forall ps, Nat.ltb (num_fields ps) 1 = true -> ps = [].
Proof.
  intros [|p r]; [reflexivity|]. intros H. apply Nat.ltb_lt in H. unfold num_fields in H. cbn [fold_right] in H. lia.
Qed.

Lemma hasContextParam_true : forall ps,
  hasContextParam ps = Some true <->
  exists c rest, ps = c :: rest /\ pty_ c = TCtx /\ List.length (pnames c) <= 1.
Proof.
  intros ps. unfold hasContextParam. split.
  - destruct (Nat.ltb (num_fields ps) 1); [discriminate|].
    destruct ps as [|p r]; [discriminate|].
    destruct (pty_ p) eqn:E; try discriminate.
    destruct (Nat.ltb 1 (List.length (pnames p))) eqn:L; [discriminate|].
    intros _. exists p, r. apply Nat.ltb_ge in L. auto.
  - intros (c & rest & -> & Hc & Hl).
    destruct (Nat.ltb (num_fields (c :: rest)) 1) eqn:N; [apply num_fields_lt1 in N; discriminate|].
    rewrite Hc. destruct (Nat.ltb 1 (List.length (pnames c))) eqn:L; [apply Nat.ltb_lt in L; lia|reflexivity].
Qed.

Lemma hasContextParam_false : forall ps,
  hasContextParam ps = Some false <-> (ps = [] \/ exists c rest, ps = c :: rest /\ pty_ c <> TCtx).
Proof.
  intros ps. unfold hasContextParam. split.
  - destruct (Nat.ltb (num_fields ps) 1) eqn:N; [left; now apply num_fields_lt1|].
    destruct ps as [|p r]; [now left|]. intros H. right. exists p, r. split; [reflexivity|].
    intros E. rewrite E in H. destruct (Nat.ltb 1 (List.length (pnames p))); discriminate.
  - intros [->|(c & rest & -> & Hc)]; [reflexivity|].
    destruct (Nat.ltb (num_fields (c :: rest)) 1); [reflexivity|].
    destruct (pty_ c); try reflexivity. congruence.
Qed.

Lemma num_fields_r_0 : forall rs, num_fields_r rs = 0 -> rs = [].
Proof. intros [|r rs]; [reflexivity|]. unfold num_fields_r. cbn [fold_right]. lia. Qed.

Lemma hasErrorReturn_some_iff : forall rs, (exists b, hasErrorReturn rs = Some b) <-> res_ok rs.
Proof.
  intros rs. unfold hasErrorReturn, res_ok. split.
  - intros [b H].
    destruct (Nat.eqb (num_fields_r rs) 0) eqn:Z; [left; apply Nat.eqb_eq in Z; now apply num_fields_r_0|].
    destruct (Nat.ltb 1 (num_fields_r rs)) eqn:L; [discriminate|].
    apply Nat.eqb_neq in Z. apply Nat.ltb_ge in L.
    destruct rs as [|r rest]; [now left|]. right.
    destruct (Nat.ltb 1 (rnames r)) eqn:L2; [discriminate|]. apply Nat.ltb_ge in L2.
    destruct (rkind_ r) eqn:K; try discriminate.
    destruct rest as [|r2 rest2].
    + exists (rnames r). split; [assumption|]. destruct r; simpl in *; now subst.
    + unfold num_fields_r in L. cbn [fold_right] in L. lia.
  - intros [->|(n & Hn & ->)]; [simpl; eauto|].
    simpl. destruct n as [|[|n]]; simpl; eauto. lia.
Qed.

Lemma hasErrorReturn_true_nonnil : forall rs b, hasErrorReturn rs = Some b -> (b = true <-> rs <> []).
Proof.
  intros rs b H. unfold hasErrorReturn in H.
  destruct (Nat.eqb (num_fields_r rs) 0) eqn:Z.
  - apply Nat.eqb_eq in Z. apply num_fields_r_0 in Z. subst. inversion H. split; congruence.
  - destruct (Nat.ltb 1 (num_fields_r rs)); [discriminate|].
    destruct rs as [|r rest]; [simpl in Z; discriminate|].
    destruct (Nat.ltb 1 (rnames r)); [discriminate|]. destruct (rkind_ r); try discriminate.
    inversion H. split; [discriminate|reflexivity].
Qed.

Lemma funcType_some_iff : forall d,
  (exists f, funcType d = Some f) <-> tparams d = false /\ params_ok (params d) /\ res_ok (res d).
Proof.
  intros d. unfold funcType, funcType_. split.
  - intros [f H]. destruct (tparams d); [discriminate|]. split; [reflexivity|].
    destruct (hasContextParam (params d)) as [isctx|] eqn:C; [|discriminate].
    destruct (hasErrorReturn (res d)) as [iserr|] eqn:R; [|discriminate].
    split; [|apply hasErrorReturn_some_iff; eauto].
    rewrite args_loop_from in H. simpl in H.
    destruct (args_from true 0 (skipn (if isctx then 1 else 0) (params d))) as [l|] eqn:A; [|discriminate].
    assert (S : forall g, In g (skipn (if isctx then 1 else 0) (params d)) -> supported (pty_ g))
      by (apply (args_from_some_iff true _ 0); eauto).
    destruct isctx.
    + apply hasContextParam_true in C. destruct C as (c & rest & E & Hc & Hl).
      right. exists c, rest. rewrite E in S. simpl in S. auto.
    + left. exact S.
  - intros (T & P & R). rewrite T.
    apply hasErrorReturn_some_iff in R. destruct R as [iserr R].
    destruct P as [P|(c & rest & E & Hc & Hl & P)].
    + assert (C : hasContextParam (params d) = Some false).
      { apply hasContextParam_false. destruct (params d) as [|c rest] eqn:E; [now left|right].
        exists c, rest. split; [reflexivity|]. intros X.
        destruct (P c (or_introl eq_refl)) as [H|[H|[H|H]]]; congruence. }
      rewrite C, R, args_loop_from. simpl.
      destruct (proj2 (args_from_some_iff true (params d) 0) P) as [l ->]. eauto.
    + assert (C : hasContextParam (params d) = Some true) by (apply hasContextParam_true; eauto).
      rewrite C, R, args_loop_from, E. simpl.
      destruct (proj2 (args_from_some_iff true rest 0) P) as [l ->]. eauto.
Qed.

(* what a successful funcType returns, in terms of args_from *)
Lemma funcType_inv : forall d f, funcType d = Some f ->
  exists isctx iserr args,
    hasContextParam (params d) = Some isctx /\ hasErrorReturn (res d) = Some iserr /\
    args_from true 0 (skipn (if isctx then 1 else 0) (params d)) = Some args /\
    f_isctx f = isctx /\ f_iserr f = iserr /\ f_args f = args.
Proof.
  intros d f H. unfold funcType, funcType_ in H. destruct (tparams d); [discriminate|].
  destruct (hasContextParam (params d)) as [isctx|]; [|discriminate].
  destruct (hasErrorReturn (res d)) as [iserr|]; [|discriminate].
  rewrite args_loop_from in H. simpl in H.
  destruct (args_from true 0 (skipn (if isctx then 1 else 0) (params d))) as [l|] eqn:A; [|discriminate].
  inversion H; subst. exists isctx, iserr, l. simpl. auto 10.
Qed.

(* ------------------------------------------------------------------ collection *)
Lemma in_setFuncs : forall pk d f,
  In (d, f) (setFuncs pk) <->
  In d (doc_funcs pk) /\ exists f0, funcType d = Some f0 /\ f = mkfn d "" f0.
Proof.
  intros pk d f. unfold setFuncs. rewrite in_flat_map. split.
  - intros (d' & Hd & H).
    assert (Hd' := Hd). unfold doc_funcs in Hd'. apply filter_In in Hd'. destruct Hd' as [_ Hc].
    apply andb_prop in Hc. destruct Hc as [Hc _]. apply andb_prop in Hc. destruct Hc as [Hn He].
    rewrite Hn, He in H. simpl in H.
    destruct (funcType d') as [f0|] eqn:F; [|destruct H].
    destruct H as [H|[]]. inversion H; subst. eauto.
  - intros (Hd & f0 & F & ->). exists d. split; [assumption|].
    unfold doc_funcs in Hd. apply filter_In in Hd. destruct Hd as [_ Hc].
    apply andb_prop in Hc. destruct Hc as [Hc _]. apply andb_prop in Hc. destruct Hc as [Hn He].
    rewrite Hn, He, F. simpl. now left.
Qed.

Lemma isNamespace_spec : forall t, isNamespace t = true <-> is_namespace t = true /\ tgeneric t = false.
Proof.
  intros t. unfold isNamespace, isNamespace_. simpl. destruct (tgeneric t), (is_namespace t); split; intros H; try discriminate; auto; destruct H; discriminate.
Qed.

Lemma in_setNamespaces : forall pk d f,
  In (d, f) (setNamespaces pk) <->
  exists t, In t (doc_types pk) /\ isNamespace t = true /\ In d (doc_methods pk t) /\
            exists f0, funcType d = Some f0 /\ f = mkfn d (tname t) f0.
Proof.
  intros pk d f. unfold setNamespaces, setNamespaces_. fold isNamespace. rewrite in_flat_map. split.
  - intros (t & Ht & H). destruct (isNamespace t) eqn:N; simpl in H; [|destruct H].
    apply in_flat_map in H. destruct H as (d' & Hd & H).
    destruct (exported (fname d')); simpl in H; [|destruct H].
    destruct (funcType d') as [f0|] eqn:F; [|destruct H].
    destruct H as [H|[]]. inversion H; subst. exists t. eauto 10.
  - intros (t & Ht & N & Hd & f0 & F & ->). exists t. split; [assumption|]. rewrite N. simpl.
    apply in_flat_map. exists d. split; [assumption|].
    unfold doc_methods in Hd. apply filter_In in Hd. destruct Hd as [_ Hc].
    apply andb_prop in Hc. destruct Hc as [_ He]. rewrite He, F. simpl. now left.
Qed.

Lemma res_ok_not_factory : forall rs, res_ok rs -> Nat.eqb (count_local rs) 1 = false.
Proof. intros rs [->|(n & _ & ->)]; reflexivity. Qed.

Theorem exact : forall pk d, In d (decls pk) -> (is_target pk d <-> valid_sig pk d).
Proof.
  intros pk d Hin. unfold is_target, targets, targets_, valid_sig. fold setNamespaces. split.
  - intros [f H]. apply in_app_or in H. destruct H as [H|H].
    + apply in_setNamespaces in H. destruct H as (t & Ht & N & Hd & f0 & F & _).
      unfold doc_types in Ht. apply filter_In in Ht. destruct Ht as [Ht Et].
      unfold doc_methods in Hd. apply filter_In in Hd. destruct Hd as [_ Hc].
      apply andb_prop in Hc. destruct Hc as [Hr He].
      destruct (proj1 (funcType_some_iff d) (ex_intro _ f0 F)) as (T & P & R).
      repeat split; try assumption.
      right. destruct (recv d) as [[tn ptr]|] eqn:Er; [|discriminate].
      apply String.eqb_eq in Hr. subst tn. apply isNamespace_spec in N. destruct N as [N G]. exists (tname t), ptr, t. auto 10.
    + apply in_setFuncs in H. destruct H as (Hd & f0 & F & _).
      unfold doc_funcs in Hd. apply filter_In in Hd. destruct Hd as [_ Hc].
      apply andb_prop in Hc. destruct Hc as [Hc _]. apply andb_prop in Hc. destruct Hc as [Hn He].
      destruct (proj1 (funcType_some_iff d) (ex_intro _ f0 F)) as (T & P & R).
      repeat split; try assumption.
      left. unfold no_recv in Hn. destruct (recv d); [discriminate|reflexivity].
  - intros (E & T & Rc & P & R).
    destruct (proj2 (funcType_some_iff d) (conj T (conj P R))) as [f0 F].
    destruct Rc as [Rc|(tn & ptr & t & Rc & Ht & <- & N & G & Et)].
    + exists (mkfn d "" f0). apply in_or_app. right. apply in_setFuncs. split; [|eauto].
      unfold doc_funcs. apply filter_In. split; [assumption|].
      unfold no_recv, is_factory. rewrite Rc, E, (res_ok_not_factory _ R). reflexivity.
    + exists (mkfn d (tname t) f0). apply in_or_app. left. apply in_setNamespaces.
      exists t. split; [unfold doc_types; apply filter_In; auto|]. split; [apply isNamespace_spec; auto|].
      split; [|eauto]. unfold doc_methods. apply filter_In. split; [assumption|].
      rewrite Rc, String.eqb_refl, E. reflexivity.
Qed.

(* every collected Function comes from funcType of its declaration *)
Lemma target_inv : forall pk d f, In (d, f) (targets pk) ->
  exists f0 r, funcType d = Some f0 /\ f = mkfn d r f0 /\
               (r = "" /\ recv d = None \/ exists ptr, recv d = Some (r, ptr) /\ exported r = true).
Proof.
  intros pk d f H. unfold targets, targets_ in H. fold setNamespaces in H. apply in_app_or in H. destruct H as [H|H].
  - apply in_setNamespaces in H. destruct H as (t & Ht & N & Hd & f0 & F & ->).
    exists f0, (tname t). split; [assumption|]. split; [reflexivity|]. right.
    unfold doc_methods in Hd. apply filter_In in Hd. destruct Hd as [_ Hc].
    apply andb_prop in Hc. destruct Hc as [Hr _].
    unfold doc_types in Ht. apply filter_In in Ht. destruct Ht as [_ Et].
    destruct (recv d) as [[tn ptr]|]; [|discriminate]. apply String.eqb_eq in Hr. subst. eauto.
  - apply in_setFuncs in H. destruct H as (Hd & f0 & F & ->).
    exists f0, "". split; [assumption|]. split; [reflexivity|]. left. split; [reflexivity|].
    unfold doc_funcs in Hd. apply filter_In in Hd. destruct Hd as [_ Hc].
    apply andb_prop in Hc. destruct Hc as [Hc _]. apply andb_prop in Hc. destruct Hc as [Hn _].
    unfold no_recv in Hn. destruct (recv d); [discriminate|reflexivity].
Qed.

(* ------------------------------------------------------------------ the generated call *)
Definition pty_of (a : aty) : pty := match a with AString => TString | AInt => TInt | ABool => TBool | ADur => TDur end.
(* one entry per declared parameter: a group of k names has k parameters, an unnamed group one *)
Definition flat_params (ps : list pgroup) : list pty :=
  flat_map (fun g => repeat (pty_ g) (Nat.max 1 (List.length (pnames g)))) ps.
Definition is_ctx (t : pty) : bool := match t with TCtx => true | _ => false end.

Definition carg_ty (f : function) (a : carg) : option pty :=
  match a with
  | CCtx => Some TCtx
  | CArg i => match nth_error (f_args f) i with Some (_, t) => Some (pty_of t) | None => None end
  end.

Lemma argType_pty_of : forall t a, argType t = Some a -> pty_of a = t.
Proof. intros t a H. destruct t; simpl in H; inversion H; reflexivity. Qed.

Lemma map_repeat : forall {A B} (f : A -> B) x n, map f (repeat x n) = repeat (f x) n.
Proof. induction n; simpl; congruence. Qed.

Lemma map_const_repeat : forall {A B} (l : list A) (y : B), map (fun _ => y) l = repeat y (List.length l).
Proof. induction l as [|a l IH]; intros y; simpl; [reflexivity|]. now rewrite IH. Qed.

Lemma args_from_flat : forall ps i l, args_from true i ps = Some l ->
  map (fun x => pty_of (snd x)) l = flat_params ps.
Proof.
  induction ps as [|p r IH]; intros i l H; simpl in H.
  - inversion H; reflexivity.
  - destruct (argType (pty_ p)) as [t|] eqn:T; [|discriminate].
    destruct (args_from true (i + List.length (group_names true i p)) r) as [l'|] eqn:A; [|discriminate].
    inversion H; subst. rewrite map_app, map_map. simpl.
    rewrite (IH _ _ A). f_equal.
    rewrite (argType_pty_of _ _ T), map_const_repeat. f_equal.
    unfold group_names. destruct (pnames p); reflexivity.
Qed.

Lemma nth_error_seq_map : forall {A} (l : list A),
  map (fun i => nth_error l i) (seq 0 (List.length l)) = map Some l.
Proof.
  induction l as [|a l IH]; [reflexivity|].
  simpl. f_equal. rewrite <- seq_shift, map_map. simpl. exact IH.
Qed.

Lemma carg_ty_args : forall f,
  map (carg_ty f) (map CArg (seq 0 (List.length (f_args f)))) = map (fun x => Some (pty_of (snd x))) (f_args f).
Proof.
  intros f. rewrite map_map. simpl.
  transitivity (map (fun o : option (string * aty) => match o with Some (_, t) => Some (pty_of t) | None => None end)
                    (map (fun i => nth_error (f_args f) i) (seq 0 (List.length (f_args f))))).
  - now rewrite map_map.
  - rewrite nth_error_seq_map, map_map. apply map_ext. intros [n t]; reflexivity.
Qed.

(* the parameters of the declaration as the collected Function sees them *)
Lemma target_params : forall d f, funcType d = Some f ->
  flat_params (params d) = (if f_isctx f then [TCtx] else []) ++ map (fun x => pty_of (snd x)) (f_args f).
Proof.
  intros d f H. destruct (funcType_inv _ _ H) as (isctx & iserr & args & C & R & A & -> & _ & ->).
  apply args_from_flat in A. rewrite A. destruct isctx.
  - apply hasContextParam_true in C. destruct C as (c & rest & E & Hc & Hl). rewrite E. simpl.
    rewrite Hc. destruct (pnames c) as [|n [|n2 ns]]; simpl in *; try reflexivity. lia.
  - reflexivity.
Qed.

Definition call_matches_decl (c : call) (f : function) (d : fdecl) : Prop :=
  c_fn c = fname d /\
  c_recv c = match recv d with Some (tn, _) => Some tn | None => None end /\
  map (carg_ty f) (c_args c) = map Some (flat_params (params d)) /\
  map fst (c_parse c) = seq 0 (List.length (f_args f)) /\
  (forall i t, In (i, t) (c_parse c) -> exists n, nth_error (f_args f) i = Some (n, t)) /\
  (c_returns c = true <-> res d <> []).

Lemma combine_seq_in : forall {A} (l : list A) k i t, In (i, t) (combine (seq k (List.length l)) l) -> nth_error l (i - k) = Some t /\ k <= i.
Proof.
  induction l as [|a l IH]; intros k i t H; simpl in H; [destruct H|].
  destruct H as [H|H].
  - inversion H; subst. rewrite Nat.sub_diag. auto.
  - apply IH in H. destruct H as [H L]. split; [|lia].
    replace (i - k) with (S (i - S k)) by lia. exact H.
Qed.

Lemma map_fst_combine : forall {A B} (a : list A) (b : list B), List.length a = List.length b -> map fst (combine a b) = a.
Proof.
  induction a as [|x a IH]; intros [|y b] H; simpl in *; try reflexivity; try discriminate.
  f_equal. apply IH. lia.
Qed.

Theorem call_well_typed : forall pk d f, In (d, f) (targets pk) -> call_matches_decl (exec_call f) f d.
Proof.
  intros pk d f H. destruct (target_inv _ _ _ H) as (f0 & r & F & -> & Hr).
  unfold call_matches_decl, exec_call. simpl.
  split; [reflexivity|]. split.
  { destruct Hr as [[-> ->]|(ptr & -> & E)]; [reflexivity|].
    destruct r; [discriminate|reflexivity]. }
  split.
  { rewrite (target_params _ _ F), map_app, map_app.
    change (f_args f0) with (f_args (mkfn d r f0)). rewrite carg_ty_args. simpl.
    rewrite !map_map. destruct (f_isctx f0); reflexivity. }
  split.
  { apply map_fst_combine. now rewrite seq_length, map_length. }
  split.
  { intros i t Hi. pose proof (combine_seq_in (map snd (f_args f0)) 0 i t) as X.
    rewrite map_length in X. destruct (X Hi) as [N _]. rewrite Nat.sub_0_r in N.
    rewrite nth_error_map in N. destruct (nth_error (f_args f0) i) as [[n t']|]; [|discriminate].
    simpl in N. inversion N; subst. eauto. }
  destruct (funcType_inv _ _ F) as (isctx & iserr & args & _ & R & _ & _ & <- & _).
  apply hasErrorReturn_true_nonnil. exact R.
Qed.

(* ------------------------------------------------------------------ arity *)
Lemma filter_nonctx_pty_of : forall (l : list (string * aty)),
  filter (fun t => negb (is_ctx t)) (map (fun x => pty_of (snd x)) l) = map (fun x => pty_of (snd x)) l.
Proof.
  induction l as [|[n t] l IH]; [reflexivity|]. simpl. rewrite IH. destruct t; reflexivity.
Qed.

Theorem arity : forall pk d f, In (d, f) (targets pk) ->
  List.length (f_args f) = List.length (filter (fun t => negb (is_ctx t)) (flat_params (params d))).
Proof.
  intros pk d f H. destruct (target_inv _ _ _ H) as (f0 & r & F & -> & _). simpl.
  rewrite (target_params _ _ F), filter_app, filter_nonctx_pty_of, app_length, map_length.
  destruct (f_isctx f0); reflexivity.
Qed.

(* the code before c50893e: no Arg for an unnamed parameter *)
Definition unnamed_decl : fdecl :=
  {| fname := "Unnamed"; recv := None; tparams := false;
     params := [{| pnames := []; pty_ := TString |}; {| pnames := []; pty_ := TInt |}];
     res := []; fdoc := ""; fsyn := "" |}.
Theorem arity_before_repair_refuted : exists d f,
  funcType_ false d = Some f /\
  List.length (f_args f) <> List.length (filter (fun t => negb (is_ctx t)) (flat_params (params d))).
Proof. exists unnamed_decl. eexists. split; [vm_compute; reflexivity|vm_compute; discriminate]. Qed.

(* ------------------------------------------------------------------ help: argument names *)
Definition flat_names (ps : list pgroup) : list (option string) :=
  flat_map (fun g => match pnames g with [] => [None] | ns => map Some ns end) ps.
(* per parameter: its declared name, or arg<i> for the unnamed parameter at position i *)
Fixpoint arg_names_spec (i : nat) (l : list (option string)) : list string :=
  match l with
  | [] => []
  | Some n :: r => n :: arg_names_spec (S i) r
  | None :: r => ("arg" ++ dec i)%string :: arg_names_spec (S i) r
  end.
(* the parameters after the optional leading context *)
Definition nonctx_params (d : fdecl) : list pgroup :=
  match params d with
  | c :: rest => if is_ctx (pty_ c) then rest else params d
  | [] => []
  end.

Lemma arg_names_spec_named : forall ns i r,
  arg_names_spec i (map Some ns ++ r) = ns ++ arg_names_spec (i + List.length ns) r.
Proof.
  induction ns as [|n ns IH]; intros i r; simpl.
  - now rewrite Nat.add_0_r.
  - rewrite IH. now rewrite Nat.add_succ_r.
Qed.

Lemma args_from_names : forall ps i l, args_from true i ps = Some l ->
  map fst l = arg_names_spec i (flat_names ps).
Proof.
  induction ps as [|p r IH]; intros i l H; simpl in H.
  - inversion H; reflexivity.
  - destruct (argType (pty_ p)) as [t|]; [|discriminate].
    destruct (args_from true (i + List.length (group_names true i p)) r) as [l'|] eqn:A; [|discriminate].
    inversion H; subst. rewrite map_app, map_map. simpl. rewrite map_id.
    rewrite (IH _ _ A). unfold group_names. destruct (pnames p) as [|n ns] eqn:E.
    + simpl. now rewrite Nat.add_1_r.
    + change (Some n :: map Some ns) with (map Some (n :: ns)). now rewrite arg_names_spec_named.
Qed.

Lemma nonctx_params_skip : forall d isctx, hasContextParam (params d) = Some isctx ->
  skipn (if isctx then 1 else 0) (params d) = nonctx_params d.
Proof.
  intros d [|] C; unfold nonctx_params.
  - apply hasContextParam_true in C. destruct C as (c & rest & -> & Hc & _). simpl. now rewrite Hc.
  - apply hasContextParam_false in C. destruct C as [->|(c & rest & -> & Hc)]; [reflexivity|].
    simpl. destruct (pty_ c); try reflexivity. congruence.
Qed.

Theorem help_shows : forall pk d f al, In (d, f) (targets pk) ->
  h_args (help_of al f) = arg_names_spec 0 (flat_names (nonctx_params d)) /\
  h_comment (help_of al f) = toOneLine (fdoc d) /\
  h_key (help_of al f) = lower (targetName f).
Proof.
  intros pk d f al H. destruct (target_inv _ _ _ H) as (f0 & r & F & -> & _).
  split; [|split; reflexivity]. simpl.
  destruct (funcType_inv _ _ F) as (isctx & iserr & args & C & _ & A & _ & _ & ->).
  rewrite <- (nonctx_params_skip _ _ C). now apply args_from_names.
Qed.

Lemma same_fn_spec : forall a b, same_fn a b = true <-> f_name a = f_name b /\ f_recv a = f_recv b.
Proof.
  intros a b. unfold same_fn. rewrite andb_true_iff, !String.eqb_eq. tauto.
Qed.

Theorem help_aliases : forall al f a,
  In a (h_aliases (help_of al f)) <-> exists g, In (a, g) al /\ f_name f = f_name g /\ f_recv f = f_recv g.
Proof.
  intros al f a. simpl. rewrite in_map_iff. split.
  - intros ([a' g] & <- & H). apply filter_In in H. destruct H as [H S]. apply same_fn_spec in S. eauto.
  - intros (g & H & S). exists (a, g). split; [reflexivity|]. apply filter_In. split; [assumption|].
    now apply same_fn_spec.
Qed.

Lemma alias_entries_spec : forall kvs fs a g,
  In (a, g) (alias_entries kvs fs) <-> exists e, In (a, e) kvs /\ getFunction e fs = Some g.
Proof.
  intros kvs fs a g. unfold alias_entries. rewrite in_flat_map. split.
  - intros ([a' e] & H & X). simpl in X. destruct (getFunction e fs) as [g'|] eqn:G; [|destruct X].
    destruct X as [X|[]]. inversion X; subst. eauto.
  - intros (e & H & G). exists (a, e). split; [assumption|]. simpl. rewrite G. now left.
Qed.

Theorem listed_runnable : forall f, lower (lowerFirst (targetName f)) = dispatch_key f.
Proof. intros f. exact (lowerFirst_lower (targetName f)). Qed.

Theorem help_aliases_declared : forall kvs fs f a,
  In a (h_aliases (help_of (alias_entries kvs fs) f)) <->
  exists e g, In (a, e) kvs /\ getFunction e fs = Some g /\ f_name f = f_name g /\ f_recv f = f_recv g.
Proof.
  intros kvs fs f a. rewrite help_aliases. split.
  - intros (g & H & S). apply alias_entries_spec in H. destruct H as (e & H & G). eauto 10.
  - intros (e & g & H & G & S). exists g. split; [apply alias_entries_spec; eauto|exact S].
Qed.

(* ------------------------------------------------------------------ getFunction *)
Lemma getFunction_sound : forall e fs f, getFunction e fs = Some f ->
  In f fs /\ match e with
             | FIdent n => f_name f = n /\ f_recv f = ""
             | FSel x n => f_name f = n /\ f_recv f = x
             | FOther => False
             end.
Proof.
  intros e fs f H. destruct e as [n|x n|]; simpl in H; [| |discriminate];
    apply find_some in H; destruct H as [I H]; apply andb_prop in H; destruct H as [A B];
    apply String.eqb_eq in A; apply String.eqb_eq in B; auto.
Qed.

Lemma find_first : forall {A} (p : A -> bool) l x, In x l -> p x = true -> exists y, find p l = Some y.
Proof.
  induction l as [|a l IH]; intros x H P; simpl in *; [destruct H|].
  destruct H as [->|H].
  - rewrite P. eauto.
  - destruct (p a); eauto.
Qed.

Lemma getFunction_complete : forall fs f,
  In f fs ->
  (f_recv f = "" -> exists g, getFunction (FIdent (f_name f)) fs = Some g) /\
  (exists g, getFunction (FSel (f_recv f) (f_name f)) fs = Some g).
Proof.
  intros fs f H. split.
  - intros R. simpl. eapply find_first; [exact H|]. now rewrite R, !String.eqb_refl.
  - simpl. eapply find_first; [exact H|]. now rewrite !String.eqb_refl.
Qed.

(* ------------------------------------------------------------------ Default *)
Lemma index_of_skip : forall n l1 l2 i, ~ In n l1 -> index_of n (l1 ++ l2) i = index_of n l2 (i + List.length l1).
Proof.
  intros n. induction l1 as [|x l1 IH]; intros l2 i H; simpl.
  - now rewrite Nat.add_0_r.
  - destruct (String.eqb x n) eqn:E; [apply String.eqb_eq in E; subst; exfalso; apply H; now left|].
    rewrite IH; [now rewrite Nat.add_succ_r|]. intros X. apply H. now right.
Qed.

Lemma index_of_notin : forall n l i, ~ In n l -> index_of n l i = None.
Proof.
  intros n. induction l as [|x l IH]; intros i H; simpl; [reflexivity|].
  destruct (String.eqb x n) eqn:E; [apply String.eqb_eq in E; subst; exfalso; apply H; now left|].
  apply IH. intros X. apply H. now right.
Qed.

Lemma index_of_found : forall n l1 l2, ~ In n l1 -> index_of n (l1 ++ n :: l2) 0 = Some (List.length l1).
Proof.
  intros n l1 l2 H. rewrite index_of_skip by exact H. simpl. now rewrite String.eqb_refl.
Qed.

(* Go's own pairing of names and values inside one spec: value i belongs to name i, provided the
   spec has one value per name *)
Definition own_value (spec : vspec) (i : nat) : option vexpr :=
  if Nat.eqb (List.length (vvalues spec)) (List.length (vnames spec)) then nth_error (vvalues spec) i else None.

Definition dflt_of (o : option vexpr) (fs : list function) : dres :=
  match o with
  | Some (VRef e) => match getFunction e fs with Some f => DSome f | None => DNone end
  | _ => DNone
  end.

(* what go/doc's export filter does to names keeps "Default" where it is and invents no "Default" *)
Definition uscore (n : string) : string := if exported n then n else "_".

Lemma uscore_default : forall n, uscore n = "Default" <-> n = "Default".
Proof.
  intros n. unfold uscore. split.
  - destruct (exported n); [auto|discriminate].
  - intros ->. reflexivity.
Qed.

Lemma notin_map_uscore : forall l, ~ In "Default" l -> ~ In "Default" (map uscore l).
Proof.
  intros l H X. apply in_map_iff in X. destruct X as (n & E & I). apply (proj1 (uscore_default n)) in E. apply H. rewrite <- E. exact I.
Qed.

Lemma notin_filter_exported : forall l, ~ In "Default" l -> ~ In "Default" (filter exported l).
Proof. intros l H X. apply filter_In in X. destruct X; contradiction. Qed.

Lemma filter_spec_notin : forall s s', ~ In "Default" (vnames s) -> filter_spec s = Some s' -> ~ In "Default" (vnames s').
Proof.
  intros s s' H F. unfold filter_spec in F.
  destruct (negb (Nat.eqb (List.length (vvalues s)) 0) || (negb (vtyped s) && Nat.eqb (List.length (vvalues s)) 0)).
  - destruct (existsb exported (vnames s)); [|discriminate]. inversion F; subst. simpl.
    now apply notin_map_uscore.
  - destruct (Nat.eqb (List.length (filter exported (vnames s))) 0); [discriminate|]. inversion F; subst. simpl.
    now apply notin_filter_exported.
Qed.

Lemma filter_specs_notin : forall v, (forall s, In s v -> ~ In "Default" (vnames s)) ->
  forall s', In s' (filter_specs v) -> ~ In "Default" (vnames s').
Proof.
  intros v H s' I. unfold filter_specs in I. apply in_flat_map in I. destruct I as (s & Is & X).
  destruct (filter_spec s) as [s0|] eqn:F; [|destruct X]. destruct X as [<-|[]].
  eapply filter_spec_notin; eauto.
Qed.

Lemma declaredValue_notin : forall v, (forall s, In s v -> ~ In "Default" (vnames s)) -> declaredValue v "Default" = DVNotFound.
Proof.
  induction v as [|s v IH]; intros H; simpl; [reflexivity|].
  rewrite (index_of_notin _ _ 0 (H s (or_introl eq_refl))). apply IH. intros s' I. apply H. now right.
Qed.

Lemma declaredValue_app : forall v1 v2, (forall s, In s v1 -> ~ In "Default" (vnames s)) ->
  declaredValue (v1 ++ v2) "Default" = declaredValue v2 "Default".
Proof.
  induction v1 as [|s v1 IH]; intros v2 H; simpl; [reflexivity|].
  rewrite (index_of_notin _ _ 0 (H s (or_introl eq_refl))). apply IH. intros s' I. apply H. now right.
Qed.

Lemma value_names_notin : forall v, ~ In "Default" (value_names v) -> forall s, In s v -> ~ In "Default" (vnames s).
Proof.
  intros v H s I X. apply H. unfold value_names. apply in_flat_map. eauto.
Qed.

Lemma setDefault_new_app : forall A B fs,
  (forall v, In v A -> forall s, In s v -> ~ In "Default" (vnames s)) ->
  setDefault_new (A ++ B) fs = setDefault_new B fs.
Proof.
  induction A as [|v A IH]; intros B fs H; simpl; [reflexivity|].
  rewrite (declaredValue_notin v (H v (or_introl eq_refl))). apply IH. intros v' I. apply H. now right.
Qed.

(* the spec that declares Default after go/doc's filter: same place, same own value *)
Lemma filter_spec_default : forall spec n1 n2, vnames spec = n1 ++ "Default" :: n2 -> ~ In "Default" n1 ->
  exists spec' m1 m2, filter_spec spec = Some spec' /\ vnames spec' = m1 ++ "Default" :: m2 /\ ~ In "Default" m1 /\
    match index_of "Default" (vnames spec') 0 with
    | Some i => if negb (Nat.eqb (List.length (vvalues spec')) (List.length (vnames spec'))) then None
                else nth_error (vvalues spec') i
    | None => None
    end = own_value spec (List.length n1).
Proof.
  intros spec n1 n2 E N. unfold filter_spec, own_value.
  assert (X : existsb exported (vnames spec) = true).
  { apply existsb_exists. exists "Default". split; [rewrite E; apply in_or_app; right; now left|reflexivity]. }
  destruct (negb (Nat.eqb (List.length (vvalues spec)) 0) || (negb (vtyped spec) && Nat.eqb (List.length (vvalues spec)) 0)) eqn:C.
  - rewrite X. eexists. exists (map uscore n1), (map uscore n2). split; [reflexivity|]. simpl.
    fold uscore. rewrite E, map_app. simpl. split; [reflexivity|]. split; [now apply notin_map_uscore|].
    rewrite index_of_found by (now apply notin_map_uscore).
    rewrite !app_length, !map_length. simpl. rewrite !map_length.
    destruct (Nat.eqb (List.length (vvalues spec)) (List.length n1 + S (List.length n2))); reflexivity.
  - apply orb_false_elim in C. destruct C as [C1 C2]. apply negb_false_iff in C1. apply Nat.eqb_eq in C1.
    assert (F : filter exported (vnames spec) = filter exported n1 ++ "Default" :: filter exported n2)
      by (rewrite E, filter_app; reflexivity).
    rewrite F. destruct (Nat.eqb (List.length (filter exported n1 ++ "Default" :: filter exported n2)) 0) eqn:Z.
    { apply Nat.eqb_eq in Z. rewrite app_length in Z. simpl in Z. lia. }
    eexists. exists (filter exported n1), (filter exported n2). split; [reflexivity|]. simpl.
    split; [reflexivity|]. split; [now apply notin_filter_exported|].
    rewrite index_of_found by (now apply notin_filter_exported).
    rewrite C1, E, !app_length. simpl.
    destruct (List.length (filter exported n1) + S (List.length (filter exported n2))) eqn:L1; [lia|].
    destruct (List.length n1 + S (List.length n2)) eqn:L2; [lia|]. reflexivity.
Qed.

(* the unrestricted statement: wherever Default is first declared - any declaration, any spec of it,
   any position among the names of that spec - the default target is the function named by the
   value at Default's position in that spec, iff that is a target *)
Theorem setDefault_declared : forall pk pre s1 spec s2 post n1 n2,
  vars pk = pre ++ (s1 ++ spec :: s2) :: post ->
  (forall v, In v pre -> ~ In "Default" (value_names v)) ->
  (forall s, In s s1 -> ~ In "Default" (vnames s)) ->
  vnames spec = n1 ++ "Default" :: n2 -> ~ In "Default" n1 ->
  setDefault pk = dflt_of (own_value spec (List.length n1)) (funcs pk).
Proof.
  intros pk pre s1 spec s2 post n1 n2 EV Hpre Hs1 En Hn1.
  unfold setDefault, setDefault_, setDefault_in, doc_vars. rewrite EV, map_app, filter_app. simpl.
  rewrite setDefault_new_app.
  2:{ intros v I. apply filter_In in I. destruct I as [I _]. apply in_map_iff in I. destruct I as (v0 & <- & I0).
      apply filter_specs_notin. apply value_names_notin. now apply Hpre. }
  destruct (filter_spec_default spec n1 n2 En Hn1) as (spec' & m1 & m2 & F & En' & Hm1 & OV).
  assert (FS : filter_specs (s1 ++ spec :: s2) = filter_specs s1 ++ spec' :: filter_specs s2).
  { unfold filter_specs. rewrite flat_map_app. simpl. now rewrite F. }
  rewrite FS.
  destruct (Nat.eqb (List.length (filter_specs s1 ++ spec' :: filter_specs s2)) 0) eqn:Z.
  { apply Nat.eqb_eq in Z. rewrite app_length in Z. simpl in Z. lia. }
  simpl. rewrite declaredValue_app by (apply filter_specs_notin; exact Hs1).
  simpl. rewrite <- OV.
  destruct (index_of "Default" (vnames spec') 0) as [i|] eqn:I.
  - destruct (negb (Nat.eqb (List.length (vvalues spec')) (List.length (vnames spec')))); [reflexivity|].
    destruct (nth_error (vvalues spec') i) as [[e|kvs]|]; reflexivity.
  - exfalso. rewrite En', index_of_found in I by exact Hm1. discriminate.
Qed.

(* exactly the entries of the default target's (name, receiver) carry the mark *)
Theorem default_marked : forall def f,
  (fst (list_entry def f) = (lowerFirst (targetName f) ++ "*")%string <-> f_name f = f_name def /\ f_recv f = f_recv def) /\
  (fst (list_entry def f) = lowerFirst (targetName f) <-> ~ (f_name f = f_name def /\ f_recv f = f_recv def)).
Proof.
  intros def f. unfold list_entry. simpl. rewrite <- same_fn_spec.
  destruct (same_fn f def); split; split; intros H; try reflexivity; try discriminate.
  - exfalso. now apply (app_star_neq (lowerFirst (targetName f))).
  - exfalso. now apply H.
  - exfalso. rewrite app_empty_r in H. symmetry in H. now apply (app_star_neq (lowerFirst (targetName f))).
  - now rewrite app_empty_r.
Qed.

(* the defect repaired by 3720af9: v.Decl.Specs was indexed with an index into v.Names *)
Definition fn0 (n : string) : fdecl :=
  {| fname := n; recv := None; tparams := false; params := []; res := []; fdoc := ""; fsyn := "" |}.
Definition spec1 (n : string) (e : fref) : vspec := {| vnames := [n]; vtyped := false; vvalues := [VRef e] |}.
Definition pk_wrong_default : pkg :=
  {| decls := [fn0 "Build"; fn0 "Other"]; types := [];
     vars := [[ {| vnames := ["A"; "B"]; vtyped := false; vvalues := [VRef FOther; VRef FOther] |};
                spec1 "Default" (FIdent "Build"); spec1 "Q" (FIdent "Other") ]];
     pkgdoc := "" |}.
Theorem default_wrong_spec_before_repair_refuted :
  exists pk v f, In v (vars pk) /\ In (spec1 "Default" (FIdent "Build")) v /\
                 setDefault_ false pk = DSome f /\ f_name f = "Other" /\
                 exists g, setDefault pk = DSome g /\ f_name g = "Build".
Proof.
  exists pk_wrong_default. eexists. eexists. split; [left; reflexivity|].
  split; [right; left; reflexivity|]. split; [vm_compute; reflexivity|]. split; [vm_compute; reflexivity|].
  eexists. split; vm_compute; reflexivity.
Qed.

Definition pk_panic_default : pkg :=
  {| decls := [fn0 "Build"; fn0 "Other"]; types := [];
     vars := [[ {| vnames := ["X"; "Default"]; vtyped := false; vvalues := [VRef (FIdent "Other"); VRef (FIdent "Build")] |} ]];
     pkgdoc := "" |}.
Theorem default_panic_before_repair_refuted :
  exists pk, setDefault_ false pk = DPanic /\ exists g, setDefault pk = DSome g /\ f_name g = "Build".
Proof. exists pk_panic_default. split; [vm_compute; reflexivity|]. eexists. split; vm_compute; reflexivity. Qed.

(* the repaired setDefault never panics *)
Theorem setDefault_no_panic : forall vs fs, setDefault_new vs fs <> DPanic.
Proof.
  induction vs as [|v r IH]; intros fs; simpl; [discriminate|].
  destruct (declaredValue v "Default") as [| |[e|kvs]]; try discriminate; [apply IH|].
  destruct (getFunction e fs); discriminate.
Qed.

(* before f02d247 a method of a generic namespace type was collected: (&NS{}).Build() cannot be compiled *)
Definition pk_generic_ns : pkg :=
  {| decls := [ {| fname := "Build"; recv := Some ("NS", false); tparams := false; params := []; res := []; fdoc := ""; fsyn := "" |} ];
     types := [ {| tname := "NS"; is_namespace := true; tgeneric := true |} ]; vars := []; pkgdoc := "" |}.
Theorem generic_namespace_before_repair_refuted :
  exists pk d f t, In (d, f) (targets_ false pk) /\ In t (types pk) /\ tgeneric t = true /\
                   c_recv (exec_call f) = Some (tname t) /\ targets pk = [].
Proof.
  exists pk_generic_ns. eexists. eexists. eexists. split; [left; reflexivity|]. split; [left; reflexivity|].
  repeat split.
Qed.

(* ------------------------------------------------------------------ a concrete package *)
Definition g (ns : list string) (t : pty) : pgroup := {| pnames := ns; pty_ := t |}.
Definition example_pk : pkg :=
  {| decls :=
       [ {| fname := "BuildAll"; recv := None; tparams := false;
            params := [g ["ctx"] TCtx; g ["a"; "b"] TString; g [] TInt]; res := [{| rnames := 1; rkind_ := RKError |}];
            fdoc := "BuildAll builds it all.
Second line."; fsyn := "BuildAll builds it all." |};
         {| fname := "Ptr"; recv := Some ("NS", true); tparams := false; params := [g ["_"] TDur]; res := [];
            fdoc := ""; fsyn := "" |};
         {| fname := "Late"; recv := None; tparams := false; params := [g ["a"] TString; g ["c"] TCtx]; res := [];
            fdoc := ""; fsyn := "" |};
         {| fname := "Two"; recv := None; tparams := false; params := []; res := [{| rnames := 2; rkind_ := RKError |}];
            fdoc := ""; fsyn := "" |};
         {| fname := "Gen"; recv := None; tparams := true; params := []; res := []; fdoc := ""; fsyn := "" |};
         {| fname := "M"; recv := Some ("Other", false); tparams := false; params := []; res := []; fdoc := ""; fsyn := "" |};
         {| fname := "hidden"; recv := None; tparams := false; params := []; res := []; fdoc := ""; fsyn := "" |} ];
     types := [ {| tname := "NS"; is_namespace := true; tgeneric := false |}; {| tname := "Other"; is_namespace := false; tgeneric := false |} ];
     vars := [[spec1 "Default" (FSel "NS" "Ptr")]];
     pkgdoc := "" |}.

Lemma nonvacuous :
  listing example_pk = [("ns:ptr*", ""); ("buildAll", "builds it all.")] /\
  map (fun p => (c_recv (exec_call (snd p)), c_fn (exec_call (snd p)), c_args (exec_call (snd p)), map fst (f_args (snd p))))
      (targets example_pk)
    = [ (Some "NS", "Ptr", [CArg 0], ["_"]);
        (None, "BuildAll", [CCtx; CArg 0; CArg 1; CArg 2], ["a"; "b"; "arg2"]) ] /\
  List.length (decls example_pk) = 7.
Proof. vm_compute. repeat split. Qed.
