(* Lemmas about Model/Constraints.v (property C10). *)
From Mage Require Import Base.Strs Model.Constraints.
From Coq Require Import Permutation Btauto.

(* ------------------------------------------------------------------ tags *)
Definition platform_tag (os arch t : string) : bool :=
  String.eqb t os || String.eqb t arch
  || (String.eqb os "android" && String.eqb t "linux")
  || (String.eqb os "illumos" && String.eqb t "solaris")
  || (String.eqb os "ios" && String.eqb t "darwin")
  || (String.eqb t "unix" && mem os unixOS).

Lemma if_true_orb : forall a b : bool, (if a then true else b) = a || b.
Proof. destruct a; reflexivity. Qed.

Lemma matchTag_gen : forall c t,
  matchTag c t
  = ((b_cgo c && String.eqb t "cgo") || String.eqb t (b_compiler c)
     || mem (tag_alias t) (b_tooltags c) || mem (tag_alias t) (b_releasetags c))
    || platform_tag (b_goos c) (b_goarch c) t || mem (tag_alias t) (b_buildtags c).
Proof.
  intros [os arch cgo comp bt tt rt] t.
  unfold matchTag, platform_tag, tag_alias; cbn [b_goos b_goarch b_cgo b_compiler b_buildtags b_tooltags b_releasetags].
  rewrite !if_true_orb.
  generalize (mem (if String.eqb t "boringcrypto" then "goexperiment.boringcrypto" else t) tt).
  generalize (mem (if String.eqb t "boringcrypto" then "goexperiment.boringcrypto" else t) rt).
  generalize (mem (if String.eqb t "boringcrypto" then "goexperiment.boringcrypto" else t) bt).
  generalize (String.eqb t os) (String.eqb t arch) (String.eqb t comp)
             (cgo && String.eqb t "cgo")
             (String.eqb os "android" && String.eqb t "linux") (String.eqb os "illumos" && String.eqb t "solaris")
             (String.eqb os "ios" && String.eqb t "darwin") (String.eqb t "unix" && mem os unixOS).
  intros b1 b2 b3 b4 b5 b6 b7 b8 b9 b10 b11.
  destruct b1, b2, b3, b4, b5, b6; simpl; try reflexivity; destruct b7, b8, b9, b10, b11; reflexivity.
Qed.

(* the truth of a tag = a start-up part + a platform part + the tag list *)
Lemma matchTag_decompose : forall su os arch tag t,
  matchTag (ctx_for su os arch tag) t
  = startup_tag su t || platform_tag os arch t || mem (tag_alias t) [tag].
Proof. intros. rewrite matchTag_gen. reflexivity. Qed.

Lemma mem_In : forall x l, mem x l = true <-> In x l.
Proof.
  induction l; simpl; split; intros H; try discriminate; try contradiction.
  - apply orb_prop in H as [H|H]; [left; symmetry; now apply String.eqb_eq | right; now apply IHl].
  - destruct H as [->|H]; [now rewrite String.eqb_refl | rewrite (proj2 IHl H); now rewrite orb_true_r].
Qed.

Lemma eval_ext : forall v w e, (forall t, mentions t e = true -> v t = w t) -> eval v e = eval w e.
Proof.
  induction e; simpl; intros H.
  - apply H, String.eqb_refl.
  - f_equal; auto.
  - rewrite IHe1, IHe2; auto; intros t Ht; apply H; rewrite Ht; auto using orb_true_r.
  - rewrite IHe1, IHe2; auto; intros t Ht; apply H; rewrite Ht; auto using orb_true_r.
Qed.

Definition known_name (a : string) : bool := mem a knownOS || mem a knownArch.

Lemma goodOSArchFile_ext : forall c c' n,
  (forall a, known_name a = true -> matchTag c a = matchTag c' a) ->
  goodOSArchFile c n = goodOSArchFile c' n.
Proof.
  intros c c' n H. unfold goodOSArchFile.
  destruct (from_first c_us (before c_dot n)) as [m|]; [|reflexivity].
  match goal with |- match rev ?l with _ => _ end = _ => destruct (rev l) as [|a [|o r]] end.
  - reflexivity.
  - fold (known_name a). destruct (known_name a) eqn:E; [now apply H | reflexivity].
  - fold (known_name a). destruct (mem o knownOS && mem a knownArch) eqn:E1.
    + apply andb_prop in E1 as [Eo Ea].
      rewrite (H a), (H o); auto; unfold known_name; [now rewrite Eo | now rewrite Ea, orb_true_r].
    + destruct (known_name a) eqn:E; [now apply H | reflexivity].
Qed.

(* the names the file-name rule can consult are none of the tags mage, "", cgo, boringcrypto *)
Lemma known_check :
  forallb (fun a => String.eqb (tag_alias a) a && negb (String.eqb a "mage") && negb (String.eqb a "")
                    && negb (String.eqb a "cgo")) (knownOS ++ knownArch) = true.
Proof. reflexivity. Qed.

Lemma known_name_facts : forall a, known_name a = true ->
  tag_alias a = a /\ a <> "mage" /\ a <> "" /\ a <> "cgo".
Proof.
  intros a H. assert (In a (knownOS ++ knownArch)) as Hin.
  { apply in_or_app. unfold known_name in H. apply orb_prop in H as [H|H]; [left|right]; now apply mem_In. }
  pose proof (proj1 (forallb_forall _ _) known_check a Hin) as K.
  apply andb_prop in K as [K K4]. apply andb_prop in K as [K K3]. apply andb_prop in K as [K1 K2].
  apply String.eqb_eq in K1. apply negb_true_iff, String.eqb_neq in K2, K3, K4. auto.
Qed.

Lemma alias_not : forall t x, t <> x -> x <> "goexperiment.boringcrypto" -> String.eqb (tag_alias t) x = false.
Proof.
  intros t x H1 H2. unfold tag_alias. destruct (String.eqb t "boringcrypto").
  - apply String.eqb_neq. congruence.
  - now apply String.eqb_neq.
Qed.

(* ------------------------------------------------------------------ the directory scan *)
Definition in_gofiles (c : bctx) (f : file) : bool :=
  negb (hidden (f_name f)) && is_go (f_name f) && goodOSArchFile c (f_name f) && shouldBuild c (f_header f)
  && negb (String.eqb (f_pkg f) "documentation") && negb (is_test (f_name f)).

Lemma in_gofiles_spec : forall c f, in_gofiles c f = candidate f && satisfied c f.
Proof.
  intros. unfold in_gofiles, candidate, satisfied.
  destruct (hidden _), (is_go _), (goodOSArchFile _ _), (shouldBuild _ _), (String.eqb _ _), (is_test _); reflexivity.
Qed.

Lemma gof_bad : forall e s, s_gofiles (badGoFile e s) = s_gofiles s.
Proof. intros. unfold badGoFile. destruct (s_err s); reflexivity. Qed.

Lemma scan_file_gofiles : forall c s f,
  s_gofiles (scan_file c s f) = s_gofiles s ++ (if in_gofiles c f then [f_name f] else []).
Proof.
  intros. unfold scan_file, in_gofiles.
  destruct (hidden _); simpl; [now rewrite app_nil_r|].
  destruct (is_go _); simpl; [|now rewrite app_nil_r].
  destruct (goodOSArchFile _ _); simpl; [|now rewrite app_nil_r].
  assert (forall h, h <> HBad ->
    s_gofiles (if negb (shouldBuild c h) then s else
       let s0 := if f_parse_ok f then s else badGoFile EOther s in
       if String.eqb (f_pkg f) "documentation" then s0 else
       let isTest := is_test (f_name f) in
       let isXTest := isTest && has_suffix "_test" (f_pkg f) && negb (String.eqb (s_pname s0) (f_pkg f)) in
       let pkg := if isXTest then substring 0 (String.length (f_pkg f) - 5) (f_pkg f) else f_pkg f in
       let s1 := if String.eqb (s_pname s0) "" then set_pname pkg s0
                 else if negb (String.eqb pkg (s_pname s0)) then badGoFile EMulti s0 else s0 in
       if isTest then s1 else add_gofile (f_name f) s1)
    = s_gofiles s ++ (if shouldBuild c h && negb (String.eqb (f_pkg f) "documentation") && negb (is_test (f_name f))
                      then [f_name f] else [])) as G.
  { intros h _. destruct (shouldBuild c h); simpl; [|now rewrite app_nil_r].
    assert (s_gofiles (if f_parse_ok f then s else badGoFile EOther s) = s_gofiles s) as E0
      by (destruct (f_parse_ok f); [reflexivity | apply gof_bad]).
    destruct (String.eqb (f_pkg f) "documentation"); simpl; [now rewrite E0, app_nil_r|].
    set (s0 := if f_parse_ok f then s else badGoFile EOther s) in *.
    match goal with |- context [if String.eqb (s_pname s0) "" then set_pname ?p s0 else _] => set (pkg := p) end.
    assert (s_gofiles (if String.eqb (s_pname s0) "" then set_pname pkg s0
                       else if negb (String.eqb pkg (s_pname s0)) then badGoFile EMulti s0 else s0) = s_gofiles s) as E1.
    { destruct (String.eqb (s_pname s0) ""); [exact E0|].
      destruct (negb (String.eqb pkg (s_pname s0))); [rewrite gof_bad; exact E0 | exact E0]. }
    destruct (is_test (f_name f)); simpl; [now rewrite E1, app_nil_r | now rewrite E1]. }
  destruct (f_header f) eqn:Hh.
  - apply (G HNone); discriminate.
  - apply (G (HBuild e)); discriminate.
  - simpl. now rewrite gof_bad, app_nil_r.
Qed.

Lemma scan_gofiles : forall c files s,
  s_gofiles (fold_left (scan_file c) files s) = s_gofiles s ++ map f_name (filter (in_gofiles c) files).
Proof.
  induction files as [|f files IH]; intros s; simpl; [now rewrite app_nil_r|].
  rewrite IH, scan_file_gofiles. destruct (in_gofiles c f); simpl.
  - now rewrite <- app_assoc.
  - now rewrite app_nil_r.
Qed.

Lemma import_gofiles_some : forall c files r,
  import_gofiles c files = Some r -> r = map f_name (filter (in_gofiles c) files).
Proof.
  intros c files r. unfold import_gofiles.
  pose proof (scan_gofiles c files scan_init) as G. simpl in G.
  destruct (s_err _) as [[|]|]; intros H; try discriminate; injection H as <-; exact G.
Qed.

(* errors: only a file with an unparsable header or a syntax error makes the listing fail *)
Lemma scan_file_noerr : forall c s f, file_ok f -> s_err s <> Some EOther -> s_err (scan_file c s f) <> Some EOther.
Proof.
  intros c s f [Hh Hp] Hs. unfold scan_file. rewrite Hp.
  assert (forall s, s_err s <> Some EOther -> s_err (badGoFile EMulti s) <> Some EOther) as B.
  { intros s0 H0. unfold badGoFile. destruct (s_err s0) eqn:E; simpl; [now rewrite E | discriminate]. }
  destruct (hidden _); [exact Hs|]. destruct (negb (is_go _)); [exact Hs|].
  destruct (negb (goodOSArchFile _ _)); [exact Hs|].
  destruct (f_header f) eqn:E; [| |congruence];
  (destruct (negb (shouldBuild _ _)); [exact Hs|]; destruct (String.eqb (f_pkg f) "documentation"); [exact Hs|];
   match goal with |- context [if String.eqb (s_pname s) "" then set_pname ?p s else _] => generalize p; intros pkg end;
   destruct (is_test _); destruct (String.eqb (s_pname s) ""); simpl; try exact Hs;
   destruct (negb (String.eqb pkg (s_pname s))); simpl; auto).
Qed.

Lemma import_gofiles_total : forall c files, (forall f, In f files -> file_ok f) -> import_gofiles c files <> None.
Proof.
  intros c files H. unfold import_gofiles.
  assert (forall l s, (forall f, In f l -> file_ok f) -> s_err s <> Some EOther ->
                      s_err (fold_left (scan_file c) l s) <> Some EOther) as F.
  { induction l as [|f l IH]; intros s Hl Hs; simpl; [exact Hs|].
    apply IH; [intros; apply Hl; now right | apply scan_file_noerr; [apply Hl; now left | exact Hs]]. }
  specialize (F files scan_init H). simpl in F.
  destruct (s_err (fold_left (scan_file c) files scan_init)) as [[|]|]; try discriminate.
  exfalso; apply F; [discriminate | reflexivity].
Qed.

Lemma scan_file_ext : forall c c' s f,
  goodOSArchFile c (f_name f) = goodOSArchFile c' (f_name f) ->
  shouldBuild c (f_header f) = shouldBuild c' (f_header f) ->
  scan_file c s f = scan_file c' s f.
Proof.
  intros c c' s f H1 H2. unfold scan_file. rewrite H1.
  destruct (f_header f); simpl in *; try rewrite H2; reflexivity.
Qed.

Lemma fold_left_ext_in : forall {A B} (F G : A -> B -> A) l s,
  (forall s x, In x l -> F s x = G s x) -> fold_left F l s = fold_left G l s.
Proof.
  induction l as [|x l IH]; intros s H; simpl; [reflexivity|].
  rewrite H by now left. apply IH. intros; apply H; now right.
Qed.

Lemma import_gofiles_ext : forall c c' files,
  (forall f, In f files -> goodOSArchFile c (f_name f) = goodOSArchFile c' (f_name f)
                          /\ shouldBuild c (f_header f) = shouldBuild c' (f_header f)) ->
  import_gofiles c files = import_gofiles c' files.
Proof.
  intros c c' files H. unfold import_gofiles.
  rewrite (fold_left_ext_in (scan_file c) (scan_file c')); [reflexivity|].
  intros s f Hf. destruct (H f Hf). now apply scan_file_ext.
Qed.

(* ------------------------------------------------------------------ the environment *)
Fixpoint no_eq (k : string) : bool :=
  match k with EmptyString => true | String a r => negb (Ascii.eqb a c_eq) && no_eq r end.

Lemma split_eq_key : forall s k v, split_eq s = Some (k, v) -> no_eq k = true.
Proof.
  induction s as [|a s IH]; simpl; intros k v H; [discriminate|].
  destruct (Ascii.eqb a c_eq) eqn:E.
  - injection H as <- <-. reflexivity.
  - destruct (split_eq s) as [[k' v']|]; [|discriminate]. injection H as <- <-.
    simpl. rewrite E. simpl. eapply IH; reflexivity.
Qed.

Lemma split_eq_join : forall k v, no_eq k = true -> split_eq (k ++ String c_eq v)%string = Some (k, v).
Proof.
  induction k as [|a k IH]; simpl; intros v H; [reflexivity|].
  apply andb_prop in H as [Ha Hk]. apply negb_true_iff in Ha. rewrite Ha, (IH v Hk). reflexivity.
Qed.

Definition keys_ok (m : emap) : Prop := Forall (fun kv => no_eq (fst kv) = true) m /\ NoDup (map fst m).
Definition setkv (acc : emap) (kv : string * string) : emap := mset (fst kv) (snd kv) acc.

Lemma mget_mset_same : forall k v m, mget k (mset k v m) = Some v.
Proof. intros. unfold mset. simpl. now rewrite String.eqb_refl. Qed.

Lemma mget_mset_other : forall k k' v m, k <> k' -> mget k (mset k' v m) = mget k m.
Proof.
  intros k k' v m H. unfold mset. simpl. apply String.eqb_neq in H. rewrite H.
  induction m as [|[k2 v2] m IH]; simpl; [reflexivity|].
  destruct (String.eqb k' k2) eqn:E; simpl.
  - apply String.eqb_eq in E. subst k2. now rewrite H.
  - now rewrite IH.
Qed.

Lemma mset_keys_ok : forall k v m, no_eq k = true -> keys_ok m -> keys_ok (mset k v m).
Proof.
  intros k v m Hk [F N]. split; unfold mset; simpl.
  - constructor; [exact Hk|]. apply Forall_forall. intros x Hx. apply filter_In in Hx as [Hx _].
    exact (proj1 (Forall_forall _ _) F x Hx).
  - constructor.
    + intros Hin. apply in_map_iff in Hin as [[k2 v2] [E Hx]]. simpl in E. subst k2.
      apply filter_In in Hx as [_ Hx]. simpl in Hx. now rewrite String.eqb_refl in Hx.
    + clear F. induction m as [|[k2 v2] m IH]; simpl; [constructor|].
      inversion N; subst. destruct (negb (String.eqb k k2)); simpl; [|now apply IH].
      constructor; [|now apply IH]. intros Hin. apply H1.
      apply in_map_iff in Hin as [x [E Hx]]. apply filter_In in Hx as [Hx _]. apply in_map_iff. now exists x.
Qed.

Lemma splitEnv_from_ok : forall env acc r, splitEnv_from acc env = Some r -> keys_ok acc -> keys_ok r.
Proof.
  induction env as [|s env IH]; simpl; intros acc r H K; [now injection H as <-|].
  destruct (split_eq s) as [[k v]|] eqn:E; [|discriminate].
  eapply IH; [exact H|]. apply mset_keys_ok; [eapply split_eq_key; exact E | exact K].
Qed.

Lemma splitEnv_from_total : forall env acc, env_ok env -> splitEnv_from acc env <> None.
Proof.
  induction env as [|s env IH]; simpl; intros acc H; [discriminate|].
  destruct (split_eq s) as [[k v]|] eqn:E.
  - apply IH. intros x Hx. apply H. now right.
  - exfalso. apply (H s); [now left | exact E].
Qed.

Lemma splitEnv_from_none : forall env acc, splitEnv_from acc env = None -> ~ env_ok env.
Proof. intros env acc H K. exact (splitEnv_from_total env acc K H). Qed.

Lemma splitEnv_from_join : forall m acc, Forall (fun kv => no_eq (fst kv) = true) m ->
  splitEnv_from acc (joinEnv m) = Some (fold_left setkv m acc).
Proof.
  induction m as [|[k v] m IH]; intros acc F; simpl; [reflexivity|].
  inversion F; subst. simpl in *. change (String "=" v) with (String c_eq v). rewrite split_eq_join by assumption. now apply IH.
Qed.

Lemma mget_notin : forall k m, ~ In k (map fst m) -> mget k m = None.
Proof.
  induction m as [|[k2 v2] m IH]; simpl; intros H; [reflexivity|].
  destruct (String.eqb k k2) eqn:E; [apply String.eqb_eq in E; subst; exfalso; apply H; now left|].
  apply IH. intros Hin. apply H. now right.
Qed.

Lemma mget_fold : forall k m acc, NoDup (map fst m) ->
  mget k (fold_left setkv m acc) = match mget k m with Some v => Some v | None => mget k acc end.
Proof.
  induction m as [|[k2 v2] m IH]; intros acc N; [reflexivity|].
  inversion N; subst.
  change (fold_left setkv ((k2, v2) :: m) acc) with (fold_left setkv m (mset k2 v2 acc)).
  rewrite IH by assumption.
  change (mget k ((k2, v2) :: m)) with (if String.eqb k k2 then Some v2 else mget k m).
  destruct (String.eqb k k2) eqn:E.
  - apply String.eqb_eq in E. subst k2. rewrite (mget_notin k m) by assumption. apply mget_mset_same.
  - apply String.eqb_neq in E. destruct (mget k m); [reflexivity|]. now apply mget_mset_other.
Qed.

Lemma mget_In : forall k v m, NoDup (map fst m) -> (mget k m = Some v <-> In (k, v) m).
Proof.
  induction m as [|[k2 v2] m IH]; simpl; intros N; [split; [discriminate | contradiction]|].
  inversion N; subst. destruct (String.eqb k k2) eqn:E.
  - apply String.eqb_eq in E. subst k2. split.
    + intros H; injection H as ->. now left.
    + intros [H|H]; [now injection H as -> | exfalso; apply H1; apply in_map_iff; now exists (k, v)].
  - apply String.eqb_neq in E. rewrite IH by assumption. split; [now right|].
    intros [H|H]; [injection H as -> ->; congruence | exact H].
Qed.

Lemma mget_perm : forall k m m', NoDup (map fst m) -> Permutation m m' -> mget k m' = mget k m.
Proof.
  intros k m m' N P.
  assert (NoDup (map fst m')) as N' by (eapply Permutation_NoDup; [apply Permutation_map; exact P | exact N]).
  destruct (mget k m) as [v|] eqn:E.
  - apply mget_In; [exact N'|]. eapply Permutation_in; [exact P|]. now apply mget_In.
  - destruct (mget k m') as [v|] eqn:E'; [|reflexivity].
    apply mget_In in E'; [|exact N']. apply Permutation_sym in P.
    apply (Permutation_in _ P) in E'. apply mget_In in E'; [congruence | exact N].
Qed.

(* whatever order Go's map iteration gives joinEnv's result, SplitEnv reads the same map back *)
Lemma splitEnv_join_perm : forall m p, keys_ok m -> Permutation p (joinEnv m) ->
  exists r, splitEnv p = Some r /\ forall k, mget k r = mget k m.
Proof.
  intros m p [F N] P. unfold joinEnv in P.
  apply Permutation_map_inv in P as [m' [-> P]].
  assert (Forall (fun kv => no_eq (fst kv) = true) m') as F' by (eapply Permutation_Forall; eassumption).
  assert (NoDup (map fst m')) as N' by (eapply Permutation_NoDup; [apply Permutation_map; exact P | exact N]).
  exists (fold_left setkv m' []). split.
  - unfold splitEnv. now apply splitEnv_from_join.
  - intros k. rewrite mget_fold by assumption. simpl.
    rewrite (mget_perm k m m') by assumption. now destruct (mget k m).
Qed.

Lemma envWithGOOS_eq : forall su goos goarch,
  envWithGOOS su goos goarch =
  match splitEnv (su_environ su) with
  | None => None
  | Some e => Some (joinEnv (mset "GOARCH" (platform_arch su goarch) (mset "GOOS" (platform_os su goos) e)))
  end.
Proof.
  intros. unfold envWithGOOS, platform_os, platform_arch.
  destruct (splitEnv (su_environ su)); [|reflexivity].
  destruct (String.eqb goos ""), (String.eqb goarch ""); reflexivity.
Qed.

(* the platform every reader of the environment built by EnvWithGOOS sees *)
Lemma envWithGOOS_platform : forall su goos goarch env p,
  envWithGOOS su goos goarch = Some env -> Permutation p env ->
  exists m, splitEnv p = Some m /\ mget "GOOS" m = Some (platform_os su goos)
            /\ mget "GOARCH" m = Some (platform_arch su goarch).
Proof.
  intros su goos goarch env p H P. rewrite envWithGOOS_eq in H.
  destruct (splitEnv (su_environ su)) as [e|] eqn:E; [|discriminate]. injection H as <-.
  assert (keys_ok e) as K by (eapply splitEnv_from_ok; [exact E | split; constructor]).
  set (m0 := mset "GOARCH" (platform_arch su goarch) (mset "GOOS" (platform_os su goos) e)) in *.
  assert (keys_ok m0) as K0 by (unfold m0; repeat apply mset_keys_ok; auto).
  destruct (splitEnv_join_perm m0 p K0 P) as [r [Hr Hg]].
  exists r. split; [exact Hr|]. rewrite !Hg. unfold m0. split.
  - rewrite mget_mset_other by discriminate. apply mget_mset_same.
  - apply mget_mset_same.
Qed.

Lemma listGoFiles_ctx : forall su goos goarch env p tag files,
  envWithGOOS su goos goarch = Some env -> Permutation p env ->
  listGoFiles su tag p files = import_gofiles (ctx_for su (platform_os su goos) (platform_arch su goarch) tag) files.
Proof.
  intros su goos goarch env p tag files H P.
  destruct (envWithGOOS_platform su goos goarch env p H P) as [m [Hm [Ho Ha]]].
  unfold listGoFiles. rewrite Hm, Ho, Ha. reflexivity.
Qed.

(* ------------------------------------------------------------------ Magefiles *)
Definition nonempty (n : string) : bool := negb (String.eqb n "").

Definition magefiles_spec (su : startup) (os arch : string) (isdir : bool) (files : list file) : option (list string) :=
  match import_gofiles (ctx_for su os arch "mage") files with
  | None => None
  | Some mf =>
      if isdir then Some mf
      else match import_gofiles (ctx_for su os arch "") files with
           | None => None
           | Some nf => Some (filter (fun f => nonempty f && negb (mem f (filter nonempty nf))) mf)
           end
  end.

Lemma magefiles_unfold : forall su goos goarch isdir files,
  magefiles su goos goarch isdir files =
  match splitEnv (su_environ su) with
  | None => None
  | Some _ => magefiles_spec su (platform_os su goos) (platform_arch su goarch) isdir files
  end.
Proof.
  intros. unfold magefiles. destruct (envWithGOOS su goos goarch) as [env|] eqn:E.
  - rewrite !(listGoFiles_ctx su goos goarch env env _ files E (Permutation_refl _)).
    rewrite envWithGOOS_eq in E. destruct (splitEnv (su_environ su)); [reflexivity | discriminate].
  - rewrite envWithGOOS_eq in E. destruct (splitEnv (su_environ su)); [discriminate | reflexivity].
Qed.

Lemma filter_map_comm : forall {A B} (g : A -> B) (P : B -> bool) l,
  filter P (map g l) = map g (filter (fun x => P (g x)) l).
Proof. induction l as [|x l IH]; simpl; [reflexivity|]. destruct (P (g x)); simpl; now rewrite IH. Qed.

Lemma filter_filter : forall {A} (P Q : A -> bool) l,
  filter P (filter Q l) = filter (fun x => Q x && P x) l.
Proof.
  induction l as [|x l IH]; simpl; [reflexivity|].
  destruct (Q x); simpl; [destruct (P x); now rewrite IH | exact IH].
Qed.

Lemma NoDup_map_inj : forall {A B} (g : A -> B) l x y,
  NoDup (map g l) -> In x l -> In y l -> g x = g y -> x = y.
Proof.
  induction l as [|a l IH]; simpl; intros x y N Hx Hy E; [contradiction|].
  inversion N; subst. destruct Hx as [->|Hx], Hy as [->|Hy]; auto.
  - exfalso. apply H1. rewrite E. now apply in_map.
  - exfalso. apply H1. rewrite <- E. now apply in_map.
Qed.

Lemma mem_names : forall (P : file -> bool) files f, NoDup (map f_name files) -> In f files ->
  mem (f_name f) (map f_name (filter P files)) = P f.
Proof.
  intros P files f N Hf. apply Bool.eq_iff_eq_true. rewrite mem_In, in_map_iff. split.
  - intros [f' [E Hf']]. apply filter_In in Hf' as [Hf' HP].
    now rewrite <- (NoDup_map_inj f_name files f' f N Hf' Hf E).
  - intros HP. exists f. split; [reflexivity|]. apply filter_In. now split.
Qed.

Lemma mem_filter_nonempty : forall n l, nonempty n = true -> mem n (filter nonempty l) = mem n l.
Proof.
  intros n l Hn. apply Bool.eq_iff_eq_true. rewrite !mem_In, filter_In. split; [now intros [H _] | now split].
Qed.

Lemma is_go_nonempty : forall n, is_go n = true -> nonempty n = true.
Proof. intros n H. destruct n; [discriminate H | reflexivity]. Qed.

Lemma magefiles_exact : forall su goos goarch files res,
  NoDup (map f_name files) ->
  magefiles su goos goarch false files = Some res ->
  res = map f_name (filter (requires_mage su (platform_os su goos) (platform_arch su goarch)) files).
Proof.
  intros su goos goarch files res N H. rewrite magefiles_unfold in H.
  destruct (splitEnv (su_environ su)); [|discriminate]. unfold magefiles_spec in H.
  set (os := platform_os su goos) in *. set (arch := platform_arch su goarch) in *.
  destruct (import_gofiles (ctx_for su os arch "mage") files) as [mf|] eqn:A; [|discriminate].
  destruct (import_gofiles (ctx_for su os arch "") files) as [nf|] eqn:B; [|discriminate].
  injection H as <-. apply import_gofiles_some in A, B. subst mf nf.
  rewrite filter_map_comm, filter_filter. f_equal. apply filter_ext_in. intros f Hf.
  unfold requires_mage. rewrite in_gofiles_spec.
  destruct (candidate f) eqn:C; simpl; [|reflexivity].
  destruct (satisfied (ctx_for su os arch "mage") f) eqn:SA; simpl; [|reflexivity].
  assert (nonempty (f_name f) = true) as Hn.
  { apply is_go_nonempty. unfold candidate in C. destruct (is_go (f_name f)); [reflexivity|].
    now rewrite andb_false_r in C. }
  rewrite Hn, (mem_filter_nonempty _ _ Hn), (mem_names _ files f N Hf), in_gofiles_spec, C. reflexivity.
Qed.

Lemma magefiles_dir_exact : forall su goos goarch files res,
  magefiles su goos goarch true files = Some res ->
  res = map f_name (filter (fun f => candidate f && satisfied (ctx_for su (platform_os su goos) (platform_arch su goarch) "mage") f) files).
Proof.
  intros su goos goarch files res H. rewrite magefiles_unfold in H.
  destruct (splitEnv (su_environ su)); [|discriminate]. unfold magefiles_spec in H.
  destruct (import_gofiles _ files) as [mf|] eqn:A; [|discriminate].
  injection H as <-. apply import_gofiles_some in A. subst mf. f_equal.
  apply filter_ext. intros f. apply in_gofiles_spec.
Qed.

(* every listed name belongs to a candidate file whose constraints hold with the mage tag *)
Lemma magefiles_sound : forall su goos goarch isdir files res n,
  magefiles su goos goarch isdir files = Some res -> In n res ->
  exists f, In f files /\ f_name f = n /\ candidate f = true
            /\ satisfied (ctx_for su (platform_os su goos) (platform_arch su goarch) "mage") f = true.
Proof.
  intros su goos goarch isdir files res n H Hn. rewrite magefiles_unfold in H.
  destruct (splitEnv (su_environ su)); [|discriminate]. unfold magefiles_spec in H.
  destruct (import_gofiles (ctx_for _ _ _ "mage") files) as [mf|] eqn:A; [|discriminate].
  apply import_gofiles_some in A.
  assert (In n mf) as Hmf.
  { destruct isdir; [now injection H as <-|].
    destruct (import_gofiles (ctx_for _ _ _ "") files); [|discriminate]. injection H as <-.
    now apply filter_In in Hn as [Hn _]. }
  subst mf. apply in_map_iff in Hmf as [f [E Hf]]. apply filter_In in Hf as [Hf G].
  rewrite in_gofiles_spec in G. apply andb_prop in G as [C S]. now exists f.
Qed.

Lemma magefiles_total : forall su goos goarch isdir files,
  env_ok (su_environ su) -> (forall f, In f files -> file_ok f) ->
  magefiles su goos goarch isdir files <> None.
Proof.
  intros su goos goarch isdir files He Hf. rewrite magefiles_unfold.
  destruct (splitEnv (su_environ su)) eqn:E; [|now apply splitEnv_from_none in E].
  unfold magefiles_spec.
  destruct (import_gofiles (ctx_for _ _ _ "mage") files) eqn:A; [|now apply import_gofiles_total in A].
  destruct isdir; [discriminate|].
  destruct (import_gofiles (ctx_for _ _ _ "") files) eqn:B; [discriminate | now apply import_gofiles_total in B].
Qed.

(* ------------------------------------------------------------------ the mage tag must matter *)
Lemma mem_single : forall x t, mem x [t] = String.eqb x t.
Proof. intros. simpl. apply orb_false_r. Qed.

Lemma satisfied_without_mage : forall su os arch f,
  header_mentions "mage" (f_header f) = false -> header_mentions "" (f_header f) = false ->
  satisfied (ctx_for su os arch "mage") f = satisfied (ctx_for su os arch "") f.
Proof.
  intros su os arch f Hm He. unfold satisfied. f_equal.
  - apply goodOSArchFile_ext. intros a Ha. rewrite !matchTag_decompose, !mem_single.
    destruct (known_name_facts a Ha) as [-> [H1 [H2 _]]].
    apply String.eqb_neq in H1, H2. now rewrite H1, H2.
  - destruct (f_header f) as [|e|]; simpl in *; try reflexivity.
    apply eval_ext. intros t Ht. rewrite !matchTag_decompose, !mem_single.
    assert (t <> "mage") as T1 by (intros ->; congruence).
    assert (t <> "") as T2 by (intros ->; congruence).
    rewrite !alias_not by (auto; discriminate). reflexivity.
Qed.

Lemma requires_mage_positively : forall su os arch f,
  header_mentions "mage" (f_header f) = false -> header_mentions "" (f_header f) = false ->
  requires_mage su os arch f = false.
Proof.
  intros. unfold requires_mage. rewrite (satisfied_without_mage su os arch f) by assumption.
  destruct (candidate f), (satisfied _ f); reflexivity.
Qed.

(* ------------------------------------------------------------------ the environment matters only through startup_tag *)
Definition consulted (files : list file) (t : string) : Prop :=
  known_name t = true \/ exists f, In f files /\ header_mentions t (f_header f) = true.

Lemma import_gofiles_startup : forall su su' os arch tag files,
  (forall t, consulted files t -> startup_tag su t = startup_tag su' t) ->
  import_gofiles (ctx_for su os arch tag) files = import_gofiles (ctx_for su' os arch tag) files.
Proof.
  intros su su' os arch tag files H. apply import_gofiles_ext. intros f Hf. split.
  - apply goodOSArchFile_ext. intros a Ha. rewrite !matchTag_decompose, (H a); [reflexivity | now left].
  - destruct (f_header f) as [|e|] eqn:Hh; simpl; try reflexivity.
    apply eval_ext. intros t Ht. rewrite !matchTag_decompose, (H t); [reflexivity|].
    right. exists f. split; [exact Hf|]. now rewrite Hh.
Qed.

Lemma magefiles_env : forall su su' goos goarch isdir files,
  su_hostos su = su_hostos su' -> su_hostarch su = su_hostarch su' ->
  env_ok (su_environ su) -> env_ok (su_environ su') ->
  (forall t, consulted files t -> startup_tag su t = startup_tag su' t) ->
  magefiles su goos goarch isdir files = magefiles su' goos goarch isdir files.
Proof.
  intros su su' goos goarch isdir files Ho Ha E E' H. rewrite !magefiles_unfold.
  destruct (splitEnv (su_environ su)) eqn:S; [|now apply splitEnv_from_none in S].
  destruct (splitEnv (su_environ su')) eqn:S'; [|now apply splitEnv_from_none in S'].
  unfold platform_os, platform_arch. rewrite Ho, Ha. unfold magefiles_spec.
  rewrite !(import_gofiles_startup su su' _ _ _ files H). reflexivity.
Qed.

Definition set_environ (su : startup) (env : list string) : startup :=
  {| su_environ := env; su_hostos := su_hostos su; su_hostarch := su_hostarch su;
     su_cgo_supported := su_cgo_supported su; su_default_cgo := su_default_cgo su;
     su_compiler := su_compiler su; su_tooltags := su_tooltags su; su_releasetags := su_releasetags su |}.

(* with CGO_ENABLED=0 or =1 in both environments nothing else in them matters *)
Lemma magefiles_env_cgo_fixed : forall su env' x goos goarch isdir files,
  env_ok (su_environ su) -> env_ok env' ->
  getenv (su_environ su) "CGO_ENABLED" = x -> getenv env' "CGO_ENABLED" = x -> x = "0" \/ x = "1" ->
  magefiles (set_environ su env') goos goarch isdir files = magefiles su goos goarch isdir files.
Proof.
  intros su env' x goos goarch isdir files E E' G G' Hx.
  apply magefiles_env; try reflexivity; try assumption.
  intros t _.
  assert (b_cgo (defaultContext (set_environ su env')) = b_cgo (defaultContext su)) as C.
  { unfold defaultContext; simpl. rewrite G, G'. destruct Hx as [-> | ->]; reflexivity. }
  unfold startup_tag. rewrite C. reflexivity.
Qed.

(* files that do not mention cgo: same tool tags, then nothing in the environment matters *)
Lemma magefiles_env_no_cgo : forall su env' goos goarch isdir files,
  env_ok (su_environ su) -> env_ok env' ->
  (forall f, In f files -> header_mentions "cgo" (f_header f) = false) ->
  magefiles (set_environ su env') goos goarch isdir files = magefiles su goos goarch isdir files.
Proof.
  intros su env' goos goarch isdir files E E' Hc.
  apply magefiles_env; try reflexivity; try assumption.
  intros t Ht. unfold startup_tag.
  assert (String.eqb t "cgo" = false) as ->; [|rewrite !andb_false_r; reflexivity].
  apply String.eqb_neq. intros ->. destruct Ht as [Ht | [f [Hf Hm]]].
  - now destruct (known_name_facts "cgo" Ht) as [_ [_ [_ K]]].
  - rewrite (Hc f Hf) in Hm. discriminate.
Qed.

(* ------------------------------------------------------------------ which directory Invoke uses *)
Lemma choose_dir_spec : forall su goos goarch has_sub top,
  NoDup (map f_name top) ->
  (choose_dir su goos goarch has_sub top = Sub <->
   has_sub = true /\ (magefiles su goos goarch false top = None \/
                      forall f, In f top -> requires_mage su (platform_os su goos) (platform_arch su goarch) f = false)).
Proof.
  intros su goos goarch has_sub top N. unfold choose_dir. destruct has_sub; [|split; [discriminate | now intros [? _]]].
  destruct (magefiles su goos goarch false top) as [res|] eqn:M; [|split; auto].
  pose proof (magefiles_exact su goos goarch top res N M) as R.
  destruct res as [|n res]; split; intros H.
  - split; [reflexivity|]. right. intros f Hf.
    destruct (requires_mage _ _ _ f) eqn:Q; [|reflexivity]. exfalso.
    assert (In (f_name f) (@nil string)) as X; [|exact X].
    rewrite R. apply in_map. apply filter_In. now split.
  - reflexivity.
  - discriminate.
  - exfalso. destruct H as [_ [H|H]]; [discriminate|].
    assert (In n (n :: res)) as X by now left. rewrite R in X.
    apply in_map_iff in X as [f [_ Hf]]. apply filter_In in Hf as [Hf Q]. rewrite (H f Hf) in Q. discriminate.
Qed.

(* ------------------------------------------------------------------ witnesses *)
Definition su_linux (env : list string) : startup :=
  {| su_environ := env; su_hostos := "linux"; su_hostarch := "amd64"; su_cgo_supported := true;
     su_default_cgo := ""; su_compiler := "gc"; su_tooltags := ["amd64.v1"]; su_releasetags := ["go1.1"; "go1.2"] |}.
Definition mk (n : string) (h : header) : file := {| f_name := n; f_header := h; f_pkg := "main"; f_parse_ok := true |}.

Definition f24_files : list file :=
  [ mk "m.go" (HBuild (And (And (Tag "mage") (Or (Tag "linux") (Tag "darwin"))) (Not (Tag "cgo")))) ].

Lemma env_irrelevant_refuted :
  magefiles (su_linux ["HOME=/root"]) "" "" false f24_files = Some []
  /\ magefiles (su_linux ["HOME=/root"; "GOOS=windows"; "GOARCH=arm64"]) "" "" false f24_files = Some ["m.go"].
Proof. split; vm_compute; reflexivity. Qed.

Definition demo_files : list file :=
  [ mk ".hidden.go" (HBuild (Tag "mage"));
    mk "_skipped.go" (HBuild (Tag "mage"));
    mk "helper.go" HNone;
    {| f_name := "lib.go"; f_header := HBuild (Not (Tag "mage")); f_pkg := "other"; f_parse_ok := true |};
    mk "magefile.go" (HBuild (Tag "mage"));
    mk "magefile_test.go" (HBuild (Tag "mage"));
    mk "tasks_linux.go" (HBuild (And (Tag "mage") (Not (Tag "windows"))));
    mk "tasks_windows_amd64.go" (HBuild (Tag "mage"));
    mk "tools.go" (HBuild (Or (Tag "mage") (Tag "tools")));
    mk "unixonly.go" (HBuild (And (Tag "mage") (Tag "unix")));
    mk "zignore.go" (HBuild (And (Tag "mage") (Tag "ignore"))) ].

Lemma nonvacuous_c10 :
  NoDup (map f_name demo_files) /\ env_ok ["HOME=/root"; "GOOS=plan9"] /\ (forall f, In f demo_files -> file_ok f) /\
  magefiles (su_linux ["HOME=/root"; "GOOS=plan9"]) "" "" false demo_files
    = Some ["magefile.go"; "tasks_linux.go"; "tools.go"; "unixonly.go"] /\
  magefiles (su_linux ["HOME=/root"; "GOOS=plan9"]) "windows" "" false demo_files
    = Some ["magefile.go"; "tasks_windows_amd64.go"; "tools.go"] /\
  magefiles (su_linux ["HOME=/root"; "GOOS=plan9"]) "" "" true demo_files
    = Some ["helper.go"; "magefile.go"; "tasks_linux.go"; "tools.go"; "unixonly.go"] /\
  magefiles (su_linux ["NOEQUALS"]) "" "" false demo_files = None /\
  choose_dir (su_linux []) "" "" true [mk "helper.go" HNone] = Sub /\
  choose_dir (su_linux []) "" "" true demo_files = Top.
Proof.
  split; [|split; [|split]].
  - repeat constructor; simpl; intuition discriminate.
  - intros s [<-|[<-|[]]]; discriminate.
  - intros f Hf. simpl in Hf. repeat (destruct Hf as [<-|Hf]; [split; [discriminate | reflexivity]|]). contradiction.
  - repeat split; vm_compute; reflexivity.
Qed.

(* ------------------------------------------------------------------ statements used by Props/C10.v *)
Lemma exact_iff : forall su goos goarch files res,
  NoDup (map f_name files) ->
  magefiles su goos goarch false files = Some res ->
  res = map f_name (filter (requires_mage su (platform_os su goos) (platform_arch su goarch)) files) /\
  forall f, In f files ->
    (In (f_name f) res <->
     candidate f = true
     /\ satisfied (ctx_for su (platform_os su goos) (platform_arch su goarch) "mage") f = true
     /\ satisfied (ctx_for su (platform_os su goos) (platform_arch su goarch) "") f = false).
Proof.
  intros su goos goarch files res N H. pose proof (magefiles_exact su goos goarch files res N H) as R.
  split; [exact R|]. intros f Hf. rewrite R, in_map_iff. split.
  - intros [f' [E Hf']]. apply filter_In in Hf' as [Hf' Q].
    rewrite (NoDup_map_inj f_name files f' f N Hf' Hf E) in Q. unfold requires_mage in Q.
    apply andb_prop in Q as [Q Q3]. apply andb_prop in Q as [Q1 Q2]. apply negb_true_iff in Q3. auto.
  - intros [Q1 [Q2 Q3]]. exists f. split; [reflexivity|]. apply filter_In. split; [exact Hf|].
    unfold requires_mage. now rewrite Q1, Q2, Q3.
Qed.

Lemma never_listed : forall su goos goarch isdir files res f,
  NoDup (map f_name files) -> In f files ->
  magefiles su goos goarch isdir files = Some res ->
  hidden (f_name f) = true \/ is_go (f_name f) = false \/ is_test (f_name f) = true
  \/ goodOSArchFile (ctx_for su (platform_os su goos) (platform_arch su goarch) "mage") (f_name f) = false
  \/ shouldBuild (ctx_for su (platform_os su goos) (platform_arch su goarch) "mage") (f_header f) = false ->
  ~ In (f_name f) res.
Proof.
  intros su goos goarch isdir files res f N Hf H Hbad Hin.
  destruct (magefiles_sound su goos goarch isdir files res (f_name f) H Hin) as [f' [Hf' [E [C S]]]].
  rewrite (NoDup_map_inj f_name files f' f N Hf' Hf E) in C, S. unfold candidate in C. unfold satisfied in S.
  destruct Hbad as [B|[B|[B|[B|B]]]]; rewrite B in *; simpl in *;
    rewrite ?andb_false_r in *; simpl in *; discriminate.
Qed.

Lemma positively_listed : forall su goos goarch files res f,
  NoDup (map f_name files) -> In f files ->
  magefiles su goos goarch false files = Some res ->
  header_mentions "mage" (f_header f) = false -> header_mentions "" (f_header f) = false ->
  ~ In (f_name f) res.
Proof.
  intros su goos goarch files res f N Hf H Hm He Hin.
  destruct (exact_iff su goos goarch files res N H) as [_ X]. apply (X f Hf) in Hin as [_ [S1 S2]].
  rewrite (satisfied_without_mage su _ _ f Hm He) in S1. congruence.
Qed.

Lemma flags_decide : forall su goos goarch env,
  envWithGOOS su goos goarch = Some env ->
  compile_env su goos goarch = Some env /\
  forall p, Permutation p env ->
    (exists m, splitEnv p = Some m /\ mget "GOOS" m = Some (platform_os su goos)
               /\ mget "GOARCH" m = Some (platform_arch su goarch)) /\
    forall tag files, listGoFiles su tag p files
                      = import_gofiles (ctx_for su (platform_os su goos) (platform_arch su goarch) tag) files.
Proof.
  intros su goos goarch env H. split; [exact H|]. intros p P. split.
  - eapply envWithGOOS_platform; eassumption.
  - intros. eapply listGoFiles_ctx; eassumption.
Qed.

Lemma mage_tag_irrelevant_when_absent : forall su os arch e,
  mentions "mage" e = false -> mentions "" e = false ->
  eval (matchTag (ctx_for su os arch "mage")) e = eval (matchTag (ctx_for su os arch "")) e.
Proof.
  intros su os arch e Hm He.
  pose proof (satisfied_without_mage su os arch (mk "x.go" (HBuild e)) Hm He) as S.
  unfold satisfied in S. simpl f_name in S. simpl f_header in S.
  assert (forall tag, goodOSArchFile (ctx_for su os arch tag) "x.go" = true) as G by (intros; reflexivity).
  rewrite !G in S. exact S.
Qed.
