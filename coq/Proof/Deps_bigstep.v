(* The small-step engine agrees with a big-step evaluator under EVERY schedule: what a dependency's
   body ends with (and how every call ends) is a function of the program alone, up to the order of
   the failure tokens in a message.  Statements are restated in Props/Engine_bigstep.v.

   Everything is read off the invariant of reachable configurations (Deps_inv.reach_inv) through
   the C01/C03/C13 lemmas; the evaluator is executable ([vm_compute]). *)
From Mage Require Import Base.Strs Model.Deps Proof.Deps_defs Proof.Deps_inv Proof.Exit_facts.
From Mage Require Import Proof.Deps_invA Proof.Deps_invB.
From Mage Require Import Proof.Deps_c01 Proof.Deps_c13 Proof.Deps_c03 Proof.Deps_progress.
From Coq Require Import ZArith Lia Permutation.

(* ================= 1. the big-step evaluator ================= *)

(* how a call ends: it returns, or it panics with Fatal(exit, errs) *)
Inductive cres := CRet | CPan (x : Z) (m : msg).

Definition nonnil (r : res) : bool := negb (is_nil r).

(* [f] gives what every member ends with.
   Par: every member is asked; the call returns iff all are nil, otherwise the status is the
        changeExit-fold over all of them and the message lists every failure (here: in list order;
        the engine: in report order).
   Ser: the first member that is not nil stops the call; the later ones are never asked. *)
Definition call_res (f : key -> res) (c : call) : cres :=
  let rs := map f (c_deps c) in
  match c_style c with
  | Par => if forallb is_nil rs then CRet
           else CPan (combine (map status rs)) (concat (map message rs))
  | Ser => match find nonnil rs with
           | None => CRet
           | Some r => CPan (combine [status r]) (message r)
           end
  end.

(* the calls of a body in order: a panic of a guarded call is recovered and the body goes on, an
   unguarded one ends the body; after the last call the body ends with its own result *)
Fixpoint body_res (f : key -> res) (cs : list call) (own : res) : res :=
  match cs with
  | [] => own
  | c :: rest =>
      match call_res f c with
      | CRet => body_res f rest own
      | CPan x m => if c_guarded c then body_res f rest own else RPanic x m
      end
  end.

Fixpoint ev_fuel (p : prog) (n : nat) (k : key) : res :=
  match n with
  | O => RNil
  | S n' => body_res (ev_fuel p n') (b_calls (bodies p k)) (res_of (b_result (bodies p k)))
  end.

(* what the body of k ends with (on acyclic programs the fuel S k is enough: [ev_unfold]) *)
Definition ev (p : prog) (k : key) : res := ev_fuel p (S k) k.

(* how call pc of task t ends *)
Definition ev_call (p : prog) (t : tid) (pc : nat) : option cres :=
  match nth_error (calls_of p t) pc with Some c => Some (call_res (ev p) c) | None => None end.

(* ---- the evaluator does not depend on the fuel ---- *)

Lemma call_res_ext : forall f g c,
  (forall d, In d (c_deps c) -> f d = g d) -> call_res f c = call_res g c.
Proof.
  intros f g c H. unfold call_res. rewrite (map_ext_in f g (c_deps c) H). reflexivity.
Qed.

Lemma body_res_ext : forall f g cs own,
  (forall c d, In c cs -> In d (c_deps c) -> f d = g d) -> body_res f cs own = body_res g cs own.
Proof.
  intros f g cs own. induction cs as [|c cs IH]; intros H; simpl; [reflexivity|].
  rewrite (call_res_ext f g c) by (intros d Hd; apply (H c d); [left; reflexivity|exact Hd]).
  rewrite IH by (intros c' d Hc' Hd; apply (H c' d); [right; exact Hc'|exact Hd]).
  reflexivity.
Qed.

Lemma body_dep_smaller : forall p k c d, acyclic p ->
  In c (b_calls (bodies p k)) -> In d (c_deps c) -> d < k.
Proof.
  intros p k c d Hac Hc Hd. destruct (le_lt_dec (length (nodes p)) k) as [Hge|Hlt].
  - rewrite (bodies_overflow p k Hge) in Hc. destruct Hc.
  - exact (ac_body p Hac k c d Hlt Hc Hd).
Qed.

Lemma ev_fuel_stable : forall p, acyclic p ->
  forall n k m1 m2, k < n -> k < m1 -> k < m2 -> ev_fuel p m1 k = ev_fuel p m2 k.
Proof.
  intros p Hac. induction n as [|n IH]; intros k m1 m2 Hn H1 H2; [lia|].
  destruct m1 as [|m1]; [lia|]. destruct m2 as [|m2]; [lia|]. simpl.
  apply body_res_ext. intros c d Hc Hd.
  pose proof (body_dep_smaller p k c d Hac Hc Hd) as Hlt.
  apply IH; lia.
Qed.

Lemma ev_unfold : forall p k, acyclic p ->
  ev p k = body_res (ev p) (calls_of p (TBody k)) (own_result p (TBody k)).
Proof.
  intros p k Hac. unfold ev at 1. simpl. apply body_res_ext. intros c d Hc Hd.
  pose proof (body_dep_smaller p k c d Hac Hc Hd) as Hlt.
  unfold ev. apply (ev_fuel_stable p Hac (S d)); lia.
Qed.

(* ================= 2. "the same outcome" ================= *)

Definition same_kind (a b : res) : Prop :=
  match a, b with
  | RNil, RNil => True
  | RErr _ _, RErr _ _ => True
  | RPanic _ _, RPanic _ _ => True
  | _, _ => False
  end.

(* same kind, same exit status, the same failure tokens up to order *)
Definition agrees (a b : res) : Prop :=
  same_kind a b /\ status a = status b /\ Permutation (message a) (message b).

Lemma agrees_refl : forall a, agrees a a.
Proof. intros a. split; [destruct a; exact I|]. split; [reflexivity|apply Permutation_refl]. Qed.

Lemma agrees_sym : forall a b, agrees a b -> agrees b a.
Proof.
  intros a b (Hk & Hs & Hm). split; [destruct a, b; simpl in *; tauto|].
  split; [symmetry; exact Hs|apply Permutation_sym; exact Hm].
Qed.

Lemma agrees_trans : forall a b c, agrees a b -> agrees b c -> agrees a c.
Proof.
  intros a b c (Hk & Hs & Hm) (Hk' & Hs' & Hm'). split; [destruct a, b, c; simpl in *; tauto|].
  split; [congruence|eapply Permutation_trans; eassumption].
Qed.

Lemma agrees_is_nil : forall a b, agrees a b -> is_nil a = is_nil b.
Proof. intros a b (Hk & _). destruct a, b; simpl in *; tauto. Qed.

Lemma agrees_nil_l : forall b, agrees RNil b -> b = RNil.
Proof. intros b (Hk & _). destruct b; simpl in Hk; tauto. Qed.

Lemma agrees_nil_r : forall a, agrees a RNil -> a = RNil.
Proof. intros a (Hk & _). destruct a; simpl in Hk; tauto. Qed.

(* the sharper form: equal, or two panics with the same status whose messages are permutations *)
Definition close (a b : res) : Prop :=
  a = b \/ exists x m m', a = RPanic x m /\ b = RPanic x m' /\ Permutation m m'.

Lemma close_agrees : forall a b, close a b -> agrees a b.
Proof.
  intros a b [E|(x & m & m' & Ea & Eb & Hp)].
  - subst b. apply agrees_refl.
  - subst a b. split; [exact I|]. split; [reflexivity|exact Hp].
Qed.

Lemma Forall2_agrees_status : forall rs rs', Forall2 agrees rs rs' -> map status rs = map status rs'.
Proof.
  intros rs rs' H. induction H as [|a b rs rs' Hab H IH]; simpl; [reflexivity|].
  destruct Hab as (_ & Hs & _). rewrite Hs, IH. reflexivity.
Qed.

Lemma Forall2_agrees_message : forall rs rs', Forall2 agrees rs rs' ->
  Permutation (concat (map message rs)) (concat (map message rs')).
Proof.
  intros rs rs' H. induction H as [|a b rs rs' Hab H IH]; simpl; [apply Permutation_refl|].
  destruct Hab as (_ & _ & Hm). apply Permutation_app; assumption.
Qed.

Lemma Forall2_agrees_all_nil : forall rs rs', Forall2 agrees rs rs' ->
  forallb is_nil rs = forallb is_nil rs'.
Proof.
  intros rs rs' H. induction H as [|a b rs rs' Hab H IH]; simpl; [reflexivity|].
  rewrite (agrees_is_nil _ _ Hab), IH. reflexivity.
Qed.

Lemma Forall2_to_map : forall (A B : Type) (P : A -> B -> Prop) (Q : B -> B -> Prop) (f : A -> B) l rs,
  Forall2 P l rs -> (forall a b, In a l -> P a b -> Q b (f a)) -> Forall2 Q rs (map f l).
Proof.
  intros A B P Q f l rs H. induction H as [|a b l rs Hab H IH]; intros HQ; simpl; constructor.
  - apply HQ; [left; reflexivity|exact Hab].
  - apply IH. intros a' b' Ha'. apply HQ. right; exact Ha'.
Qed.

Lemma forallb_is_nil_false : forall rs r, In r rs -> r <> RNil -> forallb is_nil rs = false.
Proof.
  induction rs as [|a rs IH]; intros r Hin Hr; [destruct Hin|]. simpl.
  destruct Hin as [E|Hin].
  - subst a. rewrite (not_nil_is_nil r Hr). reflexivity.
  - rewrite (IH r Hin Hr). apply andb_false_r.
Qed.

Lemma forallb_is_nil_map : forall (f : key -> res) ds,
  (forall d, In d ds -> f d = RNil) -> forallb is_nil (map f ds) = true.
Proof.
  intros f ds H. induction ds as [|d ds IH]; simpl; [reflexivity|].
  rewrite (H d (or_introl eq_refl)). simpl. apply IH. intros d' Hd'. apply H. right; exact Hd'.
Qed.

Lemma find_nonnil_none : forall (f : key -> res) ds,
  (forall d, In d ds -> f d = RNil) -> find nonnil (map f ds) = None.
Proof.
  intros f ds H. induction ds as [|d ds IH]; simpl; [reflexivity|].
  rewrite (H d (or_introl eq_refl)). simpl. apply IH. intros d' Hd'. apply H. right; exact Hd'.
Qed.

Lemma find_nonnil_first : forall (f : key -> res) ds i k,
  nth_error ds i = Some k -> f k <> RNil ->
  (forall i' k', i' < i -> nth_error ds i' = Some k' -> f k' = RNil) ->
  find nonnil (map f ds) = Some (f k).
Proof.
  intros f ds. induction ds as [|d ds IH]; intros i k Hi Hk Hprev.
  - destruct i; discriminate.
  - destruct i as [|i]; simpl in Hi.
    + inversion Hi; subst d. simpl. unfold nonnil. rewrite (not_nil_is_nil _ Hk). reflexivity.
    + simpl. rewrite (Hprev 0 d) by (first [lia|reflexivity]). simpl.
      apply (IH i k Hi Hk). intros i' k' Hlt Hi'. apply (Hprev (S i') k'); [lia|exact Hi'].
Qed.

(* ---- skipping the calls a body got past ---- *)

Definition passes (f : key -> res) (c : call) : Prop := call_res f c = CRet \/ c_guarded c = true.

Lemma body_res_skip : forall f own n cs,
  (forall i c, i < n -> nth_error cs i = Some c -> passes f c) ->
  body_res f cs own = body_res f (skipn n cs) own.
Proof.
  intros f own. induction n as [|n IH]; intros cs H; [reflexivity|].
  destruct cs as [|c cs]; [reflexivity|]. simpl.
  assert (Hc : passes f c) by (apply (H 0 c); [lia|reflexivity]).
  assert (Hrest : body_res f cs own = body_res f (skipn n cs) own).
  { apply IH. intros i c' Hi Hc'. apply (H (S i) c'); [lia|exact Hc']. }
  destruct Hc as [Hc|Hc].
  - rewrite Hc. exact Hrest.
  - destruct (call_res f c); [exact Hrest|]. rewrite Hc. exact Hrest.
Qed.

Lemma skipn_nth_cons : forall {A} (l : list A) n x,
  nth_error l n = Some x -> skipn n l = x :: skipn (S n) l.
Proof.
  intros A l. induction l as [|a l IH]; intros n x H.
  - destruct n; discriminate.
  - destruct n as [|n]; simpl in H.
    + inversion H; subst. reflexivity.
    + simpl. rewrite (IH n x H). reflexivity.
Qed.

(* ================= 3. agreement, in one reachable configuration ================= *)

Section Agree.
Variable p : prog.
Variable s : cfg.
Variable tr : list event.
Hypothesis Hac : acyclic p.
Hypothesis R : reach true p s tr.

Let IA : InvA p s tr := proj1 (reach_inv true p s tr R).
Let IC : InvC true p s tr := proj2 (proj2 (reach_inv true p s tr R)).

(* [f] is right about the members of c that have ended *)
Definition right_on (f : key -> res) (c : call) : Prop :=
  forall d r, In d (c_deps c) -> In (BodyEnd d r) tr -> agrees r (f d).

Lemma call_return_res : forall f t pc c,
  right_on f c -> In (CallReturn t pc) tr -> nth_error (calls_of p t) pc = Some c ->
  call_res f c = CRet.
Proof.
  intros f t pc c Hf Hret Hc.
  assert (Hnil : forall d, In d (c_deps c) -> f d = RNil).
  { intros d Hd. apply agrees_nil_l. apply (Hf d RNil Hd).
    exact (returns_only_on_success p s tr t pc c d R Hret Hc Hd). }
  unfold call_res. destruct (c_style c).
  - rewrite (forallb_is_nil_map f _ Hnil). reflexivity.
  - rewrite (find_nonnil_none f _ Hnil). reflexivity.
Qed.

Lemma call_panic_res : forall f t pc c x m,
  right_on f c -> In (CallPanic t pc x m) tr -> nth_error (calls_of p t) pc = Some c ->
  exists m', call_res f c = CPan x m' /\ Permutation m m'.
Proof.
  intros f t pc c x m Hf Hpan Hc. unfold call_res. destruct (c_style c) eqn:Hs.
  - destruct (payload_par p s tr t pc x m c R Hpan Hc Hs) as (rs & Hall & Hm & Hx & r & Hr & Hrn).
    assert (Hag : Forall2 agrees rs (map f (c_deps c))).
    { eapply Forall2_to_map; [exact Hall|]. intros d rd Hd Hend. exact (Hf d rd Hd Hend). }
    rewrite <- (Forall2_agrees_all_nil _ _ Hag), (forallb_is_nil_false rs r Hr Hrn).
    eexists. split.
    + rewrite <- (Forall2_agrees_status _ _ Hag), <- Hx. reflexivity.
    + eapply Permutation_trans; [exact Hm|]. apply Forall2_agrees_message. exact Hag.
  - destruct (payload_ser p s tr t pc x m c R Hpan Hc Hs) as (i & k & r & Hi & Hend & Hrn & Hm & Hx & Hprev).
    pose proof (Hf k r (nth_error_In _ _ Hi) Hend) as Hag.
    assert (Hfk : f k <> RNil).
    { intro E. rewrite E in Hag. apply Hrn. apply agrees_nil_r. exact Hag. }
    rewrite (find_nonnil_first f (c_deps c) i k Hi Hfk).
    2:{ intros i' k' Hlt Hi'. apply agrees_nil_l. apply (Hf k' RNil (nth_error_In _ _ Hi')).
        exact (Hprev i' k' Hlt Hi'). }
    destruct Hag as (_ & Hst & Hmsg). eexists. split.
    + rewrite <- Hst, <- Hx. reflexivity.
    + rewrite Hm. exact Hmsg.
Qed.

(* a call that has ended lets the big-step body go on, unless it is the unguarded panic *)
Lemma past_passes : forall f t tk pc c,
  right_on f c -> tasks s t = Some tk -> pc < t_pc tk -> nth_error (calls_of p t) pc = Some c ->
  (forall x m, In (CallPanic t pc x m) tr -> c_guarded c = true) -> passes f c.
Proof.
  intros f t tk pc c Hf Htk Hpc Hc Hg.
  destruct (c_past true p s tr IC t tk pc c Htk Hpc Hc) as [_ [Hret|(x & m & Hpan)]].
  - left. exact (call_return_res f t pc c Hf Hret Hc).
  - right. exact (Hg x m Hpan).
Qed.

(* what a BodyEnd can be: the body's own result after every call returned or was recovered, or the
   payload of its first (and only) unguarded panicking call *)
Lemma body_end_shape : forall k r, In (BodyEnd k r) tr ->
  exists tk, tasks s (TBody k) = Some tk /\
   ((r = own_result p (TBody k) /\ length (calls_of p (TBody k)) <= t_pc tk /\
     forall pc c x m, nth_error (calls_of p (TBody k)) pc = Some c ->
                      In (CallPanic (TBody k) pc x m) tr -> c_guarded c = true)
    \/
    (exists pc c x m, r = RPanic x m /\ t_pc tk = S pc /\ nth_error (calls_of p (TBody k)) pc = Some c /\
                      c_guarded c = false /\ In (CallPanic (TBody k) pc x m) tr /\
                      forall pc' c' x' m', pc' < pc -> nth_error (calls_of p (TBody k)) pc' = Some c' ->
                                           In (CallPanic (TBody k) pc' x' m') tr -> c_guarded c' = true)).
Proof.
  intros k r Hend. pose proof (end_cell p s tr R k r Hend) as Hcell.
  destruct (a_fin p s tr IA k r Hcell) as (tk & Htk & Hph). exists tk. split; [exact Htk|].
  destruct (c_fin true p s tr IC (TBody k) tk Htk Hph)
    as [(Hlen & Hown & Hg)|(pc & c & x & m & Hpc & Hc & Hug & Hpan & Hres)].
  - left. rewrite (Hown k eq_refl) in Hcell. injection Hcell as E. split; [symmetry; exact E|].
    split; [exact Hlen|]. exact Hg.
  - right. exists pc, c, x, m. rewrite (Hres k eq_refl) in Hcell. injection Hcell as E.
    split; [symmetry; exact E|]. split; [exact Hpc|]. split; [exact Hc|]. split; [exact Hug|].
    split; [exact Hpan|].
    intros pc' c' x' m' Hlt Hc' Hpan'. destruct (c_guarded c') eqn:Hg'; [reflexivity|].
    destruct (c_unguarded true p s tr IC (TBody k) pc' x' m' c' Hpan' Hc' Hg') as (tk' & Htk' & Hpc' & _).
    rewrite Htk in Htk'. injection Htk' as E'. subst tk'. lia.
Qed.

Lemma body_end_res : forall f k r,
  (forall d rd, d < k -> In (BodyEnd d rd) tr -> agrees rd (f d)) ->
  In (BodyEnd k r) tr ->
  close r (body_res f (calls_of p (TBody k)) (own_result p (TBody k))).
Proof.
  intros f k r Hf Hend.
  assert (Hright : forall pc c, nth_error (calls_of p (TBody k)) pc = Some c -> right_on f c).
  { intros pc c Hc d rd Hd Hendd. apply Hf; [|exact Hendd].
    destruct (dep_smaller p (TBody k) pc c d Hac Hc Hd) as [Hlt _]. exact Hlt. }
  destruct (body_end_shape k r Hend) as (tk & Htk & [(Hr & Hlen & Hg)|(pc & c & x & m & Hr & Hpc & Hc & Hug & Hpan & Hg)]).
  - subst r. rewrite (body_res_skip f _ (length (calls_of p (TBody k)))).
    + rewrite skipn_all. left. reflexivity.
    + intros i c Hi Hc. apply (past_passes f (TBody k) tk i c (Hright i c Hc) Htk); [lia|exact Hc|].
      intros x m Hpan. exact (Hg i c x m Hc Hpan).
  - subst r. rewrite (body_res_skip f _ pc).
    + rewrite (skipn_nth_cons _ _ _ Hc). simpl.
      destruct (call_panic_res f (TBody k) pc c x m (Hright pc c Hc) Hpan Hc) as (m' & Hres & Hperm).
      rewrite Hres, Hug. right. exists x, m, m'. split; [reflexivity|]. split; [reflexivity|exact Hperm].
    + intros i c' Hi Hc'. apply (past_passes f (TBody k) tk i c' (Hright i c' Hc') Htk); [lia|exact Hc'|].
      intros x' m' Hpan'. exact (Hg i c' x' m' Hi Hc' Hpan').
Qed.

Theorem bigstep_close_s : forall k r, In (BodyEnd k r) tr -> close r (ev p k).
Proof.
  intros k. induction k as [k IH] using lt_wf_ind. intros r Hend.
  rewrite (ev_unfold p k Hac). apply body_end_res; [|exact Hend].
  intros d rd Hlt Hd. apply close_agrees. exact (IH d Hlt rd Hd).
Qed.

Theorem bigstep_agrees_s : forall k r, In (BodyEnd k r) tr -> agrees r (ev p k).
Proof. intros k r Hend. apply close_agrees. exact (bigstep_close_s k r Hend). Qed.

Lemma ev_right_on : forall c, right_on (ev p) c.
Proof. intros c d r _ Hend. exact (bigstep_agrees_s d r Hend). Qed.

(* the same for every call of every task, the roots included *)
Theorem call_return_agrees_s : forall t pc c,
  In (CallReturn t pc) tr -> nth_error (calls_of p t) pc = Some c -> call_res (ev p) c = CRet.
Proof. intros t pc c. apply call_return_res. apply ev_right_on. Qed.

Theorem call_panic_agrees_s : forall t pc c x m,
  In (CallPanic t pc x m) tr -> nth_error (calls_of p t) pc = Some c ->
  exists m', call_res (ev p) c = CPan x m' /\ Permutation m m'.
Proof. intros t pc c x m. apply call_panic_res. apply ev_right_on. Qed.

End Agree.

(* ---- the statements of Props/Engine_bigstep.v, part 1 ---- *)

Theorem bigstep_agrees : forall p s tr k r,
  acyclic p -> reach true p s tr -> In (BodyEnd k r) tr ->
  same_kind r (ev p k) /\ status r = status (ev p k) /\ Permutation (message r) (message (ev p k)).
Proof. intros p s tr k r Hac R Hend. exact (bigstep_agrees_s p s tr Hac R k r Hend). Qed.

(* nil and error results are reproduced exactly; only the token order of a Fatal message varies *)
Theorem bigstep_exact_or_permuted_panic : forall p s tr k r,
  acyclic p -> reach true p s tr -> In (BodyEnd k r) tr ->
  r = ev p k \/ exists x m m', r = RPanic x m /\ ev p k = RPanic x m' /\ Permutation m m'.
Proof. intros p s tr k r Hac R Hend. exact (bigstep_close_s p s tr Hac R k r Hend). Qed.

Theorem call_return_agrees : forall p s tr t pc c,
  acyclic p -> reach true p s tr ->
  In (CallReturn t pc) tr -> nth_error (calls_of p t) pc = Some c -> call_res (ev p) c = CRet.
Proof. intros p s tr t pc c Hac R. exact (call_return_agrees_s p s tr Hac R t pc c). Qed.

Theorem call_panic_agrees : forall p s tr t pc c x m,
  acyclic p -> reach true p s tr ->
  In (CallPanic t pc x m) tr -> nth_error (calls_of p t) pc = Some c ->
  exists m', call_res (ev p) c = CPan x m' /\ Permutation m m'.
Proof. intros p s tr t pc c x m Hac R. exact (call_panic_agrees_s p s tr Hac R t pc c x m). Qed.

(* two arbitrary schedules *)
Theorem outcome_schedule_independent : forall p s1 tr1 s2 tr2 k r1 r2,
  acyclic p -> reach true p s1 tr1 -> reach true p s2 tr2 ->
  In (BodyEnd k r1) tr1 -> In (BodyEnd k r2) tr2 ->
  same_kind r1 r2 /\ status r1 = status r2 /\ Permutation (message r1) (message r2).
Proof.
  intros p s1 tr1 s2 tr2 k r1 r2 Hac R1 R2 H1 H2.
  apply (agrees_trans r1 (ev p k) r2).
  - exact (bigstep_agrees_s p s1 tr1 Hac R1 k r1 H1).
  - apply agrees_sym. exact (bigstep_agrees_s p s2 tr2 Hac R2 k r2 H2).
Qed.

Theorem success_schedule_independent : forall p s1 tr1 s2 tr2 k r2,
  acyclic p -> reach true p s1 tr1 -> reach true p s2 tr2 ->
  In (BodyEnd k RNil) tr1 -> In (BodyEnd k r2) tr2 -> r2 = RNil.
Proof.
  intros p s1 tr1 s2 tr2 k r2 Hac R1 R2 H1 H2.
  destruct (outcome_schedule_independent p s1 tr1 s2 tr2 k RNil r2 Hac R1 R2 H1 H2) as (Hk & _).
  destruct r2; simpl in Hk; tauto.
Qed.

(* the same call (of a root or of a body) cannot return under one schedule and panic under another,
   and two panics carry the same exit status and the same tokens *)
Theorem call_outcome_schedule_independent : forall p s1 tr1 s2 tr2 t pc c,
  acyclic p -> reach true p s1 tr1 -> reach true p s2 tr2 -> nth_error (calls_of p t) pc = Some c ->
  (In (CallReturn t pc) tr1 -> forall x m, ~ In (CallPanic t pc x m) tr2) /\
  (forall x1 m1 x2 m2, In (CallPanic t pc x1 m1) tr1 -> In (CallPanic t pc x2 m2) tr2 ->
                       x1 = x2 /\ Permutation m1 m2).
Proof.
  intros p s1 tr1 s2 tr2 t pc c Hac R1 R2 Hc. split.
  - intros Hret x m Hpan.
    pose proof (call_return_agrees p s1 tr1 t pc c Hac R1 Hret Hc) as E1.
    destruct (call_panic_agrees p s2 tr2 t pc c x m Hac R2 Hpan Hc) as (m' & E2 & _).
    rewrite E1 in E2. discriminate E2.
  - intros x1 m1 x2 m2 H1 H2.
    destruct (call_panic_agrees p s1 tr1 t pc c x1 m1 Hac R1 H1 Hc) as (m1' & E1 & P1).
    destruct (call_panic_agrees p s2 tr2 t pc c x2 m2 Hac R2 H2 Hc) as (m2' & E2 & P2).
    rewrite E1 in E2. injection E2 as Ex Em. subst. split; [reflexivity|].
    eapply Permutation_trans; [exact P1|apply Permutation_sym; exact P2].
Qed.

(* ================= 4. which dependencies run ================= *)

(* the members a serial call gets to: up to and including the first that is not nil *)
Fixpoint ser_prefix (f : key -> res) (ds : list key) : list key :=
  match ds with
  | [] => []
  | d :: rest => if is_nil (f d) then d :: ser_prefix f rest else [d]
  end.

Definition call_reqs (f : key -> res) (c : call) : list key :=
  match c_style c with Par => c_deps c | Ser => ser_prefix f (c_deps c) end.

(* the members the calls of a body ask for: an unguarded panic ends the body *)
Fixpoint body_reqs (f : key -> res) (cs : list call) : list key :=
  match cs with
  | [] => []
  | c :: rest =>
      call_reqs f c ++
      match call_res f c with
      | CRet => body_reqs f rest
      | CPan _ _ => if c_guarded c then body_reqs f rest else []
      end
  end.

(* what task t asks for itself *)
Definition direct (p : prog) (t : tid) : list key := body_reqs (ev p) (calls_of p t).

Definition root_reqs (p : prog) : list key :=
  flat_map (fun n => direct p (TRoot n)) (seq 0 (length (roots p))).

Definition memb (k : key) (l : list key) : bool := existsb (Nat.eqb k) l.

(* keys n-1, ..., 0 in turn (a body only names smaller keys): a key that has been asked for asks
   for its own members *)
Fixpoint needed_down (p : prog) (n : nat) (acc : list key) : list key :=
  match n with
  | O => acc
  | S n' => needed_down p n' (if memb n' acc then direct p (TBody n') ++ acc else acc)
  end.

(* the dependencies that run, in increasing order *)
Definition needed (p : prog) : list key :=
  filter (fun k => memb k (needed_down p (length (nodes p)) (root_reqs p))) (seq 0 (length (nodes p))).

(* the specification of [needed] *)
Inductive Needed (p : prog) : key -> Prop :=
| needed_root n k : In k (direct p (TRoot n)) -> Needed p k
| needed_body k' k : Needed p k' -> In k (direct p (TBody k')) -> Needed p k.

Lemma is_nil_true : forall r, is_nil r = true -> r = RNil.
Proof. intros r H. destruct r; [reflexivity|discriminate|discriminate]. Qed.

Lemma memb_In : forall k l, memb k l = true <-> In k l.
Proof.
  intros k l. unfold memb. rewrite existsb_exists. split.
  - intros (x & Hx & E). apply Nat.eqb_eq in E. subst x. exact Hx.
  - intros H. exists k. split; [exact H|apply Nat.eqb_refl].
Qed.

Lemma ser_prefix_in : forall f ds k, In k (ser_prefix f ds) <->
  exists i, nth_error ds i = Some k /\
            forall i' k', i' < i -> nth_error ds i' = Some k' -> f k' = RNil.
Proof.
  intros f ds. induction ds as [|d ds IH]; intros k; simpl.
  - split; [intros []|]. intros (i & Hi & _). destruct i; discriminate.
  - split.
    + intros Hin. destruct (is_nil (f d)) eqn:Hn.
      * destruct Hin as [E|Hin].
        -- subst d. exists 0. split; [reflexivity|]. intros i' k' Hlt. lia.
        -- apply IH in Hin. destruct Hin as (i & Hi & Hprev). exists (S i). split; [exact Hi|].
           intros i' k' Hlt Hi'. destruct i' as [|i']; simpl in Hi'.
           ++ inversion Hi'; subst k'. apply is_nil_true. exact Hn.
           ++ apply (Hprev i' k'); [lia|exact Hi'].
      * destruct Hin as [E|[]]. subst d. exists 0. split; [reflexivity|]. intros i' k' Hlt. lia.
    + intros (i & Hi & Hprev). destruct i as [|i]; simpl in Hi.
      * inversion Hi; subst d. destruct (is_nil (f k)); left; reflexivity.
      * rewrite (Hprev 0 d) by (first [lia|reflexivity]). simpl. right. apply IH.
        exists i. split; [exact Hi|]. intros i' k' Hlt Hi'. apply (Hprev (S i') k'); [lia|exact Hi'].
Qed.

Lemma call_reqs_deps : forall f c k, In k (call_reqs f c) -> In k (c_deps c).
Proof.
  intros f c k H. unfold call_reqs in H. destruct (c_style c); [exact H|].
  apply ser_prefix_in in H. destruct H as (i & Hi & _). exact (nth_error_In _ _ Hi).
Qed.

Lemma body_reqs_in : forall f cs k, In k (body_reqs f cs) ->
  exists pc c, nth_error cs pc = Some c /\ In k (call_reqs f c) /\
               forall i c', i < pc -> nth_error cs i = Some c' -> passes f c'.
Proof.
  intros f cs. induction cs as [|c cs IH]; intros k Hin; [destruct Hin|].
  simpl in Hin. apply in_app_or in Hin. destruct Hin as [Hin|Hin].
  - exists 0, c. split; [reflexivity|]. split; [exact Hin|]. intros i c' Hlt. lia.
  - assert (Hc : passes f c /\ In k (body_reqs f cs)).
    { unfold passes. destruct (call_res f c).
      - split; [left; reflexivity|exact Hin].
      - destruct (c_guarded c); [split; [right; reflexivity|exact Hin]|destruct Hin]. }
    destruct Hc as [Hc Hin'].
    destruct (IH k Hin') as (pc & c0 & Hpc & Hk & Hprev).
    exists (S pc), c0. split; [exact Hpc|]. split; [exact Hk|].
    intros i c' Hlt Hi. destruct i as [|i]; simpl in Hi.
    + inversion Hi; subst c'. exact Hc.
    + apply (Hprev i c'); [lia|exact Hi].
Qed.

Lemma body_reqs_intro : forall f cs pc c k,
  nth_error cs pc = Some c -> In k (call_reqs f c) ->
  (forall i c', i < pc -> nth_error cs i = Some c' -> passes f c') -> In k (body_reqs f cs).
Proof.
  intros f cs. induction cs as [|c0 cs IH]; intros pc c k Hpc Hk Hprev.
  - destruct pc; discriminate.
  - simpl. apply in_or_app. destruct pc as [|pc]; simpl in Hpc.
    + inversion Hpc; subst c0. left. exact Hk.
    + right.
      assert (Hin : In k (body_reqs f cs)).
      { apply (IH pc c k Hpc Hk). intros i c' Hlt Hi. apply (Hprev (S i) c'); [lia|exact Hi]. }
      assert (H0 : passes f c0) by (apply (Hprev 0 c0); [lia|reflexivity]).
      destruct H0 as [H0|H0].
      * rewrite H0. exact Hin.
      * destruct (call_res f c0); [exact Hin|]. rewrite H0. exact Hin.
Qed.

Lemma direct_smaller : forall p t k, acyclic p -> In k (direct p t) ->
  k < rank p t /\ k < length (nodes p).
Proof.
  intros p t k Hac Hin. unfold direct in Hin.
  destruct (body_reqs_in _ _ _ Hin) as (pc & c & Hc & Hk & _).
  exact (dep_smaller p t pc c k Hac Hc (call_reqs_deps _ _ _ Hk)).
Qed.

Lemma Needed_lt : forall p k, acyclic p -> Needed p k -> k < length (nodes p).
Proof.
  intros p k Hac H. destruct H as [n k H|k' k _ H]; exact (proj2 (direct_smaller p _ k Hac H)).
Qed.

Lemma needed_down_spec : forall p, acyclic p -> forall n acc,
  (forall k, In k acc -> Needed p k) ->
  (forall m k, In k (direct p (TRoot m)) -> In k acc) ->
  (forall k' k, n <= k' -> In k' acc -> In k (direct p (TBody k')) -> In k acc) ->
  forall k, In k (needed_down p n acc) <-> Needed p k.
Proof.
  intros p Hac. induction n as [|n IH]; intros acc Hsound Hroot Hclosed k.
  - simpl. split; [apply Hsound|]. intros HN. induction HN as [m k Hk|k' k HN' IHN Hk].
    + exact (Hroot m k Hk).
    + apply (Hclosed k' k); [lia|exact IHN|exact Hk].
  - simpl. apply IH.
    + intros k0 Hk0. destruct (memb n acc) eqn:Hm; [|exact (Hsound k0 Hk0)].
      apply in_app_or in Hk0. destruct Hk0 as [Hk0|Hk0]; [|exact (Hsound k0 Hk0)].
      apply (needed_body p n k0); [|exact Hk0]. apply Hsound. apply memb_In. exact Hm.
    + intros m k0 Hk0. pose proof (Hroot m k0 Hk0) as Hin.
      destruct (memb n acc); [apply in_or_app; right|]; exact Hin.
    + intros k' k0 Hle Hk' Hk0.
      assert (Hold : In k' acc).
      { destruct (memb n acc); [|exact Hk'].
        apply in_app_or in Hk'. destruct Hk' as [Hk'|Hk']; [|exact Hk'].
        destruct (direct_smaller p (TBody n) k' Hac Hk') as [Hlt _]. simpl in Hlt. lia. }
      destruct (Nat.eq_dec k' n) as [E|Hne].
      * subst k'. apply memb_In in Hold. rewrite Hold. apply in_or_app. left. exact Hk0.
      * assert (Hin : In k0 acc) by (apply (Hclosed k' k0); [lia|exact Hold|exact Hk0]).
        destruct (memb n acc); [apply in_or_app; right|]; exact Hin.
Qed.

Lemma needed_spec : forall p k, acyclic p -> (In k (needed p) <-> Needed p k).
Proof.
  intros p k Hac. unfold needed. rewrite filter_In, memb_In, in_seq.
  assert (Hspec : In k (needed_down p (length (nodes p)) (root_reqs p)) <-> Needed p k).
  { apply needed_down_spec; [exact Hac| | |].
    - intros k0 Hk0. unfold root_reqs in Hk0. apply in_flat_map in Hk0.
      destruct Hk0 as (m & _ & Hk0). exact (needed_root p m k0 Hk0).
    - intros m k0 Hk0. unfold root_reqs. apply in_flat_map. exists m. split; [|exact Hk0].
      apply in_seq. split; [lia|]. simpl.
      destruct (body_reqs_in _ _ _ Hk0) as (pc & c & Hc & _). simpl in Hc.
      destruct (nth_error (roots p) m) as [[cs cx]|] eqn:E.
      + apply nth_error_Some. rewrite E. discriminate.
      + destruct pc; discriminate.
    - intros k' k0 Hle _ Hk0. exfalso.
      destruct (body_reqs_in _ _ _ Hk0) as (pc & c & Hc & _). simpl in Hc.
      rewrite (bodies_overflow p k' Hle) in Hc. destruct pc; discriminate. }
  rewrite Hspec. split; [intros [_ H]; exact H|].
  intros H. split; [|exact H]. pose proof (Needed_lt p k Hac H). lia.
Qed.

(* ---- trace facts ---- *)

Lemma nstart_pos : forall k tr, nstart k tr <> 0 <-> exists cx, In (BodyStart k cx) tr.
Proof.
  intros k tr. unfold nstart. split.
  - intros H. destruct (filter (is_start k) tr) as [|e l] eqn:E; [contradiction H; reflexivity|].
    assert (Hin : In e (filter (is_start k) tr)) by (rewrite E; left; reflexivity).
    apply filter_In in Hin. destruct Hin as [Hin He].
    destruct e as [n|k' c|k' o|t pc|t pc|t pc x m]; simpl in He; try discriminate.
    apply Nat.eqb_eq in He. subst k'. exists c. exact Hin.
  - intros (cx & Hin) E.
    assert (Hf : In (BodyStart k cx) (filter (is_start k) tr)).
    { apply filter_In. split; [exact Hin|]. simpl. apply Nat.eqb_refl. }
    destruct (filter (is_start k) tr); [destruct Hf|discriminate E].
Qed.

Lemma task_persists : forall fixed p s a s' ev t tk,
  step fixed p s a = Some (s', ev) -> tasks s t = Some tk -> exists tk', tasks s' t = Some tk'.
Proof.
  intros fixed p s a s' ev t tk E Ht.
  destruct (step_shape _ _ _ _ _ _ E) as (t0 & tk0 & tk0' & Ht0 & _ & [Es|(k & cx & _ & Es)]); rewrite Es.
  - destruct (B_tid_dec t t0) as [Heq|Hne].
    + subst t0. rewrite updt_eq. eauto.
    + rewrite updt_neq by exact Hne. eauto.
  - destruct (B_tid_dec t (TBody k)) as [Heq|Hne].
    + subst t. rewrite updt_eq. eauto.
    + rewrite updt_neq by exact Hne. destruct (B_tid_dec t t0) as [Heq0|Hne0].
      * subst t0. rewrite updt_eq. eauto.
      * rewrite updt_neq by exact Hne0. eauto.
Qed.

Lemma root_task_exists : forall fixed p s tr n cs cx,
  reach fixed p s tr -> nth_error (roots p) n = Some (cs, cx) -> exists tk, tasks s (TRoot n) = Some tk.
Proof.
  intros fixed p s tr n cs cx R Hn. induction R as [|s tr a s' ev R IH H].
  - simpl. rewrite Hn. eauto.
  - destruct IH as (tk & Htk). exact (task_persists fixed p s a s' ev (TRoot n) tk H Htk).
Qed.

(* where a body was started: by a goroutine of a call that got to it *)
Lemma start_reached : forall p s tr k cx,
  reach true p s tr -> In (BodyStart k cx) tr ->
  exists t pc c, In (CallEnter t pc) tr /\ nth_error (calls_of p t) pc = Some c /\ reached_by tr c k.
Proof.
  intros p s tr k cx R Hin. destruct (in_split _ _ Hin) as (pre & post & Htr).
  destruct (emitted_at _ _ _ _ _ _ _ R Htr)
    as (s0 & tr0 & a & s1 & ev & l1 & l2 & post' & R0 & Hstep & Hev & _ & _ & Htr').
  assert (Hine : In (BodyStart k cx) ev) by (rewrite Hev; apply in_or_app; right; left; reflexivity).
  destruct a as [t|t j].
  - exfalso. simpl in Hstep. exact (step_task_no_start _ _ _ _ _ _ _ Hstep Hine).
  - destruct (tasks s0 t) as [tk|] eqn:Htk.
    2:{ simpl in Hstep. unfold step_go in Hstep. rewrite Htk in Hstep. discriminate. }
    destruct (go_start_inv _ _ _ _ _ _ _ _ _ _ Hstep Hine Htk) as (r & st & Hph & Hm).
    destruct (reach_inv _ _ _ _ R0) as [HA [HB HC]].
    pose proof (b_round _ _ _ _ HB t tk r st Htk Hph) as HR.
    destruct (b_rd _ _ _ _ _ _ _ _ HR) as (c & Hc & Hrd & _ & Hent).
    exists t, (t_pc tk), c. rewrite Htr'. split; [|split; [exact Hc|]].
    + apply in_or_app. left. apply in_or_app. left. exact Hent.
    + apply reached_by_mono. apply reached_by_mono.
      unfold reached_by. destruct (c_style c) eqn:Hs.
      * eapply B_round_member; [exact Hrd|]. eapply nth_error_In. exact Hm.
      * exact (order p s0 tr0 t j s1 ev k cx tk c R0 Hstep Hine Htk Hc Hs).
Qed.

(* ---- the two directions ---- *)

Section Needed.
Variable p : prog.
Variable s : cfg.
Variable tr : list event.
Hypothesis Hac : acyclic p.
Hypothesis R : reach true p s tr.

Let IA : InvA p s tr := proj1 (reach_inv true p s tr R).
Let IC : InvC true p s tr := proj2 (proj2 (reach_inv true p s tr R)).

Lemma started_cell : forall k, (exists cx, In (BodyStart k cx) tr) <-> cells s k <> NotStarted.
Proof.
  intros k. rewrite <- nstart_pos. rewrite (a_cnt p s tr IA k).
  destruct (cells s k); split; intro H; try discriminate; try (exfalso; apply H; reflexivity).
Qed.

Lemma started_task : forall k, cells s k <> NotStarted -> exists tk, tasks s (TBody k) = Some tk.
Proof.
  intros k H. destruct (cells s k) as [| |r] eqn:E; [contradiction H; reflexivity| |].
  - destruct (a_run p s tr IA k E) as (tk & Htk & _). eauto.
  - destruct (a_fin p s tr IA k r E) as (tk & Htk & _). eauto.
Qed.

(* a call that was entered: the calls before it let the big-step body go on *)
Lemma entered_passes : forall t pc, In (CallEnter t pc) tr ->
  forall i c, i < pc -> nth_error (calls_of p t) i = Some c -> passes (ev p) c.
Proof.
  intros t pc Hent i c Hlt Hc.
  destruct (a_enter p s tr IA t pc Hent) as (tk & c0 & Htk & _ & Hwhere).
  apply (past_passes p s tr R (ev p) t tk i c (ev_right_on p s tr Hac R c) Htk); [|exact Hc|].
  - destruct Hwhere as [H|[H _]]; lia.
  - intros x m Hpan. destruct (c_guarded c) eqn:Hg; [reflexivity|]. exfalso.
    destruct (no_dependent_continues p s tr t i x m c R Hpan Hc Hg) as [Hno _].
    exact (Hno pc Hlt Hent).
Qed.

Lemma reached_reqs : forall c k, reached_by tr c k -> In k (call_reqs (ev p) c).
Proof.
  intros c k H. unfold reached_by in H. unfold call_reqs. destruct (c_style c); [exact H|].
  destruct H as (i & Hi & Hprev). apply ser_prefix_in. exists i. split; [exact Hi|].
  intros i' k' Hlt Hi'. apply agrees_nil_l.
  exact (bigstep_agrees_s p s tr Hac R k' RNil (Hprev i' k' Hlt Hi')).
Qed.

(* safety, in every reachable configuration: whatever has started is needed *)
Theorem started_needed_s : forall k cx, In (BodyStart k cx) tr -> Needed p k.
Proof.
  assert (H : forall n k, length (nodes p) - k < n -> (exists cx, In (BodyStart k cx) tr) -> Needed p k).
  { induction n as [|n IH]; intros k Hn (cx & Hin); [lia|].
    destruct (start_reached p s tr k cx R Hin) as (t & pc & c & Hent & Hc & Hrb).
    assert (Hdir : In k (direct p t)).
    { unfold direct. apply (body_reqs_intro (ev p) _ pc c k Hc (reached_reqs c k Hrb)).
      exact (entered_passes t pc Hent). }
    destruct t as [m|k'].
    - exact (needed_root p m k Hdir).
    - apply (needed_body p k' k); [|exact Hdir].
      destruct (direct_smaller p (TBody k') k Hac Hdir) as [Hlt _]. simpl in Hlt.
      destruct (a_enter p s tr IA (TBody k') pc Hent) as (tk & _ & Htk & _).
      assert (Hk' : k' < length (nodes p)) by exact (body_dom true p s tr k' tk Hac R Htk).
      apply IH; [lia|]. apply started_cell. intro E.
      rewrite (a_ns p s tr IA k' E) in Htk. discriminate. }
  intros k cx Hin. apply (H (S (length (nodes p) - k)) k); [lia|]. exists cx. exact Hin.
Qed.

Hypothesis Hfin : final s.

(* the calls a finished task entered are those the big-step body gets to *)
Lemma finished_entered : forall t tk pc c,
  tasks s t = Some tk -> nth_error (calls_of p t) pc = Some c ->
  (forall i c', i < pc -> nth_error (calls_of p t) i = Some c' -> passes (ev p) c') ->
  In (CallEnter t pc) tr.
Proof.
  intros t tk pc c Htk Hc Hprev.
  assert (Hpc : pc < t_pc tk).
  { destruct (c_fin true p s tr IC t tk Htk (Hfin t tk Htk))
      as [(Hlen & _)|(pc0 & c0 & x & m & Hpc0 & Hc0 & Hug & Hpan & _)].
    - assert (pc < length (calls_of p t)) by (apply nth_error_Some; rewrite Hc; discriminate). lia.
    - destruct (le_lt_dec pc pc0) as [Hle|Hgt]; [lia|]. exfalso.
      destruct (Hprev pc0 c0 Hgt Hc0) as [Hret|Hg]; [|rewrite Hg in Hug; discriminate].
      destruct (call_panic_agrees_s p s tr Hac R t pc0 c0 x m Hpan Hc0) as (m' & E & _).
      rewrite Hret in E. discriminate. }
  exact (proj1 (c_past true p s tr IC t tk pc c Htk Hpc Hc)).
Qed.

Lemma reqs_reached : forall t pc c k,
  In (CallEnter t pc) tr -> nth_error (calls_of p t) pc = Some c ->
  In k (call_reqs (ev p) c) -> reached_by tr c k.
Proof.
  intros t pc c k Hent Hc Hk. unfold call_reqs in Hk. unfold reached_by.
  destruct (c_style c) eqn:Hs; [exact Hk|].
  apply ser_prefix_in in Hk. destruct Hk as (i & Hi & Hprev). exists i. split; [exact Hi|].
  assert (H : forall j, j <= i -> forall i' k', i' < j -> nth_error (c_deps c) i' = Some k' ->
                                         In (BodyEnd k' RNil) tr).
  { induction j as [|j IH]; intros Hj i' k' Hlt Hi'; [lia|].
    destruct (Nat.eq_dec i' j) as [E|Hne]; [|apply (IH ltac:(lia) i' k'); [lia|exact Hi']].
    subst i'.
    assert (Hrb : reached_by tr c k').
    { unfold reached_by. rewrite Hs. exists j. split; [exact Hi'|]. apply IH. lia. }
    destruct (named_runs p s tr t pc c k' R Hfin Hent Hc Hrb) as [_ Hend].
    rewrite (a_cnt_end p s tr IA k') in Hend.
    destruct (cells s k') as [| |r] eqn:Hcell; try discriminate.
    pose proof (cell_end p s tr R k' r Hcell) as Hin.
    pose proof (bigstep_agrees_s p s tr Hac R k' r Hin) as Hag.
    rewrite (Hprev j k') in Hag by (first [lia|exact Hi']).
    apply agrees_nil_r in Hag. subst r. exact Hin. }
  exact (H i (le_n i)).
Qed.

Lemma direct_started : forall t tk k,
  tasks s t = Some tk -> In k (direct p t) -> nstart k tr = 1 /\ nend k tr = 1.
Proof.
  intros t tk k Htk Hin. unfold direct in Hin.
  destruct (body_reqs_in _ _ _ Hin) as (pc & c & Hc & Hk & Hprev).
  pose proof (finished_entered t tk pc c Htk Hc Hprev) as Hent.
  exact (named_runs p s tr t pc c k R Hfin Hent Hc (reqs_reached t pc c k Hent Hc Hk)).
Qed.

(* liveness, at the end of every maximal run: whatever is needed has run, once and to its end *)
Theorem needed_started_s : forall k, Needed p k -> nstart k tr = 1 /\ nend k tr = 1.
Proof.
  intros k HN. induction HN as [m k Hk|k' k HN' IHN Hk].
  - destruct (body_reqs_in _ _ _ Hk) as (pc & c & Hc & _). simpl in Hc.
    destruct (nth_error (roots p) m) as [[cs cx]|] eqn:E; [|destruct pc; discriminate].
    destruct (root_task_exists true p s tr m cs cx R E) as (tk & Htk).
    exact (direct_started (TRoot m) tk k Htk Hk).
  - destruct IHN as [Hst _].
    assert (Hcell : cells s k' <> NotStarted).
    { intro E. rewrite (a_cnt p s tr IA k'), E in Hst. discriminate. }
    destruct (started_task k' Hcell) as (tk & Htk).
    exact (direct_started (TBody k') tk k Htk Hk).
Qed.

End Needed.

(* ---- the statements of Props/Engine_bigstep.v, part 2 ---- *)

Theorem only_needed_start : forall p s tr k cx,
  acyclic p -> reach true p s tr -> In (BodyStart k cx) tr -> In k (needed p).
Proof.
  intros p s tr k cx Hac R Hin. apply (needed_spec p k Hac).
  exact (started_needed_s p s tr Hac R k cx Hin).
Qed.

Theorem needed_iff_started : forall p s tr k,
  acyclic p -> reach true p s tr -> final s ->
  (In k (needed p) <-> exists cx, In (BodyStart k cx) tr).
Proof.
  intros p s tr k Hac R Hfin. split.
  - intros Hin. apply nstart_pos.
    destruct (needed_started_s p s tr Hac R Hfin k (proj1 (needed_spec p k Hac) Hin)) as [H _].
    rewrite H. discriminate.
  - intros (cx & Hin). exact (only_needed_start p s tr k cx Hac R Hin).
Qed.

(* ... each exactly once, to its end, with the outcome the evaluator gives *)
Theorem needed_run_once_with_outcome : forall p s tr k,
  acyclic p -> reach true p s tr -> final s -> In k (needed p) ->
  nstart k tr = 1 /\ nend k tr = 1 /\
  exists r, In (BodyEnd k r) tr /\
            same_kind r (ev p k) /\ status r = status (ev p k) /\ Permutation (message r) (message (ev p k)).
Proof.
  intros p s tr k Hac R Hfin Hin.
  destruct (needed_started_s p s tr Hac R Hfin k (proj1 (needed_spec p k Hac) Hin)) as [Hs He].
  split; [exact Hs|]. split; [exact He|].
  destruct (reach_inv _ _ _ _ R) as [HA _].
  rewrite (a_cnt_end p s tr HA k) in He.
  destruct (cells s k) as [| |r] eqn:Hcell; try discriminate.
  exists r. pose proof (cell_end p s tr R k r Hcell) as Hend. split; [exact Hend|].
  exact (bigstep_agrees p s tr k r Hac R Hend).
Qed.

(* the same for a schedule run from the start until nothing can move *)
Theorem maximal_run_starts_needed : forall p acts s tr k,
  acyclic p -> run true p (init p) acts = Some (s, tr) -> (forall a, step true p s a = None) ->
  (In k (needed p) <-> exists cx, In (BodyStart k cx) tr).
Proof.
  intros p acts s tr k Hac Hrun Hst.
  pose proof (run_reach true p acts (init p) [] s tr (reach_init true p) Hrun) as R. simpl in R.
  apply (needed_iff_started p s tr k Hac R).
  exact (maximal_run_final true p (init p) [] acts s tr Hac (reach_init true p) Hrun Hst).
Qed.

(* so two maximal runs start the same dependencies *)
Theorem maximal_runs_start_the_same : forall p acts1 s1 tr1 acts2 s2 tr2 k,
  acyclic p ->
  run true p (init p) acts1 = Some (s1, tr1) -> (forall a, step true p s1 a = None) ->
  run true p (init p) acts2 = Some (s2, tr2) -> (forall a, step true p s2 a = None) ->
  ((exists cx, In (BodyStart k cx) tr1) <-> (exists cx, In (BodyStart k cx) tr2)).
Proof.
  intros p acts1 s1 tr1 acts2 s2 tr2 k Hac H1 St1 H2 St2.
  rewrite <- (maximal_run_starts_needed p acts1 s1 tr1 k Hac H1 St1).
  exact (maximal_run_starts_needed p acts2 s2 tr2 k Hac H2 St2).
Qed.

(* ================= 5. non-vacuity: one program, two schedules ================= *)

Definition mkcall (st : style) (g : bool) (ds : list key) : call :=
  {| c_style := st; c_ctx := Bg; c_deps := ds; c_guarded := g |}.

(* 0 succeeds; 1 and 2 both depend on 0 and fail with different statuses (an error with status 2, a
   panic with status 3); 3 succeeds but nobody ever gets to it; 4 = a diamond over 0:
     - serially [0; 1; 3], recovered: the middle member 1 fails, 3 is not asked;
     - in parallel [1; 2], not recovered: Fatal(1, both messages) ends the body;
     - [3]: never reached;
   5 recovers from the failure of 4 and fails with its own error;
   the root recovers from 5, then stops at the first member of the serial [2; 4], so its last call
   ([3]) is never made. *)
Definition ex_prog : prog :=
  {| nodes := [ {| b_calls := []; b_result := Ok; b_name := 0 |};
                {| b_calls := [mkcall Par false [0]]; b_result := Err 2 [7]; b_name := 1 |};
                {| b_calls := [mkcall Par false [0]]; b_result := PanicErr 3 [8]; b_name := 2 |};
                {| b_calls := []; b_result := Ok; b_name := 3 |};
                {| b_calls := [mkcall Ser true [0; 1; 3]; mkcall Par false [1; 2]; mkcall Par false [3]];
                   b_result := Ok; b_name := 4 |};
                {| b_calls := [mkcall Par true [4]]; b_result := Err 5 [9]; b_name := 5 |} ];
     roots := [ ([mkcall Par true [5]; mkcall Ser false [2; 4]; mkcall Par false [3]], CBg) ];
     verbose := false |}.

Lemma ex_acyclic : acyclic ex_prog.
Proof. apply acyclicb_sound. vm_compute. reflexivity. Qed.

Lemma ex_ev : map (ev ex_prog) [0; 1; 2; 3; 4; 5] =
  [RNil; RErr 2 [7]; RPanic 3 [8]; RNil; RPanic 1 [7; 8]; RErr 5 [9]].
Proof. vm_compute. reflexivity. Qed.

Lemma ex_calls :
  ev_call ex_prog (TBody 4) 0 = Some (CPan 2 [7]) /\ ev_call ex_prog (TBody 4) 1 = Some (CPan 1 [7; 8]) /\
  ev_call ex_prog (TBody 5) 0 = Some (CPan 1 [7; 8]) /\
  ev_call ex_prog (TRoot 0) 0 = Some (CPan 5 [9]) /\ ev_call ex_prog (TRoot 0) 1 = Some (CPan 3 [8]) /\
  ev_call ex_prog (TBody 1) 0 = Some CRet.
Proof. vm_compute. repeat split; reflexivity. Qed.

Lemma ex_needed : needed ex_prog = [0; 1; 2; 4; 5].
Proof. vm_compute. reflexivity. Qed.

(* a generator of maximal schedules: always take the first enabled action of a priority list *)
Definition enabled (p : prog) (s : cfg) (a : action) : bool :=
  match step true p s a with Some _ => true | None => false end.

Fixpoint drive (p : prog) (cands : list action) (fuel : nat) (s : cfg) : list action :=
  match fuel with
  | O => []
  | S f => match find (enabled p s) cands with
           | None => []
           | Some a => match step true p s a with
                       | Some (s', _) => a :: drive p cands f s'
                       | None => []
                       end
           end
  end.

Definition width (p : prog) : nat :=
  fold_right Nat.max 0 (map (fun c => length (c_deps c))
    (flat_map (fun b => b_calls b) (nodes p) ++ flat_map (fun r => fst r) (roots p))).

(* roots first, goroutines in spawn order *)
Definition prio_fwd (p : prog) : list action :=
  flat_map (fun t => ATask t :: map (AGo t) (seq 0 (width p))) (all_tids p).
(* deepest body first, goroutines in reverse order *)
Definition prio_rev (p : prog) : list action :=
  flat_map (fun t => ATask t :: rev (map (AGo t) (seq 0 (width p))))
           (map TBody (seq 0 (length (nodes p))) ++ map TRoot (seq 0 (length (roots p)))).

Definition sched_fwd : list action :=
  [ATask (TRoot 0); ATask (TRoot 0); AGo (TRoot 0) 0;
   ATask (TBody 5); ATask (TBody 5); AGo (TBody 5) 0;
   ATask (TBody 4); ATask (TBody 4); AGo (TBody 4) 0;
   ATask (TBody 0); AGo (TBody 4) 0; AGo (TBody 4) 0;
   ATask (TBody 4); ATask (TBody 4); AGo (TBody 4) 0;
   ATask (TBody 1); ATask (TBody 1); AGo (TBody 1) 0;
   AGo (TBody 1) 0; ATask (TBody 1); ATask (TBody 1);
   AGo (TBody 4) 0; AGo (TBody 4) 0; ATask (TBody 4);
   ATask (TBody 4); ATask (TBody 4); ATask (TBody 4);
   AGo (TBody 4) 0; AGo (TBody 4) 0; AGo (TBody 4) 1;
   ATask (TBody 2); ATask (TBody 2); AGo (TBody 2) 0;
   AGo (TBody 2) 0; ATask (TBody 2); ATask (TBody 2);
   AGo (TBody 4) 1; AGo (TBody 4) 1; ATask (TBody 4);
   ATask (TBody 4); AGo (TBody 5) 0; AGo (TBody 5) 0;
   ATask (TBody 5); ATask (TBody 5); AGo (TRoot 0) 0;
   AGo (TRoot 0) 0; ATask (TRoot 0); ATask (TRoot 0);
   ATask (TRoot 0); AGo (TRoot 0) 0; AGo (TRoot 0) 0;
   ATask (TRoot 0); ATask (TRoot 0)].

(* the same up to the parallel call of 4, where the goroutine of member 2 reports before that of 1 *)
Definition sched_rev : list action :=
  [ATask (TRoot 0); ATask (TRoot 0); AGo (TRoot 0) 0;
   ATask (TBody 5); ATask (TBody 5); AGo (TBody 5) 0;
   ATask (TBody 4); ATask (TBody 4); AGo (TBody 4) 0;
   ATask (TBody 0); AGo (TBody 4) 0; AGo (TBody 4) 0;
   ATask (TBody 4); ATask (TBody 4); AGo (TBody 4) 0;
   ATask (TBody 1); ATask (TBody 1); AGo (TBody 1) 0;
   AGo (TBody 1) 0; ATask (TBody 1); ATask (TBody 1);
   AGo (TBody 4) 0; AGo (TBody 4) 0; ATask (TBody 4);
   ATask (TBody 4); ATask (TBody 4); ATask (TBody 4);
   AGo (TBody 4) 1; ATask (TBody 2); ATask (TBody 2);
   AGo (TBody 2) 0; AGo (TBody 2) 0; ATask (TBody 2);
   ATask (TBody 2); AGo (TBody 4) 1; AGo (TBody 4) 1;
   AGo (TBody 4) 0; AGo (TBody 4) 0; ATask (TBody 4);
   ATask (TBody 4); AGo (TBody 5) 0; AGo (TBody 5) 0;
   ATask (TBody 5); ATask (TBody 5); AGo (TRoot 0) 0;
   AGo (TRoot 0) 0; ATask (TRoot 0); ATask (TRoot 0);
   ATask (TRoot 0); AGo (TRoot 0) 0; AGo (TRoot 0) 0;
   ATask (TRoot 0); ATask (TRoot 0)].

Lemma sched_fwd_driven : drive ex_prog (prio_fwd ex_prog) (bound ex_prog) (init ex_prog) = sched_fwd.
Proof. vm_compute. reflexivity. Qed.

Lemma sched_rev_driven : drive ex_prog (prio_rev ex_prog) (bound ex_prog) (init ex_prog) = sched_rev.
Proof. vm_compute. reflexivity. Qed.

Definition ends (tr : list event) : list (key * res) :=
  flat_map (fun e => match e with BodyEnd k r => [(k, r)] | _ => [] end) tr.
Definition starts (tr : list event) : list key :=
  flat_map (fun e => match e with BodyStart k _ => [k] | _ => [] end) tr.
Definition call_ends (tr : list event) : list (tid * nat * cres) :=
  flat_map (fun e => match e with
                     | CallReturn t pc => [(t, pc, CRet)]
                     | CallPanic t pc x m => [(t, pc, CPan x m)]
                     | _ => []
                     end) tr.

Definition end_fwd : cfg * list event :=
  match run true ex_prog (init ex_prog) sched_fwd with Some x => x | None => (init ex_prog, []) end.
Definition end_rev : cfg * list event :=
  match run true ex_prog (init ex_prog) sched_rev with Some x => x | None => (init ex_prog, []) end.

Lemma ex_final : forall s, (s = fst end_fwd \/ s = fst end_rev) -> final s.
Proof.
  intros s [E|E]; subst s; intros t tk H;
    destruct t as [[|[|n]]|[|[|[|[|[|[|k]]]]]]]; vm_compute in H; try discriminate;
      inversion H; subst; reflexivity.
Qed.

(* the first schedule: a maximal run; what it starts is [needed ex_prog] (3 does not run), and every
   body and every call ends exactly as the evaluator says *)
Lemma ex_fwd_agrees : exists s tr,
  run true ex_prog (init ex_prog) sched_fwd = Some (s, tr) /\ final s /\
  starts tr = [5; 4; 0; 1; 2] /\
  ends tr = map (fun k => (k, ev ex_prog k)) [0; 1; 2; 4; 5] /\
  Forall (fun e => ev_call ex_prog (fst (fst e)) (snd (fst e)) = Some (snd e)) (call_ends tr).
Proof.
  exists (fst end_fwd), (snd end_fwd). split; [vm_compute; reflexivity|].
  split; [apply ex_final; left; reflexivity|].
  split; [vm_compute; reflexivity|]. split; [vm_compute; reflexivity|].
  vm_compute. repeat constructor.
Qed.

(* the second schedule: the same outcomes, but the Fatal message of 4 (and of the call of 5 that
   sees it) lists the two failures in the other order: "up to a permutation" cannot be improved *)
Lemma ex_rev_agrees : exists s tr,
  run true ex_prog (init ex_prog) sched_rev = Some (s, tr) /\ final s /\
  starts tr = [5; 4; 0; 1; 2] /\
  ends tr = [(0, RNil); (1, RErr 2 [7]); (2, RPanic 3 [8]); (4, RPanic 1 [8; 7]); (5, RErr 5 [9])] /\
  In (CallPanic (TBody 5) 0 1 [8; 7]) tr /\ ev ex_prog 4 = RPanic 1 [7; 8].
Proof.
  exists (fst end_rev), (snd end_rev). split; [vm_compute; reflexivity|].
  split; [apply ex_final; right; reflexivity|].
  split; [vm_compute; reflexivity|]. split; [vm_compute; reflexivity|].
  split; [vm_compute; tauto|vm_compute; reflexivity].
Qed.

Lemma message_order_depends_on_schedule : exists p acts1 s1 tr1 acts2 s2 tr2 k x m1 m2,
  acyclic p /\ run true p (init p) acts1 = Some (s1, tr1) /\ run true p (init p) acts2 = Some (s2, tr2) /\
  In (BodyEnd k (RPanic x m1)) tr1 /\ In (BodyEnd k (RPanic x m2)) tr2 /\ m1 <> m2.
Proof.
  exists ex_prog, sched_fwd, (fst end_fwd), (snd end_fwd), sched_rev, (fst end_rev), (snd end_rev),
         4, 1%Z, [7; 8], [8; 7].
  split; [exact ex_acyclic|]. split; [vm_compute; reflexivity|]. split; [vm_compute; reflexivity|].
  split; [vm_compute; tauto|]. split; [vm_compute; tauto|]. discriminate.
Qed.
