(* The small-step engine agrees with a big-step evaluator under EVERY schedule: what a dependency's
   body ends with (and how every call ends) is a function of the program alone, up to the order of
   the failure tokens in a message.  Statements are restated in Props/Engine_bigstep.v.

   Everything is read off the invariant of reachable configurations (Deps_inv.reach_inv) through
   the C01/C03/C13 lemmas; the evaluator is executable ([vm_compute]). *)
From Mage Require Import Base.Strs Model.Deps Proof.Deps_defs Proof.Deps_inv Proof.Exit_facts.
From Mage Require Import Proof.Deps_c01 Proof.Deps_c13 Proof.Deps_c03 Proof.Deps_progress.
From Coq Require Import ZArith Lia Permutation.

(* ================= 1. the big-step evaluator ================= *)

(* how a call ends: it returns, or it panics with Fatal(exit, errs) *)
Inductive cres := CRet | CPan (x : Z) (m : msg).

Definition nonnil (r : res) : bool := negb (is_nil r).

(* [f] gives what every member ends with.
   Par: every member is asked; the call returns iff all are nil, otherwise the status is the
        changeExit-fold over all of them and the message lists every failure (here: in list order;
        the engine: in report order).
   Ser: the first member that is not nil stops the call; the later ones are never asked. *)
Definition call_res (f : key -> res) (c : call) : cres :=
  let rs := map f (c_deps c) in
  match c_style c with
  | Par => if forallb is_nil rs then CRet
           else CPan (combine (map status rs)) (concat (map message rs))
  | Ser => match find nonnil rs with
           | None => CRet
           | Some r => CPan (combine [status r]) (message r)
           end
  end.

(* the calls of a body in order: a panic of a guarded call is recovered and the body goes on, an
   unguarded one ends the body; after the last call the body ends with its own result *)
Fixpoint body_res (f : key -> res) (cs : list call) (own : res) : res :=
  match cs with
  | [] => own
  | c :: rest =>
      match call_res f c with
      | CRet => body_res f rest own
      | CPan x m => if c_guarded c then body_res f rest own else RPanic x m
      end
  end.

Fixpoint ev_fuel (p : prog) (n : nat) (k : key) : res :=
  match n with
  | O => RNil
  | S n' => body_res (ev_fuel p n') (b_calls (bodies p k)) (res_of (b_result (bodies p k)))
  end.

(* what the body of k ends with (on acyclic programs the fuel S k is enough: [ev_unfold]) *)
Definition ev (p : prog) (k : key) : res := ev_fuel p (S k) k.

(* how call pc of task t ends *)
Definition ev_call (p : prog) (t : tid) (pc : nat) : option cres :=
  match nth_error (calls_of p t) pc with Some c => Some (call_res (ev p) c) | None => None end.

(* ---- the evaluator does not depend on the fuel ---- *)

Lemma call_res_ext : forall f g c,
  (forall d, In d (c_deps c) -> f d = g d) -> call_res f c = call_res g c.
Proof.
  intros f g c H. unfold call_res. rewrite (map_ext_in f g (c_deps c) H). reflexivity.
Qed.

Lemma body_res_ext : forall f g cs own,
  (forall c d, In c cs -> In d (c_deps c) -> f d = g d) -> body_res f cs own = body_res g cs own.
Proof.
  intros f g cs own. induction cs as [|c cs IH]; intros H; simpl; [reflexivity|].
  rewrite (call_res_ext f g c) by (intros d Hd; apply (H c d); [left; reflexivity|exact Hd]).
  rewrite IH by (intros c' d Hc' Hd; apply (H c' d); [right; exact Hc'|exact Hd]).
  reflexivity.
Qed.

Lemma body_dep_smaller : forall p k c d, acyclic p ->
  In c (b_calls (bodies p k)) -> In d (c_deps c) -> d < k.
Proof.
  intros p k c d Hac Hc Hd. destruct (le_lt_dec (length (nodes p)) k) as [Hge|Hlt].
  - rewrite (bodies_overflow p k Hge) in Hc. destruct Hc.
  - exact (ac_body p Hac k c d Hlt Hc Hd).
Qed.

Lemma ev_fuel_stable : forall p, acyclic p ->
  forall n k m1 m2, k < n -> k < m1 -> k < m2 -> ev_fuel p m1 k = ev_fuel p m2 k.
Proof.
  intros p Hac. induction n as [|n IH]; intros k m1 m2 Hn H1 H2; [lia|].
  destruct m1 as [|m1]; [lia|]. destruct m2 as [|m2]; [lia|]. simpl.
  apply body_res_ext. intros c d Hc Hd.
  pose proof (body_dep_smaller p k c d Hac Hc Hd) as Hlt.
  apply IH; lia.
Qed.

Lemma ev_unfold : forall p k, acyclic p ->
  ev p k = body_res (ev p) (calls_of p (TBody k)) (own_result p (TBody k)).
Proof.
  intros p k Hac. unfold ev at 1. simpl. apply body_res_ext. intros c d Hc Hd.
  pose proof (body_dep_smaller p k c d Hac Hc Hd) as Hlt.
  unfold ev. apply (ev_fuel_stable p Hac (S d)); lia.
Qed.

(* ================= 2. "the same outcome" ================= *)

Definition same_kind (a b : res) : Prop :=
  match a, b with
  | RNil, RNil => True
  | RErr _ _, RErr _ _ => True
  | RPanic _ _, RPanic _ _ => True
  | _, _ => False
  end.

(* same kind, same exit status, the same failure tokens up to order *)
Definition agrees (a b : res) : Prop :=
  same_kind a b /\ status a = status b /\ Permutation (message a) (message b).

Lemma agrees_refl : forall a, agrees a a.
Proof. intros a. split; [destruct a; exact I|]. split; [reflexivity|apply Permutation_refl]. Qed.

Lemma agrees_sym : forall a b, agrees a b -> agrees b a.
Proof.
  intros a b (Hk & Hs & Hm). split; [destruct a, b; simpl in *; tauto|].
  split; [symmetry; exact Hs|apply Permutation_sym; exact Hm].
Qed.

Lemma agrees_trans : forall a b c, agrees a b -> agrees b c -> agrees a c.
Proof.
  intros a b c (Hk & Hs & Hm) (Hk' & Hs' & Hm'). split; [destruct a, b, c; simpl in *; tauto|].
  split; [congruence|eapply Permutation_trans; eassumption].
Qed.

Lemma agrees_is_nil : forall a b, agrees a b -> is_nil a = is_nil b.
Proof. intros a b (Hk & _). destruct a, b; simpl in *; tauto. Qed.

Lemma agrees_nil_l : forall b, agrees RNil b -> b = RNil.
Proof. intros b (Hk & _). destruct b; simpl in Hk; tauto. Qed.

Lemma agrees_nil_r : forall a, agrees a RNil -> a = RNil.
Proof. intros a (Hk & _). destruct a; simpl in Hk; tauto. Qed.

Lemma Forall2_agrees_status : forall rs rs', Forall2 agrees rs rs' -> map status rs = map status rs'.
Proof.
  intros rs rs' H. induction H as [|a b rs rs' Hab H IH]; simpl; [reflexivity|].
  destruct Hab as (_ & Hs & _). rewrite Hs, IH. reflexivity.
Qed.

Lemma Forall2_agrees_message : forall rs rs', Forall2 agrees rs rs' ->
  Permutation (concat (map message rs)) (concat (map message rs')).
Proof.
  intros rs rs' H. induction H as [|a b rs rs' Hab H IH]; simpl; [apply Permutation_refl|].
  destruct Hab as (_ & _ & Hm). apply Permutation_app; assumption.
Qed.

Lemma Forall2_agrees_all_nil : forall rs rs', Forall2 agrees rs rs' ->
  forallb is_nil rs = forallb is_nil rs'.
Proof.
  intros rs rs' H. induction H as [|a b rs rs' Hab H IH]; simpl; [reflexivity|].
  rewrite (agrees_is_nil _ _ Hab), IH. reflexivity.
Qed.

Lemma Forall2_to_map : forall (A B : Type) (P : A -> B -> Prop) (Q : B -> B -> Prop) (f : A -> B) l rs,
  Forall2 P l rs -> (forall a b, In a l -> P a b -> Q b (f a)) -> Forall2 Q rs (map f l).
Proof.
  intros A B P Q f l rs H. induction H as [|a b l rs Hab H IH]; intros HQ; simpl; constructor.
  - apply HQ; [left; reflexivity|exact Hab].
  - apply IH. intros a' b' Ha'. apply HQ. right; exact Ha'.
Qed.

Lemma forallb_is_nil_false : forall rs r, In r rs -> r <> RNil -> forallb is_nil rs = false.
Proof.
  induction rs as [|a rs IH]; intros r Hin Hr; [destruct Hin|]. simpl.
  destruct Hin as [E|Hin].
  - subst a. rewrite (not_nil_is_nil r Hr). reflexivity.
  - rewrite (IH r Hin Hr). apply andb_false_r.
Qed.

Lemma forallb_is_nil_map : forall (f : key -> res) ds,
  (forall d, In d ds -> f d = RNil) -> forallb is_nil (map f ds) = true.
Proof.
  intros f ds H. induction ds as [|d ds IH]; simpl; [reflexivity|].
  rewrite (H d (or_introl eq_refl)). simpl. apply IH. intros d' Hd'. apply H. right; exact Hd'.
Qed.

Lemma find_nonnil_none : forall (f : key -> res) ds,
  (forall d, In d ds -> f d = RNil) -> find nonnil (map f ds) = None.
Proof.
  intros f ds H. induction ds as [|d ds IH]; simpl; [reflexivity|].
  rewrite (H d (or_introl eq_refl)). simpl. apply IH. intros d' Hd'. apply H. right; exact Hd'.
Qed.

Lemma find_nonnil_first : forall (f : key -> res) ds i k,
  nth_error ds i = Some k -> f k <> RNil ->
  (forall i' k', i' < i -> nth_error ds i' = Some k' -> f k' = RNil) ->
  find nonnil (map f ds) = Some (f k).
Proof.
  intros f ds. induction ds as [|d ds IH]; intros i k Hi Hk Hprev.
  - destruct i; discriminate.
  - destruct i as [|i]; simpl in Hi.
    + inversion Hi; subst d. simpl. unfold nonnil. rewrite (not_nil_is_nil _ Hk). reflexivity.
    + simpl. rewrite (Hprev 0 d) by (first [lia|reflexivity]). simpl.
      apply (IH i k Hi Hk). intros i' k' Hlt Hi'. apply (Hprev (S i') k'); [lia|exact Hi'].
Qed.

(* ---- skipping the calls a body got past ---- *)

Definition passes (f : key -> res) (c : call) : Prop := call_res f c = CRet \/ c_guarded c = true.

Lemma body_res_skip : forall f own n cs,
  (forall i c, i < n -> nth_error cs i = Some c -> passes f c) ->
  body_res f cs own = body_res f (skipn n cs) own.
Proof.
  intros f own. induction n as [|n IH]; intros cs H; [reflexivity|].
  destruct cs as [|c cs]; [reflexivity|]. simpl.
  assert (Hc : passes f c) by (apply (H 0 c); [lia|reflexivity]).
  assert (Hrest : body_res f cs own = body_res f (skipn n cs) own).
  { apply IH. intros i c' Hi Hc'. apply (H (S i) c'); [lia|exact Hc']. }
  destruct Hc as [Hc|Hc].
  - rewrite Hc. exact Hrest.
  - destruct (call_res f c); [exact Hrest|]. rewrite Hc. exact Hrest.
Qed.

Lemma skipn_nth_cons : forall {A} (l : list A) n x,
  nth_error l n = Some x -> skipn n l = x :: skipn (S n) l.
Proof.
  intros A l. induction l as [|a l IH]; intros n x H.
  - destruct n; discriminate.
  - destruct n as [|n]; simpl in H.
    + inversion H; subst. reflexivity.
    + simpl. rewrite (IH n x H). reflexivity.
Qed.

(* ================= 3. agreement, in one reachable configuration ================= *)

Section Agree.
Variable p : prog.
Variable s : cfg.
Variable tr : list event.
Hypothesis Hac : acyclic p.
Hypothesis R : reach true p s tr.

Let IA : InvA p s tr := proj1 (reach_inv true p s tr R).
Let IC : InvC true p s tr := proj2 (proj2 (reach_inv true p s tr R)).

(* [f] is right about the members of c that have ended *)
Definition right_on (f : key -> res) (c : call) : Prop :=
  forall d r, In d (c_deps c) -> In (BodyEnd d r) tr -> agrees r (f d).

Lemma call_return_res : forall f t pc c,
  right_on f c -> In (CallReturn t pc) tr -> nth_error (calls_of p t) pc = Some c ->
  call_res f c = CRet.
Proof.
  intros f t pc c Hf Hret Hc.
  assert (Hnil : forall d, In d (c_deps c) -> f d = RNil).
  { intros d Hd. apply agrees_nil_l. apply (Hf d RNil Hd).
    exact (returns_only_on_success p s tr t pc c d R Hret Hc Hd). }
  unfold call_res. destruct (c_style c).
  - rewrite (forallb_is_nil_map f _ Hnil). reflexivity.
  - rewrite (find_nonnil_none f _ Hnil). reflexivity.
Qed.

Lemma call_panic_res : forall f t pc c x m,
  right_on f c -> In (CallPanic t pc x m) tr -> nth_error (calls_of p t) pc = Some c ->
  exists m', call_res f c = CPan x m' /\ Permutation m m'.
Proof.
  intros f t pc c x m Hf Hpan Hc. unfold call_res. destruct (c_style c) eqn:Hs.
  - destruct (payload_par p s tr t pc x m c R Hpan Hc Hs) as (rs & Hall & Hm & Hx & r & Hr & Hrn).
    assert (Hag : Forall2 agrees rs (map f (c_deps c))).
    { eapply Forall2_to_map; [exact Hall|]. intros d rd Hd Hend. exact (Hf d rd Hd Hend). }
    rewrite <- (Forall2_agrees_all_nil _ _ Hag), (forallb_is_nil_false rs r Hr Hrn).
    eexists. split.
    + rewrite <- (Forall2_agrees_status _ _ Hag), <- Hx. reflexivity.
    + eapply Permutation_trans; [exact Hm|]. apply Forall2_agrees_message. exact Hag.
  - destruct (payload_ser p s tr t pc x m c R Hpan Hc Hs) as (i & k & r & Hi & Hend & Hrn & Hm & Hx & Hprev).
    pose proof (Hf k r (nth_error_In _ _ Hi) Hend) as Hag.
    assert (Hfk : f k <> RNil).
    { intro E. rewrite E in Hag. apply Hrn. apply agrees_nil_r. exact Hag. }
    rewrite (find_nonnil_first f (c_deps c) i k Hi Hfk).
    2:{ intros i' k' Hlt Hi'. apply agrees_nil_l. apply (Hf k' RNil (nth_error_In _ _ Hi')).
        exact (Hprev i' k' Hlt Hi'). }
    destruct Hag as (_ & Hst & Hmsg). eexists. split.
    + rewrite <- Hst, <- Hx. reflexivity.
    + rewrite Hm. exact Hmsg.
Qed.

(* a call that has ended lets the big-step body go on, unless it is the unguarded panic *)
Lemma past_passes : forall f t tk pc c,
  right_on f c -> tasks s t = Some tk -> pc < t_pc tk -> nth_error (calls_of p t) pc = Some c ->
  (forall x m, In (CallPanic t pc x m) tr -> c_guarded c = true) -> passes f c.
Proof.
  intros f t tk pc c Hf Htk Hpc Hc Hg.
  destruct (c_past true p s tr IC t tk pc c Htk Hpc Hc) as [_ [Hret|(x & m & Hpan)]].
  - left. exact (call_return_res f t pc c Hf Hret Hc).
  - right. exact (Hg x m Hpan).
Qed.

(* what a BodyEnd can be: the body's own result after every call returned or was recovered, or the
   payload of its first (and only) unguarded panicking call *)
Lemma body_end_shape : forall k r, In (BodyEnd k r) tr ->
  exists tk, tasks s (TBody k) = Some tk /\
   ((r = own_result p (TBody k) /\ length (calls_of p (TBody k)) <= t_pc tk /\
     forall pc c x m, nth_error (calls_of p (TBody k)) pc = Some c ->
                      In (CallPanic (TBody k) pc x m) tr -> c_guarded c = true)
    \/
    (exists pc c x m, r = RPanic x m /\ t_pc tk = S pc /\ nth_error (calls_of p (TBody k)) pc = Some c /\
                      c_guarded c = false /\ In (CallPanic (TBody k) pc x m) tr /\
                      forall pc' c' x' m', pc' < pc -> nth_error (calls_of p (TBody k)) pc' = Some c' ->
                                           In (CallPanic (TBody k) pc' x' m') tr -> c_guarded c' = true)).
Proof.
  intros k r Hend. pose proof (end_cell p s tr R k r Hend) as Hcell.
  destruct (a_fin p s tr IA k r Hcell) as (tk & Htk & Hph). exists tk. split; [exact Htk|].
  destruct (c_fin true p s tr IC (TBody k) tk Htk Hph)
    as [(Hlen & Hown & Hg)|(pc & c & x & m & Hpc & Hc & Hug & Hpan & Hres)].
  - left. rewrite (Hown k eq_refl) in Hcell. injection Hcell as E. split; [symmetry; exact E|].
    split; [exact Hlen|]. exact Hg.
  - right. exists pc, c, x, m. rewrite (Hres k eq_refl) in Hcell. injection Hcell as E.
    split; [symmetry; exact E|]. split; [exact Hpc|]. split; [exact Hc|]. split; [exact Hug|].
    split; [exact Hpan|].
    intros pc' c' x' m' Hlt Hc' Hpan'. destruct (c_guarded c') eqn:Hg'; [reflexivity|].
    destruct (c_unguarded true p s tr IC (TBody k) pc' x' m' c' Hpan' Hc' Hg') as (tk' & Htk' & Hpc' & _).
    rewrite Htk in Htk'. injection Htk' as E'. subst tk'. lia.
Qed.

Lemma body_end_res : forall f k r,
  (forall d rd, d < k -> In (BodyEnd d rd) tr -> agrees rd (f d)) ->
  In (BodyEnd k r) tr ->
  agrees r (body_res f (calls_of p (TBody k)) (own_result p (TBody k))).
Proof.
  intros f k r Hf Hend.
  assert (Hright : forall pc c, nth_error (calls_of p (TBody k)) pc = Some c -> right_on f c).
  { intros pc c Hc d rd Hd Hendd. apply Hf; [|exact Hendd].
    destruct (dep_smaller p (TBody k) pc c d Hac Hc Hd) as [Hlt _]. exact Hlt. }
  destruct (body_end_shape k r Hend) as (tk & Htk & [(Hr & Hlen & Hg)|(pc & c & x & m & Hr & Hpc & Hc & Hug & Hpan & Hg)]).
  - subst r. rewrite (body_res_skip f _ (length (calls_of p (TBody k)))).
    + rewrite skipn_all. apply agrees_refl.
    + intros i c Hi Hc. apply (past_passes f (TBody k) tk i c (Hright i c Hc) Htk); [lia|exact Hc|].
      intros x m Hpan. exact (Hg i c x m Hc Hpan).
  - subst r. rewrite (body_res_skip f _ pc).
    + rewrite (skipn_nth_cons _ _ _ Hc). simpl.
      destruct (call_panic_res f (TBody k) pc c x m (Hright pc c Hc) Hpan Hc) as (m' & Hres & Hperm).
      rewrite Hres, Hug. split; [exact I|]. split; [reflexivity|exact Hperm].
    + intros i c' Hi Hc'. apply (past_passes f (TBody k) tk i c' (Hright i c' Hc') Htk); [lia|exact Hc'|].
      intros x' m' Hpan'. exact (Hg i c' x' m' Hi Hc' Hpan').
Qed.

Theorem bigstep_agrees_s : forall k r, In (BodyEnd k r) tr -> agrees r (ev p k).
Proof.
  intros k. induction k as [k IH] using lt_wf_ind. intros r Hend.
  rewrite (ev_unfold p k Hac). apply body_end_res; [|exact Hend].
  intros d rd Hlt Hd. exact (IH d Hlt rd Hd).
Qed.

Lemma ev_right_on : forall c, right_on (ev p) c.
Proof. intros c d r _ Hend. exact (bigstep_agrees_s d r Hend). Qed.

(* the same for every call of every task, the roots included *)
Theorem call_return_agrees_s : forall t pc c,
  In (CallReturn t pc) tr -> nth_error (calls_of p t) pc = Some c -> call_res (ev p) c = CRet.
Proof. intros t pc c. apply call_return_res. apply ev_right_on. Qed.

Theorem call_panic_agrees_s : forall t pc c x m,
  In (CallPanic t pc x m) tr -> nth_error (calls_of p t) pc = Some c ->
  exists m', call_res (ev p) c = CPan x m' /\ Permutation m m'.
Proof. intros t pc c x m. apply call_panic_res. apply ev_right_on. Qed.

End Agree.
