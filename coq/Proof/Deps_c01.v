(* C01 - a dependency's body runs exactly once per mage execution: proofs of the statements of
   Props/C01.v from the invariant (Proof/Deps_inv.v). *)
From Mage Require Import Base.Strs Model.Deps Proof.Deps_defs Proof.Deps_inv.
From Coq Require Import Lia.

(* ---------- counting: direct readings of group A ---------- *)

Lemma at_most_once : forall fixed p s tr k,
  reach fixed p s tr -> nstart k tr <= 1.
Proof.
  intros fixed p s tr k Hr.
  pose proof Hr as HI. apply reach_inv in HI. destruct HI as [HA _].
  rewrite (a_cnt _ _ _ HA k). destruct (cells s k); lia.
Qed.

Lemma started_iff : forall fixed p s tr k,
  reach fixed p s tr -> (nstart k tr = 1 <-> cells s k <> NotStarted).
Proof.
  intros fixed p s tr k Hr.
  pose proof Hr as HI. apply reach_inv in HI. destruct HI as [HA _].
  rewrite (a_cnt _ _ _ HA k). destruct (cells s k); split; intro H; try reflexivity; try discriminate.
  exfalso; apply H; reflexivity.
Qed.

Lemma unnamed_never_runs : forall fixed p s tr k,
  reach fixed p s tr -> nstart k tr = 1 ->
  exists t pc c, In (CallEnter t pc) tr /\ nth_error (calls_of p t) pc = Some c /\ In k (c_deps c).
Proof.
  intros fixed p s tr k Hr H1.
  pose proof Hr as HI. apply reach_inv in HI. destruct HI as [HA [HB _]].
  apply (b_named _ _ _ _ HB k).
  intro Hns. rewrite (a_cnt _ _ _ HA k), Hns in H1. discriminate.
Qed.

Lemma log_once : forall fixed p s tr n,
  reach fixed p s tr -> nlog n tr = if verbose p then nstart_named p n tr else 0.
Proof.
  intros fixed p s tr n Hr.
  pose proof Hr as HI. apply reach_inv in HI. destruct HI as [HA _].
  exact (a_log _ _ _ HA n).
Qed.

(* ---------- one step: only the winner of once.Do emits BodyStart, and it touches one cell ---------- *)

Lemma finish_no_start : forall s t tk o s' ev k cx,
  finish s t tk o = (s', ev) -> ~ In (BodyStart k cx) ev.
Proof.
  intros s t tk o s' ev k cx H Hin.
  destruct t; simpl in H; inversion H; subst; simpl in Hin.
  - exact Hin.
  - destruct Hin as [Hin|[]]; discriminate.
Qed.

Lemma step_task_no_start : forall p s t s' ev k cx,
  step_task p s t = Some (s', ev) -> ~ In (BodyStart k cx) ev.
Proof.
  intros p s t s' ev k cx Hs Hin.
  unfold step_task in Hs.
  destruct (tasks s t) as [tk|]; [|discriminate].
  destruct (t_phase tk) as [|r st|o|].
  - (* PIdle *)
    destruct (nth_error (calls_of p t) (t_pc tk)) as [c|].
    + destruct (rounds c) as [|ms rest]; [discriminate|].
      inversion Hs; subst. simpl in Hin. destruct Hin as [Hin|[]]; discriminate.
    + inversion Hs as [Hf]. exact (finish_no_start _ _ _ _ _ _ _ _ Hf Hin).
  - (* PRound *)
    destruct (nth_error (calls_of p t) (t_pc tk)) as [c|]; [|discriminate].
    destruct (Nat.ltb (length (rd_gs st)) (length (rd_members st))).
    { inversion Hs; subst. exact Hin. }
    destruct (all_finished (rd_gs st)); [|discriminate].
    destruct (Nat.eqb (rd_nerr st) 0).
    + destruct (nth_error (rounds c) (S r)) as [ms|]; inversion Hs; subst; simpl in Hin.
      * exact Hin.
      * destruct Hin as [Hin|[]]; discriminate.
    + destruct (c_guarded c); inversion Hs; subst; simpl in Hin;
        destruct Hin as [Hin|[]]; discriminate.
  - (* PAbort *)
    inversion Hs as [Hf]. exact (finish_no_start _ _ _ _ _ _ _ _ Hf Hin).
  - discriminate.
Qed.

Lemma distinct_keys : forall fixed p s a s' ev k1 k2 cx,
  step fixed p s a = Some (s', ev) -> In (BodyStart k1 cx) ev -> k2 <> k1 -> cells s' k2 = cells s k2.
Proof.
  intros fixed p s a s' ev k1 k2 cx Hs Hin Hne.
  destruct a as [t|t j]; simpl in Hs.
  - exfalso. exact (step_task_no_start _ _ _ _ _ _ _ Hs Hin).
  - unfold step_go in Hs.
    destruct (tasks s t) as [tk|]; [|discriminate].
    destruct (t_phase tk) as [|r st|o|]; try discriminate.
    destruct (nth_error (calls_of p t) (t_pc tk)) as [c|]; [|discriminate].
    destruct (nth_error (rd_members st) j) as [k|]; [|discriminate].
    destruct (nth_error (rd_gs st) j) as [g|]; [|discriminate].
    destruct g as [| |r0|].
    + (* GAtOnce *)
      destruct (cells s k) as [| |r0] eqn:Hck.
      * inversion Hs; subst; clear Hs. simpl.
        assert (Hk : k = k1).
        { apply in_app_or in Hin. destruct Hin as [Hin|Hin].
          - destruct (verbose p); simpl in Hin; [destruct Hin as [Hin|[]]; discriminate | destruct Hin].
          - simpl in Hin. destruct Hin as [Hin|[]]. inversion Hin; reflexivity. }
        subst k. unfold updc.
        destruct (Nat.eqb k2 k1) eqn:E; [apply Nat.eqb_eq in E; contradiction | reflexivity].
      * discriminate.
      * inversion Hs; subst. destruct Hin.
    + (* GRunning *)
      destruct (cells s k); try discriminate. inversion Hs; subst. destruct Hin.
    + (* GHas *)
      destruct (is_nil r0); inversion Hs; subst; destruct Hin.
    + discriminate.
Qed.

(* ---------- every dependency a finished execution got to ran exactly once, to the end ---------- *)

Lemma Forall2_In_l : forall {A B} (P : A -> B -> Prop) l l' x,
  Forall2 P l l' -> In x l -> exists y, In y l' /\ P x y.
Proof.
  intros A B P l l' x HF. induction HF as [|a b l l' Hab HF IH]; intro Hin.
  - destruct Hin.
  - destruct Hin as [Hin|Hin].
    + subst a. exists b. split; [left; reflexivity | exact Hab].
    + destruct (IH Hin) as [y [Hy HP]]. exists y. split; [right; exact Hy | exact HP].
Qed.

Lemma reached_in_deps : forall tr c k, reached_by tr c k -> In k (c_deps c).
Proof.
  intros tr c k H. unfold reached_by in H.
  destruct (c_style c).
  - exact H.
  - destruct H as [i [Hi _]]. exact (nth_error_In _ _ Hi).
Qed.

Lemma named_runs : forall p s tr t pc c k,
  reach true p s tr -> final s ->
  In (CallEnter t pc) tr -> nth_error (calls_of p t) pc = Some c -> reached_by tr c k ->
  nstart k tr = 1 /\ nend k tr = 1.
Proof.
  intros p s tr t pc c k Hr Hf Hin Hc Hrb.
  pose proof Hr as HI. apply reach_inv in HI. destruct HI as [HA [HB HC]].
  assert (Hdone : exists r, cells s k = Done r).
  { destruct (a_enter _ _ _ HA _ _ Hin) as [tk [c' [Htk [Hc' Hpc]]]].
    assert (Hlt : pc < t_pc tk).
    { destruct Hpc as [Hlt|[_ Hic]]; [exact Hlt|].
      rewrite (Hf _ _ Htk) in Hic. destruct Hic. }
    destruct (c_past _ _ _ _ HC _ _ _ _ Htk Hlt Hc) as [_ [Hret|[e [m Hpan]]]].
    - (* the call returned: every listed dependency is done *)
      destruct (c_ret _ _ _ _ HC _ _ _ _ Hret Hc (reached_in_deps _ _ _ Hrb)) as [r0 [Hd _]].
      exists r0; exact Hd.
    - (* the call panicked *)
      pose proof (c_panic _ _ _ _ HC _ _ _ _ _ Hpan Hc) as Hpay.
      unfold reached_by in Hrb.
      destruct (c_style c).
      + (* Par: every goroutine reported *)
        destruct Hpay as [js [rs [Hperm [HF2 _]]]].
        destruct (In_nth_error _ _ Hrb) as [i Hi].
        assert (Hil : i < length (c_deps c)) by (apply nth_error_Some; rewrite Hi; discriminate).
        assert (Hij : In i js).
        { apply (Permutation_in _ (Permutation_sym Hperm)). apply in_seq. lia. }
        destruct (Forall2_In_l _ _ _ _ HF2 Hij) as [rj [_ [k' [r0 [Hk' [Hd _]]]]]].
        rewrite Hi in Hk'. inversion Hk'; subst k'.
        exists r0; exact Hd.
      + (* Ser: the members up to the failing one are done; k is not after it *)
        destruct Hpay as [i0 [k0 [r0 [rj [Hi0 [Hd0 [Hseen [Hnil [_ [_ Hbefore]]]]]]]]]].
        destruct Hrb as [i [Hi Hprev]].
        destruct (Nat.lt_trichotomy i i0) as [Hlt'|[Heq|Hgt]].
        * destruct (Hbefore _ _ Hlt' Hi) as [r1 [Hd1 _]]. exists r1; exact Hd1.
        * subst i. rewrite Hi0 in Hi. inversion Hi; subst k0. exists r0; exact Hd0.
        * exfalso.
          pose proof (Hprev _ _ Hgt Hi0) as Hend.
          apply (a_end _ _ _ HA) in Hend. rewrite Hd0 in Hend. inversion Hend; subst r0.
          destruct Hseen as [Hs|Hs]; simpl in Hs; subst rj; discriminate. }
  destruct Hdone as [r Hd].
  rewrite (a_cnt _ _ _ HA k), (a_cnt_end _ _ _ HA k), Hd. split; reflexivity.
Qed.

(* ---------- non-vacuity: fan-in 3 on key 0, run to a final configuration ---------- *)

Definition nv_call : call := {| c_style := Par; c_ctx := Bg; c_deps := [0]; c_guarded := false |}.
Definition nv_prog : prog :=
  {| nodes := [ {| b_calls := []; b_result := Ok; b_name := 0 |} ];
     roots := [ ([nv_call], CBg); ([nv_call], CBg); ([nv_call], CBg) ];
     verbose := false |}.

Definition nv_acts : list action :=
  [ (* root 0 wins once.Do and runs the body *)
    ATask (TRoot 0); ATask (TRoot 0); AGo (TRoot 0) 0; ATask (TBody 0);
    AGo (TRoot 0) 0; AGo (TRoot 0) 0; ATask (TRoot 0); ATask (TRoot 0);
    (* roots 1 and 2 find the cell done *)
    ATask (TRoot 1); ATask (TRoot 1); AGo (TRoot 1) 0; AGo (TRoot 1) 0; ATask (TRoot 1); ATask (TRoot 1);
    ATask (TRoot 2); ATask (TRoot 2); AGo (TRoot 2) 0; AGo (TRoot 2) 0; ATask (TRoot 2); ATask (TRoot 2) ].

Definition nv_res := run true nv_prog (init nv_prog) nv_acts.
Definition nv_s : cfg := match nv_res with Some (s, _) => s | None => init nv_prog end.
Definition nv_tr : list event := match nv_res with Some (_, tr) => tr | None => [] end.

Lemma nv_run : run true nv_prog (init nv_prog) nv_acts = Some (nv_s, nv_tr).
Proof.
  unfold nv_s, nv_tr, nv_res.
  destruct (run true nv_prog (init nv_prog) nv_acts) as [[s tr]|] eqn:E.
  - reflexivity.
  - vm_compute in E. discriminate.
Qed.

Lemma nv_final : final nv_s.
Proof.
  intros t tk H. destruct t as [n|k].
  - destruct n as [|[|[|n]]]; vm_compute in H.
    + inversion H; reflexivity.
    + inversion H; reflexivity.
    + inversion H; reflexivity.
    + destruct n; discriminate.
  - destruct k as [|k]; vm_compute in H.
    + inversion H; reflexivity.
    + discriminate.
Qed.

Lemma nonvacuous_c01 : exists p acts s tr,
  run true p (init p) acts = Some (s, tr) /\ reach true p s tr /\ final s /\ nstart 0 tr = 1 /\
  length (filter (fun e => match e with CallEnter _ _ => true | _ => false end) tr) >= 3.
Proof.
  exists nv_prog, nv_acts, nv_s, nv_tr.
  split; [exact nv_run|].
  split.
  { change nv_tr with ([] ++ nv_tr). eapply run_reach; [apply reach_init | exact nv_run]. }
  split; [exact nv_final|].
  split; [vm_compute; reflexivity|].
  vm_compute. apply le_n.
Qed.

