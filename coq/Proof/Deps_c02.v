(* C02 - Deps calls return only after all their dependencies have finished: proofs of the statements
   of Props/C02.v from the invariant (Proof/Deps_inv.v). *)
From Mage Require Import Base.Strs Model.Deps Proof.Deps_defs Proof.Deps_invA Proof.Deps_inv.
From Coq Require Import Lia.

(* ---------- small facts ---------- *)

Lemma remember_true : forall r, remember true r = r.
Proof. destruct r; reflexivity. Qed.

Lemma seen_as_true : forall r0 r, seen_as true r0 r -> r = r0.
Proof. intros r0 r [H|H]; [exact H | rewrite remember_true in H; exact H]. Qed.

Lemma Forall2_In_l : forall {A B} (P : A -> B -> Prop) l l' x,
  Forall2 P l l' -> In x l -> exists y, In y l' /\ P x y.
Proof.
  intros A B P l l' x HF. induction HF as [|a b l l' Hab HF IH]; intro Hin.
  - destruct Hin.
  - destruct Hin as [Hin|Hin].
    + subst a. exists b. split; [left; reflexivity | exact Hab].
    + destruct (IH Hin) as [y [Hy HP]]. exists y. split; [right; exact Hy | exact HP].
Qed.

Lemma reached_in_deps : forall tr c k, reached_by tr c k -> In k (c_deps c).
Proof.
  intros tr c k H. unfold reached_by in H.
  destruct (c_style c).
  - exact H.
  - destruct H as [i [Hi _]]. exact (nth_error_In _ _ Hi).
Qed.

Lemma in_app_single : forall (l : list event) e x, In x (l ++ [e]) -> x <> e -> In x l.
Proof.
  intros l e x H Hne. apply in_app_or in H. destruct H as [H|[H|[]]]; [exact H|].
  exfalso. apply Hne. symmetry. exact H.
Qed.

(* ---------- the configuration right after an event was emitted ---------- *)

(* an event other than Log/BodyStart is the only event of its step *)
Lemma single_emit : forall fixed p s tr pre e post,
  reach fixed p s tr -> tr = pre ++ e :: post ->
  match e with Log _ | BodyStart _ _ => False | _ => True end ->
  exists s1, reach fixed p s1 (pre ++ [e]).
Proof.
  intros fixed p s tr pre e post R E Hne.
  destruct (emitted_at _ _ _ _ _ _ _ R E)
    as (s0 & tr0 & a & s1 & ev & l1 & l2 & post' & R0 & Hst & Hev & Hpre & R1 & Htr).
  exists s1.
  destruct (step_events _ _ _ _ _ _ Hst) as [H|[(e0 & H & _)|(n & k & c & H)]]; rewrite H in Hev.
  - destruct l1; discriminate.
  - destruct l1 as [|x l1].
    + simpl in Hev. inversion Hev. subst e0 l2. rewrite app_nil_r in Hpre. subst pre ev. exact R1.
    + inversion Hev. destruct l1; discriminate.
  - destruct l1 as [|x [|y l1]]; simpl in Hev; inversion Hev.
    + subst e. destruct Hne.
    + subst e. destruct Hne.
    + destruct l1; discriminate.
Qed.

(* ---------- nothing of a dependency happens after its end ---------- *)

Lemma finish_event_of : forall s t tk o s' ev k e,
  finish s t tk o = (s', ev) -> In e ev -> event_of k e -> t = TBody k.
Proof.
  intros s t tk o s' ev k e H Hin Hev.
  destruct t; simpl in H; inversion H; subst; simpl in Hin.
  - destruct Hin.
  - destruct Hin as [Hin|[]]. subst e. simpl in Hev. subst. reflexivity.
Qed.

Lemma step_task_event_of : forall p s t s' ev k e,
  step_task p s t = Some (s', ev) -> In e ev -> event_of k e -> t = TBody k.
Proof.
  intros p s t s' ev k e Hs Hin Hev.
  unfold step_task in Hs.
  destruct (tasks s t) as [tk|]; [|discriminate].
  destruct (t_phase tk) as [|r st|o|].
  - destruct (nth_error (calls_of p t) (t_pc tk)) as [c|].
    + destruct (rounds c) as [|ms rest]; [discriminate|].
      inversion Hs; subst. simpl in Hin. destruct Hin as [Hin|[]]. subst e. exact Hev.
    + inversion Hs as [Hf]. exact (finish_event_of _ _ _ _ _ _ _ _ Hf Hin Hev).
  - destruct (nth_error (calls_of p t) (t_pc tk)) as [c|]; [|discriminate].
    destruct (Nat.ltb (length (rd_gs st)) (length (rd_members st))).
    { inversion Hs; subst. destruct Hin. }
    destruct (all_finished (rd_gs st)); [|discriminate].
    destruct (Nat.eqb (rd_nerr st) 0).
    + destruct (nth_error (rounds c) (S r)) as [ms|]; inversion Hs; subst; simpl in Hin.
      * destruct Hin.
      * destruct Hin as [Hin|[]]. subst e. exact Hev.
    + destruct (c_guarded c); inversion Hs; subst; simpl in Hin;
        destruct Hin as [Hin|[]]; subst e; exact Hev.
  - inversion Hs as [Hf]. exact (finish_event_of _ _ _ _ _ _ _ _ Hf Hin Hev).
  - discriminate.
Qed.

Lemma step_go_event_of : forall fixed p s t j s' ev k e,
  step_go fixed p s t j = Some (s', ev) -> In e ev -> event_of k e -> cells s k = NotStarted.
Proof.
  intros fixed p s t j s' ev k e Hs Hin Hev.
  unfold step_go in Hs.
  destruct (tasks s t) as [tk|]; [|discriminate].
  destruct (t_phase tk) as [|r st|o|]; try discriminate.
  destruct (nth_error (calls_of p t) (t_pc tk)) as [c|]; [|discriminate].
  destruct (nth_error (rd_members st) j) as [k0|]; [|discriminate].
  destruct (nth_error (rd_gs st) j) as [g|]; [|discriminate].
  destruct g as [| |r0|].
  - destruct (cells s k0) as [| |r0] eqn:Hck.
    + inversion Hs; subst; clear Hs.
      apply in_app_or in Hin. destruct Hin as [Hin|Hin].
      * destruct (verbose p); simpl in Hin; [destruct Hin as [Hin|[]]; subst e; destruct Hev | destruct Hin].
      * simpl in Hin. destruct Hin as [Hin|[]]. subst e. simpl in Hev. subst k0. exact Hck.
    + discriminate.
    + inversion Hs; subst. destruct Hin.
  - destruct (cells s k0); try discriminate. inversion Hs; subst. destruct Hin.
  - destruct (is_nil r0); inversion Hs; subst; destruct Hin.
  - discriminate.
Qed.

(* once a cell is Done, no step emits an event of that dependency *)
Lemma done_silent : forall fixed p s tr a s' ev k r e,
  InvA p s tr -> cells s k = Done r -> step fixed p s a = Some (s', ev) -> In e ev -> ~ event_of k e.
Proof.
  intros fixed p s tr a s' ev k r e HA Hd Hs Hin Hev.
  destruct a as [t|t j]; simpl in Hs.
  - pose proof (step_task_event_of _ _ _ _ _ _ _ Hs Hin Hev) as Ht. subst t.
    destruct (a_fin _ _ _ HA _ _ Hd) as [tk [Htk Hph]].
    unfold step_task in Hs. rewrite Htk, Hph in Hs. discriminate.
  - pose proof (step_go_event_of _ _ _ _ _ _ _ _ _ Hs Hin Hev) as Hns.
    rewrite Hns in Hd. discriminate.
Qed.

(* group A alone (so that this part does not depend on groups B and C) *)
Lemma reach_invA : forall fixed p s tr, reach fixed p s tr -> InvA p s tr.
Proof.
  intros fixed p s tr R. induction R as [|s tr a s' ev R IH H].
  - apply invA_init.
  - eapply step_invA; eauto.
Qed.

Lemma no_event_after_end : forall fixed p s tr pre k r post e,
  reach fixed p s tr -> tr = pre ++ BodyEnd k r :: post -> In e post -> ~ event_of k e.
Proof.
  intros fixed p s tr pre k r post e R. revert pre post.
  induction R as [|s tr a s' ev R IH Hst]; intros pre post E Hin.
  - destruct pre; discriminate.
  - apply app_eq_app in E. destruct E as [l [[E1 E2]|[E1 E2]]].
    + destruct l as [|x l].
      * simpl in E2.
        destruct (step_events _ _ _ _ _ _ Hst) as [H|[(e0 & H & _)|(n & k0 & c & H)]];
          rewrite H in E2; inversion E2; subst. destruct Hin.
      * simpl in E2. inversion E2; subst x post. clear E2.
        apply in_app_or in Hin. destruct Hin as [Hin|Hin].
        -- exact (IH pre l E1 Hin).
        -- pose proof (reach_invA _ _ _ _ R) as HA.
           assert (Hd : cells s k = Done r).
           { apply (a_end _ _ _ HA). rewrite E1. apply in_or_app. right. left. reflexivity. }
           exact (done_silent _ _ _ _ _ _ _ _ _ _ HA Hd Hst Hin).
    + destruct (step_events _ _ _ _ _ _ Hst) as [H|[(e0 & H & _)|(n & k0 & c & H)]]; rewrite H in E2.
      * destruct l; discriminate.
      * destruct l as [|x l]; inversion E2.
        -- subst. destruct Hin.
        -- destruct l; discriminate.
      * destruct l as [|x [|y l]]; inversion E2. destruct l; discriminate.
Qed.

(* ---------- a body ends only after every call it entered has ended ---------- *)

Lemma body_waits_for_its_calls : forall fixed p s tr pre k r post pc,
  reach fixed p s tr -> tr = pre ++ BodyEnd k r :: post -> In (CallEnter (TBody k) pc) tr ->
  In (CallEnter (TBody k) pc) pre /\
  (In (CallReturn (TBody k) pc) pre \/ exists x m, In (CallPanic (TBody k) pc x m) pre).
Proof.
  intros fixed p s tr pre k r post pc R E Hin.
  assert (Hpre : In (CallEnter (TBody k) pc) pre).
  { rewrite E in Hin. apply in_app_or in Hin. destruct Hin as [Hin|[Hin|Hin]].
    - exact Hin.
    - discriminate.
    - exfalso. apply (no_event_after_end _ _ _ _ _ _ _ _ _ R E Hin). reflexivity. }
  split; [exact Hpre|].
  destruct (single_emit _ _ _ _ _ _ _ R E I) as [s1 R1].
  destruct (reach_inv _ _ _ _ R1) as [HA [HB HC]].
  assert (Hd : cells s1 k = Done r).
  { apply (a_end _ _ _ HA). apply in_or_app. right. left. reflexivity. }
  destruct (a_fin _ _ _ HA _ _ Hd) as [tk [Htk Hph]].
  assert (Hin1 : In (CallEnter (TBody k) pc) (pre ++ [BodyEnd k r])) by (apply in_or_app; left; exact Hpre).
  destruct (a_enter _ _ _ HA _ _ Hin1) as [tk' [c [Htk' [Hc Hpc]]]].
  rewrite Htk in Htk'. inversion Htk'; subst tk'. clear Htk'.
  assert (Hlt : pc < t_pc tk).
  { destruct Hpc as [Hlt|[_ Hic]]; [exact Hlt|]. rewrite Hph in Hic. destruct Hic. }
  destruct (c_past _ _ _ _ HC _ _ _ _ Htk Hlt Hc) as [_ [Hret|[x [m Hpan]]]].
  - left. apply (in_app_single _ _ _ Hret). discriminate.
  - right. exists x, m. apply (in_app_single _ _ _ Hpan). discriminate.
Qed.

(* ---------- the barrier ---------- *)

Lemma barrier_return : forall fixed p s tr pre post t pc c k,
  reach fixed p s tr -> tr = pre ++ CallReturn t pc :: post ->
  nth_error (calls_of p t) pc = Some c -> In k (c_deps c) ->
  exists r, In (BodyEnd k r) pre.
Proof.
  intros fixed p s tr pre post t pc c k R E Hc Hk.
  destruct (single_emit _ _ _ _ _ _ _ R E I) as [s1 R1].
  destruct (reach_inv _ _ _ _ R1) as [HA [HB HC]].
  assert (Hret : In (CallReturn t pc) (pre ++ [CallReturn t pc])) by (apply in_or_app; right; left; reflexivity).
  destruct (c_ret _ _ _ _ HC _ _ _ _ Hret Hc Hk) as [r0 [Hd _]].
  exists r0. apply (a_end _ _ _ HA) in Hd. apply (in_app_single _ _ _ Hd). discriminate.
Qed.

Lemma barrier : forall p s tr pre e post t pc c k,
  reach true p s tr -> tr = pre ++ e :: post -> call_end e t pc ->
  nth_error (calls_of p t) pc = Some c -> reached_by tr c k ->
  exists r, In (BodyEnd k r) pre.
Proof.
  intros p s tr pre e post t pc c k R E He Hc Hrb.
  destruct He as [He|[x [m He]]]; subst e.
  - exact (barrier_return _ _ _ _ _ _ _ _ _ _ R E Hc (reached_in_deps _ _ _ Hrb)).
  - destruct (single_emit _ _ _ _ _ _ _ R E I) as [s1 R1].
    destruct (reach_inv _ _ _ _ R1) as [HA [HB HC]].
    destruct (reach_inv _ _ _ _ R) as [HAf _].
    assert (Hpan : In (CallPanic t pc x m) (pre ++ [CallPanic t pc x m]))
      by (apply in_or_app; right; left; reflexivity).
    assert (Hdone : exists r0, cells s1 k = Done r0).
    { pose proof (c_panic _ _ _ _ HC _ _ _ _ _ Hpan Hc) as Hpay.
      unfold reached_by in Hrb.
      destruct (c_style c).
      - (* Par: every goroutine reported *)
        destruct Hpay as [js [rs [Hperm [HF2 _]]]].
        destruct (In_nth_error _ _ Hrb) as [i Hi].
        assert (Hil : i < length (c_deps c)) by (apply nth_error_Some; rewrite Hi; discriminate).
        assert (Hij : In i js).
        { apply (Permutation_in _ (Permutation_sym Hperm)). apply in_seq. lia. }
        destruct (Forall2_In_l _ _ _ _ HF2 Hij) as [rj [_ [k' [r0 [Hk' [Hd _]]]]]].
        rewrite Hi in Hk'. inversion Hk'; subst k'.
        exists r0; exact Hd.
      - (* Ser: the members up to the failing one are done; k is not after it *)
        destruct Hpay as [i0 [k0 [r0 [rj [Hi0 [Hd0 [Hseen [Hnil [_ [_ Hbefore]]]]]]]]]].
        destruct Hrb as [i [Hi Hprev]].
        destruct (Nat.lt_trichotomy i i0) as [Hlt'|[Heq|Hgt]].
        + destruct (Hbefore _ _ Hlt' Hi) as [r1 [Hd1 _]]. exists r1; exact Hd1.
        + subst i. rewrite Hi0 in Hi. inversion Hi; subst k0. exists r0; exact Hd0.
        + exfalso.
          pose proof (Hprev _ _ Hgt Hi0) as Hend.
          apply (a_end _ _ _ HAf) in Hend.
          assert (Hend0 : In (BodyEnd k0 r0) tr).
          { apply (a_end _ _ _ HA) in Hd0. rewrite E.
            apply in_app_or in Hd0. destruct Hd0 as [Hd0|[Hd0|[]]]; [|discriminate].
            apply in_or_app. left. exact Hd0. }
          apply (a_end _ _ _ HAf) in Hend0. rewrite Hend0 in Hend. inversion Hend; subst r0.
          apply seen_as_true in Hseen. subst rj. discriminate. }
    destruct Hdone as [r0 Hd]. exists r0.
    apply (a_end _ _ _ HA) in Hd. apply (in_app_single _ _ _ Hd). discriminate.
Qed.

(* ---------- ... and everything the dependency itself waited on ---------- *)

(* whatever is below k ended no later than k *)
Lemma below_ended_before : forall p s tr, reach true p s tr ->
  forall k k', below p tr k k' ->
  forall pre r post, tr = pre ++ BodyEnd k r :: post ->
  exists r', In (BodyEnd k' r') (pre ++ [BodyEnd k r]).
Proof.
  intros p s tr R k k' Hb.
  induction Hb as [k|k pc c k1 k2 Hent Hc Hrb Hb IH]; intros pre r post E.
  - exists r. apply in_or_app. right. left. reflexivity.
  - destruct (body_waits_for_its_calls _ _ _ _ _ _ _ _ _ R E Hent) as [_ Hended].
    assert (Hce : exists e, In e pre /\ call_end e (TBody k) pc).
    { destruct Hended as [H|[x [m H]]].
      - eexists; split; [exact H|]. left; reflexivity.
      - eexists; split; [exact H|]. right; eauto. }
    destruct Hce as [e [Hin Hce]].
    destruct (in_split _ _ Hin) as [a [b Hab]].
    assert (E2 : tr = a ++ e :: (b ++ BodyEnd k r :: post)).
    { rewrite E, Hab. rewrite <- app_assoc. reflexivity. }
    destruct (barrier _ _ _ _ _ _ _ _ _ _ R E2 Hce Hc Hrb) as [r1 Hin1].
    destruct (in_split _ _ Hin1) as [a1 [a2 Ha]].
    assert (E3 : tr = a1 ++ BodyEnd k1 r1 :: (a2 ++ e :: b ++ BodyEnd k r :: post)).
    { rewrite E2, Ha. rewrite <- app_assoc. reflexivity. }
    destruct (IH _ _ _ E3) as [r' Hin'].
    exists r'. apply in_or_app. left. rewrite Hab. apply in_or_app. left.
    rewrite Ha.
    apply in_app_or in Hin'. apply in_or_app. destruct Hin' as [H|[H|[]]].
    + left; exact H.
    + right; left; exact H.
Qed.

Lemma transitive : forall p s tr pre e post t pc c k k',
  reach true p s tr -> tr = pre ++ e :: post -> call_end e t pc ->
  nth_error (calls_of p t) pc = Some c -> reached_by tr c k -> below p tr k k' ->
  exists r, In (BodyEnd k' r) pre.
Proof.
  intros p s tr pre e post t pc c k k' R E He Hc Hrb Hb.
  destruct (barrier _ _ _ _ _ _ _ _ _ _ R E He Hc Hrb) as [r Hin].
  destruct (in_split _ _ Hin) as [a1 [a2 Ha]].
  assert (E2 : tr = a1 ++ BodyEnd k r :: (a2 ++ e :: post)).
  { rewrite E, Ha. rewrite <- app_assoc. reflexivity. }
  destruct (below_ended_before _ _ _ R _ _ Hb _ _ _ E2) as [r' Hin'].
  exists r'. rewrite Ha.
  apply in_app_or in Hin'. apply in_or_app. destruct Hin' as [H|[H|[]]].
  - left; exact H.
  - right; left; exact H.
Qed.

Lemma no_overlap : forall p s tr pre e post t pc c k k' e',
  reach true p s tr -> tr = pre ++ e :: post -> call_end e t pc ->
  nth_error (calls_of p t) pc = Some c -> reached_by tr c k -> below p tr k k' ->
  In e' post -> ~ event_of k' e'.
Proof.
  intros p s tr pre e post t pc c k k' e' R E He Hc Hrb Hb Hin'.
  destruct (transitive _ _ _ _ _ _ _ _ _ _ _ R E He Hc Hrb Hb) as [r Hin].
  destruct (in_split _ _ Hin) as [a1 [a2 Ha]].
  assert (E2 : tr = a1 ++ BodyEnd k' r :: (a2 ++ e :: post)).
  { rewrite E, Ha. rewrite <- app_assoc. reflexivity. }
  apply (no_event_after_end _ _ _ _ _ _ _ _ _ R E2).
  apply in_or_app. right. right. exact Hin'.
Qed.

(* ---------- non-vacuity: key 0 is in flight when the second requester arrives ---------- *)

Definition nv2_call : call := {| c_style := Par; c_ctx := Bg; c_deps := [0]; c_guarded := false |}.
Definition nv2_prog : prog :=
  {| nodes := [ {| b_calls := []; b_result := Ok; b_name := 0 |} ];
     roots := [ ([nv2_call], CBg); ([nv2_call], CBg) ];
     verbose := false |}.

Definition nv2_acts : list action :=
  [ (* root 0 wins once.Do; the body of key 0 is running *)
    ATask (TRoot 0); ATask (TRoot 0); AGo (TRoot 0) 0;
    (* root 1 arrives and spawns its goroutine, which blocks in once.Do *)
    ATask (TRoot 1); ATask (TRoot 1);
    (* the body ends; root 0 collects and returns *)
    ATask (TBody 0);
    AGo (TRoot 0) 0; AGo (TRoot 0) 0; ATask (TRoot 0); ATask (TRoot 0);
    (* root 1's goroutine is released; root 1 returns *)
    AGo (TRoot 1) 0; AGo (TRoot 1) 0; ATask (TRoot 1); ATask (TRoot 1) ].

Definition nv2_end : cfg * list event :=
  match run true nv2_prog (init nv2_prog) nv2_acts with Some x => x | None => (init nv2_prog, []) end.

Lemma nonvacuous_c02 : exists p acts s tr pre post,
  run true p (init p) acts = Some (s, tr) /\ final s /\
  tr = pre ++ CallReturn (TRoot 1) 0 :: post /\ In (BodyEnd 0 RNil) pre /\ In (CallEnter (TRoot 1) 0) pre /\
  exists pre0 post0 cx, pre = pre0 ++ BodyStart 0 cx :: post0 /\ In (CallEnter (TRoot 1) 0) post0.
Proof.
  exists nv2_prog, nv2_acts, (fst nv2_end), (snd nv2_end),
    [CallEnter (TRoot 0) 0; BodyStart 0 CBg; CallEnter (TRoot 1) 0; BodyEnd 0 RNil; CallReturn (TRoot 0) 0], [].
  split; [vm_compute; reflexivity|]. split.
  { intros t tk H.
    destruct t as [[|[|n]]|[|k]]; vm_compute in H; try discriminate;
      try (inversion H; subst; reflexivity).
    destruct n; discriminate. }
  split; [vm_compute; reflexivity|].
  split; [simpl; tauto|].
  split; [simpl; tauto|].
  exists [CallEnter (TRoot 0) 0], [CallEnter (TRoot 1) 0; BodyEnd 0 RNil; CallReturn (TRoot 0) 0], CBg.
  split; [reflexivity | simpl; tauto].
Qed.
