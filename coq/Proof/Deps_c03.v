(* C03 - a failed dependency fails every dependent, always: the engine lemmas.
   Everything is read off the invariant of reachable configurations (Deps_inv.reach_inv). *)
From Mage Require Import Base.Strs Model.Deps Proof.Deps_defs Proof.Deps_inv Proof.Exit_facts.
From Coq Require Import ZArith Lia Permutation.

(* ---------- the repaired engine hands out what the cell holds ---------- *)

Lemma remember_true : forall r, remember true r = r.
Proof. intros r. destruct r; reflexivity. Qed.

Lemma seen_as_true : forall r0 r, seen_as true r0 r -> r = r0.
Proof. intros r0 r [H|H]; [exact H|]. rewrite remember_true in H. exact H. Qed.

Lemma nilish_true : forall r0, nilish true r0 -> r0 = RNil.
Proof. intros r0 [H|H]; [exact H|]. rewrite remember_true in H. exact H. Qed.

Lemma is_nil_false : forall r, is_nil r = false -> r <> RNil.
Proof. intros r H E. subst r. discriminate H. Qed.

Lemma not_nil_is_nil : forall r, r <> RNil -> is_nil r = false.
Proof. intros r H. destruct r; [contradiction H; reflexivity| |]; reflexivity. Qed.

(* ---------- list facts ---------- *)

Lemma Forall2_in_l : forall (A B : Type) (P : A -> B -> Prop) l l' a,
  Forall2 P l l' -> In a l -> exists b, In b l' /\ P a b.
Proof.
  intros A B P l l' a H. induction H as [|x y l l' Hxy H IH]; intros Hin.
  - destruct Hin.
  - destruct Hin as [E|Hin].
    + subst x. exists y. split; [left; reflexivity|exact Hxy].
    + destruct (IH Hin) as [b [Hb Pb]]. exists b. split; [right; exact Hb|exact Pb].
Qed.

Lemma Forall2_map_fun : forall (A B : Type) (P : A -> B -> Prop) (f : A -> B) l l',
  Forall2 P l l' -> (forall a b, In a l -> P a b -> b = f a) -> l' = map f l.
Proof.
  intros A B P f l l' H. induction H as [|x y l l' Hxy H IH]; intros Hf; simpl.
  - reflexivity.
  - f_equal.
    + apply Hf; [left; reflexivity|exact Hxy].
    + apply IH. intros a b Ha. apply Hf. right; exact Ha.
Qed.

Lemma Forall2_map_seq : forall (A B : Type) (P : A -> B -> Prop) (g : nat -> B) (l : list A) start,
  (forall j k, nth_error l j = Some k -> P k (g (start + j))) ->
  Forall2 P l (map g (seq start (length l))).
Proof.
  intros A B P g l. induction l as [|a l IH]; intros start H; simpl.
  - constructor.
  - constructor.
    + replace start with (start + 0) by lia. apply H. reflexivity.
    + apply IH. intros j k Hj. replace (S start + j) with (start + S j) by lia.
      apply H. exact Hj.
Qed.

Lemma Permutation_concat_local : forall (A : Type) (l l' : list (list A)),
  Permutation l l' -> Permutation (concat l) (concat l').
Proof.
  intros A l l' H. induction H; simpl.
  - constructor.
  - apply Permutation_app_head. exact IHPermutation.
  - rewrite !app_assoc. apply Permutation_app_tail. apply Permutation_app_comm.
  - eapply Permutation_trans; eassumption.
Qed.

Lemma incl_concat_member : forall (A : Type) (x : list A) (ls : list (list A)),
  In x ls -> incl x (concat ls).
Proof.
  intros A x ls H a Ha. apply in_concat. exists x. split; assumption.
Qed.

(* ---------- consequences of the invariant ---------- *)

Section Facts.
Variable p : prog.
Variable s : cfg.
Variable tr : list event.
Hypothesis R : reach true p s tr.

Let IA : InvA p s tr := proj1 (reach_inv true p s tr R).
Let IC : InvC true p s tr := proj2 (proj2 (reach_inv true p s tr R)).

(* a dependency has one outcome *)
Lemma end_cell : forall k r, In (BodyEnd k r) tr -> cells s k = Done r.
Proof. intros k r H. apply (a_end p s tr IA). exact H. Qed.

Lemma cell_end : forall k r, cells s k = Done r -> In (BodyEnd k r) tr.
Proof. intros k r H. apply (a_end p s tr IA). exact H. Qed.

Lemma end_unique : forall k r r', In (BodyEnd k r) tr -> In (BodyEnd k r') tr -> r = r'.
Proof.
  intros k r r' H H'. apply end_cell in H. apply end_cell in H'.
  rewrite H in H'. injection H' as E. exact E.
Qed.

Lemma returns_only_on_success_s : forall t pc c k,
  In (CallReturn t pc) tr -> nth_error (calls_of p t) pc = Some c -> In k (c_deps c) ->
  In (BodyEnd k RNil) tr.
Proof.
  intros t pc c k Hret Hc Hk.
  destruct (c_ret true p s tr IC t pc c k Hret Hc Hk) as [r0 [Hcell Hnil]].
  apply nilish_true in Hnil. subst r0. apply cell_end. exact Hcell.
Qed.

Lemma never_returns_s : forall k r t pc c,
  In (BodyEnd k r) tr -> r <> RNil ->
  nth_error (calls_of p t) pc = Some c -> In k (c_deps c) -> ~ In (CallReturn t pc) tr.
Proof.
  intros k r t pc c Hend Hr Hc Hk Hret.
  apply Hr. eapply end_unique; [exact Hend|].
  eapply returns_only_on_success_s; eassumption.
Qed.

Lemma reached_by_in : forall c k, reached_by tr c k -> In k (c_deps c).
Proof.
  intros c k H. unfold reached_by in H. destruct (c_style c).
  - exact H.
  - destruct H as [i [Hi _]]. eapply nth_error_In. exact Hi.
Qed.

Lemma success_means_calls_succeeded_s : forall k pc c,
  In (BodyEnd k RNil) tr -> nth_error (calls_of p (TBody k)) pc = Some c ->
  In (CallReturn (TBody k) pc) tr \/ (c_guarded c = true /\ exists x m, In (CallPanic (TBody k) pc x m) tr).
Proof.
  intros k pc c Hend Hc.
  apply end_cell in Hend.
  destruct (a_fin p s tr IA k RNil Hend) as [tk [Htk Hph]].
  destruct (c_fin true p s tr IC (TBody k) tk Htk Hph) as [[Hlen [_ Hg]]|[pc' [c' [e [m [_ [_ [_ [_ Hcell]]]]]]]]].
  - assert (Hpc : pc < t_pc tk).
    { assert (pc < length (calls_of p (TBody k))) by (apply nth_error_Some; rewrite Hc; discriminate). lia. }
    destruct (c_past true p s tr IC (TBody k) tk pc c Htk Hpc Hc) as [_ [Hret|[e [m Hpan]]]].
    + left. exact Hret.
    + right. split.
      * eapply Hg; eassumption.
      * exists e, m. exact Hpan.
  - rewrite (Hcell k eq_refl) in Hend. discriminate Hend.
Qed.

Lemma no_dependent_continues_s : forall t pc x m c,
  In (CallPanic t pc x m) tr -> nth_error (calls_of p t) pc = Some c -> c_guarded c = false ->
  (forall pc', pc < pc' -> ~ In (CallEnter t pc') tr) /\
  (forall k r, t = TBody k -> In (BodyEnd k r) tr -> r = RPanic x m).
Proof.
  intros t pc x m c Hpan Hc Hg.
  destruct (c_unguarded true p s tr IC t pc x m c Hpan Hc Hg) as [tk [Htk [Hpc Hph]]].
  split.
  - intros pc' Hlt Hent.
    destruct (a_enter p s tr IA t pc' Hent) as [tk' [c' [Htk' [_ Hwhere]]]].
    rewrite Htk in Htk'. injection Htk' as E. subst tk'.
    destruct Hwhere as [Hlt'|[_ Hin]]; [lia|].
    destruct Hph as [Hph|[Hph _]]; rewrite Hph in Hin; exact Hin.
  - intros k r Et Hend. subst t.
    apply end_cell in Hend.
    destruct Hph as [Hph|[_ Hcell]].
    + destruct (a_fin p s tr IA k r Hend) as [tk' [Htk' Hph']].
      rewrite Htk in Htk'. injection Htk' as E. subst tk'.
      rewrite Hph in Hph'. discriminate Hph'.
    + rewrite (Hcell k eq_refl) in Hend. injection Hend as E. symmetry. exact E.
Qed.

Lemma payload_ser_s : forall t pc x m c,
  In (CallPanic t pc x m) tr -> nth_error (calls_of p t) pc = Some c -> c_style c = Ser ->
  exists i k r, nth_error (c_deps c) i = Some k /\ In (BodyEnd k r) tr /\ r <> RNil /\
                m = message r /\ x = combine [status r] /\
                forall i' k', i' < i -> nth_error (c_deps c) i' = Some k' -> In (BodyEnd k' RNil) tr.
Proof.
  intros t pc x m c Hpan Hc Hs.
  pose proof (c_panic true p s tr IC t pc x m c Hpan Hc) as Hp. rewrite Hs in Hp.
  destruct Hp as [i [k [r0 [rj [Hi [Hcell [Hseen [Hnn [Hm [Hx Hprev]]]]]]]]]].
  apply seen_as_true in Hseen. subst rj.
  exists i, k, r0. repeat split.
  - exact Hi.
  - apply cell_end. exact Hcell.
  - apply is_nil_false. exact Hnn.
  - exact Hm.
  - exact Hx.
  - intros i' k' Hlt Hi'. destruct (Hprev i' k' Hlt Hi') as [r1 [Hc1 Hn1]].
    apply nilish_true in Hn1. subst r1. apply cell_end. exact Hc1.
Qed.

(* the result at position j of a dependency list, read from the cells *)
Definition res_at (deps : list key) (j : nat) : res :=
  match nth_error deps j with
  | Some k => match cells s k with Done r => r | _ => RNil end
  | None => RNil
  end.

Lemma payload_par_s : forall t pc x m c,
  In (CallPanic t pc x m) tr -> nth_error (calls_of p t) pc = Some c -> c_style c = Par ->
  exists rs, Forall2 (fun k rk => In (BodyEnd k rk) tr) (c_deps c) rs /\
             Permutation m (concat (map message rs)) /\ x = combine (map status rs) /\
             exists r, In r rs /\ r <> RNil.
Proof.
  intros t pc x m c Hpan Hc Hs.
  pose proof (c_panic true p s tr IC t pc x m c Hpan Hc) as Hp. rewrite Hs in Hp.
  destruct Hp as [js [rs [Hperm [Hall [Hm [Hx [r [Hr Hrn]]]]]]]].
  set (f := res_at (c_deps c)).
  assert (Hrs : rs = map f js).
  { eapply Forall2_map_fun; [exact Hall|].
    intros j rj _ [k [r0 [Hj [Hcell Hseen]]]].
    apply seen_as_true in Hseen. subst rj.
    unfold f, res_at. rewrite Hj, Hcell. reflexivity. }
  assert (Hp2 : Permutation rs (map f (seq 0 (length (c_deps c))))).
  { rewrite Hrs. apply Permutation_map. exact Hperm. }
  exists (map f (seq 0 (length (c_deps c)))). repeat split.
  - apply Forall2_map_seq. intros j k Hj. simpl.
    assert (Hin : In j js).
    { eapply Permutation_in; [apply Permutation_sym; exact Hperm|].
      apply in_seq. split; [lia|]. simpl. apply nth_error_Some. rewrite Hj. discriminate. }
    destruct (Forall2_in_l _ _ _ _ _ _ Hall Hin) as [rj [_ [k' [r0 [Hj' [Hcell _]]]]]].
    rewrite Hj in Hj'. injection Hj' as E. subst k'.
    unfold f, res_at. rewrite Hj, Hcell. apply cell_end. exact Hcell.
  - rewrite Hm. apply Permutation_concat_local. apply Permutation_map. exact Hp2.
  - rewrite Hx. apply combine_perm. apply Permutation_map. exact Hp2.
  - exists r. split.
    + eapply Permutation_in; [exact Hp2|exact Hr].
    + apply is_nil_false. exact Hrn.
Qed.

Lemma every_requester_fails_s : forall k r t pc c,
  final s ->
  In (BodyEnd k r) tr -> r <> RNil ->
  In (CallEnter t pc) tr -> nth_error (calls_of p t) pc = Some c -> reached_by tr c k ->
  ~ In (CallReturn t pc) tr /\ exists x m, In (CallPanic t pc x m) tr /\ incl (message r) m.
Proof.
  intros k r t pc c Hfin Hend Hr Hent Hc Hreach.
  assert (Hk : In k (c_deps c)) by (apply reached_by_in; exact Hreach).
  assert (Hnoret : ~ In (CallReturn t pc) tr) by (eapply never_returns_s; eassumption).
  split; [exact Hnoret|].
  destruct (a_enter p s tr IA t pc Hent) as [tk [c' [Htk [_ Hwhere]]]].
  assert (Hpc : pc < t_pc tk).
  { destruct Hwhere as [H|[_ Hin]]; [exact H|].
    rewrite (Hfin t tk Htk) in Hin. destruct Hin. }
  destruct (c_past true p s tr IC t tk pc c Htk Hpc Hc) as [_ [Hret|[x [m Hpan]]]];
    [contradiction|].
  exists x, m. split; [exact Hpan|].
  pose proof (end_cell k r Hend) as Hcellk.
  pose proof (c_panic true p s tr IC t pc x m c Hpan Hc) as Hp.
  unfold reached_by in Hreach.
  destruct (c_style c).
  - (* Par *)
    destruct Hp as [js [rs [Hperm [Hall [Hm _]]]]].
    destruct (In_nth_error _ _ Hk) as [j Hj].
    assert (Hin : In j js).
    { eapply Permutation_in; [apply Permutation_sym; exact Hperm|].
      apply in_seq. split; [lia|]. simpl. apply nth_error_Some. rewrite Hj. discriminate. }
    destruct (Forall2_in_l _ _ _ _ _ _ Hall Hin) as [rj [Hrj [k' [r0 [Hj' [Hcell Hseen]]]]]].
    rewrite Hj in Hj'. injection Hj' as E. subst k'.
    apply seen_as_true in Hseen. subst rj.
    rewrite Hcellk in Hcell. injection Hcell as E. subst r0.
    rewrite Hm. apply incl_concat_member. apply in_map. exact Hrj.
  - (* Ser *)
    destruct Hp as [i0 [k0 [r0 [rj [Hi0 [Hcell0 [Hseen [Hnn [Hm [_ Hprev]]]]]]]]]].
    apply seen_as_true in Hseen. subst rj.
    destruct Hreach as [i [Hi Hbefore]].
    destruct (Nat.lt_trichotomy i i0) as [Hlt|[Heq|Hgt]].
    + destruct (Hprev i k Hlt Hi) as [r1 [Hc1 Hn1]].
      apply nilish_true in Hn1. subst r1.
      rewrite Hcellk in Hc1. injection Hc1 as E. contradiction.
    + subst i0. rewrite Hi in Hi0. injection Hi0 as E. subst k0.
      rewrite Hcellk in Hcell0. injection Hcell0 as E. subst r0.
      rewrite Hm. apply incl_refl.
    + pose proof (end_cell _ _ (Hbefore i0 k0 Hgt Hi0)) as Hc2.
      rewrite Hcell0 in Hc2. injection Hc2 as E. subst r0. discriminate Hnn.
Qed.

End Facts.

(* ---------- the statements of Props/C03.v ---------- *)

Lemma returns_only_on_success : forall p s tr t pc c k,
  reach true p s tr -> In (CallReturn t pc) tr -> nth_error (calls_of p t) pc = Some c -> In k (c_deps c) ->
  In (BodyEnd k RNil) tr.
Proof. intros p s tr t pc c k R. apply returns_only_on_success_s with (s := s). exact R. Qed.

Lemma success_means_calls_succeeded : forall p s tr k pc c,
  reach true p s tr -> In (BodyEnd k RNil) tr -> nth_error (calls_of p (TBody k)) pc = Some c ->
  In (CallReturn (TBody k) pc) tr \/ (c_guarded c = true /\ exists x m, In (CallPanic (TBody k) pc x m) tr).
Proof. intros p s tr k pc c R. apply success_means_calls_succeeded_s with (s := s). exact R. Qed.

Lemma every_requester_fails : forall p s tr k r t pc c,
  reach true p s tr -> final s ->
  In (BodyEnd k r) tr -> r <> RNil ->
  In (CallEnter t pc) tr -> nth_error (calls_of p t) pc = Some c -> reached_by tr c k ->
  ~ In (CallReturn t pc) tr /\ exists x m, In (CallPanic t pc x m) tr /\ incl (message r) m.
Proof. intros p s tr k r t pc c R. apply every_requester_fails_s. exact R. Qed.

Lemma never_returns : forall p s tr k r t pc c,
  reach true p s tr -> In (BodyEnd k r) tr -> r <> RNil ->
  nth_error (calls_of p t) pc = Some c -> In k (c_deps c) -> ~ In (CallReturn t pc) tr.
Proof. intros p s tr k r t pc c R. apply never_returns_s with (s := s). exact R. Qed.

Lemma no_dependent_continues : forall p s tr t pc x m c,
  reach true p s tr -> In (CallPanic t pc x m) tr -> nth_error (calls_of p t) pc = Some c -> c_guarded c = false ->
  (forall pc', pc < pc' -> ~ In (CallEnter t pc') tr) /\
  (forall k r, t = TBody k -> In (BodyEnd k r) tr -> r = RPanic x m).
Proof. intros p s tr t pc x m c R. apply no_dependent_continues_s with (s := s). exact R. Qed.

Lemma payload_par : forall p s tr t pc x m c,
  reach true p s tr -> In (CallPanic t pc x m) tr -> nth_error (calls_of p t) pc = Some c -> c_style c = Par ->
  exists rs, Forall2 (fun k rk => In (BodyEnd k rk) tr) (c_deps c) rs /\
             Permutation m (concat (map message rs)) /\ x = combine (map status rs) /\
             exists r, In r rs /\ r <> RNil.
Proof. intros p s tr t pc x m c R. apply payload_par_s with (s := s). exact R. Qed.

Lemma payload_ser : forall p s tr t pc x m c,
  reach true p s tr -> In (CallPanic t pc x m) tr -> nth_error (calls_of p t) pc = Some c -> c_style c = Ser ->
  exists i k r, nth_error (c_deps c) i = Some k /\ In (BodyEnd k r) tr /\ r <> RNil /\
                m = message r /\ x = combine [status r] /\
                forall i' k', i' < i -> nth_error (c_deps c) i' = Some k' -> In (BodyEnd k' RNil) tr.
Proof. intros p s tr t pc x m c R. apply payload_ser_s with (s := s). exact R. Qed.

(* ---------- sensitivity and non-vacuity: one program, one schedule ---------- *)

(* node 0 fails; node 1 depends on it and does not recover; the root asks for node 1 twice and
   recovers both times *)
Definition w_bad : body := {| b_calls := []; b_result := Err 1 [0]; b_name := 0 |}.
Definition w_mid : body :=
  {| b_calls := [ {| c_style := Par; c_ctx := Bg; c_deps := [0]; c_guarded := false |} ];
     b_result := Ok; b_name := 1 |}.
Definition w_call : call := {| c_style := Par; c_ctx := Bg; c_deps := [1]; c_guarded := true |}.
Definition w_prog : prog :=
  {| nodes := [w_bad; w_mid]; roots := [([w_call; w_call], CBg)]; verbose := false |}.
Definition w_sched : list action :=
  [ATask (TRoot 0); ATask (TRoot 0); AGo (TRoot 0) 0;
   ATask (TBody 1); ATask (TBody 1); AGo (TBody 1) 0;
   ATask (TBody 0);
   AGo (TBody 1) 0; AGo (TBody 1) 0; ATask (TBody 1); ATask (TBody 1);
   AGo (TRoot 0) 0; AGo (TRoot 0) 0; ATask (TRoot 0);
   ATask (TRoot 0); ATask (TRoot 0); AGo (TRoot 0) 0; AGo (TRoot 0) 0; ATask (TRoot 0);
   ATask (TRoot 0)].

Lemma before_repair_refuted : exists p acts s tr t pc c k r,
  run false p (init p) acts = Some (s, tr) /\ In (BodyEnd k r) tr /\ r <> RNil /\
  nth_error (calls_of p t) pc = Some c /\ In k (c_deps c) /\ In (CallReturn t pc) tr.
Proof.
  exists w_prog, w_sched. eexists. eexists.
  exists (TRoot 0), 1, w_call, 1, (RPanic 1 [0]).
  split; [vm_compute; reflexivity|].
  split; [simpl; tauto|].
  split; [discriminate|].
  split; [reflexivity|].
  split; [left; reflexivity|].
  simpl; tauto.
Qed.

Lemma nonvacuous_c03 : exists p acts s tr,
  run true p (init p) acts = Some (s, tr) /\ final s /\
  In (CallPanic (TRoot 0) 0 1 [0]) tr /\ In (CallPanic (TRoot 0) 1 1 [0]) tr.
Proof.
  exists w_prog, w_sched. eexists. eexists.
  split; [vm_compute; reflexivity|].
  split.
  - intros t tk H.
    destruct t as [[|n]|[|[|k]]]; cbv in H;
      try (inversion H; reflexivity); try discriminate H.
    destruct n; discriminate H.
  - split; simpl; tauto.
Qed.
