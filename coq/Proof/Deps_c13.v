(* C13 - SerialDeps runs dependencies one at a time in the order given: proofs of the statements of
   Props/C13.v from the invariant (Deps_inv.v). *)
From Mage Require Import Base.Strs Model.Deps Proof.Deps_defs Proof.Deps_inv.

(* ---- small facts ---- *)

Lemma remember_true : forall r, remember true r = r.
Proof. destruct r; reflexivity. Qed.

Lemma seen_as_true : forall r0 r, seen_as true r0 r -> r = r0.
Proof. intros r0 r [H|H]; [exact H | rewrite remember_true in H; exact H]. Qed.

Lemma nilish_true : forall r0, nilish true r0 -> r0 = RNil.
Proof. intros r0 [H|H]; [exact H | rewrite remember_true in H; exact H]. Qed.

(* a round of a serial call has at most one member, the one at the round's position in the list *)
Lemma ser_round : forall c r ms, c_style c = Ser -> nth_error (rounds c) r = Some ms ->
  length ms <= 1 /\ forall k, In k ms -> nth_error (c_deps c) r = Some k.
Proof.
  intros c r ms Hs H. unfold rounds in H. rewrite Hs in H.
  destruct (c_deps c) as [|d ds] eqn:Hd.
  - destruct r as [|r]; simpl in H.
    + inversion H; subst. split; [simpl; lia | intros k []].
    + destruct r; discriminate.
  - rewrite nth_error_map in H. destruct (nth_error (d :: ds) r) as [k0|] eqn:Hn; simpl in H; [|discriminate].
    inversion H; subst. split; [simpl; lia|].
    intros k [Hk|[]]. subst. reflexivity.
Qed.

Lemma ser_round_of : forall c i k, c_style c = Ser -> nth_error (c_deps c) i = Some k ->
  nth_error (rounds c) i = Some [k].
Proof.
  intros c i k Hs H. unfold rounds. rewrite Hs.
  destruct (c_deps c) as [|d ds] eqn:Hd.
  - destruct i; discriminate.
  - apply map_nth_error with (f := fun d => [d]). exact H.
Qed.

Lemma ser_rounds_length : forall c i k, c_style c = Ser -> nth_error (c_deps c) i = Some k ->
  length (rounds c) = length (c_deps c).
Proof.
  intros c i k Hs H. unfold rounds. rewrite Hs.
  destruct (c_deps c) as [|d ds] eqn:Hd.
  - destruct i; discriminate.
  - apply map_length.
Qed.

Lemma Forall2_In_l : forall {A B} (P : A -> B -> Prop) l l' x,
  Forall2 P l l' -> In x l -> exists y, In y l' /\ P x y.
Proof.
  intros A B P l l' x H. induction H as [|a b l l' Hab H IH]; intros Hin.
  - destruct Hin.
  - destruct Hin as [Hin|Hin].
    + subst. exists b. split; [left; reflexivity | exact Hab].
    + destruct (IH Hin) as [y [Hy HP]]. exists y. split; [right; exact Hy | exact HP].
Qed.

Lemma filter_length_0 : forall {A} (f : A -> bool) l x,
  length (filter f l) = 0 -> In x l -> f x = false.
Proof.
  intros A f l x. induction l as [|a l IH]; intros H Hin.
  - destruct Hin.
  - simpl in H. destruct (f a) eqn:Hfa; simpl in H; [discriminate|].
    destruct Hin as [Hin|Hin]; [subst; exact Hfa | exact (IH H Hin)].
Qed.

(* earlier members of a serial call in round r have ended with nil *)
Lemma earlier_members_nil : forall p s tr t pc r st c,
  InvA p s tr -> RoundOK true p s tr t pc r st ->
  nth_error (calls_of p t) pc = Some c -> c_style c = Ser ->
  forall i' k', i' < r -> nth_error (c_deps c) i' = Some k' -> In (BodyEnd k' RNil) tr.
Proof.
  intros p s tr t pc r st c HA HR Hc Hs i' k' Hlt Hn.
  destruct (b_prev _ _ _ _ _ _ _ _ HR c i' [k'] k' Hc Hlt (ser_round_of _ _ _ Hs Hn)) as [r0 [Hcell Hnil]].
  - left; reflexivity.
  - apply nilish_true in Hnil. subst r0. apply (a_end _ _ _ HA). exact Hcell.
Qed.

(* ---- order ---- *)

(* where a goroutine step emits a BodyStart *)
Lemma go_start_inv : forall fixed p s t j s' ev k cx tk,
  step fixed p s (AGo t j) = Some (s', ev) -> In (BodyStart k cx) ev -> tasks s t = Some tk ->
  exists r st, t_phase tk = PRound r st /\ nth_error (rd_members st) j = Some k.
Proof.
  intros fixed p s t j s' ev k cx tk Hstep Hin Htk.
  simpl in Hstep. unfold step_go in Hstep. rewrite Htk in Hstep.
  destruct (t_phase tk) as [|r st|o|] eqn:Hph; try discriminate.
  destruct (nth_error (calls_of p t) (t_pc tk)) as [c|] eqn:Hc; [|discriminate].
  destruct (nth_error (rd_members st) j) as [k0|] eqn:Hm; [|discriminate].
  destruct (nth_error (rd_gs st) j) as [g|] eqn:Hg; [|discriminate].
  exists r, st. split; [reflexivity|].
  destruct g as [| |r0|].
  - destruct (cells s k0) as [| |r0] eqn:Hcell.
    + inversion Hstep; subst. apply in_app_or in Hin. destruct Hin as [Hin|Hin].
      * destruct (verbose p); simpl in Hin; [destruct Hin as [Hin|[]]; discriminate | destruct Hin].
      * destruct Hin as [Hin|[]]. inversion Hin; subst. exact Hm.
    + discriminate.
    + inversion Hstep; subst. destruct Hin.
  - destruct (cells s k0); try discriminate. inversion Hstep; subst. destruct Hin.
  - destruct (is_nil r0); inversion Hstep; subst; destruct Hin.
  - discriminate.
Qed.

Lemma order : forall p s tr t j s' ev k cx tk c,
  reach true p s tr -> step true p s (AGo t j) = Some (s', ev) -> In (BodyStart k cx) ev ->
  tasks s t = Some tk -> nth_error (calls_of p t) (t_pc tk) = Some c -> c_style c = Ser ->
  exists i, nth_error (c_deps c) i = Some k /\
            forall i' k', i' < i -> nth_error (c_deps c) i' = Some k' -> In (BodyEnd k' RNil) tr.
Proof.
  intros p s tr t j s' ev k cx tk c Hreach Hstep Hin Htk Hc Hs.
  destruct (go_start_inv _ _ _ _ _ _ _ _ _ _ Hstep Hin Htk) as [r [st [Hph Hm]]].
  destruct (reach_inv _ _ _ _ Hreach) as [HA [HB HC]].
  pose proof (b_round _ _ _ _ HB t tk r st Htk Hph) as HR.
  destruct (b_rd _ _ _ _ _ _ _ _ HR) as [c' [Hc' [Hrd [Hlen Hent]]]].
  rewrite Hc in Hc'. inversion Hc'; subst c'.
  destruct (ser_round _ _ _ Hs Hrd) as [_ Hmem].
  exists r. split.
  - apply Hmem. eapply nth_error_In. exact Hm.
  - exact (earlier_members_nil _ _ _ _ _ _ _ _ HA HR Hc Hs).
Qed.

(* ---- one at a time ---- *)

Lemma one_at_a_time : forall fixed p s tr t tk r st c,
  reach fixed p s tr -> tasks s t = Some tk -> t_phase tk = PRound r st ->
  nth_error (calls_of p t) (t_pc tk) = Some c -> c_style c = Ser ->
  length (rd_gs st) <= 1 /\ length (rd_members st) <= 1.
Proof.
  intros fixed p s tr t tk r st c Hreach Htk Hph Hc Hs.
  destruct (reach_inv _ _ _ _ Hreach) as [HA [HB HC]].
  pose proof (b_round _ _ _ _ HB t tk r st Htk Hph) as HR.
  destruct (b_rd _ _ _ _ _ _ _ _ HR) as [c' [Hc' [Hrd [Hlen Hent]]]].
  rewrite Hc in Hc'. inversion Hc'; subst c'.
  destruct (ser_round _ _ _ Hs Hrd) as [Hl _]. lia.
Qed.

(* ---- stop at the first failure ---- *)

Lemma stop_at_failure : forall p s tr t pc x m c,
  reach true p s tr -> In (CallPanic t pc x m) tr -> nth_error (calls_of p t) pc = Some c -> c_style c = Ser ->
  exists i k r, nth_error (c_deps c) i = Some k /\ In (BodyEnd k r) tr /\ r <> RNil /\
                m = message r /\ x = changeExit 0 (status r) /\
                forall i' k', i' < i -> nth_error (c_deps c) i' = Some k' -> In (BodyEnd k' RNil) tr.
Proof.
  intros p s tr t pc x m c Hreach Hin Hc Hs.
  destruct (reach_inv _ _ _ _ Hreach) as [HA [HB HC]].
  pose proof (c_panic _ _ _ _ HC t pc x m c Hin Hc) as HP. rewrite Hs in HP.
  destruct HP as [i [k [r0 [rj [Hn [Hcell [Hseen [Hnil [Hm [Hx Hprev]]]]]]]]]].
  apply seen_as_true in Hseen. subst rj.
  exists i, k, r0. repeat split; try assumption.
  - apply (a_end _ _ _ HA). exact Hcell.
  - intros E; subst r0; discriminate.
  - intros i' k' Hlt Hn'. destruct (Hprev i' k' Hlt Hn') as [r1 [Hc1 Hn1]].
    apply nilish_true in Hn1. subst r1. apply (a_end _ _ _ HA). exact Hc1.
Qed.

(* ---- members end in order ---- *)

(* where a step emits a CallReturn *)
Lemma return_inv : forall fixed p s a s' ev t pc,
  step fixed p s a = Some (s', ev) -> In (CallReturn t pc) ev ->
  ev = [CallReturn t pc] /\
  exists tk r st c, tasks s t = Some tk /\ t_pc tk = pc /\ t_phase tk = PRound r st /\
    nth_error (calls_of p t) pc = Some c /\ length (rd_members st) <= length (rd_gs st) /\
    all_finished (rd_gs st) = true /\ rd_nerr st = 0 /\ nth_error (rounds c) (S r) = None.
Proof.
  intros fixed p s a s' ev t pc Hstep Hin.
  destruct a as [t0|t0 j]; simpl in Hstep.
  - unfold step_task in Hstep.
    destruct (tasks s t0) as [tk|] eqn:Htk; [|discriminate].
    destruct (t_phase tk) as [|r st|o|] eqn:Hph.
    + destruct (nth_error (calls_of p t0) (t_pc tk)) as [c|] eqn:Hc.
      * destruct (rounds c); [discriminate|]. inversion Hstep; subst.
        destruct Hin as [Hin|[]]; discriminate.
      * unfold finish in Hstep. destruct t0; inversion Hstep; subst.
        -- destruct Hin.
        -- destruct Hin as [Hin|[]]; discriminate.
    + destruct (nth_error (calls_of p t0) (t_pc tk)) as [c|] eqn:Hc; [|discriminate].
      destruct (Nat.ltb (length (rd_gs st)) (length (rd_members st))) eqn:Hlt.
      * inversion Hstep; subst. destruct Hin.
      * destruct (all_finished (rd_gs st)) eqn:Hall; [|discriminate].
        destruct (Nat.eqb (rd_nerr st) 0) eqn:Hnerr.
        -- destruct (nth_error (rounds c) (S r)) as [ms|] eqn:Hnext.
           ++ inversion Hstep; subst. destruct Hin.
           ++ inversion Hstep; subst. destruct Hin as [Hin|[]]. inversion Hin; subst.
              split; [reflexivity|].
              exists tk, r, st, c. apply Nat.ltb_ge in Hlt. apply Nat.eqb_eq in Hnerr.
              repeat split; assumption.
        -- destruct (c_guarded c); inversion Hstep; subst; destruct Hin as [Hin|[]]; discriminate.
    + unfold finish in Hstep. destruct t0; inversion Hstep; subst.
      * destruct Hin.
      * destruct Hin as [Hin|[]]; discriminate.
    + discriminate.
  - unfold step_go in Hstep.
    destruct (tasks s t0) as [tk|] eqn:Htk; [|discriminate].
    destruct (t_phase tk) as [|r st|o|] eqn:Hph; try discriminate.
    destruct (nth_error (calls_of p t0) (t_pc tk)) as [c|] eqn:Hc; [|discriminate].
    destruct (nth_error (rd_members st) j) as [k0|] eqn:Hm; [|discriminate].
    destruct (nth_error (rd_gs st) j) as [g|] eqn:Hg; [|discriminate].
    destruct g as [| |r0|].
    + destruct (cells s k0) as [| |r0] eqn:Hcell.
      * inversion Hstep; subst. apply in_app_or in Hin. destruct Hin as [Hin|Hin].
        -- destruct (verbose p); simpl in Hin; [destruct Hin as [Hin|[]]; discriminate | destruct Hin].
        -- destruct Hin as [Hin|[]]; discriminate.
      * discriminate.
      * inversion Hstep; subst. destruct Hin.
    + destruct (cells s k0); try discriminate. inversion Hstep; subst. destruct Hin.
    + destruct (is_nil r0); inversion Hstep; subst; destruct Hin.
    + discriminate.
Qed.

(* every listed member of a serial call has ended with nil before the call returns *)
Lemma member_ended_before_return : forall p s tr pre post t pc c i k,
  reach true p s tr -> tr = pre ++ CallReturn t pc :: post ->
  nth_error (calls_of p t) pc = Some c -> c_style c = Ser ->
  nth_error (c_deps c) i = Some k -> In (BodyEnd k RNil) pre.
Proof.
  intros p s tr pre post t pc c i k Hreach Htr Hc Hs Hn.
  destruct (emitted_at _ _ _ _ _ _ _ Hreach Htr)
    as [s0 [tr0 [a [s1 [ev [l1 [l2 [post' [Hreach0 [Hstep [Hev [Hpre [Hreach1 Htr']]]]]]]]]]]]].
  assert (Hin : In (CallReturn t pc) ev) by (rewrite Hev; apply in_or_app; right; left; reflexivity).
  destruct (return_inv _ _ _ _ _ _ _ _ Hstep Hin)
    as [Hev1 [tk [r [st [c' [Htk [Hpc [Hph [Hc' [Hlen [Hall [Hnerr Hnext]]]]]]]]]]]].
  rewrite Hc in Hc'. inversion Hc'; subst c'. clear Hc'.
  assert (Hl1 : l1 = []).
  { rewrite Hev in Hev1. destruct l1 as [|e l1]; [reflexivity|].
    simpl in Hev1. inversion Hev1. destruct l1; discriminate. }
  subst l1. rewrite app_nil_r in Hpre. subst pre.
  destruct (reach_inv _ _ _ _ Hreach0) as [HA [HB HC]].
  pose proof (b_round _ _ _ _ HB t tk r st Htk Hph) as HR. rewrite Hpc in HR.
  (* i <= r *)
  assert (Hir : i <= r).
  { apply nth_error_None in Hnext. rewrite (ser_rounds_length _ _ _ Hs Hn) in Hnext.
    assert (i < length (c_deps c)) by (apply nth_error_Some; rewrite Hn; discriminate). lia. }
  destruct (Nat.eq_dec i r) as [Heq|Hne].
  - subst i.
    destruct (b_rd _ _ _ _ _ _ _ _ HR) as [c' [Hc' [Hrd [Hlen' Hent]]]].
    rewrite Hc in Hc'. inversion Hc'; subst c'. clear Hc'.
    rewrite (ser_round_of _ _ _ Hs Hn) in Hrd. inversion Hrd as [Hmem]. clear Hrd.
    rewrite <- Hmem in Hlen, Hlen'. simpl in Hlen, Hlen'.
    destruct (rd_gs st) as [|g gs] eqn:Hgs; [simpl in Hlen; lia|].
    destruct gs as [|g' gs]; [|simpl in Hlen'; lia].
    simpl in Hall. destruct g; try discriminate.
    assert (H0 : In 0 (rd_done st)).
    { apply (b_fin _ _ _ _ _ _ _ _ HR). rewrite Hgs. reflexivity. }
    destruct (b_acc _ _ _ _ _ _ _ _ HR) as [rs [HF [Herrs [Hcount Hexit]]]].
    destruct (Forall2_In_l _ _ _ _ HF H0) as [rj [Hrj [k0 [r0 [Hk0 [Hcell Hseen]]]]]].
    rewrite <- Hmem in Hk0. simpl in Hk0. inversion Hk0; subst k0.
    apply seen_as_true in Hseen. subst rj.
    rewrite Hnerr in Hcount. symmetry in Hcount.
    pose proof (filter_length_0 _ _ _ Hcount Hrj) as Hnil.
    destruct r0; try discriminate.
    apply (a_end _ _ _ HA). exact Hcell.
  - apply (earlier_members_nil _ _ _ _ _ _ _ _ HA HR Hc Hs i k); [lia | exact Hn].
Qed.

Lemma members_end_in_order : forall p s tr pre post t pc c i j ki kj,
  reach true p s tr -> tr = pre ++ CallReturn t pc :: post ->
  nth_error (calls_of p t) pc = Some c -> c_style c = Ser ->
  i < j -> nth_error (c_deps c) i = Some ki -> nth_error (c_deps c) j = Some kj ->
  In (BodyEnd ki RNil) pre /\ In (BodyEnd kj RNil) pre.
Proof.
  intros p s tr pre post t pc c i j ki kj Hreach Htr Hc Hs Hij Hi Hj. split.
  - exact (member_ended_before_return _ _ _ _ _ _ _ _ _ _ Hreach Htr Hc Hs Hi).
  - exact (member_ended_before_return _ _ _ _ _ _ _ _ _ _ Hreach Htr Hc Hs Hj).
Qed.

(* ---- the once-only rule still applies ---- *)

Lemma once_still_applies : forall fixed p s tr k,
  reach fixed p s tr -> nstart k tr <= 1.
Proof.
  intros fixed p s tr k Hreach.
  destruct (reach_inv _ _ _ _ Hreach) as [HA _].
  rewrite (a_cnt _ _ _ HA k). destruct (cells s k); lia.
Qed.

(* ---- non-vacuity ---- *)

Definition bd13 : body := {| b_calls := []; b_result := Ok; b_name := 0 |}.
Definition p13 : prog :=
  {| nodes := [bd13; bd13; bd13];
     roots := [ ([ {| c_style := Ser; c_ctx := Bg; c_deps := [0;1;2]; c_guarded := true |} ], CBg);
                ([ {| c_style := Par; c_ctx := Bg; c_deps := [1]; c_guarded := true |} ], CBg) ];
     verbose := false |}.
(* root 1 starts member 1 and holds it; root 0 runs 0, waits at 1 until it has ended, then starts 2 *)
Definition acts13 : list action :=
  [ ATask (TRoot 1); ATask (TRoot 1); AGo (TRoot 1) 0;
    ATask (TRoot 0); ATask (TRoot 0); AGo (TRoot 0) 0; ATask (TBody 0); AGo (TRoot 0) 0; AGo (TRoot 0) 0;
    ATask (TRoot 0); ATask (TRoot 0); ATask (TBody 1); AGo (TRoot 0) 0; AGo (TRoot 0) 0;
    ATask (TRoot 0); ATask (TRoot 0); AGo (TRoot 0) 0; ATask (TBody 2); AGo (TRoot 0) 0; AGo (TRoot 0) 0;
    ATask (TRoot 0); ATask (TRoot 0);
    AGo (TRoot 1) 0; AGo (TRoot 1) 0; ATask (TRoot 1); ATask (TRoot 1) ].
Definition end13 : cfg * list event :=
  match run true p13 (init p13) acts13 with Some x => x | None => (init p13, []) end.

(* while member 1 is Running in root 1's hands, root 0's goroutine for it cannot move *)
Example blocked13 :
  exists s tr, run true p13 (init p13) (firstn 11 acts13) = Some (s, tr) /\
               cells s 1 = Running /\ step true p13 s (AGo (TRoot 0) 0) = None.
Proof.
  exists (fst (match run true p13 (init p13) (firstn 11 acts13) with Some x => x | None => (init p13, []) end)),
         (snd (match run true p13 (init p13) (firstn 11 acts13) with Some x => x | None => (init p13, []) end)).
  split; [vm_compute; reflexivity|]. split; vm_compute; reflexivity.
Qed.

Lemma nonvacuous_c13 : exists p acts s tr,
  run true p (init p) acts = Some (s, tr) /\ final s /\
  exists a b c0, tr = a ++ BodyEnd 1 RNil :: b ++ BodyStart 2 CBg :: c0.
Proof.
  exists p13, acts13, (fst end13), (snd end13). split; [vm_compute; reflexivity|]. split.
  - intros t tk H.
    destruct t as [[|[|[|n]]]|[|[|[|[|k]]]]]; vm_compute in H; try discriminate;
      inversion H; subst; reflexivity.
  - exists [CallEnter (TRoot 1) 0; BodyStart 1 CBg; CallEnter (TRoot 0) 0; BodyStart 0 CBg; BodyEnd 0 RNil],
           [], [BodyEnd 2 RNil; CallReturn (TRoot 0) 0; CallReturn (TRoot 1) 0].
    vm_compute. reflexivity.
Qed.
