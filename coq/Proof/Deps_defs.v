(* Vocabulary for the theorems about the dependency engine: reachability, trace predicates and the
   inductive invariant (three groups).  Definitions only; the proofs are in Deps_inv*.v. *)
From Mage Require Import Base.Strs Model.Deps.
From Coq Require Export Permutation.

Section Defs.
Variable fixed : bool.
Variable p : prog.

(* every configuration and trace the engine can produce, under every schedule *)
Inductive reach : cfg -> list event -> Prop :=
| reach_init : reach (init p) []
| reach_step s tr a s' ev : reach s tr -> step fixed p s a = Some (s', ev) -> reach s' (tr ++ ev).

Definition is_start (k : key) (e : event) : bool :=
  match e with BodyStart k' _ => Nat.eqb k' k | _ => false end.
Definition is_end (k : key) (e : event) : bool :=
  match e with BodyEnd k' _ => Nat.eqb k' k | _ => false end.
Definition nstart k tr := length (filter (is_start k) tr).
Definition nend k tr := length (filter (is_end k) tr).

Definition is_log_of (n : nat) (e : event) : bool := match e with Log m => Nat.eqb m n | _ => false end.
Definition is_start_named (n : nat) (e : event) : bool :=
  match e with BodyStart k _ => Nat.eqb (b_name (bodies p k)) n | _ => false end.
Definition nlog n tr := length (filter (is_log_of n) tr).
Definition nstart_named n tr := length (filter (is_start_named n) tr).

(* the event belongs to dependency k: its start, its end, or a call made by its body *)
Definition event_of (k : key) (e : event) : Prop :=
  match e with
  | BodyStart k' _ | BodyEnd k' _ => k' = k
  | CallEnter t _ | CallReturn t _ | CallPanic t _ _ _ => t = TBody k
  | Log _ => False
  end.

Definition in_call (ph : phase) : Prop := match ph with PRound _ _ => True | _ => False end.

(* nobody can move any more: every task (roots and started bodies) has finished *)
Definition final (s : cfg) : Prop :=
  forall t tk, tasks s t = Some tk -> t_phase tk = PFinished.

(* r is what some requester may have been handed for a cell that holds r0 *)
Definition seen_as (r0 r : res) : Prop := r = r0 \/ r = remember fixed r0.
(* every requester is handed nil for a cell that holds r0 *)
Definition nilish (r0 : res) : Prop := r0 = RNil \/ remember fixed r0 = RNil.

Definition combine (codes : list Z) : Z := fold_left changeExit codes 0%Z.

(* ---- group A: life cycle of cells and tasks, counting ---- *)
Record InvA (s : cfg) (tr : list event) : Prop := {
  a_ns  : forall k, cells s k = NotStarted -> tasks s (TBody k) = None;
  a_run : forall k, cells s k = Running -> exists tk, tasks s (TBody k) = Some tk /\ t_phase tk <> PFinished;
  a_fin : forall k r, cells s k = Done r -> exists tk, tasks s (TBody k) = Some tk /\ t_phase tk = PFinished;
  a_end : forall k r, cells s k = Done r <-> In (BodyEnd k r) tr;
  a_cnt : forall k, nstart k tr = match cells s k with NotStarted => 0 | _ => 1 end;
  a_cnt_end : forall k, nend k tr = match cells s k with Done _ => 1 | _ => 0 end;
  a_enter : forall t pc, In (CallEnter t pc) tr ->
              exists tk c, tasks s t = Some tk /\ nth_error (calls_of p t) pc = Some c /\
                           (pc < t_pc tk \/ (pc = t_pc tk /\ in_call (t_phase tk)));
  a_log : forall n, nlog n tr = if verbose p then nstart_named n tr else 0;
}.

(* ---- group B: the bookkeeping of every active runDeps round ---- *)
Definition acc_ok (s : cfg) (st : rd) : Prop :=
  exists rs,
    Forall2 (fun j rj => exists k r0, nth_error (rd_members st) j = Some k /\ cells s k = Done r0 /\ seen_as r0 rj)
            (rd_done st) rs /\
    rd_errs st = concat (map message rs) /\
    rd_nerr st = length (filter (fun r => negb (is_nil r)) rs) /\
    rd_exit st = combine (map status rs).

Record RoundOK (s : cfg) (tr : list event) (t : tid) (pc r : nat) (st : rd) : Prop := {
  b_rd : exists c, nth_error (calls_of p t) pc = Some c /\ nth_error (rounds c) r = Some (rd_members st) /\
                   length (rd_gs st) <= length (rd_members st) /\ In (CallEnter t pc) tr;
  b_has : forall j rj k, nth_error (rd_gs st) j = Some (GHas rj) -> nth_error (rd_members st) j = Some k ->
                         exists r0, cells s k = Done r0 /\ seen_as r0 rj;
  b_running : forall j k, nth_error (rd_gs st) j = Some GRunning -> nth_error (rd_members st) j = Some k ->
                          cells s k <> NotStarted;
  b_fin : forall j, nth_error (rd_gs st) j = Some GFinished <-> In j (rd_done st);
  b_nodup : NoDup (rd_done st);
  b_acc : acc_ok s st;
  b_prev : forall c r' ms k, nth_error (calls_of p t) pc = Some c -> r' < r -> nth_error (rounds c) r' = Some ms -> In k ms ->
                             exists r0, cells s k = Done r0 /\ nilish r0;
}.

Record InvB (s : cfg) (tr : list event) : Prop := {
  b_round : forall t tk r st, tasks s t = Some tk -> t_phase tk = PRound r st -> RoundOK s tr t (t_pc tk) r st;
  b_named : forall k, cells s k <> NotStarted ->
              exists t pc c, In (CallEnter t pc) tr /\ nth_error (calls_of p t) pc = Some c /\ In k (c_deps c);
}.

(* ---- group C: what the trace says about calls that have ended ---- *)
Definition par_payload (s : cfg) (c : call) (e : Z) (m : msg) : Prop :=
  exists js rs,
    Permutation js (seq 0 (length (c_deps c))) /\
    Forall2 (fun j rj => exists k r0, nth_error (c_deps c) j = Some k /\ cells s k = Done r0 /\ seen_as r0 rj) js rs /\
    m = concat (map message rs) /\ e = combine (map status rs) /\
    (exists r, In r rs /\ is_nil r = false).

Definition ser_payload (s : cfg) (c : call) (e : Z) (m : msg) : Prop :=
  exists i k r0 rj,
    nth_error (c_deps c) i = Some k /\ cells s k = Done r0 /\ seen_as r0 rj /\ is_nil rj = false /\
    m = message rj /\ e = changeExit 0 (status rj) /\
    forall i' k', i' < i -> nth_error (c_deps c) i' = Some k' -> exists r1, cells s k' = Done r1 /\ nilish r1.

Record InvC (s : cfg) (tr : list event) : Prop := {
  c_past : forall t tk pc c, tasks s t = Some tk -> pc < t_pc tk -> nth_error (calls_of p t) pc = Some c ->
             In (CallEnter t pc) tr /\ (In (CallReturn t pc) tr \/ exists e m, In (CallPanic t pc e m) tr);
  c_ret : forall t pc c k, In (CallReturn t pc) tr -> nth_error (calls_of p t) pc = Some c -> In k (c_deps c) ->
            exists r0, cells s k = Done r0 /\ nilish r0;
  c_panic : forall t pc e m c, In (CallPanic t pc e m) tr -> nth_error (calls_of p t) pc = Some c ->
            match c_style c with Par => par_payload s c e m | Ser => ser_payload s c e m end;
  c_abort : forall t tk o, tasks s t = Some tk -> t_phase tk = PAbort o ->
            exists pc c e m, t_pc tk = S pc /\ nth_error (calls_of p t) pc = Some c /\ c_guarded c = false /\
                             o = RPanic e m /\ In (CallPanic t pc e m) tr;
  c_unguarded : forall t pc e m c, In (CallPanic t pc e m) tr -> nth_error (calls_of p t) pc = Some c -> c_guarded c = false ->
            exists tk, tasks s t = Some tk /\ t_pc tk = S pc /\
                       (t_phase tk = PAbort (RPanic e m) \/
                        (t_phase tk = PFinished /\ forall k, t = TBody k -> cells s k = Done (RPanic e m)));
  c_fin : forall t tk, tasks s t = Some tk -> t_phase tk = PFinished ->
            (length (calls_of p t) <= t_pc tk /\
             (forall k, t = TBody k -> cells s k = Done (own_result p t)) /\
             (forall pc c e m, nth_error (calls_of p t) pc = Some c -> In (CallPanic t pc e m) tr -> c_guarded c = true))
            \/ (exists pc c e m, t_pc tk = S pc /\ nth_error (calls_of p t) pc = Some c /\ c_guarded c = false /\
                                 In (CallPanic t pc e m) tr /\ forall k, t = TBody k -> cells s k = Done (RPanic e m));
  c_end_once : forall t pc, (In (CallReturn t pc) tr -> forall e m, ~ In (CallPanic t pc e m) tr) /\
                            (forall e m e' m', In (CallPanic t pc e m) tr -> In (CallPanic t pc e' m') tr -> e = e' /\ m = m');
  c_ended : forall t pc, (In (CallReturn t pc) tr \/ exists e m, In (CallPanic t pc e m) tr) ->
                         exists tk, tasks s t = Some tk /\ pc < t_pc tk;
}.

Definition Inv (s : cfg) (tr : list event) : Prop := InvA s tr /\ InvB s tr /\ InvC s tr.

(* ---- vocabulary of the property statements ---- *)

(* e is the end of call pc of task t *)
Definition call_end (e : event) (t : tid) (pc : nat) : Prop :=
  e = CallReturn t pc \/ exists x m, e = CallPanic t pc x m.

(* the dependencies a call gets to: all of them for Deps/CtxDeps; for the serial forms those whose
   predecessors in the list all finished successfully (the only exception the property allows) *)
Definition reached_by (tr : list event) (c : call) (k : key) : Prop :=
  match c_style c with
  | Par => In k (c_deps c)
  | Ser => exists i, nth_error (c_deps c) i = Some k /\
                     forall i' k', i' < i -> nth_error (c_deps c) i' = Some k' -> In (BodyEnd k' RNil) tr
  end.

(* k' is k or something k's body waited on, transitively *)
Inductive below (tr : list event) : key -> key -> Prop :=
| below_refl k : below tr k k
| below_step k pc c k' k'' :
    In (CallEnter (TBody k) pc) tr -> nth_error (calls_of p (TBody k)) pc = Some c ->
    reached_by tr c k' -> below tr k' k'' -> below tr k k''.

End Defs.
