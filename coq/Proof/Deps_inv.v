(* The engine invariant holds in every reachable configuration; structural facts about reachable
   traces (where an event was emitted, what one step emits, run ~ reach, monotonicity). *)
From Mage Require Import Base.Strs Model.Deps Proof.Deps_defs.
From Mage Require Import Proof.Deps_invA Proof.Deps_invB Proof.Deps_invC.

Lemma reach_inv : forall fixed p s tr, reach fixed p s tr -> Inv fixed p s tr.
Proof.
  intros fixed p s tr R. induction R as [|s tr a s' ev R IH H].
  - split; [apply invA_init|split; [apply invB_init|apply invC_init]].
  - destruct IH as [IA [IB IC]]. split; [|split].
    + eapply step_invA; eauto.
    + eapply step_invB; eauto.
    + eapply step_invC; eauto.
Qed.

(* where an event of a reachable trace was emitted *)
Lemma emitted_at : forall fixed p s' tr' pre e post,
  reach fixed p s' tr' -> tr' = pre ++ e :: post ->
  exists s tr a s1 ev l1 l2 post',
    reach fixed p s tr /\ step fixed p s a = Some (s1, ev) /\ ev = l1 ++ e :: l2 /\
    pre = tr ++ l1 /\ reach fixed p s1 (tr ++ ev) /\ tr' = (tr ++ ev) ++ post'.
Proof.
  intros fixed p s' tr' pre e post R. revert pre e post.
  induction R as [|s tr a s' ev R IH H]; intros pre e post E.
  - destruct pre; discriminate.
  - apply app_eq_app in E. destruct E as [l [[E1 E2]|[E1 E2]]].
    + destruct l as [|x l].
      * simpl in E2. rewrite app_nil_r in E1. subst pre.
        exists s, tr, a, s', ev, [], post, []. repeat split; auto.
        -- rewrite app_nil_r. reflexivity.
        -- econstructor; eauto.
        -- rewrite app_nil_r. reflexivity.
      * simpl in E2. inversion E2; subst x post. clear E2.
        destruct (IH pre e l E1) as (s0 & tr0 & a0 & s1 & ev0 & l1 & l2 & post' & R0 & H0 & Hev & Hpre & R1 & Htr).
        exists s0, tr0, a0, s1, ev0, l1, l2, (post' ++ ev). repeat split; auto.
        rewrite Htr. rewrite app_assoc. reflexivity.
    + exists s, tr, a, s', ev, l, post, []. repeat split; auto.
      * econstructor; eauto.
      * rewrite app_nil_r. reflexivity.
Qed.

Ltac break H :=
  repeat match type of H with
         | context [match ?x with _ => _ end] =>
             lazymatch x with
             | context [match _ with _ => _ end] => fail
             | _ => let E := fresh "E" in destruct x eqn:E; try discriminate H
             end
         end.

(* shape of what one step emits *)
Lemma step_events : forall fixed p s a s' ev, step fixed p s a = Some (s', ev) ->
  ev = [] \/ (exists e, ev = [e] /\ match e with Log _ => False | _ => True end) \/
  (exists n k c, ev = [Log n; BodyStart k c]).
Proof.
  intros fixed p s a s' ev H. destruct a as [t|t j]; simpl in H.
  - unfold step_task, finish, set_phase in H. break H; inversion H; subst; clear H; auto;
      right; left; eexists; (split; [reflexivity|exact I]).
  - unfold step_go, set_phase in H. break H; inversion H; subst; clear H; auto; simpl.
    + right; right; eauto.
    + right; left; eexists; (split; [reflexivity|exact I]).
Qed.

(* run produces reachable configurations *)
Lemma run_reach : forall fixed p acts s tr s' tr',
  reach fixed p s tr -> run fixed p s acts = Some (s', tr') -> reach fixed p s' (tr ++ tr').
Proof.
  intros fixed p acts. induction acts as [|a acts IH]; simpl; intros s tr s' tr' R H.
  - inversion H; subst. rewrite app_nil_r. exact R.
  - destruct (step fixed p s a) as [[s1 ev]|] eqn:E; [|discriminate].
    destruct (run fixed p s1 acts) as [[s2 evs]|] eqn:E2; [|discriminate].
    inversion H; subst. rewrite app_assoc. eapply IH; [|exact E2]. econstructor; eauto.
Qed.

(* the trace only grows *)
Lemma reach_prefix_monotone : forall fixed p s tr a s' ev,
  reach fixed p s tr -> step fixed p s a = Some (s', ev) -> forall e, In e tr -> In e (tr ++ ev).
Proof. intros. apply in_or_app. left. assumption. Qed.
