(* Group A of the engine invariant (life cycle of cells and tasks, counting) is inductive.
   Also exports the small frame/utility lemmas used by the sibling files. *)
From Mage Require Import Base.Strs Model.Deps Proof.Deps_defs.

(* ---- utilities ---- *)

Lemma tid_eqb_spec a b : reflect (a = b) (tid_eqb a b).
Proof.
  destruct a as [x|x], b as [y|y]; simpl; try (constructor; congruence);
    destruct (Nat.eqb_spec x y); constructor; congruence.
Qed.

Lemma updc_eq f k v : updc f k v k = v.
Proof. unfold updc. rewrite Nat.eqb_refl. reflexivity. Qed.
Lemma updc_neq f k v k' : k' <> k -> updc f k v k' = f k'.
Proof. unfold updc. intros. destruct (Nat.eqb_spec k' k); congruence. Qed.
Lemma updt_eq f t v : updt f t v t = v.
Proof. unfold updt. destruct (tid_eqb_spec t t); congruence. Qed.
Lemma updt_neq f t v t' : t' <> t -> updt f t v t' = f t'.
Proof. unfold updt. intros. destruct (tid_eqb_spec t' t); congruence. Qed.

Lemma nth_set_nth_eq {A} (l : list A) n v : n < length l -> nth_error (set_nth l n v) n = Some v.
Proof. revert n; induction l; simpl; intros [|n] H; simpl; try lia; auto. apply IHl. lia. Qed.
Lemma nth_set_nth_neq {A} (l : list A) n m v : n <> m -> nth_error (set_nth l n v) m = nth_error l m.
Proof. revert n m; induction l; simpl; intros [|n] [|m] H; simpl; auto; try congruence. Qed.
Lemma set_nth_length {A} (l : list A) n v : length (set_nth l n v) = length l.
Proof. revert n; induction l; simpl; intros [|n]; simpl; auto. Qed.

Lemma all_finished_nth gs j : all_finished gs = true -> j < length gs -> nth_error gs j = Some GFinished.
Proof.
  unfold all_finished. revert j. induction gs as [|g gs IH]; simpl; intros j H L; [lia|].
  apply andb_true_iff in H. destruct H as [H1 H2]. destruct j; simpl.
  - destruct g; try discriminate. reflexivity.
  - apply IH; auto. lia.
Qed.

(* ---- counting over ++ ---- *)

Lemma nstart_app k a b : nstart k (a ++ b) = nstart k a + nstart k b.
Proof. unfold nstart. rewrite filter_app, app_length. reflexivity. Qed.
Lemma nend_app k a b : nend k (a ++ b) = nend k a + nend k b.
Proof. unfold nend. rewrite filter_app, app_length. reflexivity. Qed.
Lemma nlog_app n a b : nlog n (a ++ b) = nlog n a + nlog n b.
Proof. unfold nlog. rewrite filter_app, app_length. reflexivity. Qed.
Lemma nstart_named_app p n a b : nstart_named p n (a ++ b) = nstart_named p n a + nstart_named p n b.
Proof. unfold nstart_named. rewrite filter_app, app_length. reflexivity. Qed.

(* an event list without Log / BodyStart / BodyEnd *)
Definition quiet (ev : list event) : Prop :=
  forall e, In e ev -> match e with Log _ | BodyStart _ _ | BodyEnd _ _ => False | _ => True end.

Lemma quiet_nil : quiet [].
Proof. intros e []. Qed.
Lemma quiet_enter t pc : quiet [CallEnter t pc].
Proof. intros e [<-|[]]. exact I. Qed.
Lemma quiet_return t pc : quiet [CallReturn t pc].
Proof. intros e [<-|[]]. exact I. Qed.
Lemma quiet_panic t pc x m : quiet [CallPanic t pc x m].
Proof. intros e [<-|[]]. exact I. Qed.

Lemma filter_none {A} (f : A -> bool) l : (forall e, In e l -> f e = false) -> filter f l = [].
Proof.
  induction l as [|x l IH]; simpl; intros H; auto.
  rewrite (H x) by auto. apply IH. intros; apply H; auto.
Qed.

Lemma quiet_nstart ev k : quiet ev -> nstart k ev = 0.
Proof.
  intros Q. unfold nstart. rewrite filter_none; auto.
  intros e He. specialize (Q e He). destruct e; simpl; auto; contradiction.
Qed.
Lemma quiet_nend ev k : quiet ev -> nend k ev = 0.
Proof.
  intros Q. unfold nend. rewrite filter_none; auto.
  intros e He. specialize (Q e He). destruct e; simpl; auto; contradiction.
Qed.
Lemma quiet_nlog ev n : quiet ev -> nlog n ev = 0.
Proof.
  intros Q. unfold nlog. rewrite filter_none; auto.
  intros e He. specialize (Q e He). destruct e; simpl; auto; contradiction.
Qed.
Lemma quiet_nstart_named p ev n : quiet ev -> nstart_named p n ev = 0.
Proof.
  intros Q. unfold nstart_named. rewrite filter_none; auto.
  intros e He. specialize (Q e He). destruct e; simpl; auto; contradiction.
Qed.
Lemma quiet_no_end ev k r : quiet ev -> ~ In (BodyEnd k r) ev.
Proof. intros Q H. exact (Q _ H). Qed.

(* ---- initial state ---- *)

Lemma invA_init : forall p, InvA p (init p) [].
Proof.
  intros p. constructor; simpl; try discriminate; auto.
  - intros k r. split; [discriminate|intros []].
  - intros t pc [].
  - intros n. destruct (verbose p); reflexivity.
Qed.

(* a body task that can still move has a Running cell *)
Lemma live_body_running p s tr k tk :
  InvA p s tr -> tasks s (TBody k) = Some tk -> t_phase tk <> PFinished -> cells s k = Running.
Proof.
  intros I Ht Hp. destruct (cells s k) eqn:E; auto.
  - rewrite (a_ns _ _ _ I k E) in Ht. discriminate.
  - destruct (a_fin _ _ _ I k r E) as [tk' [H1 H2]]. congruence.
Qed.

(* ---- frame lemmas ---- *)

(* the task t changes its pc / phase; nothing starts or ends *)
Lemma invA_set_phase p s tr t tk pc ph ev :
  InvA p s tr -> tasks s t = Some tk -> t_phase tk <> PFinished ->
  (forall k, t = TBody k -> ph <> PFinished) ->
  quiet ev ->
  t_pc tk <= pc ->
  (in_call (t_phase tk) -> t_pc tk < pc \/ in_call ph) ->
  (forall t' pc', In (CallEnter t' pc') ev ->
     t' = t /\ pc' = pc /\ in_call ph /\ exists c, nth_error (calls_of p t) pc = Some c) ->
  InvA p (set_phase s t tk pc ph) (tr ++ ev).
Proof.
  intros I Ht Hlive Hph Q Hpc Hin Hev. unfold set_phase. constructor; simpl.
  - intros k E. destruct (tid_eqb_spec (TBody k) t) as [<-|N].
    + rewrite (a_ns _ _ _ I k E) in Ht. discriminate.
    + rewrite updt_neq by auto. eapply a_ns; eauto.
  - intros k E. destruct (tid_eqb_spec (TBody k) t) as [<-|N].
    + rewrite updt_eq. eexists; split; [reflexivity|]. simpl. eapply Hph; reflexivity.
    + rewrite updt_neq by auto. eapply a_run; eauto.
  - intros k r E. destruct (tid_eqb_spec (TBody k) t) as [<-|N].
    + destruct (a_fin _ _ _ I k r E) as [tk' [H1 H2]]. congruence.
    + rewrite updt_neq by auto. eapply a_fin; eauto.
  - intros k r. rewrite (a_end _ _ _ I k r). rewrite in_app_iff. split; auto.
    intros [H|H]; auto. destruct (quiet_no_end _ _ _ Q H).
  - intros k. rewrite nstart_app, (quiet_nstart _ _ Q), Nat.add_0_r. apply (a_cnt _ _ _ I).
  - intros k. rewrite nend_app, (quiet_nend _ _ Q), Nat.add_0_r. apply (a_cnt_end _ _ _ I).
  - intros t0 pc0 H. apply in_app_or in H. destruct H as [H|H].
    + destruct (a_enter _ _ _ I t0 pc0 H) as [tk0 [c [H1 [H2 H3]]]].
      destruct (tid_eqb_spec t0 t) as [->|N].
      * rewrite updt_eq. eexists; exists c; split; [reflexivity|]. split; auto. simpl.
        assert (tk0 = tk) by congruence. subst tk0.
        destruct H3 as [H3|[H3 H4]]; [left; lia|].
        destruct (Hin H4) as [H5|H5]; [left; lia|].
        destruct (Nat.eq_dec pc (t_pc tk)); [right; split; auto; congruence|left; lia].
      * rewrite updt_neq by auto. exists tk0, c; auto.
    + destruct (Hev _ _ H) as [-> [-> [H1 [c H2]]]].
      rewrite updt_eq. eexists; exists c; split; [reflexivity|]. split; auto.
  - intros n. rewrite nlog_app, nstart_named_app, (quiet_nlog _ _ Q), (quiet_nstart_named _ _ _ Q), !Nat.add_0_r.
    apply (a_log _ _ _ I).
Qed.

(* the task ends (outside a call) *)
Lemma invA_finish p s tr t tk o s' ev :
  InvA p s tr -> tasks s t = Some tk -> t_phase tk <> PFinished -> ~ in_call (t_phase tk) ->
  finish s t tk o = (s', ev) -> InvA p s' (tr ++ ev).
Proof.
  intros I Ht Hlive Hnc F. destruct t as [n|k0]; simpl in F; inversion F; subst; clear F.
  - apply (invA_set_phase p s tr (TRoot n) tk (t_pc tk) PFinished []); auto.
    + intros; discriminate.
    + apply quiet_nil.
    + intros; contradiction.
    + intros ? ? [].
  - assert (Hrun : cells s k0 = Running) by (eapply live_body_running; eauto).
    assert (Hneq : forall k, k <> k0 -> TBody k <> TBody k0) by (intros; congruence).
    constructor; simpl.
    + intros k E. unfold updc in E. destruct (Nat.eqb_spec k k0); [discriminate|].
      rewrite updt_neq by auto. eapply a_ns; eauto.
    + intros k E. unfold updc in E. destruct (Nat.eqb_spec k k0); [discriminate|].
      rewrite updt_neq by auto. eapply a_run; eauto.
    + intros k r E. unfold updc in E. destruct (Nat.eqb_spec k k0) as [->|N].
      * rewrite updt_eq. eexists; split; eauto.
      * rewrite updt_neq by auto. eapply a_fin; eauto.
    + intros k r. rewrite in_app_iff. unfold updc. destruct (Nat.eqb_spec k k0) as [->|N].
      * split.
        -- intros E. inversion E; subst. right; left; reflexivity.
        -- intros [H|[H|[]]].
           ++ apply (a_end _ _ _ I) in H. congruence.
           ++ inversion H; subst. reflexivity.
      * rewrite (a_end _ _ _ I k r). split; auto.
        intros [H|[H|[]]]; auto. inversion H; subst. congruence.
    + intros k. rewrite nstart_app. unfold nstart at 2. simpl. rewrite Nat.add_0_r, (a_cnt _ _ _ I k).
      unfold updc. destruct (Nat.eqb_spec k k0) as [->|N]; auto. rewrite Hrun. reflexivity.
    + intros k. rewrite nend_app. unfold nend at 2. simpl. rewrite (a_cnt_end _ _ _ I k).
      unfold updc. destruct (Nat.eqb_spec k0 k) as [->|N].
      * rewrite Nat.eqb_refl, Hrun. reflexivity.
      * destruct (Nat.eqb_spec k k0); [congruence|]. simpl. apply Nat.add_0_r.
    + intros t0 pc0 H. apply in_app_or in H. destruct H as [H|[H|[]]]; [|discriminate].
      destruct (a_enter _ _ _ I t0 pc0 H) as [tk0 [c [H1 [H2 H3]]]].
      destruct (tid_eqb_spec t0 (TBody k0)) as [->|N].
      * rewrite updt_eq. eexists; exists c; split; [reflexivity|]. split; auto. simpl.
        assert (tk0 = tk) by congruence. subst tk0.
        destruct H3 as [H3|[H3 H4]]; [left; lia|contradiction].
      * rewrite updt_neq by auto. exists tk0, c; auto.
    + intros n. rewrite nlog_app, nstart_named_app. unfold nlog at 2, nstart_named at 2. simpl.
      rewrite !Nat.add_0_r. apply (a_log _ _ _ I).
Qed.

(* a dependency's body starts *)
Lemma invA_spawn p s tr k cx :
  InvA p s tr -> cells s k = NotStarted ->
  InvA p {| cells := updc (cells s) k Running;
            tasks := updt (tasks s) (TBody k) (Some {| t_pc := 0; t_phase := PIdle; t_ctx := cx |}) |}
       (tr ++ (if verbose p then [Log (b_name (bodies p k))] else []) ++ [BodyStart k cx]).
Proof.
  intros I Hk.
  assert (Hnone : tasks s (TBody k) = None) by (eapply a_ns; eauto).
  set (l := if verbose p then [Log (b_name (bodies p k))] else []).
  assert (HinE : forall e, In e (l ++ [BodyStart k cx]) ->
                           match e with Log _ | BodyStart _ _ => True | _ => False end).
  { intros e H. apply in_app_or in H. destruct H as [H|[<-|[]]]; auto.
    unfold l in H. destruct (verbose p); [destruct H as [<-|[]]; auto|destruct H]. }
  constructor; simpl.
  - intros k' E. unfold updc in E. destruct (Nat.eqb_spec k' k); [discriminate|].
    rewrite updt_neq by congruence. eapply a_ns; eauto.
  - intros k' E. unfold updc in E. destruct (Nat.eqb_spec k' k) as [Q|N].
    + subst k'. rewrite updt_eq. eexists; split; eauto. simpl. discriminate.
    + rewrite updt_neq by congruence. eapply a_run; eauto.
  - intros k' r E. unfold updc in E. destruct (Nat.eqb_spec k' k); [discriminate|].
    rewrite updt_neq by congruence. eapply a_fin; eauto.
  - intros k' r. rewrite in_app_iff. unfold updc. destruct (Nat.eqb_spec k' k) as [->|N].
    + split; [discriminate|]. intros [H|H].
      * apply (a_end _ _ _ I) in H. congruence.
      * destruct (HinE _ H).
    + rewrite (a_end _ _ _ I k' r). split; auto. intros [H|H]; auto. destruct (HinE _ H).
  - intros k'. rewrite !nstart_app, (a_cnt _ _ _ I k').
    assert (nstart k' l = 0) as ->.
    { unfold l. destruct (verbose p); reflexivity. }
    unfold nstart at 1. simpl. unfold updc. destruct (Nat.eqb_spec k k') as [->|N].
    + rewrite Nat.eqb_refl, Hk. reflexivity.
    + destruct (Nat.eqb_spec k' k); [congruence|]. simpl. lia.
  - intros k'. rewrite !nend_app, (a_cnt_end _ _ _ I k').
    assert (nend k' l = 0) as ->.
    { unfold l. destruct (verbose p); reflexivity. }
    unfold nend at 1. simpl. unfold updc. destruct (Nat.eqb_spec k' k) as [->|N].
    + rewrite Hk. reflexivity.
    + lia.
  - intros t0 pc0 H. apply in_app_or in H. destruct H as [H|H]; [|destruct (HinE _ H)].
    destruct (a_enter _ _ _ I t0 pc0 H) as [tk0 [c [H1 [H2 H3]]]].
    destruct (tid_eqb_spec t0 (TBody k)) as [->|N]; [congruence|].
    rewrite updt_neq by auto. exists tk0, c; auto.
  - intros n. rewrite !nlog_app, !nstart_named_app, (a_log _ _ _ I n).
    unfold l. destruct (verbose p); unfold nlog, nstart_named; simpl.
    + destruct (Nat.eqb (b_name (bodies p k)) n); simpl; lia.
    + reflexivity.
Qed.

(* ---- the step ---- *)

Lemma step_invA : forall fixed p s tr a s' ev,
  InvA p s tr -> step fixed p s a = Some (s', ev) -> InvA p s' (tr ++ ev).
Proof.
  intros fixed p s tr a s' ev I H. destruct a as [t|t j]; simpl in H.
  - unfold step_task in H.
    destruct (tasks s t) as [tk|] eqn:Ht; [|discriminate].
    destruct (t_phase tk) as [|r st|o|] eqn:Hp; [| | |discriminate].
    + (* PIdle *)
      assert (Hlive : t_phase tk <> PFinished) by congruence.
      destruct (nth_error (calls_of p t) (t_pc tk)) as [c|] eqn:Hc.
      * destruct (rounds c) as [|ms rest] eqn:Hr; inversion H; subst; clear H.
        apply invA_set_phase; auto.
        -- intros; discriminate.
        -- apply quiet_enter.
        -- rewrite Hp. simpl. contradiction.
        -- intros t' pc' [E|[]]. inversion E; subst. simpl. eauto.
      * inversion H as [F]. eapply invA_finish; eauto. rewrite Hp. simpl. auto.
    + (* PRound *)
      assert (Hlive : t_phase tk <> PFinished) by congruence.
      destruct (nth_error (calls_of p t) (t_pc tk)) as [c|] eqn:Hc; [|discriminate].
      destruct (Nat.ltb (length (rd_gs st)) (length (rd_members st))).
      { inversion H; subst; clear H. apply invA_set_phase; simpl; auto.
        - intros; discriminate.
        - apply quiet_nil.
        - intros ? ? []. }
      destruct (all_finished (rd_gs st)); [|discriminate].
      destruct (Nat.eqb (rd_nerr st) 0).
      * destruct (nth_error (rounds c) (S r)) as [ms|]; inversion H; subst; clear H.
        -- apply invA_set_phase; simpl; auto.
           ++ intros; discriminate.
           ++ apply quiet_nil.
           ++ intros ? ? [].
        -- apply invA_set_phase; simpl; auto.
           ++ intros; discriminate.
           ++ apply quiet_return.
           ++ intros ? ? [E|[]]. discriminate.
      * destruct (c_guarded c); inversion H; subst; clear H.
        -- apply invA_set_phase; simpl; auto.
           ++ intros; discriminate.
           ++ apply quiet_panic.
           ++ intros ? ? [E|[]]. discriminate.
        -- apply invA_set_phase; simpl; auto.
           ++ intros; discriminate.
           ++ apply quiet_panic.
           ++ intros ? ? [E|[]]. discriminate.
    + (* PAbort *)
      inversion H as [F]. eapply invA_finish; eauto; rewrite Hp; simpl; auto. discriminate.
  - unfold step_go in H.
    destruct (tasks s t) as [tk|] eqn:Ht; [|discriminate].
    destruct (t_phase tk) as [|r st|o|] eqn:Hp; try discriminate.
    assert (Hlive : t_phase tk <> PFinished) by congruence.
    destruct (nth_error (calls_of p t) (t_pc tk)) as [c|] eqn:Hc; [|discriminate].
    destruct (nth_error (rd_members st) j) as [k|] eqn:Hk; [|discriminate].
    destruct (nth_error (rd_gs st) j) as [g|] eqn:Hg; [|discriminate].
    assert (SP : forall st', InvA p (set_phase s t tk (t_pc tk) (PRound r st')) (tr ++ [])).
    { intros st'. apply invA_set_phase; simpl; auto.
      - intros; discriminate.
      - apply quiet_nil.
      - intros ? ? []. }
    destruct g.
    + destruct (cells s k) eqn:Ek; [|discriminate|].
      * inversion H; subst; clear H.
        pose proof (SP {| rd_members := rd_members st; rd_gs := set_nth (rd_gs st) j GRunning;
                          rd_errs := rd_errs st; rd_nerr := rd_nerr st; rd_exit := rd_exit st;
                          rd_done := rd_done st |}) as SP1.
        rewrite app_nil_r in SP1.
        exact (invA_spawn p _ tr k (child_ctx c (t_ctx tk)) SP1 Ek).
      * inversion H; subst; clear H. apply SP.
    + destruct (cells s k) eqn:Ek; try discriminate.
      inversion H; subst; clear H. apply SP.
    + destruct (is_nil r0); inversion H; subst; clear H; apply SP.
    + discriminate.
Qed.
