(* Group B of the engine invariant is inductive: the bookkeeping of every active runDeps round
   ([RoundOK]) and [b_named].  Self-contained: the small helpers are local (prefix [B_]). *)
From Mage Require Import Base.Strs Model.Deps Proof.Deps_defs.

(* ---- small helpers ---- *)

Lemma B_tid_dec : forall a b : tid, {a = b} + {a <> b}.
Proof. decide equality; apply Nat.eq_dec. Qed.

Lemma B_tid_eqb_true : forall a b, tid_eqb a b = true -> a = b.
Proof.
  intros [x|x] [y|y]; simpl; intros H; try discriminate; apply Nat.eqb_eq in H; congruence.
Qed.

Lemma B_tid_eqb_refl : forall a, tid_eqb a a = true.
Proof. intros [x|x]; simpl; apply Nat.eqb_refl. Qed.

Lemma B_updt_eq : forall f t v, updt f t v t = v.
Proof. intros; unfold updt. rewrite B_tid_eqb_refl. reflexivity. Qed.

Lemma B_updt_neq : forall f t v t', t' <> t -> updt f t v t' = f t'.
Proof.
  intros f t v t' H; unfold updt. destruct (tid_eqb t' t) eqn:E; auto.
  apply B_tid_eqb_true in E. contradiction.
Qed.

Lemma B_updc_eq : forall f k v, updc f k v k = v.
Proof. intros; unfold updc. rewrite Nat.eqb_refl. reflexivity. Qed.

Lemma B_updc_neq : forall f k v k', k' <> k -> updc f k v k' = f k'.
Proof.
  intros f k v k' H; unfold updc. destruct (Nat.eqb k' k) eqn:E; auto.
  apply Nat.eqb_eq in E. contradiction.
Qed.

Lemma B_set_nth_length : forall {A} (l : list A) n v, length (set_nth l n v) = length l.
Proof. intros A l; induction l as [|x l IH]; intros [|n] v; simpl; auto. Qed.

Lemma B_nth_set_nth_eq : forall {A} (l : list A) n v, n < length l -> nth_error (set_nth l n v) n = Some v.
Proof.
  intros A l; induction l as [|x l IH]; intros [|n] v; simpl; intros H; try lia; auto.
  apply IH; lia.
Qed.

Lemma B_nth_set_nth_neq : forall {A} (l : list A) n v m, m <> n -> nth_error (set_nth l n v) m = nth_error l m.
Proof.
  intros A l; induction l as [|x l IH]; intros [|n] v [|m]; simpl; intros H; auto; try congruence; try (apply IH; lia).
Qed.

Lemma B_nth_lt : forall {A} (l : list A) n x, nth_error l n = Some x -> n < length l.
Proof. intros A l n x H. apply nth_error_Some. congruence. Qed.

Lemma B_forall2_in : forall {A B} (R : A -> B -> Prop) l1 l2,
  Forall2 R l1 l2 -> forall a, In a l1 -> exists b, In b l2 /\ R a b.
Proof.
  intros A B R l1 l2 HF; induction HF as [|x y l1 l2 Hxy HF IH]; intros a Hi; [contradiction|].
  destruct Hi as [E|Hi].
  - subst a. exists y; split; [left; reflexivity | exact Hxy].
  - destruct (IH a Hi) as (b & Hb & Hr). exists b; split; [right; exact Hb | exact Hr].
Qed.

Lemma B_all_nil : forall rs, length (filter (fun r => negb (is_nil r)) rs) = 0 ->
  forall r, In r rs -> r = RNil.
Proof.
  induction rs as [|a rs IH]; simpl; intros H r Hi; [contradiction|].
  destruct a; simpl in H; try discriminate.
  destruct Hi as [E|Hi]; [congruence | auto].
Qed.

Lemma B_nodup_snoc : forall {A} (l : list A) a, NoDup l -> ~ In a l -> NoDup (l ++ [a]).
Proof.
  intros A l a; induction l as [|x l IH]; simpl; intros Hnd Hn.
  - constructor; [intros [] | constructor].
  - inversion Hnd as [|x' l' Hx Hl]; subst. constructor.
    + intros Hi. apply in_app_or in Hi. destruct Hi as [Hi|[Hi|[]]]; [contradiction|].
      apply Hn. left. symmetry. exact Hi.
    + apply IH; auto.
Qed.

(* a member of a round of a call is one of the call's listed dependencies *)
Lemma B_round_member : forall c r ms k, nth_error (rounds c) r = Some ms -> In k ms -> In k (c_deps c).
Proof.
  unfold rounds. intros c r ms k H Hk. destruct (c_style c).
  - destruct r as [|[|r]]; simpl in H; try discriminate. inversion H; subst; auto.
  - destruct (c_deps c) as [|d ds] eqn:E.
    + destruct r as [|[|r]]; simpl in H; try discriminate. inversion H; subst. contradiction.
    + apply nth_error_In in H. apply in_map_iff in H. destruct H as (d' & H1 & H2). subst ms.
      destruct Hk as [Hk|[]]. subst. exact H2.
Qed.

(* ---- cells only grow: Done stays, not-NotStarted stays ---- *)

Definition B_mono (s s' : cfg) : Prop :=
  (forall k r0, cells s k = Done r0 -> cells s' k = Done r0) /\
  (forall k, cells s k <> NotStarted -> cells s' k <> NotStarted).

Lemma B_mono_same : forall s s', cells s' = cells s -> B_mono s s'.
Proof. intros s s' E; split; intros; rewrite E; auto. Qed.

Lemma B_acc_mono : forall fixed s s' st, B_mono s s' -> acc_ok fixed s st -> acc_ok fixed s' st.
Proof.
  intros fixed s s' st [Hd _] (rs & HF & He & Hn & Hx). exists rs.
  split; [|split; [|split]]; auto.
  clear He Hn Hx. induction HF as [|j rj l1 l2 H HF IH]; constructor; auto.
  destruct H as (k & r0 & Hm & Hc & Hs). exists k, r0. auto.
Qed.

Lemma B_round_mono : forall fixed p s tr s' tr' t pc r st,
  B_mono s s' -> (forall e, In e tr -> In e tr') ->
  RoundOK fixed p s tr t pc r st -> RoundOK fixed p s' tr' t pc r st.
Proof.
  intros fixed p s tr s' tr' t pc r st Hm Hi H. pose proof Hm as [Hd Hn].
  destruct H as [Hrd Hhas Hrun Hfin Hnd Hacc Hprev].
  constructor.
  - destruct Hrd as (c & H1 & H2 & H3 & H4). exists c; auto.
  - intros j rj k H1 H2. destruct (Hhas j rj k H1 H2) as (r0 & H3 & H4). exists r0; auto.
  - intros j k H1 H2. apply Hn. eapply Hrun; eauto.
  - exact Hfin.
  - exact Hnd.
  - eapply B_acc_mono; eauto.
  - intros c r' ms k H1 H2 H3 H4. destruct (Hprev c r' ms k H1 H2 H3 H4) as (r0 & H5 & H6). exists r0; auto.
Qed.

Lemma B_round_weaken : forall fixed p s tr ev t pc r st,
  RoundOK fixed p s tr t pc r st -> RoundOK fixed p s (tr ++ ev) t pc r st.
Proof.
  intros. eapply B_round_mono; [apply B_mono_same; reflexivity | | eassumption].
  intros e He; apply in_or_app; auto.
Qed.

(* ---- frame lemmas ---- *)

Lemma B_frame : forall fixed p s tr s' tr',
  InvB fixed p s tr -> B_mono s s' -> (forall e, In e tr -> In e tr') ->
  (forall t tk r st, tasks s' t = Some tk -> t_phase tk = PRound r st ->
      tasks s t = Some tk \/ RoundOK fixed p s' tr' t (t_pc tk) r st) ->
  (forall k, cells s' k <> NotStarted -> cells s k <> NotStarted \/
      exists t pc c, In (CallEnter t pc) tr' /\ nth_error (calls_of p t) pc = Some c /\ In k (c_deps c)) ->
  InvB fixed p s' tr'.
Proof.
  intros fixed p s tr s' tr' [Hr Hn] Hm Hi Ht Hc. constructor.
  - intros t tk r st H1 H2. destruct (Ht t tk r st H1 H2) as [H3|H3]; auto.
    eapply B_round_mono; eauto.
  - intros k H1. destruct (Hc k H1) as [H2|H2]; auto.
    destruct (Hn k H2) as (t & pc & c & H3 & H4 & H5). exists t, pc, c; auto.
Qed.

Lemma B_set_phase : forall fixed p s tr t tk pc ph ev,
  InvB fixed p s tr ->
  (forall r st, ph = PRound r st -> RoundOK fixed p s (tr ++ ev) t pc r st) ->
  InvB fixed p (set_phase s t tk pc ph) (tr ++ ev).
Proof.
  intros fixed p s tr t tk pc ph ev HB Hph.
  assert (Hm : B_mono s (set_phase s t tk pc ph)) by (apply B_mono_same; reflexivity).
  eapply B_frame; [exact HB | exact Hm | | | ].
  - intros e He. apply in_or_app; auto.
  - intros t0 tk0 r st H1 H2. simpl in H1. destruct (B_tid_dec t0 t) as [E|E].
    + subst t0. rewrite B_updt_eq in H1. inversion H1; subst tk0. simpl in *. right.
      eapply B_round_mono; [exact Hm | | apply Hph; exact H2]. auto.
    + rewrite B_updt_neq in H1 by auto. left; auto.
  - intros k H. left. exact H.
Qed.

Lemma B_finish : forall fixed p s tr t tk o s' ev,
  InvA p s tr -> InvB fixed p s tr -> tasks s t = Some tk -> t_phase tk <> PFinished ->
  finish s t tk o = (s', ev) -> InvB fixed p s' (tr ++ ev).
Proof.
  intros fixed p s tr t tk o s' ev HA HB Htk Hph Hf.
  destruct t as [n|k]; simpl in Hf; inversion Hf; subst s' ev; clear Hf.
  - eapply B_frame; [exact HB | | | | ].
    + apply B_mono_same; reflexivity.
    + intros e He; apply in_or_app; auto.
    + intros t0 tk0 r st H1 H2; simpl in H1. destruct (B_tid_dec t0 (TRoot n)) as [E|E].
      * subst. rewrite B_updt_eq in H1. inversion H1; subst tk0. simpl in H2. discriminate.
      * rewrite B_updt_neq in H1 by auto. auto.
    + intros k H; left; exact H.
  - eapply B_frame; [exact HB | | | | ].
    + split; simpl.
      * intros k0 r0 H. destruct (Nat.eq_dec k0 k) as [E|E].
        -- subst. destruct (a_fin p s tr HA k r0 H) as (tk' & H1 & H2). congruence.
        -- rewrite B_updc_neq by auto. auto.
      * intros k0 H. destruct (Nat.eq_dec k0 k) as [E|E].
        -- subst; rewrite B_updc_eq; discriminate.
        -- rewrite B_updc_neq by auto; auto.
    + intros e He; apply in_or_app; auto.
    + intros t0 tk0 r st H1 H2; simpl in H1. destruct (B_tid_dec t0 (TBody k)) as [E|E].
      * subst. rewrite B_updt_eq in H1. inversion H1; subst tk0. simpl in H2. discriminate.
      * rewrite B_updt_neq in H1 by auto. auto.
    + intros k0 H. left. destruct (Nat.eq_dec k0 k) as [E|E].
      * subst. intro E. rewrite (a_ns p s tr HA k E) in Htk. discriminate.
      * simpl in H. rewrite B_updc_neq in H by auto. exact H.
Qed.

(* ---- what each step does to the round record of the task that moves ---- *)

Lemma B_round_new : forall fixed p s tr t pc c ms rest,
  nth_error (calls_of p t) pc = Some c -> rounds c = ms :: rest -> In (CallEnter t pc) tr ->
  RoundOK fixed p s tr t pc 0 (new_rd ms).
Proof.
  intros fixed p s tr t pc c ms rest Hc Hr Hi. constructor; simpl.
  - exists c. rewrite Hr. simpl. repeat split; auto. lia.
  - intros j rj k H. destruct j; discriminate.
  - intros j k H. destruct j; discriminate.
  - intros j. split; [destruct j; discriminate | intros []].
  - constructor.
  - unfold acc_ok; simpl. exists []. simpl. repeat split; auto.
  - intros; lia.
Qed.

Lemma B_round_spawn : forall fixed p s tr t pc r st,
  RoundOK fixed p s tr t pc r st -> length (rd_gs st) < length (rd_members st) ->
  RoundOK fixed p s tr t pc r
    {| rd_members := rd_members st; rd_gs := rd_gs st ++ [GAtOnce]; rd_errs := rd_errs st;
       rd_nerr := rd_nerr st; rd_exit := rd_exit st; rd_done := rd_done st |}.
Proof.
  intros fixed p s tr t pc r st [Hrd Hhas Hrun Hfin Hnd Hacc Hprev] Hlt.
  assert (Hnth : forall j g, g <> GAtOnce -> nth_error (rd_gs st ++ [GAtOnce]) j = Some g ->
                             nth_error (rd_gs st) j = Some g).
  { intros j g Hg H. destruct (Nat.lt_ge_cases j (length (rd_gs st))) as [Hj|Hj].
    - rewrite nth_error_app1 in H; auto.
    - rewrite nth_error_app2 in H by auto.
      destruct (j - length (rd_gs st)) as [|[|n]]; simpl in H; try discriminate. congruence. }
  constructor; simpl.
  - destruct Hrd as (c & H1 & H2 & H3 & H4). exists c. rewrite app_length. simpl.
    repeat split; auto. lia.
  - intros j rj k H1 H2. apply Hnth in H1; [|discriminate]. eauto.
  - intros j k H1 H2. apply Hnth in H1; [|discriminate]. eauto.
  - intros j. split.
    + intros H. apply Hnth in H; [|discriminate]. apply Hfin; auto.
    + intros H. apply Hfin in H. rewrite nth_error_app1; auto. eapply B_nth_lt; eauto.
  - exact Hnd.
  - exact Hacc.
  - exact Hprev.
Qed.

Lemma B_round_next : forall fixed p s tr t pc r st c ms,
  RoundOK fixed p s tr t pc r st -> nth_error (calls_of p t) pc = Some c ->
  length (rd_members st) <= length (rd_gs st) -> all_finished (rd_gs st) = true -> rd_nerr st = 0 ->
  nth_error (rounds c) (S r) = Some ms ->
  RoundOK fixed p s tr t pc (S r) (new_rd ms).
Proof.
  intros fixed p s tr t pc r st c ms [Hrd Hhas Hrun Hfin Hnd Hacc Hprev] Hc Hlen Hall Hz Hms.
  destruct Hrd as (c' & H1 & H2 & H3 & H4). assert (c' = c) by congruence. subst c'.
  constructor; simpl.
  - exists c. repeat split; auto. lia.
  - intros j rj k H. destruct j; discriminate.
  - intros j k H. destruct j; discriminate.
  - intros j. split; [destruct j; discriminate | intros []].
  - constructor.
  - unfold acc_ok; simpl. exists []. simpl. repeat split; auto.
  - intros c0 r' ms0 k Hc0 Hlt Hms0 Hk. assert (c0 = c) by congruence; subst c0.
    destruct (Nat.eq_dec r' r) as [E|E].
    + subst r'. assert (ms0 = rd_members st) by congruence. subst ms0.
      apply In_nth_error in Hk. destruct Hk as [i Hi].
      assert (Hilt : i < length (rd_gs st)). { apply B_nth_lt in Hi. lia. }
      destruct (nth_error (rd_gs st) i) as [g|] eqn:Hg; [| apply nth_error_None in Hg; lia].
      assert (g = GFinished).
      { unfold all_finished in Hall. rewrite forallb_forall in Hall.
        pose proof (nth_error_In _ _ Hg) as Hin. specialize (Hall g Hin).
        destruct g; try discriminate; auto. }
      subst g. apply Hfin in Hg.
      destruct Hacc as (rs & HF & He & Hn & Hx).
      destruct (B_forall2_in _ _ _ HF i Hg) as (rj & Hrj & k' & r0 & Hm' & Hcell & Hseen).
      assert (k' = k) by congruence. subst k'.
      exists r0. split; auto.
      assert (rj = RNil). { apply (B_all_nil rs); auto. congruence. }
      subst rj. unfold nilish. destruct Hseen as [E|E]; [left|right]; congruence.
    + eapply Hprev; eauto. lia.
Qed.

Lemma B_round_setg : forall fixed p s tr t pc r st j g g',
  RoundOK fixed p s tr t pc r st ->
  nth_error (rd_gs st) j = Some g -> g <> GFinished -> g' <> GFinished ->
  (forall rj k, g' = GHas rj -> nth_error (rd_members st) j = Some k ->
                exists r0, cells s k = Done r0 /\ seen_as fixed r0 rj) ->
  (forall k, g' = GRunning -> nth_error (rd_members st) j = Some k -> cells s k <> NotStarted) ->
  RoundOK fixed p s tr t pc r
    {| rd_members := rd_members st; rd_gs := set_nth (rd_gs st) j g'; rd_errs := rd_errs st;
       rd_nerr := rd_nerr st; rd_exit := rd_exit st; rd_done := rd_done st |}.
Proof.
  intros fixed p s tr t pc r st j g g' [Hrd Hhas Hrun Hfin Hnd Hacc Hprev] Hg Hgn Hg'n Hh Hr.
  assert (Hj : j < length (rd_gs st)) by (eapply B_nth_lt; eauto).
  constructor; simpl.
  - destruct Hrd as (c & H1 & H2 & H3 & H4). exists c. rewrite B_set_nth_length. auto.
  - intros j' rj k H1 H2. destruct (Nat.eq_dec j' j) as [E|E].
    + subst j'. rewrite B_nth_set_nth_eq in H1 by auto. inversion H1. eapply Hh; eauto.
    + rewrite B_nth_set_nth_neq in H1 by auto. eauto.
  - intros j' k H1 H2. destruct (Nat.eq_dec j' j) as [E|E].
    + subst j'. rewrite B_nth_set_nth_eq in H1 by auto. inversion H1. eapply Hr; eauto.
    + rewrite B_nth_set_nth_neq in H1 by auto. eauto.
  - intros j'. destruct (Nat.eq_dec j' j) as [E|E].
    + subst j'. rewrite B_nth_set_nth_eq by auto. split.
      * intros H; inversion H; congruence.
      * intros H. apply Hfin in H. congruence.
    + rewrite B_nth_set_nth_neq by auto. apply Hfin.
  - exact Hnd.
  - exact Hacc.
  - exact Hprev.
Qed.

Lemma B_round_report : forall fixed p s tr t pc r st j r0 errs' nerr' ex',
  RoundOK fixed p s tr t pc r st ->
  nth_error (rd_gs st) j = Some (GHas r0) ->
  (exists k, nth_error (rd_members st) j = Some k) ->
  errs' = rd_errs st ++ message r0 ->
  nerr' = (if is_nil r0 then rd_nerr st else S (rd_nerr st)) ->
  ex' = changeExit (rd_exit st) (status r0) ->
  RoundOK fixed p s tr t pc r
    {| rd_members := rd_members st; rd_gs := set_nth (rd_gs st) j GFinished; rd_errs := errs';
       rd_nerr := nerr'; rd_exit := ex'; rd_done := rd_done st ++ [j] |}.
Proof.
  intros fixed p s tr t pc r st j r0 errs' nerr' ex'
         [Hrd Hhas Hrun Hfin Hnd Hacc Hprev] Hg [k Hk] He Hn Hx.
  assert (Hj : j < length (rd_gs st)) by (eapply B_nth_lt; eauto).
  assert (Hnin : ~ In j (rd_done st)). { intros H. apply Hfin in H. congruence. }
  constructor; simpl.
  - destruct Hrd as (c & H1 & H2 & H3 & H4). exists c. rewrite B_set_nth_length. auto.
  - intros j' rj k' H1 H2. destruct (Nat.eq_dec j' j) as [E|E].
    + subst j'. rewrite B_nth_set_nth_eq in H1 by auto. discriminate.
    + rewrite B_nth_set_nth_neq in H1 by auto. eauto.
  - intros j' k' H1 H2. destruct (Nat.eq_dec j' j) as [E|E].
    + subst j'. rewrite B_nth_set_nth_eq in H1 by auto. discriminate.
    + rewrite B_nth_set_nth_neq in H1 by auto. eauto.
  - intros j'. rewrite in_app_iff. simpl. destruct (Nat.eq_dec j' j) as [E|E].
    + subst j'. rewrite B_nth_set_nth_eq by auto. split; auto.
    + rewrite B_nth_set_nth_neq by auto. rewrite Hfin. split; [auto|].
      intros [H|[H|[]]]; auto. congruence.
  - apply B_nodup_snoc; auto.
  - destruct Hacc as (rs & HF & He0 & Hn0 & Hx0). exists (rs ++ [r0]). simpl.
    split; [|split; [|split]].
    + apply Forall2_app; auto. constructor; [|constructor].
      destruct (Hhas j r0 k Hg Hk) as (r1 & H1 & H2). exists k, r1. auto.
    + rewrite He, He0. rewrite map_app, concat_app. simpl. rewrite app_nil_r. reflexivity.
    + rewrite Hn, Hn0. rewrite filter_app, app_length. simpl. destruct (is_nil r0); simpl; lia.
    + rewrite Hx, Hx0. unfold combine. rewrite map_app, fold_left_app. reflexivity.
  - exact Hprev.
Qed.

(* ---- the two deliverables ---- *)

Lemma invB_init : forall fixed p, InvB fixed p (init p) [].
Proof.
  intros fixed p. constructor.
  - intros t tk r st H1 H2. destruct t as [n|k]; simpl in H1; [|discriminate].
    destruct (nth_error (roots p) n) as [[cs c]|]; [|discriminate].
    inversion H1; subst tk. discriminate.
  - intros k H. simpl in H. congruence.
Qed.

Lemma step_invB : forall fixed p s tr a s' ev,
  InvA p s tr -> InvB fixed p s tr -> step fixed p s a = Some (s', ev) -> InvB fixed p s' (tr ++ ev).
Proof.
  intros fixed p s tr a s' ev HA HB Hstep.
  destruct a as [t | t j]; simpl in Hstep.
  - (* the task's own step *)
    unfold step_task in Hstep.
    destruct (tasks s t) as [tk|] eqn:Htk; [|discriminate].
    destruct (t_phase tk) as [| r st | o |] eqn:Hph.
    + (* PIdle *)
      destruct (nth_error (calls_of p t) (t_pc tk)) as [c|] eqn:Hc.
      * destruct (rounds c) as [|ms rest] eqn:Hr; [discriminate|].
        inversion Hstep; subst s' ev; clear Hstep.
        apply B_set_phase; auto. intros r st E; inversion E; subst r st.
        eapply B_round_new; eauto. apply in_or_app; right; left; reflexivity.
      * inversion Hstep as [Hf]. eapply B_finish; eauto. rewrite Hph; discriminate.
    + (* PRound *)
      pose proof (b_round fixed p s tr HB t tk r st Htk Hph) as HR.
      apply (B_round_weaken fixed p s tr ev) in HR.
      destruct (nth_error (calls_of p t) (t_pc tk)) as [c|] eqn:Hc; [|discriminate].
      destruct (Nat.ltb (length (rd_gs st)) (length (rd_members st))) eqn:Hlt.
      * apply Nat.ltb_lt in Hlt. inversion Hstep; subst s' ev; clear Hstep.
        apply B_set_phase; auto. intros r' st' E; inversion E; subst r' st'.
        apply B_round_spawn; auto.
      * apply Nat.ltb_ge in Hlt.
        destruct (all_finished (rd_gs st)) eqn:Hall; [|discriminate].
        destruct (Nat.eqb (rd_nerr st) 0) eqn:Hz.
        -- apply Nat.eqb_eq in Hz. destruct (nth_error (rounds c) (S r)) as [ms|] eqn:Hms.
           ++ inversion Hstep; subst s' ev; clear Hstep.
              apply B_set_phase; auto. intros r' st' E; inversion E; subst r' st'.
              eapply B_round_next; eauto.
           ++ inversion Hstep; subst s' ev; clear Hstep.
              apply B_set_phase; auto. intros; discriminate.
        -- cbv zeta in Hstep.
           destruct (c_guarded c); inversion Hstep; subst s' ev; clear Hstep;
             (apply B_set_phase; auto; intros; discriminate).
    + (* PAbort *)
      inversion Hstep as [Hf]. eapply B_finish; eauto. rewrite Hph; discriminate.
    + discriminate.
  - (* a goroutine's step *)
    unfold step_go in Hstep.
    destruct (tasks s t) as [tk|] eqn:Htk; [|discriminate].
    destruct (t_phase tk) as [| r st | o |] eqn:Hph; try discriminate.
    destruct (nth_error (calls_of p t) (t_pc tk)) as [c|] eqn:Hc; [|discriminate].
    destruct (nth_error (rd_members st) j) as [k|] eqn:Hk; [|discriminate].
    destruct (nth_error (rd_gs st) j) as [g|] eqn:Hg; [|discriminate].
    cbv beta zeta in Hstep.
    pose proof (b_round fixed p s tr HB t tk r st Htk Hph) as HR0.
    pose proof (B_round_weaken fixed p s tr ev _ _ _ _ HR0) as HR.
    destruct g as [| | r0 |].
    + (* GAtOnce *)
      destruct (cells s k) as [| | r0] eqn:Hcell.
      * (* the cell is fresh: this goroutine runs the body *)
        inversion Hstep; subst s'; clear Hstep.
        match goal with H : _ = ev |- _ => clear H end.
        assert (Hm : B_mono s
                  {| cells := updc (cells s) k Running;
                     tasks := updt (updt (tasks s) t
                                (Some {| t_pc := t_pc tk;
                                         t_phase := PRound r
                                           {| rd_members := rd_members st; rd_gs := set_nth (rd_gs st) j GRunning;
                                              rd_errs := rd_errs st; rd_nerr := rd_nerr st; rd_exit := rd_exit st;
                                              rd_done := rd_done st |};
                                         t_ctx := t_ctx tk |})) (TBody k)
                                (Some {| t_pc := 0; t_phase := PIdle; t_ctx := child_ctx c (t_ctx tk) |}) |}).
        { split; simpl.
          - intros k0 r0 H. destruct (Nat.eq_dec k0 k) as [E|E]; [subst; congruence|].
            rewrite B_updc_neq by auto. auto.
          - intros k0 H. destruct (Nat.eq_dec k0 k) as [E|E].
            + subst; rewrite B_updc_eq; discriminate.
            + rewrite B_updc_neq by auto; auto. }
        simpl. eapply B_frame; [exact HB | exact Hm | | | ].
        -- intros e He; apply in_or_app; auto.
        -- intros t0 tk0 r' st' H1 H2. simpl in H1.
           destruct (B_tid_dec t0 (TBody k)) as [E|E].
           ++ subst t0. rewrite B_updt_eq in H1. inversion H1; subst tk0. simpl in H2. discriminate.
           ++ rewrite B_updt_neq in H1 by auto.
              destruct (B_tid_dec t0 t) as [E'|E'].
              ** subst t0. rewrite B_updt_eq in H1. inversion H1; subst tk0. simpl in H2.
                 inversion H2; subst r' st'. simpl. right.
                 eapply B_round_setg with (g := GAtOnce); auto; try discriminate.
                 --- eapply B_round_mono; [exact Hm | | exact HR0].
                     intros e He; apply in_or_app; auto.
                 --- intros k0 _ Hk0. assert (k0 = k) by congruence. subst k0. simpl.
                     rewrite B_updc_eq. discriminate.
              ** rewrite B_updt_neq in H1 by auto. left; exact H1.
        -- intros k0 H. simpl in H. destruct (Nat.eq_dec k0 k) as [E|E].
           ++ subst k0. right. destruct (b_rd _ _ _ _ _ _ _ _ HR0) as (c' & H1 & H2 & H3 & H4).
              exists t, (t_pc tk), c'. split; [apply in_or_app; auto|]. split; auto.
              eapply B_round_member; eauto. eapply nth_error_In; eauto.
           ++ left. rewrite B_updc_neq in H by auto. exact H.
      * discriminate.
      * inversion Hstep; subst s' ev; clear Hstep.
        apply B_set_phase; auto. intros r' st' E; inversion E; subst r' st'.
        eapply B_round_setg with (g := GAtOnce); auto; try discriminate.
        intros rj k0 Hrj Hk0. assert (k0 = k) by congruence. subst k0.
        inversion Hrj; subst rj. exists r0. split; auto. right; reflexivity.
    + (* GRunning *)
      destruct (cells s k) as [| | r0] eqn:Hcell; try discriminate.
      inversion Hstep; subst s' ev; clear Hstep.
      apply B_set_phase; auto. intros r' st' E; inversion E; subst r' st'.
      eapply B_round_setg with (g := GRunning); auto; try discriminate.
      intros rj k0 Hrj Hk0. assert (k0 = k) by congruence. subst k0.
      inversion Hrj; subst rj. exists r0. split; auto. left; reflexivity.
    + (* GHas: report and finish *)
      destruct (is_nil r0) eqn:Hnil.
      * inversion Hstep; subst s' ev; clear Hstep.
        apply B_set_phase; auto. intros r' st' E; inversion E; subst r' st'.
        eapply B_round_report; eauto.
        -- destruct r0; try discriminate. simpl. rewrite app_nil_r. reflexivity.
        -- rewrite Hnil. reflexivity.
        -- destruct r0; try discriminate. simpl. unfold changeExit. simpl. reflexivity.
      * inversion Hstep; subst s' ev; clear Hstep.
        apply B_set_phase; auto. intros r' st' E; inversion E; subst r' st'.
        eapply B_round_report; eauto.
        rewrite Hnil. reflexivity.
    + discriminate.
Qed.
