(* Group C of the engine invariant (what the trace says about calls that have ended) is inductive.
   Two frame lemmas: [C_frame_N] for the steps that end no call (abstract successor configuration),
   [C_frame_E] for the step at which wg.Wait returns and the call ends; then one case split of [step]. *)
From Mage Require Import Base.Strs Model.Deps Proof.Deps_defs Proof.Deps_invA Proof.Deps_invB.

(* ---- event lists that end no call ---- *)

Definition C_noend (ev : list event) : Prop :=
  forall e, In e ev -> match e with CallReturn _ _ | CallPanic _ _ _ _ => False | _ => True end.

Lemma C_noend_nil : C_noend [].
Proof. intros e []. Qed.

Lemma C_noend_ret ev tr t pc : C_noend ev -> In (CallReturn t pc) (tr ++ ev) -> In (CallReturn t pc) tr.
Proof. intros Q H. apply in_app_or in H. destruct H as [H|H]; auto. destruct (Q _ H). Qed.

Lemma C_noend_panic ev tr t pc e m : C_noend ev -> In (CallPanic t pc e m) (tr ++ ev) -> In (CallPanic t pc e m) tr.
Proof. intros Q H. apply in_app_or in H. destruct H as [H|H]; auto. destruct (Q _ H). Qed.

(* ---- payloads only depend on the Done cells ---- *)

Lemma C_par_mono fixed s s' c e m :
  (forall k r, cells s k = Done r -> cells s' k = Done r) ->
  par_payload fixed s c e m -> par_payload fixed s' c e m.
Proof.
  intros Hm (js & rs & H1 & H2 & H3 & H4 & H5). exists js, rs.
  split; [exact H1|]. split; [|split; [exact H3|split; [exact H4|exact H5]]].
  clear - Hm H2. induction H2 as [|j rj l1 l2 H HF IH]; constructor; auto.
  destruct H as (k & r0 & Ha & Hb & Hc). exists k, r0; auto.
Qed.

Lemma C_ser_mono fixed s s' c e m :
  (forall k r, cells s k = Done r -> cells s' k = Done r) ->
  ser_payload fixed s c e m -> ser_payload fixed s' c e m.
Proof.
  intros Hm (i & k & r0 & rj & H1 & H2 & H3 & H4 & H5 & H6 & H7). exists i, k, r0, rj.
  split; [exact H1|]. split; [auto|]. split; [exact H3|]. split; [exact H4|]. split; [exact H5|].
  split; [exact H6|]. intros i' k' A B. destruct (H7 i' k' A B) as (r1 & C & D). exists r1; auto.
Qed.

Lemma C_payload_mono fixed s s' c e m :
  (forall k r, cells s k = Done r -> cells s' k = Done r) ->
  match c_style c with Par => par_payload fixed s c e m | Ser => ser_payload fixed s c e m end ->
  match c_style c with Par => par_payload fixed s' c e m | Ser => ser_payload fixed s' c e m end.
Proof. intros Hm. destruct (c_style c); [apply C_par_mono|apply C_ser_mono]; auto. Qed.

(* the conclusion of [c_fin] for one task *)
Definition C_fin_ok (p : prog) (s : cfg) (tr : list event) (t : tid) (tk : task) : Prop :=
  (length (calls_of p t) <= t_pc tk /\
   (forall k, t = TBody k -> cells s k = Done (own_result p t)) /\
   (forall pc c e m, nth_error (calls_of p t) pc = Some c -> In (CallPanic t pc e m) tr -> c_guarded c = true))
  \/ (exists pc c e m, t_pc tk = S pc /\ nth_error (calls_of p t) pc = Some c /\ c_guarded c = false /\
                       In (CallPanic t pc e m) tr /\ forall k, t = TBody k -> cells s k = Done (RPanic e m)).

(* ---- frame: task t moves, its pc stays, no call ends; another task may appear (fresh, idle, pc 0) ---- *)

Lemma C_frame_N fixed p s tr s' ev t tk tk' :
  InvC fixed p s tr ->
  (forall k r, cells s k = Done r -> cells s' k = Done r) ->
  tasks s t = Some tk -> tasks s' t = Some tk' -> t_pc tk' = t_pc tk ->
  (forall t', t' <> t -> tasks s' t' = tasks s t' \/
       (tasks s t' = None /\ exists tk0, tasks s' t' = Some tk0 /\ t_pc tk0 = 0 /\ t_phase tk0 = PIdle)) ->
  C_noend ev ->
  t_phase tk <> PFinished ->
  (forall o, t_phase tk' = PAbort o -> t_phase tk = PAbort o) ->
  (forall e m, t_phase tk = PAbort (RPanic e m) ->
     t_phase tk' = PAbort (RPanic e m) \/
     (t_phase tk' = PFinished /\ forall k, t = TBody k -> cells s' k = Done (RPanic e m))) ->
  (t_phase tk' = PFinished -> C_fin_ok p s' (tr ++ ev) t tk') ->
  InvC fixed p s' (tr ++ ev).
Proof.
  intros HC Hm Ht Ht' Hpc Ho Hq Hlive Hab Hung Hfin.
  assert (Hin : forall e, In e tr -> In e (tr ++ ev)) by (intros; apply in_or_app; auto).
  constructor.
  - (* c_past *)
    intros t0 tk0 pc c H1 H2 H3.
    assert (exists tk1, tasks s t0 = Some tk1 /\ pc < t_pc tk1) as (tk1 & H4 & H5).
    { destruct (B_tid_dec t0 t) as [->|N].
      - exists tk. split; auto. assert (tk0 = tk') by congruence. subst. lia.
      - destruct (Ho t0 N) as [E|(E & tk2 & E1 & E2 & E3)].
        + exists tk0. split; auto. congruence.
        + assert (tk0 = tk2) by congruence. subst. lia. }
    destruct (c_past _ _ _ _ HC t0 tk1 pc c H4 H5 H3) as [A [B|(e & m & B)]]; split; auto.
    right. exists e, m. auto.
  - (* c_ret *)
    intros t0 pc c k H1 H2 H3. apply C_noend_ret in H1; auto.
    destruct (c_ret _ _ _ _ HC t0 pc c k H1 H2 H3) as (r0 & A & B). exists r0; auto.
  - (* c_panic *)
    intros t0 pc e m c H1 H2. apply C_noend_panic in H1; auto.
    pose proof (c_panic _ _ _ _ HC t0 pc e m c H1 H2) as P.
    eapply C_payload_mono; eauto.
  - (* c_abort *)
    intros t0 tk0 o H1 H2.
    destruct (B_tid_dec t0 t) as [->|N].
    + assert (tk0 = tk') by congruence. subst tk0.
      destruct (c_abort _ _ _ _ HC t tk o Ht (Hab o H2)) as (pc & c & e & m & A1 & A2 & A3 & A4 & A5).
      exists pc, c, e, m. rewrite Hpc. repeat split; auto.
    + destruct (Ho t0 N) as [E|(E & tk2 & E1 & E2 & E3)].
      * rewrite E in H1.
        destruct (c_abort _ _ _ _ HC t0 tk0 o H1 H2) as (pc & c & e & m & A1 & A2 & A3 & A4 & A5).
        exists pc, c, e, m. repeat split; auto.
      * assert (tk0 = tk2) by congruence. subst. congruence.
  - (* c_unguarded *)
    intros t0 pc e m c H1 H2 H3. apply C_noend_panic in H1; auto.
    destruct (c_unguarded _ _ _ _ HC t0 pc e m c H1 H2 H3) as (tk0 & A1 & A2 & A3).
    destruct (B_tid_dec t0 t) as [->|N].
    + assert (tk0 = tk) by congruence. subst tk0. exists tk'. split; auto. split; [congruence|].
      destruct A3 as [A3|[A3 _]]; [|contradiction]. apply Hung; auto.
    + destruct (Ho t0 N) as [E|(E & _)]; [|congruence].
      exists tk0. split; [congruence|]. split; auto.
      destruct A3 as [A3|[A3 A4]]; auto.
  - (* c_fin *)
    intros t0 tk0 H1 H2.
    destruct (B_tid_dec t0 t) as [->|N].
    + assert (tk0 = tk') by congruence. subst tk0. apply Hfin; auto.
    + destruct (Ho t0 N) as [E|(E & tk2 & E1 & E2 & E3)]; [|assert (tk0 = tk2) by congruence; subst; congruence].
      rewrite E in H1.
      destruct (c_fin _ _ _ _ HC t0 tk0 H1 H2) as [(A & B & C)|(pc & c & e & m & A & B & C & D & F)].
      * left. split; auto. split; auto.
        intros pc c e m G1 G2. apply C_noend_panic in G2; eauto.
      * right. exists pc, c, e, m. repeat split; auto.
  - (* c_end_once *)
    intros t0 pc. destruct (c_end_once _ _ _ _ HC t0 pc) as [A B]. split.
    + intros H e m H'. apply C_noend_ret in H; auto. apply C_noend_panic in H'; auto. eapply A; eauto.
    + intros e m e' m' H H'. apply C_noend_panic in H; auto. apply C_noend_panic in H'; auto.
  - (* c_ended *)
    intros t0 pc H.
    assert (H' : In (CallReturn t0 pc) tr \/ exists e m, In (CallPanic t0 pc e m) tr).
    { destruct H as [H|(e & m & H)]; [left; eapply C_noend_ret; eauto|].
      right. exists e, m. eapply C_noend_panic; eauto. }
    destruct (c_ended _ _ _ _ HC t0 pc H') as (tk0 & A1 & A2).
    destruct (B_tid_dec t0 t) as [->|N].
    + assert (tk0 = tk) by congruence. subst tk0. exists tk'. split; auto. lia.
    + destruct (Ho t0 N) as [E|(E & _)]; [|congruence].
      exists tk0. split; [congruence|auto].
Qed.

(* ---- frame: wg.Wait returned in task t and its current call ends (normally or by a panic) ---- *)

Lemma C_frame_E fixed p s tr t tk c e ph' :
  InvC fixed p s tr -> tasks s t = Some tk ->
  t_phase tk <> PFinished -> (forall o, t_phase tk <> PAbort o) ->
  In (CallEnter t (t_pc tk)) tr -> nth_error (calls_of p t) (t_pc tk) = Some c ->
  ( (e = CallReturn t (t_pc tk) /\ ph' = PIdle /\
     forall k, In k (c_deps c) -> exists r0, cells s k = Done r0 /\ nilish fixed r0)
    \/ (exists x m, e = CallPanic t (t_pc tk) x m /\
          ph' = (if c_guarded c then PIdle else PAbort (RPanic x m)) /\
          match c_style c with Par => par_payload fixed s c x m | Ser => ser_payload fixed s c x m end)) ->
  InvC fixed p (set_phase s t tk (S (t_pc tk)) ph') (tr ++ [e]).
Proof.
  intros HC Ht Hlive Hnab Henter Hc He.
  assert (Hin : forall e0, In e0 tr -> In e0 (tr ++ [e])) by (intros; apply in_or_app; auto).
  assert (Hine : In e (tr ++ [e])) by (apply in_or_app; right; left; reflexivity).
  assert (Hno : ~ (In (CallReturn t (t_pc tk)) tr \/ exists x m, In (CallPanic t (t_pc tk) x m) tr)).
  { intros H. destruct (c_ended _ _ _ _ HC t (t_pc tk) H) as (tk0 & A1 & A2).
    assert (tk0 = tk) by congruence. subst. lia. }
  assert (Hret : forall t0 pc, e = CallReturn t0 pc ->
            t0 = t /\ pc = t_pc tk /\ ph' = PIdle /\
            forall k, In k (c_deps c) -> exists r0, cells s k = Done r0 /\ nilish fixed r0).
  { intros t0 pc E. destruct He as [(E1 & E2 & E3)|(x & m & E1 & _)]; [|congruence].
    rewrite E1 in E. inversion E; subst. auto. }
  assert (Hpan : forall t0 pc x m, e = CallPanic t0 pc x m ->
            t0 = t /\ pc = t_pc tk /\ ph' = (if c_guarded c then PIdle else PAbort (RPanic x m)) /\
            match c_style c with Par => par_payload fixed s c x m | Ser => ser_payload fixed s c x m end).
  { intros t0 pc x m E. destruct He as [(E1 & _)|(x' & m' & E1 & E2 & E3)]; [congruence|].
    rewrite E1 in E. inversion E; subst. auto. }
  assert (Hend : In (CallReturn t (t_pc tk)) (tr ++ [e]) \/ exists x m, In (CallPanic t (t_pc tk) x m) (tr ++ [e])).
  { destruct He as [(E1 & _)|(x & m & E1 & _)]; [left|right; exists x, m]; rewrite <- E1; exact Hine. }
  assert (Hph' : ph' <> PFinished /\ (forall o, ph' = PAbort o -> exists x m, e = CallPanic t (t_pc tk) x m /\
                     c_guarded c = false /\ o = RPanic x m)).
  { destruct He as [(E1 & E2 & _)|(x & m & E1 & E2 & _)].
    - subst ph'. split; [discriminate|]. intros; discriminate.
    - destruct (c_guarded c); subst ph'; (split; [discriminate|]); intros o E; [discriminate|].
      inversion E; subst. exists x, m. auto. }
  destruct Hph' as [Hnf Hpab].
  constructor.
  - (* c_past *)
    intros t0 tk0 pc c0 H1 H2 H3. simpl in H1.
    destruct (B_tid_dec t0 t) as [->|N].
    + rewrite updt_eq in H1. inversion H1; subst tk0; clear H1. simpl in H2.
      destruct (Nat.eq_dec pc (t_pc tk)) as [->|Npc].
      * split; auto.
      * assert (L : pc < t_pc tk) by lia.
        destruct (c_past _ _ _ _ HC t tk pc c0 Ht L H3) as [A [B|(x & m & B)]]; split; auto.
        right. exists x, m. auto.
    + rewrite updt_neq in H1 by auto.
      destruct (c_past _ _ _ _ HC t0 tk0 pc c0 H1 H2 H3) as [A [B|(x & m & B)]]; split; auto.
      right. exists x, m. auto.
  - (* c_ret *)
    intros t0 pc c0 k H1 H2 H3. simpl. apply in_app_or in H1. destruct H1 as [H1|[H1|[]]].
    + eapply c_ret; eauto.
    + destruct (Hret _ _ H1) as (-> & -> & _ & A). assert (c0 = c) by congruence. subst c0. auto.
  - (* c_panic *)
    intros t0 pc x m c0 H1 H2. apply in_app_or in H1. destruct H1 as [H1|[H1|[]]].
    + exact (c_panic _ _ _ _ HC t0 pc x m c0 H1 H2).
    + destruct (Hpan _ _ _ _ H1) as (-> & -> & _ & A). assert (c0 = c) by congruence. subst c0. exact A.
  - (* c_abort *)
    intros t0 tk0 o H1 H2. simpl in H1.
    destruct (B_tid_dec t0 t) as [->|N].
    + rewrite updt_eq in H1. inversion H1; subst tk0; clear H1. simpl in H2. simpl.
      destruct (Hpab o H2) as (x & m & E1 & E2 & E3).
      exists (t_pc tk), c, x, m. repeat split; auto. rewrite <- E1. exact Hine.
    + rewrite updt_neq in H1 by auto.
      destruct (c_abort _ _ _ _ HC t0 tk0 o H1 H2) as (pc & c0 & x & m & A1 & A2 & A3 & A4 & A5).
      exists pc, c0, x, m. repeat split; auto.
  - (* c_unguarded *)
    intros t0 pc x m c0 H1 H2 H3. simpl. apply in_app_or in H1. destruct H1 as [H1|[H1|[]]].
    + destruct (c_unguarded _ _ _ _ HC t0 pc x m c0 H1 H2 H3) as (tk0 & A1 & A2 & A3).
      destruct (B_tid_dec t0 t) as [->|N].
      * assert (tk0 = tk) by congruence. subst tk0. destruct A3 as [A3|[A3 _]]; [|contradiction].
        destruct (Hnab _ A3).
      * exists tk0. rewrite updt_neq by auto. auto.
    + destruct (Hpan _ _ _ _ H1) as (-> & -> & A & _). assert (c0 = c) by congruence. subst c0.
      rewrite H3 in A. rewrite updt_eq. eexists. split; [reflexivity|]. simpl. split; auto.
  - (* c_fin *)
    intros t0 tk0 H1 H2. simpl in H1. simpl.
    destruct (B_tid_dec t0 t) as [->|N].
    + rewrite updt_eq in H1. inversion H1; subst tk0; clear H1. simpl in H2. contradiction.
    + rewrite updt_neq in H1 by auto.
      destruct (c_fin _ _ _ _ HC t0 tk0 H1 H2) as [(A & B & C)|(pc & c0 & x & m & A & B & C & D & F)].
      * left. split; auto. split; auto.
        intros pc c0 x m G1 G2. apply in_app_or in G2. destruct G2 as [G2|[G2|[]]]; eauto.
        destruct (Hpan _ _ _ _ G2) as (E & _). congruence.
      * right. exists pc, c0, x, m. repeat split; auto.
  - (* c_end_once *)
    intros t0 pc. destruct (c_end_once _ _ _ _ HC t0 pc) as [A B]. split.
    + intros H x m H'. apply in_app_or in H. apply in_app_or in H'.
      destruct H as [H|[H|[]]]; destruct H' as [H'|[H'|[]]].
      * eapply A; eauto.
      * destruct (Hpan _ _ _ _ H') as (-> & -> & _). apply Hno. left; auto.
      * destruct (Hret _ _ H) as (-> & -> & _). apply Hno. right. exists x, m. auto.
      * congruence.
    + intros x m x' m' H H'. apply in_app_or in H. apply in_app_or in H'.
      destruct H as [H|[H|[]]]; destruct H' as [H'|[H'|[]]].
      * eapply B; eauto.
      * destruct (Hpan _ _ _ _ H') as (-> & -> & _). exfalso. apply Hno. right. exists x, m. auto.
      * destruct (Hpan _ _ _ _ H) as (-> & -> & _). exfalso. apply Hno. right. exists x', m'. auto.
      * rewrite H in H'. inversion H'; auto.
  - (* c_ended *)
    intros t0 pc H. simpl.
    assert (H' : (In (CallReturn t0 pc) tr \/ exists x m, In (CallPanic t0 pc x m) tr) \/
                 (t0 = t /\ pc = t_pc tk)).
    { destruct H as [H|(x & m & H)]; apply in_app_or in H; destruct H as [H|[H|[]]].
      - left; left; auto.
      - right. destruct (Hret _ _ H) as (-> & -> & _). auto.
      - left; right; exists x, m; auto.
      - right. destruct (Hpan _ _ _ _ H) as (-> & -> & _). auto. }
    destruct H' as [H'|[-> ->]].
    + destruct (c_ended _ _ _ _ HC t0 pc H') as (tk0 & A1 & A2).
      destruct (B_tid_dec t0 t) as [->|N].
      * assert (tk0 = tk) by congruence. subst tk0. rewrite updt_eq. eexists. split; [reflexivity|]. simpl. lia.
      * exists tk0. rewrite updt_neq by auto. auto.
    + rewrite updt_eq. eexists. split; [reflexivity|]. simpl. lia.
Qed.

(* ---- specialisations of the first frame ---- *)

Lemma C_set_phase fixed p s tr t tk r st ev :
  InvC fixed p s tr -> tasks s t = Some tk ->
  t_phase tk <> PFinished -> (forall o, t_phase tk <> PAbort o) -> C_noend ev ->
  InvC fixed p (set_phase s t tk (t_pc tk) (PRound r st)) (tr ++ ev).
Proof.
  intros HC Ht Hlive Hnab Hq.
  eapply C_frame_N with (t := t) (tk := tk)
    (tk' := {| t_pc := t_pc tk; t_phase := PRound r st; t_ctx := t_ctx tk |}); eauto; simpl.
  - apply updt_eq.
  - intros t' N. left. apply updt_neq; auto.
  - discriminate.
  - intros e m E. destruct (Hnab _ E).
  - discriminate.
Qed.

Lemma C_finish fixed p s tr t tk o s' ev :
  InvA p s tr -> InvC fixed p s tr -> tasks s t = Some tk ->
  ((t_phase tk = PIdle /\ nth_error (calls_of p t) (t_pc tk) = None /\ o = own_result p t) \/
   t_phase tk = PAbort o) ->
  finish s t tk o = (s', ev) -> InvC fixed p s' (tr ++ ev).
Proof.
  intros HA HC Ht Hk F.
  assert (Hlive : t_phase tk <> PFinished).
  { destruct Hk as [(E & _)|E]; rewrite E; discriminate. }
  assert (Hs' : tasks s' = updt (tasks s) t (Some {| t_pc := t_pc tk; t_phase := PFinished; t_ctx := t_ctx tk |}) /\
                (forall k r, cells s k = Done r -> cells s' k = Done r) /\
                (forall k, t = TBody k -> cells s' k = Done o) /\ C_noend ev).
  { destruct t as [n|k0]; simpl in F; inversion F; subst s' ev; clear F; simpl.
    - split; auto. split; auto. split; [intros; discriminate|apply C_noend_nil].
    - split; auto. split; [|split].
      + intros k r E. destruct (Nat.eq_dec k k0) as [->|N].
        * destruct (a_fin _ _ _ HA k0 r E) as (tk' & A & B). congruence.
        * rewrite updc_neq by auto. exact E.
      + intros k E. inversion E; subst. apply updc_eq.
      + intros e [<-|[]]. exact I. }
  destruct Hs' as (Hts & Hm & Hown & Hq).
  eapply C_frame_N with (t := t) (tk := tk)
    (tk' := {| t_pc := t_pc tk; t_phase := PFinished; t_ctx := t_ctx tk |}); eauto; simpl.
  - rewrite Hts. apply updt_eq.
  - intros t' N. left. rewrite Hts. apply updt_neq; auto.
  - discriminate.
  - intros e m E. right. split; auto. destruct Hk as [(E' & _)|E']; [congruence|].
    assert (o = RPanic e m) by congruence. subst o. exact Hown.
  - intros _. unfold C_fin_ok; simpl. destruct Hk as [(E1 & E2 & E3)|E].
    + left. split; [apply nth_error_None; exact E2|]. split; [subst o; exact Hown|].
      intros pc c e m G1 G2. apply C_noend_panic in G2; auto.
      destruct (c_guarded c) eqn:G; auto.
      destruct (c_unguarded _ _ _ _ HC t pc e m c G2 G1 G) as (tk0 & A1 & A2 & A3).
      assert (tk0 = tk) by congruence. subst tk0. destruct A3 as [A3|[A3 _]]; congruence.
    + destruct (c_abort _ _ _ _ HC t tk o Ht E) as (pc & c & e & m & A1 & A2 & A3 & A4 & A5).
      right. exists pc, c, e, m. split; auto. split; auto. split; auto.
      split; [apply in_or_app; auto|]. subst o. exact Hown.
Qed.

(* ---- what a round that is over tells about its members ---- *)

Lemma C_nth_error_map_inv {A B} (f : A -> B) l n y :
  nth_error (map f l) n = Some y -> exists x, nth_error l n = Some x /\ y = f x.
Proof.
  revert n. induction l as [|a l IH]; intros [|n]; simpl; intros H; try discriminate.
  - inversion H. eauto.
  - auto.
Qed.

Lemma C_rounds_cover c k : In k (c_deps c) -> exists r ms, nth_error (rounds c) r = Some ms /\ In k ms.
Proof.
  intros H. unfold rounds. destruct (c_style c).
  - exists 0, (c_deps c). auto.
  - destruct (c_deps c) as [|d ds] eqn:E; [contradiction|].
    apply In_nth_error in H. destruct H as [i Hi]. exists i, [k]. split; [|left; reflexivity].
    apply (map_nth_error (fun d => [d])). exact Hi.
Qed.

Lemma C_done_all fixed p s tr t pc r st :
  RoundOK fixed p s tr t pc r st -> length (rd_members st) <= length (rd_gs st) ->
  all_finished (rd_gs st) = true -> forall j, j < length (rd_members st) -> In j (rd_done st).
Proof.
  intros HR Hlen Hall j Hj. apply (b_fin _ _ _ _ _ _ _ _ HR). apply all_finished_nth; auto. lia.
Qed.

Lemma C_done_lt fixed p s tr t pc r st :
  RoundOK fixed p s tr t pc r st -> forall j, In j (rd_done st) -> j < length (rd_members st).
Proof.
  intros HR j Hj. apply (b_fin _ _ _ _ _ _ _ _ HR) in Hj. apply B_nth_lt in Hj.
  destruct (b_rd _ _ _ _ _ _ _ _ HR) as (c & _ & _ & L & _). lia.
Qed.

Lemma C_round_all_nil fixed p s tr t pc r st :
  RoundOK fixed p s tr t pc r st -> length (rd_members st) <= length (rd_gs st) ->
  all_finished (rd_gs st) = true -> rd_nerr st = 0 ->
  forall k, In k (rd_members st) -> exists r0, cells s k = Done r0 /\ nilish fixed r0.
Proof.
  intros HR Hlen Hall Hz k Hk.
  apply In_nth_error in Hk. destruct Hk as [i Hi].
  assert (Hd : In i (rd_done st)). { eapply C_done_all; eauto. eapply B_nth_lt; eauto. }
  destruct (b_acc _ _ _ _ _ _ _ _ HR) as (rs & HF & He & Hn & Hx).
  destruct (B_forall2_in _ _ _ HF i Hd) as (rj & Hrj & k' & r0 & Hm' & Hcell & Hseen).
  assert (k' = k) by congruence. subst k'.
  exists r0. split; auto.
  assert (rj = RNil). { apply (B_all_nil rs); auto. congruence. }
  subst rj. unfold nilish. destruct Hseen as [E|E]; [left|right]; congruence.
Qed.

Lemma C_ret_all fixed p s tr t pc r st c :
  RoundOK fixed p s tr t pc r st -> nth_error (calls_of p t) pc = Some c ->
  length (rd_members st) <= length (rd_gs st) -> all_finished (rd_gs st) = true -> rd_nerr st = 0 ->
  nth_error (rounds c) (S r) = None ->
  forall k, In k (c_deps c) -> exists r0, cells s k = Done r0 /\ nilish fixed r0.
Proof.
  intros HR Hc Hlen Hall Hz Hlast k Hk.
  destruct (C_rounds_cover c k Hk) as (r' & ms & H1 & H2).
  destruct (b_rd _ _ _ _ _ _ _ _ HR) as (c' & A1 & A2 & _). assert (c' = c) by congruence. subst c'.
  apply nth_error_None in Hlast. pose proof (B_nth_lt _ _ _ H1) as L.
  destruct (Nat.eq_dec r' r) as [->|N].
  - assert (ms = rd_members st) by congruence. subst ms. eapply C_round_all_nil; eauto.
  - apply (b_prev _ _ _ _ _ _ _ _ HR c r' ms k); auto. lia.
Qed.

Lemma C_exists_nonnil rs : length (filter (fun r => negb (is_nil r)) rs) <> 0 ->
  exists r, In r rs /\ is_nil r = false.
Proof.
  intros H. destruct (filter (fun r => negb (is_nil r)) rs) as [|x l] eqn:E; [simpl in H; congruence|].
  assert (Hx : In x (filter (fun r => negb (is_nil r)) rs)) by (rewrite E; left; reflexivity).
  apply filter_In in Hx. destruct Hx as [A B]. exists x. split; auto.
  destruct (is_nil x); auto; discriminate.
Qed.

Lemma C_panic_par fixed p s tr t pc r st c :
  RoundOK fixed p s tr t pc r st -> nth_error (calls_of p t) pc = Some c -> c_style c = Par ->
  length (rd_members st) <= length (rd_gs st) -> all_finished (rd_gs st) = true -> rd_nerr st <> 0 ->
  par_payload fixed s c (rd_exit st) (rd_errs st).
Proof.
  intros HR Hc Hst Hlen Hall Hnz.
  destruct (b_rd _ _ _ _ _ _ _ _ HR) as (c' & A1 & A2 & _). assert (c' = c) by congruence. subst c'.
  unfold rounds in A2. rewrite Hst in A2.
  assert (Hms : rd_members st = c_deps c).
  { destruct r as [|[|r]]; simpl in A2; try discriminate. congruence. }
  destruct (b_acc _ _ _ _ _ _ _ _ HR) as (rs & HF & He & Hn & Hx).
  exists (rd_done st), rs. split; [|split; [|split; [|split]]]; auto.
  - apply NoDup_Permutation.
    + exact (b_nodup _ _ _ _ _ _ _ _ HR).
    + apply seq_NoDup.
    + intros j. rewrite in_seq. rewrite <- Hms. split.
      * intros H. pose proof (C_done_lt _ _ _ _ _ _ _ _ HR j H). lia.
      * intros H. eapply C_done_all; eauto. lia.
  - rewrite <- Hms. exact HF.
  - apply C_exists_nonnil. congruence.
Qed.

Lemma C_panic_ser fixed p s tr t pc r st c :
  RoundOK fixed p s tr t pc r st -> nth_error (calls_of p t) pc = Some c -> c_style c = Ser ->
  length (rd_members st) <= length (rd_gs st) -> all_finished (rd_gs st) = true -> rd_nerr st <> 0 ->
  ser_payload fixed s c (rd_exit st) (rd_errs st).
Proof.
  intros HR Hc Hst Hlen Hall Hnz.
  destruct (b_rd _ _ _ _ _ _ _ _ HR) as (c' & A1 & A2 & _). assert (c' = c) by congruence. subst c'.
  destruct (b_acc _ _ _ _ _ _ _ _ HR) as (rs & HF & He & Hn & Hx).
  pose proof (C_done_lt _ _ _ _ _ _ _ _ HR) as Hlt.
  pose proof (b_nodup _ _ _ _ _ _ _ _ HR) as Hnd.
  (* the round has exactly one member, the r-th listed dependency *)
  assert (Hone : exists k, rd_members st = [k] /\ nth_error (c_deps c) r = Some k).
  { unfold rounds in A2. rewrite Hst in A2. destruct (c_deps c) as [|d ds] eqn:Ed.
    - exfalso. assert (Hms : rd_members st = []).
      { destruct r as [|[|r]]; simpl in A2; try discriminate. congruence. }
      rewrite Hms in Hlt. simpl in Hlt.
      destruct (rd_done st) as [|j l]; [|specialize (Hlt j (or_introl eq_refl)); lia].
      inversion HF; subst rs. simpl in Hn. contradiction.
    - apply C_nth_error_map_inv in A2. destruct A2 as (k & B1 & B2). exists k. auto. }
  destruct Hone as (k & Hms & Hk).
  rewrite Hms in Hlt. simpl in Hlt.
  assert (Hdone : rd_done st = [0] \/ rd_done st = []).
  { destruct (rd_done st) as [|j [|j' l]]; auto.
    - left. assert (j < 1) by (apply Hlt; left; reflexivity). f_equal. lia.
    - exfalso. assert (j < 1) by (apply Hlt; left; reflexivity).
      assert (j' < 1) by (apply Hlt; right; left; reflexivity).
      inversion Hnd as [|? ? Hni _]; subst. apply Hni. left. lia. }
  destruct Hdone as [Hd|Hd]; rewrite Hd in HF.
  2:{ inversion HF; subst rs. simpl in Hn. contradiction. }
  inversion HF as [|j rj l1 l2 H0 HF']; subst. inversion HF'; subst. clear HF HF'.
  destruct H0 as (k' & r0 & B1 & B2 & B3). rewrite Hms in B1. simpl in B1.
  assert (k' = k) by congruence. subst k'.
  assert (Hnil : is_nil rj = false).
  { simpl in Hn. destruct (is_nil rj); auto. simpl in Hn. contradiction. }
  exists r, k, r0, rj.
  split; [exact Hk|]. split; [exact B2|]. split; [exact B3|]. split; [exact Hnil|].
  split; [rewrite He; simpl; apply app_nil_r|]. split; [rewrite Hx; reflexivity|].
  intros i' k' L Hk'. eapply (b_prev _ _ _ _ _ _ _ _ HR c i' [k'] k'); eauto; [|left; reflexivity].
  unfold rounds. rewrite Hst. destruct (c_deps c) as [|d ds] eqn:Ed.
  - destruct i'; discriminate.
  - apply (map_nth_error (fun d => [d])). exact Hk'.
Qed.

(* ---- initial state ---- *)

Lemma C_init_task p t tk : tasks (init p) t = Some tk -> t_pc tk = 0 /\ t_phase tk = PIdle.
Proof.
  destruct t as [n|k]; simpl; [|discriminate].
  destruct (nth_error (roots p) n) as [[cs c]|]; [|discriminate].
  intros H; inversion H; subst; auto.
Qed.

Lemma invC_init : forall fixed p, InvC fixed p (init p) [].
Proof.
  intros fixed p. constructor.
  - intros t tk pc c H1 H2. apply C_init_task in H1. lia.
  - intros t pc c k [].
  - intros t pc e m c [].
  - intros t tk o H1 H2. apply C_init_task in H1. destruct H1; congruence.
  - intros t pc e m c [].
  - intros t tk H1 H2. apply C_init_task in H1. destruct H1; congruence.
  - intros t pc. split.
    + intros [].
    + intros e m e' m' [].
  - intros t pc [[]|(e & m & [])].
Qed.

(* ---- the step ---- *)

Lemma step_invC : forall fixed p s tr a s' ev,
  InvA p s tr -> InvB fixed p s tr -> InvC fixed p s tr ->
  step fixed p s a = Some (s', ev) -> InvC fixed p s' (tr ++ ev).
Proof.
  intros fixed p s tr a s' ev HA HB HC Hstep.
  destruct a as [t | t j]; simpl in Hstep.
  - (* the task's own step *)
    unfold step_task in Hstep.
    destruct (tasks s t) as [tk|] eqn:Htk; [|discriminate].
    destruct (t_phase tk) as [| r st | o |] eqn:Hph.
    + (* PIdle *)
      assert (Hlive : t_phase tk <> PFinished) by congruence.
      assert (Hnab : forall o, t_phase tk <> PAbort o) by (intros; congruence).
      destruct (nth_error (calls_of p t) (t_pc tk)) as [c|] eqn:Hc.
      * destruct (rounds c) as [|ms rest] eqn:Hr; [discriminate|].
        inversion Hstep; subst s' ev; clear Hstep.
        apply C_set_phase; auto. intros e [<-|[]]. exact I.
      * inversion Hstep as [Hf]. eapply C_finish; eauto.
    + (* PRound *)
      assert (Hlive : t_phase tk <> PFinished) by congruence.
      assert (Hnab : forall o, t_phase tk <> PAbort o) by (intros; congruence).
      pose proof (b_round fixed p s tr HB t tk r st Htk Hph) as HR.
      destruct (nth_error (calls_of p t) (t_pc tk)) as [c|] eqn:Hc; [|discriminate].
      assert (Hent : In (CallEnter t (t_pc tk)) tr).
      { destruct (b_rd _ _ _ _ _ _ _ _ HR) as (c' & _ & _ & _ & H). exact H. }
      destruct (Nat.ltb (length (rd_gs st)) (length (rd_members st))) eqn:Hlt.
      * inversion Hstep; subst s' ev; clear Hstep.
        apply C_set_phase; auto. apply C_noend_nil.
      * apply Nat.ltb_ge in Hlt.
        destruct (all_finished (rd_gs st)) eqn:Hall; [|discriminate].
        destruct (Nat.eqb (rd_nerr st) 0) eqn:Hz.
        -- apply Nat.eqb_eq in Hz. destruct (nth_error (rounds c) (S r)) as [ms|] eqn:Hms.
           ++ inversion Hstep; subst s' ev; clear Hstep.
              apply C_set_phase; auto. apply C_noend_nil.
           ++ inversion Hstep; subst s' ev; clear Hstep.
              eapply C_frame_E; eauto. left. split; auto. split; auto.
              eapply C_ret_all; eauto.
        -- apply Nat.eqb_neq in Hz. cbv zeta in Hstep.
           assert (Hpay : match c_style c with
                          | Par => par_payload fixed s c (rd_exit st) (rd_errs st)
                          | Ser => ser_payload fixed s c (rd_exit st) (rd_errs st)
                          end).
           { destruct (c_style c) eqn:Hst; [eapply C_panic_par|eapply C_panic_ser]; eauto. }
           destruct (c_guarded c) eqn:Hg; inversion Hstep; subst s' ev; clear Hstep;
             (eapply C_frame_E; eauto; right; exists (rd_exit st), (rd_errs st);
              rewrite Hg; split; auto).
    + (* PAbort *)
      inversion Hstep as [Hf]. eapply C_finish; eauto.
    + discriminate.
  - (* a goroutine's step *)
    unfold step_go in Hstep.
    destruct (tasks s t) as [tk|] eqn:Htk; [|discriminate].
    destruct (t_phase tk) as [| r st | o |] eqn:Hph; try discriminate.
    assert (Hlive : t_phase tk <> PFinished) by congruence.
    assert (Hnab : forall o, t_phase tk <> PAbort o) by (intros; congruence).
    destruct (nth_error (calls_of p t) (t_pc tk)) as [c|] eqn:Hc; [|discriminate].
    destruct (nth_error (rd_members st) j) as [k|] eqn:Hk; [|discriminate].
    destruct (nth_error (rd_gs st) j) as [g|] eqn:Hg; [|discriminate].
    cbv beta zeta in Hstep.
    destruct g as [| | r0 |].
    + (* GAtOnce *)
      destruct (cells s k) as [| | r0] eqn:Hcell.
      * (* the cell is fresh: this goroutine runs the body *)
        inversion Hstep; subst s'; clear Hstep.
        match goal with H : _ = ev |- _ => clear H end.
        assert (Hnone : tasks s (TBody k) = None) by (eapply a_ns; eauto).
        assert (Hne : t <> TBody k) by congruence.
        eapply C_frame_N with (t := t) (tk := tk)
          (tk' := {| t_pc := t_pc tk;
                     t_phase := PRound r {| rd_members := rd_members st; rd_gs := set_nth (rd_gs st) j GRunning;
                                            rd_errs := rd_errs st; rd_nerr := rd_nerr st; rd_exit := rd_exit st;
                                            rd_done := rd_done st |};
                     t_ctx := t_ctx tk |}); eauto; simpl.
        -- intros k0 r0 E. destruct (Nat.eq_dec k0 k) as [->|N]; [congruence|].
           rewrite updc_neq by auto. exact E.
        -- rewrite updt_neq by auto. apply updt_eq.
        -- intros t' N. destruct (B_tid_dec t' (TBody k)) as [->|N'].
           ++ right. split; auto. rewrite updt_eq. eexists. split; [reflexivity|]. simpl. auto.
           ++ left. rewrite updt_neq by auto. apply updt_neq; auto.
        -- intros e H. apply in_app_or in H. destruct H as [H|[<-|[]]]; [|exact I].
           destruct (verbose p); [destruct H as [<-|[]]; exact I|destruct H].
        -- discriminate.
        -- intros e m E. destruct (Hnab _ E).
        -- discriminate.
      * discriminate.
      * inversion Hstep; subst s' ev; clear Hstep.
        apply C_set_phase; auto. apply C_noend_nil.
    + (* GRunning *)
      destruct (cells s k) as [| | r0] eqn:Hcell; try discriminate.
      inversion Hstep; subst s' ev; clear Hstep.
      apply C_set_phase; auto. apply C_noend_nil.
    + (* GHas *)
      destruct (is_nil r0) eqn:Hnil; inversion Hstep; subst s' ev; clear Hstep;
        (apply C_set_phase; auto; apply C_noend_nil).
    + discriminate.
Qed.
