(* Liveness of the dependency engine on acyclic programs: deadlock freedom, a strictly decreasing
   measure (every schedule is finite), reachability of a final configuration from every reachable
   configuration, and the consequence for C01 (a named dependency does run, exactly once).
   Statements are restated in Props/Engine_progress.v. *)
From Mage Require Import Base.Strs Model.Deps Proof.Deps_defs.
From Mage Require Import Proof.Deps_invA Proof.Deps_invB Proof.Deps_inv Proof.Deps_c01.
From Coq Require Import Lia.

(* ================= 1. acyclic programs ================= *)

(* Keys are numbered topologically by the harness: a body only names smaller keys, and the roots
   only name keys that exist.  (That a body only names existing keys follows: d < k < length.) *)
Record acyclic (p : prog) : Prop := {
  ac_body : forall k c d, k < length (nodes p) -> In c (b_calls (bodies p k)) -> In d (c_deps c) -> d < k;
  ac_root : forall n cs cx c d, nth_error (roots p) n = Some (cs, cx) -> In c cs -> In d (c_deps c) ->
                                d < length (nodes p);
}.

Lemma ac_body_exists : forall p k c d, acyclic p ->
  k < length (nodes p) -> In c (b_calls (bodies p k)) -> In d (c_deps c) -> d < length (nodes p).
Proof. intros p k c d Hac Hk Hc Hd. pose proof (ac_body p Hac k c d Hk Hc Hd). lia. Qed.

(* an executable check, sound for [acyclic] *)
Definition call_below (n : nat) (c : call) : bool := forallb (fun d => Nat.ltb d n) (c_deps c).
Fixpoint bodies_below (k : nat) (l : list body) : bool :=
  match l with
  | [] => true
  | b :: rest => forallb (call_below k) (b_calls b) && bodies_below (S k) rest
  end.
Definition acyclicb (p : prog) : bool :=
  bodies_below 0 (nodes p) &&
  forallb (fun r => forallb (call_below (length (nodes p))) (fst r)) (roots p).

Lemma call_below_spec : forall n c d, call_below n c = true -> In d (c_deps c) -> d < n.
Proof.
  intros n c d H Hd. unfold call_below in H. rewrite forallb_forall in H.
  apply Nat.ltb_lt. apply H. exact Hd.
Qed.

Lemma bodies_below_spec : forall l k0 i c d,
  bodies_below k0 l = true -> i < length l -> In c (b_calls (nth i l default_body)) -> In d (c_deps c) ->
  d < k0 + i.
Proof.
  induction l as [|b l IH]; simpl; intros k0 i c d H Hi Hc Hd; [lia|].
  apply andb_true_iff in H. destruct H as [H1 H2]. destruct i as [|i].
  - rewrite forallb_forall in H1. pose proof (call_below_spec _ _ _ (H1 c Hc) Hd). lia.
  - assert (Hi' : i < length l) by lia.
    pose proof (IH (S k0) i c d H2 Hi' Hc Hd). lia.
Qed.

Lemma acyclicb_sound : forall p, acyclicb p = true -> acyclic p.
Proof.
  intros p H. unfold acyclicb in H. apply andb_true_iff in H. destruct H as [H1 H2]. split.
  - intros k c d Hk Hc Hd. unfold bodies in Hc.
    pose proof (bodies_below_spec _ 0 k c d H1 Hk Hc Hd). lia.
  - intros n cs cx c d Hn Hc Hd. rewrite forallb_forall in H2.
    pose proof (H2 _ (nth_error_In _ _ Hn)) as H3. simpl in H3. rewrite forallb_forall in H3.
    exact (call_below_spec _ _ _ (H3 c Hc) Hd).
Qed.

(* the order along which a blocked task waits: bodies by key, the roots above every body *)
Definition rank (p : prog) (t : tid) : nat :=
  match t with TRoot _ => length (nodes p) | TBody k => k end.

Lemma bodies_overflow : forall p k, length (nodes p) <= k -> bodies p k = default_body.
Proof. intros p k H. unfold bodies. apply nth_overflow. exact H. Qed.

Lemma dep_smaller : forall p t pc c d, acyclic p ->
  nth_error (calls_of p t) pc = Some c -> In d (c_deps c) -> d < rank p t /\ d < length (nodes p).
Proof.
  intros p t pc c d Hac Hc Hd. apply nth_error_In in Hc. destruct t as [n|k]; simpl in *.
  - destruct (nth_error (roots p) n) as [[cs cx]|] eqn:E; [|destruct Hc].
    pose proof (ac_root p Hac n cs cx c d E Hc Hd). lia.
  - destruct (le_lt_dec (length (nodes p)) k) as [Hge|Hlt].
    + rewrite (bodies_overflow p k Hge) in Hc. destruct Hc.
    + pose proof (ac_body p Hac k c d Hlt Hc Hd). lia.
Qed.

(* ================= 2. the measure: remaining synchronisation steps ================= *)

(* a goroutine: once.Do (start or pick up), see the outcome, report *)
Definition gw (g : gst) : nat :=
  match g with GAtOnce => 3 | GRunning => 2 | GHas _ => 1 | GFinished => 0 end.
(* a round: one spawn and three goroutine steps per member, then wg.Wait *)
Definition rc (ms : list key) : nat := 1 + 4 * length ms.
(* a call: enter, then its rounds *)
Definition cc (c : call) : nat := 1 + list_sum (map rc (rounds c)).
(* what is left of the active round *)
Definition rrem (st : rd) : nat :=
  1 + 4 * (length (rd_members st) - length (rd_gs st)) + list_sum (map gw (rd_gs st)).

Definition twc (cs : list call) (pc : nat) (ph : phase) : nat :=
  match ph with
  | PFinished => 0
  | PAbort _ => 1
  | PIdle => 1 + list_sum (map cc (skipn pc cs))
  | PRound r st =>
      rrem st
      + match nth_error cs pc with Some c => list_sum (map rc (skipn (S r) (rounds c))) | None => 0 end
      + 1 + list_sum (map cc (skipn (S pc) cs))
  end.

Definition tw (p : prog) (t : tid) (tk : task) : nat := twc (calls_of p t) (t_pc tk) (t_phase tk).

Definition spawned (cx : ctx) : task := {| t_pc := 0; t_phase := PIdle; t_ctx := cx |}.

(* a body that has not started yet weighs what its task will weigh when it is created *)
Definition wt (p : prog) (s : cfg) (t : tid) : nat :=
  match tasks s t with
  | Some tk => tw p t tk
  | None => match t with TBody k => 1 + list_sum (map cc (b_calls (bodies p k))) | TRoot _ => 0 end
  end.

Definition all_tids (p : prog) : list tid :=
  map TRoot (seq 0 (length (roots p))) ++ map TBody (seq 0 (length (nodes p))).

Definition measure (p : prog) (s : cfg) : nat := list_sum (map (wt p s) (all_tids p)).

(* the number of steps of any execution of p is at most this *)
Definition bound (p : prog) : nat := measure p (init p).

(* ---- arithmetic helpers ---- *)

Lemma skipn_nth_sum : forall {A} (f : A -> nat) l n x,
  nth_error l n = Some x -> list_sum (map f (skipn n l)) = f x + list_sum (map f (skipn (S n) l)).
Proof.
  intros A f l. induction l as [|a l IH]; intros n x H.
  - destruct n; discriminate.
  - destruct n as [|n]; simpl in H.
    + inversion H; subst. reflexivity.
    + simpl skipn. simpl skipn in IH. rewrite (IH n x H). destruct l; reflexivity.
Qed.

Lemma gw_set_nth : forall l j g g', nth_error l j = Some g ->
  list_sum (map gw (set_nth l j g')) + gw g = list_sum (map gw l) + gw g'.
Proof.
  induction l as [|a l IH]; intros j g g' H.
  - destruct j; discriminate.
  - destruct j as [|j]; simpl in H.
    + inversion H; subst. simpl. lia.
    + simpl. pose proof (IH j g g' H). lia.
Qed.

Lemma all_finished_sum : forall gs, all_finished gs = true -> list_sum (map gw gs) = 0.
Proof.
  unfold all_finished. induction gs as [|g gs IH]; simpl; intro H; [reflexivity|].
  apply andb_true_iff in H. destruct H as [H1 H2]. destruct g; try discriminate. simpl. auto.
Qed.

Lemma rounds_nonempty : forall c, rounds c <> [].
Proof.
  intros c. unfold rounds. destruct (c_style c); [discriminate|].
  destruct (c_deps c); discriminate.
Qed.

Lemma not_all_finished : forall gs, all_finished gs = false ->
  exists j g, nth_error gs j = Some g /\ g <> GFinished.
Proof.
  unfold all_finished. induction gs as [|g gs IH]; simpl; intro H; [discriminate|].
  apply andb_false_iff in H. destruct H as [H|H].
  - exists 0, g. split; [reflexivity|]. intro E; subst; discriminate.
  - destruct (IH H) as [j [g' [Hj Hg]]]. exists (S j), g'. split; assumption.
Qed.

(* ---- one goroutine move ---- *)

Lemma tw_setg : forall p t tk r st j g g' e n x d cx,
  t_phase tk = PRound r st -> nth_error (rd_gs st) j = Some g -> gw g' < gw g ->
  tw p t {| t_pc := t_pc tk;
            t_phase := PRound r {| rd_members := rd_members st; rd_gs := set_nth (rd_gs st) j g';
                                   rd_errs := e; rd_nerr := n; rd_exit := x; rd_done := d |};
            t_ctx := cx |} < tw p t tk.
Proof.
  intros p t tk r st j g g' e n x d cx Hph Hg Hlt.
  unfold tw. rewrite Hph. unfold twc, rrem. cbn [t_pc t_phase rd_members rd_gs].
  rewrite set_nth_length. pose proof (gw_set_nth _ _ _ g' Hg). lia.
Qed.

(* ---- what one step does to the task table, and that it costs the acting task ---- *)

Lemma step_shape : forall fixed p s a s' ev, step fixed p s a = Some (s', ev) ->
  exists t tk tk', tasks s t = Some tk /\ tw p t tk' < tw p t tk /\
    (tasks s' = updt (tasks s) t (Some tk') \/
     exists k cx, cells s k = NotStarted /\
       tasks s' = updt (updt (tasks s) t (Some tk')) (TBody k) (Some (spawned cx))).
Proof.
  intros fixed p s a s' ev H. destruct a as [t|t j]; simpl in H.
  - unfold step_task in H.
    destruct (tasks s t) as [tk|] eqn:Ht; [|discriminate].
    exists t, tk.
    destruct (t_phase tk) as [|r st|o|] eqn:Hph.
    + (* idle *)
      destruct (nth_error (calls_of p t) (t_pc tk)) as [c|] eqn:Hc.
      * destruct (rounds c) as [|ms rest] eqn:Hr; [discriminate|].
        inversion H; subst; clear H.
        eexists. split; [exact Ht|]. split; [|left; reflexivity].
        unfold tw. rewrite Hph. unfold twc. cbn [t_pc t_phase]. rewrite Hc.
        rewrite (skipn_nth_sum cc _ _ _ Hc).
        change (cc c) with (1 + list_sum (map rc (rounds c))). rewrite Hr.
        generalize (list_sum (map cc (skipn (S (t_pc tk)) (calls_of p t)))). intro Y.
        unfold rrem, new_rd, rc. simpl. lia.
      * exists {| t_pc := t_pc tk; t_phase := PFinished; t_ctx := t_ctx tk |}.
        split; [exact Ht|]. split.
        -- unfold tw. rewrite Hph. simpl. lia.
        -- left. destruct t; simpl in H; inversion H; subst; reflexivity.
    + (* in a round *)
      destruct (nth_error (calls_of p t) (t_pc tk)) as [c|] eqn:Hc; [|discriminate].
      destruct (Nat.ltb (length (rd_gs st)) (length (rd_members st))) eqn:Hlt.
      * inversion H; subst; clear H. apply Nat.ltb_lt in Hlt.
        eexists. split; [exact Ht|]. split; [|left; reflexivity].
        unfold tw. rewrite Hph. unfold twc, rrem. cbn [t_pc t_phase rd_members rd_gs].
        rewrite app_length, map_app, list_sum_app. simpl. lia.
      * apply Nat.ltb_ge in Hlt.
        destruct (all_finished (rd_gs st)) eqn:Haf; [|discriminate].
        pose proof (all_finished_sum _ Haf) as Hz.
        destruct (Nat.eqb (rd_nerr st) 0).
        -- destruct (nth_error (rounds c) (S r)) as [ms|] eqn:Hnx; inversion H; subst; clear H.
           ++ eexists. split; [exact Ht|]. split; [|left; reflexivity].
              unfold tw. rewrite Hph. unfold twc. cbn [t_pc t_phase]. rewrite Hc.
              rewrite (skipn_nth_sum rc _ _ _ Hnx).
              unfold rrem, new_rd, rc. rewrite Hz. simpl. lia.
           ++ eexists. split; [exact Ht|]. split; [|left; reflexivity].
              unfold tw. rewrite Hph. unfold twc, rrem. cbn [t_pc t_phase]. lia.
        -- destruct (c_guarded c); inversion H; subst; clear H.
           ++ eexists. split; [exact Ht|]. split; [|left; reflexivity].
              unfold tw. rewrite Hph. unfold twc, rrem. cbn [t_pc t_phase]. lia.
           ++ eexists. split; [exact Ht|]. split; [|left; reflexivity].
              unfold tw. rewrite Hph. unfold twc, rrem. cbn [t_pc t_phase]. lia.
    + (* aborting *)
      exists {| t_pc := t_pc tk; t_phase := PFinished; t_ctx := t_ctx tk |}.
      split; [exact Ht|]. split.
      * unfold tw. rewrite Hph. simpl. lia.
      * left. destruct t; simpl in H; inversion H; subst; reflexivity.
    + discriminate.
  - unfold step_go in H.
    destruct (tasks s t) as [tk|] eqn:Ht; [|discriminate].
    destruct (t_phase tk) as [|r st|o|] eqn:Hph; try discriminate.
    destruct (nth_error (calls_of p t) (t_pc tk)) as [c|] eqn:Hc; [|discriminate].
    destruct (nth_error (rd_members st) j) as [k|] eqn:Hk; [|discriminate].
    destruct (nth_error (rd_gs st) j) as [g|] eqn:Hg; [|discriminate].
    exists t, tk.
    destruct g as [| |r0|].
    + destruct (cells s k) as [| |r1] eqn:Hck; [|discriminate|].
      * inversion H; subst; clear H.
        eexists. split; [exact Ht|]. split.
        2:{ right. exists k, (child_ctx c (t_ctx tk)). split; [exact Hck|reflexivity]. }
        apply (tw_setg p t tk r st j GAtOnce GRunning); auto; simpl; lia.
      * inversion H; subst; clear H.
        eexists. split; [exact Ht|]. split; [|left; reflexivity].
        apply (tw_setg p t tk r st j GAtOnce (GHas (remember fixed r1))); auto; simpl; lia.
    + destruct (cells s k) as [| |r1] eqn:Hck; try discriminate.
      inversion H; subst; clear H.
      eexists. split; [exact Ht|]. split; [|left; reflexivity].
      apply (tw_setg p t tk r st j GRunning (GHas r1)); auto; simpl; lia.
    + destruct (is_nil r0); inversion H; subst; clear H.
      * eexists. split; [exact Ht|]. split; [|left; reflexivity].
        apply (tw_setg p t tk r st j (GHas r0) GFinished); auto; simpl; lia.
      * eexists. split; [exact Ht|]. split; [|left; reflexivity].
        apply (tw_setg p t tk r st j (GHas r0) GFinished); auto; simpl; lia.
    + discriminate.
Qed.

(* a final configuration is stuck (the converse of progress) *)
Lemma final_stuck : forall fixed p s a, final s -> step fixed p s a = None.
Proof.
  intros fixed p s a Hf. destruct (step fixed p s a) as [[s' ev]|] eqn:E; [|reflexivity].
  destruct (step_shape _ _ _ _ _ _ E) as (t & tk & tk' & Ht & Hlt & _).
  unfold tw in Hlt. rewrite (Hf _ _ Ht) in Hlt. simpl in Hlt. lia.
Qed.

(* ================= 3. which tasks exist ================= *)

Lemma root_dom : forall fixed p s tr n tk,
  reach fixed p s tr -> tasks s (TRoot n) = Some tk -> n < length (roots p).
Proof.
  intros fixed p s tr n tk R. revert tk. induction R as [|s tr a s' ev R IH H]; intros tk0 H0.
  - simpl in H0. apply nth_error_Some. destruct (nth_error (roots p) n); congruence.
  - destruct (step_shape _ _ _ _ _ _ H) as (t & tk & tk' & Ht & _ & [E|(k & cx & _ & E)]);
      rewrite E in H0.
    + destruct (B_tid_dec (TRoot n) t) as [Heq|Hne].
      * subst t. eapply IH; eauto.
      * rewrite updt_neq in H0 by exact Hne. eapply IH; eauto.
    + rewrite updt_neq in H0 by discriminate.
      destruct (B_tid_dec (TRoot n) t) as [Heq|Hne].
      * subst t. eapply IH; eauto.
      * rewrite updt_neq in H0 by exact Hne. eapply IH; eauto.
Qed.

Lemma body_dom : forall fixed p s tr k tk, acyclic p ->
  reach fixed p s tr -> tasks s (TBody k) = Some tk -> k < length (nodes p).
Proof.
  intros fixed p s tr k tk Hac R Hk.
  destruct (reach_inv _ _ _ _ R) as [HA [HB _]].
  assert (Hns : cells s k <> NotStarted).
  { intro E. rewrite (a_ns _ _ _ HA k E) in Hk. discriminate. }
  destruct (b_named _ _ _ _ HB k Hns) as (t & pc & c & _ & Hc & Hin).
  destruct (dep_smaller p t pc c k Hac Hc Hin) as [_ H]. exact H.
Qed.

Lemma tasks_dom : forall fixed p s tr t tk, acyclic p ->
  reach fixed p s tr -> tasks s t = Some tk -> In t (all_tids p).
Proof.
  intros fixed p s tr t tk Hac R Ht. unfold all_tids. apply in_or_app. destruct t as [n|k].
  - left. apply in_map. apply in_seq. pose proof (root_dom _ _ _ _ _ _ R Ht). lia.
  - right. apply in_map. apply in_seq. pose proof (body_dom _ _ _ _ _ _ Hac R Ht). lia.
Qed.

(* a finite search over the tasks that can exist decides finality *)
Lemma live_in_list : forall s (L : list tid),
  (forall t tk, In t L -> tasks s t = Some tk -> t_phase tk = PFinished) \/
  (exists t tk, tasks s t = Some tk /\ t_phase tk <> PFinished).
Proof.
  intros s L. induction L as [|t L IH].
  - left. intros t tk [].
  - destruct IH as [IH|IH]; [|right; exact IH].
    destruct (tasks s t) as [tk|] eqn:Ht.
    + destruct (t_phase tk) eqn:Hph.
      * right. exists t, tk. split; [exact Ht|]. rewrite Hph. discriminate.
      * right. exists t, tk. split; [exact Ht|]. rewrite Hph. discriminate.
      * right. exists t, tk. split; [exact Ht|]. rewrite Hph. discriminate.
      * left. intros t' tk' [E|Hin] H'.
        -- subst t'. rewrite Ht in H'. inversion H'; subst. exact Hph.
        -- eapply IH; eauto.
    + left. intros t' tk' [E|Hin] H'.
      * subst t'. rewrite Ht in H'. discriminate.
      * eapply IH; eauto.
Qed.

Lemma final_or_live : forall fixed p s tr, acyclic p -> reach fixed p s tr ->
  final s \/ exists t tk, tasks s t = Some tk /\ t_phase tk <> PFinished.
Proof.
  intros fixed p s tr Hac R. destruct (live_in_list s (all_tids p)) as [H|H]; [left|right; exact H].
  intros t tk Ht. apply (H t tk); [|exact Ht]. eapply tasks_dom; eauto.
Qed.

Lemma final_dec : forall fixed p s tr, acyclic p -> reach fixed p s tr -> final s \/ ~ final s.
Proof.
  intros fixed p s tr Hac R. destruct (final_or_live _ _ _ _ Hac R) as [H|(t & tk & Ht & Hnf)].
  - left; exact H.
  - right. intro Hf. apply Hnf. exact (Hf _ _ Ht).
Qed.

(* ================= 4. progress: no deadlock ================= *)

(* A task that has not finished can move, or (transitively) something it waits for can.
   Induction on the rank of the task: what it waits for is a body with a smaller key. *)
Lemma task_can_step : forall fixed p s tr, acyclic p -> reach fixed p s tr ->
  forall n t tk, rank p t < n -> tasks s t = Some tk -> t_phase tk <> PFinished ->
  exists a s' ev, step fixed p s a = Some (s', ev).
Proof.
  intros fixed p s tr Hac Hr.
  destruct (reach_inv _ _ _ _ Hr) as [HA [HB _]].
  induction n as [|n IH]; intros t tk Hn Ht Hnf; [lia|].
  destruct (t_phase tk) as [|r st|o|] eqn:Hph.
  - (* between calls: enter the next call, or end *)
    exists (ATask t). simpl. unfold step_task. rewrite Ht, Hph.
    destruct (nth_error (calls_of p t) (t_pc tk)) as [c|];
      [|destruct (finish s t tk (own_result p t)) as [s1 ev1]; eauto].
    destruct (rounds c) eqn:Hrc; [exfalso; eapply rounds_nonempty; eauto | eauto].
  - (* inside a round *)
    destruct (b_round _ _ _ _ HB t tk r st Ht Hph) as [Hrd Hhas Hrun _ _ _ _].
    destruct Hrd as (c & Hc & Hms & Hlen & _).
    destruct (Nat.ltb (length (rd_gs st)) (length (rd_members st))) eqn:Hlt.
    + (* a goroutine is still to be spawned *)
      exists (ATask t). simpl. unfold step_task. rewrite Ht, Hph, Hc, Hlt. eauto.
    + apply Nat.ltb_ge in Hlt.
      destruct (all_finished (rd_gs st)) eqn:Haf.
      * (* wg.Wait returns *)
        exists (ATask t). simpl. unfold step_task. rewrite Ht, Hph, Hc.
        replace (Nat.ltb (length (rd_gs st)) (length (rd_members st))) with false
          by (symmetry; apply Nat.ltb_ge; exact Hlt).
        rewrite Haf.
        destruct (Nat.eqb (rd_nerr st) 0);
          [destruct (nth_error (rounds c) (S r)); eauto | destruct (c_guarded c); eauto].
      * (* some goroutine j has not reported *)
        destruct (not_all_finished _ Haf) as (j & g & Hg & Hgnf).
        assert (Hj : j < length (rd_members st)).
        { pose proof (B_nth_lt _ _ _ Hg). lia. }
        destruct (nth_error (rd_members st) j) as [k|] eqn:Hk;
          [|apply nth_error_None in Hk; lia].
        assert (Hblocked : cells s k = Running -> exists a s' ev, step fixed p s a = Some (s', ev)).
        { intro Hck. destruct (a_run _ _ _ HA k Hck) as (tk' & Htk' & Hnf').
          apply (IH (TBody k) tk'); auto. simpl.
          assert (Hin : In k (c_deps c)).
          { eapply B_round_member; [exact Hms|]. eapply nth_error_In; exact Hk. }
          destruct (dep_smaller p t _ c k Hac Hc Hin). lia. }
        destruct g as [| |r0|].
        -- destruct (cells s k) as [| |r1] eqn:Hck.
           ++ exists (AGo t j). simpl. unfold step_go. rewrite Ht, Hph, Hc, Hk, Hg, Hck. eauto.
           ++ auto.
           ++ exists (AGo t j). simpl. unfold step_go. rewrite Ht, Hph, Hc, Hk, Hg, Hck. eauto.
        -- destruct (cells s k) as [| |r1] eqn:Hck.
           ++ exfalso. exact (Hrun j k Hg Hk Hck).
           ++ auto.
           ++ exists (AGo t j). simpl. unfold step_go. rewrite Ht, Hph, Hc, Hk, Hg, Hck. eauto.
        -- exists (AGo t j). simpl. unfold step_go. rewrite Ht, Hph, Hc, Hk, Hg.
           destruct (is_nil r0); eauto.
        -- exfalso. apply Hgnf. reflexivity.
  - (* unwinding *)
    exists (ATask t). simpl. unfold step_task. rewrite Ht, Hph.
    destruct (finish s t tk o) as [s1 ev1]. eauto.
  - exfalso. apply Hnf. reflexivity.
Qed.

Lemma live_can_step : forall fixed p s tr t tk, acyclic p -> reach fixed p s tr ->
  tasks s t = Some tk -> t_phase tk <> PFinished ->
  exists a s' ev, step fixed p s a = Some (s', ev).
Proof.
  intros fixed p s tr t tk Hac R Ht Hnf.
  exact (task_can_step fixed p s tr Hac R (S (rank p t)) t tk (Nat.lt_succ_diag_r _) Ht Hnf).
Qed.

Theorem progress : forall fixed p s tr, acyclic p -> reach fixed p s tr -> ~ final s ->
  exists a s' ev, step fixed p s a = Some (s', ev).
Proof.
  intros fixed p s tr Hac R Hnf.
  destruct (final_or_live _ _ _ _ Hac R) as [H|(t & tk & Ht & Hl)]; [contradiction|].
  eapply live_can_step; eauto.
Qed.

(* stuck = final, on reachable configurations of acyclic programs *)
Theorem stuck_iff_final : forall fixed p s tr, acyclic p -> reach fixed p s tr ->
  (final s <-> forall a, step fixed p s a = None).
Proof.
  intros fixed p s tr Hac R. split.
  - intros Hf a. apply final_stuck. exact Hf.
  - intro Hst. destruct (final_dec _ _ _ _ Hac R) as [Hf|Hnf]; [exact Hf|].
    destruct (progress _ _ _ _ Hac R Hnf) as (a & s' & ev & E). rewrite Hst in E. discriminate.
Qed.

(* ================= 5. every step costs: the measure decreases ================= *)

Lemma NoDup_app_intro : forall {A} (a b : list A),
  NoDup a -> NoDup b -> (forall x, In x a -> ~ In x b) -> NoDup (a ++ b).
Proof.
  intros A a b Ha Hb Hd. induction Ha as [|x a Hx Ha IH]; simpl; [exact Hb|].
  constructor.
  - intro Hin. apply in_app_or in Hin. destruct Hin as [Hin|Hin]; [contradiction|].
    apply (Hd x); [left; reflexivity|exact Hin].
  - apply IH. intros y Hy. apply Hd. right; exact Hy.
Qed.

Lemma NoDup_map_inj : forall {A B} (f : A -> B) l,
  (forall x y, f x = f y -> x = y) -> NoDup l -> NoDup (map f l).
Proof.
  intros A B f l Hinj Hl. induction Hl as [|x l Hx Hl IH]; simpl; constructor; [|exact IH].
  intro Hin. apply in_map_iff in Hin. destruct Hin as (y & Hy & Hin).
  apply Hinj in Hy. subst y. contradiction.
Qed.

Lemma all_tids_nodup : forall p, NoDup (all_tids p).
Proof.
  intro p. unfold all_tids. apply NoDup_app_intro.
  - apply NoDup_map_inj; [intros x y E; inversion E; reflexivity | apply seq_NoDup].
  - apply NoDup_map_inj; [intros x y E; inversion E; reflexivity | apply seq_NoDup].
  - intros x Hx Hy. apply in_map_iff in Hx. apply in_map_iff in Hy.
    destruct Hx as (n & Hn & _). destruct Hy as (k & Hk & _). subst x. discriminate.
Qed.

Lemma sum_lt : forall (f f' : tid -> nat) (L : list tid) (t : tid),
  NoDup L -> In t L -> (forall t', In t' L -> t' <> t -> f' t' = f t') -> f' t < f t ->
  list_sum (map f' L) < list_sum (map f L).
Proof.
  intros f f' L t Hnd. induction Hnd as [|x L Hx Hnd IH]; intros Hin Hsame Hlt; [destruct Hin|].
  simpl. destruct Hin as [E|Hin].
  - subst x.
    assert (Heq : list_sum (map f' L) = list_sum (map f L)).
    { clear IH. f_equal. apply map_ext_in. intros t' Ht'. apply Hsame; [right; exact Ht'|].
      intro E; subst t'. contradiction. }
    lia.
  - assert (Hxt : x <> t) by (intro E; subst x; contradiction).
    rewrite (Hsame x (or_introl eq_refl) Hxt).
    assert (list_sum (map f' L) < list_sum (map f L)).
    { apply IH; auto. intros t' Ht' Hne. apply Hsame; [right; exact Ht'|exact Hne]. }
    lia.
Qed.

Theorem step_decreases : forall fixed p s tr a s' ev, acyclic p ->
  reach fixed p s tr -> step fixed p s a = Some (s', ev) -> measure p s' < measure p s.
Proof.
  intros fixed p s tr a s' ev Hac R H.
  destruct (reach_inv _ _ _ _ R) as [HA _].
  destruct (step_shape _ _ _ _ _ _ H) as (t & tk & tk' & Ht & Hlt & Hsh).
  unfold measure. apply (sum_lt (wt p s) (wt p s') (all_tids p) t).
  - apply all_tids_nodup.
  - eapply tasks_dom; eauto.
  - intros t' _ Hne. unfold wt. destruct Hsh as [E|(k & cx & Hck & E)]; rewrite E.
    + rewrite updt_neq by exact Hne. reflexivity.
    + destruct (B_tid_dec t' (TBody k)) as [Heq|Hnk].
      * subst t'. rewrite updt_eq. rewrite (a_ns _ _ _ HA k Hck). reflexivity.
      * rewrite updt_neq by exact Hnk. rewrite updt_neq by exact Hne. reflexivity.
  - unfold wt. rewrite Ht. destruct Hsh as [E|(k & cx & Hck & E)]; rewrite E.
    + rewrite updt_eq. exact Hlt.
    + assert (Hnk : t <> TBody k).
      { intro Heq. subst t. rewrite (a_ns _ _ _ HA k Hck) in Ht. discriminate. }
      rewrite updt_neq by exact Hnk. rewrite updt_eq. exact Hlt.
Qed.

(* every schedule is finite: an execution from s has at most [measure p s] steps *)
Theorem run_bounded : forall fixed p acts s tr s' tr', acyclic p ->
  reach fixed p s tr -> run fixed p s acts = Some (s', tr') ->
  length acts + measure p s' <= measure p s.
Proof.
  intros fixed p acts. induction acts as [|a acts IH]; simpl; intros s tr s' tr' Hac R H.
  - inversion H; subst. lia.
  - destruct (step fixed p s a) as [[s1 ev]|] eqn:E; [|discriminate].
    destruct (run fixed p s1 acts) as [[s2 evs]|] eqn:E2; [|discriminate].
    inversion H; subst.
    pose proof (step_decreases _ _ _ _ _ _ _ Hac R E) as Hd.
    assert (R1 : reach fixed p s1 (tr ++ ev)) by (econstructor; eauto).
    pose proof (IH _ _ _ _ Hac R1 E2). lia.
Qed.

Corollary schedule_bounded : forall fixed p acts s tr, acyclic p ->
  run fixed p (init p) acts = Some (s, tr) -> length acts <= bound p.
Proof.
  intros fixed p acts s tr Hac H. unfold bound.
  pose proof (run_bounded fixed p acts (init p) [] s tr Hac (reach_init fixed p) H). lia.
Qed.

(* ================= 6. termination: a final configuration is always reachable ================= *)

Lemma terminates_fuel : forall fixed p, acyclic p ->
  forall n s tr, measure p s < n -> reach fixed p s tr ->
  exists acts s' tr', run fixed p s acts = Some (s', tr') /\ final s'.
Proof.
  intros fixed p Hac. induction n as [|n IH]; intros s tr Hm R; [lia|].
  destruct (final_or_live _ _ _ _ Hac R) as [Hf|(t & tk & Ht & Hl)].
  - exists [], s, []. split; [reflexivity|exact Hf].
  - destruct (live_can_step _ _ _ _ _ _ Hac R Ht Hl) as (a & s1 & ev & E).
    pose proof (step_decreases _ _ _ _ _ _ _ Hac R E) as Hd.
    assert (R1 : reach fixed p s1 (tr ++ ev)) by (econstructor; eauto).
    destruct (IH s1 (tr ++ ev)) as (acts & s2 & tr2 & Hrun & Hf); [lia|exact R1|].
    exists (a :: acts), s2, (ev ++ tr2). split; [|exact Hf].
    simpl. rewrite E, Hrun. reflexivity.
Qed.

Theorem terminates : forall fixed p s tr, acyclic p -> reach fixed p s tr ->
  exists acts s' tr', run fixed p s acts = Some (s', tr') /\ final s'.
Proof.
  intros fixed p s tr Hac R.
  exact (terminates_fuel fixed p Hac (S (measure p s)) s tr (Nat.lt_succ_diag_r _) R).
Qed.

(* any schedule that cannot be extended has ended in a final configuration: together with
   [run_bounded], every maximal execution is finite and final *)
Theorem maximal_run_final : forall fixed p s tr acts s' tr', acyclic p ->
  reach fixed p s tr -> run fixed p s acts = Some (s', tr') ->
  (forall a, step fixed p s' a = None) -> final s'.
Proof.
  intros fixed p s tr acts s' tr' Hac R Hrun Hst.
  pose proof (run_reach _ _ _ _ _ _ _ R Hrun) as R'.
  apply (stuck_iff_final _ _ _ _ Hac R'). exact Hst.
Qed.

(* ================= 7. consequence for C01 ================= *)

Lemma reached_by_mono : forall tr tr' c k, reached_by tr c k -> reached_by (tr ++ tr') c k.
Proof.
  intros tr tr' c k H. unfold reached_by in *. destruct (c_style c); [exact H|].
  destruct H as (i & Hi & Hprev). exists i. split; [exact Hi|].
  intros i' k' Hlt Hk'. apply in_or_app. left. eapply Hprev; eauto.
Qed.

(* every dependency that an entered call gets to does run, exactly once, to its end: there is an
   extension of the execution to a final configuration, and in it the counts are 1 *)
Theorem named_eventually_runs : forall p s tr t pc c k, acyclic p ->
  reach true p s tr ->
  In (CallEnter t pc) tr -> nth_error (calls_of p t) pc = Some c -> reached_by tr c k ->
  exists acts s' tr', run true p s acts = Some (s', tr') /\ final s' /\
                      nstart k (tr ++ tr') = 1 /\ nend k (tr ++ tr') = 1.
Proof.
  intros p s tr t pc c k Hac R Hin Hc Hrb.
  destruct (terminates true p s tr Hac R) as (acts & s' & tr' & Hrun & Hf).
  exists acts, s', tr'. split; [exact Hrun|]. split; [exact Hf|].
  pose proof (run_reach _ _ _ _ _ _ _ R Hrun) as R'.
  apply (named_runs p s' (tr ++ tr') t pc c k R' Hf).
  - apply in_or_app. left. exact Hin.
  - exact Hc.
  - apply reached_by_mono. exact Hrb.
Qed.

(* ... and in EVERY extension that runs until nothing can move *)
Theorem named_runs_in_every_maximal_run : forall p s tr t pc c k acts s' tr', acyclic p ->
  reach true p s tr ->
  In (CallEnter t pc) tr -> nth_error (calls_of p t) pc = Some c -> reached_by tr c k ->
  run true p s acts = Some (s', tr') -> (forall a, step true p s' a = None) ->
  nstart k (tr ++ tr') = 1 /\ nend k (tr ++ tr') = 1.
Proof.
  intros p s tr t pc c k acts s' tr' Hac R Hin Hc Hrb Hrun Hst.
  pose proof (maximal_run_final _ _ _ _ _ _ _ Hac R Hrun Hst) as Hf.
  pose proof (run_reach _ _ _ _ _ _ _ R Hrun) as R'.
  apply (named_runs p s' (tr ++ tr') t pc c k R' Hf).
  - apply in_or_app. left. exact Hin.
  - exact Hc.
  - apply reached_by_mono. exact Hrb.
Qed.

Corollary par_named_eventually_runs : forall p s tr t pc c k, acyclic p ->
  reach true p s tr ->
  In (CallEnter t pc) tr -> nth_error (calls_of p t) pc = Some c -> c_style c = Par -> In k (c_deps c) ->
  exists acts s' tr', run true p s acts = Some (s', tr') /\ final s' /\
                      nstart k (tr ++ tr') = 1 /\ nend k (tr ++ tr') = 1.
Proof.
  intros p s tr t pc c k Hac R Hin Hc Hpar Hk.
  apply (named_eventually_runs p s tr t pc c k Hac R Hin Hc).
  unfold reached_by. rewrite Hpar. exact Hk.
Qed.

(* ================= 8. non-vacuity: a diamond with fan-in ================= *)

Definition pcall (ds : list key) : call := {| c_style := Par; c_ctx := Fwd; c_deps := ds; c_guarded := false |}.
Definition scall (ds : list key) : call := {| c_style := Ser; c_ctx := Bg; c_deps := ds; c_guarded := true |}.

(* 0 is a failing leaf; 1 and 2 both depend on 0 (fan-in); 3 depends on 1 and 2 in parallel and
   then serially on [0;1]; two roots ask for 3 and for [2;0] *)
Definition diamond : prog :=
  {| nodes := [ {| b_calls := []; b_result := Err 2 [7]; b_name := 0 |};
                {| b_calls := [pcall [0]]; b_result := Ok; b_name := 1 |};
                {| b_calls := [pcall [0]]; b_result := Ok; b_name := 2 |};
                {| b_calls := [pcall [1; 2]; scall [0; 1]]; b_result := Ok; b_name := 3 |} ];
     roots := [ ([pcall [3]], CTag 0); ([scall [2; 0]; pcall [3]], CBg) ];
     verbose := true |}.

Lemma diamond_acyclic : acyclic diamond.
Proof. apply acyclicb_sound. vm_compute. reflexivity. Qed.

(* so the liveness theorems apply to it: from its initial configuration a final one is reachable,
   within [bound diamond] steps, and in it dependency 0 (named by three bodies and a root) ran once *)
Lemma diamond_terminates : exists acts s tr,
  run true diamond (init diamond) acts = Some (s, tr) /\ final s /\ reach true diamond s tr /\
  length acts <= bound diamond.
Proof.
  destruct (terminates true diamond (init diamond) [] diamond_acyclic (reach_init true diamond))
    as (acts & s & tr & Hrun & Hf).
  exists acts, s, tr. split; [exact Hrun|]. split; [exact Hf|]. split.
  - change tr with ([] ++ tr). eapply run_reach; [apply reach_init|exact Hrun].
  - eapply schedule_bounded; [exact diamond_acyclic|exact Hrun].
Qed.

Lemma diamond_bound : bound diamond = 62.
Proof. vm_compute. reflexivity. Qed.
