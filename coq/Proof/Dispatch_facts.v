(* C04: lemmas about Model/Dispatch.v against Model/DispatchSpec.v. *)
From Mage Require Import Base.Strs Model.Dispatch Model.DispatchSpec.

(* ------------------------------------------------------------------ lists *)
Lemma skipn_skipn_add {A} : forall m n (l : list A), skipn n (skipn m l) = skipn (m + n) l.
Proof.
  induction m as [|m IH]; intros n l; simpl; [reflexivity|].
  destruct l as [|a l]; [now rewrite skipn_nil|apply IH].
Qed.

Lemma skipn_nth_cons {A} (d : A) : forall x (l : list A), x < length l -> skipn x l = nth x l d :: skipn (S x) l.
Proof.
  induction x as [|x IH]; intros [|a l] H; simpl in *; try lia; [reflexivity|].
  apply IH; lia.
Qed.

Lemma app_eq_len {A} : forall (a a' b b' : list A), a ++ b = a' ++ b' -> length a = length a' -> a = a' /\ b = b'.
Proof.
  induction a as [|x a IH]; intros [|x' a'] b b' E L; simpl in *; try discriminate; [auto|].
  injection E as -> E. destruct (IH a' b b' E) as [-> ->]; [lia|auto].
Qed.

Lemma NoDup_map_inj {A B} (f : A -> B) : forall l, NoDup (map f l) ->
  forall x y, In x l -> In y l -> f x = f y -> x = y.
Proof.
  induction l as [|a l IH]; simpl; intros H x y Hx Hy E; [tauto|].
  inversion H as [|? ? Hn Hd]; subst.
  destruct Hx as [->|Hx], Hy as [->|Hy]; auto.
  - exfalso; apply Hn; rewrite E; now apply in_map.
  - exfalso; apply Hn; rewrite <- E; now apply in_map.
Qed.

Lemma NoDup_app_inv {A} : forall (l1 l2 : list A), NoDup (l1 ++ l2) ->
  NoDup l1 /\ NoDup l2 /\ (forall x, In x l1 -> In x l2 -> False).
Proof.
  induction l1 as [|a l1 IH]; simpl; intros l2 H.
  - split; [constructor|split; [assumption|tauto]].
  - inversion H as [|? ? Hn Hd]; subst. destruct (IH _ Hd) as (H1 & H2 & H3).
    split; [|split]; auto.
    + constructor; auto. intro; apply Hn; apply in_or_app; auto.
    + intros x [->|Hx] Hx2; [apply Hn; apply in_or_app; auto|eauto].
Qed.

(* ------------------------------------------------------------------ the two switches *)
Lemma target_switch_some : forall cases lw t, target_switch cases lw = Some t -> In t cases /\ lower (tname t) = lw.
Proof.
  induction cases as [|c cases IH]; simpl; intros lw t H; [discriminate|].
  destruct (String.eqb lw (lower (tname c))) eqn:E.
  - injection H as <-. apply String.eqb_eq in E. auto.
  - destruct (IH _ _ H); auto.
Qed.

Lemma target_switch_none : forall cases lw, target_switch cases lw = None ->
  forall t, In t cases -> lower (tname t) <> lw.
Proof.
  induction cases as [|c cases IH]; simpl; intros lw H t Ht; [tauto|].
  destruct (String.eqb lw (lower (tname c))) eqn:E; [discriminate|].
  apply String.eqb_neq in E. destruct Ht as [->|Ht]; [congruence|eauto].
Qed.

Lemma alias_switch_spec : forall al lw w,
  (alias_switch al lw w = w /\ forall a tn, In (a, tn) al -> lower a <> lw) \/
  (exists a tn, In (a, tn) al /\ lower a = lw /\ alias_switch al lw w = tn).
Proof.
  induction al as [|[a tn] al IH]; simpl; intros lw w.
  - left; split; [reflexivity|tauto].
  - destruct (String.eqb lw (lower a)) eqn:E.
    + apply String.eqb_eq in E. right. exists a, tn. auto.
    + apply String.eqb_neq in E. destruct (IH lw w) as [[H1 H2]|(a' & tn' & H1 & H2 & H3)].
      * left; split; [assumption|]. intros a0 tn0 [H|H]; [injection H as <- <-; congruence|eauto].
      * right. exists a', tn'. auto.
Qed.

Section Facts.
Variable conv : argty -> string -> option string.
Variable fails : nat -> list value -> bool.
Variable i : info.

Notation resolves := (resolves i).
Notation no_collision := (no_collision i).
Notation converts := (converts conv).
Notation first_bad := (first_bad conv).
Notation Seg := (Seg conv fails i).
Notation good := (good conv fails i).
Notation stops := (stops conv i).
Notation convert := (convert conv).
Notation dispatch := (dispatch conv fails i).
Notation loop := (loop conv fails i).

(* ------------------------------------------------------------------ name resolution *)
Lemma resolves_fun : no_collision -> forall w t t', resolves w t -> resolves w t' -> t = t'.
Proof.
  intros NC w t t' [Ht H] [Ht' H'].
  destruct (NoDup_app_inv _ _ NC) as (NT & NA & ND).
  assert (same : forall a tn a' tn', In (a, tn) (aliases i) -> In (a', tn') (aliases i) -> lower a = lower a' -> tn = tn').
  { intros a tn a' tn' I1 I2 E.
    assert (X : (a, tn) = (a', tn')) by (apply (NoDup_map_inj (fun p => lower (fst p)) _ NA); auto).
    congruence. }
  assert (clash : forall t0 a tn, In t0 (targets i) -> In (a, tn) (aliases i) -> lower (tname t0) = lower a -> False).
  { intros t0 a tn I1 I2 E. apply (ND (lower a)).
    - rewrite <- E. apply (in_map (fun t => lower (tname t))); assumption.
    - apply (in_map (fun p => lower (fst p)) _ (a, tn)); assumption. }
  destruct H as [H|(a & tn & Ia & Ea & Et)], H' as [H'|(a' & tn' & Ia' & Ea' & Et')].
  - apply (NoDup_map_inj (fun t => lower (tname t)) _ NT); auto. congruence.
  - exfalso. apply (clash t a' tn'); auto. congruence.
  - exfalso. apply (clash t' a tn); auto. congruence.
  - assert (tn = tn') by (apply (same a tn a' tn'); auto; congruence). subst tn'.
    apply (NoDup_map_inj (fun t => lower (tname t)) _ NT); auto. congruence.
Qed.

Lemma lookup_sound : forall w t,
  target_switch (switch_cases i) (lower (alias_switch (aliases i) (lower w) w)) = Some t -> resolves w t.
Proof.
  intros w t H. apply target_switch_some in H. destruct H as [Hin Hl].
  split; [exact Hin|].
  destruct (alias_switch_spec (aliases i) (lower w) w) as [[E _]|(a & tn & Ia & Ea & E)]; rewrite E in Hl.
  - left; assumption.
  - right. exists a, tn. auto.
Qed.

Lemma lookup_complete : no_collision -> forall w,
  target_switch (switch_cases i) (lower (alias_switch (aliases i) (lower w) w)) = None -> forall t, ~ resolves w t.
Proof.
  intros NC w H t [Ht R].
  pose proof (target_switch_none _ _ H) as N.
  destruct (NoDup_app_inv _ _ NC) as (NT & NA & ND).
  destruct (alias_switch_spec (aliases i) (lower w) w) as [[E Hno]|(a & tn & Ia & Ea & E)]; rewrite E in N.
  - destruct R as [R|(a & tn & Ia & Ea & _)]; [exact (N t Ht R)|exact (Hno a tn Ia Ea)].
  - destruct R as [R|(a' & tn' & Ia' & Ea' & Et')].
    + apply (ND (lower a)).
      * rewrite Ea, <- R. apply (in_map (fun t => lower (tname t))); assumption.
      * apply (in_map (fun p => lower (fst p)) _ (a, tn)); assumption.
    + assert (X : (a, tn) = (a', tn')) by (apply (NoDup_map_inj (fun p => lower (fst p)) _ NA); simpl; auto; congruence).
      injection X as <- <-. apply (N t Ht). congruence.
Qed.

Lemma resolves_lower : forall w w' t, lower w = lower w' -> resolves w t -> resolves w' t.
Proof. intros w w' t E [H1 H2]. split; [assumption|]. rewrite <- E. assumption. Qed.

(* ------------------------------------------------------------------ conversion *)
Lemma converts_length : forall tys ws vs, converts tys ws vs -> length ws = length tys /\ length vs = length tys.
Proof. induction 1; simpl; [auto|]. destruct IHconverts. split; congruence. Qed.

Lemma converts_fun : forall tys ws vs, converts tys ws vs -> forall vs', converts tys ws vs' -> vs = vs'.
Proof.
  induction 1 as [|ty w v tys ws vs Hc _ IH]; intros vs' H'; inversion H'; subst; [reflexivity|].
  f_equal; [congruence|auto].
Qed.

Lemma converts_not_bad : forall tys args vs, converts tys args vs -> forall rest b, ~ first_bad tys (args ++ rest) b.
Proof.
  induction 1 as [|ty w v tys ws vs Hc _ IH]; intros rest b H'; simpl in H'; inversion H'; subst; [congruence|].
  eapply IH; eassumption.
Qed.

Lemma first_bad_fun : forall tys ws b, first_bad tys ws b -> forall b', first_bad tys ws b' -> b = b'.
Proof.
  induction 1 as [ty w tys ws Hc|ty w v tys ws b Hc _ IH]; intros b' H'; inversion H'; subst; try congruence.
  auto.
Qed.

Lemma first_bad_prefix : forall tys a R b, first_bad tys (a ++ R) b -> length a = length tys ->
  forall R', first_bad tys (a ++ R') b.
Proof.
  induction tys as [|ty tys IH]; intros a R b H L R'; [inversion H|].
  destruct a as [|w a]; [discriminate|]. simpl in *. inversion H; subst.
  - now apply fb_here.
  - eapply fb_later; [eassumption|]. eapply IH; [eassumption|lia].
Qed.

Lemma converts_nth : forall tys ws vs, converts tys ws vs ->
  forall k ty a, nth_error tys k = Some ty -> nth_error ws k = Some a -> nth_error vs k = convert ty a.
Proof.
  induction 1 as [|ty w v tys ws vs Hc _ IH]; intros [|k] ty' a H1 H2; simpl in *; try discriminate.
  - injection H1 as <-. injection H2 as <-. now rewrite Hc.
  - eauto.
Qed.

Lemma converts_exists : forall tys ws, length ws = length tys ->
  (forall k ty a, nth_error tys k = Some ty -> nth_error ws k = Some a -> convert ty a <> None) ->
  exists vs, converts tys ws vs.
Proof.
  induction tys as [|ty tys IH]; intros [|w ws] L H; simpl in *; try discriminate.
  - exists []. constructor.
  - destruct (convert ty w) as [v|] eqn:E; [|exfalso; exact (H 0 ty w eq_refl eq_refl E)].
    destruct (IH ws) as [vs Hvs]; [lia|intros k ty' a H1 H2; exact (H (S k) ty' a H1 H2)|].
    exists (v :: vs). now constructor.
Qed.

(* parse_args against the spec: the words read are exactly the next [length tys] ones *)
Lemma parse_args_spec : forall tys args x, x + length tys <= length args ->
  match parse_args conv args tys x with
  | (inr vs, x') => x' = x + length tys /\ converts tys (firstn (length tys) (skipn x args)) vs
  | (inl b, _) => first_bad tys (skipn x args) b
  end.
Proof.
  induction tys as [|ty tys IH]; intros args x H; simpl in *.
  - split; [lia|constructor].
  - rewrite (skipn_nth_cons "" x args) by lia.
    destruct (convert ty (nth x args "")) as [v|] eqn:E.
    + specialize (IH args (S x)). destruct (parse_args conv args tys (S x)) as [[b|vs] x'].
      * eapply fb_later; [eassumption|]. apply IH; lia.
      * destruct IH as [-> Hc]; [lia|]. split; [lia|]. simpl. now constructor.
    + now apply fb_here.
Qed.

(* ------------------------------------------------------------------ the loop refines the grammar *)
Lemma loop_0 : forall args x, loop args 0 x = if (length args <=? x)%nat then ([], Done) else ([], OutOfFuel).
Proof. reflexivity. Qed.

Lemma loop_S : forall fuel args x, loop args (S fuel) x =
  if (length args <=? x)%nat then ([], Done) else
  match target_switch (switch_cases i) (lower (alias_switch (aliases i) (lower (nth x args "")) (nth x args ""))) with
  | None => ([], Exit2 Unknown)
  | Some t =>
      if (length args <? S x + length (targs t))%nat then ([], Exit2 Missing) else
      match parse_args conv args (targs t) (S x) with
      | (inl ty, _) => ([], Exit2 (BadArg ty))
      | (inr vs, x') =>
          if fails (tdef t) vs then ([mkcall t vs], Failed)
          else let (cs, e) := loop args fuel x' in (mkcall t vs :: cs, e)
      end
  end.
Proof. reflexivity. Qed.

Lemma loop_Seg : no_collision -> forall fuel args x, length args - x <= fuel -> x <= length args ->
  Seg (skipn x args) (fst (loop args fuel x)) (snd (loop args fuel x)).
Proof.
  intros NC. induction fuel as [|fuel IH]; intros args x Hf Hx.
  - rewrite loop_0. destruct (Nat.leb_spec (length args) x); [|lia].
    rewrite skipn_all2 by lia. constructor.
  - rewrite loop_S. destruct (Nat.leb_spec (length args) x) as [Hle|Hlt].
    { rewrite skipn_all2 by lia. constructor. }
    rewrite (skipn_nth_cons "" x args) by lia.
    set (w := nth x args "").
    destruct (target_switch (switch_cases i) (lower (alias_switch (aliases i) (lower w) w))) as [t|] eqn:L.
    2:{ cbn [fst snd]. apply SegUnknown. now apply lookup_complete. }
    apply lookup_sound in L.
    assert (Hlen : length (skipn (S x) args) = length args - S x) by apply skipn_length.
    destruct (Nat.ltb_spec (length args) (S x + length (targs t))) as [Hm|Hm].
    { cbn [fst snd]. eapply SegMissing; [eassumption|]. unfold arity. lia. }
    pose proof (parse_args_spec (targs t) args (S x) Hm) as P.
    destruct (parse_args conv args (targs t) (S x)) as [[b|vs] x'].
    { cbn [fst snd]. eapply SegBadArg; [eassumption| unfold arity; lia |assumption]. }
    destruct P as [-> Hc].
    rewrite <- (firstn_skipn (length (targs t)) (skipn (S x) args)).
    rewrite skipn_skipn_add.
    destruct (fails (tdef t) vs) eqn:F.
    { cbn [fst snd]. now apply SegFail. }
    specialize (IH args (S x + length (targs t))).
    destruct (loop args fuel (S x + length (targs t))) as [cs e]. cbn [fst snd] in *.
    apply SegCall; auto. apply IH; lia.
Qed.

Lemma loop_fuel_enough : forall fuel args x, length args - x <= fuel -> snd (loop args fuel x) <> OutOfFuel.
Proof.
  induction fuel as [|fuel IH]; intros args x Hf.
  - rewrite loop_0. destruct (Nat.leb_spec (length args) x); [discriminate|lia].
  - rewrite loop_S. destruct (Nat.leb_spec (length args) x) as [Hle|Hlt]; [discriminate|].
    set (w := nth x args "").
    destruct (target_switch (switch_cases i) (lower (alias_switch (aliases i) (lower w) w))) as [t|]; [|discriminate].
    destruct (Nat.ltb_spec (length args) (S x + length (targs t))) as [Hm|Hm]; [discriminate|].
    pose proof (parse_args_spec (targs t) args (S x) Hm) as P.
    destruct (parse_args conv args (targs t) (S x)) as [[b|vs] x']; [discriminate|].
    destruct P as [-> _].
    destruct (fails (tdef t) vs); [discriminate|].
    specialize (IH args (S x + length (targs t))).
    destruct (loop args fuel (S x + length (targs t))) as [cs e]. cbn [fst snd] in *. apply IH. lia.
Qed.

Lemma dispatch_nonempty : forall env ws, ws <> [] -> dispatch env ws = loop ws (length ws) 0.
Proof. intros env [|w ws] H; [congruence|reflexivity]. Qed.

Theorem dispatch_is_Seg : forall env ws, no_collision -> ws <> [] ->
  Seg ws (fst (dispatch env ws)) (snd (dispatch env ws)).
Proof.
  intros env ws NC H. rewrite dispatch_nonempty by assumption.
  apply (loop_Seg NC (length ws) ws 0); lia.
Qed.

Theorem never_out_of_fuel : forall env ws, snd (dispatch env ws) <> OutOfFuel.
Proof.
  intros env [|w ws].
  - unfold Dispatch.dispatch. simpl. destruct (default i) as [d|]; [|discriminate].
    destruct (ignore_default conv env); [discriminate|]. destruct (targs d); [|discriminate].
    simpl. destruct (fails (tdef d) []); discriminate.
  - rewrite dispatch_nonempty by discriminate. apply loop_fuel_enough. lia.
Qed.

(* ------------------------------------------------------------------ the grammar is deterministic *)
Lemma split_same_target : forall t args rest vs args' rest' vs',
  converts (targs t) args vs -> converts (targs t) args' vs' -> args ++ rest = args' ++ rest' ->
  args = args' /\ rest = rest' /\ vs = vs'.
Proof.
  intros t args rest vs args' rest' vs' C C' E.
  destruct (converts_length _ _ _ C) as [L _]. destruct (converts_length _ _ _ C') as [L' _].
  destruct (app_eq_len _ _ _ _ E) as [-> ->]; [congruence|].
  split; [reflexivity|split; [reflexivity|]]. eapply converts_fun; eassumption.
Qed.

Ltac split_same C C' :=
  match goal with
  | E : _ ++ _ = _ ++ _ |- _ =>
      first [ destruct (split_same_target _ _ _ _ _ _ _ C C' E) as (? & ? & ?)
            | destruct (split_same_target _ _ _ _ _ _ _ C C' (eq_sym E)) as (? & ? & ?) ]; subst
  end.

Theorem Seg_functional : no_collision -> forall ws cs e, Seg ws cs e ->
  forall cs' e', Seg ws cs' e' -> cs = cs' /\ e = e'.
Proof.
  intros NC ws cs e H.
  induction H as [|w args rest t vs cs e R C F S IH|w args rest t vs R C F|w ws U|w ws t R M|w ws t ty R A B];
    intros cs' e' H'; inversion H' as [|w' args' rest' t' vs' cs1 e1 R' C' F' S' E|w' args' rest' t' vs' R' C' F' E|w' ws' U' E|w' ws' t' R' M' E|w' ws' t' ty' R' A' B' E];
    subst; try (exfalso; eapply U; eassumption); try (exfalso; eapply U'; eassumption);
    try (assert (t' = t) by (eapply resolves_fun; eassumption); subst t').
  - auto.
  - split_same C C'.
    destruct (IH _ _ S') as [-> ->]. auto.
  - split_same C C'. congruence.
  - exfalso. destruct (converts_length _ _ _ C) as [L _]. rewrite app_length in M'. unfold arity in M'. lia.
  - exfalso. eapply converts_not_bad; eassumption.
  - split_same C C'. congruence.
  - split_same C C'. auto.
  - exfalso. destruct (converts_length _ _ _ C) as [L _]. rewrite app_length in M'. unfold arity in M'. lia.
  - exfalso. eapply converts_not_bad; eassumption.
  - auto.
  - exfalso. destruct (converts_length _ _ _ C') as [L _]. rewrite app_length in M. unfold arity in M. lia.
  - exfalso. destruct (converts_length _ _ _ C') as [L _]. rewrite app_length in M. unfold arity in M. lia.
  - auto.
  - exfalso. lia.
  - exfalso. eapply converts_not_bad; eassumption.
  - exfalso. eapply converts_not_bad; eassumption.
  - exfalso. lia.
  - assert (ty = ty') by (eapply first_bad_fun; eassumption). subst. auto.
Qed.

Theorem dispatch_unique : forall env ws cs e, no_collision -> ws <> [] -> Seg ws cs e -> dispatch env ws = (cs, e).
Proof.
  intros env ws cs e NC H S.
  pose proof (dispatch_is_Seg env ws NC H) as D.
  destruct (Seg_functional NC _ _ _ D _ _ S) as [E1 E2].
  destruct (dispatch env ws); simpl in *; congruence.
Qed.

Lemma Seg_total : no_collision -> forall ws, exists cs e, Seg ws cs e.
Proof.
  intros NC [|w ws].
  - exists [], Done. constructor.
  - eexists _, _. apply (dispatch_is_Seg "" (w :: ws) NC). discriminate.
Qed.

(* ------------------------------------------------------------------ mentions *)
Lemma flatten_cons : forall (m : mention) ms, flatten (m :: ms) = fst m :: snd m ++ flatten ms.
Proof. reflexivity. Qed.

Lemma Seg_good_app : forall ms cs, Forall2 good ms cs -> forall rest cs' e, Seg rest cs' e ->
  Seg (flatten ms ++ rest) (cs ++ cs') e.
Proof.
  induction 1 as [|m c ms cs G _ IH]; intros rest cs' e S; [exact S|].
  destruct G as [w args t vs R C F]. rewrite flatten_cons. simpl.
  rewrite <- app_assoc. apply SegCall; auto.
Qed.

Lemma flatten_nonempty : forall ms rest, ms <> [] \/ rest <> [] -> flatten ms ++ rest <> [].
Proof. intros [|m ms] rest [H|H]; try congruence; simpl; auto; discriminate. Qed.

Lemma stops_Seg : forall w tail r, stops w tail r -> Seg (w :: tail) [] (Exit2 r).
Proof.
  intros w tail r [w0 tl U|w0 tl t R M|w0 tl t ty R A B].
  - now apply SegUnknown.
  - eapply SegMissing; eassumption.
  - eapply SegBadArg; eassumption.
Qed.

Theorem runs_left_to_right : forall env ms cs, no_collision -> Forall2 good ms cs -> ms <> [] ->
  dispatch env (flatten ms) = (cs, Done).
Proof.
  intros env ms cs NC G H.
  pose proof (Seg_good_app _ _ G [] [] Done (SegNil _ _ _)) as S. rewrite !app_nil_r in S.
  apply dispatch_unique; auto. rewrite <- (app_nil_r (flatten ms)). apply flatten_nonempty; auto.
Qed.

Theorem exit2_before_body : forall env ms cs w tail r, no_collision -> Forall2 good ms cs -> stops w tail r ->
  dispatch env (flatten ms ++ w :: tail) = (cs, Exit2 r).
Proof.
  intros env ms cs w tail r NC G St.
  pose proof (Seg_good_app _ _ G _ _ _ (stops_Seg _ _ _ St)) as S. rewrite app_nil_r in S.
  apply dispatch_unique; auto. apply flatten_nonempty; right; discriminate.
Qed.

Theorem nothing_after_failure : forall env ms cs w args tail t vs, no_collision -> Forall2 good ms cs ->
  resolves w t -> converts (targs t) args vs -> fails (tdef t) vs = true ->
  dispatch env (flatten ms ++ w :: args ++ tail) = (cs ++ [mkcall t vs], Failed).
Proof.
  intros env ms cs w args tail t vs NC G R C F.
  apply dispatch_unique; auto; [apply flatten_nonempty; right; discriminate|].
  apply Seg_good_app; auto. now apply SegFail.
Qed.

Theorem args_in_declaration_order : forall env w args rest t, no_collision -> resolves w t ->
  length args = arity t ->
  (forall k ty a, nth_error (targs t) k = Some ty -> nth_error args k = Some a -> convert ty a <> None) ->
  exists vs cs e, dispatch env (w :: args ++ rest) = (mkcall t vs :: cs, e) /\
    length vs = arity t /\
    (forall k ty a, nth_error (targs t) k = Some ty -> nth_error args k = Some a -> nth_error vs k = convert ty a) /\
    (forall k a, nth_error (targs t) k = Some TString -> nth_error args k = Some a -> nth_error vs k = Some (VStr a)).
Proof.
  intros env w args rest t NC R L H.
  destruct (converts_exists (targs t) args L H) as [vs C].
  destruct (Seg_total NC rest) as (cs & e & S).
  assert (X : exists cs0 e0, Seg (w :: args ++ rest) (mkcall t vs :: cs0) e0).
  { destruct (fails (tdef t) vs) eqn:F.
    - exists [], Failed. now apply SegFail.
    - exists cs, e. now apply SegCall. }
  destruct X as (cs0 & e0 & S0).
  exists vs, cs0, e0. split; [apply dispatch_unique; auto; discriminate|].
  split; [apply (converts_length _ _ _ C)|]. split.
  - apply (converts_nth _ _ _ C).
  - intros k a H1 H2. apply (converts_nth _ _ _ C k TString a H1 H2).
Qed.

(* ------------------------------------------------------------------ letter case of name words *)
Lemma Seg_lower_head : forall w w' ws cs e, lower w = lower w' -> Seg (w :: ws) cs e -> Seg (w' :: ws) cs e.
Proof.
  intros w w' ws cs e E S.
  inversion S as [|w0 args rest t vs cs1 e1 R C F S1|w0 args rest t vs R C F|w0 ws0 U|w0 ws0 t R M|w0 ws0 t ty R A B]; subst.
  - apply SegCall; auto. eapply resolves_lower; eassumption.
  - apply SegFail; auto. eapply resolves_lower; eassumption.
  - apply SegUnknown. intros t R. apply (U t). eapply resolves_lower; [symmetry|]; eassumption.
  - eapply SegMissing; [|eassumption]. eapply resolves_lower; eassumption.
  - eapply SegBadArg; [|eassumption..]. eapply resolves_lower; eassumption.
Qed.

Lemma Seg_name_case : no_collision -> forall ms ms', same_up_to_name_case ms ms' -> well_formed i ms ->
  forall w w' tail, lower w = lower w' ->
  forall cs e, Seg (flatten ms ++ w :: tail) cs e -> Seg (flatten ms' ++ w' :: tail) cs e.
Proof.
  intros NC ms ms' Sm. induction Sm as [|[n a] [n' a'] ms ms' [En Ea] _ IH]; intros WF w w' tail E cs e S.
  - simpl in *. eapply Seg_lower_head; eassumption.
  - simpl in En, Ea. subst a'. inversion WF as [|? ? (t & R & L) WF']; subst. simpl in R, L.
    rewrite flatten_cons in *. simpl in *. rewrite <- app_assoc in *.
    set (Rr := flatten ms ++ w :: tail) in *. set (Rr' := flatten ms' ++ w' :: tail) in *.
    assert (Rn' : resolves n' t) by (eapply resolves_lower; eassumption).
    inversion S as [|w0 args rest t0 vs cs1 e1 R0 C F S1 E0|w0 args rest t0 vs R0 C F E0|w0 ws0 U|w0 ws0 t0 R0 M|w0 ws0 t0 ty R0 A B]; subst;
      try (assert (t0 = t) by (eapply resolves_fun; eassumption); subst t0).
    + destruct (converts_length _ _ _ C) as [Lc _].
      match goal with E0 : _ ++ _ = _ ++ _ |- _ => destruct (app_eq_len _ _ _ _ E0) as [? ?]; [unfold arity in L; congruence|]; subst end.
      apply SegCall; auto. eapply IH; eassumption.
    + destruct (converts_length _ _ _ C) as [Lc _].
      match goal with E0 : _ ++ _ = _ ++ _ |- _ => destruct (app_eq_len _ _ _ _ E0) as [? _]; [unfold arity in L; congruence|]; subst end.
      apply SegFail; auto.
    + exfalso. eapply U; eassumption.
    + exfalso. rewrite app_length in M. lia.
    + eapply SegBadArg; [eassumption|rewrite app_length; lia|].
      eapply first_bad_prefix; [eassumption|exact L].
Qed.

Theorem case_insensitive : forall env ms ms' w w' tail, no_collision ->
  same_up_to_name_case ms ms' -> well_formed i ms -> lower w = lower w' ->
  dispatch env (flatten ms ++ w :: tail) = dispatch env (flatten ms' ++ w' :: tail).
Proof.
  intros env ms ms' w w' tail NC Sm WF E.
  assert (N : flatten ms ++ w :: tail <> []) by (apply flatten_nonempty; right; discriminate).
  assert (N' : flatten ms' ++ w' :: tail <> []) by (apply flatten_nonempty; right; discriminate).
  pose proof (dispatch_is_Seg env _ NC N) as D.
  pose proof (Seg_name_case NC _ _ Sm WF _ _ tail E _ _ D) as D'.
  rewrite (dispatch_unique env _ _ _ NC N' D').
  destruct (dispatch env (flatten ms ++ w :: tail)); reflexivity.
Qed.

(* ------------------------------------------------------------------ no words *)
Theorem default_or_list : forall env,
  dispatch env [] =
    match default i with
    | None => ([], Listed)
    | Some d =>
        if ignore_default conv env then ([], Listed)
        else if (arity d =? 0)%nat then ([mkcall d []], if fails (tdef d) [] then Failed else Done)
        else ([], Exit2 Missing)
    end.
Proof.
  intros env. unfold Dispatch.dispatch, arity. simpl.
  destruct (default i) as [d|]; [|reflexivity].
  destruct (ignore_default conv env); [reflexivity|]. destruct (targs d); reflexivity.
Qed.
End Facts.

(* ------------------------------------------------------------------ mode flags and argv[0] *)
Lemma loop_v_outcome : forall conv fails v i fuel args x,
  fst (loop_v conv fails v i args fuel x) = loop conv fails i args fuel x.
Proof.
  intros conv fails v i. induction fuel as [|fuel IH]; intros args x; simpl.
  - destruct (length args <=? x)%nat; reflexivity.
  - destruct (length args <=? x)%nat; [reflexivity|].
    destruct (target_switch (switch_cases i) _) as [t|]; [|reflexivity].
    destruct (length args <? S (x + length (targs t)))%nat; [reflexivity|].
    destruct (parse_args conv args (targs t) (S x)) as [[b|vs] x']; [reflexivity|].
    destruct (fails (tdef t) vs); [reflexivity|].
    specialize (IH args x'). destruct (loop_v conv fails v i args fuel x') as [[cs e] l].
    simpl in IH. rewrite <- IH. reflexivity.
Qed.

Theorem main_outcome : forall conv fails m i env args,
  fst (main conv fails m i env args) = dispatch conv fails i env args.
Proof.
  intros conv fails m i env args. unfold main, dispatch.
  destruct (length args <? 1)%nat; [reflexivity|]. apply loop_v_outcome.
Qed.

Theorem mode_flags_irrelevant : forall conv fails m m' i env args,
  fst (main conv fails m i env args) = fst (main conv fails m' i env args).
Proof. intros. rewrite !main_outcome. reflexivity. Qed.

Lemma loop_v_quiet : forall conv fails i fuel args x, snd (loop_v conv fails false i args fuel x) = [].
Proof.
  intros conv fails i. induction fuel as [|fuel IH]; intros args x; simpl.
  - destruct (length args <=? x)%nat; reflexivity.
  - destruct (length args <=? x)%nat; [reflexivity|].
    destruct (target_switch (switch_cases i) _) as [t|]; [|reflexivity].
    destruct (length args <? S (x + length (targs t)))%nat; [reflexivity|].
    destruct (parse_args conv args (targs t) (S x)) as [[b|vs] x']; [reflexivity|].
    destruct (fails (tdef t) vs); [reflexivity|].
    specialize (IH args x'). destruct (loop_v conv fails false i args fuel x') as [[cs e] l].
    simpl in *. assumption.
Qed.

Theorem quiet_without_verbose : forall conv fails m i env args, m_verbose m = false ->
  snd (main conv fails m i env args) = [].
Proof.
  intros conv fails m i env args H. unfold main. destruct (length args <? 1)%nat; [reflexivity|].
  rewrite H. apply loop_v_quiet.
Qed.

(* ------------------------------------------------------------------ the order of the switch cases *)
Section Order.
Variable conv : argty -> string -> option string.
Variable fails : nat -> list value -> bool.
Variables i i' : info.
Hypothesis same_targets : forall t, In t (targets i) <-> In t (targets i').
Hypothesis same_aliases : forall p, In p (aliases i) <-> In p (aliases i').

Lemma resolves_equiv : forall w t, resolves i w t -> resolves i' w t.
Proof.
  intros w t [H1 H2]. split; [now apply same_targets|].
  destruct H2 as [H2|(a & tn & Ia & Ea & Et)]; [left; assumption|].
  right. exists a, tn. split; [now apply same_aliases|auto].
Qed.
End Order.

Lemma Seg_equiv : forall conv fails i i',
  (forall t, In t (targets i) <-> In t (targets i')) -> (forall p, In p (aliases i) <-> In p (aliases i')) ->
  forall ws cs e, Seg conv fails i ws cs e -> Seg conv fails i' ws cs e.
Proof.
  intros conv fails i i' HT HA ws cs e S.
  assert (R : forall w t, resolves i w t -> resolves i' w t) by (apply resolves_equiv; assumption).
  assert (R' : forall w t, resolves i' w t -> resolves i w t).
  { apply resolves_equiv; intros; symmetry; auto. }
  induction S.
  - constructor.
  - apply SegCall; auto.
  - apply SegFail; auto.
  - apply SegUnknown. intros t Ht. apply (H t). auto.
  - eapply SegMissing; eauto.
  - eapply SegBadArg; eauto.
Qed.

Theorem case_order_irrelevant : forall conv fails i i' env ws,
  no_collision i -> no_collision i' ->
  (forall t, In t (targets i) <-> In t (targets i')) -> (forall p, In p (aliases i) <-> In p (aliases i')) ->
  default i = default i' ->
  dispatch conv fails i env ws = dispatch conv fails i' env ws.
Proof.
  intros conv fails i i' env ws NC NC' HT HA HD.
  destruct ws as [|w ws].
  - rewrite !default_or_list. rewrite HD. reflexivity.
  - assert (N : w :: ws <> []) by discriminate.
    pose proof (dispatch_is_Seg conv fails i env _ NC N) as D.
    apply (Seg_equiv _ _ _ _ HT HA) in D.
    rewrite (dispatch_unique conv fails i' env _ _ _ NC' N D).
    destruct (dispatch conv fails i env (w :: ws)); reflexivity.
Qed.

(* ------------------------------------------------------------------ a concrete instance *)
Definition ex_info : info := {|
  funcs := [ {| tname := "Build"; targs := [TString; TInt]; tdef := 1 |};
             {| tname := "NS:Deploy"; targs := [TBool]; tdef := 2 |} ];
  imports := [ [ {| tname := "al:HTMLParser"; targs := []; tdef := 3 |};
                 {| tname := "al:Q:Run"; targs := [TDur]; tdef := 4 |} ] ];
  aliases := [ ("bd", "Build") ];
  default := Some {| tname := "al:HTMLParser"; targs := []; tdef := 3 |} |}.

Definition ex_conv (ty : argty) (w : string) : option string :=
  match ty with
  | TInt => if String.eqb w "5" then Some "5" else if String.eqb w "+5" then Some "5" else None
  | TBool => if String.eqb w "T" then Some "true" else if String.eqb w "1" then Some "true" else None
  | TDur => if String.eqb w "1h2m" then Some "1h2m0s" else None
  | TString => None
  end.
Definition ex_fails (d : nat) (vs : list value) : bool := Nat.eqb d 4.
Definition ex_call (d : nat) (vs : list value) : callrec := {| cdef := d; cvals := vs |}.

Lemma nonvacuous_c04 :
  no_collision ex_info /\
  Forall2 (good ex_conv ex_fails ex_info)
    [("BUILD", ["-v"; "+5"]); ("bd", ["ns:deploy"; "5"]); ("AL:htmlparser", [])]
    [ex_call 1 [VStr "-v"; VConv TInt "5"]; ex_call 1 [VStr "ns:deploy"; VConv TInt "5"]; ex_call 3 []] /\
  stops ex_conv ex_info "Build" ["x"; "1x"; "ns:deploy"; "T"] (BadArg TInt) /\
  Dispatch.dispatch ex_conv ex_fails ex_info "" ["BUILD"; "-v"; "+5"; "ns:deploy"; "T"; "AL:htmlparser"; "BD"; "build"; "5"] =
    ([ex_call 1 [VStr "-v"; VConv TInt "5"]; ex_call 2 [VConv TBool "true"]; ex_call 3 []; ex_call 1 [VStr "build"; VConv TInt "5"]], Done) /\
  Dispatch.dispatch ex_conv ex_fails ex_info "" ["ns:deploy"; "1"; "build"; "x"; "1x"; "ns:deploy"; "T"] =
    ([ex_call 2 [VConv TBool "true"]], Exit2 (BadArg TInt)) /\
  Dispatch.dispatch ex_conv ex_fails ex_info "" ["NS:DEPLOY"; "1"; "al:q:run"; "1h2m"; "build"; "a"; "5"] =
    ([ex_call 2 [VConv TBool "true"]; ex_call 4 [VConv TDur "1h2m0s"]], Failed) /\
  Dispatch.dispatch ex_conv ex_fails ex_info "" ["bd"; "x"] = ([], Exit2 Missing) /\
  Dispatch.dispatch ex_conv ex_fails ex_info "" ["ns:deploy"; "1"; "deploy"] = ([ex_call 2 [VConv TBool "true"]], Exit2 Unknown) /\
  Dispatch.dispatch ex_conv ex_fails ex_info "" [] = ([ex_call 3 []], Done) /\
  Dispatch.dispatch ex_conv ex_fails ex_info "1" [] = ([], Listed).
Proof.
  assert (R1 : forall w, lower w = "build" -> resolves ex_info w {| tname := "Build"; targs := [TString; TInt]; tdef := 1 |}).
  { intros w E. split; [simpl; auto|]. left. rewrite E. reflexivity. }
  split.
  { unfold no_collision. vm_compute. repeat (constructor; [simpl; intuition discriminate|]). constructor. }
  split.
  { constructor; [|constructor; [|constructor; [|constructor]]].
    - apply (good_intro ex_conv ex_fails ex_info "BUILD" _ {| tname := "Build"; targs := [TString; TInt]; tdef := 1 |});
        [apply R1; reflexivity|repeat constructor|reflexivity].
    - apply (good_intro ex_conv ex_fails ex_info "bd" _ {| tname := "Build"; targs := [TString; TInt]; tdef := 1 |});
        [|repeat constructor|reflexivity].
      split; [simpl; auto|]. right. exists "bd", "Build". simpl. auto.
    - apply (good_intro ex_conv ex_fails ex_info "AL:htmlparser" [] {| tname := "al:HTMLParser"; targs := []; tdef := 3 |});
        [|constructor|reflexivity].
      split; [simpl; auto|]. left. reflexivity. }
  split.
  { apply (stop_badarg ex_conv ex_info "Build" _ {| tname := "Build"; targs := [TString; TInt]; tdef := 1 |});
      [apply R1; reflexivity|unfold arity; simpl; lia|].
    eapply fb_later; [reflexivity|]. apply fb_here. reflexivity. }
  repeat split; vm_compute; reflexivity.
Qed.
