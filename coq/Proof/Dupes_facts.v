(* Facts about Model/Dupes.v (C07). *)
From Mage Require Import Base.Strs Model.Dupes.
From Coq Require Import Permutation.

(* ================================================================ strings *)
Lemma lower_app : forall a b, lower (a ++ b)%string = (lower a ++ lower b)%string.
Proof. induction a; simpl; intros; [reflexivity | now rewrite IHa]. Qed.

Lemma sapp_assoc : forall a b c : string, ((a ++ b) ++ c = a ++ (b ++ c))%string.
Proof. induction a; simpl; intros; [reflexivity | now rewrite IHa]. Qed.

Lemma is_empty_true : forall s, is_empty s = true <-> s = "".
Proof. intros; unfold is_empty; apply String.eqb_eq. Qed.

Lemma is_empty_false : forall s, is_empty s = false <-> s <> "".
Proof. intros; unfold is_empty; apply String.eqb_neq. Qed.

Lemma is_empty_lower : forall s, is_empty (lower s) = is_empty s.
Proof. destruct s; reflexivity. Qed.

Lemma eqb_refl' : forall s, String.eqb s s = true.
Proof. intros; apply String.eqb_refl. Qed.

(* ================================================================ counting in string lists *)
Definition count (k : string) (l : list string) : nat := length (filter (String.eqb k) l).

Lemma count_app : forall k a b, count k (a ++ b) = count k a + count k b.
Proof. intros; unfold count; now rewrite filter_app, app_length. Qed.

Lemma count_map {A} (g : A -> string) k l :
  count k (map g l) = length (filter (fun x => String.eqb k (g x)) l).
Proof.
  unfold count; induction l as [|x l IH]; simpl; [reflexivity|].
  destruct (String.eqb k (g x)); simpl; now rewrite IH.
Qed.

Lemma count_pos : forall k l, In k l <-> 1 <= count k l.
Proof.
  unfold count; induction l as [|x l IH]; simpl.
  - split; [tauto | lia].
  - destruct (String.eqb_spec k x) as [->|N]; simpl.
    + split; [lia | auto].
    + rewrite <- IH. split; [intros [E|H]; [congruence|auto] | auto].
Qed.

Lemma count_zero : forall k l, ~ In k l <-> count k l = 0.
Proof. intros; rewrite count_pos; lia. Qed.

Lemma NoDup_count : forall l, NoDup l <-> forall k, count k l <= 1.
Proof.
  induction l as [|x l IH].
  - split; [intros _ k; unfold count; simpl; lia | constructor].
  - split.
    + intros H k; inversion H as [|? ? Hn Hd]; subst.
      change (x :: l) with ([x] ++ l); rewrite count_app.
      destruct (String.eqb_spec k x) as [->|N].
      * apply count_zero in Hn. rewrite Hn. unfold count; simpl; rewrite eqb_refl'; simpl; lia.
      * pose proof (proj1 IH Hd k). unfold count at 1; simpl.
        destruct (String.eqb_spec k x); [congruence|]. simpl; lia.
    + intros H. constructor.
      * intro Hin. apply count_pos in Hin. specialize (H x).
        change (x :: l) with ([x] ++ l) in H; rewrite count_app in H.
        unfold count at 1 in H; simpl in H; rewrite eqb_refl' in H; simpl in H. lia.
      * apply IH. intro k. specialize (H k).
        change (x :: l) with ([x] ++ l) in H; rewrite count_app in H. lia.
Qed.

(* a boolean duplicate test, left to right with the set of seen elements *)
Fixpoint seen_dup (s : list string) (l : list string) : bool :=
  match l with
  | [] => false
  | x :: r => set_mem x s || seen_dup (x :: s) r
  end.

Lemma set_mem_In : forall k s, set_mem k s = true <-> In k s.
Proof.
  unfold set_mem; intros; rewrite existsb_exists; split.
  - intros [x [H E]]. apply String.eqb_eq in E; now subst.
  - intros H; exists k; split; [auto | apply eqb_refl'].
Qed.

Lemma seen_dup_false : forall l s, seen_dup s l = false <-> NoDup l /\ forall x, In x l -> ~ In x s.
Proof.
  induction l as [|x l IH]; intros s; simpl.
  - split; [intros _; split; [constructor | tauto] | auto].
  - rewrite orb_false_iff, IH. split.
    + intros [Hm [Hd Hs]]. split.
      * constructor; [|auto]. intro Hin. apply (Hs x Hin). now left.
      * intros y [->|Hy].
        -- intro Hin. apply set_mem_In in Hin. congruence.
        -- intro Hin. apply (Hs y Hy). now right.
    + intros [Hd Hs]. inversion Hd as [|? ? Hn Hd']; subst. split; [|split; auto].
      * destruct (set_mem x s) eqn:E; [|reflexivity]. apply set_mem_In in E. exfalso; apply (Hs x); auto; now left.
      * intros y Hy [->|Hin]; [auto | apply (Hs y); auto; now right].
Qed.

Lemma seen_dup_true_count : forall l s, seen_dup s l = true ->
  exists k, 2 <= count k (rev s ++ l).
Proof.
  induction l as [|x l IH]; intros s; simpl; [discriminate|].
  intro H. apply orb_true_iff in H. destruct H as [H|H].
  - apply set_mem_In in H. exists x. rewrite count_app.
    assert (1 <= count x (rev s)) by (apply count_pos; now apply in_rev in H).
    assert (1 <= count x (x :: l)) by (apply count_pos; now left). lia.
  - destruct (IH _ H) as [k Hk]. exists k. simpl in Hk. now rewrite <- app_assoc in Hk.
Qed.

(* ================================================================ NoDup helpers *)
Lemma NoDup_app_iff {A} (a b : list A) :
  NoDup (a ++ b) <-> NoDup a /\ NoDup b /\ (forall x, In x a -> ~ In x b).
Proof.
  induction a as [|x a IH]; simpl.
  - split; [intros H; repeat split; [constructor | auto | tauto] | tauto].
  - split.
    + intros H; inversion H as [|? ? Hn Hd]; subst. apply IH in Hd. destruct Hd as [Ha [Hb Hx]].
      split; [constructor; auto; intro; apply Hn, in_or_app; auto|].
      split; [auto|]. intros y [->|Hy]; [intro; apply Hn, in_or_app; auto | auto].
    + intros [Ha [Hb Hx]]. inversion Ha as [|? ? Hn Hd]; subst. constructor.
      * intro Hin. apply in_app_or in Hin. destruct Hin; [auto | apply (Hx x); auto].
      * apply IH; repeat split; auto.
Qed.

Lemma NoDup_map_inj_in {A B} (g : A -> B) l x y :
  NoDup (map g l) -> In x l -> In y l -> g x = g y -> x = y.
Proof.
  induction l as [|z l IH]; simpl; [tauto|].
  intros H Hx Hy E. inversion H as [|? ? Hn Hd]; subst.
  destruct Hx as [->|Hx], Hy as [->|Hy]; auto.
  - exfalso; apply Hn. rewrite E. now apply in_map.
  - exfalso; apply Hn. rewrite <- E. now apply in_map.
Qed.

(* if h identifies at most what g identifies, NoDup moves from g to h *)
Lemma NoDup_map_weaken {A B C} (g : A -> B) (h : A -> C) l :
  (forall x y, In x l -> In y l -> h x = h y -> g x = g y) -> NoDup (map g l) -> NoDup (map h l).
Proof.
  induction l as [|z l IH]; simpl; intros Hgh H; [constructor|].
  inversion H as [|? ? Hn Hd]; subst. constructor.
  - intro Hin. apply in_map_iff in Hin. destruct Hin as [y [E Hy]].
    apply Hn. rewrite <- (Hgh y z); auto. now apply in_map.
  - apply IH; auto.
Qed.

Lemma NoDup_map_flat_member {A B} (g : B -> string) (f : A -> list B) l i :
  In i l -> NoDup (map g (flat_map f l)) -> NoDup (map g (f i)).
Proof.
  induction l as [|x l IH]; simpl; [tauto|].
  intros Hin H. rewrite map_app in H. apply NoDup_app_iff in H. destruct H as [H1 [H2 _]].
  destruct Hin as [->|Hin]; auto.
Qed.

(* ================================================================ Go maps with slice values *)
Section MM.
Context {V : Type}.
Implicit Types m : list (string * list V).

Lemma mm_get_add_same : forall m k (v : V), mm_get k (mm_add k v m) = mm_get k m ++ [v].
Proof.
  induction m as [|[k' l] m IH]; intros; simpl.
  - now rewrite eqb_refl'.
  - destruct (String.eqb_spec k k'); simpl.
    + subst. now rewrite eqb_refl'.
    + destruct (String.eqb_spec k k'); [congruence | apply IH].
Qed.

Lemma mm_get_add_other : forall m k k' (v : V), k <> k' -> mm_get k (mm_add k' v m) = mm_get k m.
Proof.
  induction m as [|[k0 l] m IH]; intros k k' v N; simpl.
  - destruct (String.eqb_spec k k'); [congruence | reflexivity].
  - destruct (String.eqb_spec k' k0); simpl.
    + subst. destruct (String.eqb_spec k k0); [congruence | reflexivity].
    + destruct (String.eqb_spec k k0); [reflexivity | now apply IH].
Qed.

Lemma mm_keys_add : forall m k k' (v : V), In k (map fst (mm_add k' v m)) <-> k = k' \/ In k (map fst m).
Proof.
  induction m as [|[k0 l] m IH]; intros; simpl.
  - split; [intros [E|[]]; auto | intros [E|[]]; auto].
  - destruct (String.eqb_spec k' k0); simpl.
    + subst. split; [intros [E|H]; auto | intros [E|[E|H]]; auto].
    + rewrite IH. tauto.
Qed.

Lemma mm_keys_nodup_add : forall m k (v : V), NoDup (map fst m) -> NoDup (map fst (mm_add k v m)).
Proof.
  induction m as [|[k0 l] m IH]; intros k v H; simpl.
  - constructor; [simpl; tauto | constructor].
  - inversion H as [|? ? Hn Hd]; subst. destruct (String.eqb_spec k k0); simpl.
    + subst. constructor; auto.
    + constructor; [|auto]. rewrite mm_keys_add. intros [E|Hin]; [congruence | auto].
Qed.

Lemma mm_get_in : forall m k, mm_get k m <> [] -> In (k, mm_get k m) m.
Proof.
  induction m as [|[k0 l] m IH]; intros k H; simpl in *; [congruence|].
  destruct (String.eqb_spec k k0); [subst; now left | right; auto].
Qed.

Lemma mm_in_get : forall m k l, NoDup (map fst m) -> In (k, l) m -> mm_get k m = l.
Proof.
  induction m as [|[k0 l0] m IH]; intros k l H Hin; simpl in *; [tauto|].
  inversion H as [|? ? Hn Hd]; subst. destruct Hin as [E|Hin].
  - inversion E; subst. now rewrite eqb_refl'.
  - destruct (String.eqb_spec k k0); [|auto]. subst. exfalso; apply Hn.
    change k0 with (fst (k0, l)). now apply in_map.
Qed.

(* folding inserts: the slice of a key is extended by the matching elements in order *)
Lemma mm_get_fold {A} (key : A -> string) (val : A -> V) : forall l m k,
  mm_get k (fold_left (fun m x => mm_add (key x) (val x) m) l m) =
  mm_get k m ++ map val (filter (fun x => String.eqb k (key x)) l).
Proof.
  induction l as [|x l IH]; intros; simpl; [now rewrite app_nil_r|].
  rewrite IH. destruct (String.eqb_spec k (key x)).
  - subst. rewrite mm_get_add_same. simpl. now rewrite <- app_assoc.
  - now rewrite mm_get_add_other.
Qed.

Lemma mm_keys_nodup_fold {A} (key : A -> string) (val : A -> V) : forall l m,
  NoDup (map fst m) -> NoDup (map fst (fold_left (fun m x => mm_add (key x) (val x) m) l m)).
Proof. induction l; intros; simpl; auto using mm_keys_nodup_add. Qed.

(* the filter "slices longer than one" *)
Lemma mm_long_nil : forall m, NoDup (map fst m) ->
  (filter (fun kl => Nat.ltb 1 (length (snd kl))) m = [] <-> forall k, length (mm_get k m) <= 1).
Proof.
  intros m Hnd. split.
  - intros H k. destruct (mm_get k m) eqn:E; [simpl; lia|].
    assert (Hin : In (k, mm_get k m) m) by (apply mm_get_in; congruence).
    destruct (Nat.ltb 1 (length (mm_get k m))) eqn:L.
    + assert (In (k, mm_get k m) (filter (fun kl => Nat.ltb 1 (length (snd kl))) m))
        by (apply filter_In; split; auto).
      rewrite H in H0. destruct H0.
    + apply Nat.ltb_ge in L. now rewrite <- E.
  - intros H. destruct (filter _ m) as [|[k l] r] eqn:E; [reflexivity|].
    assert (Hin : In (k, l) (filter (fun kl => Nat.ltb 1 (length (snd kl))) m)) by (rewrite E; now left).
    apply filter_In in Hin. destruct Hin as [Hin L]. simpl in L. apply Nat.ltb_lt in L.
    rewrite <- (mm_in_get m k l Hnd Hin) in L. specialize (H k). lia.
Qed.
End MM.

(* ================================================================ TargetName and the in-package key *)
Definition pre (s : string) : string := if is_empty s then "" else (s ++ ":")%string.

Lemma target_name_unfold : forall f, f_name f <> "" ->
  target_name f = (pre (f_alias f) ++ pre (f_recv f) ++ f_name f)%string.
Proof.
  intros [a p r n] H; unfold target_name, pre; simpl in *.
  apply is_empty_false in H. rewrite H.
  destruct (is_empty a) eqn:Ea, (is_empty r) eqn:Er; simpl; try reflexivity.
  all: rewrite ?sapp_assoc; simpl; try reflexivity.
Qed.

Lemma lower_pre : forall s, lower (pre s) = pre (lower s).
Proof.
  intros; unfold pre. rewrite is_empty_lower. destruct (is_empty s); [reflexivity|].
  now rewrite lower_app.
Qed.

(* lower(TargetName) = lower(alias): ++ the key checkDupeTargets uses *)
Lemma lower_target_name : forall f, f_name f <> "" ->
  lower (target_name f) = (pre (lower (f_alias f)) ++ low_of f)%string.
Proof.
  intros f H. rewrite target_name_unfold by auto. rewrite !lower_app, !lower_pre.
  f_equal. unfold low_of, pre. rewrite is_empty_lower. destruct (is_empty (f_recv f)); [reflexivity|].
  now rewrite <- sapp_assoc.
Qed.

Notation K := (fun f => lower (target_name f)).
Notation LK := (fun kf : string * func => lower (fst kf)).

(* ================================================================ checkDupeTargets / Package *)
Lemma cdt_fold : forall fs has lowers names,
  fold_left cdt_step fs (has, lowers, names) =
  (has || seen_dup lowers (map low_of fs),
   rev (map low_of fs) ++ lowers,
   fold_left (fun m f => mm_add (low_of f) (f_name f) m) fs names).
Proof.
  induction fs as [|f fs IH]; intros; simpl.
  - now rewrite orb_false_r.
  - rewrite IH. simpl.
    replace ((if set_mem (low_of f) lowers then true else has) || seen_dup (low_of f :: lowers) (map low_of fs))
      with (has || (set_mem (low_of f) lowers || seen_dup (low_of f :: lowers) (map low_of fs))).
    + now rewrite <- app_assoc.
    + destruct (set_mem (low_of f) lowers), has; reflexivity.
Qed.

Lemma check_dupe_targets_eq : forall fs,
  check_dupe_targets fs =
  (seen_dup [] (map low_of fs), fold_left (fun m f => mm_add (low_of f) (f_name f) m) fs []).
Proof. intros; unfold check_dupe_targets; now rewrite cdt_fold. Qed.

Lemma package_check_none : forall fs, package_check fs = None <-> NoDup (map low_of fs).
Proof.
  intros; unfold package_check; rewrite check_dupe_targets_eq.
  destruct (seen_dup [] (map low_of fs)) eqn:E.
  - split; [discriminate|]. intro H. assert (seen_dup [] (map low_of fs) = false) by (apply seen_dup_false; split; auto).
    congruence.
  - split; [|auto]. intros _. now apply seen_dup_false in E.
Qed.

Lemma package_check_some : forall fs e, package_check fs = Some e ->
  exists gs, e = ECase gs /\ gs <> [] /\
    forall g, In g gs -> exists k, g = map f_name (filter (fun f => String.eqb k (low_of f)) fs) /\ 2 <= length g.
Proof.
  intros fs e; unfold package_check; rewrite check_dupe_targets_eq.
  destruct (seen_dup [] (map low_of fs)) eqn:E; [|discriminate].
  intro H; inversion H; subst; clear H. eexists; split; [reflexivity|].
  set (names := fold_left (fun m f => mm_add (low_of f) (f_name f) m) fs []).
  assert (Hget : forall k, mm_get k names = map f_name (filter (fun f => String.eqb k (low_of f)) fs))
    by (intro k; unfold names; now rewrite mm_get_fold).
  assert (Hnd : NoDup (map fst names)) by (apply mm_keys_nodup_fold; constructor).
  split.
  - destruct (seen_dup_true_count _ _ E) as [k Hk]. simpl in Hk. rewrite count_map in Hk.
    assert (Hl : 2 <= length (mm_get k names)) by (rewrite Hget, map_length; auto).
    assert (Hin : In (k, mm_get k names) names) by (apply mm_get_in; intro Z; rewrite Z in Hl; simpl in Hl; lia).
    intro Z. assert (In (mm_get k names) (map snd (filter (fun kv => Nat.ltb 1 (length (snd kv))) names))).
    { apply in_map_iff. exists (k, mm_get k names). split; [reflexivity|]. apply filter_In. split; auto.
      simpl. apply Nat.ltb_lt. lia. }
    rewrite Z in H. destruct H.
  - intros g Hg. apply in_map_iff in Hg. destruct Hg as [[k l] [<- Hin]]. apply filter_In in Hin.
    destruct Hin as [Hin L]. simpl in *. apply Nat.ltb_lt in L. exists k.
    rewrite <- Hget, (mm_in_get names k l Hnd Hin). split; [reflexivity | lia].
Qed.

Lemma first_err_none {A} (f : A -> option err) l :
  first_err f l = None <-> forall x, In x l -> f x = None.
Proof.
  induction l as [|x l IH]; simpl; [split; [tauto | auto]|].
  destruct (f x) eqn:E.
  - split; [discriminate|]. intro H. specialize (H x (or_introl eq_refl)). congruence.
  - rewrite IH. split; [intros H y [->|Hy]; auto | auto].
Qed.

Lemma first_err_some {A} (f : A -> option err) l e :
  first_err f l = Some e -> exists x, In x l /\ f x = Some e.
Proof.
  induction l as [|x l IH]; simpl; [discriminate|].
  destruct (f x) eqn:E.
  - intro H; inversion H; subst. exists x; auto.
  - intro H. destruct (IH H) as [y [Hy Hf]]. exists y; auto.
Qed.

(* ================================================================ checkDupes *)
Lemma cd_build_nested : forall imps m,
  fold_left (fun m imp => cd_build (import_funcs imp) m) imps m = cd_build (flat_map import_funcs imps) m.
Proof.
  induction imps as [|i imps IH]; intros; simpl; [reflexivity|].
  rewrite IH. unfold cd_build. now rewrite fold_left_app.
Qed.

Lemma cd_build_get : forall fs m k,
  mm_get k (cd_build fs m) = mm_get k m ++ filter (fun f => String.eqb k (K f)) fs.
Proof.
  intros. unfold cd_build.
  rewrite (mm_get_fold (fun f => lower (target_name f)) (fun f => f) fs m k). now rewrite map_id.
Qed.

Lemma cd_build_nodup : forall fs m, NoDup (map fst m) -> NoDup (map fst (cd_build fs m)).
Proof.
  intros. unfold cd_build.
  apply (mm_keys_nodup_fold (fun f => lower (target_name f)) (fun f => f)); auto.
Qed.

(* the alias loop succeeds exactly when the lower-cased keys are new and pairwise different *)
Lemma cd_aliases_inr : forall al m m', cd_aliases true al m = inr m' ->
  NoDup (map LK al) /\ (forall kf, In kf al -> mm_get (LK kf) m = []) /\
  (forall k, mm_get k m' = mm_get k m ++ map snd (filter (fun kf => String.eqb k (LK kf)) al)) /\
  (NoDup (map fst m) -> NoDup (map fst m')).
Proof.
  induction al as [|[name f] al IH]; intros m m' H; simpl in H.
  - inversion H; subst. repeat split; [constructor | simpl; tauto | intro; simpl; now rewrite app_nil_r | auto].
  - destruct (mm_get (lower name) m) eqn:E; [|discriminate].
    destruct (IH _ _ H) as [Hnd [Hnew [Hget Hk]]].
    assert (Hne : forall kf, In kf al -> LK kf <> lower name).
    { intros kf Hin Z. specialize (Hnew kf Hin). rewrite Z, mm_get_add_same, E in Hnew. discriminate. }
    repeat split.
    + simpl. constructor; [|auto]. intro Hin. apply in_map_iff in Hin. destruct Hin as [kf [Z Hin]].
      now apply (Hne kf Hin).
    + intros kf [<-|Hin]; [exact E|]. specialize (Hnew kf Hin).
      rewrite mm_get_add_other in Hnew; auto.
    + intro k. rewrite Hget. simpl. destruct (String.eqb_spec k (lower name)).
      * subst. rewrite mm_get_add_same. simpl. now rewrite <- app_assoc.
      * now rewrite mm_get_add_other.
    + intro Hm. apply Hk. now apply mm_keys_nodup_add.
Qed.

Lemma cd_aliases_complete : forall al m,
  NoDup (map LK al) -> (forall kf, In kf al -> mm_get (LK kf) m = []) ->
  exists m', cd_aliases true al m = inr m'.
Proof.
  induction al as [|[name f] al IH]; intros m Hnd Hnew; simpl.
  - eauto.
  - pose proof (Hnew (name, f) (or_introl eq_refl)) as Z0. simpl in Z0. rewrite Z0. simpl in Hnd. inversion Hnd as [|? ? Hn Hd]; subst.
    apply IH; auto. intros kf Hin. rewrite mm_get_add_other; [apply Hnew; now right|].
    simpl. intro Z. apply Hn. rewrite <- Z. now apply (in_map LK).
Qed.

Lemma cd_aliases_inl : forall al m e, cd_aliases true al m = inl e ->
  exists before name f after ids, al = before ++ (name, f) :: after /\ e = EAlias (lower name) ids /\ ids <> [] /\
    ids = mm_get (lower name) m ++ map snd (filter (fun kf => String.eqb (lower name) (LK kf)) before).
Proof.
  induction al as [|[name f] al IH]; intros m e H; simpl in H; [discriminate|].
  destruct (mm_get (lower name) m) eqn:E.
  - destruct (IH _ _ H) as [before [n' [f' [after [ids [Hal [He [Hne Hids]]]]]]]].
    exists ((name, f) :: before), n', f', after, ids. repeat split; auto.
    + simpl; now rewrite Hal.
    + rewrite Hids. simpl. destruct (String.eqb_spec (lower n') (lower name)).
      * rewrite e0, mm_get_add_same, E. reflexivity.
      * now rewrite mm_get_add_other.
  - inversion H; subst. exists [], name, f, al, (f0 :: l). repeat split; [congruence|]. simpl. now rewrite app_nil_r.
Qed.

Definition cd_names (fs : list func) (al : list (string * func)) : list string := map K fs ++ map LK al.

Lemma check_dupes_none : forall L imps al,
  check_dupes true L imps al = None <-> NoDup (cd_names (L ++ flat_map import_funcs imps) al).
Proof.
  intros L imps al. unfold check_dupes. rewrite cd_build_nested.
  set (F := L ++ flat_map import_funcs imps).
  set (m1 := cd_build (flat_map import_funcs imps) (cd_build L [])).
  assert (Hm1 : forall k, mm_get k m1 = filter (fun f => String.eqb k (K f)) F).
  { intro k. unfold m1, F. now rewrite !cd_build_get, filter_app. }
  assert (Hnd1 : NoDup (map fst m1)) by (unfold m1; apply cd_build_nodup, cd_build_nodup; constructor).
  assert (HcF : forall k, count k (map K F) = length (mm_get k m1)) by (intro k; now rewrite Hm1, count_map).
  unfold cd_names. rewrite NoDup_count. split.
  - destruct (cd_aliases true al m1) as [e|m2] eqn:E; [discriminate|].
    destruct (cd_aliases_inr _ _ _ E) as [Hnd [Hnew [Hget Hk]]].
    destruct (cd_dupes m2) eqn:D; [|discriminate]. intros _ k.
    unfold cd_dupes in D. rewrite (mm_long_nil m2 (Hk Hnd1)) in D. specialize (D k).
    rewrite Hget, app_length, map_length in D. rewrite count_app, HcF, count_map. exact D.
  - intro H.
    assert (HA : NoDup (map LK al)).
    { apply NoDup_count. intro k. specialize (H k). rewrite count_app in H. lia. }
    assert (Hnew : forall kf, In kf al -> mm_get (LK kf) m1 = []).
    { intros kf Hin. specialize (H (LK kf)). rewrite count_app, HcF in H.
      assert (1 <= count (LK kf) (map LK al)) by (apply count_pos; now apply (in_map LK)).
      destruct (mm_get (LK kf) m1); [reflexivity | simpl in H; lia]. }
    destruct (cd_aliases_complete al m1 HA Hnew) as [m2 E]. rewrite E.
    destruct (cd_aliases_inr _ _ _ E) as [_ [_ [Hget Hk]]].
    assert (D : cd_dupes m2 = []).
    { unfold cd_dupes. apply (mm_long_nil m2 (Hk Hnd1)). intro k. specialize (H k).
      rewrite Hget, app_length, map_length. rewrite count_app, HcF, count_map in H. exact H. }
    now rewrite D.
Qed.

Lemma check_dupes_some : forall L imps al e, check_dupes true L imps al = Some e ->
  let F := L ++ flat_map import_funcs imps in
  (exists before name f after ids, al = before ++ (name, f) :: after /\ e = EAlias (lower name) ids /\ ids <> [] /\
      forall g, In g ids -> (In g F /\ K g = lower name) \/ (exists n', In (n', g) before /\ lower n' = lower name)) \/
  (exists gs, e = EMulti gs /\ gs <> [] /\
      forall k ids, In (k, ids) gs -> 2 <= length ids /\ forall g, In g ids -> In g F /\ K g = k).
Proof.
  intros L imps al e H. cbv zeta. set (F := L ++ flat_map import_funcs imps).
  unfold check_dupes in H. rewrite cd_build_nested in H.
  set (m1 := cd_build (flat_map import_funcs imps) (cd_build L [])) in *.
  assert (Hm1 : forall k, mm_get k m1 = filter (fun f => String.eqb k (K f)) F).
  { intro k. unfold m1, F. now rewrite !cd_build_get, filter_app. }
  assert (Hnd1 : NoDup (map fst m1)) by (unfold m1; apply cd_build_nodup, cd_build_nodup; constructor).
  destruct (cd_aliases true al m1) as [e'|m2] eqn:E.
  - left. inversion H; subst. destruct (cd_aliases_inl _ _ _ E) as [before [name [f [after [ids [Hal [He [Hne Hids]]]]]]]].
    exists before, name, f, after, ids. repeat split; auto. intros g Hg. rewrite Hids in Hg. apply in_app_or in Hg.
    destruct Hg as [Hg|Hg].
    + left. rewrite Hm1 in Hg. apply filter_In in Hg. destruct Hg as [Hg Z]. apply String.eqb_eq in Z. auto.
    + right. apply in_map_iff in Hg. destruct Hg as [[n' g'] [<- Hg]]. apply filter_In in Hg. destruct Hg as [Hg Z].
      apply String.eqb_eq in Z. simpl in *. eauto.
  - right. destruct (cd_aliases_inr _ _ _ E) as [Hnd [Hnew [Hget Hk]]].
    destruct (cd_dupes m2) as [|x r] eqn:D; [discriminate|]. inversion H; subst. eexists; split; [reflexivity|].
    split; [congruence|]. intros k ids Hin. rewrite <- D in Hin. unfold cd_dupes in Hin. apply filter_In in Hin.
    destruct Hin as [Hin L2]. simpl in L2. apply Nat.ltb_lt in L2.
    pose proof (mm_in_get m2 k ids (Hk Hnd1) Hin) as G. rewrite Hget in G.
    (* an alias key holds exactly its own entry: a long slice has no alias part *)
    destruct (filter (fun kf => String.eqb k (LK kf)) al) as [|kf r'] eqn:FA.
    + simpl in G. rewrite app_nil_r in G. subst ids. split; [lia|]. intros g Hg. rewrite Hm1 in Hg.
      apply filter_In in Hg. destruct Hg as [Hg Z]. apply String.eqb_eq in Z. auto.
    + exfalso.
      assert (Hkf : In kf (filter (fun kf => String.eqb k (LK kf)) al)) by (rewrite FA; now left).
      apply filter_In in Hkf. destruct Hkf as [Hkf Z]. apply String.eqb_eq in Z.
      pose proof (Hnew kf Hkf) as Z1. simpl in Z, Z1. rewrite <- Z in Z1. rewrite Z1 in G. simpl in G.
      assert (C : count k (map LK al) <= 1) by (apply NoDup_count; auto).
      rewrite count_map, FA in C. simpl in C. destruct r'; [|simpl in C; lia].
      subst ids. simpl in L2. lia.
Qed.

(* ================================================================ permutations: import order, alias map *)
Lemma insert_by_perm {A} (ltb : A -> A -> bool) x l : Permutation (insert_by ltb x l) (x :: l).
Proof.
  induction l as [|y l IH]; simpl; [auto|].
  destruct (ltb y x); [|auto]. rewrite IH. apply perm_swap.
Qed.

Lemma isort_perm {A} (ltb : A -> A -> bool) l : Permutation (isort ltb l) l.
Proof.
  induction l as [|x l IH]; simpl; [auto|]. unfold isort in *; simpl.
  rewrite insert_by_perm. now constructor.
Qed.

Lemma filter_partition_perm {A} (p : A -> bool) l :
  Permutation (filter p l ++ filter (fun x => negb (p x)) l) l.
Proof.
  induction l as [|x l IH]; simpl; [auto|].
  destruct (p x); simpl; [now constructor|].
  rewrite <- Permutation_middle. now constructor.
Qed.

Lemma ordered_imports_perm : forall pk, Permutation (ordered_imports pk) (effective_imports pk).
Proof.
  intros. unfold ordered_imports, effective_imports. apply Permutation_app_tail, isort_perm.
Qed.

Lemma dedup_imports_incl_gen : forall l acc x,
  In x (fold_left (fun acc x => if existsb (same_import x) acc then acc else acc ++ [x]) l acc) -> In x acc \/ In x l.
Proof.
  induction l as [|y l IH]; intros acc x H; simpl in *; [auto|].
  apply IH in H. destruct H as [H|H]; [|auto].
  destruct (existsb (same_import y) acc); [auto|]. apply in_app_or in H. destruct H as [H|[<-|[]]]; auto.
Qed.

Lemma effective_imports_incl : forall pk i, In i (effective_imports pk) -> In i (imports pk).
Proof.
  intros pk i H. unfold effective_imports, named_imports, root_imports, root_imports_before_4a102aa, dedup_imports in H.
  apply in_app_or in H. destruct H as [H|H].
  - apply dedup_imports_incl_gen in H. destruct H as [[]|H]. apply filter_In in H. tauto.
  - apply dedup_imports_incl_gen in H. destruct H as [[]|H]. apply filter_In in H. tauto.
Qed.

Lemma flat_map_perm {A B} (f : A -> list B) l l' :
  Permutation l l' -> Permutation (flat_map f l) (flat_map f l').
Proof.
  induction 1; simpl; auto.
  - now apply Permutation_app_head.
  - rewrite !app_assoc. apply Permutation_app_tail, Permutation_app_comm.
  - etransitivity; eauto.
Qed.

Lemma all_funcs_perm : forall pk, Permutation (all_funcs pk) (src_funcs pk).
Proof.
  intros. unfold all_funcs, src_funcs. apply Permutation_app_head, flat_map_perm, ordered_imports_perm.
Qed.

Lemma runnable_lower : forall pk,
  Permutation (cd_names (all_funcs pk) (alias_map (aliases pk))) (map lower (runnable_names pk)).
Proof.
  intros. unfold cd_names, runnable_names, alias_keys. rewrite map_app, !map_map.
  apply Permutation_app_tail. apply Permutation_map. apply all_funcs_perm.
Qed.

(* the alias map: a literal without repeated keys is kept entirely *)
Lemma amap_set_perm : forall m k f, ~ In k (map fst m) -> Permutation (amap_set k f m) ((k, f) :: m).
Proof.
  induction m as [|[k' f'] m IH]; intros k f Hn; simpl; [auto|].
  destruct (String.eqb_spec k k'); [exfalso; apply Hn; simpl; auto|].
  destruct (String.ltb k k'); [auto|].
  rewrite IH; [apply perm_swap | intro; apply Hn; simpl; auto].
Qed.

Lemma alias_map_perm_gen : forall l m, NoDup (map fst (m ++ l)) ->
  Permutation (fold_left (fun m kf => amap_set (fst kf) (snd kf) m) l m) (m ++ l).
Proof.
  induction l as [|[k f] l IH]; intros m H; simpl; [now rewrite app_nil_r|].
  assert (Hn : ~ In k (map fst m)).
  { rewrite map_app in H. apply NoDup_app_iff in H. destruct H as [_ [_ H]]. intro Z. apply (H k Z). simpl; auto. }
  pose proof (amap_set_perm m k f Hn) as P.
  rewrite IH.
  - rewrite P. simpl. apply Permutation_middle.
  - eapply Permutation_NoDup; [|exact H]. apply Permutation_map.
    rewrite P. simpl. symmetry. apply Permutation_middle.
Qed.

Lemma alias_map_perm : forall l, NoDup (map fst l) -> Permutation (alias_map l) l.
Proof. intros. unfold alias_map. now apply (alias_map_perm_gen l []). Qed.

(* ================================================================ the main equivalence *)
Lemma mage_check_none : forall pk,
  mage_check true pk = None <->
  package_check (local_funcs pk) = None /\
  (forall i, In i (ordered_imports pk) -> package_check (import_funcs i) = None) /\
  check_dupes true (local_funcs pk) (ordered_imports pk) (alias_map (aliases pk)) = None.
Proof.
  intros. unfold mage_check, mage_check_with, or_else.
  destruct (package_check (local_funcs pk)); [split; [discriminate | intros [? _]; discriminate]|].
  destruct (first_err _ (ordered_imports pk)) eqn:E.
  - split; [discriminate|]. intros [_ [H _]]. rewrite (proj2 (first_err_none _ _) H) in E. discriminate.
  - pose proof (proj1 (first_err_none _ _) E). tauto.
Qed.

(* same package (same alias), same in-package key => same lower-cased runnable name *)
Lemma same_low_same_name : forall f g, f_name f <> "" -> f_name g <> "" -> f_alias f = f_alias g ->
  low_of f = low_of g -> K f = K g.
Proof. intros f g Hf Hg Ha Hl. simpl. rewrite !lower_target_name by auto. now rewrite Ha, Hl. Qed.

Lemma accepted_nodup : forall pk, mage_accepts pk = true -> NoDup (map lower (runnable_names pk)).
Proof.
  intros pk H. unfold mage_accepts in H. destruct (mage_check true pk) eqn:E; [discriminate|].
  apply mage_check_none in E. destruct E as [_ [_ E]]. apply check_dupes_none in E.
  eapply Permutation_NoDup; [apply runnable_lower | exact E].
Qed.

Lemma nodup_accepted : forall pk, wf_pkg pk -> NoDup (map lower (runnable_names pk)) -> mage_accepts pk = true.
Proof.
  intros pk W H. unfold mage_accepts.
  assert (E : mage_check true pk = None); [|now rewrite E].
  assert (HN : NoDup (cd_names (all_funcs pk) (alias_map (aliases pk))))
    by (eapply Permutation_NoDup; [symmetry; apply runnable_lower | exact H]).
  assert (HF : NoDup (map K (all_funcs pk))) by (unfold cd_names in HN; apply NoDup_app_iff in HN; tauto).
  assert (Wall : forall f, In f (all_funcs pk) -> f_name f <> "").
  { intros f Hf. apply W. eapply Permutation_in; [apply all_funcs_perm | exact Hf]. }
  apply mage_check_none. split; [|split].
  - apply package_check_none. unfold all_funcs in HF. rewrite map_app in HF. apply NoDup_app_iff in HF.
    destruct HF as [HL _]. revert HL. apply NoDup_map_weaken. intros x y Hx Hy Z.
    apply same_low_same_name; auto.
    + apply Wall, in_or_app; auto.
    + apply Wall, in_or_app; auto.
    + unfold local_funcs in Hx, Hy. apply in_map_iff in Hx, Hy. destruct Hx as [? [<- _]], Hy as [? [<- _]]. reflexivity.
  - intros i Hi. apply package_check_none. unfold all_funcs in HF. rewrite map_app in HF. apply NoDup_app_iff in HF.
    destruct HF as [_ [HI _]]. pose proof (NoDup_map_flat_member K import_funcs _ i Hi HI) as HI'.
    revert HI'. apply NoDup_map_weaken. intros x y Hx Hy Z.
    assert (In x (all_funcs pk)) by (apply in_or_app; right; apply in_flat_map; eauto).
    assert (In y (all_funcs pk)) by (apply in_or_app; right; apply in_flat_map; eauto).
    apply same_low_same_name; auto.
    unfold import_funcs in Hx, Hy. apply in_map_iff in Hx, Hy. destruct Hx as [? [<- _]], Hy as [? [<- _]]. reflexivity.
  - apply check_dupes_none. exact HN.
Qed.

Lemma rejects_iff_collision : forall pk, wf_pkg pk ->
  (mage_accepts pk = true <-> NoDup (map lower (runnable_names pk))).
Proof. intros pk W; split; [apply accepted_nodup | now apply nodup_accepted]. Qed.

(* with a literal whose keys are pairwise different the alias keys are the written ones *)
Lemma alias_keys_literal : forall pk, NoDup (map fst (aliases pk)) ->
  Permutation (alias_keys pk) (map fst (aliases pk)).
Proof. intros. unfold alias_keys. apply Permutation_map. now apply alias_map_perm. Qed.

(* ================================================================ what the message names *)
Definition names_colliders (pk : pkg) (e : err) : Prop :=
  match e with
  | ECase gs =>
      gs <> [] /\ forall g, In g gs ->
        exists fs k, (fs = local_funcs pk \/ exists i, In i (imports pk) /\ fs = import_funcs i) /\
          g = map f_name (filter (fun f => String.eqb k (low_of f)) fs) /\ 2 <= length g
  | EAlias a ids =>
      ids <> [] /\ exists before name f after,
        alias_map (aliases pk) = before ++ (name, f) :: after /\ a = lower name /\
        forall g, In g ids -> (In g (all_funcs pk) /\ lower (target_name g) = a) \/
                              (exists n', In (n', g) before /\ lower n' = a)
  | EMulti gs =>
      gs <> [] /\ forall k ids, In (k, ids) gs ->
        2 <= length ids /\ forall g, In g ids -> In g (all_funcs pk) /\ lower (target_name g) = k
  end.

Lemma names_the_colliders : forall pk e, mage_check true pk = Some e -> names_colliders pk e.
Proof.
  intros pk e H. unfold mage_check, mage_check_with, or_else in H.
  destruct (package_check (local_funcs pk)) eqn:E1.
  - inversion H; subst. destruct (package_check_some _ _ E1) as [gs [-> [Hne Hg]]]. simpl. split; auto.
    intros g Hin. destruct (Hg g Hin) as [k [Z L]]. exists (local_funcs pk), k. auto.
  - destruct (first_err _ (ordered_imports pk)) eqn:E2.
    + inversion H; subst. destruct (first_err_some _ _ _ E2) as [i [Hi Hp]].
      destruct (package_check_some _ _ Hp) as [gs [-> [Hne Hg]]]. simpl. split; auto.
      intros g Hin. destruct (Hg g Hin) as [k [Z L]]. exists (import_funcs i), k. split; [|auto].
      right. exists i. split; [|reflexivity]. apply effective_imports_incl.
      eapply Permutation_in; [apply ordered_imports_perm | exact Hi].
    + destruct (check_dupes_some _ _ _ _ H) as [[before [name [f [after [ids [Hal [-> [Hne Hids]]]]]]]] | [gs [-> [Hne Hg]]]].
      * simpl. split; auto. exists before, name, f, after. repeat split; auto.
      * simpl. split; auto.
Qed.

(* ================================================================ the generated dispatcher *)
Lemma find_unique {A} (g : A -> string) l x k :
  NoDup (map g l) -> In x l -> g x = k -> find (fun y => String.eqb (g y) k) l = Some x.
Proof.
  induction l as [|z l IH]; simpl; [tauto|].
  intros H Hx E. inversion H as [|? ? Hn Hd]; subst.
  destruct Hx as [->|Hx].
  - now rewrite eqb_refl'.
  - destruct (String.eqb_spec (g z) (g x)) as [Z|Z]; [|auto].
    exfalso; apply Hn. rewrite Z. now apply in_map.
Qed.

Lemma find_none_iff {A} (p : A -> bool) l : find p l = None <-> forall x, In x l -> p x = false.
Proof.
  induction l as [|z l IH]; simpl; [split; [tauto | auto]|].
  destruct (p z) eqn:E.
  - split; [discriminate|]. intro H. rewrite (H z) in E; [discriminate | auto].
  - rewrite IH. split; [intros H x [->|Hx]; auto | auto].
Qed.

Lemma no_shadowing : forall pk, mage_accepts pk = true -> forall w,
  (forall f, In f (all_funcs pk) -> lower (target_name f) = lower w -> resolve pk w = Some f) /\
  (forall k f, In (k, f) (alias_map (aliases pk)) -> lower k = lower w -> In f (all_funcs pk) -> resolve pk w = Some f) /\
  count (lower w) (map lower (runnable_names pk)) <= 1.
Proof.
  intros pk H w. pose proof (accepted_nodup pk H) as HR.
  assert (HN : NoDup (cd_names (all_funcs pk) (alias_map (aliases pk))))
    by (eapply Permutation_NoDup; [symmetry; apply runnable_lower | exact HR]).
  unfold cd_names in HN. apply NoDup_app_iff in HN. destruct HN as [HF [HA HD]].
  split; [|split].
  - intros f Hf E. unfold resolve, alias_switch.
    assert (Z : find (fun kf => String.eqb (lower (fst kf)) (lower w)) (alias_map (aliases pk)) = None).
    { apply find_none_iff. intros kf Hkf. apply String.eqb_neq. intro Z.
      apply (HD (lower w)); [rewrite <- E; now apply (in_map K) | rewrite <- Z; now apply (in_map LK)]. }
    rewrite Z. unfold target_switch. now apply (find_unique K).
  - intros k f Hk E Hf. unfold resolve, alias_switch.
    rewrite (find_unique LK (alias_map (aliases pk)) (k, f) (lower w) HA Hk E).
    unfold target_switch. now apply (find_unique K).
  - now apply NoDup_count.
Qed.

(* ================================================================ examples *)
Definition T (r n : string) : tgt := {| t_recv := r; t_name := n |}.
Definition LF (r n : string) : func := {| f_alias := ""; f_path := ""; f_recv := r; f_name := n |}.

(* accepted: a function NsX next to the namespace method Ns.X ("nsx" vs "ns:x"), two packages under
   one alias without a shared name, an alias to an imported target *)
Definition ex_ok : pkg :=
  {| locals := [T "" "Build"; T "" "NsX"; T "Ns" "X"];
     imports := [{| i_alias := "lib"; i_path := "e/libb"; i_tgts := [T "" "Deploy"] |};
                 {| i_alias := "lib"; i_path := "e/liba"; i_tgts := [T "" "Build"; T "Ns" "X"] |};
                 {| i_alias := ""; i_path := "e/root"; i_tgts := [T "" "Clean"] |}];
     aliases := [("b", LF "" "Build"); ("LX", {| f_alias := "lib"; f_path := "e/liba"; f_recv := "Ns"; f_name := "X" |})] |}.

(* rejected: alias "say" against the target Say *)
Definition ex_alias : pkg :=
  {| locals := [T "" "Build"; T "" "Say"]; imports := []; aliases := [("say", LF "" "Build")] |}.
(* rejected: an imported function lib.X under alias "ns" against the local namespace method Ns.X *)
Definition ex_cross : pkg :=
  {| locals := [T "Ns" "X"]; imports := [{| i_alias := "ns"; i_path := "e/lib"; i_tgts := [T "" "X"] |}]; aliases := [] |}.
(* rejected: two aliases differing in case only *)
Definition ex_alias2 : pkg :=
  {| locals := [T "" "Build"; T "" "Test"]; imports := []; aliases := [("st", LF "" "Build"); ("ST", LF "" "Test")] |}.
(* rejected: a case clash inside an imported package *)
Definition ex_imp : pkg :=
  {| locals := [T "" "Build"]; imports := [{| i_alias := "lib"; i_path := "e/lib"; i_tgts := [T "" "Go"; T "" "GO"] |}]; aliases := [] |}.

Lemma nonvacuous_c07 :
  wf_pkg ex_ok /\ mage_accepts ex_ok = true /\
  map (fun w => option_map fid (resolve ex_ok w)) ["BUILD"; "nsx"; "NS:x"; "lib:build"; "Lib:Ns:X"; "lx"; "B"; "clean"; "lib:deploy"; "x"] =
    [Some "<current>.Build"; Some "<current>.NsX"; Some "<current>.Ns.X"; Some "e/liba.Build"; Some "e/liba.Ns.X";
     Some "e/liba.Ns.X"; Some "<current>.Build"; Some "e/root.Clean"; Some "e/libb.Deploy"; None] /\
  mage_check true ex_alias = Some (EAlias "say" [LF "" "Say"]) /\
  mage_check true ex_cross = Some (EMulti [("ns:x", [LF "Ns" "X"; {| f_alias := "ns"; f_path := "e/lib"; f_recv := ""; f_name := "X" |}])]) /\
  mage_check true ex_alias2 = Some (EAlias "st" [LF "" "Test"]) /\
  mage_check true ex_imp = Some (ECase [["Go"; "GO"]]).
Proof.
  split; [|vm_compute; repeat split; reflexivity].
  intros f Hf. simpl in Hf. repeat (destruct Hf as [<-|Hf]; [discriminate|]). destruct Hf.
Qed.

(* one package mage:import'ed several times (commit 5f65f03): under two aliases, as a root import, and the pair
   ("e/tools", "ci") written twice - accepted, every name runs the package's definition; the same package as
   a bare-tag import twice - one import since commit 4a102aa (before it: two entries of rootImports, rejected
   naming the one definition twice) *)
Definition ex_tools (a : string) : import := {| i_alias := a; i_path := "e/tools"; i_tgts := [T "" "Build"] |}.
Definition ex_multi : pkg :=
  {| locals := [T "" "Hello"]; imports := [ex_tools "dev"; ex_tools "ci"; ex_tools ""; ex_tools "ci"];
     aliases := [("x", {| f_alias := "ci"; f_path := "e/tools"; f_recv := ""; f_name := "Build" |})] |}.
Definition ex_root2 : pkg := {| locals := []; imports := [ex_tools ""; ex_tools ""]; aliases := [] |}.

Lemma nonvacuous_repeated_imports :
  mage_accepts ex_multi = true /\ runnable_names ex_multi = ["Hello"; "dev:Build"; "ci:Build"; "Build"; "x"] /\
  map (fun w => option_map fid (resolve ex_multi w)) ["ci:build"; "DEV:build"; "build"; "X"] =
    [Some "e/tools.Build"; Some "e/tools.Build"; Some "e/tools.Build"; Some "e/tools.Build"] /\
  mage_accepts ex_root2 = true /\ runnable_names ex_root2 = ["Build"] /\
  mage_check_before_4a102aa ex_root2 =
    Some (EMulti [("build", [{| f_alias := ""; f_path := "e/tools"; f_recv := ""; f_name := "Build" |};
                             {| f_alias := ""; f_path := "e/tools"; f_recv := ""; f_name := "Build" |}])]).
Proof. vm_compute. repeat split; reflexivity. Qed.

(* before commit 1f96f80 the alias "say" was accepted next to the target Say and shadowed it *)
Lemma before_repair_refuted :
  exists pk, wf_pkg pk /\ mage_check false pk = None /\ ~ NoDup (map lower (runnable_names pk)) /\
             exists f, In f (all_funcs pk) /\ lower (target_name f) = lower "say" /\ resolve pk "say" <> Some f.
Proof.
  exists ex_alias. split; [|split; [|split]].
  - intros f Hf. simpl in Hf. repeat (destruct Hf as [<-|Hf]; [discriminate|]). destruct Hf.
  - vm_compute. reflexivity.
  - intro H. pose proof (proj1 (NoDup_count _) H "say") as C. vm_compute in C. lia.
  - exists (LF "" "Say"). split; [simpl; auto|]. split; [reflexivity|]. vm_compute. discriminate.
Qed.
