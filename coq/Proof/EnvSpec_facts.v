(* Facts about Model/EnvSpec.v (what SplitEnv / joinEnv / EnvWithGOOS compute; the translated functions are
   proved equal to those definitions on every run): how they read in C11's environment model
   (Model/Flags.v) and that they agree with C10's hand model (Model/Constraints.v). *)
From Mage Require Import Base.Strs Base.GoLib Proof.GoLib_facts Model.EnvSpec.
From Mage Require Model.Flags Proof.Flags_facts Model.Constraints Proof.Constraints_facts.
From Coq Require Import Permutation.

(* ---------------------------------------------------------------- entries *)
Lemma no_eq_has_char : forall k, no_eq_byte k = negb (has_char eq_byte k).
Proof. induction k as [|a k IH]; simpl; auto. rewrite IH. now destruct (Ascii.eqb a eq_byte). Qed.

Lemma split_first_key : forall s k v, split_first eq_byte s = Some (k, v) -> no_eq_byte k = true.
Proof. intros s k v H. apply split_first_Some in H as [_ H]. now rewrite no_eq_has_char, H. Qed.

(* cutting "k=v" at the first '=' gives (k, v): the value keeps every further '=' *)
Lemma split_join_kv : forall k v, no_eq_byte k = true -> split_first eq_byte (join_kv (k, v)) = Some (k, v).
Proof.
  intros k v H. unfold join_kv. simpl fst; simpl snd. apply split_first_app.
  rewrite no_eq_has_char in H. destruct (has_char eq_byte k) eqn:E; [discriminate|exact E].
Qed.

Lemma join_split_kv : forall s k v, split_first eq_byte s = Some (k, v) -> join_kv (k, v) = s.
Proof. intros s k v H. apply split_first_Some in H as [-> _]. reflexivity. Qed.

Lemma well_formed_split : forall s, well_formed s = true <-> exists kv, split_first eq_byte s = Some kv.
Proof.
  intros s. unfold well_formed. split.
  - intros H. destruct (split_first eq_byte s) as [kv|] eqn:E; [eauto|]. apply split_first_None in E. congruence.
  - intros [kv E]. destruct (has_char eq_byte s) eqn:H; auto. apply split_first_None in H. congruence.
Qed.

Lemma env_pairs_cons : forall s env,
  env_pairs (s :: env) = (match split_first eq_byte s with Some p => [p] | None => [] end) ++ env_pairs env.
Proof. reflexivity. Qed.

(* ---------------------------------------------------------------- SplitEnv *)
(* the error case: exactly when some entry has no '=' *)
Lemma env_split_None : forall env out, env_split env out = None <-> Exists (fun s => well_formed s = false) env.
Proof.
  induction env as [|s env IH]; intros out; simpl.
  - split; [discriminate|]. intros H; inversion H.
  - destruct (split_first eq_byte s) as [[k v]|] eqn:E.
    + rewrite IH. split; [now right|]. intros H. inversion H; subst; auto.
      assert (well_formed s = true) by (apply well_formed_split; eauto). congruence.
    + split; auto. intros _. left. apply split_first_None in E. exact E.
Qed.

Lemma env_split_Some : forall env out, (exists m, env_split env out = Some m) <-> Forall (fun s => well_formed s = true) env.
Proof.
  intros env out. split.
  - intros [m H]. apply Forall_forall. intros s Hs. destruct (well_formed s) eqn:W; auto.
    assert (env_split env out = None) by (apply env_split_None; apply Exists_exists; eauto). congruence.
  - intros F. destruct (env_split env out) eqn:E; [eauto|]. apply env_split_None in E.
    apply Exists_exists in E as [s [Hs W]]. rewrite Forall_forall in F. rewrite (F s Hs) in W. discriminate.
Qed.

(* the map it builds: for every name the value of the LAST entry with that name (Flags.lookup), values cut at
   the first '=' *)
Lemma env_split_find : forall env out m, env_split env out = Some m ->
  forall k, map_find m k = match Flags.lookup k (env_pairs env) with Some v => Some v | None => map_find out k end.
Proof.
  induction env as [|s env IH]; intros out m H k.
  - cbn in H. now injection H as <-.
  - cbn [env_split] in H. destruct (split_first eq_byte s) as [[k0 v0]|] eqn:E; [|discriminate].
    rewrite env_pairs_cons, E. cbn [app Flags.lookup]. rewrite (IH _ _ H k), map_find_set.
    destruct (Flags.lookup k (env_pairs env)); auto. destruct (String.eqb k k0); auto.
Qed.

Lemma env_split_wf : forall env out m, env_split env out = Some m -> map_wf out -> map_wf m.
Proof.
  induction env as [|s env IH]; intros out m H W; simpl in *; [now injection H as <-|].
  destruct (split_first eq_byte s) as [[k v]|]; [|discriminate]. eapply IH; eauto using map_set_wf.
Qed.

Definition keys_no_eq (m : gomap string) : Prop := Forall (fun kv => no_eq_byte (fst kv) = true) m.

Lemma map_set_keys_no_eq : forall (m : gomap string) k v, no_eq_byte k = true -> keys_no_eq m -> keys_no_eq (map_set m k v).
Proof.
  unfold keys_no_eq. induction m as [|[k' v'] m IH]; simpl; intros k v Hk F; [repeat constructor; auto|].
  inversion F; subst. destruct (String.eqb k k'); constructor; auto.
Qed.

Lemma env_split_keys : forall env out m, env_split env out = Some m -> keys_no_eq out -> keys_no_eq m.
Proof.
  induction env as [|s env IH]; intros out m H W; simpl in *; [now injection H as <-|].
  destruct (split_first eq_byte s) as [[k v]|] eqn:E; [|discriminate].
  eapply IH; eauto. apply map_set_keys_no_eq; auto. eapply split_first_key; eauto.
Qed.

(* ---------------------------------------------------------------- joinEnv after SplitEnv *)
Lemma env_pairs_join : forall m, keys_no_eq m -> env_pairs (map join_kv m) = m.
Proof.
  unfold keys_no_eq. induction m as [|[k v] m IH]; intros F; [reflexivity|]. inversion F; subst.
  cbn [map]. rewrite env_pairs_cons, split_join_kv by assumption. cbn [app]. now rewrite IH.
Qed.

Lemma join_env_pairs : forall env, Forall (fun s => well_formed s = true) env -> map join_kv (env_pairs env) = env.
Proof.
  induction env as [|s env IH]; intros F; [reflexivity|]. inversion F; subst.
  apply well_formed_split in H1 as [[k v] E]. rewrite env_pairs_cons, E. cbn [app map]. rewrite (join_split_kv _ _ _ E), IH; auto.
Qed.

Lemma map_find_lookup : forall (e : list (string * string)) k, NoDup (map fst e) -> map_find e k = Flags.lookup k e.
Proof.
  induction e as [|[k' v] e IH]; simpl; intros k N; auto. inversion N; subst. rewrite <- IH by assumption.
  destruct (String.eqb_spec k k'); [subst; now rewrite map_find_notin|]. now destruct (map_find e k).
Qed.

Lemma dedup_env_id : forall e, NoDup (map fst e) -> Flags.dedup_env e = e.
Proof.
  induction e as [|[k v] e IH]; simpl; intros N; auto. inversion N; subst.
  assert (Flags.has_key k e = false) as ->.
  { apply Flags_facts.has_key_lookup. rewrite <- map_find_lookup by assumption. now apply map_find_notin. }
  now rewrite IH.
Qed.

(* duplicate names: the LAST entry wins - the map holds exactly what os/exec's de-duplication keeps *)
Theorem env_split_last_wins : forall env m, env_split env [] = Some m ->
  Permutation m (Flags.dedup_env (env_pairs env)).
Proof.
  intros env m H. apply map_perm_of_find.
  - eapply env_split_wf; eauto. apply map_wf_nil.
  - apply Flags_facts.dedup_nodup.
  - intros k. rewrite (env_split_find _ _ _ H k). simpl.
    rewrite map_find_lookup by apply Flags_facts.dedup_nodup. rewrite Flags_facts.lookup_dedup.
    now destruct (Flags.lookup k (env_pairs env)).
Qed.

(* distinct names: joinEnv(SplitEnv(env)), in whatever order the map is ranged over, is a permutation of env *)
Theorem env_join_split_perm : forall env m, env_split env [] = Some m ->
  NoDup (map fst (env_pairs env)) -> Permutation (map join_kv m) env.
Proof.
  intros env m H N.
  assert (F : Forall (fun s => well_formed s = true) env) by (apply (env_split_Some env []); eauto).
  rewrite <- (join_env_pairs env F). apply Permutation_map.
  rewrite <- (dedup_env_id _ N). now apply env_split_last_wins.
Qed.

(* ---------------------------------------------------------------- reading a joined environment *)
(* whoever receives the list joinEnv made (in any order) and reads it the way Model/Flags.v does finds the map *)
Lemma lookup_joined : forall (M : gomap string) r, map_wf M -> keys_no_eq M -> Permutation r (map join_kv M) ->
  (forall k, Flags.lookup k (env_pairs r) = map_find M k) /\ NoDup (map fst (env_pairs r))
  /\ Forall (fun s => well_formed s = true) r.
Proof.
  intros M r W K P. apply Permutation_map_inv in P as [M' [-> P]].
  assert (K' : keys_no_eq M') by (unfold keys_no_eq in *; eapply Permutation_Forall; eauto).
  assert (W' : map_wf M') by (unfold map_wf in *; eapply Permutation_NoDup; [apply Permutation_map; exact P|exact W]).
  rewrite env_pairs_join by assumption. repeat split; auto.
  - intros k. rewrite <- map_find_lookup by exact W'. now apply map_find_perm.
  - apply Forall_forall. intros s Hs. apply in_map_iff in Hs as [[k v] [<- Hin]].
    apply well_formed_split. exists (k, v). apply split_join_kv.
    unfold keys_no_eq in K'. rewrite Forall_forall in K'. exact (K' _ Hin).
Qed.

(* ---------------------------------------------------------------- EnvWithGOOS *)
Lemma goos_env_find : forall m a b goos goarch k,
  map_find (goos_env m a b goos goarch) k =
  if String.eqb k "GOARCH" then Some (if String.eqb goarch "" then b else goarch)
  else if String.eqb k "GOOS" then Some (if String.eqb goos "" then a else goos)
  else map_find m k.
Proof. intros. unfold goos_env. now rewrite !map_find_set. Qed.

Lemma goos_env_wf : forall m a b goos goarch, map_wf m -> map_wf (goos_env m a b goos goarch).
Proof. intros. unfold goos_env. auto using map_set_wf. Qed.

Lemma goos_env_keys : forall m a b goos goarch, keys_no_eq m -> keys_no_eq (goos_env m a b goos goarch).
Proof. intros. unfold goos_env. repeat apply map_set_keys_no_eq; auto. Qed.

(* C11/C10: the environment EnvWithGOOS hands on, read as Model/Flags.v reads environments: GOOS and GOARCH are
   the arguments (the runtime values when empty), every other variable has the value the caller's environment
   gives it (last entry of the name; values with '=' or blanks and empty values intact), every name occurs once *)
Theorem goos_env_carries : forall environ m a b goos goarch r,
  env_split environ [] = Some m -> Permutation r (map join_kv (goos_env m a b goos goarch)) ->
  Flags.lookup "GOOS" (env_pairs r) = Some (if String.eqb goos "" then a else goos) /\
  Flags.lookup "GOARCH" (env_pairs r) = Some (if String.eqb goarch "" then b else goarch) /\
  (forall k, k <> "GOOS" -> k <> "GOARCH" -> Flags.lookup k (env_pairs r) = Flags.lookup k (env_pairs environ)) /\
  NoDup (map fst (env_pairs r)) /\ Forall (fun s => well_formed s = true) r.
Proof.
  intros environ m a b goos goarch r H P.
  assert (W : map_wf m) by (eapply env_split_wf; eauto; apply map_wf_nil).
  assert (K : keys_no_eq m) by (eapply env_split_keys; eauto; constructor).
  destruct (lookup_joined _ r (goos_env_wf m a b goos goarch W) (goos_env_keys m a b goos goarch K) P) as (L & N & F).
  repeat split; auto.
  - rewrite L, goos_env_find. reflexivity.
  - rewrite L, goos_env_find. reflexivity.
  - intros k H1 H2. rewrite L, goos_env_find.
    apply String.eqb_neq in H1, H2. rewrite H1, H2. rewrite (env_split_find _ _ _ H k). simpl.
    now destruct (Flags.lookup k (env_pairs environ)).
Qed.

(* ---------------------------------------------------------------- C10's hand model says the same *)
Lemma split_eq_first : forall s, Constraints.split_eq s = split_first eq_byte s.
Proof.
  induction s as [|a s IH]; simpl; auto. change Constraints.c_eq with eq_byte. rewrite IH.
  destruct (Ascii.eqb a eq_byte); auto.
Qed.

Lemma mget_find : forall (m : Constraints.emap) k, Constraints.mget k m = map_find m k.
Proof. induction m as [|[k' v] m IH]; simpl; intros k; auto. now rewrite IH. Qed.

Lemma mget_mset : forall k k' v m, Constraints.mget k (Constraints.mset k' v m) = if String.eqb k k' then Some v else Constraints.mget k m.
Proof.
  intros. destruct (String.eqb_spec k k'); [subst; apply Constraints_facts.mget_mset_same|now apply Constraints_facts.mget_mset_other].
Qed.

Lemma splitEnv_from_split : forall env acc out, (forall k, Constraints.mget k acc = map_find out k) ->
  match Constraints.splitEnv_from acc env, env_split env out with
  | Some cm, Some m => forall k, Constraints.mget k cm = map_find m k
  | None, None => True
  | _, _ => False
  end.
Proof.
  induction env as [|s env IH]; intros acc out H; simpl; auto.
  rewrite split_eq_first. destruct (split_first eq_byte s) as [[k v]|]; auto.
  apply IH. intros k'. rewrite mget_mset, map_find_set, H. reflexivity.
Qed.

(* SplitEnv: same error case, same lookups *)
Theorem splitEnv_agrees : forall env,
  match Constraints.splitEnv env, env_split env [] with
  | Some cm, Some m => forall k, Constraints.mget k cm = map_find m k
  | None, None => True
  | _, _ => False
  end.
Proof. intros. apply splitEnv_from_split. reflexivity. Qed.

(* EnvWithGOOS: same error case; the lists hold the same entries (the order is Go's map order in both) *)
Theorem envWithGOOS_agrees : forall su goos goarch,
  match Constraints.envWithGOOS su goos goarch, env_split (Constraints.su_environ su) [] with
  | Some env', Some m =>
      Permutation (map join_kv (goos_env m (Constraints.su_hostos su) (Constraints.su_hostarch su) goos goarch)) env'
  | None, None => True
  | _, _ => False
  end.
Proof.
  intros su goos goarch. rewrite Constraints_facts.envWithGOOS_eq.
  pose proof (splitEnv_agrees (Constraints.su_environ su)) as A.
  destruct (Constraints.splitEnv (Constraints.su_environ su)) as [cm|] eqn:E1;
    destruct (env_split (Constraints.su_environ su) []) as [m|] eqn:E2; auto.
  assert (K : Constraints_facts.keys_ok cm) by (eapply Constraints_facts.splitEnv_from_ok; [exact E1|split; constructor]).
  unfold Constraints.joinEnv. apply (Permutation_map join_kv). apply map_perm_of_find.
  - apply goos_env_wf. eapply env_split_wf; eauto. apply map_wf_nil.
  - apply (Constraints_facts.mset_keys_ok "GOARCH"); [reflexivity|]. apply (Constraints_facts.mset_keys_ok "GOOS"); [reflexivity|exact K].
  - intros k. rewrite goos_env_find. rewrite <- (mget_find (Constraints.mset "GOARCH" _ _)). rewrite !mget_mset, A.
    unfold Constraints.platform_os, Constraints.platform_arch. reflexivity.
Qed.
