(* C05: the declarative side (what "completed", "status carried by the failure", "misuse", "cannot build" mean)
   and the proofs that the transcription in Model/ExitChain.v computes it. *)
From Mage Require Import Base.Strs Model.Deps Model.ExitChain Proof.Deps_defs Proof.Exit_facts.
From Coq Require Import ZArith Lia Permutation.
Local Open Scope Z_scope.

(* ================================================================== vocabulary of the statements *)

Definition code_ok (c : Z) : Prop := 1 <= c <= 255.

Fixpoint all_bodies (P : body -> Prop) (l : list body) : Prop :=
  match l with [] => True | d :: r => P d /\ all_bodies P r end.

(* no os.Exit anywhere inside *)
Fixpoint exit_free (b : body) : Prop :=
  match b with
  | BOsExit _ => False
  | BDeps _ ds => (fix all (l : list body) : Prop := match l with [] => True | d :: r => exit_free d /\ all r end) ds
  | _ => True
  end.

(* the quantifier of the property: every code that occurs is in 1..255 (a child's exit code in 0..255, 0 = success);
   os.Exit is looked at in a target body itself, not inside a dependency set *)
Fixpoint wf_body (b : body) : Prop :=
  match b with
  | BFatal c | BPanicFatal c | BOsExit c => code_ok c
  | BSh (CExit k) => 0 <= k <= 255
  | BDeps _ ds => (fix all (l : list body) : Prop :=
                     match l with [] => True | d :: r => (wf_body d /\ exit_free d) /\ all r end) ds
  | _ => True
  end.

(* "completed without error or panic", the body and all its dependencies *)
Fixpoint completes (b : body) : Prop :=
  match b with
  | BOk => True
  | BSh (CExit k) => k = 0
  | BDeps _ ds => (fix all (l : list body) : Prop := match l with [] => True | d :: r => completes d /\ all r end) ds
  | _ => False
  end.

Fixpoint first_nonzero (l : list Z) : Z :=
  match l with [] => 0 | x :: r => if x =? 0 then first_nonzero r else x end.

(* the status carried by the failure of a body (0: none) *)
Fixpoint status (b : body) : Z :=
  match b with
  | BOk => 0
  | BErr | BPanicErr | BPanicVal => 1                 (* plain error, non-error panic *)
  | BFatal c | BPanicFatal c => c                     (* the code of mg.Fatal / mg.Fatalf *)
  | BSh (CExit k) => k                                (* the exit code of the failed command *)
  | BSh _ => 1                                        (* the command could not be run / was killed: a plain error *)
  | BShCopyErr => 1                                   (* it ran but c.Run() failed otherwise: a plain error *)
  | BOsExit c => c
  | BDeps false ds => combine (map status ds)         (* the combined status of the failed dependencies *)
  | BDeps true ds => first_nonzero (map status ds)    (* serial: the first failure stops the list *)
  end.

Lemma all_bodies_wf : forall ds,
  (fix all (l : list body) : Prop := match l with [] => True | d :: r => (wf_body d /\ exit_free d) /\ all r end) ds
  <-> all_bodies (fun d => wf_body d /\ exit_free d) ds.
Proof. induction ds; simpl; tauto. Qed.
Lemma all_bodies_completes : forall ds,
  (fix all (l : list body) : Prop := match l with [] => True | d :: r => completes d /\ all r end) ds
  <-> all_bodies completes ds.
Proof. induction ds; simpl; tauto. Qed.
Lemma all_bodies_exit_free : forall ds,
  (fix all (l : list body) : Prop := match l with [] => True | d :: r => exit_free d /\ all r end) ds
  <-> all_bodies exit_free ds.
Proof. induction ds; simpl; tauto. Qed.

Lemma all_bodies_Forall : forall P ds, all_bodies P ds <-> Forall P ds.
Proof.
  induction ds as [|d ds IH]; simpl.
  - split; intros; [constructor|exact I].
  - split; intros H.
    + destruct H; constructor; tauto.
    + inversion H; subst; tauto.
Qed.

Lemma wf_deps : forall ser ds, wf_body (BDeps ser ds) <-> Forall (fun d => wf_body d /\ exit_free d) ds.
Proof. intros. simpl. rewrite all_bodies_wf. apply all_bodies_Forall. Qed.
Lemma completes_deps : forall ser ds, completes (BDeps ser ds) <-> Forall completes ds.
Proof. intros. simpl. rewrite all_bodies_completes. apply all_bodies_Forall. Qed.
Lemma exit_free_deps : forall ser ds, exit_free (BDeps ser ds) <-> Forall exit_free ds.
Proof. intros. simpl. rewrite all_bodies_exit_free. apply all_bodies_Forall. Qed.

(* induction over bodies with the members of a dependency set *)
Lemma body_ind' (P : body -> Prop) :
  P BOk -> P BErr -> (forall c, P (BFatal c)) -> P BPanicErr -> (forall c, P (BPanicFatal c)) -> P BPanicVal ->
  (forall c, P (BSh c)) -> P BShCopyErr -> (forall c, P (BOsExit c)) ->
  (forall ser ds, Forall P ds -> P (BDeps ser ds)) ->
  forall b, P b.
Proof.
  intros H1 H2 H3 H4 H5 H6 H7 H7' H8 H9.
  fix IH 1. intros [ | | c | | c | | c | | c | ser ds];
    [exact H1|exact H2|apply H3|exact H4|apply H5|exact H6|apply H7|exact H7'|apply H8|].
  apply H9. induction ds as [|d ds IHds]; constructor; [apply IH | exact IHds].
Qed.

(* ================================================================== bodies *)

(* what a member's result contributes to runDeps' exit *)
Definition rstatus (r : bres) : Z :=
  match r with
  | Returned v => mg_ExitStatus v
  | Panicked v => if is_nil v then 0 else if is_error v then mg_ExitStatus v else 1
  | Exited _ => 0
  end.
Definition rfails (r : bres) : bool :=
  match r with Returned v | Panicked v => negb (is_nil v) | Exited _ => false end.

Lemma dep_report_fold : forall rs a,
  fold_left dep_report rs a =
  {| a_exit := fold_left changeExit (map rstatus rs) (a_exit a);
     a_nerrs := (a_nerrs a + length (filter rfails rs))%nat |}.
Proof.
  induction rs as [|r rs IH]; intros [e n]; simpl.
  - f_equal. lia.
  - rewrite IH. destruct r as [v|v|c]; simpl.
    + destruct v; simpl; f_equal; lia.
    + destruct v; simpl; f_equal; lia.
    + f_equal.
Qed.

Definition no_exit (rs : list bres) : Prop := Forall (fun r => match r with Exited _ => False | _ => True end) rs.

Lemma first_exit_none : forall rs, no_exit rs -> first_exit rs = None.
Proof. induction 1 as [|r rs Hr _ IH]; simpl; auto. destruct r; auto; contradiction. Qed.

Lemma runDeps_eq : forall rs, no_exit rs ->
  runDeps rs = if Nat.ltb 0 (length (filter rfails rs)) then Panicked (VFatal (combine (map rstatus rs))) else Returned VNil.
Proof.
  intros rs H. unfold runDeps. rewrite (first_exit_none _ H). rewrite dep_report_fold. simpl. reflexivity.
Qed.

(* the order in which the goroutines report does not matter *)
Lemma runDeps_perm : forall rs rs', no_exit rs -> Permutation rs rs' -> runDeps rs = runDeps rs'.
Proof.
  intros rs rs' H HP.
  assert (H' : no_exit rs') by (unfold no_exit in *; eapply Permutation_Forall; eauto).
  rewrite (runDeps_eq _ H), (runDeps_eq _ H').
  assert (Hl : length (filter rfails rs) = length (filter rfails rs')).
  { clear H H'. induction HP; simpl; auto.
    - destruct (rfails x); simpl; auto.
    - destruct (rfails x), (rfails y); simpl; auto.
    - congruence. }
  rewrite Hl. rewrite (combine_perm (map rstatus rs) (map rstatus rs')); [reflexivity|].
  apply Permutation_map; exact HP.
Qed.

(* shape of the result of a well-formed, exit-free body in terms of its status *)
Definition result_matches (b : body) : Prop :=
  match run_body b with
  | Returned v => (is_nil v = true /\ status b = 0) \/
                  (is_nil v = false /\ is_error v = true /\ mg_ExitStatus v = status b /\ code_ok (status b))
  | Panicked v => is_nil v = false /\ (if is_error v then mg_ExitStatus v else 1) = status b /\ code_ok (status b)
  | Exited c => c = status b /\ code_ok c
  end.

Lemma sh_Run_cases : forall c,
  match c with CExit k => 0 <= k <= 255 | _ => True end ->
  (sh_Run c = VNil /\ c = CExit 0) \/
  (exists k, c = CExit k /\ 1 <= k <= 255 /\ sh_Run c = VFatal k) \/
  ((c = CSignaled \/ c = CNotStarted) /\ sh_Run c = VPlain).
Proof.
  intros [k| |] H.
  - destruct (Z.eq_dec k 0) as [->|Hk]; [left; split; reflexivity|].
    right; left. exists k. split; [reflexivity|]. split; [lia|].
    unfold sh_Run, sh_CmdRan, sh_ExitStatus, run_err_nil, kernel.
    rewrite (Z.mod_small k 256) by lia.
    destruct (Z.eqb_spec k 0); [contradiction|]. reflexivity.
  - right; right. split; [left; reflexivity|reflexivity].
  - right; right. split; [right; reflexivity|reflexivity].
Qed.

Lemma combine_range : forall ss, Forall (fun s => 0 <= s <= 255) ss ->
  0 <= combine ss <= 255 /\ (combine ss = 0 <-> Forall (fun s => s = 0) ss).
Proof.
  intros ss H. rewrite combine_spec.
  assert (Hf : Forall (fun s => 1 <= s <= 255) (filter (fun c => negb (c =? 0)) ss)).
  { apply Forall_forall. intros x Hx. apply filter_In in Hx. destruct Hx as [Hin Hnz].
    rewrite Forall_forall in H. specialize (H x Hin). destruct (Z.eqb_spec x 0); simpl in Hnz; [discriminate|lia]. }
  assert (Hz : filter (fun c => negb (c =? 0)) ss = [] <-> Forall (fun s => s = 0) ss).
  { clear. induction ss as [|x ss IH]; simpl.
    - split; auto.
    - destruct (Z.eqb_spec x 0); simpl.
      + rewrite IH. split; intros HH; [constructor; auto|inversion HH; auto].
      + split; intros HH; [discriminate|inversion HH; contradiction]. }
  destruct (filter (fun c => negb (c =? 0)) ss) as [|v r] eqn:E.
  - split; [lia|]. split; intros _; [apply Hz; reflexivity|reflexivity].
  - inversion Hf as [|? ? Hv Hr]; subst.
    split.
    + destruct (forallb (Z.eqb v) r); lia.
    + split; intros HH.
      * destruct (forallb (Z.eqb v) r); lia.
      * apply Hz in HH. discriminate.
Qed.

Lemma first_nonzero_zero : forall ss, first_nonzero ss = 0 <-> Forall (fun s => s = 0) ss.
Proof.
  induction ss as [|x ss IH]; simpl.
  - split; auto.
  - destruct (Z.eqb_spec x 0).
    + rewrite IH. split; intros HH; [constructor; auto|inversion HH; auto].
    + split; intros HH; [contradiction|inversion HH; contradiction].
Qed.

Lemma first_nonzero_range : forall ss, Forall (fun s => 0 <= s <= 255) ss -> 0 <= first_nonzero ss <= 255.
Proof.
  induction 1 as [|x ss Hx _ IH]; simpl; [lia|]. destruct (x =? 0); lia.
Qed.

(* a well-formed member of a dependency set: result, contribution and failure flag in terms of its status *)
Lemma member_facts : forall d, wf_body d -> exit_free d -> result_matches d ->
  (match run_body d with Exited _ => False | _ => True end) /\
  rstatus (run_body d) = status d /\ 0 <= status d <= 255 /\
  (rfails (run_body d) = false <-> status d = 0).
Proof.
  intros d Hwf Hef Hm. unfold result_matches, code_ok in Hm.
  destruct (run_body d) as [v|v|c] eqn:E; simpl.
  - destruct Hm as [[Hn Hs]|[Hn [He [Hs Hc]]]].
    + destruct v; try discriminate. simpl. rewrite Hs. repeat split; auto; lia.
    + rewrite Hn. simpl. split; [exact I|]. split; [exact Hs|]. split; [lia|]. split; intros HH; [discriminate|lia].
  - destruct Hm as [Hn [Hs Hc]]. rewrite Hn. simpl. split; [exact I|]. split; [exact Hs|]. split; [lia|].
    split; intros HH; [discriminate|lia].
  - exfalso. clear Hm Hwf. revert c E.
    induction d using body_ind'; intros c0 E; simpl in E; try discriminate; try contradiction.
    apply exit_free_deps in Hef.
    assert (Hne : no_exit (map run_body ds)).
    { unfold no_exit. apply Forall_map. rewrite Forall_forall in *. intros x Hx.
      destruct (run_body x) eqn:Ex; auto. eapply H; eauto. }
    destruct ser.
    + clear H Hef. induction ds as [|d ds IHds]; simpl in E; [discriminate|].
      inversion Hne as [|? ? Hd Hds]; subst.
      unfold runDeps in E at 1. simpl in E.
      destruct (run_body d) as [v|v|cc]; try contradiction; simpl in E.
      * destruct (is_nil v); simpl in E; [auto|discriminate].
      * destruct (is_nil v); simpl in E; [auto|discriminate].
    + rewrite (runDeps_eq _ Hne) in E. destruct (Nat.ltb _ _); discriminate.
Qed.

Lemma run_body_matches : forall b, wf_body b -> result_matches b.
Proof.
  induction b using body_ind'; intros Hwf; unfold result_matches; simpl in *; unfold code_ok in *.
  - left; auto.
  - right; repeat split; auto; lia.
  - right; repeat split; auto; lia.
  - repeat split; auto; lia.
  - repeat split; auto; lia.
  - repeat split; auto; lia.
  - destruct (sh_Run_cases c Hwf) as [[Hr Hc]|[[k [Hc [Hk Hr]]]|[Hc Hr]]]; rewrite Hr; subst.
    + left; auto.
    + right; simpl; repeat split; auto; lia.
    + right; destruct Hc; subst; simpl; repeat split; auto; lia.
  - right; repeat split; auto; lia.
  - repeat split; auto; lia.
  - apply all_bodies_wf in Hwf. apply all_bodies_Forall in Hwf.
    assert (HM : Forall (fun d => (match run_body d with Exited _ => False | _ => True end) /\
                                  rstatus (run_body d) = status d /\ 0 <= status d <= 255 /\
                                  (rfails (run_body d) = false <-> status d = 0)) ds).
    { rewrite Forall_forall in *. intros d Hd. destruct (Hwf d Hd) as [Hw He].
      apply member_facts; auto. }
    clear H Hwf.
    assert (Hne : no_exit (map run_body ds)).
    { unfold no_exit. apply Forall_map. eapply Forall_impl; [|exact HM]. simpl. intros a Ha. destruct Ha as [Ha _].
      destruct (run_body a); auto. }
    assert (Hst : map rstatus (map run_body ds) = map status ds).
    { rewrite map_map. apply map_ext_in. intros a Ha. rewrite Forall_forall in HM. apply (HM a Ha). }
    assert (Hrg : Forall (fun s => 0 <= s <= 255) (map status ds)).
    { apply Forall_map. eapply Forall_impl; [|exact HM]. simpl. tauto. }
    destruct ser.
    + (* serial *)
      clear Hne Hst. induction ds as [|d ds IHds]; simpl.
      * left; auto.
      * inversion HM as [|? ? [Hd1 [Hd2 [Hd3 Hd4]]] HMr]; subst.
        inversion Hrg as [|? ? _ Hrgr]; subst.
        specialize (IHds HMr Hrgr).
        unfold runDeps at 1. simpl.
        destruct (run_body d) as [v|v|cc] eqn:Ed; try contradiction; simpl in *.
        -- destruct (is_nil v) eqn:En; simpl.
           ++ assert (Hz : status d = 0) by (apply Hd4; reflexivity).
              rewrite Hz. simpl. exact IHds.
           ++ assert (Hnz : status d <> 0). { intros Hz. apply Hd4 in Hz. discriminate. }
              destruct (Z.eqb_spec (status d) 0); [contradiction|].
              unfold changeExit. destruct (Z.eqb_spec (mg_ExitStatus v) 0); simpl; repeat split; auto; try lia.
        -- destruct (is_nil v) eqn:En; simpl.
           ++ assert (Hz : status d = 0) by (apply Hd4; reflexivity).
              rewrite Hz. simpl. exact IHds.
           ++ assert (Hnz : status d <> 0). { intros Hz. apply Hd4 in Hz. discriminate. }
              destruct (Z.eqb_spec (status d) 0); [contradiction|].
              unfold changeExit.
              destruct (Z.eqb_spec (if is_error v then mg_ExitStatus v else 1) 0); simpl; repeat split; auto; try lia.
    + (* parallel *)
      rewrite (runDeps_eq _ Hne). rewrite Hst.
      destruct (combine_range _ Hrg) as [Hr Hz].
      destruct (Nat.ltb 0 (length (filter rfails (map run_body ds)))) eqn:El.
      * simpl. split; [reflexivity|]. split; [reflexivity|].
        assert (combine (map status ds) <> 0); [|lia].
        intros Hc. apply Hz in Hc.
        apply Nat.ltb_lt in El.
        assert (filter rfails (map run_body ds) = []); [|rewrite H in El; simpl in El; lia].
        clear El Hne Hst Hrg Hr Hz. induction ds as [|d ds IHds]; simpl; auto.
        inversion HM as [|? ? [_ [_ [_ Hd4]]] HMr]; subst. inversion Hc; subst.
        replace (rfails (run_body d)) with false by (symmetry; apply Hd4; auto). auto.
      * left. split; [reflexivity|]. apply Hz.
        apply Nat.ltb_ge in El.
        assert (Hnil : filter rfails (map run_body ds) = []).
        { destruct (filter rfails (map run_body ds)); auto. simpl in El. lia. }
        clear El Hne Hst Hrg Hr Hz. apply Forall_map.
        induction ds as [|d ds IHds]; constructor.
        -- inversion HM as [|? ? [_ [_ [_ Hd4]]] HMr]; subst. simpl in Hnil.
           destruct (rfails (run_body d)) eqn:Ef; [discriminate|]. apply Hd4; reflexivity.
        -- inversion HM; subst. simpl in Hnil. destruct (rfails (run_body d)); [discriminate|]. auto.
Qed.

Lemma status_range : forall b, wf_body b -> 0 <= status b <= 255.
Proof.
  intros b H. pose proof (run_body_matches b H) as M. unfold result_matches, code_ok in M.
  destruct (run_body b); intuition lia.
Qed.

Lemma completes_iff_status : forall b, wf_body b -> (completes b <-> status b = 0).
Proof.
  induction b using body_ind'; intros Hwf; simpl in *; unfold code_ok in *; try (split; [contradiction|lia]).
  - tauto.
  - destruct c as [k| |]; simpl; [tauto|split; [contradiction|lia]|split; [contradiction|lia]].
  - apply all_bodies_wf in Hwf. apply all_bodies_Forall in Hwf. rewrite all_bodies_completes, all_bodies_Forall.
    assert (Hrg : Forall (fun s => 0 <= s <= 255) (map status ds)).
    { apply Forall_map. eapply Forall_impl; [|exact Hwf]. simpl. intros a [Ha _]. apply status_range; auto. }
    assert (Hc : Forall completes ds <-> Forall (fun s => s = 0) (map status ds)).
    { rewrite Forall_map. rewrite !Forall_forall in *. split; intros HH x Hx.
      - apply (H x Hx); [apply (Hwf x Hx)|apply HH; auto].
      - apply (H x Hx); [apply (Hwf x Hx)|apply HH; auto]. }
    rewrite Hc. destruct ser.
    + symmetry. apply first_nonzero_zero.
    + symmetry. apply (combine_range _ Hrg).
Qed.

(* what handleError does with a non-nil value *)
Definition hstat (v : value) : Z := if is_error v then mg_ExitStatus v else 1.
Lemma handleError_nonnil : forall v, is_nil v = false -> handleError v = Some (hstat v).
Proof. destruct v; simpl; intros; try discriminate; reflexivity. Qed.
Lemma handleError_nil : forall v, is_nil v = true -> handleError v = None.
Proof. destruct v; simpl; intros; try discriminate; reflexivity. Qed.

(* one requested target: either it completes and the loop goes on, or the program ends with its status *)
Lemma target_step : forall b, wf_body b ->
  (completes b /\ exists v, run_body b = Returned v /\ handleError v = None) \/
  (~ completes b /\ code_ok (status b) /\
   ((exists v, (run_body b = Returned v \/ run_body b = Panicked v) /\ handleError v = Some (status b)) \/
    run_body b = Exited (status b))).
Proof.
  intros b Hwf. pose proof (run_body_matches b Hwf) as M. pose proof (completes_iff_status b Hwf) as C.
  unfold result_matches, code_ok in *.
  destruct (run_body b) as [v|v|c] eqn:E.
  - destruct M as [[Hn Hs]|[Hn [He [Hs Hc]]]].
    + left. split; [apply C; auto|]. exists v. split; auto. apply handleError_nil; auto.
    + right. split; [intros HH; apply C in HH; lia|]. split; [lia|]. left. exists v. split; [left; auto|].
      rewrite (handleError_nonnil _ Hn). unfold hstat. rewrite He. congruence.
  - destruct M as [Hn [Hs Hc]]. right. split; [intros HH; apply C in HH; lia|]. split; [lia|]. left. exists v.
    split; [right; auto|]. rewrite (handleError_nonnil _ Hn). unfold hstat. congruence.
  - destruct M as [Hs Hc]. right. split; [intros HH; apply C in HH; lia|]. split; [lia|]. right. congruence.
Qed.

(* ================================================================== the target loop *)

Definition wf_mention (m : mention) : Prop := match m with MRun b => wf_body b | _ => True end.
Definition mention_ok (m : mention) : Prop := match m with MRun b => completes b | _ => False end.
(* the status carried by a failing mention: the body's, or 2 for misuse *)
Definition mstatus (m : mention) : Z := match m with MRun b => status b | _ => 2 end.
Definition mstarted (m : mention) : nat := match m with MRun _ => 1%nat | _ => 0%nat end.
(* the generated main writes the diagnostic itself unless the body ended the process *)
Definition mmsg (m : mention) : bool := match m with MRun b => match run_body b with Exited _ => false | _ => true end | _ => true end.

Lemma run_mentions_ok : forall ms, Forall wf_mention ms -> Forall mention_ok ms ->
  run_mentions ms = {| h_exit := None; h_ran := length ms; h_msg := false |}.
Proof.
  induction ms as [|m ms IH]; intros Hwf Hok; simpl; [reflexivity|].
  inversion Hwf as [|? ? Hw Hwr]; subst. inversion Hok as [|? ? Ho Hor]; subst.
  destruct m as [b| | |]; simpl in Ho; try contradiction.
  destruct (target_step b Hw) as [[_ [v [Hr Hh]]]|[Hn _]]; [|contradiction].
  rewrite Hr, Hh, (IH Hwr Hor). reflexivity.
Qed.

Lemma run_mentions_fail : forall pre m post,
  Forall wf_mention pre -> Forall mention_ok pre -> wf_mention m -> ~ mention_ok m ->
  run_mentions (pre ++ m :: post) =
    {| h_exit := Some (mstatus m); h_ran := length pre + mstarted m; h_msg := mmsg m |} /\ code_ok (mstatus m).
Proof.
  induction pre as [|p pre IH]; intros m post Hwf Hok Hwm Hnm; simpl.
  - destruct m as [b| | |]; simpl in *; unfold code_ok; try (split; [reflexivity|lia]).
    destruct (target_step b Hwm) as [[Hc _]|[_ [Hcode [[v [[Hr|Hr] Hh]]|Hr]]]]; [contradiction| | |]; rewrite Hr; try rewrite Hh;
      split; auto.
  - inversion Hwf as [|? ? Hw Hwr]; subst. inversion Hok as [|? ? Ho Hor]; subst.
    destruct p as [b| | |]; simpl in Ho; try contradiction.
    destruct (target_step b Hw) as [[_ [v [Hr Hh]]]|[Hn _]]; [|contradiction].
    destruct (IH m post Hwr Hor Hwm Hnm) as [IH1 IH2].
    rewrite Hr, Hh, IH1. simpl. split; auto.
Qed.

(* a command line either consists of completing targets only or has a first mention that does not complete *)
Lemma mentions_split : forall ms, Forall wf_mention ms ->
  Forall mention_ok ms \/
  exists pre m post, ms = pre ++ m :: post /\ Forall mention_ok pre /\ ~ mention_ok m.
Proof.
  induction ms as [|m ms IH]; intros Hwf; [left; constructor|].
  inversion Hwf as [|? ? Hw Hwr]; subst.
  assert (D : mention_ok m \/ ~ mention_ok m).
  { destruct m as [b| | |]; simpl; try (right; tauto).
    destruct (target_step b Hw) as [[Hc _]|[Hc _]]; tauto. }
  destruct D as [Hm|Hm].
  - destruct (IH Hwr) as [Hall|[pre [x [post [E [Hp Hx]]]]]].
    + left; constructor; auto.
    + right. exists (m :: pre), x, post. subst. repeat split; auto.
  - right. exists [], m, ms. repeat split; auto.
Qed.

Lemma Forall_app_l : forall {A} (P : A -> Prop) l1 l2, Forall P (l1 ++ l2) -> Forall P l1 /\ Forall P l2.
Proof. intros. apply Forall_app; auto. Qed.

(* ================================================================== the generated main *)

Definition targets_line (cp : cprog) (ms : list mention) : Prop :=
  cp_flags cp = FlagsOk /\ cp_list cp = false /\ cp_help cp = false /\ cp_mentions cp = ms /\ ms <> [].

Lemma compiled_main_line : forall fixed cp ms, targets_line cp ms -> compiled_main fixed cp = run_mentions ms.
Proof.
  intros fixed cp ms [Hf [Hl [Hh [Hm Hne]]]]. unfold compiled_main, compiled_main_gen. rewrite Hf, Hl, Hh, Hm. simpl.
  destruct ms; [contradiction|reflexivity].
Qed.

Lemma kernel_code : forall c, code_ok c -> kernel c = c.
Proof. intros c H. unfold kernel, code_ok in *. apply Z.mod_small. lia. Qed.

Lemma first_failure_decides : forall fixed cp pre m post,
  targets_line cp (pre ++ m :: post) ->
  Forall wf_mention pre -> Forall mention_ok pre -> wf_mention m -> ~ mention_ok m ->
  compiled_exit fixed cp = mstatus m /\ code_ok (mstatus m) /\
  h_ran (compiled_main fixed cp) = (length pre + mstarted m)%nat /\
  h_msg (compiled_main fixed cp) = mmsg m.
Proof.
  intros fixed cp pre m post HL Hwf Hok Hwm Hnm.
  unfold compiled_exit. rewrite (compiled_main_line fixed cp _ HL).
  destruct (run_mentions_fail pre m post Hwf Hok Hwm Hnm) as [E C]. rewrite E. unfold halt_status. simpl.
  split; [apply kernel_code; auto|]. split; [exact C|]. split; reflexivity.
Qed.

Lemma all_ok_zero : forall fixed cp ms, targets_line cp ms -> Forall wf_mention ms -> Forall mention_ok ms ->
  compiled_exit fixed cp = 0 /\ h_ran (compiled_main fixed cp) = length ms.
Proof.
  intros fixed cp ms HL Hwf Hok. unfold compiled_exit. rewrite (compiled_main_line fixed cp _ HL).
  rewrite (run_mentions_ok ms Hwf Hok). split; reflexivity.
Qed.

(* the whole generated program *)
Definition wf_prog (cp : cprog) : Prop :=
  Forall wf_mention (cp_mentions cp) /\ match cp_default cp with DefaultBody b => wf_body b | _ => True end.

Definition no_words (cp : cprog) : bool := match cp_mentions cp with [] => true | _ => false end.

(* "every requested target and all its dependencies completed without error or panic
    (or it only listed or documented successfully)" for the compiled program *)
Definition prog_ok (cp : cprog) : Prop :=
  match cp_flags cp with
  | FlagsErrHelp => True                                         (* -help: the usage text *)
  | FlagsBad => False
  | FlagsOk =>
      if cp_help cp && no_words cp then True                     (* -h: the usage text *)
      else if cp_list cp then cp_list_err cp = false             (* -l: listed *)
      else if cp_help cp then                                    (* -h target: documented, if there is such a target *)
        match cp_mentions cp with MUnknown :: _ => False | _ => True end
      else if no_words cp then
        match cp_default cp with
        | DefaultBody b => if cp_ignore_default cp then cp_list_err cp = false else completes b
        | DefaultArgs => if cp_ignore_default cp then cp_list_err cp = false else False
        | NoDefault => cp_list_err cp = false
        end
      else Forall mention_ok (cp_mentions cp)
  end.

Lemma compiled_main_spec : forall cp, wf_prog cp ->
  (prog_ok cp /\ h_exit (compiled_main true cp) = None) \/
  (~ prog_ok cp /\ exists n, h_exit (compiled_main true cp) = Some n /\ code_ok n).
Proof.
  intros cp [Hwf Hd]. unfold prog_ok, compiled_main, compiled_main_gen, no_words, code_ok.
  destruct (cp_flags cp); [|left; split; auto|right; split; [tauto|exists 2; split; [reflexivity|lia]]].
  destruct (cp_help cp) eqn:Hh; simpl.
  - destruct (cp_mentions cp) as [|m ms] eqn:Em; simpl; [left; split; auto|].
    destruct (cp_list cp).
    + destruct (cp_list_err cp); [right; split; [discriminate|exists 1; split; [reflexivity|lia]]|left; split; auto].
    + destruct m; try (left; split; auto; fail). right. split; [tauto|exists 2; split; [reflexivity|lia]].
  - destruct (cp_list cp).
    + destruct (cp_list_err cp); [right; split; [discriminate|exists 1; split; [reflexivity|lia]]|left; split; auto].
    + destruct (cp_mentions cp) as [|m ms] eqn:Em.
      * unfold list_or_die.
        destruct (cp_default cp) as [| |b]; destruct (cp_ignore_default cp); destruct (cp_list_err cp); simpl;
          try (left; split; [reflexivity|reflexivity]);
          try (right; split; [discriminate|exists 1; split; [reflexivity|lia]]);
          try (right; split; [tauto|exists 2; split; [reflexivity|lia]]).
        -- destruct (target_step b Hd) as [[Hc [v [Hr Hhe]]]|[Hc [Hcode [[v [[Hr|Hr] Hhe]]|Hr]]]]; rewrite Hr; try rewrite Hhe; simpl;
             try (left; split; auto; fail); right; split; auto; exists (status b); split; auto.
        -- destruct (target_step b Hd) as [[Hc [v [Hr Hhe]]]|[Hc [Hcode [[v [[Hr|Hr] Hhe]]|Hr]]]]; rewrite Hr; try rewrite Hhe; simpl;
             try (left; split; auto; fail); right; split; auto; exists (status b); split; auto.
      * simpl. change (match m with MRun _ => _ | _ => _ end) with (run_mentions (m :: ms)).
        destruct (mentions_split (m :: ms) Hwf) as [Hall|[pre [x [post [E [Hp Hx]]]]]].
        -- left. split; auto. rewrite (run_mentions_ok _ Hwf Hall). reflexivity.
        -- right. split.
           ++ intros HH. rewrite E in HH. apply Forall_app_l in HH. destruct HH as [_ HH]. inversion HH; subst. contradiction.
           ++ rewrite E in *. apply Forall_app_l in Hwf. destruct Hwf as [Hw1 Hw2]. inversion Hw2; subst.
              destruct (run_mentions_fail pre x post Hw1 Hp H1 Hx) as [Er Ec]. rewrite Er. simpl. exists (mstatus x). split; auto.
Qed.

Lemma compiled_zero_iff_ok : forall cp, wf_prog cp -> (compiled_exit true cp = 0 <-> prog_ok cp).
Proof.
  intros cp H. unfold compiled_exit, halt_status.
  destruct (compiled_main_spec cp H) as [[Hok E]|[Hno [n [E C]]]]; rewrite E.
  - split; auto.
  - rewrite (kernel_code _ C). unfold code_ok in C. split; [lia|contradiction].
Qed.

Lemma compiled_exit_range : forall cp, wf_prog cp -> 0 <= compiled_exit true cp <= 255.
Proof.
  intros cp H. unfold compiled_exit, halt_status.
  destruct (compiled_main_spec cp H) as [[Hok E]|[Hno [n [E C]]]]; rewrite E.
  - change (kernel 0) with 0. lia.
  - rewrite (kernel_code _ C). unfold code_ok in C. lia.
Qed.

Lemma compiled_bad_flag : forall cp, cp_flags cp = FlagsBad -> compiled_exit true cp = 2.
Proof. intros cp H. unfold compiled_exit, compiled_main, compiled_main_gen. rewrite H. reflexivity. Qed.

Lemma compiled_bad_flag_before_fix : exists cp, cp_flags cp = FlagsBad /\ compiled_exit false cp = 0.
Proof.
  exists {| cp_flags := FlagsBad; cp_list := false; cp_help := false; cp_list_err := false; cp_default := NoDefault;
            cp_ignore_default := false; cp_mentions := [MRun BOk] |}.
  split; reflexivity.
Qed.

(* ================================================================== the front end *)

(* the command the switch of Parse selects *)
Definition selected (a : fargs) : command :=
  if fa_init a then CmdInit else if fa_compile a then CmdCompileStatic
  else if fa_version a then CmdVersion else if fa_clean a then CmdClean else CmdNone.

(* mage only prints its usage text: -help, or -h without a target *)
Definition shows_help (a : fargs) : Prop :=
  fa_parse a = FlagsErrHelp \/ (fa_parse a = FlagsOk /\ fa_help a = true /\ fa_nargs a = 0%nat).

(* command-line misuse of the front end *)
Definition misuse (a : fargs) : Prop :=
  ~ shows_help a /\
  (fa_parse a = FlagsBad                                        (* undefined flag, bad or missing flag value *)
   \/ (fa_help a = true /\ selected a <> CmdNone)               (* -h together with a command *)
   \/ (fa_goosarch a = true /\ selected a <> CmdCompileStatic)  (* -goos/-goarch without -compile *)
   \/ (fa_help a = true /\ (1 < fa_nargs a)%nat)                (* -h with several targets *)
   \/ ((0 < fa_nargs a)%nat /\ selected a <> CmdNone)).         (* words after a command *)

Lemma Parse_spec : forall a,
  (snd (Parse a) = PErrHelp <-> shows_help a) /\
  (snd (Parse a) = PErr <-> misuse a) /\
  (snd (Parse a) = PNoErr -> fst (Parse a) = selected a).
Proof.
  intros [p h i c v cl g f hf n]. unfold Parse, misuse, shows_help, selected; simpl.
  destruct p; simpl.
  - destruct h, i, c, v, cl, g; destruct n as [|[|n]]; simpl;
    (split; [|split]); (split || idtac); intros;
    repeat match goal with H : _ /\ _ |- _ => destruct H | H : _ \/ _ |- _ => destruct H end;
    try discriminate; try congruence; try reflexivity; try lia; try tauto;
    try (split; [intros [?|[? [? ?]]]; discriminate|]); try (right; tauto); try (right; right; tauto).
all: try (intuition (try discriminate; try congruence; try lia)).
  - split; [split; auto|]. split; [split; [discriminate|intros [H _]; exfalso; apply H; auto]|discriminate].
  - assert (E : forall X Y : command * perr, snd X = PErr -> snd Y = PErr -> forall b : bool, snd (if b then X else Y) = PErr)
      by (intros X Y HX HY b; destruct b; assumption).
    assert (HP : snd (if false && h && Nat.eqb n 0 then (CmdNone, PErrHelp) else
                   let cmd := if i then CmdInit else if c then CmdCompileStatic else if v then CmdVersion else if cl then CmdClean else CmdNone in
                   if is_clean cmd && Nat.ltb 0 n then (cmd, PErr) else
                   let numCommands := ((if is_none cmd then 0 else 1) + (if h then 1 else 0))%nat in
                   if Nat.ltb 1 numCommands then (cmd, PErr)
                   else if negb (is_compile cmd) && g then (cmd, PErr)
                   else if h && Nat.ltb 1 n then (cmd, PErr)
                   else if Nat.ltb 0 n && negb (is_none cmd) then (cmd, PErr)
                   else (cmd, if false then PNoErr else PErr)) = PErr).
    { simpl. repeat apply E; reflexivity. }
    simpl in HP |- *. rewrite HP.
    split; [split; [discriminate|intros [H|[H _]]; discriminate]|].
    split; [|discriminate]. split; auto. intros _. split; [intros [H|[H _]]; discriminate|left; reflexivity].
Qed.

(* -compile is the selected command *)
Definition compiling (a : fargs) : bool := fa_compile a && negb (fa_init a).

(* Invoke runs the binary that is already in the cache instead of building one *)
Definition uses_existing (a : fargs) (bd : build) : Prop :=
  (fa_hashfast a = true \/ bd_gocache bd = false) /\ bd_exe_exists bd = true /\ fa_force a = false /\ compiling a = false.

(* "magefiles cannot be found, parsed or compiled" *)
Definition cannot_build (a : fargs) (bd : build) : Prop :=
  bd_list_err bd = true \/ bd_nofiles bd = true
  \/ (compiling a = false /\ bd_exename_err bd = true)
  \/ (fa_hashfast a = false /\ bd_goenv_err bd = true)
  \/ (~ uses_existing a bd /\ (bd_parse_err bd = true \/ bd_generate_err bd = true \/ bd_compile_err bd = true)).

Definition uses_existing_b (a : fargs) (bd : build) : bool :=
  (fa_hashfast a || negb (bd_gocache bd)) && bd_exe_exists bd && negb (fa_force a) && negb (compiling a).
Definition cannot_build_b (a : fargs) (bd : build) : bool :=
  bd_list_err bd || bd_nofiles bd || (negb (compiling a) && bd_exename_err bd) || (negb (fa_hashfast a) && bd_goenv_err bd)
  || (negb (uses_existing_b a bd) && (bd_parse_err bd || bd_generate_err bd || bd_compile_err bd)).

Lemma uses_existing_iff : forall a bd, uses_existing a bd <-> uses_existing_b a bd = true.
Proof.
  intros a bd. unfold uses_existing, uses_existing_b.
  rewrite !andb_true_iff, orb_true_iff, !negb_true_iff. tauto.
Qed.

Lemma cannot_build_iff : forall a bd, cannot_build a bd <-> cannot_build_b a bd = true.
Proof.
  intros a bd. unfold cannot_build, cannot_build_b.
  rewrite !orb_true_iff, !andb_true_iff, !negb_true_iff, uses_existing_iff, not_true_iff_false, !orb_true_iff. tauto.
Qed.

Lemma Invoke_eq : forall a bd ch,
  Invoke a bd ch = if cannot_build_b a bd then fdone 1 true else if compiling a then fdone 0 false else RunCompiled ch.
Proof.
  intros a [le nf ee ge gc ex pe gne ce] ch. unfold cannot_build_b, uses_existing_b, compiling, Invoke; simpl.
  destruct le; [reflexivity|]. destruct nf; [reflexivity|]. simpl.
  destruct (fa_compile a && negb (fa_init a)), (fa_hashfast a), (fa_force a); simpl;
    destruct ee; simpl; try reflexivity; destruct ge; simpl; try reflexivity; destruct gc, ex; simpl; try reflexivity;
    destruct pe; simpl; try reflexivity; destruct gne; simpl; try reflexivity; destruct ce; reflexivity.
Qed.

Lemma Invoke_cannot_build : forall a bd ch, cannot_build a bd -> Invoke a bd ch = fdone 1 true.
Proof. intros a bd ch H. apply cannot_build_iff in H. rewrite Invoke_eq, H. reflexivity. Qed.

Lemma Invoke_builds : forall a bd ch, ~ cannot_build a bd ->
  Invoke a bd ch = if compiling a then fdone 0 false else RunCompiled ch.
Proof.
  intros a bd ch H. rewrite Invoke_eq. destruct (cannot_build_b a bd) eqn:E; [|reflexivity].
  exfalso. apply H. apply cannot_build_iff. exact E.
Qed.

Lemma cannot_build_dec : forall a bd, cannot_build a bd \/ ~ cannot_build a bd.
Proof.
  intros a bd. rewrite cannot_build_iff. destruct (cannot_build_b a bd); [left; reflexivity|right; discriminate].
Qed.

Lemma kernel_idem : forall n, kernel (kernel n) = kernel n.
Proof. intros n. unfold kernel. apply Z.mod_mod. lia. Qed.

(* RunCompiled + os.Exit + kernel hand on exactly what the child's exit produced *)
Lemma run_compiled_transparent : forall n, kernel (sh_ExitStatus (CExit n)) = kernel n.
Proof.
  intros n. unfold sh_ExitStatus, run_err_nil. destruct (Z.eqb_spec (kernel n) 0) as [E|E].
  - rewrite E. reflexivity.
  - apply kernel_idem.
Qed.

Lemma selected_compiling : forall a, selected a = CmdCompileStatic <-> compiling a = true.
Proof.
  intros a. unfold selected, compiling. destruct (fa_init a), (fa_compile a), (fa_version a), (fa_clean a); simpl;
    split; intros; try discriminate; reflexivity.
Qed.

Lemma halt_status_eq : forall h, halt_status h = kernel (match h_exit h with Some n => n | None => 0 end).
Proof. intros h. unfold halt_status. destruct (h_exit h); reflexivity. Qed.

Lemma front_end_transparent : forall fixed sc,
  ~ shows_help (sc_args sc) -> ~ misuse (sc_args sc) -> selected (sc_args sc) = CmdNone ->
  ~ cannot_build (sc_args sc) (sc_build sc) -> sc_start sc = true ->
  mage_status fixed sc = compiled_exit fixed (sc_prog sc) /\ f_child (mage_run fixed sc) = true.
Proof.
  intros fixed sc Hh Hm Hs Hb Hst. unfold mage_status, mage_run, ParseAndRun, ParseAndRun_gen.
  destruct (Parse_spec (sc_args sc)) as [P1 [P2 P3]].
  destruct (Parse (sc_args sc)) as [cmd e] eqn:EP. simpl in *.
  destruct e; [|exfalso; apply Hh; apply P1; reflexivity|exfalso; apply Hm; apply P2; reflexivity].
  rewrite (P3 eq_refl), Hs.
  rewrite (Invoke_builds _ _ _ Hb).
  assert (Hc : compiling (sc_args sc) = false).
  { destruct (compiling (sc_args sc)) eqn:E; auto. apply selected_compiling in E. congruence. }
  rewrite Hc. unfold sc_child. rewrite Hst. unfold child_of, RunCompiled. simpl.
  rewrite run_compiled_transparent. unfold compiled_exit. rewrite halt_status_eq. split; reflexivity.
Qed.

(* the declarative reading of "mage exits 0" *)
Definition all_ok (sc : scenario) : Prop :=
  let a := sc_args sc in
  shows_help a \/
  (~ misuse a /\
   match selected a with
   | CmdVersion => True
   | CmdInit => sc_init_err sc = false
   | CmdClean => sc_clean_err sc = false
   | CmdCompileStatic => ~ cannot_build a (sc_build sc)
   | CmdNone => ~ cannot_build a (sc_build sc) /\ sc_start sc = true /\ prog_ok (sc_prog sc)
   end).

Lemma mage_zero_iff_ok : forall sc, wf_prog (sc_prog sc) -> (mage_status true sc = 0 <-> all_ok sc).
Proof.
  intros sc Hwf. unfold all_ok.
  destruct (Parse_spec (sc_args sc)) as [P1 [P2 P3]].
  unfold mage_status, mage_run, ParseAndRun, ParseAndRun_gen.
  destruct (Parse (sc_args sc)) as [cmd e] eqn:EP. simpl in *.
  destruct e.
  - (* no error *)
    assert (Hnh : ~ shows_help (sc_args sc)) by (intros H; apply P1 in H; discriminate).
    assert (Hnm : ~ misuse (sc_args sc)) by (intros H; apply P2 in H; discriminate).
    rewrite (P3 eq_refl).
    destruct (selected (sc_args sc)) eqn:Es.
    + (* none *)
      destruct (cannot_build_dec (sc_args sc) (sc_build sc)) as [Hb|Hb].
      * rewrite (Invoke_cannot_build _ _ _ Hb). simpl. change (kernel 1) with 1. split; [lia|]. intros [H|[_ [H _]]]; contradiction.
      * rewrite (Invoke_builds _ _ _ Hb).
        assert (Hc : compiling (sc_args sc) = false).
        { destruct (compiling (sc_args sc)) eqn:E; auto. apply selected_compiling in E. congruence. }
        rewrite Hc. unfold sc_child. destruct (sc_start sc) eqn:Est.
        -- unfold child_of, RunCompiled. simpl. rewrite run_compiled_transparent.
           pose proof (compiled_zero_iff_ok _ Hwf) as Z0. unfold compiled_exit, halt_status in Z0.
           destruct (h_exit (compiled_main true (sc_prog sc))) eqn:Eh.
           ++ rewrite Z0. split; [intros H; right; auto|intros [H|[_ [_ [_ H]]]]; [contradiction|auto]].
           ++ change (kernel 0) with 0 in *. split; [intros _; right; split; auto; split; auto; split; auto; apply Z0; auto|auto].
        -- change (kernel (f_code (RunCompiled CNotStarted))) with 1. split; [lia|]. intros [H|[_ [_ [H _]]]]; [contradiction|discriminate].
    + (* version *) simpl. change (kernel 0) with 0. split; auto.
    + (* init *) destruct (sc_init_err sc); simpl.
      * change (kernel 1) with 1. split; [lia|]. intros [H|[_ H]]; [contradiction|discriminate].
      * change (kernel 0) with 0. split; auto.
    + (* clean *) destruct (sc_clean_err sc); simpl.
      * change (kernel 1) with 1. split; [lia|]. intros [H|[_ H]]; [contradiction|discriminate].
      * change (kernel 0) with 0. split; auto.
    + (* compile *)
      destruct (cannot_build_dec (sc_args sc) (sc_build sc)) as [Hb|Hb].
      * rewrite (Invoke_cannot_build _ _ _ Hb). simpl. change (kernel 1) with 1. split; [lia|]. intros [H|[_ H]]; contradiction.
      * rewrite (Invoke_builds _ _ _ Hb).
        assert (Hc : compiling (sc_args sc) = true) by (apply selected_compiling; auto).
        rewrite Hc. simpl. change (kernel 0) with 0. split; auto.
  - (* help *) replace (kernel _) with 0 by (destruct cmd; reflexivity). split; [intros _; left; apply P1; reflexivity|auto].
  - (* misuse *) replace (kernel _) with 2 by (destruct cmd; reflexivity). split; [lia|].
    assert (Hm : misuse (sc_args sc)) by (apply P2; reflexivity).
    intros [H|[H _]]; [|contradiction]. apply P1 in H. discriminate.
Qed.

Lemma front_misuse_two : forall fixed sc, misuse (sc_args sc) -> mage_status fixed sc = 2 /\ f_child (mage_run fixed sc) = false.
Proof.
  intros fixed sc H. destruct (Parse_spec (sc_args sc)) as [_ [P2 _]]. apply P2 in H.
  unfold mage_status, mage_run, ParseAndRun, ParseAndRun_gen. destruct (Parse (sc_args sc)) as [cmd e]. simpl in H. subst e.
  destruct cmd; split; reflexivity.
Qed.

Lemma cannot_build_one : forall fixed sc, ~ shows_help (sc_args sc) -> ~ misuse (sc_args sc) ->
  (selected (sc_args sc) = CmdNone \/ selected (sc_args sc) = CmdCompileStatic) ->
  cannot_build (sc_args sc) (sc_build sc) ->
  mage_status fixed sc = 1 /\ f_child (mage_run fixed sc) = false /\ f_msg (mage_run fixed sc) = true.
Proof.
  intros fixed sc Hh Hm Hs Hb. destruct (Parse_spec (sc_args sc)) as [P1 [P2 P3]].
  unfold mage_status, mage_run, ParseAndRun, ParseAndRun_gen. destruct (Parse (sc_args sc)) as [cmd e]. simpl in *.
  destruct e; [|exfalso; apply Hh; apply P1; reflexivity|exfalso; apply Hm; apply P2; reflexivity].
  rewrite (P3 eq_refl). destruct Hs as [Hs|Hs]; rewrite Hs; rewrite (Invoke_cannot_build _ _ _ Hb); repeat split; reflexivity.
Qed.

(* the binary in the cache cannot be started: message, 1 *)
Lemma not_started_one : forall fixed sc, ~ shows_help (sc_args sc) -> ~ misuse (sc_args sc) -> selected (sc_args sc) = CmdNone ->
  ~ cannot_build (sc_args sc) (sc_build sc) -> sc_start sc = false ->
  mage_status fixed sc = 1 /\ f_msg (mage_run fixed sc) = true.
Proof.
  intros fixed sc Hh Hm Hs Hb Hst. destruct (Parse_spec (sc_args sc)) as [P1 [P2 P3]].
  unfold mage_status, mage_run, ParseAndRun, ParseAndRun_gen. destruct (Parse (sc_args sc)) as [cmd e]. simpl in *.
  destruct e; [|exfalso; apply Hh; apply P1; reflexivity|exfalso; apply Hm; apply P2; reflexivity].
  rewrite (P3 eq_refl), Hs, (Invoke_builds _ _ _ Hb).
  assert (Hc : compiling (sc_args sc) = false).
  { destruct (compiling (sc_args sc)) eqn:E; auto. apply selected_compiling in E. congruence. }
  rewrite Hc. unfold sc_child. rewrite Hst. split; reflexivity.
Qed.

(* ================================================================== dependency sets *)

Lemma members_facts : forall ds, Forall (fun d => wf_body d /\ exit_free d) ds ->
  no_exit (map run_body ds) /\ map rstatus (map run_body ds) = map status ds /\
  Forall (fun d => rfails (run_body d) = false <-> status d = 0) ds.
Proof.
  intros ds H.
  assert (HM : Forall (fun d => (match run_body d with Exited _ => False | _ => True end) /\
                                rstatus (run_body d) = status d /\ 0 <= status d <= 255 /\
                                (rfails (run_body d) = false <-> status d = 0)) ds).
  { eapply Forall_impl; [|exact H]. simpl. intros d [Hw He]. apply member_facts; auto. apply run_body_matches; auto. }
  split; [|split].
  - unfold no_exit. apply Forall_map. eapply Forall_impl; [|exact HM]. simpl. intros d [Hd _]. destruct (run_body d); auto.
  - rewrite map_map. apply map_ext_in. intros d Hd. rewrite Forall_forall in HM. apply (HM d Hd).
  - eapply Forall_impl; [|exact HM]. simpl. tauto.
Qed.

Lemma combine_single : forall x, combine [x] = x.
Proof. intros x. unfold combine. simpl. unfold changeExit. destruct (Z.eqb_spec x 0); [congruence|reflexivity]. Qed.

Lemma deps_status : forall ds, Forall (fun d => wf_body d /\ exit_free d) ds -> ~ Forall completes ds ->
  run_body (BDeps false ds) = Panicked (VFatal (combine (map status ds))) /\
  code_ok (combine (map status ds)) /\
  (forall ds', Permutation ds ds' ->
     run_body (BDeps false ds') = run_body (BDeps false ds) /\ combine (map status ds') = combine (map status ds)).
Proof.
  intros ds Hwf Hnc.
  assert (W : wf_body (BDeps false ds)) by (apply wf_deps; exact Hwf).
  pose proof (run_body_matches _ W) as M. pose proof (completes_iff_status _ W) as C.
  destruct (members_facts ds Hwf) as [Hne [Hst _]].
  unfold result_matches in M. simpl in M, C |- *. rewrite (runDeps_eq _ Hne), Hst in *.
  rewrite all_bodies_completes, all_bodies_Forall in C.
  split; [|split].
  - destruct (Nat.ltb 0 (length (filter rfails (map run_body ds)))); [reflexivity|].
    destruct M as [[_ M]|[M _]]; [|discriminate]. exfalso. apply Hnc. apply C. exact M.
  - destruct (Nat.ltb 0 (length (filter rfails (map run_body ds)))).
    + destruct M as [_ [_ M]]. exact M.
    + destruct M as [[_ M]|[M _]]; [|discriminate]. exfalso. apply Hnc. apply C. exact M.
  - intros ds' HP. split.
    + rewrite <- Hst, <- (runDeps_eq _ Hne). symmetry. apply runDeps_perm; [exact Hne|]. apply Permutation_map. exact HP.
    + apply combine_perm. apply Permutation_map. apply Permutation_sym. exact HP.
Qed.

Lemma serial_deps_status : forall pre d post,
  Forall (fun d => wf_body d /\ exit_free d) pre -> Forall completes pre ->
  wf_body d -> exit_free d -> ~ completes d ->
  run_body (BDeps true (pre ++ d :: post)) = Panicked (VFatal (status d)) /\ code_ok (status d) /\
  status (BDeps true (pre ++ d :: post)) = status d.
Proof.
  intros pre d post Hwf Hc Hwd Hed Hnd. simpl.
  assert (Step : forall x, wf_body x -> exit_free x ->
            runDeps [run_body x] = if rfails (run_body x) then Panicked (VFatal (status x)) else Returned VNil).
  { intros x Hwx Hex. destruct (members_facts [x]) as [Hne [Hst _]]; [constructor; auto|].
    simpl in Hne, Hst. rewrite (runDeps_eq _ Hne). simpl. inversion Hst as [Hs]. rewrite Hs.
    destruct (rfails (run_body x)); simpl; [rewrite combine_single|]; reflexivity. }
  assert (Fd : rfails (run_body d) = true /\ code_ok (status d)).
  { destruct (members_facts [d]) as [_ [_ Hf]]; [constructor; auto|]. inversion Hf as [|? ? Hf1 _]; subst.
    pose proof (completes_iff_status d Hwd) as C. pose proof (status_range d Hwd) as R.
    destruct (rfails (run_body d)); [split; auto; unfold code_ok|exfalso; apply Hnd, C, Hf1; reflexivity].
    assert (status d <> 0) by (intros E; apply Hnd, C, E). lia. }
  induction pre as [|p pre IH]; simpl.
  - rewrite (Step d Hwd Hed). destruct Fd as [Fd1 Fd2]. rewrite Fd1. split; [reflexivity|]. split; [exact Fd2|].
    unfold code_ok in Fd2. destruct (Z.eqb_spec (status d) 0); [lia|reflexivity].
  - inversion Hwf as [|? ? [Hwp Hep] Hwr]; subst. inversion Hc as [|? ? Hcp Hcr]; subst.
    rewrite (Step p Hwp Hep).
    destruct (members_facts [p]) as [_ [_ Hf]]; [constructor; auto|]. inversion Hf as [|? ? Hf1 _]; subst.
    pose proof (completes_iff_status p Hwp) as C.
    assert (Hz : status p = 0) by (apply C; exact Hcp).
    replace (rfails (run_body p)) with false by (symmetry; apply Hf1; exact Hz).
    rewrite Hz. simpl. apply IH; auto.
Qed.

(* ================================================================== a worked instance *)

Definition plain_args (n : nat) : fargs :=
  {| fa_parse := FlagsOk; fa_help := false; fa_init := false; fa_compile := false; fa_version := false; fa_clean := false;
     fa_goosarch := false; fa_force := false; fa_hashfast := false; fa_nargs := n |}.
Definition good_build : build :=
  {| bd_list_err := false; bd_nofiles := false; bd_exename_err := false; bd_goenv_err := false; bd_gocache := true;
     bd_exe_exists := false; bd_parse_err := false; bd_generate_err := false; bd_compile_err := false |}.
Definition line (ms : list mention) : cprog :=
  {| cp_flags := FlagsOk; cp_list := false; cp_help := false; cp_list_err := false; cp_default := NoDefault;
     cp_ignore_default := false; cp_mentions := ms |}.
Definition via_mage (cp : cprog) : scenario :=
  {| sc_args := plain_args (length (cp_mentions cp)); sc_init_err := false; sc_clean_err := false; sc_build := good_build;
     sc_start := true; sc_prog := cp |}.

Lemma nonvacuous_c05 :
  let same := line [MRun BOk; MRun (BDeps false [BFatal 5; BOk; BPanicFatal 5]); MRun (BFatal 9)] in
  let diff := line [MRun (BDeps false [BFatal 5; BSh (CExit 7)]); MRun BOk] in
  let good := line [MRun BOk; MRun (BDeps true [BOk; BSh (CExit 0)])] in
  wf_prog same /\ wf_prog diff /\ wf_prog good /\
  mage_status true (via_mage same) = 5 /\ h_ran (compiled_main true same) = 2%nat /\ ~ prog_ok same /\
  mage_status true (via_mage diff) = 1 /\ compiled_exit true diff = 1 /\
  mage_status true (via_mage good) = 0 /\ prog_ok good /\ all_ok (via_mage good) /\
  compiled_exit true (line [MRun (BFatal 200); MRun (BFatal 3)]) = 200 /\
  compiled_exit true (line [MRun (BFatal 256)]) = 0 (* outside the quantifier: the kernel keeps 8 bits *).
Proof.
  simpl. unfold wf_prog, code_ok. simpl.
  repeat match goal with |- _ /\ _ => split end; try reflexivity; try lia;
    try (repeat constructor; simpl; unfold code_ok; try lia; fail).
  - intros H. inversion H as [|? ? _ H1]; subst. inversion H1 as [|? ? H2 _]; subst. simpl in H2. tauto.
  - unfold all_ok. right. split.
    + unfold misuse, shows_help, selected. simpl. intros [_ H]. intuition (try discriminate; try congruence; try lia).
    + simpl. split; [|split; [reflexivity|]].
      * unfold cannot_build, uses_existing, compiling. simpl. intuition discriminate.
      * unfold prog_ok. simpl. repeat constructor; simpl; auto.
Qed.

(* ================================================================== the statements of Props/C05.v *)

(* the front end gets as far as running the compiled program *)
Definition runs_program (sc : scenario) : Prop :=
  ~ shows_help (sc_args sc) /\ ~ misuse (sc_args sc) /\ selected (sc_args sc) = CmdNone /\
  ~ cannot_build (sc_args sc) (sc_build sc) /\ sc_start sc = true.

Lemma transparent : forall fixed sc, runs_program sc -> mage_status fixed sc = compiled_exit fixed (sc_prog sc).
Proof. intros fixed sc [H1 [H2 [H3 [H4 H5]]]]. apply front_end_transparent; auto. Qed.

Lemma carried : forall fixed cp pre b post,
  targets_line cp (pre ++ MRun b :: post) -> Forall wf_mention pre -> Forall mention_ok pre -> wf_body b -> ~ completes b ->
  compiled_exit fixed cp = status b /\ 1 <= status b <= 255 /\
  (forall sc, sc_prog sc = cp -> runs_program sc -> mage_status fixed sc = status b) /\
  (* the status carried by each kind of failure *)
  (forall c, status (BFatal c) = c) /\ (forall c, status (BPanicFatal c) = c) /\
  (forall k, status (BSh (CExit k)) = k) /\ (forall c, status (BOsExit c) = c) /\
  (forall ds, status (BDeps false ds) = combine (map status ds)).
Proof.
  intros fixed cp pre b post HL Hwf Hok Hwb Hnb.
  destruct (first_failure_decides fixed cp pre (MRun b) post HL Hwf Hok Hwb Hnb) as [E [C _]]. simpl in E, C.
  split; [exact E|]. split; [exact C|]. split.
  - intros sc Hp Hr. rewrite (transparent fixed sc Hr), Hp. exact E.
  - repeat split; reflexivity.
Qed.

Definition plain_failure (b : body) : Prop :=
  b = BErr \/ b = BPanicErr \/ b = BPanicVal \/ b = BSh CNotStarted \/ b = BSh CSignaled \/ b = BShCopyErr.
Definition word_misuse (m : mention) : Prop := m = MUnknown \/ m = MMissing \/ m = MBadArg.

Lemma classes :
  (* a plain error or a non-error panic: 1 *)
  (forall fixed cp pre b post, targets_line cp (pre ++ MRun b :: post) -> Forall wf_mention pre -> Forall mention_ok pre ->
     plain_failure b -> compiled_exit fixed cp = 1) /\
  (* unknown target, missing or bad argument: 2, and the word's target does not run *)
  (forall fixed cp pre m post, targets_line cp (pre ++ m :: post) -> Forall wf_mention pre -> Forall mention_ok pre ->
     word_misuse m -> compiled_exit fixed cp = 2 /\ h_ran (compiled_main fixed cp) = length pre) /\
  (* -h for an unknown target; a default target that needs arguments and gets none: 2 *)
  (forall fixed cp ms, cp_flags cp = FlagsOk -> cp_list cp = false -> cp_help cp = true -> cp_mentions cp = MUnknown :: ms ->
     compiled_exit fixed cp = 2) /\
  (forall fixed cp, cp_flags cp = FlagsOk -> cp_list cp = false -> cp_help cp = false -> cp_mentions cp = [] ->
     cp_default cp = DefaultArgs -> cp_ignore_default cp = false -> compiled_exit fixed cp = 2) /\
  (* misuse of the front end's own command line: 2, nothing is run *)
  (forall fixed sc, misuse (sc_args sc) -> mage_status fixed sc = 2 /\ f_child (mage_run fixed sc) = false) /\
  (* magefiles cannot be found, parsed or compiled: 1, nothing is run, a message is written *)
  (forall fixed sc, ~ shows_help (sc_args sc) -> ~ misuse (sc_args sc) ->
     (selected (sc_args sc) = CmdNone \/ selected (sc_args sc) = CmdCompileStatic) ->
     cannot_build (sc_args sc) (sc_build sc) ->
     mage_status fixed sc = 1 /\ f_child (mage_run fixed sc) = false /\ f_msg (mage_run fixed sc) = true).
Proof.
  split; [|split; [|split; [|split; [|split]]]].
  - intros fixed cp pre b post HL Hwf Hok Hp.
    assert (W : wf_body b /\ ~ completes b /\ status b = 1).
    { destruct Hp as [H|[H|[H|[H|[H|H]]]]]; subst; simpl; tauto. }
    destruct W as [W1 [W2 W3]].
    destruct (first_failure_decides fixed cp pre (MRun b) post HL Hwf Hok W1 W2) as [E _]. simpl in E. congruence.
  - intros fixed cp pre m post HL Hwf Hok Hm.
    assert (W : wf_mention m /\ ~ mention_ok m /\ mstatus m = 2 /\ mstarted m = 0%nat).
    { destruct Hm as [H|[H|H]]; subst; simpl; tauto. }
    destruct W as [W1 [W2 [W3 W4]]].
    destruct (first_failure_decides fixed cp pre m post HL Hwf Hok W1 W2) as [E [_ [R _]]].
    rewrite E, R, W3, W4. split; [reflexivity|lia].
  - intros fixed cp ms Hf Hl Hh Hm. unfold compiled_exit, compiled_main, compiled_main_gen. rewrite Hf, Hl, Hh, Hm. reflexivity.
  - intros fixed cp Hf Hl Hh Hm Hd Hi. unfold compiled_exit, compiled_main, compiled_main_gen. rewrite Hf, Hl, Hh, Hm, Hd, Hi. reflexivity.
  - intros fixed sc H. apply front_misuse_two; auto.
  - intros fixed sc H1 H2 H3 H4. apply cannot_build_one; auto.
Qed.

(* ================================================================== the failure message on stderr (after 836d65c) *)

Lemma run_mentions_reported : forall ms n, h_exit (run_mentions ms) = Some n -> h_msg (run_mentions ms) = false ->
  exists b c, In (MRun b) ms /\ run_body b = Exited c.
Proof.
  induction ms as [|m ms IH]; intros n He Hm; simpl in *; [discriminate|].
  destruct m as [b| | |]; simpl in *; try discriminate.
  destruct (run_body b) as [v|v|c] eqn:E.
  - destruct (handleError v); simpl in *; [discriminate|].
    destruct (IH n He Hm) as [b' [c' [Hi Hr]]]. exists b', c'. split; auto.
  - destruct (handleError v); simpl in *; [discriminate|].
    destruct (IH n He Hm) as [b' [c' [Hi Hr]]]. exists b', c'. split; auto.
  - exists b, c. split; auto.
Qed.

(* whenever the generated main ends with os.Exit(n) it has written a diagnostic to stderr itself, unless a
   requested body (or the default target's) ended the process with os.Exit *)
Lemma failure_reported : forall cp n,
  h_exit (compiled_main true cp) = Some n -> h_msg (compiled_main true cp) = false ->
  exists b c, run_body b = Exited c /\ (In (MRun b) (cp_mentions cp) \/ cp_default cp = DefaultBody b).
Proof.
  intros cp n. unfold compiled_main, compiled_main_gen, list_or_die.
  destruct (cp_flags cp); simpl; try discriminate.
  destruct (cp_help cp && match cp_mentions cp with [] => true | _ => false end); simpl; try discriminate.
  destruct (cp_list cp).
  { destruct (cp_list_err cp); simpl; discriminate. }
  destruct (cp_help cp).
  { destruct (cp_mentions cp) as [|[b| | |] ms]; simpl; discriminate. }
  destruct (cp_mentions cp) as [|m ms] eqn:Em.
  - destruct (cp_default cp) as [| |b] eqn:Ed; destruct (cp_ignore_default cp); destruct (cp_list_err cp); simpl; try discriminate.
    + intros He Hm. destruct (run_mentions_reported [MRun b] n He Hm) as [b' [c' [[Hi|[]] Hr]]]. inversion Hi; subst.
      exists b', c'. split; auto.
    + intros He Hm. destruct (run_mentions_reported [MRun b] n He Hm) as [b' [c' [[Hi|[]] Hr]]]. inversion Hi; subst.
      exists b', c'. split; auto.
  - intros He Hm. destruct (run_mentions_reported (m :: ms) n He Hm) as [b' [c' [Hi Hr]]]. exists b', c'. split; auto.
Qed.

Lemma bad_flag_reported : forall cp, cp_flags cp = FlagsBad ->
  h_exit (compiled_main true cp) = Some 2 /\ h_msg (compiled_main true cp) = true.
Proof. intros cp H. unfold compiled_main, compiled_main_gen. rewrite H. split; reflexivity. Qed.

Lemma list_failure_reported : forall cp, cp_flags cp = FlagsOk -> cp_help cp && no_words cp = false ->
  cp_list cp = true -> cp_list_err cp = true ->
  h_exit (compiled_main true cp) = Some 1 /\ h_msg (compiled_main true cp) = true.
Proof.
  intros cp Hf Hh Hl He. unfold compiled_main, compiled_main_gen. unfold no_words in Hh. rewrite Hf, Hh, Hl, He. split; reflexivity.
Qed.

(* before 836d65c both ended with a non-zero status and nothing on stderr *)
Lemma silent_before_repair :
  (exists cp, cp_flags cp = FlagsBad /\ h_exit (compiled_main_gen true false cp) = Some 2 /\ h_msg (compiled_main_gen true false cp) = false) /\
  (exists cp, cp_list cp = true /\ cp_list_err cp = true /\
              h_exit (compiled_main_gen true false cp) = Some 1 /\ h_msg (compiled_main_gen true false cp) = false).
Proof.
  split.
  - exists {| cp_flags := FlagsBad; cp_list := false; cp_help := false; cp_list_err := false; cp_default := NoDefault;
              cp_ignore_default := false; cp_mentions := [MRun BOk] |}. repeat split; reflexivity.
  - exists {| cp_flags := FlagsOk; cp_list := true; cp_help := false; cp_list_err := true; cp_default := NoDefault;
              cp_ignore_default := false; cp_mentions := [] |}. repeat split; reflexivity.
Qed.

(* a flag error anywhere on mage's command line, whatever valid options, commands and words stand before or after
   it: 2, a message, and nothing is built or run *)
Lemma flag_error_anywhere : forall fixed sc, fa_parse (sc_args sc) = FlagsBad ->
  mage_status fixed sc = 2 /\ f_child (mage_run fixed sc) = false /\ f_msg (mage_run fixed sc) = true.
Proof.
  intros fixed sc H.
  assert (M : misuse (sc_args sc)).
  { split; [intros [E|[E _]]; congruence|left; exact H]. }
  destruct (front_misuse_two fixed sc M) as [E1 E2]. split; [exact E1|]. split; [exact E2|].
  destruct (Parse_spec (sc_args sc)) as [_ [P2 _]]. apply P2 in M.
  unfold mage_run, ParseAndRun, ParseAndRun_gen. destruct (Parse (sc_args sc)) as [cmd e]. simpl in M. subst e. destruct cmd; reflexivity.
Qed.

(* a failed sh command that has no exit code of its own - killed by a signal, could not be started, or ran (exit 0)
   while c.Run() failed with an error that is not an *exec.ExitError - is a plain error: sh hands on fmt.Errorf, the
   status is 1, never the child's 0 or the wait status' -1 *)
Lemma sh_without_exit_code : forall b, b = BSh CSignaled \/ b = BSh CNotStarted \/ b = BShCopyErr ->
  run_body b = Returned VPlain /\ status b = 1 /\ wf_body b /\ ~ completes b /\ plain_failure b.
Proof.
  intros b [H|[H|H]]; subst; simpl; unfold plain_failure; repeat split; auto; tauto.
Qed.

(* a -clean that fails (since 158c196): 1 and a message on stderr; before: 1 and nothing on stderr *)
Lemma clean_failure_reported : forall fixed sc, ~ shows_help (sc_args sc) -> ~ misuse (sc_args sc) ->
  selected (sc_args sc) = CmdClean -> sc_clean_err sc = true ->
  mage_status fixed sc = 1 /\ f_msg (mage_run fixed sc) = true /\ f_child (mage_run fixed sc) = false.
Proof.
  intros fixed sc Hh Hm Hs He. destruct (Parse_spec (sc_args sc)) as [P1 [P2 P3]].
  unfold mage_status, mage_run, ParseAndRun, ParseAndRun_gen. destruct (Parse (sc_args sc)) as [cmd e]. simpl in *.
  destruct e; [|exfalso; apply Hh; apply P1; reflexivity|exfalso; apply Hm; apply P2; reflexivity].
  rewrite (P3 eq_refl), Hs, He. repeat split; reflexivity.
Qed.

Lemma clean_failure_silent_before_repair : exists a bd ch,
  f_code (ParseAndRun_gen false a false true bd ch) = 1 /\ f_msg (ParseAndRun_gen false a false true bd ch) = false.
Proof.
  exists {| fa_parse := FlagsOk; fa_help := false; fa_init := false; fa_compile := false; fa_version := false; fa_clean := true;
            fa_goosarch := false; fa_force := false; fa_hashfast := false; fa_nargs := 0 |}, good_build, CNotStarted.
  split; reflexivity.
Qed.
