(* The exit status algebra of mg/deps.go changeExit: what the fold computes, and that the order in
   which the goroutines report does not matter. *)
From Mage Require Import Base.Strs Model.Deps Proof.Deps_defs.
From Coq Require Import ZArith Lia Permutation.

Local Open Scope Z_scope.

Lemma changeExit_zero_r : forall a, changeExit a 0 = a.
Proof. intros a. unfold changeExit. reflexivity. Qed.

Lemma fold_changeExit_one : forall cs, fold_left changeExit cs 1 = 1.
Proof.
  induction cs as [|c cs IH]; simpl; [reflexivity|].
  replace (changeExit 1 c) with 1; [exact IH|].
  unfold changeExit. destruct (Z.eqb c 0); [reflexivity|].
  change (1 =? 0) with false. cbv iota. destruct (1 =? c); reflexivity.
Qed.

Lemma fold_changeExit_nz : forall cs acc, acc <> 0 ->
  fold_left changeExit cs acc =
  if forallb (Z.eqb acc) (filter (fun c => negb (Z.eqb c 0)) cs) then acc else 1.
Proof.
  induction cs as [|c cs IH]; intros acc Hacc; simpl; [reflexivity|].
  unfold changeExit at 2.
  destruct (Z.eqb_spec c 0) as [Hc|Hc]; simpl.
  - apply IH; exact Hacc.
  - destruct (Z.eqb_spec acc 0) as [H0|H0]; [contradiction|].
    destruct (Z.eqb_spec acc c) as [He|He]; simpl.
    + apply IH; exact Hacc.
    + apply fold_changeExit_one.
Qed.

Lemma combine_spec : forall cs,
  combine cs = match filter (fun c => negb (Z.eqb c 0)) cs with
               | [] => 0%Z
               | v :: r => if forallb (Z.eqb v) r then v else 1%Z
               end.
Proof.
  unfold combine.
  induction cs as [|c cs IH]; simpl; [reflexivity|].
  unfold changeExit at 2.
  destruct (Z.eqb_spec c 0) as [Hc|Hc]; simpl.
  - exact IH.
  - apply fold_changeExit_nz; exact Hc.
Qed.

Lemma changeExit_comm_r : forall a x y,
  changeExit (changeExit a x) y = changeExit (changeExit a y) x.
Proof.
  intros a x y. unfold changeExit.
  destruct (Z.eqb_spec x 0), (Z.eqb_spec y 0); try reflexivity.
  destruct (Z.eqb_spec a 0), (Z.eqb_spec a x), (Z.eqb_spec a y); subst;
  repeat match goal with
         | |- context [Z.eqb ?u ?v] => destruct (Z.eqb_spec u v)
         end; subst; try reflexivity; try congruence; try lia.
Qed.

Lemma fold_changeExit_perm : forall a b, Permutation a b ->
  forall acc, fold_left changeExit a acc = fold_left changeExit b acc.
Proof.
  induction 1; intros acc; simpl.
  - reflexivity.
  - apply IHPermutation.
  - rewrite changeExit_comm_r. reflexivity.
  - rewrite IHPermutation1. apply IHPermutation2.
Qed.

Lemma combine_perm : forall a b, Permutation a b -> combine a = combine b.
Proof. intros a b H. unfold combine. apply fold_changeExit_perm; exact H. Qed.
