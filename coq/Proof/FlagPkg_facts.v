(* Facts about Model/FlagPkg.v (the transcription of Go's flag package). *)
From Mage Require Import Base.Strs Model.FlagPkg.

Section Ext.
Variable parse_dur : string -> option Z.
Notation parse_from := (parse_from parse_dur).
Notation cl_parse := (cl_parse parse_dur).
Notation set_value := (set_value parse_dur).

(* a word list that the parser eats completely as flags and flag values, without meeting "--" or a non-flag word:
   parsing [pre ++ x] continues with x and the assignments [a] *)
Definition consumed (sp : spec) (pre : list string) (a : assigns) : Prop :=
  forall x acc, parse_from sp (pre ++ x) None acc = parse_from sp x None (acc ++ a).

(* the child will not take any of these words for a flag: none, or the first one does not look like a flag *)
Definition starts_plain (ws : list string) : Prop :=
  match ws with [] => True | s :: _ => classify s = WNonFlag end.

Lemma parse_nonflag : forall sp s tl acc, classify s = WNonFlag -> parse_from sp (s :: tl) None acc = POk acc (s :: tl).
Proof. intros. simpl. rewrite H. reflexivity. Qed.

Lemma parse_plain : forall sp ws acc, starts_plain ws -> parse_from sp ws None acc = POk acc ws.
Proof. intros sp [|s tl] acc H; [reflexivity|apply parse_nonflag; exact H]. Qed.

(* where the leftover words come from: they are a suffix of the command line; either they begin with a word that does
   not look like a flag (or there are none), or they are what follows a consumed "--" *)
Lemma rest_shape : forall sp args pend acc a rest,
  parse_from sp args pend acc = POk a rest ->
  (exists pre, args = pre ++ rest /\ starts_plain rest) \/ (exists pre, args = pre ++ "--" :: rest).
Proof.
  intros sp args; induction args as [|s tl IH]; intros pend acc a rest H; simpl in H.
  - destruct pend; [discriminate|]. injection H as _ <-. left. exists []. split; [reflexivity|exact I].
  - assert (K : forall pend' acc', parse_from sp tl pend' acc' = POk a rest ->
              (exists pre, s :: tl = pre ++ rest /\ starts_plain rest) \/ (exists pre, s :: tl = pre ++ "--" :: rest)).
    { intros pend' acc' H'. destruct (IH _ _ _ _ H') as [[pre [E P]]|[pre E]].
      - left. exists (s :: pre). rewrite E. split; [reflexivity|exact P].
      - right. exists (s :: pre). rewrite E. reflexivity. }
    destruct pend as [[n k]|].
    + destruct (set_value k s); [|discriminate]. eapply K; eassumption.
    + destruct (classify s) as [| | |n hv] eqn:C.
      * injection H as _ <-. left. exists []. split; [reflexivity|exact C].
      * injection H as _ <-. right. exists [].
        assert (s = "--") as ->; [|reflexivity].
        destruct s as [|c0 [|c1 r]]; try discriminate. unfold classify in C.
        destruct (is_dash c0) eqn:D0; simpl in C; [|discriminate].
        destruct (is_dash c1 && String.eqb r "") eqn:D1.
        -- apply andb_true_iff in D1. destruct D1 as [D1 R]. apply String.eqb_eq in R. subst r.
           apply Ascii.eqb_eq in D0, D1. subst. reflexivity.
        -- destruct (if is_dash c1 then r else String c1 r) as [|n0 nr]; [discriminate|].
           destruct (is_dash n0 || is_eq n0); [discriminate|]. destruct (cut_eq nr); discriminate.
      * discriminate.
      * destruct (kind_of sp n) as [[| |]|].
        -- destruct hv as [v|]; [destruct (parse_bool v); [|discriminate]|]; eapply K; eassumption.
        -- destruct hv as [v|]; [destruct (set_value KDur v); [|discriminate]|]; eapply K; eassumption.
        -- destruct hv as [v|]; [destruct (set_value KStr v); [|discriminate]|]; eapply K; eassumption.
        -- destruct (String.eqb n "help" || String.eqb n "h"); discriminate.
Qed.

(* flags after the first target stay words: once a prefix has been eaten as flags, a word that does not look like a
   flag ends the parsing and everything from it on is left over, flag-like or not *)
Lemma consumed_then_word : forall sp pre a t post,
  consumed sp pre a -> classify t = WNonFlag -> cl_parse sp (pre ++ t :: post) = POk a (t :: post).
Proof. intros sp pre a t post C N. unfold cl_parse. rewrite C. apply parse_nonflag. exact N. Qed.

Lemma consumed_then_terminator : forall sp pre a post,
  consumed sp pre a -> cl_parse sp (pre ++ "--" :: post) = POk a post.
Proof. intros sp pre a post C. unfold cl_parse. rewrite C. reflexivity. Qed.

Lemma consumed_nil : forall sp, consumed sp [] [].
Proof. intros sp x acc. rewrite app_nil_r. reflexivity. Qed.

Lemma consumed_app : forall sp p1 a1 p2 a2, consumed sp p1 a1 -> consumed sp p2 a2 -> consumed sp (p1 ++ p2) (a1 ++ a2).
Proof. intros sp p1 a1 p2 a2 C1 C2 x acc. rewrite <- app_assoc, C1, C2, app_assoc. reflexivity. Qed.

(* the shapes of one consumed flag *)
Lemma consumed_bool : forall sp s n, classify s = WFlag n None -> kind_of sp n = Some KBool -> consumed sp [s] [(n, VB true)].
Proof. intros sp s n C K x acc. simpl. rewrite C, K. reflexivity. Qed.

Lemma consumed_bool_eq : forall sp s n v b, classify s = WFlag n (Some v) -> kind_of sp n = Some KBool ->
  parse_bool v = Some b -> consumed sp [s] [(n, VB b)].
Proof. intros sp s n v b C K P x acc. simpl. rewrite C, K, P. reflexivity. Qed.

Lemma consumed_value_eq : forall sp s n k v fv, classify s = WFlag n (Some v) -> kind_of sp n = Some k -> k <> KBool ->
  set_value k v = Some fv -> consumed sp [s] [(n, fv)].
Proof. intros sp s n k v fv C K NB S x acc. simpl. rewrite C, K. destruct k; [congruence| |]; rewrite S; reflexivity. Qed.

Lemma consumed_value_next : forall sp s n k v fv, classify s = WFlag n None -> kind_of sp n = Some k -> k <> KBool ->
  set_value k v = Some fv -> consumed sp [s; v] [(n, fv)].
Proof. intros sp s n k v fv C K NB S x acc. simpl. rewrite C, K. destruct k; [congruence| |]; rewrite S; reflexivity. Qed.

(* a malformed value: rejected wherever it stands among the flags, with what was set before it *)
Lemma bad_value_next : forall sp pre a s n k v post, consumed sp pre a ->
  classify s = WFlag n None -> kind_of sp n = Some k -> k <> KBool -> set_value k v = None ->
  cl_parse sp (pre ++ s :: v :: post) = PBad (fail_set a n k).
Proof.
  intros sp pre a s n k v post C Cl K NB S. unfold cl_parse. rewrite C. simpl. rewrite Cl, K.
  destruct k; [congruence| |]; rewrite S; reflexivity.
Qed.

Lemma bad_value_eq : forall sp pre a s n k v post, consumed sp pre a ->
  classify s = WFlag n (Some v) -> kind_of sp n = Some k -> set_value k v = None ->
  cl_parse sp (pre ++ s :: post) = PBad (fail_set a n k).
Proof.
  intros sp pre a s n k v post C Cl K S. unfold cl_parse. rewrite C. simpl. rewrite Cl, K.
  destruct k; simpl in S |- *.
  - destruct (parse_bool v); [discriminate|reflexivity].
  - rewrite S. reflexivity.
  - discriminate.
Qed.

Lemma undefined_flag : forall sp pre a s n hv post, consumed sp pre a ->
  classify s = WFlag n hv -> kind_of sp n = None -> (String.eqb n "help" || String.eqb n "h") = false ->
  cl_parse sp (pre ++ s :: post) = PBad a.
Proof. intros sp pre a s n hv post C Cl K H. unfold cl_parse. rewrite C. simpl. rewrite Cl, K, H. reflexivity. Qed.

Lemma missing_value : forall sp pre a s n k, consumed sp pre a ->
  classify s = WFlag n None -> kind_of sp n = Some k -> k <> KBool -> cl_parse sp (pre ++ [s]) = PBad a.
Proof. intros sp pre a s n k C Cl K NB. unfold cl_parse. rewrite C. simpl. rewrite Cl, K. destruct k; congruence. Qed.


(* the last assignment of a flag wins *)
Lemma last_val_snoc : forall n a n' v, last_val n (a ++ [(n', v)]) = if String.eqb n n' then Some v else last_val n a.
Proof.
  intros n a n' v; induction a as [|[m w] a IH]; simpl.
  - destruct (String.eqb n n'); reflexivity.
  - rewrite IH. destruct (String.eqb n n'); [reflexivity|]. reflexivity.
Qed.
End Ext.
