(* C11, build half: GOOS / GOARCH of the caller never influence how the magefile itself is built.
   Model/Flags.v has no build component; the statement is made over C10's model of
   Magefiles / listGoFiles / Compile (Model/Constraints.v) and follows from its [flags_decide].
   When mage runs targets the flags -goos / -goarch are empty (Parse rejects them without -compile). *)
From Mage Require Import Base.Strs Model.Constraints Proof.Constraints_facts.
From Coq Require Import Permutation.

Lemma build_isolated : forall su env,
  envWithGOOS su "" "" = Some env ->
  compile_env su "" "" = Some env /\
  (exists m, splitEnv env = Some m /\ mget "GOOS" m = Some (su_hostos su) /\ mget "GOARCH" m = Some (su_hostarch su)) /\
  forall tag files,
    listGoFiles su tag env files = import_gofiles (ctx_for su (su_hostos su) (su_hostarch su) tag) files.
Proof.
  intros su env H. destruct (flags_decide su "" "" env H) as [C F].
  split; [exact C|]. destruct (F env (Permutation_refl env)) as [E L]. split; [exact E|exact L].
Qed.

(* the two platform fields of the context the magefiles are selected with *)
Lemma build_ctx_platform : forall su tag,
  b_goos (ctx_for su (su_hostos su) (su_hostarch su) tag) = su_hostos su /\
  b_goarch (ctx_for su (su_hostos su) (su_hostarch su) tag) = su_hostarch su.
Proof. intros. split; reflexivity. Qed.
