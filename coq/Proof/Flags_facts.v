(* Lemmas about Model/Flags.v (C11). *)
From Mage Require Import Base.Strs Model.Flags Proof.FlagPkg_facts.

(* ------------------------------------------------------------------ environments *)
Lemma eqb_sym_false : forall a b, String.eqb a b = false -> String.eqb b a = false.
Proof. intros a b H. rewrite String.eqb_sym. exact H. Qed.

Lemma lookup_app : forall k a b,
  lookup k (a ++ b) = match lookup k b with Some v => Some v | None => lookup k a end.
Proof.
  intros k a b; induction a as [|[k' v] a IH]; simpl.
  - destruct (lookup k b); reflexivity.
  - rewrite IH. destruct (lookup k b); reflexivity.
Qed.

Lemma lookup_single : forall k k' v, lookup k [(k', v)] = if String.eqb k k' then Some v else None.
Proof. reflexivity. Qed.

Lemma has_key_lookup : forall k e, has_key k e = false <-> lookup k e = None.
Proof.
  intros k e; induction e as [|[k' v] e IH]; simpl.
  - tauto.
  - unfold has_key in *. simpl. destruct (String.eqb k k') eqn:E; simpl.
    + split; [discriminate|]. destruct (lookup k e); discriminate.
    + rewrite IH. destruct (lookup k e); split; congruence.
Qed.

Lemma lookup_dedup : forall k e, lookup k (dedup_env e) = lookup k e.
Proof.
  intros k e; induction e as [|[k' v] e IH]; simpl; [reflexivity|].
  destruct (has_key k' e) eqn:H; simpl; rewrite IH; [|reflexivity].
  destruct (lookup k e) eqn:L; [reflexivity|].
  destruct (String.eqb k k') eqn:E; [|reflexivity].
  apply String.eqb_eq in E; subst k'. apply has_key_lookup in L. congruence.
Qed.

(* the de-duplicated list has every key once *)
Lemma has_key_dedup : forall k e, has_key k (dedup_env e) = has_key k e.
Proof.
  intros k e. destruct (has_key k e) eqn:H.
  - destruct (has_key k (dedup_env e)) eqn:H'; [reflexivity|].
    apply has_key_lookup in H'. rewrite lookup_dedup in H'. apply has_key_lookup in H'. congruence.
  - apply has_key_lookup. rewrite lookup_dedup. apply has_key_lookup. exact H.
Qed.

Lemma dedup_nodup : forall e, NoDup (map fst (dedup_env e)).
Proof.
  induction e as [|[k v] e IH]; simpl; [constructor|].
  destruct (has_key k e) eqn:H; [exact IH|]. simpl. constructor; [|exact IH].
  rewrite <- has_key_dedup in H. intro I. apply in_map_iff in I. destruct I as [[k' v'] [Ek I]]. simpl in Ek; subst k'.
  unfold has_key in H. assert (existsb (fun kv => String.eqb k (fst kv)) (dedup_env e) = true); [|congruence].
  apply existsb_exists. exists (k, v'). split; [exact I|]. apply String.eqb_refl.
Qed.

Lemma lookup_remove_key : forall k k' e,
  lookup k (remove_key k' e) = if String.eqb k k' then None else lookup k e.
Proof.
  intros k k' e; induction e as [|[k2 v] e IH]; simpl.
  - destruct (String.eqb k k'); reflexivity.
  - destruct (String.eqb k' k2) eqn:E2; simpl; rewrite IH.
    + destruct (String.eqb k k') eqn:E; [reflexivity|].
      destruct (lookup k e); [reflexivity|].
      apply String.eqb_eq in E2. rewrite <- E2, E. reflexivity.
    + destruct (String.eqb k k') eqn:E; [|reflexivity].
      apply String.eqb_eq in E; subst k'. rewrite E2. reflexivity.
Qed.

Lemma lookup_setenv : forall k k' v e,
  lookup k (setenv k' v e) = if String.eqb k k' then Some v else lookup k e.
Proof.
  intros k k' v e; induction e as [|[k2 v2] e IH]; simpl.
  - destruct (String.eqb k k'); reflexivity.
  - destruct (String.eqb k' k2) eqn:E2; simpl.
    + rewrite lookup_remove_key. apply String.eqb_eq in E2; subst k2.
      destruct (String.eqb k k'); [reflexivity|]. destruct (lookup k e); reflexivity.
    + rewrite IH. destruct (String.eqb k k') eqn:E; reflexivity.
Qed.

Lemma getenv_setenv_same : forall k v e, getenv k (setenv k v e) = v.
Proof. intros. unfold getenv. rewrite lookup_setenv, String.eqb_refl. reflexivity. Qed.

(* ------------------------------------------------------------------ booleans *)
Lemma parse_bool_b01 : forall b, parse_bool (b01 b) = Some b.
Proof. destruct b; reflexivity. Qed.

Lemma parse_bool_empty : parse_bool "" = None.
Proof. reflexivity. Qed.

(* the generated main's parseBool and the mg accessors read a variable the same way *)
Lemma tpl_parse_bool_mg : forall k e, tpl_parse_bool k e = mg_bool k e.
Proof.
  intros. unfold tpl_parse_bool, mg_bool. destruct (String.eqb (getenv k e) "") eqn:E.
  - apply String.eqb_eq in E. rewrite E. reflexivity.
  - reflexivity.
Qed.

Lemma mg_bool_lookup : forall k e e', lookup k e = lookup k e' -> mg_bool k e = mg_bool k e'.
Proof. intros. unfold mg_bool, getenv. rewrite H. reflexivity. Qed.

(* ------------------------------------------------------------------ keys *)
Definition magefile_key (k : string) : bool := String.prefix "MAGEFILE_" k.

Lemma not_magefile_key_neq : forall k s, magefile_key k = false -> magefile_key s = true -> String.eqb k s = false.
Proof.
  intros k s Hk Hs. destruct (String.eqb k s) eqn:E; [|reflexivity].
  apply String.eqb_eq in E; subst. congruence.
Qed.

Section Ext.
Variable parse_dur : string -> option Z.
Variable dur_string : Z -> string.
Variable join : string -> string -> string.

Notation invoke := (invoke join).
Notation appended := (appended dur_string).
Notation front_end := (front_end dur_string join).
Notation child_env := (child_env dur_string join).
Notation mage_args := (mage_args parse_dur dur_string join).
Notation mage_target_env := (mage_target_env parse_dur dur_string join).
Notation mage_cwd := (mage_cwd dur_string join).
Notation mage_build_dir := (mage_build_dir dur_string join).
Notation bin_args := (bin_args parse_dur).
Notation bin_target_env := (bin_target_env parse_dur).
Notation gm_parse := (gm_parse parse_dur).
Notation tpl_parse_duration := (tpl_parse_duration parse_dur).

(* every key RunCompiled appends starts with MAGEFILE_ *)
Lemma appended_keys : forall fixed inv k, magefile_key k = false -> lookup k (appended fixed inv) = None.
Proof.
  intros fixed inv k Hk. unfold appended, opt_entry.
  assert (V := not_magefile_key_neq k VERBOSE Hk eq_refl).
  assert (L := not_magefile_key_neq k LIST Hk eq_refl).
  assert (H := not_magefile_key_neq k HELP Hk eq_refl).
  assert (D := not_magefile_key_neq k DEBUG Hk eq_refl).
  assert (G := not_magefile_key_neq k GOCMD Hk eq_refl).
  assert (T := not_magefile_key_neq k TIMEOUT Hk eq_refl).
  destruct (i_verbose inv), (i_list inv), (i_help inv), (i_debug inv), fixed,
    (negb (String.eqb (i_gocmd inv) "")), (0 <? i_timeout inv)%Z;
    simpl; rewrite ?V, ?L, ?H, ?D, ?G, ?T; reflexivity.
Qed.

Lemma child_env_lookup : forall fixed lay f e k,
  lookup k (child_env fixed lay f e) =
  match lookup k (appended fixed (invoke lay (parse f e))) with Some v => Some v | None => lookup k e end.
Proof.
  intros. unfold Flags.child_env, Flags.front_end, exec_env, run_compiled_env. simpl.
  rewrite lookup_dedup, lookup_app. reflexivity.
Qed.

(* what RunCompiled's additions say about each of the six variables *)
Lemma appended_verbose : forall inv, lookup VERBOSE (appended true inv) = Some (b01 (i_verbose inv)).
Proof.
  intros. unfold appended, opt_entry.
  destruct (i_verbose inv), (i_list inv), (i_help inv), (i_debug inv),
    (negb (String.eqb (i_gocmd inv) "")), (0 <? i_timeout inv)%Z; reflexivity.
Qed.

Lemma appended_debug : forall inv, lookup DEBUG (appended true inv) = Some (b01 (i_debug inv)).
Proof.
  intros. unfold appended, opt_entry.
  destruct (i_verbose inv), (i_list inv), (i_help inv), (i_debug inv),
    (negb (String.eqb (i_gocmd inv) "")), (0 <? i_timeout inv)%Z; reflexivity.
Qed.

Lemma appended_list : forall fixed inv, lookup LIST (appended fixed inv) = if i_list inv then Some "1" else None.
Proof.
  intros. unfold appended, opt_entry.
  destruct (i_verbose inv), (i_list inv), (i_help inv), (i_debug inv), fixed,
    (negb (String.eqb (i_gocmd inv) "")), (0 <? i_timeout inv)%Z; reflexivity.
Qed.

Lemma appended_help : forall fixed inv, lookup HELP (appended fixed inv) = if i_help inv then Some "1" else None.
Proof.
  intros. unfold appended, opt_entry.
  destruct (i_verbose inv), (i_list inv), (i_help inv), (i_debug inv), fixed,
    (negb (String.eqb (i_gocmd inv) "")), (0 <? i_timeout inv)%Z; reflexivity.
Qed.

Lemma appended_gocmd : forall fixed inv,
  lookup GOCMD (appended fixed inv) = if negb (String.eqb (i_gocmd inv) "") then Some (i_gocmd inv) else None.
Proof.
  intros. unfold appended, opt_entry.
  destruct (i_verbose inv), (i_list inv), (i_help inv), (i_debug inv), fixed,
    (negb (String.eqb (i_gocmd inv) "")), (0 <? i_timeout inv)%Z; reflexivity.
Qed.

Lemma appended_timeout : forall fixed inv,
  lookup TIMEOUT (appended fixed inv) = if (0 <? i_timeout inv)%Z then Some (dur_string (i_timeout inv)) else None.
Proof.
  intros. unfold appended, opt_entry.
  destruct (i_verbose inv), (i_list inv), (i_help inv), (i_debug inv), fixed,
    (negb (String.eqb (i_gocmd inv) "")), (0 <? i_timeout inv)%Z; reflexivity.
Qed.

(* a key other than the six is not appended *)
Definition forwarded_key (k : string) : bool := in_strs k [VERBOSE; LIST; HELP; DEBUG; GOCMD; TIMEOUT].

Lemma appended_other : forall fixed inv k, forwarded_key k = false -> lookup k (appended fixed inv) = None.
Proof.
  intros fixed inv k Hk. unfold forwarded_key, in_strs in Hk. simpl in Hk.
  repeat (apply orb_false_elim in Hk; destruct Hk as [? Hk]).
  unfold appended, opt_entry.
  destruct (i_verbose inv), (i_list inv), (i_help inv), (i_debug inv), fixed,
    (negb (String.eqb (i_gocmd inv) "")), (0 <? i_timeout inv)%Z;
    simpl; repeat match goal with H : String.eqb k _ = false |- _ => rewrite H; clear H end; reflexivity.
Qed.

(* invoke leaves the switches alone and never leaves the go command empty *)
Lemma invoke_fields : forall lay inv,
  i_verbose (invoke lay inv) = i_verbose inv /\ i_debug (invoke lay inv) = i_debug inv /\
  i_list (invoke lay inv) = i_list inv /\ i_help (invoke lay inv) = i_help inv /\
  i_timeout (invoke lay inv) = i_timeout inv /\
  i_gocmd (invoke lay inv) = (if String.eqb (i_gocmd inv) "" then "go" else i_gocmd inv).
Proof. intros. unfold Flags.invoke. simpl. repeat split. Qed.

Lemma invoke_gocmd_nonempty : forall lay inv, String.eqb (i_gocmd (invoke lay inv)) "" = false.
Proof.
  intros. destruct (invoke_fields lay inv) as (_ & _ & _ & _ & _ & G). rewrite G.
  destruct (String.eqb (i_gocmd inv) "") eqn:E; [reflexivity|exact E].
Qed.

(* ------------------------------------------------------------------ the effective values, said directly *)
Definition var_true (k : string) (e : env) : bool :=
  match lookup k e with
  | Some v => in_strs v ["1"; "t"; "T"; "true"; "TRUE"; "True"]
  | None => false
  end.

Lemma mg_bool_var_true : forall k e, mg_bool k e = var_true k e.
Proof.
  intros. unfold mg_bool, var_true, getenv, parse_bool. destruct (lookup k e) as [v|]; [|reflexivity].
  destruct (in_strs v ["1"; "t"; "T"; "true"; "TRUE"; "True"]); [reflexivity|].
  destruct (in_strs v ["0"; "f"; "F"; "false"; "FALSE"; "False"]); reflexivity.
Qed.

Definition eff_verbose (f : flags) (e : env) : bool := match f_v f with Some b => b | None => var_true VERBOSE e end.
Definition eff_debug (f : flags) (e : env) : bool := match f_debug f with Some b => b | None => var_true DEBUG e end.
Definition nonempty_or_go (s : string) : string := if String.eqb s "" then "go" else s.
Definition eff_gocmd (f : flags) (e : env) : string :=
  nonempty_or_go (match f_gocmd f with Some s => s | None => match lookup GOCMD e with Some s => s | None => "" end end).

Lemma mg_gocmd_spec : forall e, mg_gocmd e = nonempty_or_go (match lookup GOCMD e with Some s => s | None => "" end).
Proof.
  intros. unfold mg_gocmd, nonempty_or_go, getenv. destruct (lookup GOCMD e) as [s|]; simpl; [|reflexivity].
  destruct (String.eqb s ""); reflexivity.
Qed.

Lemma inv_verbose : forall lay f e, i_verbose (invoke lay (parse f e)) = eff_verbose f e.
Proof. intros. unfold eff_verbose. simpl. unfold flag_or, mg_verbose. rewrite mg_bool_var_true. reflexivity. Qed.

Lemma inv_debug : forall lay f e, i_debug (invoke lay (parse f e)) = eff_debug f e.
Proof. intros. unfold eff_debug. simpl. unfold flag_or, mg_debug. rewrite mg_bool_var_true. reflexivity. Qed.

Lemma inv_gocmd : forall lay f e, i_gocmd (invoke lay (parse f e)) = eff_gocmd f e.
Proof.
  intros. unfold eff_gocmd. simpl. unfold flag_or. destruct (f_gocmd f) as [s|]; [reflexivity|].
  rewrite mg_gocmd_spec. unfold nonempty_or_go.
  destruct (String.eqb (match lookup GOCMD e with Some s => s | None => "" end) "") eqn:E; [reflexivity|rewrite E; reflexivity].
Qed.

(* ------------------------------------------------------------------ C11_accessors *)
Lemma mage_a_verbose0 : forall lay f e, a_verbose (mage_args true lay f no_cflags e) = eff_verbose f e.
Proof.
  intros. unfold Flags.mage_args, Flags.gm_parse. simpl. rewrite tpl_parse_bool_mg. unfold mg_bool, getenv.
  rewrite child_env_lookup, appended_verbose, parse_bool_b01. apply inv_verbose.
Qed.

Theorem accessors_mage0 : forall lay f e,
  let te := mage_target_env true lay f no_cflags e in
  mg_verbose te = eff_verbose f e /\ mg_debug te = eff_debug f e /\ mg_gocmd te = eff_gocmd f e.
Proof.
  intros lay f e te. subst te. unfold Flags.mage_target_env, gm_target_env. repeat split.
  - unfold mg_verbose, mg_bool. rewrite getenv_setenv_same, parse_bool_b01. apply mage_a_verbose0.
  - unfold mg_debug, mg_bool, getenv. rewrite lookup_setenv. simpl (String.eqb DEBUG VERBOSE). cbv iota.
    rewrite child_env_lookup, appended_debug, parse_bool_b01. apply inv_debug.
  - unfold mg_gocmd, getenv. rewrite lookup_setenv. simpl (String.eqb GOCMD VERBOSE). cbv iota.
    rewrite child_env_lookup, appended_gocmd. rewrite invoke_gocmd_nonempty.
    change (negb false) with true. cbv iota. rewrite invoke_gocmd_nonempty.
    change (negb false) with true. cbv iota. apply inv_gocmd.
Qed.

(* the compiled binary run directly: -v or the variable; no -debug / -gocmd flags exist *)
Definition eff_verbose_bin (cf : cflags) (e : env) : bool := match c_v cf with Some b => b | None => var_true VERBOSE e end.

Theorem accessors_bin : forall cf e,
  let te := bin_target_env cf e in
  mg_verbose te = eff_verbose_bin cf e /\ mg_debug te = var_true DEBUG e /\
  mg_gocmd te = nonempty_or_go (match lookup GOCMD e with Some s => s | None => "" end).
Proof.
  intros cf e te. subst te. unfold Flags.bin_target_env, gm_target_env. repeat split.
  - unfold mg_verbose, mg_bool. rewrite getenv_setenv_same, parse_bool_b01. simpl.
    unfold eff_verbose_bin, flag_or. rewrite tpl_parse_bool_mg, mg_bool_var_true. reflexivity.
  - unfold mg_debug. rewrite <- mg_bool_var_true. apply mg_bool_lookup. rewrite lookup_setenv. reflexivity.
  - rewrite <- mg_gocmd_spec. unfold mg_gocmd, getenv. rewrite lookup_setenv. reflexivity.
Qed.

(* before the repair: -v=false / -debug=false did not reach the target *)
Theorem before_repair_refuted :
  exists lay f e,
    mg_verbose (mage_target_env false lay f no_cflags e) <> eff_verbose f e /\
    mg_debug (mage_target_env false lay f no_cflags e) <> eff_debug f e.
Proof.
  exists {| has_magefiles_dir := false; top_has_magefiles := false |}.
  exists {| f_v := Some false; f_debug := Some false; f_l := None; f_h := None; f_t := None;
            f_gocmd := None; f_d := None; f_w := None |}.
  exists [("MAGEFILE_VERBOSE", "1"); ("MAGEFILE_DEBUG", "1")].
  split; vm_compute; discriminate.
Qed.

(* ------------------------------------------------------------------ C11_env_passthrough *)
Theorem env_passthrough : forall fixed lay f cf e k,
  magefile_key k = false -> lookup k (mage_target_env fixed lay f cf e) = lookup k e.
Proof.
  intros fixed lay f cf e k Hk. unfold Flags.mage_target_env, gm_target_env.
  rewrite lookup_setenv, (not_magefile_key_neq k VERBOSE Hk eq_refl).
  rewrite child_env_lookup, appended_keys by exact Hk. reflexivity.
Qed.

Theorem env_passthrough_bin : forall cf e k,
  String.eqb k VERBOSE = false -> lookup k (bin_target_env cf e) = lookup k e.
Proof.
  intros cf e k Hk. unfold Flags.bin_target_env, gm_target_env. rewrite lookup_setenv, Hk. reflexivity.
Qed.

(* ------------------------------------------------------------------ C11_magefile_vars_only_added *)
Theorem magefile_vars0 : forall lay f e,
  let te := mage_target_env true lay f no_cflags e in
  let inv := invoke lay (parse f e) in
  (forall k, forwarded_key k = false -> lookup k te = lookup k e) /\
  lookup VERBOSE te = Some (b01 (eff_verbose f e)) /\
  lookup DEBUG te = Some (b01 (eff_debug f e)) /\
  lookup GOCMD te = Some (eff_gocmd f e) /\
  lookup LIST te = (if flag_or (f_l f) false then Some "1" else lookup LIST e) /\
  lookup HELP te = (if flag_or (f_h f) false then Some "1" else lookup HELP e) /\
  lookup TIMEOUT te = (if (0 <? flag_or (f_t f) 0)%Z then Some (dur_string (flag_or (f_t f) 0%Z)) else lookup TIMEOUT e).
Proof.
  intros lay f e te inv. subst te inv. unfold Flags.mage_target_env, gm_target_env. repeat split.
  - intros k Hk. rewrite lookup_setenv.
    assert (String.eqb k VERBOSE = false) as ->.
    { unfold forwarded_key, in_strs in Hk. simpl in Hk. apply orb_false_elim in Hk. tauto. }
    rewrite child_env_lookup, appended_other by exact Hk. reflexivity.
  - rewrite lookup_setenv, String.eqb_refl. rewrite mage_a_verbose0. reflexivity.
  - rewrite lookup_setenv. simpl (String.eqb DEBUG VERBOSE). cbv iota.
    rewrite child_env_lookup, appended_debug, inv_debug. reflexivity.
  - rewrite lookup_setenv. simpl (String.eqb GOCMD VERBOSE). cbv iota.
    rewrite child_env_lookup, appended_gocmd, invoke_gocmd_nonempty. change (negb false) with true. cbv iota.
    rewrite inv_gocmd. reflexivity.
  - rewrite lookup_setenv. simpl (String.eqb LIST VERBOSE). cbv iota.
    rewrite child_env_lookup, appended_list. simpl. destruct (flag_or (f_l f) false); reflexivity.
  - rewrite lookup_setenv. simpl (String.eqb HELP VERBOSE). cbv iota.
    rewrite child_env_lookup, appended_help. simpl. destruct (flag_or (f_h f) false); reflexivity.
  - rewrite lookup_setenv. simpl (String.eqb TIMEOUT VERBOSE). cbv iota.
    rewrite child_env_lookup, appended_timeout. simpl. destruct (0 <? flag_or (f_t f) 0)%Z; reflexivity.
Qed.

(* ------------------------------------------------------------------ C11_same_effect *)
Record effective := { e_verbose : bool; e_list : bool; e_help : bool; e_timeout : Z }.
Definition eff_of (a : arguments) : effective :=
  {| e_verbose := a_verbose a; e_list := a_list a; e_help := a_help a; e_timeout := a_timeout a |}.

(* the flags the generated main understands, taken over unchanged *)
Definition cflags_of (f : flags) : cflags := {| c_v := f_v f; c_l := f_l f; c_h := f_h f; c_t := f_t f |}.

(* the same options written as variables *)
Definition vars_of (f : flags) : env :=
  match f_v f with Some b => [(VERBOSE, b01 b)] | None => [] end ++
  match f_l f with Some true => [(LIST, "1")] | _ => [] end ++
  match f_h f with Some true => [(HELP, "1")] | _ => [] end ++
  match f_t f with Some d => if (0 <? d)%Z then [(TIMEOUT, dur_string d)] else [] | None => [] end.

(* no switch is explicitly turned OFF on the front end except -v / -debug (which are forwarded either way) *)
Definition no_explicit_off (f : flags) : Prop :=
  f_l f <> Some false /\ f_h f <> Some false /\ (forall d, f_t f = Some d -> (0 < d)%Z).

Definition roundtrip (f : flags) : Prop :=
  forall d, f_t f = Some d -> (0 < d)%Z -> dur_string d <> "" /\ parse_dur (dur_string d) = Some d.

Lemma string_nonempty_b01 : forall b, String.eqb (b01 b) "" = false.
Proof. destruct b; reflexivity. Qed.

Lemma mage_effective0 : forall lay f e, roundtrip f ->
  eff_of (mage_args true lay f no_cflags e) =
  {| e_verbose := eff_verbose f e;
     e_list := if flag_or (f_l f) false then true else tpl_parse_bool LIST e;
     e_help := if flag_or (f_h f) false then true else tpl_parse_bool HELP e;
     e_timeout := if (0 <? flag_or (f_t f) 0)%Z then flag_or (f_t f) 0%Z else tpl_parse_duration TIMEOUT e |}.
Proof.
  intros lay f e RT. unfold eff_of. f_equal.
  - apply mage_a_verbose0.
  - unfold Flags.mage_args, Flags.gm_parse. simpl. unfold tpl_parse_bool, getenv.
    rewrite child_env_lookup, appended_list. simpl. destruct (flag_or (f_l f) false); reflexivity.
  - unfold Flags.mage_args, Flags.gm_parse. simpl. unfold tpl_parse_bool, getenv.
    rewrite child_env_lookup, appended_help. simpl. destruct (flag_or (f_h f) false); reflexivity.
  - unfold Flags.mage_args, Flags.gm_parse. simpl. unfold Flags.tpl_parse_duration, getenv.
    rewrite child_env_lookup, appended_timeout. simpl.
    destruct (0 <? flag_or (f_t f) 0)%Z eqn:T; [|reflexivity].
    destruct (f_t f) as [d|] eqn:Ft; simpl in *; [|discriminate].
    apply Z.ltb_lt in T. destruct (RT d Ft T) as [NE P].
    destruct (String.eqb (dur_string d) "") eqn:E; [apply String.eqb_eq in E; contradiction|].
    rewrite P. reflexivity.
Qed.

Lemma bin_effective : forall cf e,
  eff_of (bin_args cf e) =
  {| e_verbose := flag_or (c_v cf) (tpl_parse_bool VERBOSE e);
     e_list := flag_or (c_l cf) (tpl_parse_bool LIST e);
     e_help := flag_or (c_h cf) (tpl_parse_bool HELP e);
     e_timeout := flag_or (c_t cf) (tpl_parse_duration TIMEOUT e) |}.
Proof. reflexivity. Qed.

(* (a) the same options given to the compiled binary as flags *)
Theorem same_effect_flags0 : forall lay f e, roundtrip f -> no_explicit_off f ->
  eff_of (mage_args true lay f no_cflags e) = eff_of (bin_args (cflags_of f) e).
Proof.
  intros lay f e RT (NL & NH & NT). rewrite mage_effective0 by exact RT. rewrite bin_effective.
  unfold cflags_of, eff_verbose; simpl. f_equal.
  - unfold flag_or. destruct (f_v f); [reflexivity|]. rewrite tpl_parse_bool_mg, mg_bool_var_true. reflexivity.
  - destruct (f_l f) as [[|]|]; simpl; try reflexivity. congruence.
  - destruct (f_h f) as [[|]|]; simpl; try reflexivity. congruence.
  - destruct (f_t f) as [d|]; simpl; [|reflexivity].
    specialize (NT d eq_refl). apply Z.ltb_lt in NT. rewrite NT. reflexivity.
Qed.

(* (b) the same options given to the compiled binary as MAGEFILE_* variables (appended to, i.e.
   overriding, the environment) *)
Lemma lookup_vars_of : forall f,
  lookup VERBOSE (vars_of f) = match f_v f with Some b => Some (b01 b) | None => None end /\
  lookup LIST (vars_of f) = match f_l f with Some true => Some "1" | _ => None end /\
  lookup HELP (vars_of f) = match f_h f with Some true => Some "1" | _ => None end /\
  lookup TIMEOUT (vars_of f) = match f_t f with Some d => if (0 <? d)%Z then Some (dur_string d) else None | None => None end.
Proof.
  intros. unfold vars_of.
  destruct (f_v f) as [bv|]; destruct (f_l f) as [[|]|]; destruct (f_h f) as [[|]|]; destruct (f_t f) as [d|];
    try destruct (0 <? d)%Z; repeat split; reflexivity.
Qed.

Theorem same_effect_vars0 : forall lay f e, roundtrip f ->
  eff_of (mage_args true lay f no_cflags e) = eff_of (bin_args no_cflags (e ++ vars_of f)).
Proof.
  intros lay f e RT. rewrite mage_effective0 by exact RT. rewrite bin_effective.
  destruct (lookup_vars_of f) as (LV & LL & LH & LT).
  unfold no_cflags; simpl. f_equal.
  - unfold eff_verbose. rewrite tpl_parse_bool_mg. unfold mg_bool, getenv. rewrite lookup_app, LV.
    destruct (f_v f) as [b|]; [rewrite parse_bool_b01; reflexivity|].
    rewrite <- mg_bool_var_true. reflexivity.
  - unfold tpl_parse_bool, getenv. rewrite lookup_app, LL.
    destruct (f_l f) as [[|]|]; reflexivity.
  - unfold tpl_parse_bool, getenv. rewrite lookup_app, LH.
    destruct (f_h f) as [[|]|]; reflexivity.
  - unfold Flags.tpl_parse_duration, getenv. rewrite lookup_app, LT.
    destruct (f_t f) as [d|] eqn:Ft; simpl; [|reflexivity].
    destruct (0 <? d)%Z eqn:T; [|reflexivity].
    apply Z.ltb_lt in T. destruct (RT d Ft T) as [NE P].
    destruct (String.eqb (dur_string d) "") eqn:E; [apply String.eqb_eq in E; contradiction|].
    rewrite P. reflexivity.
Qed.

(* ------------------------------------------------------------------ the compiled program's own flags
   (the words behind a consumed "--"): they are laid over what the environment RunCompiled built says *)
Definition overlay (cf : cflags) (x : effective) : effective :=
  {| e_verbose := flag_or (c_v cf) (e_verbose x); e_list := flag_or (c_l cf) (e_list x);
     e_help := flag_or (c_h cf) (e_help x); e_timeout := flag_or (c_t cf) (e_timeout x) |}.

Lemma gm_parse_overlay : forall cf e, eff_of (gm_parse cf e) = overlay cf (eff_of (gm_parse no_cflags e)).
Proof. reflexivity. Qed.

Lemma mage_args_overlay : forall fixed lay f cf e,
  eff_of (mage_args fixed lay f cf e) = overlay cf (eff_of (mage_args fixed lay f no_cflags e)).
Proof. reflexivity. Qed.

(* the flags the compiled binary is given directly: its own where given, else the front end's *)
Definition merge_flags (f : flags) (cf : cflags) : cflags :=
  {| c_v := match c_v cf with Some b => Some b | None => f_v f end;
     c_l := match c_l cf with Some b => Some b | None => f_l f end;
     c_h := match c_h cf with Some b => Some b | None => f_h f end;
     c_t := match c_t cf with Some d => Some d | None => f_t f end |}.

Theorem same_effect_flags : forall lay f cf e, roundtrip f -> no_explicit_off f ->
  eff_of (mage_args true lay f cf e) = eff_of (bin_args (merge_flags f cf) e).
Proof.
  intros lay f cf e RT NO. rewrite mage_args_overlay, (same_effect_flags0 lay f e RT NO), !bin_effective.
  unfold overlay, merge_flags, cflags_of, flag_or; simpl.
  destruct (c_v cf), (c_l cf), (c_h cf), (c_t cf); reflexivity.
Qed.

Theorem same_effect_vars : forall lay f cf e, roundtrip f ->
  eff_of (mage_args true lay f cf e) = eff_of (bin_args cf (e ++ vars_of f)).
Proof.
  intros lay f cf e RT. rewrite mage_args_overlay, (same_effect_vars0 lay f e RT).
  unfold Flags.bin_args. rewrite (gm_parse_overlay cf). reflexivity.
Qed.

Lemma target_env_other : forall fixed lay f cf e k, String.eqb k VERBOSE = false ->
  lookup k (mage_target_env fixed lay f cf e) = lookup k (mage_target_env fixed lay f no_cflags e).
Proof. intros. unfold Flags.mage_target_env, gm_target_env. rewrite !lookup_setenv, H. reflexivity. Qed.

Theorem accessors_mage : forall lay f cf e,
  let te := mage_target_env true lay f cf e in
  mg_verbose te = flag_or (c_v cf) (eff_verbose f e) /\ mg_debug te = eff_debug f e /\ mg_gocmd te = eff_gocmd f e.
Proof.
  intros lay f cf e te. subst te. destruct (accessors_mage0 lay f e) as (_ & D & G). repeat split.
  - unfold Flags.mage_target_env, gm_target_env, mg_verbose, mg_bool. rewrite getenv_setenv_same, parse_bool_b01.
    change (a_verbose (mage_args true lay f cf e)) with (flag_or (c_v cf) (a_verbose (mage_args true lay f no_cflags e))).
    rewrite mage_a_verbose0. reflexivity.
  - rewrite <- D. apply mg_bool_lookup. apply target_env_other. reflexivity.
  - rewrite <- G. unfold mg_gocmd, getenv. rewrite (target_env_other true lay f cf e GOCMD eq_refl). reflexivity.
Qed.

Theorem magefile_vars : forall lay f cf e,
  let te := mage_target_env true lay f cf e in
  (forall k, forwarded_key k = false -> lookup k te = lookup k e) /\
  lookup VERBOSE te = Some (b01 (flag_or (c_v cf) (eff_verbose f e))) /\
  lookup DEBUG te = Some (b01 (eff_debug f e)) /\
  lookup GOCMD te = Some (eff_gocmd f e) /\
  lookup LIST te = (if flag_or (f_l f) false then Some "1" else lookup LIST e) /\
  lookup HELP te = (if flag_or (f_h f) false then Some "1" else lookup HELP e) /\
  lookup TIMEOUT te = (if (0 <? flag_or (f_t f) 0)%Z then Some (dur_string (flag_or (f_t f) 0%Z)) else lookup TIMEOUT e).
Proof.
  intros lay f cf e te. subst te. destruct (magefile_vars0 lay f e) as (O & _ & D & G & L & H & T).
  repeat split.
  - intros k Hk. rewrite <- (O k Hk). apply target_env_other.
    unfold forwarded_key, in_strs in Hk. simpl in Hk. apply orb_false_elim in Hk. tauto.
  - unfold Flags.mage_target_env, gm_target_env. rewrite lookup_setenv, String.eqb_refl.
    change (a_verbose (mage_args true lay f cf e)) with (flag_or (c_v cf) (a_verbose (mage_args true lay f no_cflags e))).
    rewrite mage_a_verbose0. reflexivity.
  - rewrite <- D. apply target_env_other. reflexivity.
  - rewrite <- G. apply target_env_other. reflexivity.
  - rewrite <- L. apply target_env_other. reflexivity.
  - rewrite <- H. apply target_env_other. reflexivity.
  - rewrite <- T. apply target_env_other. reflexivity.
Qed.

(* ------------------------------------------------------------------ whole command lines *)
Notation cl_parse := (cl_parse parse_dur).
Notation consumed := (consumed parse_dur).
Notation binary_cmdline := (binary_cmdline parse_dur).
Notation mage_cmdline := (mage_cmdline parse_dur dur_string join).

Lemma cflags_of_no_assigns : cflags_of_assigns [] = no_cflags.
Proof. reflexivity. Qed.

Lemma binary_cmdline_runs : forall ws e a rest, cl_parse gen_spec ws = POk a rest ->
  binary_cmdline ws e = Runs (bin_args (cflags_of_assigns a) e) (bin_target_env (cflags_of_assigns a) e) rest.
Proof. intros ws e a rest H. unfold Flags.binary_cmdline. rewrite H. reflexivity. Qed.

Lemma binary_cmdline_rejected : forall ws e,
  (exists a, cl_parse gen_spec ws = PBad a) <-> binary_cmdline ws e = Rejected 2.
Proof.
  intros ws e. unfold Flags.binary_cmdline. destruct (FlagPkg.cl_parse parse_dur gen_spec ws); split; intros H;
    try discriminate; eauto; destruct H as [? H]; discriminate.
Qed.

(* words behind "--" are the compiled program's command line, in the environment RunCompiled built *)
Lemma mage_cmdline_dashdash : forall fixed lay pre a post e,
  consumed front_spec pre a -> flag_or (get_bool "h" a) false = false ->
  mage_cmdline fixed lay (pre ++ "--" :: post) e = binary_cmdline post (child_env fixed lay (flags_of a) e).
Proof.
  intros fixed lay pre a post e C H. unfold Flags.mage_cmdline.
  rewrite (consumed_then_terminator parse_dur front_spec pre a post C), H. reflexivity.
Qed.

Lemma mage_cmdline_dashdash_runs : forall lay pre a post e a' ws,
  consumed front_spec pre a -> flag_or (get_bool "h" a) false = false -> cl_parse gen_spec post = POk a' ws ->
  mage_cmdline true lay (pre ++ "--" :: post) e =
    Runs (mage_args true lay (flags_of a) (cflags_of_assigns a') e)
         (mage_target_env true lay (flags_of a) (cflags_of_assigns a') e) ws.
Proof.
  intros lay pre a post e a' ws C H P. rewrite (mage_cmdline_dashdash true lay pre a post e C H).
  rewrite (binary_cmdline_runs post _ a' ws P). reflexivity.
Qed.

Lemma mage_cmdline_dashdash_rejected : forall lay pre a post e a',
  consumed front_spec pre a -> flag_or (get_bool "h" a) false = false -> cl_parse gen_spec post = PBad a' ->
  mage_cmdline true lay (pre ++ "--" :: post) e = Rejected 2.
Proof.
  intros lay pre a post e a' C H P. rewrite (mage_cmdline_dashdash true lay pre a post e C H).
  apply binary_cmdline_rejected. eauto.
Qed.

(* without "--": the first plain word ends the flags, the compiled program gets no flag *)
Lemma mage_cmdline_words : forall lay pre a t post e,
  consumed front_spec pre a -> classify t = WNonFlag ->
  mage_cmdline true lay (pre ++ t :: post) e =
    Runs (mage_args true lay (flags_of a) no_cflags e) (mage_target_env true lay (flags_of a) no_cflags e) (t :: post).
Proof.
  intros lay pre a t post e C N. unfold Flags.mage_cmdline.
  rewrite (consumed_then_word parse_dur front_spec pre a t post C N).
  replace (flag_or (get_bool "h" a) false && false) with false by (destruct (flag_or (get_bool "h" a) false); reflexivity).
  unfold Flags.binary_cmdline, FlagPkg.cl_parse. rewrite (parse_nonflag parse_dur gen_spec t post [] N). reflexivity.
Qed.

Lemma mage_cmdline_rejected : forall lay ws e a, cl_parse front_spec ws = PBad a -> mage_cmdline true lay ws e = Rejected 2.
Proof. intros lay ws e a H. unfold Flags.mage_cmdline. rewrite H. reflexivity. Qed.

(* -l among the compiled program's flags lists (unless -h without a word asks for the usage first) *)
Lemma list_mode : forall a nargs d e, a_list a = true -> (a_help a && Nat.eqb nargs 0) = false -> gm_mode a nargs d e = MList.
Proof. intros a nargs d e L H. unfold gm_mode. rewrite H, L. reflexivity. Qed.

Lemma cflags_last_wins : forall a (b : bool) (d : Z),
  c_v (cflags_of_assigns (a ++ [("v", VB b)])) = Some b /\ c_l (cflags_of_assigns (a ++ [("l", VB b)])) = Some b /\
  c_h (cflags_of_assigns (a ++ [("h", VB b)])) = Some b /\ c_t (cflags_of_assigns (a ++ [("t", VD d)])) = Some d.
Proof.
  intros. unfold cflags_of_assigns, get_bool, get_dur; simpl. rewrite !last_val_snoc. repeat split.
Qed.

(* the limit: an explicit -l=false / -h=false / -t 0 / negative -t on the front end does not override
   an inherited variable (nothing is appended), on the compiled binary it does *)
Definition toy_parse_dur (s : string) : option Z := if String.eqb s "1m30s" then Some 90000000000%Z else None.
Definition toy_dur_string (d : Z) : string := "1m30s".
End Ext.

Definition lay0 := {| has_magefiles_dir := false; top_has_magefiles := false |}.
Definition noflags := {| f_v := None; f_debug := None; f_l := None; f_h := None; f_t := None;
                         f_gocmd := None; f_d := None; f_w := None |}.
Definition jn (a b : string) : string := (a ++ "/" ++ b)%string.

Theorem explicit_off_refuted :
  let eff_mage f e := eff_of (mage_args toy_parse_dur toy_dur_string jn true lay0 f no_cflags e) in
  let eff_bin f e := eff_of (bin_args toy_parse_dur (cflags_of f) e) in
  (exists f e, f_l f = Some false /\ e_list (eff_mage f e) = true /\ e_list (eff_bin f e) = false) /\
  (exists f e, f_h f = Some false /\ e_help (eff_mage f e) = true /\ e_help (eff_bin f e) = false) /\
  (exists f e, f_t f = Some 0%Z /\ e_timeout (eff_mage f e) = 90000000000%Z /\ e_timeout (eff_bin f e) = 0%Z) /\
  (exists f e, f_t f = Some (-5000000000)%Z /\ e_timeout (eff_mage f e) = 0%Z /\ e_timeout (eff_bin f e) = (-5000000000)%Z).
Proof.
  repeat split.
  - exists {| f_v := None; f_debug := None; f_l := Some false; f_h := None; f_t := None; f_gocmd := None; f_d := None; f_w := None |},
           [("MAGEFILE_LIST", "1")]. vm_compute. auto.
  - exists {| f_v := None; f_debug := None; f_l := None; f_h := Some false; f_t := None; f_gocmd := None; f_d := None; f_w := None |},
           [("MAGEFILE_HELP", "1")]. vm_compute. auto.
  - exists {| f_v := None; f_debug := None; f_l := None; f_h := None; f_t := Some 0%Z; f_gocmd := None; f_d := None; f_w := None |},
           [("MAGEFILE_TIMEOUT", "1m30s")]. vm_compute. auto.
  - exists {| f_v := None; f_debug := None; f_l := None; f_h := None; f_t := Some (-5000000000)%Z; f_gocmd := None; f_d := None; f_w := None |},
           []. vm_compute. auto.
Qed.

(* command lines with "--" (each replayed on the real mage) *)
Definition toy_pd2 (s : string) : option Z :=
  if String.eqb s "5m" then Some 300000000000%Z else if String.eqb s "5m0s" then Some 300000000000%Z
  else if String.eqb s "1h" then Some 3600000000000%Z else if String.eqb s "-5s" then Some (-5000000000)%Z else None.
Definition toy_ds2 (d : Z) : string := "5m0s".
Definition mode_of (o : outcome) (has_default : bool) : option mode :=
  match o with Runs a te ws => Some (gm_mode a (length ws) has_default te) | _ => None end.

Lemma dashdash_rows :
  let run ws := mage_cmdline toy_pd2 toy_ds2 jn true lay0 ws [] in
  (exists a te, run ["-v=false"; "-t"; "5m"; "--"; "-v"; "-t"; "1h"; "probe"] = Runs a te ["probe"] /\
                a_verbose a = true /\ a_timeout a = 3600000000000%Z /\ mg_verbose te = true) /\
  mode_of (run ["--"; "-l"]) true = Some MList /\
  run ["--"; "-x"] = Rejected 2 /\
  (exists a te, run ["--"; "-t"; "-5s"; "probe"] = Runs a te ["probe"] /\ a_timeout a = (-5000000000)%Z) /\
  mode_of (run ["--"; "-h"; "probe"]) true = Some MHelp /\
  run ["--"; "-t"; "xyz"; "probe"] = Rejected 2 /\
  (exists a te, run ["-v"; "--"] = Runs a te [] /\ a_verbose a = true) /\ mode_of (run ["-v"; "--"]) true = Some MRun /\
  (exists a te, run ["probearg"; "--"] = Runs a te ["probearg"; "--"]) /\
  (exists a te, run ["--"; "--"; "-l"] = Runs a te ["-l"] /\ a_list a = false) /\
  (exists a te, run ["-t"; "5m"; "probe"] = Runs a te ["probe"] /\ a_timeout a = 300000000000%Z) /\
  run ["--"; "--help"] = UsageShown /\ run ["-h"] = UsageShown /\
  binary_cmdline toy_pd2 ["-v"; "-t"; "1h"; "probe"] [] =
    Runs (bin_args toy_pd2 {| c_v := Some true; c_l := None; c_h := None; c_t := Some 3600000000000%Z |} [])
         (bin_target_env toy_pd2 {| c_v := Some true; c_l := None; c_h := None; c_t := Some 3600000000000%Z |} []) ["probe"].
Proof. vm_compute. repeat split; try (do 2 eexists; repeat split). Qed.

(* ------------------------------------------------------------------ C11_cwd *)
Definition nonempty (o : option string) : option string :=
  match o with Some s => if String.eqb s "" then None else Some s | None => None end.

Theorem cwd_rule : forall dur_string join lay f e,
  mage_cwd dur_string join lay f e =
  match nonempty (f_w f) with
  | Some w => w
  | None => match nonempty (f_d f) with Some d => d | None => "." end
  end.
Proof.
  intros. unfold mage_cwd, front_end, run_compiled_dir, invoke, parse, nonempty, flag_or. simpl.
  set (dir := if String.eqb (match f_d f with Some x => x | None => "" end) "" then "." else match f_d f with Some x => x | None => "" end).
  set (wd := if String.eqb (match f_w f with Some x => x | None => "" end) "" then dir else match f_w f with Some x => x | None => "" end).
  set (dir' := if has_magefiles_dir lay then if top_has_magefiles lay then dir else join dir "magefiles" else dir).
  assert (R : (if negb (String.eqb wd dir') then wd else dir') = wd).
  { destruct (String.eqb wd dir') eqn:E; simpl; [apply String.eqb_eq in E; congruence|reflexivity]. }
  rewrite R. subst wd dir.
  destruct (f_w f) as [w|]; destruct (f_d f) as [d|]; simpl;
    repeat match goal with |- context [String.eqb ?x ""] => destruct (String.eqb x "") end; reflexivity.
Qed.

(* with a magefiles directory (and no magefiles beside it) the program is built from <d>/magefiles
   and runs in its parent d *)
Theorem cwd_magefiles_dir : forall dur_string join lay f e,
  has_magefiles_dir lay = true -> top_has_magefiles lay = false -> nonempty (f_w f) = None ->
  let d := match nonempty (f_d f) with Some d => d | None => "." end in
  mage_build_dir dur_string join lay f e = join d "magefiles" /\ mage_cwd dur_string join lay f e = d.
Proof.
  intros dur_string join lay f e H1 H2 W d. split.
  - subst d. unfold mage_build_dir, front_end, invoke, parse, nonempty, flag_or. simpl. rewrite H1, H2.
    destruct (f_d f) as [x|]; simpl; [destruct (String.eqb x ""); reflexivity|reflexivity].
  - rewrite cwd_rule, W. reflexivity.
Qed.

(* the wiring of the three streams: all the model can say *)
Theorem streams_wired : forall inv nargs, run_compiled_wiring inv nargs =
  {| w_stdin := CallerStdin; w_stdout := CallerStdout; w_stderr := CallerStderr |}.
Proof. reflexivity. Qed.

Theorem streams_wired_each : forall inv nargs,
  w_stdin (run_compiled_wiring inv nargs) = CallerStdin /\
  w_stdout (run_compiled_wiring inv nargs) = CallerStdout /\
  w_stderr (run_compiled_wiring inv nargs) = CallerStderr.
Proof. intros; repeat split. Qed.

(* ------------------------------------------------------------------ non-vacuity *)
Definition ex_env : env :=
  [("GOOS", "plan9"); ("EQ", "a=b=c"); ("EMPTY", ""); ("SP", "x y"); ("MAGEFILE_VERBOSE", "garbage");
   ("FOO", "old"); ("MAGEFILE_DEBUG", "1"); ("MAGEFILE_CACHE", "/c"); ("FOO", "bar")].
Definition ex_flags : flags :=
  {| f_v := Some true; f_debug := Some false; f_l := None; f_h := None; f_t := Some 90000000000%Z;
     f_gocmd := Some "/x/gowrap"; f_d := Some "proj"; f_w := None |}.
Definition ex_lay := {| has_magefiles_dir := true; top_has_magefiles := false |}.
Definition ex_cf : cflags := no_cflags.

Lemma nonvacuous_c11 :
  roundtrip toy_parse_dur toy_dur_string ex_flags /\ no_explicit_off ex_flags /\
  let te := mage_target_env toy_parse_dur toy_dur_string jn true ex_lay ex_flags ex_cf ex_env in
  eff_of (mage_args toy_parse_dur toy_dur_string jn true ex_lay ex_flags ex_cf ex_env) =
    {| e_verbose := true; e_list := false; e_help := false; e_timeout := 90000000000%Z |} /\
  eff_of (bin_args toy_parse_dur (cflags_of ex_flags) ex_env) =
    {| e_verbose := true; e_list := false; e_help := false; e_timeout := 90000000000%Z |} /\
  mg_verbose te = true /\ mg_debug te = false /\ mg_gocmd te = "/x/gowrap" /\
  lookup "GOOS" te = Some "plan9" /\ lookup "EQ" te = Some "a=b=c" /\ lookup "EMPTY" te = Some "" /\
  lookup "FOO" te = Some "bar" /\ lookup "NOSUCH" te = None /\ lookup "MAGEFILE_CACHE" te = Some "/c" /\
  lookup "MAGEFILE_TIMEOUT" te = Some "1m30s" /\
  mage_cwd toy_dur_string jn ex_lay ex_flags ex_env = "proj" /\
  mage_build_dir toy_dur_string jn ex_lay ex_flags ex_env = "proj/magefiles".
Proof.
  split; [|split].
  - intros d H _. injection H as <-. split; [discriminate|reflexivity].
  - repeat split; try discriminate. intros d H. injection H as <-. reflexivity.
  - vm_compute. repeat split.
Qed.
